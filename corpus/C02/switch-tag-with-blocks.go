package p

// constant-case switch whose tag expression creates basic blocks

func f(a, b bool) int {
	switch a && b {
	case true:
		return 1
	}
	return 0
}

func g(a, b bool, x int) int {
	switch x > 0 || (a && b) {
	case false:
		x++
	case true:
		return x
	}
	return 0
}
