package p

var fuel int

func F0(a, b int, c bool) (r int) {
	var v0 int = a
	var v1 int = a
	var v2 int = a
	goto B1
B0:
	fuel--
	if fuel < 0 {
		return v0
	}
	if c {
		goto B0
	}
	goto B1
B1:
	fuel--
	if fuel < 0 {
		return v0
	}
	v1, v2 = v2, v1
	if c {
		goto B0
	}
	goto B2
B2:
	fuel--
	if fuel < 0 {
		return v0
	}
	v1, v2 = v2, v1
	v1, v2 = v2, v1
	goto B0
}
