package p

// verif:numfuncs=1
// A defer inside a range-over-func body is pushed onto the enclosing
// function's defer stack by the synthesized yield closure. The enclosing
// function contains no Defer instruction of its own.

func itoa(n int) string {
	if n == 0 {
		return "0"
	}
	neg := n < 0
	if neg {
		n = -n
	}
	var b []byte
	for n > 0 {
		b = append([]byte{byte('0' + n%10)}, b...)
		n /= 10
	}
	if neg {
		return "-" + string(b)
	}
	return string(b)
}

func seq(n int) func(func(int) bool) {
	return func(yield func(int) bool) {
		for i := 0; i < n; i++ {
			if !yield(i) {
				return
			}
		}
	}
}

func f(n int) (s string) {
	for i := range seq(n) {
		defer func() { s += itoa(i) }()
	}
	return "end"
}

func Run(fn int, a int, b int, str string, c bool) (out string) {
	return f(a%4+1) + "|" + f(b%3)
}
