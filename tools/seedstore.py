#!/usr/bin/env python3
"""tools/seedstore.py <prop> <n> <srcdir> <detected:yes|no|after-strengthening> <detected_by> <needs...>
Copies a confirmed seeded change into /verif/seeded/<prop>-<n>/ with meta.json."""
import sys, os, shutil, json, subprocess
prop, n, src, detected, by = sys.argv[1:6]
needs = " ".join(sys.argv[6:])
dst = "/verif/seeded/%s-%s" % (prop, n)
if os.path.exists(dst):
    shutil.rmtree(dst)
os.makedirs(dst)
for name in os.listdir(src):
    p = os.path.join(src, name)
    if name.endswith(".log") and os.path.getsize(p) > 200000:
        continue
    if os.path.isdir(p):
        shutil.copytree(p, os.path.join(dst, name))
    else:
        shutil.copy(p, dst)
head = subprocess.check_output(["git", "-C", "/repo", "log", "--format=%h", "-1"]).decode().strip()
meta = {
    "property": prop,
    "needs_to_manifest": needs,
    "patch": "patch.diff (git apply against /repo at %s or later)" % head,
    "confirmed": "tools/seedconfirm.sh in a scratch worktree: project builds with the patch, the demonstration fails with it and passes without it (the sub-agent additionally ran the existing tests of the touched packages with the patch: all pass; see README.md)",
    "check_run": "tools/seedrun.sh %s patch.diff (git apply to /repo, ./check %s quick, git checkout -- .)" % (prop, prop),
    "detected": detected,
    "detected_by": by,
}
json.dump(meta, open(os.path.join(dst, "meta.json"), "w"), indent=1)
print("stored", dst)
