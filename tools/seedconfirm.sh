#!/bin/bash
# usage: tools/seedconfirm.sh <worktree> <patch> <demo-src> <demo-dst-relative> <test-cmd...>
# Confirms a seeded change in a scratch worktree: demo fails with the patch, passes without; existing package tests pass with the patch.
wt=$1; patch=$2; src=$3; dst=$4; shift 4
export GOFLAGS=-mod=mod GOPROXY=off
cd "$wt" || exit 3
git checkout -q -- . && git clean -fdq
git apply --check "$patch" || { echo "PATCH-DOES-NOT-APPLY"; exit 3; }
mkdir -p "$(dirname "$dst")"; cp -r "$src" "$dst"
"$@" > /tmp/seedconfirm.without.log 2>&1; rc0=$?
git apply "$patch"
go build ./... > /tmp/seedconfirm.build.log 2>&1; rcb=$?
"$@" > /tmp/seedconfirm.with.log 2>&1; rc1=$?
rm -rf "$dst"
echo "build_with_patch=$rcb demo_without_patch=$rc0 demo_with_patch=$rc1"
git checkout -q -- . && git clean -fdq
