#!/usr/bin/env python3
"""Regenerates /verif/MANIFEST.json from props.json (single source of truth)."""
import json, os
ROOT = os.path.dirname(os.path.dirname(os.path.abspath(__file__)))
props = json.load(open(os.path.join(ROOT, "props.json")))
allids = [json.loads(l)["id"] for l in open(os.path.join(ROOT, "properties.jsonl"))]
pending = json.load(open(os.path.join(ROOT, "tools", "pending.json")))
checks = []
for pid in allids:
    if pid not in props or props[pid].get("disabled"):
        continue
    c = props[pid]
    checks.append({
        "property_id": pid,
        "quick_cmd": "./check %s quick" % pid,
        "thorough_cmd": "./check %s thorough" % pid,
        "evidence_file": "evidence/%s.json" % pid,
        "replay_cmd_template": "./check %s --replay {path}" % pid,
        "engine": c.get("engine", "rapid"),
        "level_claimed": {"category": c["level"], "text": c["level_text"], "design_ref": c.get("design_ref", "DESIGN.md §3 " + pid)},
        "level_note": c["level_note"],
        "technique": c["technique"],
    })
na = []
for pid in allids:
    if pid in props and not props[pid].get("disabled"):
        continue
    na.append({"property_id": pid, "reason": pending.get(pid, "check not built yet in this session; see DESIGN.md §3 for the planned generated-input check")})
m = {
    "version": 1,
    "setup_cmd": "./check setup",
    "hooks": {
        "guard": "verif",
        "enable": "go build/test -tags verif (the harness module replaces honnef.co/go/tools with /repo, so every check compiles the current working tree)",
        "baseline_off_cmd": "cd /repo && GOFLAGS=-mod=mod GOPROXY=off go test -vet=off -count=1 -timeout 25m ./...",
        "source_commits": json.load(open(os.path.join(ROOT, "tools", "hooks.json"))),
        "add_only": True,
    },
    "engines": [
        {"name": "rapid", "path": "harness/", "serves_properties": [c["property_id"] for c in checks],
         "kind_free_text": "pgregory.net/rapid v1.3.0 property-based tests (stateful where histories are quantified), sharded over 16 processes by ./check, explicit oracle per property, shrunk failures saved as replay files"},
    ],
    "checks": checks,
    "notes": "Technique family: property-based testing and fuzzing only. ./check <id> quick|thorough; VERIF_SEED selects the PRNG seed (0 is remapped to 1). Exit 2 = infrastructure/inconclusive, never a verdict. known_findings.json lists fixed (and, if any, known) defects.",
    "not_applicable": na,
}
json.dump(m, open(os.path.join(ROOT, "MANIFEST.json"), "w"), indent=1)
print("MANIFEST.json: %d checks, %d not claimed" % (len(checks), len(na)))
