#!/bin/bash
# usage: tools/seedrun.sh <property> <patch> [tier]   — applies the patch to /repo, runs the check, reverts
prop=$1; patch=$2; tier=${3:-quick}
exec 9>/tmp/verif-repo.lock; flock 9; export VERIF_LOCK_HELD=1
cd /repo || exit 3
git diff --quiet || { echo "repo dirty"; exit 3; }
git apply "$patch" || { echo "PATCH-DOES-NOT-APPLY"; exit 3; }
cd /verif && ./check $prop $tier 2>&1 | grep -E "^(VIOLATION|KNOWN|INCONCLUSIVE|BUILD-FAILED|C[0-9]+ (quick|thorough))" | cut -c1-160 | sort | uniq -c | sort -rn | head -5
git -C /repo checkout -q -- . ; git -C /repo clean -fdq
git -C /verif checkout -q -- evidence 2>/dev/null
