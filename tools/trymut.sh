#!/bin/bash
# usage: tools/trymut.sh <property> <file-in-repo> <python-replace-old> <new>   (applies to /repo, runs quick, reverts)
prop=$1; file=$2; old=$3; new=$4
cd /repo || exit 3
git diff --quiet || { echo "repo dirty"; exit 3; }
python3 - "$file" "$old" "$new" <<'PY'
import sys
f,old,new=sys.argv[1:4]
s=open(f).read()
if old not in s:
    print("PATTERN NOT FOUND"); sys.exit(4)
open(f,'w').write(s.replace(old,new,1))
PY
rc=$?
if [ $rc -ne 0 ]; then git checkout -- .; exit $rc; fi
(GOFLAGS=-mod=mod GOPROXY=off go build ./... 2>&1 | head -5)
cd /verif && ./check $prop quick 2>&1 | grep -E "^(VIOLATION|KNOWN|INCONCLUSIVE|BUILD-FAILED|C[0-9]+ quick)" | cut -c1-200 | head -8
git -C /repo checkout -- .
git -C /verif checkout -- evidence 2>/dev/null
