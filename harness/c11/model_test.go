package c11

import (
	"regexp"
	"sort"
	"strings"
)

// Reference model of the documented check-selection algebra, written from
// website/content/docs/configuration/{_index,options}.md, the 2026.2 release
// notes ("Case-insensitive check names") and the statement of C11 — not from
// config.go / lint.go.
//
//   - Configuration files apply to subtrees; files deeper in the tree override
//     files higher up. A set option overrides the inherited value, an unset
//     option inherits it, the value "inherit" inside a list stands for the
//     inherited list.
//   - The outermost inherited value is the default configuration: "all" minus
//     the checks documented as non-default.
//   - The -checks flag is applied last (its default is "inherit").
//   - A list is read left to right; every element enables — or, with a leading
//     minus sign, disables — "all"/"*" (everything), "XY*" with a letters-only
//     prefix (exactly the checks of category XY: "S*" is S1000.. but not
//     SA1000), "XY1*" (every check whose name starts with XY1), or one check by
//     its full name. Names are compared case-insensitively. Unknown names
//     select nothing.

type universe struct {
	names      []string // lower-case names of all checks of the binary
	nonDefault []string // lower-case, sorted

	prettyDefault bool // for messages: the default list is shown as one token
}

func (u *universe) defaultList() []string {
	if u.prettyDefault {
		return []string{"<default>"}
	}
	l := []string{"all"}
	for _, n := range u.nonDefault {
		l = append(l, "-"+n)
	}
	return l
}

func isInherit(tok string) bool { return strings.EqualFold(tok, "inherit") }

// splice returns list with every "inherit" replaced by parent.
func splice(parent, list []string) []string {
	var out []string
	for _, el := range list {
		if isInherit(el) {
			out = append(out, parent...)
		} else {
			out = append(out, el)
		}
	}
	return out
}

var lettersOnly = regexp.MustCompile(`^[a-z]+$`)

// selects reports whether the (lower-case, sign-free) element sel covers check name.
func selects(sel, name string) bool {
	switch {
	case sel == "all" || sel == "*":
		return true
	case strings.HasSuffix(sel, "*"):
		prefix := strings.TrimSuffix(sel, "*")
		if lettersOnly.MatchString(prefix) {
			// category: the prefix must be the whole alphabetic part of the name
			rest := strings.TrimPrefix(name, prefix)
			return rest != name && rest != "" && rest[0] >= '0' && rest[0] <= '9'
		}
		return strings.HasPrefix(name, prefix)
	default:
		return sel == name
	}
}

// eval reads a fully spliced list left to right.
func (u *universe) eval(list []string) map[string]bool {
	set := map[string]bool{}
	for _, el := range list {
		el = strings.ToLower(el)
		on := true
		if len(el) > 1 && el[0] == '-' {
			on = false
			el = el[1:]
		}
		for _, n := range u.names {
			if selects(el, n) {
				if on {
					set[n] = true
				} else {
					delete(set, n)
				}
			}
		}
	}
	return set
}

// confChecks returns the checks lists (nil = unset) of the configuration files
// from the module root down to dir, outermost first.
func chain(dir string, confs map[string]*[]string) [][]string {
	var path []string
	path = append(path, "")
	if dir != "" {
		parts := strings.Split(dir, "/")
		for i := range parts {
			path = append(path, strings.Join(parts[:i+1], "/"))
		}
	}
	var out [][]string
	for _, d := range path {
		if l, ok := confs[d]; ok && l != nil {
			out = append(out, *l)
		}
	}
	return out
}

// resolved returns the spliced list that applies to the package in dir.
func (u *universe) resolved(dir string, confs map[string]*[]string, cli *[]string) []string {
	cur := u.defaultList()
	for _, l := range chain(dir, confs) {
		cur = splice(cur, l)
	}
	if cli != nil {
		cur = splice(cur, *cli)
	}
	return cur
}

func setString(s map[string]bool) string {
	ks := make([]string, 0, len(s))
	for k := range s {
		ks = append(ks, k)
	}
	sort.Strings(ks)
	return strings.Join(ks, ",")
}
