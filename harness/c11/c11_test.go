package c11

import (
	"encoding/json"
	"fmt"
	"os"
	"path"
	"path/filepath"
	"sort"
	"strings"
	"testing"
	"unicode"

	"pgregory.net/rapid"
	"verif/harness/internal/ev"
	"verif/harness/internal/rn"
)

func TestMain(m *testing.M) { ev.Main(m) }

const rule = "case = a fixed module (packages ., a, a/b, c with known triggers of S/SA/ST/U checks incl. non-default ones, a //lint:ignore'd and a //lint:file-ignore'd problem; variants with a type error, an unresolvable import, an unmatched //lint:ignore directive, a malformed directive) + a generated tree of staticcheck.conf files (per directory absent / empty / only another option / checks list / invalid TOML) + generated -checks and -fail lists (absent or lists over inherit, all, *, category globs, prefix globs, exact names, negations, unknown names, mixed case, duplicates) + -f in {text,stylish,json,sarif} + sometimes -show-ignored; oracle = reference model of the documented algebra (outermost-to-innermost merge with inherit splicing onto the default 'all minus non-default', CLI last, left-to-right case-insensitive evaluation) applied to the problems of a `-checks \"*\" -show-ignored -f json` run of the same tree, plus the exit status rule and per-format parsers; non-trivial = -checks has 'inherit' and a negation, some staticcheck.conf has 'inherit', and the model's allow sets of two packages differ; distinct by hash of (conf tree, -checks, -fail)"

// ---------------------------------------------------------------- case

type Conf struct {
	Dir       string    `json:"dir"`
	Checks    *[]string `json:"checks"`    // nil: the file does not set checks
	Other     bool      `json:"other"`     // the file sets another option
	Malformed bool      `json:"malformed"` // the file is not valid TOML
}

type Case struct {
	Variant     string    `json:"variant"`
	Confs       []Conf    `json:"confs"`
	Checks      *[]string `json:"checks_flag"` // nil: flag absent
	Fail        *[]string `json:"fail_flag"`   // nil: flag absent
	Format      string    `json:"format"`
	ShowIgnored bool      `json:"show_ignored"`
}

func tomlList(l []string) string {
	q := make([]string, len(l))
	for i, s := range l {
		q[i] = `"` + s + `"`
	}
	return "[" + strings.Join(q, ", ") + "]"
}

func (c Conf) render(withChecks bool) string {
	if c.Malformed {
		return "checks = [\"all\"\n"
	}
	var sb strings.Builder
	if c.Checks != nil && withChecks {
		sb.WriteString("checks = " + tomlList(*c.Checks) + "\n")
	}
	if c.Other {
		sb.WriteString("http_status_code_whitelist = [\"inherit\", \"418\"]\n")
	}
	return sb.String()
}

func (c *Case) confFiles(withChecks bool) map[string]string {
	m := map[string]string{}
	for _, cf := range c.Confs {
		m[cf.Dir] = cf.render(withChecks)
	}
	return m
}

func (c *Case) args() []string {
	var a []string
	if c.Checks != nil {
		a = append(a, "-checks="+strings.Join(*c.Checks, ","))
	}
	if c.Fail != nil {
		a = append(a, "-fail="+strings.Join(*c.Fail, ","))
	}
	a = append(a, "-f="+c.Format)
	if c.ShowIgnored {
		a = append(a, "-show-ignored")
	}
	return a
}

func (c *Case) describe() string {
	var sb strings.Builder
	fmt.Fprintf(&sb, "source variant %q; ", c.Variant)
	if len(c.Confs) == 0 {
		sb.WriteString("no staticcheck.conf files; ")
	}
	for _, cf := range c.Confs {
		d := cf.Dir
		if d == "" {
			d = "."
		}
		fmt.Fprintf(&sb, "%s/staticcheck.conf = %q; ", d, cf.render(true))
	}
	fmt.Fprintf(&sb, "command: staticcheck %s ./...", strings.Join(c.args(), " "))
	return sb.String()
}

// ---------------------------------------------------------------- universe / alphabet

var (
	uni       *universe
	relevant  = []string{"SA4000", "S1002", "ST1005", "ST1000", "ST1003", "SA9003", "ST1016", "ST1020", "ST1021", "ST1022", "U1000", "SA1000", "S1005", "S1039", "SA4009", "S1000", "S1003", "ST1006"}
	catGlobs  = []string{"S*", "SA*", "ST*", "QF*", "U*"}
	preGlobs  = []string{"SA4*", "SA40*", "SA400*", "S1*", "S10*", "S100*", "ST1*", "ST10*", "ST100*", "ST102*", "SA1*", "SA9*", "SA10*", "U1*"}
	unknowns  = []string{"SA0000", "XX1000", "foo", "S", "SA", "SA4", "-", "compile", "staticcheck", "config", "1*", "S1*0", "X*"}
	origNames []string // analyzer names in their documented spelling
)

func loadUniverse() error {
	if uni != nil {
		return nil
	}
	u := &universe{}
	for _, a := range rn.Lint(false) {
		n := strings.ToLower(a.Analyzer.Name)
		u.names = append(u.names, n)
		origNames = append(origNames, a.Analyzer.Name)
		if a.Doc != nil && a.Doc.NonDefault {
			u.nonDefault = append(u.nonDefault, n)
		}
	}
	sort.Strings(u.names)
	sort.Strings(u.nonDefault)
	sort.Strings(origNames)
	if len(u.names) < 100 || len(u.nonDefault) == 0 {
		return fmt.Errorf("implausible check list: %d checks, %d non-default", len(u.names), len(u.nonDefault))
	}
	uni = u
	return nil
}

// ---------------------------------------------------------------- generator

type genOpts struct {
	mixedCaseInherit bool     // allowed only when the known finding is absent
	variants         []string // weighted list of source variants
}

// variantWeights: every first analysis of a variant is a cold run, so a quick
// shard uses the base sources and ONE other variant chosen by its shard index;
// the thorough tier uses all variants in every shard.
func variantWeights() []string {
	others := []string{"typeerr", "unmatched", "importerr", "malformed"}
	w := []string{"base", "base", "base", "base", "base", "base"}
	if ev.Thorough() || os.Getenv("C11_ALL_VARIANTS") != "" {
		return append(w, "base", "base", "base", "base", "base", "base", "typeerr", "typeerr", "typeerr", "importerr", "importerr", "unmatched", "unmatched", "unmatched", "malformed", "malformed")
	}
	o := others[ev.Shard()%len(others)]
	return append(w, o, o, o, o)
}

func mangle(t *rapid.T, s string) string {
	switch rapid.IntRange(0, 2).Draw(t, "case") {
	case 0:
		return strings.ToLower(s)
	case 1:
		return strings.ToUpper(s)
	default:
		rs := []rune(s)
		for i := range rs {
			if i%2 == 0 {
				rs[i] = unicode.ToLower(rs[i])
			} else {
				rs[i] = unicode.ToUpper(rs[i])
			}
		}
		return string(rs)
	}
}

func genElem(t *rapid.T, allowInherit bool, prev []string, o genOpts) string {
	k := rapid.IntRange(0, 99).Draw(t, "elem")
	var s string
	inherit := false
	switch {
	case k < 12:
		if allowInherit {
			s, inherit = "inherit", true
		} else {
			s = "all"
		}
	case k < 20:
		s = rapid.SampledFrom([]string{"all", "*"}).Draw(t, "all")
	case k < 35:
		s = rapid.SampledFrom(catGlobs).Draw(t, "cat")
	case k < 50:
		s = rapid.SampledFrom(preGlobs).Draw(t, "prefix")
	case k < 80:
		s = rapid.SampledFrom(relevant).Draw(t, "exact")
	case k < 87:
		s = rapid.SampledFrom(origNames).Draw(t, "any")
	case k < 95:
		s = rapid.SampledFrom(unknowns).Draw(t, "unknown")
	default:
		if len(prev) > 0 {
			return prev[rapid.IntRange(0, len(prev)-1).Draw(t, "dup")]
		}
		s = rapid.SampledFrom(relevant).Draw(t, "exact")
	}
	if inherit {
		if o.mixedCaseInherit && rapid.IntRange(0, 5).Draw(t, "manglei") == 0 {
			s = mangle(t, s)
		} else if !o.mixedCaseInherit {
			ev.Count("generator_keeps_inherit_lower_case_known_finding", 1)
		}
		return s
	}
	if rapid.IntRange(0, 99).Draw(t, "neg") < 40 && s != "-" {
		s = "-" + s
	}
	if rapid.IntRange(0, 99).Draw(t, "mangle") < 15 {
		s = mangle(t, s)
	}
	return s
}

func genList(t *rapid.T, allowInherit, inheritFirst, needNeg bool, o genOpts) []string {
	n := rapid.SampledFrom([]int{1, 1, 2, 2, 2, 3, 3, 4, 5, 0}).Draw(t, "len")
	var l []string
	if inheritFirst && allowInherit {
		l = append(l, "inherit")
		if n == 0 {
			n = 1
		}
	}
	for i := 0; i < n; i++ {
		l = append(l, genElem(t, allowInherit, l, o))
	}
	if needNeg {
		has := false
		for _, e := range l {
			if len(e) > 1 && e[0] == '-' {
				has = true
			}
		}
		if !has {
			s := rapid.SampledFrom(append(append([]string{}, relevant...), "S*", "ST*", "SA4*", "ST102*")).Draw(t, "negelem")
			l = append(l, "-"+s)
		}
	}
	if l == nil {
		l = []string{}
	}
	return l
}

func genCase(t *rapid.T, o genOpts) *Case {
	c := &Case{}
	c.Variant = rapid.SampledFrom(o.variants).Draw(t, "variant")
	layered := rapid.Bool().Draw(t, "layered")
	forced := "a"
	if layered {
		forced = rapid.SampledFrom([]string{"a", "a", "c", "a/b"}).Draw(t, "forced")
	}
	malformedConf := rapid.IntRange(0, 19).Draw(t, "malformedconf") == 0
	// at most one directory sets an option other than checks: the reference run
	// is memoised per (variant, non-checks content of the tree)
	otherDir := rapid.SampledFrom([]string{"-", "-", "-", "-", "-", "-", "", "a", "a/b", "c"}).Draw(t, "otherdir")
	// deep: configuration files on every level of the path to the sibling directories a/b and a/d
	deep := rapid.IntRange(0, 3).Draw(t, "deep") == 0
	for _, d := range pkgDirs {
		kind := rapid.SampledFrom([]string{"absent", "absent", "absent", "absent", "checks", "checks", "checks", "checks", "checks", "checks", "empty", "malformed"}).Draw(t, "conf "+d)
		if deep && (d == "" || d == "a" || d == "a/b" || d == "a/d") && !strings.HasPrefix(kind, "checks") {
			kind = "checks"
		}
		if kind == "malformed" && !malformedConf {
			kind = "absent"
		}
		if d == otherDir {
			switch kind {
			case "checks":
				kind = "checks+other"
			case "absent", "empty":
				kind = "other"
			}
		}
		if layered && d == forced && !strings.HasPrefix(kind, "checks") {
			kind = "checks"
		}
		cf := Conf{Dir: d}
		switch kind {
		case "absent":
			continue
		case "checks", "checks+other":
			first := rapid.IntRange(0, 99).Draw(t, "inheritfirst") < 55 || (layered && d == forced)
			l := genList(t, true, first, layered && d == forced, o)
			cf.Checks = &l
			cf.Other = kind == "checks+other"
		case "other":
			cf.Other = true
		case "empty":
		case "malformed":
			cf.Malformed = true
			malformedConf = false // at most one
		}
		c.Confs = append(c.Confs, cf)
	}
	if layered || rapid.IntRange(0, 99).Draw(t, "haschecks") < 60 {
		l := genList(t, true, layered || rapid.IntRange(0, 99).Draw(t, "cliinherit") < 50, layered, o)
		if len(l) == 0 {
			// `-checks ""` leaves the flag's list nil; the documentation does not say what that means
			ev.Count("generator_skips_empty_checks_flag", 1)
			l = []string{"inherit"}
		}
		c.Checks = &l
	}
	switch k := rapid.IntRange(0, 99).Draw(t, "hasfail"); {
	case k < 40:
	case k < 46:
		c.Fail = &[]string{}
	default:
		l := genList(t, false, false, false, o)
		c.Fail = &l
	}
	c.Format = rapid.SampledFrom([]string{"text", "stylish", "json", "sarif"}).Draw(t, "format")
	c.ShowIgnored = rapid.IntRange(0, 3).Draw(t, "showignored") == 0
	return c
}

// ---------------------------------------------------------------- oracle

func special(code string) bool {
	return code == "compile" || code == "config" || code == "staticcheck"
}

func pkgDirOf(file string) string {
	d := path.Dir(file)
	if d == "." {
		return ""
	}
	return d
}

// pAll measures the problems of all checks for the case's sources and the
// non-checks part of its configuration tree.
func (w *workspace) pAll(c *Case) ([]Prob, error) {
	files := c.confFiles(false)
	key := c.Variant
	for _, d := range sortedKeys(files) {
		if files[d] != "" { // an empty file sets nothing
			key += "|" + d + "=" + files[d]
		}
	}
	if ps, ok := w.pall[key]; ok {
		return ps, nil
	}
	if err := w.writeConfs(c.Variant, files); err != nil {
		return nil, err
	}
	dir, _ := w.dir(c.Variant)
	res, err := w.run(dir, "-checks=*", "-show-ignored", "-f=json")
	if err != nil {
		return nil, err
	}
	if res.exit != 0 && res.exit != 1 {
		return nil, fmt.Errorf("reference run exited %d: %s", res.exit, res.stderr)
	}
	ps, err := parseJSON(dir, res.stdout)
	if err != nil {
		return nil, fmt.Errorf("reference run: %v", err)
	}
	names := map[string]bool{}
	for _, n := range uni.names {
		names[n] = true
	}
	for i := range ps {
		ps[i].Ignored = ps[i].Sev == "ignored"
		if !special(ps[i].Code) && !names[strings.ToLower(ps[i].Code)] {
			return nil, fmt.Errorf("reference run reports %q which is not a known check", ps[i].Code)
		}
	}
	if len(ps) == 0 {
		return nil, fmt.Errorf("reference run found no problems: %s %s", res.stdout, res.stderr)
	}
	w.pall[key] = ps
	return ps, nil
}

type expectation struct {
	printed      []Prob
	hidden       int // ignored problems that are not printed
	nonZero      bool
	wouldFail    bool // nonZero before the SARIF rule
	errors       int
	warnings     int
	allow        map[string]map[string]bool
	visIgnored   bool // -show-ignored makes an ignored problem visible
	optionsMdDep bool // result would differ under the default list printed in options.md
}

func confMap(c *Case) map[string]*[]string {
	m := map[string]*[]string{}
	for _, cf := range c.Confs {
		if !cf.Malformed {
			m[cf.Dir] = cf.Checks
		}
	}
	return m
}

func expect(c *Case, pall []Prob) (*expectation, error) {
	e := &expectation{allow: map[string]map[string]bool{}}
	confs := confMap(c)
	for _, d := range pkgDirs {
		e.allow[d] = uni.eval(uni.resolved(d, confs, c.Checks))
	}
	fail := []string{"all"} // documented default of -fail
	if c.Fail != nil {
		fail = *c.Fail
	}
	failSet := uni.eval(fail)
	dirs := directives(c.Variant)
	// the default as printed in options.md lacks SA9003 and ST1023
	alt := &universe{names: uni.names}
	for _, n := range uni.nonDefault {
		if n != "sa9003" && n != "st1023" {
			alt.nonDefault = append(alt.nonDefault, n)
		}
	}
	for _, p := range pall {
		keep := false
		code := strings.ToLower(p.Code)
		switch {
		case p.Code == "compile" || p.Code == "config":
			keep = true
		case p.Code == "staticcheck":
			// "Checks that have been disabled via configuration files will not cause
			// directives to be considered unnecessary."
			names, ok := dirs[fmt.Sprintf("%s:%d", p.File, p.Line)]
			if !ok {
				return nil, fmt.Errorf("reference run has a directive problem at %s:%d where the sources have no directive: %s", p.File, p.Line, p.Msg)
			}
			for _, n := range names {
				if e.allow[pkgDirOf(p.File)][n] {
					keep = true
				}
			}
		default:
			allow, ok := e.allow[pkgDirOf(p.File)]
			if !ok {
				return nil, fmt.Errorf("problem in unexpected directory: %s", p.key())
			}
			keep = allow[code]
			if altKeep := alt.eval(alt.resolved(pkgDirOf(p.File), confs, c.Checks))[code]; altKeep != keep {
				e.optionsMdDep = true
			}
		}
		if !keep {
			continue
		}
		if p.Ignored && !c.ShowIgnored {
			e.hidden++
			continue
		}
		q := p
		switch {
		case p.Ignored:
			q.Sev = "ignored"
			q.Suppressed = true
			e.visIgnored = true
		case special(p.Code) || failSet[code]:
			q.Sev = "error"
			e.errors++
		default:
			q.Sev = "warning"
			e.warnings++
		}
		e.printed = append(e.printed, q)
	}
	e.wouldFail = e.errors > 0
	e.nonZero = e.wouldFail && c.Format != "sarif"
	return e, nil
}

func diffKeys(want, got []string) string {
	wm, gm := map[string]int{}, map[string]int{}
	for _, k := range want {
		wm[k]++
	}
	for _, k := range got {
		gm[k]++
	}
	var sb strings.Builder
	for _, k := range want {
		if wm[k] > gm[k] {
			fmt.Fprintf(&sb, "  missing:    %s\n", k)
			wm[k]--
		}
	}
	for _, k := range got {
		if gm[k] > wm[k] {
			fmt.Fprintf(&sb, "  unexpected: %s\n", k)
			gm[k]--
		}
	}
	return sb.String()
}

const (
	sigShowIgnored = "show-ignored-counts-ignored-problems"
	sigInheritCase = "inherit-is-case-sensitive"
)

func (c *Case) hasMixedCaseInherit() bool {
	check := func(l *[]string) bool {
		if l == nil {
			return false
		}
		for _, e := range *l {
			if isInherit(e) && e != "inherit" {
				return true
			}
		}
		return false
	}
	for _, cf := range c.Confs {
		if !cf.Malformed && check(cf.Checks) {
			return true
		}
	}
	return check(c.Checks)
}

type verdict struct {
	msg   string // violation text, "" if the property holds
	infra string
	exp   *expectation
	exit  int
}

func evaluate(w *workspace, c *Case) verdict {
	if variantFiles(c.Variant) == nil {
		return verdict{infra: "unknown variant " + c.Variant}
	}
	pall, err := w.pAll(c)
	if err != nil {
		return verdict{infra: err.Error()}
	}
	exp, err := expect(c, pall)
	if err != nil {
		return verdict{infra: err.Error()}
	}
	if err := w.writeConfs(c.Variant, c.confFiles(true)); err != nil {
		return verdict{infra: err.Error()}
	}
	dir, _ := w.dir(c.Variant)
	res, err := w.run(dir, c.args()...)
	if err != nil {
		return verdict{infra: err.Error()}
	}
	var sb strings.Builder
	if res.exit != 0 && res.exit != 1 {
		fmt.Fprintf(&sb, "exit status %d (a lint run exits 0 or 1); stderr: %s\n", res.exit, res.stderr)
	}
	if strings.Contains(res.stderr, "panic:") || strings.Contains(res.stderr, "goroutine ") {
		fmt.Fprintf(&sb, "staticcheck crashed: %s\n", res.stderr)
	} else if res.stderr != "" {
		ev.Count("stderr_nonempty", 1)
	}
	var got []Prob
	var perr error
	full := func(p Prob) string { return p.key() }
	switch c.Format {
	case "text":
		got, perr = parseText(dir, res.stdout)
	case "stylish":
		var st stylishStats
		got, st, perr = parseStylish(dir, res.stdout)
		if perr == nil {
			if !st.present {
				fmt.Fprintf(&sb, "stylish output has no summary line\n")
			} else {
				// ignored problems are neither errors nor warnings, shown or not
				ignored := exp.hidden + len(exp.printed) - exp.errors - exp.warnings
				if st.errors != exp.errors || st.warnings != exp.warnings || st.ignored != ignored {
					fmt.Fprintf(&sb, "stylish summary says %d errors, %d warnings, %d ignored; expected %d errors, %d warnings, %d ignored\n",
						st.errors, st.warnings, st.ignored, exp.errors, exp.warnings, ignored)
				}
				if st.total != len(exp.printed)+exp.hidden {
					fmt.Fprintf(&sb, "stylish summary says %d problems; %d are printed and %d ignored ones are hidden\n", st.total, len(exp.printed), exp.hidden)
				}
			}
		}
	case "json":
		got, perr = parseJSON(dir, res.stdout)
		full = func(p Prob) string {
			return fmt.Sprintf("%s end=%d:%d severity=%s", p.key(), p.EndLine, p.EndCol, p.Sev)
		}
	case "sarif":
		got, _, perr = parseSARIF(dir, res.stdout)
		full = func(p Prob) string {
			return fmt.Sprintf("%s end=%d:%d suppressed=%v", p.key(), p.EndLine, p.EndCol, p.Suppressed)
		}
	default:
		return verdict{infra: "unknown format " + c.Format}
	}
	if perr != nil {
		fmt.Fprintf(&sb, "cannot parse the %s output: %v\n", c.Format, perr)
	} else {
		wantK, gotK := keys(exp.printed, full), keys(got, full)
		if d := diffKeys(wantK, gotK); d != "" {
			fmt.Fprintf(&sb, "printed problems differ from the problems of all checks restricted to the documented selection (%d expected, %d printed):\n%s", len(wantK), len(gotK), d)
			pretty := &universe{prettyDefault: true}
			for _, d := range pkgDirs {
				l := fmt.Sprint(pretty.resolved(d, confMap(c), c.Checks))
				if len(l) > 400 {
					l = l[:400] + "…"
				}
				fmt.Fprintf(&sb, "  package %q: list after splicing %s\n", "./"+d, l)
			}
		}
	}
	if (res.exit != 0) != exp.nonZero {
		why := "no non-ignored printed problem is in the -fail set or a compile/config/directive error"
		if exp.wouldFail {
			why = fmt.Sprintf("%d non-ignored printed problems are in the -fail set or compile/config/directive errors", exp.errors)
			if c.Format == "sarif" {
				why += ", but SARIF output always exits 0"
			}
		}
		fmt.Fprintf(&sb, "exit status %d; expected %s because %s\n", res.exit, map[bool]string{true: "non-zero", false: "0"}[exp.nonZero], why)
	}
	v := verdict{exp: exp, exit: res.exit}
	if sb.Len() > 0 {
		out := res.stdout
		if len(out) > 1500 {
			out = out[:1500] + "…"
		}
		v.msg = fmt.Sprintf("%s\n%s\noutput:\n%s", c.describe(), sb.String(), out)
	}
	return v
}

// knownSig returns the signature of the known-finding class the case belongs to.
func knownSig(c *Case, v verdict) string {
	if c.hasMixedCaseInherit() {
		return sigInheritCase
	}
	if v.exp != nil && v.exp.visIgnored {
		return sigShowIgnored
	}
	return ""
}

// ---------------------------------------------------------------- evidence

func tokenClasses(l *[]string, where string, add func(string)) {
	if l == nil {
		add(where + "_absent")
		return
	}
	if len(*l) == 0 {
		add(where + "_empty_list")
	}
	seen := map[string]bool{}
	names := map[string]bool{}
	for _, n := range uni.names {
		names[n] = true
	}
	for _, e := range *l {
		if seen[e] {
			add("tok_duplicate")
		}
		seen[e] = true
		le := strings.ToLower(e)
		if len(le) > 1 && le[0] == '-' {
			add("tok_negation")
			le = le[1:]
		}
		body := strings.TrimPrefix(e, "-")
		canon := strings.ToUpper(body) // documented spelling of check names and globs
		switch {
		case le == "inherit":
			add("tok_inherit")
			canon = "inherit"
			if body != canon {
				add("tok_inherit_nonstandard_case")
			}
		case le == "all":
			add("tok_all")
			canon = "all"
		case le == "*":
			add("tok_star")
		case strings.HasSuffix(le, "*") && lettersOnly.MatchString(strings.TrimSuffix(le, "*")):
			add("tok_category_glob")
		case strings.HasSuffix(le, "*"):
			add("tok_prefix_glob")
		case names[le]:
			add("tok_exact_name")
		default:
			add("tok_unknown_name")
			canon = body
		}
		if body != canon {
			add("tok_nonstandard_case")
		}
	}
}

func record(c *Case, v verdict) (nontrivial bool) {
	set := map[string]bool{}
	add := func(s string) { set[s] = true }
	add("format_" + c.Format)
	add("variant_" + c.Variant)
	if c.ShowIgnored {
		add("show_ignored")
		if v.exp.visIgnored {
			add("show_ignored_with_visible_ignored_problem")
		}
	}
	tokenClasses(c.Checks, "checks_flag", add)
	tokenClasses(c.Fail, "fail_flag", add)
	confInherit := false
	levels := map[string]int{}
	for _, cf := range c.Confs {
		switch {
		case cf.Malformed:
			add("conf_invalid_toml")
		case cf.Checks != nil && cf.Other:
			add("conf_checks_and_other_option")
		case cf.Checks != nil:
			add("conf_checks")
		case cf.Other:
			add("conf_other_option_only")
		default:
			add("conf_empty_file")
		}
		if cf.Checks != nil && !cf.Malformed {
			tokenClasses(cf.Checks, "conf", add)
			for _, e := range *cf.Checks {
				if isInherit(e) {
					confInherit = true
				}
			}
			for _, d := range pkgDirs {
				if d == cf.Dir || strings.HasPrefix(d, cf.Dir+"/") || cf.Dir == "" {
					levels[d]++
				}
			}
		}
	}
	if len(c.Confs) == 0 {
		add("no_conf_files")
	}
	for _, n := range levels {
		if n >= 2 {
			add("package_with_2plus_conf_levels")
		}
		if n >= 3 {
			add("package_with_3_conf_levels")
		}
	}
	cliInherit, cliNeg := false, false
	if c.Checks != nil {
		for _, e := range *c.Checks {
			if isInherit(e) {
				cliInherit = true
			}
			if len(e) > 1 && e[0] == '-' {
				cliNeg = true
			}
		}
	}
	differ := false
	first := setString(v.exp.allow[""])
	for _, d := range pkgDirs[1:] {
		if setString(v.exp.allow[d]) != first {
			differ = true
		}
	}
	if differ {
		add("allow_sets_differ_between_packages")
	}
	switch {
	case v.exp.nonZero:
		add("exit_nonzero")
	case v.exp.wouldFail:
		add("exit_zero_sarif_despite_errors")
	case len(v.exp.printed) > 0:
		add("exit_zero_with_printed_problems")
	default:
		add("exit_zero_nothing_printed")
	}
	if v.exp.errors > 0 && v.exp.warnings > 0 {
		add("errors_and_warnings_mixed")
	}
	onlySpecial := v.exp.errors > 0
	for _, p := range v.exp.printed {
		if p.Sev == "error" && !special(p.Code) {
			onlySpecial = false
		}
		switch p.Code {
		case "compile", "config", "staticcheck":
			add("prints_" + p.Code + "_problem")
		}
	}
	if onlySpecial {
		add("exit_nonzero_only_by_compile_config_directive")
	}
	if v.exp.optionsMdDep {
		add("result_depends_on_SA9003_or_ST1023_being_non_default")
	}
	nontrivial = cliInherit && cliNeg && confInherit && differ
	var classes []string
	for k := range set {
		classes = append(classes, k)
	}
	sort.Strings(classes)
	cj, _ := json.Marshal(struct {
		Confs  []Conf
		Checks *[]string
		Fail   *[]string
	}{c.Confs, c.Checks, c.Fail})
	ev.Case(ev.Hash(string(cj)), nontrivial, classes...)
	return nontrivial
}

// ---------------------------------------------------------------- known findings: fixed cases

func strs(s ...string) *[]string { return &s }

// Only file-ignored ST1005 problems of package c are selected; -show-ignored
// must print them without making the run fail.
var probeShowIgnored = Case{Variant: "base", Confs: []Conf{{Dir: "", Checks: strs()}, {Dir: "c", Checks: strs("ST1005")}}, Format: "json", ShowIgnored: true}

// "INHERIT" must behave like "inherit".
var probeInheritCase = Case{Variant: "base", Checks: strs("INHERIT", "-ST1005"), Format: "text"}

type defects struct{ showIgnored, inheritCase bool }

func probeDefects(w *workspace) (defects, error) {
	var d defects
	v := evaluate(w, &probeShowIgnored)
	if v.infra != "" {
		return d, fmt.Errorf("%s", v.infra)
	}
	d.showIgnored = v.msg != ""
	v = evaluate(w, &probeInheritCase)
	if v.infra != "" {
		return d, fmt.Errorf("%s", v.infra)
	}
	d.inheritCase = v.msg != ""
	return d, nil
}

// ---------------------------------------------------------------- tests

func setup(t *testing.T) *workspace {
	if err := loadUniverse(); err != nil {
		ev.Infra("%v", err)
		t.Fatal(err)
	}
	w, err := newWorkspace()
	if err != nil {
		ev.Infra("%v", err)
		t.Fatal(err)
	}
	return w
}

func TestSelection(t *testing.T) {
	w := setup(t)
	defer w.Close()
	ev.Rule(rule)
	ev.Assume("the reference run `staticcheck -checks \"*\" -show-ignored -f json ./...` over the same sources (configuration files stripped of their checks option) lists the problems of all checks; its JSON rendering is trusted and cross-checked against the other three formats case by case")
	ev.Assume("the set of checks and the non-default flag of each check are taken from the check documentation records (lint.Analyzer.Doc) that generate docs/checks and the default configuration shown in docs/configuration; the stale default list printed in docs/configuration/options.md (no SA9003, ST1023) is not used")
	ev.Assume("no staticcheck.conf exists in the ancestors of the temp dir (verified at start)")
	ev.Assume("unmatched-directive problems (category \"staticcheck\") are expected exactly when a check named by the directive is enabled for the package (docs/configuration, Maintenance of linter directives)")
	// check list of the binary = documented check list
	if res, err := w.run(w.root, "-list-checks"); err == nil {
		var got []string
		for _, l := range strings.Split(strings.TrimSpace(res.stdout), "\n") {
			got = append(got, strings.ToLower(strings.Fields(l + " x")[0]))
		}
		sort.Strings(got)
		if strings.Join(got, ",") != strings.Join(uni.names, ",") {
			ev.Infra("staticcheck -list-checks differs from the in-process analyzer list")
			t.Fatal("check lists differ")
		}
	}
	d, err := probeDefects(w)
	if err != nil {
		ev.Infra("probe: %v", err)
		t.Fatal(err)
	}
	ev.Extra("probe_show_ignored_defect_present", d.showIgnored)
	ev.Extra("probe_inherit_case_defect_present", d.inheritCase)
	ev.Extra("checks_in_universe", len(uni.names))
	ev.Extra("non_default_checks", strings.Join(uni.nonDefault, ","))
	o := genOpts{mixedCaseInherit: !d.inheritCase, variants: variantWeights()}
	ev.Check(t, "TestSelection", func(rt *rapid.T) {
		c := genCase(rt, o)
		b, _ := json.Marshal(c)
		ev.Begin("TestSelection", "json", b)
		if d.showIgnored && c.ShowIgnored {
			// known finding: excluded by construction — keep -show-ignored only
			// when the model says no ignored problem becomes visible
			if pall, err := w.pAll(c); err == nil {
				if e, err := expect(c, pall); err == nil && e.visIgnored {
					c.ShowIgnored = false
					ev.Count("generator_drops_show_ignored_known_finding", 1)
				}
			}
		}
		b, _ = json.Marshal(c)
		ev.Begin("TestSelection", "json", b)
		v := evaluate(w, c)
		if v.infra != "" {
			ev.Infra("%s (case %s)", v.infra, b)
			rt.Skip(v.infra)
		}
		nt := record(c, v)
		if nt && ev.WantSample() {
			ev.Sample(map[string]any{"case": c, "command": c.describe(), "printed": len(v.exp.printed), "exit": v.exit})
		}
		if v.msg != "" {
			ev.Failf(rt, "TestSelection", "%s", v.msg)
		}
	})
}

func replayFile(t *testing.T, w *workspace, f, test string) {
	b, err := os.ReadFile(f)
	if err != nil {
		ev.Infra("read %s: %v", f, err)
		return
	}
	var c Case
	if err := json.Unmarshal(b, &c); err != nil {
		ev.Infra("decode %s: %v", f, err)
		return
	}
	v := evaluate(w, &c)
	if v.infra != "" {
		ev.Infra("%s", v.infra)
		return
	}
	record(&c, v)
	if v.msg != "" {
		if sig := knownSig(&c, v); sig != "" && ev.IsKnown(sig) {
			ev.KnownFinding(sig, "")
			t.Logf("replay %s: known finding %s", f, sig)
			return
		}
		ev.Violate(test, fmt.Sprintf("replay of %s:\n%s", f, v.msg), "json", b)
		t.Errorf("%s", v.msg)
	} else {
		t.Logf("replay %s: property holds", f)
	}
}

func TestCorpus(t *testing.T) {
	if os.Getenv("VERIF_SECONDARY") != "" {
		return
	}
	files, _ := filepath.Glob(filepath.Join(os.Getenv("VERIF_ROOT"), "corpus", "C11", "*.json"))
	sort.Strings(files)
	if len(files) == 0 {
		return
	}
	w := setup(t)
	defer w.Close()
	for _, f := range files {
		replayFile(t, w, f, "TestCorpus")
	}
}

func TestReplay(t *testing.T) {
	if f := ev.ReplayFile(); f != "" {
		w := setup(t)
		defer w.Close()
		replayFile(t, w, f, "TestReplay")
	}
}
