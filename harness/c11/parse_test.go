package c11

import (
	"encoding/json"
	"fmt"
	"net/url"
	"path/filepath"
	"regexp"
	"sort"
	"strconv"
	"strings"

	"verif/harness/internal/ev"
)

type Rel struct {
	Line int    `json:"line"`
	Col  int    `json:"col"`
	Msg  string `json:"msg"`
}

// Prob is one rendered problem. File is slash-separated and relative to the
// module root ("" when the problem has no position).
type Prob struct {
	File    string `json:"file"`
	Line    int    `json:"line"`
	Col     int    `json:"col"`
	Code    string `json:"code"`
	Msg     string `json:"msg"`
	Related []Rel  `json:"related,omitempty"`

	// only some formats carry these
	EndLine    int    `json:"end_line,omitempty"`
	EndCol     int    `json:"end_col,omitempty"`
	Sev        string `json:"sev,omitempty"`        // json
	Suppressed bool   `json:"suppressed,omitempty"` // sarif
	Ignored    bool   `json:"ignored,omitempty"`    // pAll only
}

// key renders the fields every format carries.
func (p Prob) key() string {
	var sb strings.Builder
	fmt.Fprintf(&sb, "%s:%d:%d [%s] %q", p.File, p.Line, p.Col, p.Code, p.Msg)
	for _, r := range p.Related {
		fmt.Fprintf(&sb, " rel(%d:%d %q)", r.Line, r.Col, r.Msg)
	}
	return sb.String()
}

func keys(ps []Prob, f func(Prob) string) []string {
	out := make([]string, len(ps))
	for i, p := range ps {
		out[i] = f(p)
	}
	sort.Strings(out)
	return out
}

// relFile maps a file name as printed (absolute, or relative to the module
// root = working directory) to a root-relative slash path.
func relFile(root, name string) string {
	if name == "" || name == "-" {
		return ""
	}
	if filepath.IsAbs(name) {
		if r, err := filepath.Rel(root, name); err == nil {
			return filepath.ToSlash(r)
		}
	}
	return filepath.ToSlash(name)
}

// ---------------------------------------------------------------- json

type jsonLoc struct {
	File   string `json:"file"`
	Line   int    `json:"line"`
	Column int    `json:"column"`
}

type jsonProb struct {
	Code     string   `json:"code"`
	Severity string   `json:"severity"`
	Location jsonLoc  `json:"location"`
	End      *jsonLoc `json:"end"`
	Message  string   `json:"message"`
	Related  []struct {
		Location jsonLoc `json:"location"`
		End      jsonLoc `json:"end"`
		Message  string  `json:"message"`
	} `json:"related"`
}

// parseJSON: a stream of objects, one per problem (formatters.md).
func parseJSON(root, out string) ([]Prob, error) {
	var ps []Prob
	for i, line := range strings.Split(out, "\n") {
		if strings.TrimSpace(line) == "" {
			continue
		}
		var jp jsonProb
		dec := json.NewDecoder(strings.NewReader(line))
		dec.DisallowUnknownFields()
		if err := dec.Decode(&jp); err != nil {
			return nil, fmt.Errorf("json line %d: %v: %s", i+1, err, line)
		}
		if jp.End == nil {
			return nil, fmt.Errorf("json line %d has no \"end\" field: %s", i+1, line)
		}
		if jp.Code == "" {
			return nil, fmt.Errorf("json line %d has no \"code\": %s", i+1, line)
		}
		if jp.Location.File != "" && !filepath.IsAbs(jp.Location.File) {
			// observed for go list errors; the documentation only shows absolute names
			ev.Count("json_problem_with_relative_file_name", 1)
		}
		p := Prob{File: relFile(root, jp.Location.File), Line: jp.Location.Line, Col: jp.Location.Column,
			Code: jp.Code, Msg: jp.Message, EndLine: jp.End.Line, EndCol: jp.End.Column, Sev: jp.Severity}
		if jp.End.File != "" && relFile(root, jp.End.File) != p.File {
			return nil, fmt.Errorf("json line %d: end is in another file: %s", i+1, line)
		}
		for _, r := range jp.Related {
			p.Related = append(p.Related, Rel{r.Location.Line, r.Location.Column, r.Message})
		}
		ps = append(ps, p)
	}
	return ps, nil
}

// ---------------------------------------------------------------- text

var (
	textStart = regexp.MustCompile(`^(?:(-)|(.+?):(\d+):(\d+)): (.*)$`)
	textEnd   = regexp.MustCompile(`(?s)^(.*) \(([A-Za-z]+[0-9]*)\)$`)
	textRel   = regexp.MustCompile(`^\t(?:.+?:)?(\d+):(\d+): (.*)$`)
)

// parseText: `file:line:col: message (CHECK)`, related information on
// tab-indented lines. A message may span several lines (compiler output); a
// problem ends at the first line that ends in " (CHECK)".
func parseText(root, out string) ([]Prob, error) {
	var ps []Prob
	lines := strings.Split(strings.TrimSuffix(out, "\n"), "\n")
	if out == "" {
		return nil, nil
	}
	for i := 0; i < len(lines); i++ {
		line := lines[i]
		if m := textRel.FindStringSubmatch(line); m != nil {
			if len(ps) == 0 {
				return nil, fmt.Errorf("text line %d: related information before any problem: %q", i+1, line)
			}
			l, _ := strconv.Atoi(m[1])
			c, _ := strconv.Atoi(m[2])
			ps[len(ps)-1].Related = append(ps[len(ps)-1].Related, Rel{l, c, m[3]})
			continue
		}
		m := textStart.FindStringSubmatch(line)
		if m == nil {
			return nil, fmt.Errorf("text line %d is not of the form file:line:col: message: %q", i+1, line)
		}
		var p Prob
		if m[1] == "" {
			p.File = relFile(root, m[2])
			p.Line, _ = strconv.Atoi(m[3])
			p.Col, _ = strconv.Atoi(m[4])
		}
		rest := m[5]
		for {
			if e := textEnd.FindStringSubmatch(rest); e != nil {
				p.Msg, p.Code = e[1], e[2]
				break
			}
			i++
			if i >= len(lines) {
				return nil, fmt.Errorf("text: problem starting with %q has no trailing (CHECK)", line)
			}
			rest += "\n" + lines[i]
		}
		ps = append(ps, p)
	}
	return ps, nil
}

// ---------------------------------------------------------------- stylish

var (
	styRow     = regexp.MustCompile(`^  \((\d+), (\d+)\)\s+(\S+)\s+(.*)$`)
	styRel     = regexp.MustCompile(`^    \((\d+), (\d+)\)\s+(.*)$`)
	stySummary = regexp.MustCompile(`^ ✖ (\d+) problems \((\d+) errors, (\d+) warnings, (\d+) ignored\)$`)
)

type stylishStats struct {
	present                          bool
	total, errors, warnings, ignored int
}

// parseStylish: problems grouped under a line naming the file, groups
// separated by blank lines, a final summary.
func parseStylish(root, out string) ([]Prob, stylishStats, error) {
	var ps []Prob
	var st stylishStats
	lines := strings.Split(strings.TrimSuffix(out, "\n"), "\n")
	file := ""
	haveFile := false
	prevBlank := true
	seenFiles := map[string]bool{}
	for i, line := range lines {
		switch {
		case st.present:
			return nil, st, fmt.Errorf("stylish line %d: output after the summary: %q", i+1, line)
		case line == "":
			prevBlank = true
			continue
		case stySummary.MatchString(line):
			m := stySummary.FindStringSubmatch(line)
			st.present = true
			st.total, _ = strconv.Atoi(m[1])
			st.errors, _ = strconv.Atoi(m[2])
			st.warnings, _ = strconv.Atoi(m[3])
			st.ignored, _ = strconv.Atoi(m[4])
		case styRel.MatchString(line):
			m := styRel.FindStringSubmatch(line)
			if len(ps) == 0 {
				return nil, st, fmt.Errorf("stylish line %d: related information before any problem", i+1)
			}
			l, _ := strconv.Atoi(m[1])
			c, _ := strconv.Atoi(m[2])
			ps[len(ps)-1].Related = append(ps[len(ps)-1].Related, Rel{l, c, m[3]})
		case styRow.MatchString(line):
			if !haveFile {
				return nil, st, fmt.Errorf("stylish line %d: a problem row without a preceding file line: %q", i+1, line)
			}
			m := styRow.FindStringSubmatch(line)
			l, _ := strconv.Atoi(m[1])
			c, _ := strconv.Atoi(m[2])
			ps = append(ps, Prob{File: file, Line: l, Col: c, Code: m[3], Msg: m[4]})
		case prevBlank:
			// a file line
			file = relFile(root, line)
			haveFile = true
			if seenFiles[line] {
				return nil, st, fmt.Errorf("stylish line %d: file %q has two groups", i+1, line)
			}
			seenFiles[line] = true
		default:
			// continuation of a multi-line message
			if len(ps) == 0 {
				return nil, st, fmt.Errorf("stylish line %d: unexpected line %q", i+1, line)
			}
			ps[len(ps)-1].Msg += "\n" + line
		}
		prevBlank = false
	}
	return ps, st, nil
}

// ---------------------------------------------------------------- sarif

type sarifLoc struct {
	ID               int `json:"id"`
	PhysicalLocation struct {
		ArtifactLocation struct {
			URI       string `json:"uri"`
			URIBaseID string `json:"uriBaseId"`
		} `json:"artifactLocation"`
		Region struct {
			StartLine   int `json:"startLine"`
			StartColumn int `json:"startColumn"`
			EndLine     int `json:"endLine"`
			EndColumn   int `json:"endColumn"`
		} `json:"region"`
	} `json:"physicalLocation"`
	Message *struct {
		Text string `json:"text"`
	} `json:"message"`
}

type sarifLog struct {
	Version string `json:"version"`
	Runs    []struct {
		Tool struct {
			Driver struct {
				Rules []struct {
					ID string `json:"id"`
				} `json:"rules"`
			} `json:"driver"`
		} `json:"tool"`
		Results []struct {
			RuleID  string `json:"ruleId"`
			Message struct {
				Text string `json:"text"`
			} `json:"message"`
			Locations        []sarifLoc         `json:"locations"`
			RelatedLocations []sarifLoc         `json:"relatedLocations"`
			Suppressions     *[]json.RawMessage `json:"suppressions"`
		} `json:"results"`
	} `json:"runs"`
}

func sarifFile(root, uri string) (string, error) {
	if strings.HasPrefix(uri, "file://") {
		u, err := url.Parse(uri)
		if err != nil {
			return "", err
		}
		return relFile(root, u.Path), nil
	}
	p, err := url.PathUnescape(uri)
	if err != nil {
		return "", err
	}
	return relFile(root, p), nil
}

// parseSARIF returns the results of the single run and the rule ids.
func parseSARIF(root, out string) ([]Prob, []string, error) {
	var log sarifLog
	if err := json.Unmarshal([]byte(out), &log); err != nil {
		return nil, nil, fmt.Errorf("sarif output is not JSON: %v", err)
	}
	if log.Version != "2.1.0" || len(log.Runs) != 1 {
		return nil, nil, fmt.Errorf("sarif: version %q, %d runs", log.Version, len(log.Runs))
	}
	run := log.Runs[0]
	var rules []string
	for _, r := range run.Tool.Driver.Rules {
		rules = append(rules, r.ID)
	}
	var ps []Prob
	for i, r := range run.Results {
		if len(r.Locations) != 1 {
			return nil, nil, fmt.Errorf("sarif result %d has %d locations", i, len(r.Locations))
		}
		pl := r.Locations[0].PhysicalLocation
		f, err := sarifFile(root, pl.ArtifactLocation.URI)
		if err != nil {
			return nil, nil, fmt.Errorf("sarif result %d: uri %q: %v", i, pl.ArtifactLocation.URI, err)
		}
		p := Prob{File: f, Line: pl.Region.StartLine, Col: pl.Region.StartColumn, EndLine: pl.Region.EndLine, EndCol: pl.Region.EndColumn,
			Code: r.RuleID, Msg: r.Message.Text}
		if r.Suppressions == nil {
			return nil, nil, fmt.Errorf("sarif result %d has no suppressions array (nil means unknown)", i)
		}
		p.Suppressed = len(*r.Suppressions) > 0
		for j, rl := range r.RelatedLocations {
			if rl.Message == nil {
				return nil, nil, fmt.Errorf("sarif result %d: related location without message", i)
			}
			// related information is also spliced into the message as "\n\t[text](id)"
			suffix := fmt.Sprintf("\n\t[%s](%d)", rl.Message.Text, j+1)
			if !strings.Contains(p.Msg, suffix) {
				return nil, nil, fmt.Errorf("sarif result %d: message %q does not link related location %d", i, p.Msg, j+1)
			}
			p.Msg = strings.Replace(p.Msg, suffix, "", 1)
			p.Related = append(p.Related, Rel{rl.PhysicalLocation.Region.StartLine, rl.PhysicalLocation.Region.StartColumn, rl.Message.Text})
		}
		ps = append(ps, p)
	}
	return ps, rules, nil
}
