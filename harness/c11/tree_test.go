package c11

import (
	"bytes"
	"fmt"
	"os"
	"os/exec"
	"path/filepath"
	"regexp"
	"sort"
	"strings"
	"time"

	"verif/harness/internal/ev"
)

// The fixed module. Its sources are byte-identical between cases of one
// variant (only staticcheck.conf files and flags vary), so the Go build cache
// and the staticcheck cache stay warm. Which problems each package really has
// is NOT hard-coded: it is measured per case by a `-checks "*"` run (pAll).

const goMod = "module m\n\ngo 1.26.0\n"

const srcRoot = `package m

import (
	"errors"
	"fmt"
)

var my_var int = 5

// wrong form of variable comment
var Exported = 1

func Root(x int, b bool) error {
	if x == x {
		fmt.Println("same")
	}
	if b == true {
		return errors.New("Capitalised error")
	}
	if x > 3 {
	}
	//lint:ignore SA4000 intentionally comparing x with itself
	if x != x {
		return nil
	}
	return nil
}
`

const srcA = `package a

import (
	"fmt"
	"regexp"
)

type T struct{ n int }

func (t T) Get() int      { return t.n }
func (self *T) Set(n int) { self.n = n }

// this comment has the wrong form
func Exported(xs []int) string {
	for _ = range xs {
	}
	re := regexp.MustCompile("(")
	_ = re
	return fmt.Sprintf("constant")
}

func helper(y int) int {
	y = 3
	return 1
}
`

const srcB = `package b

import "strings"

// wrong form of type comment
type Thing struct{}

func B(s string, ch chan int) bool {
	select {
	case <-ch:
	}
	if strings.Index(s, "x") != -1 {
		return true
	}
	var e bool = s == s
	return e
}
`

// a well-formed directive that matches nothing: a problem of category
// "staticcheck" as long as the named check is enabled
const srcBUnmatched = srcB + `
func B1(ch chan int) int {
	//lint:ignore SA1000 this directive matches nothing
	return <-ch
}
`

// malformed directive (no reason): a problem of category "compile"
const srcBMalformed = srcB + `
func B2(ch chan int) {
	//lint:ignore S1000
	select {
	case <-ch:
	}
}
`

const srcC = `package c

import "errors"

//lint:file-ignore ST1005 the whole file may use capitalised error strings

var Err_thing = errors.New("Something failed.")

func unusedFunc() {}

func C(b bool) bool {
	if !b == false {
		return b
	}
	return b && b
}
`

const srcCTypeErr = srcC + `
func Broken() int { return "not an int" }
`

var srcCImportErr = strings.Replace(srcC, "import \"errors\"\n", "import (\n\t\"errors\"\n\t_ \"m/missing\"\n)\n", 1)

var variants = []string{"base", "typeerr", "importerr", "unmatched", "malformed"}

// a/d is a sibling of a/b two configuration levels down, and a/b/e (below a/b)
// imports a/d, so that a/d is configured between a/b and a/b/e.
const srcD = `package d

import "errors"

// D is documented.
func D(x int, b bool) error {
	if b == true {
		return errors.New("Failure in d.")
	}
	if x == x {
		return nil
	}
	return nil
}
`

const srcE = `package e

import (
	"fmt"

	"m/a/d"
)

// E is documented.
func E(x int, b bool) error {
	if !b == false {
		fmt.Println("e")
	}
	if x != x {
		return errors.New("Failure in e.")
	}
	return d.D(x, b)
}
`

var pkgDirs = []string{"", "a", "a/b", "a/b/e", "a/d", "c"}

func variantFiles(v string) map[string]string {
	fs := map[string]string{
		"go.mod":     goMod,
		"m.go":       srcRoot,
		"a/a.go":     srcA,
		"a/b/b.go":   srcB,
		"a/b/e/e.go": strings.Replace(srcE, "import (\n\t\"fmt\"\n", "import (\n\t\"errors\"\n\t\"fmt\"\n", 1),
		"a/d/d.go":   srcD,
		"c/c.go":     srcC,
	}
	switch v {
	case "base":
	case "typeerr":
		fs["c/c.go"] = srcCTypeErr
	case "importerr":
		fs["c/c.go"] = srcCImportErr
	case "unmatched":
		fs["a/b/b.go"] = srcBUnmatched
	case "malformed":
		fs["a/b/b.go"] = srcBMalformed
	default:
		return nil
	}
	return fs
}

var directiveRe = regexp.MustCompile(`^\s*//lint:ignore\s+(\S+)\s+\S`)

// directives maps "file:line" of every well-formed //lint:ignore comment of the
// variant to the lower-cased check names it lists.
func directives(v string) map[string][]string {
	out := map[string][]string{}
	for name, src := range variantFiles(v) {
		if !strings.HasSuffix(name, ".go") {
			continue
		}
		for i, line := range strings.Split(src, "\n") {
			if m := directiveRe.FindStringSubmatch(line); m != nil {
				out[fmt.Sprintf("%s:%d", name, i+1)] = strings.Split(strings.ToLower(m[1]), ",")
			}
		}
	}
	return out
}

// workspace owns one temp dir with one module directory per source variant and
// one STATICCHECK_CACHE.
type workspace struct {
	root  string
	cache string
	ready map[string]bool
	pall  map[string][]Prob // memo: variant + non-checks content of the conf tree
	bin   string
}

func newWorkspace() (*workspace, error) {
	root, err := os.MkdirTemp("", "c11-")
	if err != nil {
		return nil, err
	}
	if r, err := filepath.EvalSymlinks(root); err == nil {
		root = r
	}
	// staticcheck walks up to the file system root looking for configuration files
	for d := root; ; d = filepath.Dir(d) {
		if _, err := os.Stat(filepath.Join(d, "staticcheck.conf")); err == nil {
			os.RemoveAll(root)
			return nil, fmt.Errorf("a staticcheck.conf exists in %s, an ancestor of the temp dir", d)
		}
		if filepath.Dir(d) == d {
			break
		}
	}
	w := &workspace{root: root, cache: filepath.Join(root, "cache"), ready: map[string]bool{}, pall: map[string][]Prob{}}
	w.bin = filepath.Join(ev.BinDir(), "staticcheck")
	if _, err := os.Stat(w.bin); err != nil {
		os.RemoveAll(root)
		return nil, fmt.Errorf("staticcheck binary missing: %v", err)
	}
	os.MkdirAll(w.cache, 0o755)
	return w, nil
}

func (w *workspace) Close() { os.RemoveAll(w.root) }

func (w *workspace) dir(variant string) (string, error) {
	d := filepath.Join(w.root, variant)
	if w.ready[variant] {
		return d, nil
	}
	fs := variantFiles(variant)
	if fs == nil {
		return "", fmt.Errorf("unknown variant %q", variant)
	}
	for name, src := range fs {
		p := filepath.Join(d, filepath.FromSlash(name))
		if err := os.MkdirAll(filepath.Dir(p), 0o755); err != nil {
			return "", err
		}
		if err := os.WriteFile(p, []byte(src), 0o644); err != nil {
			return "", err
		}
	}
	w.ready[variant] = true
	return d, nil
}

// writeConfs replaces all staticcheck.conf files of the variant's tree.
func (w *workspace) writeConfs(variant string, confs map[string]string) error {
	d, err := w.dir(variant)
	if err != nil {
		return err
	}
	for _, pd := range pkgDirs {
		p := filepath.Join(d, filepath.FromSlash(pd), "staticcheck.conf")
		if content, ok := confs[pd]; ok {
			if err := os.WriteFile(p, []byte(content), 0o644); err != nil {
				return err
			}
		} else if err := os.Remove(p); err != nil && !os.IsNotExist(err) {
			return err
		}
	}
	return nil
}

type runResult struct {
	stdout, stderr string
	exit           int
}

// run executes staticcheck in dir on ./...
func (w *workspace) run(dir string, args ...string) (runResult, error) {
	cmd := exec.Command(w.bin, append(args, "./...")...)
	cmd.Dir = dir
	cmd.Env = append(os.Environ(), "STATICCHECK_CACHE="+w.cache)
	var o, e bytes.Buffer
	cmd.Stdout, cmd.Stderr = &o, &e
	t0 := time.Now()
	err := cmd.Run()
	if os.Getenv("C11_TRACE") != "" {
		fmt.Fprintf(os.Stderr, "c11: %.2fs %s %v\n", time.Since(t0).Seconds(), filepath.Base(dir), args)
	}
	res := runResult{stdout: o.String(), stderr: e.String()}
	if err != nil {
		ee, ok := err.(*exec.ExitError)
		if !ok {
			return res, err
		}
		res.exit = ee.ExitCode()
	}
	return res, nil
}

func sortedKeys[V any](m map[string]V) []string {
	ks := make([]string, 0, len(m))
	for k := range m {
		ks = append(ks, k)
	}
	sort.Strings(ks)
	return ks
}
