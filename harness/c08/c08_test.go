package c08

import (
	"bytes"
	"encoding/json"
	"fmt"
	"go/ast"
	"go/parser"
	"go/printer"
	"go/token"
	"go/types"
	"os"
	"path/filepath"
	"reflect"
	"sort"
	"strconv"
	"strings"
	"testing"

	"golang.org/x/tools/go/analysis"
	"honnef.co/go/tools/analysis/code"
	"honnef.co/go/tools/lintcmd/runner"
	"honnef.co/go/tools/pattern"
	"pgregory.net/rapid"
	"verif/harness/internal/ev"
	"verif/harness/internal/rn"
)

func TestMain(m *testing.M) { ev.Main(m) }

const rule = "case = (pattern, package): patterns are (a) every pattern.MustParse literal extracted from the repository's check sources at run time and (b) generated patterns over Symbol/Builtin/Object/Or/Not/Binding/List/IntegerLiteral and AST nodes with symbols drawn from a pool of std functions, methods, types, consts, vars and builtins; packages are a generated call-form zoo (plain, parenthesised callee, function value, method value/expression, generic instantiation, dot import, renamed import, alias, promotion through embedding, conversions, nested calls; the zoo imports a drawn subset of the pool's packages and may reach std methods only through fields, results and embedding of a helper package zoo/dep) and check testdata packages of the repository; oracle = inside a probe analyzer run through the real runner, code.Matches (entry-node, symbol-index and call-site pre-filtering) must yield, for every node on which code.Match succeeds by brute force, a match with equal bindings on that node or on the node it unwraps to (ParenExpr, ExprStmt, DeclStmt, LabeledStmt, one-element block), and code.CouldMatchAny over drawn subsets of >= 2 patterns must not return false when one of them has a brute-force match in the package; non-trivial = (pattern, package) with at least one brute-force match and a pattern that has symbols or root call symbols; distinct by (pattern text, package)"

// ---------------------------------------------------------------- probe

type probeConfig struct {
	patterns []string
	parsed   []pattern.Pattern
	subsets  [][]int // pattern index sets handed to code.CouldMatchAny together (S1038, QF1012, SA4032 call it with several patterns)
}

var current *probeConfig

func renderBinding(fset *token.FileSet, v any) string {
	switch x := v.(type) {
	case nil:
		return "<nil>"
	case string:
		return "s:" + x
	case token.Token:
		return "t:" + x.String()
	case types.Object:
		return "o:" + x.String()
	case types.TypeAndValue:
		if x.Value != nil {
			return "tv:" + x.Value.String()
		}
		return "tv"
	case ast.Node:
		rv := reflect.ValueOf(x)
		if rv.Kind() == reflect.Pointer && rv.IsNil() {
			return fmt.Sprintf("%T(nil)", x)
		}
		var buf bytes.Buffer
		printer.Fprint(&buf, fset, x)
		return fmt.Sprintf("%T@%d:%s", x, x.Pos(), buf.String())
	}
	rv := reflect.ValueOf(v)
	if rv.Kind() == reflect.Slice {
		var parts []string
		for i := 0; i < rv.Len(); i++ {
			parts = append(parts, renderBinding(fset, rv.Index(i).Interface()))
		}
		return "[" + strings.Join(parts, "; ") + "]"
	}
	return fmt.Sprintf("%T:%v", v, v)
}

func renderState(fset *token.FileSet, st map[string]any) string {
	var ks []string
	for k := range st {
		ks = append(ks, k)
	}
	sort.Strings(ks)
	var sb strings.Builder
	for _, k := range ks {
		sb.WriteString(k + "=" + renderBinding(fset, st[k]) + ";")
	}
	return sb.String()
}

// unwrapChain lists n and the nodes the matcher unwraps it to.
func unwrapChain(n ast.Node) []ast.Node {
	out := []ast.Node{n}
	for {
		var next ast.Node
		switch x := n.(type) {
		case *ast.ParenExpr:
			next = x.X
		case *ast.ExprStmt:
			next = x.X
		case *ast.DeclStmt:
			next = x.Decl
		case *ast.LabeledStmt:
			next = x.Stmt
		case *ast.BlockStmt:
			if x != nil && len(x.List) == 1 {
				next = x.List[0]
			}
		case *ast.FieldList:
			if x != nil && len(x.List) == 1 {
				next = x.List[0]
			}
		}
		if next == nil || reflect.ValueOf(next).IsNil() {
			return out
		}
		out = append(out, next)
		n = next
	}
}

func makeProbe() *analysis.Analyzer {
	return &analysis.Analyzer{
		Name:     "VP9008",
		Doc:      "verification probe: code.Matches vs brute force",
		Requires: append([]*analysis.Analyzer{rn.Find("tokenfileanalyzer")}, code.RequiredAnalyzers...),
		Run: func(pass *analysis.Pass) (any, error) {
			cfg := current
			if len(pass.Files) == 0 {
				return nil, nil
			}
			anchor := pass.Files[0].Name
			brute := make([]int, len(cfg.parsed))
			defer func() {
				// code.CouldMatchAny(pass, q1, ..., qk) == false promises that none of the patterns matches anywhere in the package
				subsets := cfg.subsets
				if subsets == nil {
					for i := 0; i+1 < len(cfg.parsed); i++ {
						subsets = append(subsets, []int{i, i + 1}, []int{i + 1, i})
					}
				}
				for si, sub := range subsets {
					var qs []pattern.Pattern
					total := 0
					for _, i := range sub {
						if i >= 0 && i < len(cfg.parsed) {
							qs = append(qs, cfg.parsed[i])
							total += brute[i]
						}
					}
					if len(qs) == 0 {
						continue
					}
					could := true
					func() {
						defer func() {
							if r := recover(); r != nil {
								pass.Report(analysis.Diagnostic{Pos: anchor.Pos(), Message: fmt.Sprintf("PANIC %d code.CouldMatchAny%v: %v", sub[0], sub, r)})
							}
						}()
						could = code.CouldMatchAny(pass, qs...)
					}()
					if !could && total > 0 {
						pass.Report(analysis.Diagnostic{Pos: anchor.Pos(), Message: fmt.Sprintf("REJECT %d %v rejected although brute force finds %d matches of these patterns in the package", sub[0], sub, total)})
					}
					if si < 64 {
						verdict := "reject"
						if could {
							verdict = "could"
						}
						pass.Report(analysis.Diagnostic{Pos: anchor.Pos(), Message: fmt.Sprintf("ANY %d %s %d %d", sub[0], verdict, len(qs), total)})
					}
				}
			}()
			for i, q := range cfg.parsed {
				type hit struct {
					node  ast.Node
					state string
				}
				var G []hit
				func() {
					defer func() {
						if r := recover(); r != nil {
							pass.Report(analysis.Diagnostic{Pos: anchor.Pos(), Message: fmt.Sprintf("PANIC %d code.Matches: %v", i, r)})
						}
					}()
					for n, m := range code.Matches(pass, q) {
						G = append(G, hit{n, renderState(pass.Fset, m.State)})
					}
				}()
				nb, miss := 0, 0
				for _, f := range pass.Files {
					ast.Inspect(f, func(n ast.Node) bool {
						if n == nil {
							return false
						}
						var m *pattern.Matcher
						var ok bool
						func() {
							defer func() {
								if r := recover(); r != nil {
									ok = false // the matcher panics on some node kinds for some patterns; not this property's subject
								}
							}()
							m, ok = code.Match(pass, q, n)
						}()
						if !ok {
							return true
						}
						nb++
						brute[i]++
						st := renderState(pass.Fset, m.State)
						found := false
						for _, cand := range unwrapChain(n) {
							for _, g := range G {
								if g.node == cand && g.state == st {
									found = true
								}
							}
						}
						if !found {
							miss++
							if miss <= 3 {
								var buf bytes.Buffer
								printer.Fprint(&buf, pass.Fset, n)
								pos := pass.Fset.Position(n.Pos())
								pass.Report(analysis.Diagnostic{Pos: anchor.Pos(), Message: fmt.Sprintf("MISS %d %s:%d:%d %T %q bindings{%s}", i, filepath.Base(pos.Filename), pos.Line, pos.Column, n, trunc(buf.String(), 120), st)})
							}
						}
						return true
					})
				}
				if nb > 0 || len(G) > 0 {
					pass.Report(analysis.Diagnostic{Pos: anchor.Pos(), Message: fmt.Sprintf("STATS %d %d %d", i, len(G), nb)})
				}
			}
			return nil, nil
		},
	}
}

func trunc(s string, n int) string {
	s = strings.ReplaceAll(s, "\n", " ")
	if len(s) > n {
		return s[:n] + "…"
	}
	return s
}

var probe *analysis.Analyzer

// ---------------------------------------------------------------- patterns

// inTreePatterns extracts every pattern.MustParse string literal from the repository's check sources.
func inTreePatterns() []string {
	seen := map[string]bool{}
	var out []string
	for _, root := range []string{"/repo/staticcheck", "/repo/simple", "/repo/stylecheck", "/repo/quickfix", "/repo/analysis"} {
		filepath.Walk(root, func(path string, info os.FileInfo, err error) error {
			if err != nil || info.IsDir() || !strings.HasSuffix(path, ".go") || strings.HasSuffix(path, "_test.go") || strings.Contains(path, "/testdata/") {
				return nil
			}
			fset := token.NewFileSet()
			f, err := parser.ParseFile(fset, path, nil, parser.SkipObjectResolution)
			if err != nil {
				return nil
			}
			ast.Inspect(f, func(n ast.Node) bool {
				call, ok := n.(*ast.CallExpr)
				if !ok || len(call.Args) != 1 {
					return true
				}
				sel, ok := call.Fun.(*ast.SelectorExpr)
				if !ok || sel.Sel.Name != "MustParse" {
					return true
				}
				if x, ok := sel.X.(*ast.Ident); !ok || x.Name != "pattern" {
					return true
				}
				lit, ok := call.Args[0].(*ast.BasicLit)
				if !ok || lit.Kind != token.STRING {
					return true
				}
				s, err := strconv.Unquote(lit.Value)
				if err == nil && !seen[s] {
					seen[s] = true
					out = append(out, s)
				}
				return true
			})
			return nil
		})
	}
	sort.Strings(out)
	return out
}

// symbol pool: name, and how the zoo can use it
type sym struct {
	name string // pattern symbol name
	kind string // func | method | type | var | builtin
	use  []string
}

var pool = []sym{
	{"strings.Replace", "func", []string{`strings.Replace(s, "a", "b", -1)`, `(strings.Replace)(s, "a", "b", 1)`, `str.Replace(s, "a", "b", 2)`, `fmt.Println(strings.Replace(s, "x", "y", n))`}},
	{"strings.ToLower", "func", []string{`strings.ToLower(s)`, `str.ToLower(strings.ToLower(s))`, `_ = strings.ToLower`}},
	{"strings.Index", "func", []string{`_ = strings.Index(s, "a") == -1`, `_ = str.Index(s, "b") != -1`}},
	{"sort.Strings", "func", []string{`Strings(ss)`, `sort.Strings(ss)`, `(Strings)(ss)`}},
	{"fmt.Sprintf", "func", []string{`_ = fmt.Sprintf("%d", n)`, `_ = fmt.Sprintf("%s", s)`, `sp := fmt.Sprintf; _ = sp("x")`}},
	{"fmt.Println", "func", []string{`fmt.Println(s)`, `fmt.Println()`}},
	{"(*strings.Builder).WriteString", "method", []string{`sb.WriteString("x")`, `mv := sb.WriteString; mv("y")`, `(*strings.Builder).WriteString(&sb, "z")`, `em.WriteString("q")`, `al.WriteString("w")`}},
	{"(*bytes.Buffer).String", "method", []string{`_ = buf.String()`, `_ = (&buf).String()`, `bs := buf.String; _ = bs()`}},
	{"(time.Time).Sub", "method", []string{`_ = t1.Sub(t0)`, `_ = time.Time.Sub(t1, t0)`, `_ = t1.Sub(time.Now())`}},
	{"time.Now", "func", []string{`_ = time.Now()`, `_ = time.Now().Sub(t0)`, `_ = tm.Now()`}},
	{"time.Since", "func", []string{`_ = time.Since(t0)`}},
	{"slices.Contains", "func", []string{`_ = slices.Contains(ns, 1)`, `_ = slices.Contains[[]int](ns, 2)`, `_ = slices.Contains[[]int, int](ns, 3)`}},
	{"time.Duration", "type", []string{`_ = time.Duration(n)`, `_ = time.Duration(n) * time.Second`, `var d time.Duration; _ = d`}},
	{"os.Stdout", "var", []string{`fmt.Fprintln(os.Stdout, s)`, `_ = os.Stdout`}},
	{"io.EOF", "var", []string{`_ = err == io.EOF`, `_ = errors.Is(err, io.EOF)`}},
	{"errors.New", "func", []string{`_ = errors.New("x")`, `err = errors.New(fmt.Sprintf("%d", n))`}},
	{"len", "builtin", []string{`_ = len(s) == 0`, `_ = len(ss) > 0`, `_ = len(strings.ToLower(s))`}},
	{"append", "builtin", []string{`ss = append(ss, s)`, `ns = append(ns, 1, 2)`, `ss = append(ss, ss...)`}},
	{"copy", "builtin", []string{`copy(ns, ns)`}},
	{"math.MaxInt32", "var", []string{`_ = n > math.MaxInt32`}},
}

type Case struct {
	Patterns []string `json:"patterns"`
	Zoo      string   `json:"zoo"`          // generated package source ("" = none)
	Dirs     []string `json:"dirs"`         // repository package directories to analyse
	Shadow   bool     `json:"shadow_local"` // zoo declares a local with the name of a builtin (precondition probe)
	Dep      string   `json:"dep,omitempty"`     // source of package zoo/dep ("" = none)
	Subsets  [][]int  `json:"subsets,omitempty"` // pattern index sets for code.CouldMatchAny (nil: adjacent pairs)
}

// The zoo imports only the package groups drawn for it, so that a pattern may
// name symbols of packages the zoo does not refer to at all, and it may reach
// std methods only through package zoo/dep (which it imports instead of the
// std package that declares them).
var groups = []string{"strings", "bytes", "fmt", "sort", "time", "slices", "os", "io", "errors", "math", "dep"}

var groupImports = map[string]string{
	"strings": "\t\"strings\"\n\tstr \"strings\"\n",
	"bytes":   "\t\"bytes\"\n",
	"fmt":     "\t\"fmt\"\n",
	"sort":    "\t\"sort\"\n\t. \"sort\"\n",
	"time":    "\t\"time\"\n\ttm \"time\"\n",
	"slices":  "\t\"slices\"\n",
	"os":      "\t\"os\"\n",
	"io":      "\t\"io\"\n",
	"errors":  "\t\"errors\"\n",
	"math":    "\t\"math\"\n",
	"dep":     "\t\"zoo/dep\"\n",
}

var groupUses = map[string]string{
	"strings": "\t_ = strings.ToUpper\n\t_ = str.ToUpper\n",
	"bytes":   "\t_ = bytes.NewBuffer\n",
	"fmt":     "\t_ = fmt.Sprint\n",
	"sort":    "\t_ = sort.Ints\n\t_ = Ints\n",
	"time":    "\t_ = time.Second\n\t_ = tm.Second\n",
	"slices":  "\t_ = slices.Contains[[]int]\n",
	"os":      "\t_ = os.Args\n",
	"io":      "\t_ = io.EOF\n",
	"errors":  "\t_ = errors.New\n",
	"math":    "\t_ = math.Pi\n",
	"dep":     "\t_ = dep.N\n",
}

const depSrc = `package dep

import (
	"bytes"
	"strings"
	"time"
)

var N int

var SB strings.Builder

var T0, T1 time.Time

func Buf() *bytes.Buffer { return new(bytes.Buffer) }

type Emb struct{ strings.Builder }

type Holder struct {
	SB  strings.Builder
	Buf bytes.Buffer
	At  time.Time
}

func Now() time.Time { return time.Now() }
`

// depUses are call forms that reach std methods through package dep only.
var depUses = map[string][]string{
	"(*strings.Builder).WriteString": {`dep.SB.WriteString("x")`, `{ var e dep.Emb; e.WriteString("q") }`, `{ var h dep.Holder; h.SB.WriteString("h") }`, `{ mv := dep.SB.WriteString; mv("y") }`},
	"(*bytes.Buffer).String":         {`_ = dep.Buf().String()`, `{ var h dep.Holder; _ = h.Buf.String() }`},
	"(time.Time).Sub":                {`_ = dep.T1.Sub(dep.T0)`, `_ = dep.Now().Sub(dep.T0)`, `{ var h dep.Holder; _ = h.At.Sub(dep.T0) }`},
}

// needs lists the import groups a call form depends on.
func needs(use string) []string {
	var out []string
	has := func(subs ...string) bool {
		for _, x := range subs {
			if strings.Contains(use, x) {
				return true
			}
		}
		return false
	}
	if has("strings.", "str.", "sb.", "em.", "al.", "&sb") {
		out = append(out, "strings")
	}
	if has("buf") {
		out = append(out, "bytes")
	}
	if has("fmt.") {
		out = append(out, "fmt")
	}
	if has("sort.", "Strings(", "(Strings)") {
		out = append(out, "sort")
	}
	if has("time.", "tm.", "t0", "t1") {
		out = append(out, "time")
	}
	if has("slices.") {
		out = append(out, "slices")
	}
	if has("os.") {
		out = append(out, "os")
	}
	if has("io.") {
		out = append(out, "io")
	}
	if has("errors.") {
		out = append(out, "errors")
	}
	if has("math.") {
		out = append(out, "math")
	}
	if has("dep.") {
		out = []string{"dep"}
	}
	return out
}

// genZoo draws the zoo package and reports whether it imports zoo/dep.
func genZoo(t *rapid.T) (src string, dep bool) {
	avail := map[string]bool{}
	full := rapid.IntRange(0, 3).Draw(t, "allimports") == 0
	for _, g := range groups {
		if full || rapid.IntRange(0, 9).Draw(t, "import_"+g) < 6 {
			avail[g] = true
		}
	}
	if avail["dep"] && rapid.IntRange(0, 1).Draw(t, "deponly") == 0 {
		// std methods are reachable through zoo/dep only
		delete(avail, "strings")
		delete(avail, "bytes")
		delete(avail, "time")
	}
	var cands []string
	for _, sy := range pool {
		for _, u := range append(append([]string{}, sy.use...), depUses[sy.name]...) {
			ok := true
			for _, n := range needs(u) {
				if !avail[n] {
					ok = false
				}
			}
			if ok {
				cands = append(cands, u)
			}
		}
	}
	var sb strings.Builder
	sb.WriteString("package zoo\n\n")
	var imps, uses string
	for _, g := range groups {
		if avail[g] {
			imps += groupImports[g]
			uses += groupUses[g]
		}
	}
	if imps != "" {
		sb.WriteString("import (\n" + imps + ")\n\nvar (\n" + uses + ")\n\n")
	}
	if avail["strings"] {
		sb.WriteString("type al = strings.Builder\n\ntype emb struct{ strings.Builder }\n\n")
	}
	nf := rapid.IntRange(1, 3).Draw(t, "nfuncs")
	for f := 0; f < nf; f++ {
		fmt.Fprintf(&sb, "func zoo%d(s string, ss []string, ns []int, n int, err error) {\n", f)
		if avail["strings"] {
			sb.WriteString("\tvar sb strings.Builder\n\tvar em emb\n\tvar al al\n\t_, _, _ = &sb, &em, &al\n")
		}
		if avail["bytes"] {
			sb.WriteString("\tvar buf bytes.Buffer\n\t_ = &buf\n")
		}
		if avail["time"] {
			sb.WriteString("\tvar t0, t1 time.Time\n\t_, _ = t0, t1\n")
		}
		k := rapid.IntRange(3, 14).Draw(t, "nstmts")
		for i := 0; i < k && len(cands) > 0; i++ {
			use := cands[rapid.IntRange(0, len(cands)-1).Draw(t, "use")]
			if !strings.HasPrefix(use, "{") && (strings.Contains(use, ":=") || strings.HasPrefix(use, "var ")) {
				use = "{ " + use + " }" // own scope: the same form may be drawn twice
			}
			switch rapid.IntRange(0, 5).Draw(t, "wrap") {
			case 0:
				fmt.Fprintf(&sb, "\tif n > %d {\n\t\t%s\n\t}\n", i, use)
			case 1:
				fmt.Fprintf(&sb, "\tfor range ss {\n\t\t%s\n\t}\n", use)
			case 2:
				fmt.Fprintf(&sb, "\tfunc() {\n\t\t%s\n\t}()\n", use)
			default:
				fmt.Fprintf(&sb, "\t%s\n", use)
			}
		}
		sb.WriteString("}\n\n")
	}
	return sb.String(), avail["dep"]
}

// genPattern draws a pattern text over the pool.
func genPattern(t *rapid.T) string {
	pick := func(label string, n int) int { return rapid.IntRange(0, n-1).Draw(t, label) }
	symName := func() string {
		if pick("methodsym", 4) == 0 {
			return []string{"(*strings.Builder).WriteString", "(*bytes.Buffer).String", "(time.Time).Sub"}[pick("msym", 3)]
		}
		return pool[pick("psym", len(pool))].name
	}
	nbind := 0
	symNode := func() string {
		nbind++ // every binding name is created once per pattern
		switch pick("symform", 6) {
		case 0:
			return fmt.Sprintf(`(Symbol (Or %q %q))`, symName(), symName())
		case 1:
			return fmt.Sprintf(`(Symbol name%d@(Or %q %q %q))`, nbind, symName(), symName(), symName())
		case 2:
			return fmt.Sprintf(`fn%d@(Symbol %q)`, nbind, symName())
		case 3:
			return fmt.Sprintf(`(Or (Symbol %q) (Symbol %q))`, symName(), symName())
		default:
			return fmt.Sprintf(`(Symbol %q)`, symName())
		}
	}
	args := func() string {
		return []string{"_", "args", "[_]", "[_ _]", "x:_", "[x]", "[(BasicLit \"STRING\" _) _]", "_:_:_"}[pick("args", 8)]
	}
	switch pick("shape", 14) {
	case 0, 1, 2, 3:
		return fmt.Sprintf(`(CallExpr %s %s)`, symNode(), args())
	case 4:
		return fmt.Sprintf(`(BinaryExpr (CallExpr %s %s) (Or "==" "!=" ">") (Or (IntegerLiteral "0") (UnaryExpr "-" (IntegerLiteral "1")) (IntegerLiteral _)))`, symNode(), args())
	case 5:
		return fmt.Sprintf(`(AssignStmt x "=" (CallExpr %s x:_))`, symNode())
	case 6:
		return fmt.Sprintf(`(CallExpr %s [(CallExpr %s _)])`, symNode(), symNode())
	case 7:
		return fmt.Sprintf(`(CallExpr (Builtin %q) %s)`, []string{"len", "append", "copy", "cap"}[pick("builtin", 4)], args())
	case 8:
		return symNode()
	case 9:
		return fmt.Sprintf(`(Or (CallExpr %s _) (CallExpr (Builtin "len") _))`, symNode())
	case 10:
		return fmt.Sprintf(`(CallExpr (Not %s) %s)`, symNode(), args())
	case 11:
		return fmt.Sprintf(`(CallExpr (SelectorExpr recv (Ident %q)) %s)`, []string{"WriteString", "Sub", "String", "Now"}[pick("sel", 4)], args())
	case 12:
		return fmt.Sprintf(`(CallExpr (Object %q) %s)`, []string{"Strings", "len", "sp", "mv"}[pick("obj", 4)], args())
	default:
		return fmt.Sprintf(`(BinaryExpr _ _ %s)`, symNode())
	}
}

// ---------------------------------------------------------------- evaluation

func evaluate(c *Case) (msg string, infra string) {
	cfg := &probeConfig{patterns: c.Patterns, subsets: c.Subsets}
	for _, p := range c.Patterns {
		q, err := (&pattern.Parser{AllowTypeInfo: true}).Parse(p)
		if err != nil {
			return "", fmt.Sprintf("pattern does not parse: %s: %v", p, err)
		}
		cfg.parsed = append(cfg.parsed, q)
	}
	current = cfg
	var sb strings.Builder
	handle := func(res []runner.Result) error {
		for _, r := range res {
			if !r.Initial {
				continue
			}
			if r.Failed {
				ev.Count("packages_failed_to_load", 1)
				continue
			}
			data, err := r.Load()
			if err != nil {
				return err
			}
			for _, d := range data.Diagnostics {
				if d.Category != "VP9008" {
					continue
				}
				f := strings.SplitN(d.Message, " ", 3)
				idx, _ := strconv.Atoi(f[1])
				switch f[0] {
				case "STATS":
					var g, b int
					fmt.Sscan(f[2], &g, &b)
					q := cfg.parsed[idx]
					hasSyms := len(q.RootCallSymbols) > 0
					if _, isAny := q.SymbolsPattern.(pattern.Any); !isAny && q.SymbolsPattern != nil {
						hasSyms = true
					}
					classes := []string{"pattern_package_pair"}
					if len(q.RootCallSymbols) > 0 {
						classes = append(classes, "uses_root_call_symbols")
					}
					if hasSyms {
						classes = append(classes, "has_symbols")
					}
					ev.Case(ev.Hash(c.Patterns[idx], r.Package.PkgPath), b > 0 && hasSyms, classes...)
					ev.Count("brute_force_matches", b)
					ev.Count("prefiltered_matches", g)
				case "MISS":
					fmt.Fprintf(&sb, "package %s, pattern %s\n  brute force matches %s\n  but code.Matches does not yield that node (or what it unwraps to) with these bindings\n", r.Package.PkgPath, c.Patterns[idx], f[2])
				case "REJECT":
					fmt.Fprintf(&sb, "package %s: code.CouldMatchAny with patterns %s\n", r.Package.PkgPath, f[2])
					if a, b := strings.Index(f[2], "["), strings.Index(f[2], "]"); a >= 0 && b > a {
						for _, w := range strings.Fields(f[2][a+1 : b]) {
							if k, err := strconv.Atoi(w); err == nil && k >= 0 && k < len(c.Patterns) {
								fmt.Fprintf(&sb, "  pattern %d: %s\n", k, c.Patterns[k])
							}
						}
					}
				case "ANY":
					var verdict string
					var k, total int
					fmt.Sscan(f[2], &verdict, &k, &total)
					if k >= 2 {
						ev.Count("couldmatchany_multi_pattern_calls", 1)
						if verdict == "reject" {
							ev.Count("couldmatchany_multi_pattern_rejections", 1)
						} else if total > 0 {
							ev.Count("couldmatchany_multi_pattern_accept_with_matches", 1)
						}
					}
				case "PANIC":
					fmt.Fprintf(&sb, "package %s, pattern %s: %s\n", r.Package.PkgPath, c.Patterns[idx], f[2])
				}
			}
		}
		return nil
	}
	if c.Zoo != "" {
		dir, err := os.MkdirTemp("", "c08-")
		if err != nil {
			return "", err.Error()
		}
		defer os.RemoveAll(dir)
		os.WriteFile(filepath.Join(dir, "go.mod"), []byte("module zoo\n\ngo 1.26.0\n"), 0o644)
		os.WriteFile(filepath.Join(dir, "zoo.go"), []byte(c.Zoo), 0o644)
		if c.Dep != "" {
			os.MkdirAll(filepath.Join(dir, "dep"), 0o755)
			os.WriteFile(filepath.Join(dir, "dep", "dep.go"), []byte(c.Dep), 0o644)
		}
		if err := rn.Run(rn.Options{Dir: dir}, []*analysis.Analyzer{probe}, []string{"."}, handle); err != nil {
			return "", "runner (zoo): " + err.Error() + "\n" + c.Zoo
		}
	}
	if len(c.Dirs) > 0 {
		if err := rn.Run(rn.Options{Dir: "/repo"}, []*analysis.Analyzer{probe}, c.Dirs, handle); err != nil {
			return "", "runner (repo dirs): " + err.Error()
		}
	}
	return sb.String(), ""
}

func testdataDirs() []string {
	var out []string
	for _, g := range []string{"/repo/simple/s*/testdata/go1.0/*", "/repo/staticcheck/sa*/testdata/go1.0/*", "/repo/stylecheck/st*/testdata/go1.0/*", "/repo/quickfix/qf*/testdata/go1.0/*"} {
		m, _ := filepath.Glob(g)
		for _, d := range m {
			if st, err := os.Stat(d); err == nil && st.IsDir() {
				out = append(out, "./"+strings.TrimPrefix(d, "/repo/"))
			}
		}
	}
	sort.Strings(out)
	return out
}

func TestGenerated(t *testing.T) {
	probe = makeProbe()
	ev.Rule(rule)
	ev.Assume("symbols named by generated patterns are std symbols, never declared in the analysed package (the property's precondition)")
	ev.Check(t, "TestGenerated", func(rt *rapid.T) {
		zoo, dep := genZoo(rt)
		c := &Case{Zoo: zoo}
		if dep {
			c.Dep = depSrc
		}
		n := rapid.IntRange(4, 16).Draw(rt, "npatterns")
		for i := 0; i < n; i++ {
			c.Patterns = append(c.Patterns, genPattern(rt))
		}
		for k := rapid.IntRange(2, 10).Draw(rt, "nsubsets"); k > 0; k-- {
			c.Subsets = append(c.Subsets, rapid.SliceOfN(rapid.IntRange(0, n-1), 2, 4).Draw(rt, "subset"))
		}
		js, _ := json.Marshal(c)
		ev.Begin("TestGenerated", "json", js)
		msg, infra := evaluate(c)
		if infra != "" {
			ev.Count("infra_skipped", 1)
			ev.Extra("last_infra", trunc(infra, 1500))
			rt.Skip(infra)
		}
		if ev.WantSample() {
			ev.Sample(map[string]any{"patterns": c.Patterns[:min(4, len(c.Patterns))], "zoo_bytes": len(c.Zoo)})
		}
		if msg != "" {
			ev.Failf(rt, "TestGenerated", "%s\nzoo:\n%s", msg, c.Zoo)
		}
	})
}

// TestInTreePatterns runs every pattern compiled into the checks over the check testdata packages (sharded) and a generated zoo.
func TestInTreePatterns(t *testing.T) {
	if probe == nil {
		probe = makeProbe()
	}
	pats := inTreePatterns()
	ev.Extra("in_tree_patterns", len(pats))
	if len(pats) < 40 {
		ev.Infra("only %d in-tree patterns found", len(pats))
		return
	}
	dirs := testdataDirs()
	limit := ev.EnvInt("C08_DIRS", 48, 100000)
	var mine []string
	for i, d := range dirs {
		if i%ev.NShards() == ev.Shard() && len(mine)*ev.NShards() < limit {
			mine = append(mine, d)
		}
	}
	if len(mine) == 0 {
		return
	}
	c := &Case{Patterns: pats, Dirs: mine}
	js, _ := json.Marshal(c)
	msg, infra := evaluate(c)
	if infra != "" {
		ev.Infra("%s", trunc(infra, 2000))
		return
	}
	if msg != "" {
		ev.Violate("TestInTreePatterns", msg, "json", js)
		t.Errorf("%s", msg)
	}
}

func replayFile(t *testing.T, f, test string) {
	if probe == nil {
		probe = makeProbe()
	}
	b, err := os.ReadFile(f)
	if err != nil {
		ev.Infra("read %s: %v", f, err)
		return
	}
	var c Case
	if err := json.Unmarshal(b, &c); err != nil {
		ev.Infra("decode %s: %v", f, err)
		return
	}
	msg, infra := evaluate(&c)
	if infra != "" {
		ev.Infra("%s: %s", f, infra)
		return
	}
	if msg != "" {
		ev.Violate(test, fmt.Sprintf("replay of %s:\n%s", f, msg), "json", b)
		t.Errorf("%s", msg)
	} else {
		t.Logf("replay %s: property holds", f)
	}
}

func TestCorpus(t *testing.T) {
	if os.Getenv("VERIF_SECONDARY") != "" {
		return
	}
	fs, _ := filepath.Glob(filepath.Join(os.Getenv("VERIF_ROOT"), "corpus", "C08", "*.json"))
	sort.Strings(fs)
	for _, f := range fs {
		replayFile(t, f, "TestCorpus")
	}
}

func TestReplay(t *testing.T) {
	if f := ev.ReplayFile(); f != "" {
		replayFile(t, f, "TestReplay")
	}
}
