package c08

import (
	"bytes"
	"encoding/json"
	"fmt"
	"go/ast"
	"go/parser"
	"go/printer"
	"go/token"
	"go/types"
	"os"
	"path/filepath"
	"reflect"
	"sort"
	"strconv"
	"strings"
	"testing"

	"golang.org/x/tools/go/analysis"
	"honnef.co/go/tools/analysis/code"
	"honnef.co/go/tools/lintcmd/runner"
	"honnef.co/go/tools/pattern"
	"pgregory.net/rapid"
	"verif/harness/internal/ev"
	"verif/harness/internal/rn"
)

func TestMain(m *testing.M) { ev.Main(m) }

const rule = "case = (pattern, package): patterns are (a) every pattern.MustParse literal extracted from the repository's check sources at run time and (b) generated patterns over Symbol/Builtin/Object/Or/Not/Binding/List/IntegerLiteral and AST nodes with symbols drawn from a pool of std functions, methods, types, consts, vars and builtins; packages are a generated call-form zoo (plain, parenthesised callee, function value, method value/expression, generic instantiation, dot import, renamed import, alias, promotion through embedding, conversions, nested calls) and check testdata packages of the repository; oracle = inside a probe analyzer run through the real runner, code.Matches (entry-node, symbol-index and call-site pre-filtering) must yield, for every node on which code.Match succeeds by brute force, a match with equal bindings on that node or on the node it unwraps to (ParenExpr, ExprStmt, DeclStmt, LabeledStmt, one-element block); non-trivial = (pattern, package) with at least one brute-force match and a pattern that has symbols or root call symbols; distinct by (pattern text, package)"

// ---------------------------------------------------------------- probe

type probeConfig struct {
	patterns []string
	parsed   []pattern.Pattern
}

var current *probeConfig

func renderBinding(fset *token.FileSet, v any) string {
	switch x := v.(type) {
	case nil:
		return "<nil>"
	case string:
		return "s:" + x
	case token.Token:
		return "t:" + x.String()
	case types.Object:
		return "o:" + x.String()
	case types.TypeAndValue:
		if x.Value != nil {
			return "tv:" + x.Value.String()
		}
		return "tv"
	case ast.Node:
		rv := reflect.ValueOf(x)
		if rv.Kind() == reflect.Pointer && rv.IsNil() {
			return fmt.Sprintf("%T(nil)", x)
		}
		var buf bytes.Buffer
		printer.Fprint(&buf, fset, x)
		return fmt.Sprintf("%T@%d:%s", x, x.Pos(), buf.String())
	}
	rv := reflect.ValueOf(v)
	if rv.Kind() == reflect.Slice {
		var parts []string
		for i := 0; i < rv.Len(); i++ {
			parts = append(parts, renderBinding(fset, rv.Index(i).Interface()))
		}
		return "[" + strings.Join(parts, "; ") + "]"
	}
	return fmt.Sprintf("%T:%v", v, v)
}

func renderState(fset *token.FileSet, st map[string]any) string {
	var ks []string
	for k := range st {
		ks = append(ks, k)
	}
	sort.Strings(ks)
	var sb strings.Builder
	for _, k := range ks {
		sb.WriteString(k + "=" + renderBinding(fset, st[k]) + ";")
	}
	return sb.String()
}

// unwrapChain lists n and the nodes the matcher unwraps it to.
func unwrapChain(n ast.Node) []ast.Node {
	out := []ast.Node{n}
	for {
		var next ast.Node
		switch x := n.(type) {
		case *ast.ParenExpr:
			next = x.X
		case *ast.ExprStmt:
			next = x.X
		case *ast.DeclStmt:
			next = x.Decl
		case *ast.LabeledStmt:
			next = x.Stmt
		case *ast.BlockStmt:
			if x != nil && len(x.List) == 1 {
				next = x.List[0]
			}
		case *ast.FieldList:
			if x != nil && len(x.List) == 1 {
				next = x.List[0]
			}
		}
		if next == nil || reflect.ValueOf(next).IsNil() {
			return out
		}
		out = append(out, next)
		n = next
	}
}

func makeProbe() *analysis.Analyzer {
	return &analysis.Analyzer{
		Name:     "VP9008",
		Doc:      "verification probe: code.Matches vs brute force",
		Requires: append([]*analysis.Analyzer{rn.Find("tokenfileanalyzer")}, code.RequiredAnalyzers...),
		Run: func(pass *analysis.Pass) (any, error) {
			cfg := current
			if len(pass.Files) == 0 {
				return nil, nil
			}
			anchor := pass.Files[0].Name
			for i, q := range cfg.parsed {
				type hit struct {
					node  ast.Node
					state string
				}
				var G []hit
				func() {
					defer func() {
						if r := recover(); r != nil {
							pass.Report(analysis.Diagnostic{Pos: anchor.Pos(), Message: fmt.Sprintf("PANIC %d code.Matches: %v", i, r)})
						}
					}()
					for n, m := range code.Matches(pass, q) {
						G = append(G, hit{n, renderState(pass.Fset, m.State)})
					}
				}()
				nb, miss := 0, 0
				for _, f := range pass.Files {
					ast.Inspect(f, func(n ast.Node) bool {
						if n == nil {
							return false
						}
						var m *pattern.Matcher
						var ok bool
						func() {
							defer func() {
								if r := recover(); r != nil {
									ok = false // the matcher panics on some node kinds for some patterns; not this property's subject
								}
							}()
							m, ok = code.Match(pass, q, n)
						}()
						if !ok {
							return true
						}
						nb++
						st := renderState(pass.Fset, m.State)
						found := false
						for _, cand := range unwrapChain(n) {
							for _, g := range G {
								if g.node == cand && g.state == st {
									found = true
								}
							}
						}
						if !found {
							miss++
							if miss <= 3 {
								var buf bytes.Buffer
								printer.Fprint(&buf, pass.Fset, n)
								pos := pass.Fset.Position(n.Pos())
								pass.Report(analysis.Diagnostic{Pos: anchor.Pos(), Message: fmt.Sprintf("MISS %d %s:%d:%d %T %q bindings{%s}", i, filepath.Base(pos.Filename), pos.Line, pos.Column, n, trunc(buf.String(), 120), st)})
							}
						}
						return true
					})
				}
				if nb > 0 || len(G) > 0 {
					pass.Report(analysis.Diagnostic{Pos: anchor.Pos(), Message: fmt.Sprintf("STATS %d %d %d", i, len(G), nb)})
				}
			}
			return nil, nil
		},
	}
}

func trunc(s string, n int) string {
	s = strings.ReplaceAll(s, "\n", " ")
	if len(s) > n {
		return s[:n] + "…"
	}
	return s
}

var probe *analysis.Analyzer

// ---------------------------------------------------------------- patterns

// inTreePatterns extracts every pattern.MustParse string literal from the repository's check sources.
func inTreePatterns() []string {
	seen := map[string]bool{}
	var out []string
	for _, root := range []string{"/repo/staticcheck", "/repo/simple", "/repo/stylecheck", "/repo/quickfix", "/repo/analysis"} {
		filepath.Walk(root, func(path string, info os.FileInfo, err error) error {
			if err != nil || info.IsDir() || !strings.HasSuffix(path, ".go") || strings.HasSuffix(path, "_test.go") || strings.Contains(path, "/testdata/") {
				return nil
			}
			fset := token.NewFileSet()
			f, err := parser.ParseFile(fset, path, nil, parser.SkipObjectResolution)
			if err != nil {
				return nil
			}
			ast.Inspect(f, func(n ast.Node) bool {
				call, ok := n.(*ast.CallExpr)
				if !ok || len(call.Args) != 1 {
					return true
				}
				sel, ok := call.Fun.(*ast.SelectorExpr)
				if !ok || sel.Sel.Name != "MustParse" {
					return true
				}
				if x, ok := sel.X.(*ast.Ident); !ok || x.Name != "pattern" {
					return true
				}
				lit, ok := call.Args[0].(*ast.BasicLit)
				if !ok || lit.Kind != token.STRING {
					return true
				}
				s, err := strconv.Unquote(lit.Value)
				if err == nil && !seen[s] {
					seen[s] = true
					out = append(out, s)
				}
				return true
			})
			return nil
		})
	}
	sort.Strings(out)
	return out
}

// symbol pool: name, and how the zoo can use it
type sym struct {
	name string // pattern symbol name
	kind string // func | method | type | var | builtin
	use  []string
}

var pool = []sym{
	{"strings.Replace", "func", []string{`strings.Replace(s, "a", "b", -1)`, `(strings.Replace)(s, "a", "b", 1)`, `str.Replace(s, "a", "b", 2)`, `fmt.Println(strings.Replace(s, "x", "y", n))`}},
	{"strings.ToLower", "func", []string{`strings.ToLower(s)`, `str.ToLower(strings.ToLower(s))`, `_ = strings.ToLower`}},
	{"strings.Index", "func", []string{`_ = strings.Index(s, "a") == -1`, `_ = str.Index(s, "b") != -1`}},
	{"sort.Strings", "func", []string{`Strings(ss)`, `sort.Strings(ss)`, `(Strings)(ss)`}},
	{"fmt.Sprintf", "func", []string{`_ = fmt.Sprintf("%d", n)`, `_ = fmt.Sprintf("%s", s)`, `sp := fmt.Sprintf; _ = sp("x")`}},
	{"fmt.Println", "func", []string{`fmt.Println(s)`, `fmt.Println()`}},
	{"(*strings.Builder).WriteString", "method", []string{`sb.WriteString("x")`, `mv := sb.WriteString; mv("y")`, `(*strings.Builder).WriteString(&sb, "z")`, `em.WriteString("q")`, `al.WriteString("w")`}},
	{"(*bytes.Buffer).String", "method", []string{`_ = buf.String()`, `_ = (&buf).String()`, `bs := buf.String; _ = bs()`}},
	{"(time.Time).Sub", "method", []string{`_ = t1.Sub(t0)`, `_ = time.Time.Sub(t1, t0)`, `_ = t1.Sub(time.Now())`}},
	{"time.Now", "func", []string{`_ = time.Now()`, `_ = time.Now().Sub(t0)`, `_ = tm.Now()`}},
	{"time.Since", "func", []string{`_ = time.Since(t0)`}},
	{"slices.Contains", "func", []string{`_ = slices.Contains(ns, 1)`, `_ = slices.Contains[[]int](ns, 2)`, `_ = slices.Contains[[]int, int](ns, 3)`}},
	{"time.Duration", "type", []string{`_ = time.Duration(n)`, `_ = time.Duration(n) * time.Second`, `var d time.Duration; _ = d`}},
	{"os.Stdout", "var", []string{`fmt.Fprintln(os.Stdout, s)`, `_ = os.Stdout`}},
	{"io.EOF", "var", []string{`_ = err == io.EOF`, `_ = errors.Is(err, io.EOF)`}},
	{"errors.New", "func", []string{`_ = errors.New("x")`, `err = errors.New(fmt.Sprintf("%d", n))`}},
	{"len", "builtin", []string{`_ = len(s) == 0`, `_ = len(ss) > 0`, `_ = len(strings.ToLower(s))`}},
	{"append", "builtin", []string{`ss = append(ss, s)`, `ns = append(ns, 1, 2)`, `ss = append(ss, ss...)`}},
	{"copy", "builtin", []string{`copy(ns, ns)`}},
	{"math.MaxInt32", "var", []string{`_ = n > math.MaxInt32`}},
}

type Case struct {
	Patterns []string `json:"patterns"`
	Zoo      string   `json:"zoo"`          // generated package source ("" = none)
	Dirs     []string `json:"dirs"`         // repository package directories to analyse
	Shadow   bool     `json:"shadow_local"` // zoo declares a local with the name of a builtin (precondition probe)
}

const zooHeader = `package zoo

import (
	"bytes"
	"errors"
	"fmt"
	"io"
	"math"
	"os"
	"slices"
	"sort"
	. "sort"
	"strings"
	str "strings"
	"time"
	tm "time"
)

var (
	_ = bytes.NewBuffer
	_ = errors.New
	_ = fmt.Sprint
	_ = io.EOF
	_ = math.Pi
	_ = os.Args
	_ = slices.Contains[[]int]
	_ = sort.Ints
	_ = Ints
	_ = strings.ToUpper
	_ = str.ToUpper
	_ = time.Second
	_ = tm.Second
)

type al = strings.Builder

type emb struct{ strings.Builder }

`

func genZoo(t *rapid.T) string {
	var sb strings.Builder
	sb.WriteString(zooHeader)
	nf := rapid.IntRange(1, 3).Draw(t, "nfuncs")
	for f := 0; f < nf; f++ {
		fmt.Fprintf(&sb, "func zoo%d(s string, ss []string, ns []int, n int, t0, t1 time.Time, err error) {\n", f)
		sb.WriteString("\tvar sb strings.Builder\n\tvar buf bytes.Buffer\n\tvar em emb\n\tvar al al\n\t_, _, _, _ = &sb, &buf, &em, &al\n")
		k := rapid.IntRange(3, 14).Draw(t, "nstmts")
		for i := 0; i < k; i++ {
			sy := pool[rapid.IntRange(0, len(pool)-1).Draw(t, "sym")]
			use := sy.use[rapid.IntRange(0, len(sy.use)-1).Draw(t, "use")]
			if strings.Contains(use, ":=") || strings.HasPrefix(use, "var ") {
				use = "{ " + use + " }" // own scope: the same form may be drawn twice
			}
			switch rapid.IntRange(0, 5).Draw(t, "wrap") {
			case 0:
				fmt.Fprintf(&sb, "\tif n > %d {\n\t\t%s\n\t}\n", i, use)
			case 1:
				fmt.Fprintf(&sb, "\tfor range ss {\n\t\t%s\n\t}\n", use)
			case 2:
				fmt.Fprintf(&sb, "\tfunc() {\n\t\t%s\n\t}()\n", use)
			default:
				fmt.Fprintf(&sb, "\t%s\n", use)
			}
		}
		sb.WriteString("}\n\n")
	}
	return sb.String()
}

// genPattern draws a pattern text over the pool.
func genPattern(t *rapid.T) string {
	pick := func(label string, n int) int { return rapid.IntRange(0, n-1).Draw(t, label) }
	symName := func() string { return pool[pick("psym", len(pool))].name }
	nbind := 0
	symNode := func() string {
		nbind++ // every binding name is created once per pattern
		switch pick("symform", 6) {
		case 0:
			return fmt.Sprintf(`(Symbol (Or %q %q))`, symName(), symName())
		case 1:
			return fmt.Sprintf(`(Symbol name%d@(Or %q %q %q))`, nbind, symName(), symName(), symName())
		case 2:
			return fmt.Sprintf(`fn%d@(Symbol %q)`, nbind, symName())
		case 3:
			return fmt.Sprintf(`(Or (Symbol %q) (Symbol %q))`, symName(), symName())
		default:
			return fmt.Sprintf(`(Symbol %q)`, symName())
		}
	}
	args := func() string {
		return []string{"_", "args", "[_]", "[_ _]", "x:_", "[x]", "[(BasicLit \"STRING\" _) _]", "_:_:_"}[pick("args", 8)]
	}
	switch pick("shape", 14) {
	case 0, 1, 2, 3:
		return fmt.Sprintf(`(CallExpr %s %s)`, symNode(), args())
	case 4:
		return fmt.Sprintf(`(BinaryExpr (CallExpr %s %s) (Or "==" "!=" ">") (Or (IntegerLiteral "0") (UnaryExpr "-" (IntegerLiteral "1")) (IntegerLiteral _)))`, symNode(), args())
	case 5:
		return fmt.Sprintf(`(AssignStmt x "=" (CallExpr %s x:_))`, symNode())
	case 6:
		return fmt.Sprintf(`(CallExpr %s [(CallExpr %s _)])`, symNode(), symNode())
	case 7:
		return fmt.Sprintf(`(CallExpr (Builtin %q) %s)`, []string{"len", "append", "copy", "cap"}[pick("builtin", 4)], args())
	case 8:
		return symNode()
	case 9:
		return fmt.Sprintf(`(Or (CallExpr %s _) (CallExpr (Builtin "len") _))`, symNode())
	case 10:
		return fmt.Sprintf(`(CallExpr (Not %s) %s)`, symNode(), args())
	case 11:
		return fmt.Sprintf(`(CallExpr (SelectorExpr recv (Ident %q)) %s)`, []string{"WriteString", "Sub", "String", "Now"}[pick("sel", 4)], args())
	case 12:
		return fmt.Sprintf(`(CallExpr (Object %q) %s)`, []string{"Strings", "len", "sp", "mv"}[pick("obj", 4)], args())
	default:
		return fmt.Sprintf(`(BinaryExpr _ _ %s)`, symNode())
	}
}

// ---------------------------------------------------------------- evaluation

func evaluate(c *Case) (msg string, infra string) {
	cfg := &probeConfig{patterns: c.Patterns}
	for _, p := range c.Patterns {
		q, err := (&pattern.Parser{AllowTypeInfo: true}).Parse(p)
		if err != nil {
			return "", fmt.Sprintf("pattern does not parse: %s: %v", p, err)
		}
		cfg.parsed = append(cfg.parsed, q)
	}
	current = cfg
	var sb strings.Builder
	handle := func(res []runner.Result) error {
		for _, r := range res {
			if !r.Initial {
				continue
			}
			if r.Failed {
				ev.Count("packages_failed_to_load", 1)
				continue
			}
			data, err := r.Load()
			if err != nil {
				return err
			}
			for _, d := range data.Diagnostics {
				if d.Category != "VP9008" {
					continue
				}
				f := strings.SplitN(d.Message, " ", 3)
				idx, _ := strconv.Atoi(f[1])
				switch f[0] {
				case "STATS":
					var g, b int
					fmt.Sscan(f[2], &g, &b)
					q := cfg.parsed[idx]
					hasSyms := len(q.RootCallSymbols) > 0
					if _, isAny := q.SymbolsPattern.(pattern.Any); !isAny && q.SymbolsPattern != nil {
						hasSyms = true
					}
					classes := []string{"pattern_package_pair"}
					if len(q.RootCallSymbols) > 0 {
						classes = append(classes, "uses_root_call_symbols")
					}
					if hasSyms {
						classes = append(classes, "has_symbols")
					}
					ev.Case(ev.Hash(c.Patterns[idx], r.Package.PkgPath), b > 0 && hasSyms, classes...)
					ev.Count("brute_force_matches", b)
					ev.Count("prefiltered_matches", g)
				case "MISS":
					fmt.Fprintf(&sb, "package %s, pattern %s\n  brute force matches %s\n  but code.Matches does not yield that node (or what it unwraps to) with these bindings\n", r.Package.PkgPath, c.Patterns[idx], f[2])
				case "PANIC":
					fmt.Fprintf(&sb, "package %s, pattern %s: %s\n", r.Package.PkgPath, c.Patterns[idx], f[2])
				}
			}
		}
		return nil
	}
	if c.Zoo != "" {
		dir, err := os.MkdirTemp("", "c08-")
		if err != nil {
			return "", err.Error()
		}
		defer os.RemoveAll(dir)
		os.WriteFile(filepath.Join(dir, "go.mod"), []byte("module zoo\n\ngo 1.26.0\n"), 0o644)
		os.WriteFile(filepath.Join(dir, "zoo.go"), []byte(c.Zoo), 0o644)
		if err := rn.Run(rn.Options{Dir: dir}, []*analysis.Analyzer{probe}, []string{"."}, handle); err != nil {
			return "", "runner (zoo): " + err.Error() + "\n" + c.Zoo
		}
	}
	if len(c.Dirs) > 0 {
		if err := rn.Run(rn.Options{Dir: "/repo"}, []*analysis.Analyzer{probe}, c.Dirs, handle); err != nil {
			return "", "runner (repo dirs): " + err.Error()
		}
	}
	return sb.String(), ""
}

func testdataDirs() []string {
	var out []string
	for _, g := range []string{"/repo/simple/s*/testdata/go1.0/*", "/repo/staticcheck/sa*/testdata/go1.0/*", "/repo/stylecheck/st*/testdata/go1.0/*", "/repo/quickfix/qf*/testdata/go1.0/*"} {
		m, _ := filepath.Glob(g)
		for _, d := range m {
			if st, err := os.Stat(d); err == nil && st.IsDir() {
				out = append(out, "./"+strings.TrimPrefix(d, "/repo/"))
			}
		}
	}
	sort.Strings(out)
	return out
}

func TestGenerated(t *testing.T) {
	probe = makeProbe()
	ev.Rule(rule)
	ev.Assume("symbols named by generated patterns are std symbols, never declared in the analysed package (the property's precondition)")
	ev.Check(t, "TestGenerated", func(rt *rapid.T) {
		c := &Case{Zoo: genZoo(rt)}
		n := rapid.IntRange(4, 16).Draw(rt, "npatterns")
		for i := 0; i < n; i++ {
			c.Patterns = append(c.Patterns, genPattern(rt))
		}
		js, _ := json.Marshal(c)
		ev.Begin("TestGenerated", "json", js)
		msg, infra := evaluate(c)
		if infra != "" {
			ev.Count("infra_skipped", 1)
			ev.Extra("last_infra", trunc(infra, 1500))
			rt.Skip(infra)
		}
		if ev.WantSample() {
			ev.Sample(map[string]any{"patterns": c.Patterns[:min(4, len(c.Patterns))], "zoo_bytes": len(c.Zoo)})
		}
		if msg != "" {
			ev.Failf(rt, "TestGenerated", "%s\nzoo:\n%s", msg, c.Zoo)
		}
	})
}

// TestInTreePatterns runs every pattern compiled into the checks over the check testdata packages (sharded) and a generated zoo.
func TestInTreePatterns(t *testing.T) {
	if probe == nil {
		probe = makeProbe()
	}
	pats := inTreePatterns()
	ev.Extra("in_tree_patterns", len(pats))
	if len(pats) < 40 {
		ev.Infra("only %d in-tree patterns found", len(pats))
		return
	}
	dirs := testdataDirs()
	limit := ev.EnvInt("C08_DIRS", 48, 100000)
	var mine []string
	for i, d := range dirs {
		if i%ev.NShards() == ev.Shard() && len(mine)*ev.NShards() < limit {
			mine = append(mine, d)
		}
	}
	if len(mine) == 0 {
		return
	}
	c := &Case{Patterns: pats, Dirs: mine}
	js, _ := json.Marshal(c)
	msg, infra := evaluate(c)
	if infra != "" {
		ev.Infra("%s", trunc(infra, 2000))
		return
	}
	if msg != "" {
		ev.Violate("TestInTreePatterns", msg, "json", js)
		t.Errorf("%s", msg)
	}
}

func replayFile(t *testing.T, f, test string) {
	if probe == nil {
		probe = makeProbe()
	}
	b, err := os.ReadFile(f)
	if err != nil {
		ev.Infra("read %s: %v", f, err)
		return
	}
	var c Case
	if err := json.Unmarshal(b, &c); err != nil {
		ev.Infra("decode %s: %v", f, err)
		return
	}
	msg, infra := evaluate(&c)
	if infra != "" {
		ev.Infra("%s: %s", f, infra)
		return
	}
	if msg != "" {
		ev.Violate(test, fmt.Sprintf("replay of %s:\n%s", f, msg), "json", b)
		t.Errorf("%s", msg)
	} else {
		t.Logf("replay %s: property holds", f)
	}
}

func TestCorpus(t *testing.T) {
	if os.Getenv("VERIF_SECONDARY") != "" {
		return
	}
	fs, _ := filepath.Glob(filepath.Join(os.Getenv("VERIF_ROOT"), "corpus", "C08", "*.json"))
	sort.Strings(fs)
	for _, f := range fs {
		replayFile(t, f, "TestCorpus")
	}
}

func TestReplay(t *testing.T) {
	if f := ev.ReplayFile(); f != "" {
		replayFile(t, f, "TestReplay")
	}
}
