package c17

import (
	"bytes"
	"encoding/json"
	"fmt"
	"os"
	"os/exec"
	"path/filepath"
	"sort"
	"strings"
	"testing"

	"honnef.co/go/tools/unused"
	"pgregory.net/rapid"
	"verif/harness/internal/declgen"
	"verif/harness/internal/ev"
	"verif/harness/internal/u1k"
)

func TestMain(m *testing.M) { ev.Main(m) }

const rule = "case = generated package (declgen) plus variants of it analysed in one runner invocation: (a) files re-drawn and top-level declarations permuted, (b) an identical copy (repetition), (c) one added read reference to a drawn object from the used function Root0; oracle (metamorphic) = the multiset of (kind, name) U1000 reports is equal for (a) and (b), and for (c) nothing newly becomes unused and the referenced object is not reported; test variants: a generated package with in-package and external tests is linted by the real binary with -tests and every printed U1000 problem must be unused in every variant result the runner returns for that package; non-trivial = package with >=2 files, >=1 unused and >=1 used object and a non-identity permutation; distinct by (source hash, variant)"

type Variant struct {
	Kind  string           `json:"kind"` // base | permuted | copy | addref
	Pkg   *declgen.Package `json:"pkg"`
	AddTo string           `json:"add_object,omitempty"`
}

type Case struct {
	Variants []Variant `json:"variants"`
}

func clonePkg(p *declgen.Package) *declgen.Package {
	q := *p
	q.Decls = append([]declgen.Decl(nil), p.Decls...)
	q.Files = nil
	for _, f := range p.Files {
		q.Files = append(q.Files, append([]int(nil), f...))
	}
	return &q
}

func genCase(t *rapid.T) *Case {
	name := "p"
	if rapid.IntRange(0, 4).Draw(t, "main") == 0 {
		name = "main"
	}
	base := declgen.Generate(t, name)
	c := &Case{Variants: []Variant{{Kind: "base", Pkg: base}, {Kind: "copy", Pkg: clonePkg(base)}}}
	nperm := rapid.IntRange(1, 3).Draw(t, "nperm")
	for i := 0; i < nperm; i++ {
		q := clonePkg(base)
		order := rapid.Permutation(seq(len(base.Decls))).Draw(t, "declorder")
		nfiles := rapid.IntRange(1, 3).Draw(t, "nfiles")
		q.Files = make([][]int, nfiles)
		for _, d := range order {
			f := rapid.IntRange(0, nfiles-1).Draw(t, "file")
			q.Files[f] = append(q.Files[f], d)
		}
		// Go needs at least one non-empty file; empty files still need a package clause, which Source provides
		c.Variants = append(c.Variants, Variant{Kind: "permuted", Pkg: q})
	}
	nadd := rapid.IntRange(1, 3).Draw(t, "nadd")
	for i := 0; i < nadd && len(base.Refs) > 0; i++ {
		ref := base.Refs[rapid.IntRange(0, len(base.Refs)-1).Draw(t, "ref")]
		q := clonePkg(base)
		for k, d := range q.Decls {
			if strings.HasPrefix(d.Text, "func Root0() {") {
				q.Decls[k].Text = strings.TrimSuffix(d.Text, "}") + "\t" + ref.Stmt + "\n}"
			}
		}
		c.Variants = append(c.Variants, Variant{Kind: "addref", Pkg: q, AddTo: ref.Object})
	}
	return c
}

func seq(n int) []int {
	s := make([]int, n)
	for i := range s {
		s[i] = i
	}
	return s
}

// names renders the reported objects as a sorted multiset of "kind name".
func names(objs []unused.Object) []string {
	var out []string
	for _, o := range objs {
		out = append(out, o.Kind+" "+o.Name)
	}
	sort.Strings(out)
	return out
}

func diff(a, b []string) (onlyA, onlyB []string) {
	count := map[string]int{}
	for _, x := range a {
		count[x]++
	}
	for _, x := range b {
		count[x]--
	}
	for k, n := range count {
		for ; n > 0; n-- {
			onlyA = append(onlyA, k)
		}
		for ; n < 0; n++ {
			onlyB = append(onlyB, k)
		}
	}
	sort.Strings(onlyA)
	sort.Strings(onlyB)
	return
}

func evaluate(c *Case) (msg string, infra string) {
	mod := map[string]string{}
	for k, v := range c.Variants {
		nonEmpty := false
		for i := range v.Pkg.Files {
			mod[fmt.Sprintf("q%d/%s", k, v.Pkg.FileName(i))] = v.Pkg.Source(i)
			nonEmpty = true
		}
		if !nonEmpty {
			return "", "variant without files"
		}
	}
	dir, err := u1k.WriteModule(mod)
	if err != nil {
		return "", err.Error()
	}
	defer os.RemoveAll(dir)
	vs, err := u1k.Run(dir, false, "./...")
	if err != nil {
		return "", "runner: " + err.Error()
	}
	byPath := map[string]unused.Result{}
	for _, v := range vs {
		byPath[v.Path] = v.Result
	}
	if len(byPath) != len(c.Variants) {
		return "", fmt.Sprintf("expected %d packages, got %d", len(c.Variants), len(byPath))
	}
	base := names(byPath["m/q0"].Unused)
	baseUsed := names(byPath["m/q0"].Used)
	var sb strings.Builder
	for k, v := range c.Variants {
		res := byPath[fmt.Sprintf("m/q%d", k)]
		got := names(res.Unused)
		identity := true
		if v.Kind == "permuted" {
			bf, vf := c.Variants[0].Pkg.Files, v.Pkg.Files
			identity = fmt.Sprint(bf) == fmt.Sprint(vf)
		}
		switch v.Kind {
		case "copy", "permuted":
			onlyBase, onlyVar := diff(base, got)
			if len(onlyBase)+len(onlyVar) > 0 {
				fmt.Fprintf(&sb, "variant q%d (%s): U1000 verdicts differ from the base package: only in base %v, only in variant %v\n", k, v.Kind, onlyBase, onlyVar)
			}
			nt := v.Kind == "permuted" && !identity && len(v.Pkg.Files) >= 2 && len(base) > 0 && len(baseUsed) > 0
			ev.Case(ev.Hash(srcOf(v.Pkg), v.Kind), nt, "variant_"+v.Kind)
		case "addref":
			// Used(P) must be contained in Used(P'): objects that were silent because their owner was
			// unused ("quiet") may legitimately start to be reported, objects that were used may not
			lostUse, _ := diff(baseUsed, names(res.Used))
			if len(lostUse) > 0 {
				fmt.Fprintf(&sb, "variant q%d: adding a reference to %q from Root0 made previously used objects unused: %v\n", k, v.AddTo, lostUse)
			}
			ambiguous := 0
			for _, r := range c.Variants[0].Pkg.Refs {
				if r.Object == v.AddTo {
					ambiguous++
				}
			}
			for _, g := range got {
				// (kind, name) identifies the object only if no other struct has a field of that name
				if g == v.AddTo && ambiguous == 1 {
					fmt.Fprintf(&sb, "variant q%d: %q is referenced from the used function Root0 but still reported as unused\n", k, v.AddTo)
				}
			}
			wasUnused := false
			for _, b := range base {
				if b == v.AddTo {
					wasUnused = true
				}
			}
			cls := "variant_addref"
			if wasUnused {
				cls = "variant_addref_to_unused_object"
			}
			ev.Case(ev.Hash(srcOf(v.Pkg), v.Kind, v.AddTo), wasUnused, cls)
		}
	}
	if sb.Len() > 0 {
		fmt.Fprintf(&sb, "base package reports: %v\n", base)
		for k, v := range c.Variants {
			fmt.Fprintf(&sb, "// ======== q%d (%s %s)\n", k, v.Kind, v.AddTo)
			for i := range v.Pkg.Files {
				fmt.Fprintf(&sb, "// ---- %s\n%s", v.Pkg.FileName(i), v.Pkg.Source(i))
			}
			if k == 0 {
				continue
			}
			if sb.Len() > 30000 {
				break
			}
		}
	}
	return sb.String(), ""
}

func srcOf(p *declgen.Package) string {
	var sb strings.Builder
	for i := range p.Files {
		sb.WriteString(p.Source(i))
		sb.WriteString("\x00")
	}
	return sb.String()
}

func TestOrderAndMonotonicity(t *testing.T) {
	ev.Rule(rule)
	ev.Assume("objects are identified by (kind, name) as a multiset, because positions change under permutation")
	ev.Check(t, "TestOrderAndMonotonicity", func(rt *rapid.T) {
		c := genCase(rt)
		js, _ := json.Marshal(c)
		ev.Begin("TestOrderAndMonotonicity", "json", js)
		msg, infra := evaluate(c)
		if infra != "" {
			ev.Count("infra_skipped", 1)
			ev.Extra("last_infra", infra)
			rt.Skip(infra)
		}
		if ev.WantSample() {
			var kinds []string
			for _, v := range c.Variants {
				kinds = append(kinds, strings.TrimSpace(v.Kind+" "+v.AddTo))
			}
			ev.Sample(map[string]any{"variants": kinds, "decls": len(c.Variants[0].Pkg.Decls), "features": c.Variants[0].Pkg.Feat})
		}
		if msg != "" {
			ev.Failf(rt, "TestOrderAndMonotonicity", "%s", msg)
		}
	})
}

// ---------------------------------------------------------------- test variants through the real binary

type TestCase struct {
	Pkg      *declgen.Package `json:"pkg"`
	InPkg    []string         `json:"in_package_test_refs"` // statements inside an in-package test
	External bool             `json:"external_test"`
}

func genTestCase(t *rapid.T) *TestCase {
	tc := &TestCase{Pkg: declgen.Generate(t, "p")}
	n := rapid.IntRange(0, 4).Draw(t, "ninpkg")
	for i := 0; i < n && len(tc.Pkg.Refs) > 0; i++ {
		tc.InPkg = append(tc.InPkg, tc.Pkg.Refs[rapid.IntRange(0, len(tc.Pkg.Refs)-1).Draw(t, "ref")].Stmt)
	}
	tc.External = rapid.Bool().Draw(t, "external")
	// a third of the packages are displayed under other file names and line numbers (//line comments)
	tc.Pkg.LineDir = rapid.IntRange(0, 2).Draw(t, "linedirective") == 0
	return tc
}

type problem struct {
	Code     string `json:"code"`
	Message  string `json:"message"`
	Location struct {
		File string `json:"file"`
		Line int    `json:"line"`
	} `json:"location"`
}

func evaluateTests(tc *TestCase) (msg string, infra string) {
	mod := map[string]string{}
	for i := range tc.Pkg.Files {
		mod["p/"+tc.Pkg.FileName(i)] = tc.Pkg.Source(i)
	}
	if len(tc.InPkg) > 0 {
		mod["p/in_test.go"] = "package p\n\nimport \"testing\"\n\nfunc TestIn(t *testing.T) {\n\t" + strings.Join(tc.InPkg, "\n\t") + "\n}\n"
	}
	if tc.External {
		mod["p/ext_test.go"] = "package p_test\n\nimport (\n\t\"testing\"\n\n\t\"m/p\"\n)\n\nfunc TestExt(t *testing.T) { p.Root0() }\n"
	}
	dir, err := u1k.WriteModule(mod)
	if err != nil {
		return "", err.Error()
	}
	defer os.RemoveAll(dir)
	vs, err := u1k.Run(dir, true, "./p")
	if err != nil {
		return "", "runner: " + err.Error()
	}
	type okey struct {
		file string
		line int
		name string
	}
	usedSomewhere := map[okey]bool{}
	unusedSomewhere := map[okey]bool{}
	for _, v := range vs {
		if !strings.HasPrefix(v.Path, "m/p") || strings.HasSuffix(v.Path, ".test") {
			continue
		}
		// the command prints displayed positions (after //line comments)
		for _, o := range v.Result.Used {
			usedSomewhere[okey{filepath.Base(o.DisplayPosition.Filename), o.DisplayPosition.Line, o.Name}] = true
		}
		for _, o := range v.Result.Unused {
			unusedSomewhere[okey{filepath.Base(o.DisplayPosition.Filename), o.DisplayPosition.Line, o.Name}] = true
		}
	}
	cache, _ := os.MkdirTemp("", "c17cache-")
	defer os.RemoveAll(cache)
	cmd := exec.Command(filepath.Join(ev.BinDir(), "staticcheck"), "-tests", "-f", "json", "-checks", "U1000", "./p")
	cmd.Dir = dir
	cmd.Env = append(os.Environ(), "STATICCHECK_CACHE="+cache)
	var stdout, stderr bytes.Buffer
	cmd.Stdout, cmd.Stderr = &stdout, &stderr
	runErr := cmd.Run()
	if ee, ok := runErr.(*exec.ExitError); runErr != nil && (!ok || ee.ExitCode() > 1) {
		return "", fmt.Sprintf("staticcheck failed: %v\n%s", runErr, stderr.String())
	}
	var sb strings.Builder
	nprinted := 0
	for _, line := range strings.Split(strings.TrimSpace(stdout.String()), "\n") {
		if line == "" {
			continue
		}
		var p problem
		if err := json.Unmarshal([]byte(line), &p); err != nil {
			return "", "cannot parse staticcheck output: " + line
		}
		if p.Code != "U1000" {
			if p.Code == "compile" {
				return "", "compile problem: " + p.Message
			}
			continue
		}
		nprinted++
		// "<kind> <name> is unused"
		fields := strings.Fields(p.Message)
		name := strings.Join(fields[1:len(fields)-2], " ")
		k := okey{filepath.Base(p.Location.File), p.Location.Line, name}
		if usedSomewhere[k] {
			fmt.Fprintf(&sb, "%s:%d: %q is printed although a variant of the package uses that object\n", k.file, k.line, p.Message)
		}
		if !unusedSomewhere[k] {
			ev.Count("printed_object_not_matched_to_a_variant_result", 1)
		}
	}
	variants := 0
	for _, v := range vs {
		if strings.HasPrefix(v.Path, "m/p") {
			variants++
		}
	}
	nt := variants >= 2 && nprinted > 0 && len(tc.InPkg) > 0
	tcls := []string{"tests_variant_case", fmt.Sprintf("tests_variants_%d", variants)}
	if tc.Pkg.LineDir {
		tcls = append(tcls, "tests_variant_case_with_line_directives")
	}
	ev.Case(ev.Hash("tests", srcOf(tc.Pkg), strings.Join(tc.InPkg, ";"), fmt.Sprint(tc.External)), nt, tcls...)
	if sb.Len() > 0 {
		for n, s := range mod {
			if strings.HasSuffix(n, ".go") {
				fmt.Fprintf(&sb, "// ---- %s\n%s", n, s)
			}
		}
	}
	return sb.String(), ""
}

func TestVariantsWithTests(t *testing.T) {
	ev.Check(t, "TestVariantsWithTests", func(rt *rapid.T) {
		if rapid.IntRange(0, 3).Draw(rt, "thin") != 0 {
			// this sub-check costs two tool runs per case; run it for a quarter of the budgeted cases
			return
		}
		tc := genTestCase(rt)
		js, _ := json.Marshal(tc)
		ev.Begin("TestVariantsWithTests", "tests.json", js)
		msg, infra := evaluateTests(tc)
		if infra != "" {
			ev.Count("infra_skipped", 1)
			ev.Extra("last_infra", infra)
			rt.Skip(infra)
		}
		if msg != "" {
			ev.Failf(rt, "TestVariantsWithTests", "%s", msg)
		}
	})
}

func replayFile(t *testing.T, f, test string) {
	b, err := os.ReadFile(f)
	if err != nil {
		ev.Infra("read %s: %v", f, err)
		return
	}
	var msg, infra string
	if strings.HasSuffix(f, ".tests.json") {
		var tc TestCase
		if err := json.Unmarshal(b, &tc); err != nil {
			ev.Infra("decode %s: %v", f, err)
			return
		}
		msg, infra = evaluateTests(&tc)
	} else {
		var c Case
		if err := json.Unmarshal(b, &c); err != nil {
			ev.Infra("decode %s: %v", f, err)
			return
		}
		msg, infra = evaluate(&c)
	}
	if infra != "" {
		ev.Infra("%s: %s", f, infra)
		return
	}
	if msg != "" {
		ev.Violate(test, fmt.Sprintf("replay of %s:\n%s", f, msg), "json", b)
		t.Errorf("%s", msg)
	} else {
		t.Logf("replay %s: property holds", f)
	}
}

func TestCorpus(t *testing.T) {
	if os.Getenv("VERIF_SECONDARY") != "" {
		return
	}
	fs, _ := filepath.Glob(filepath.Join(os.Getenv("VERIF_ROOT"), "corpus", "C17", "*.json"))
	sort.Strings(fs)
	for _, f := range fs {
		replayFile(t, f, "TestCorpus")
	}
}

func TestReplay(t *testing.T) {
	if f := ev.ReplayFile(); f != "" {
		replayFile(t, f, "TestReplay")
	}
}
