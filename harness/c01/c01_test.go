package c01

import (
	"bytes"
	"encoding/json"
	"errors"
	"fmt"
	"os"
	"os/exec"
	"path/filepath"
	"sort"
	"strings"
	"testing"

	"honnef.co/go/tools/go/ir"
	"pgregory.net/rapid"
	"verif/harness/internal/ev"
	"verif/harness/internal/gogen"
	"verif/harness/internal/irbuild"
	"verif/harness/internal/irinterp"
)

func TestMain(m *testing.M) { ev.Main(m) }

const rule = "case = a generated import-free, deterministic, terminating Go package (gogen: ints of several widths, strings, arrays/slices, structs, pointers incl. partially escaping locals, closures, methods, interfaces/type switches, generics, if/for/range(int,slice,array,string,map,func)/switch/fallthrough/goto graphs/labelled break+continue, defer/recover with named results, multi-value returns) with 4-10 input vectors per target function; oracle = the package compiled by the Go toolchain and run (ground truth) vs the IR of the same package executed by harness/internal/irinterp in the four configurations {naive,lifted}x{debug refs on,off}: the Run(fn, vector) output strings (results, panic class/value, trace, globals, pointees) must all be equal; non-trivial = program whose target functions contain a loop and at least one phi in lifted form; distinct by source hash"

type config struct {
	name string
	mode ir.BuilderMode
}

var configs = []config{
	{"lifted", ir.InstantiateGenerics},
	{"lifted+debug", ir.InstantiateGenerics | ir.GlobalDebug},
	{"naive", ir.InstantiateGenerics | ir.NaiveForm},
	{"naive+debug", ir.InstantiateGenerics | ir.NaiveForm | ir.GlobalDebug},
}

type Case struct {
	Src      string         `json:"src"`
	NumFuncs int            `json:"num_funcs"`
	Vectors  []gogen.Vector `json:"vectors"`
	Version  string         `json:"go_version"`
}

type runKey struct{ fn, vec int }

// groundTruth compiles the package with the Go toolchain and runs every (fn, vector).
func groundTruth(c *Case) (map[runKey]string, string) {
	dir, err := os.MkdirTemp("", "c01-")
	if err != nil {
		return nil, err.Error()
	}
	defer os.RemoveAll(dir)
	os.MkdirAll(filepath.Join(dir, "p"), 0o755)
	gover := strings.TrimPrefix(c.Version, "go")
	os.WriteFile(filepath.Join(dir, "go.mod"), []byte("module t\n\ngo "+gover+"\n"), 0o644)
	os.WriteFile(filepath.Join(dir, "p", "p.go"), []byte(c.Src), 0o644)
	prog := &gogen.Program{Src: c.Src, NumFuncs: c.NumFuncs, Vectors: c.Vectors}
	os.WriteFile(filepath.Join(dir, "main.go"), []byte(gogen.MainFor(prog)), 0o644)
	build := exec.Command("go", "build", "-o", "prog", ".")
	build.Dir = dir
	if out, err := build.CombinedOutput(); err != nil {
		return nil, fmt.Sprintf("go build failed: %v\n%s", err, out)
	}
	run := exec.Command(filepath.Join(dir, "prog"))
	run.Dir = dir
	var stdout, stderr bytes.Buffer
	run.Stdout, run.Stderr = &stdout, &stderr
	if err := run.Run(); err != nil {
		return nil, fmt.Sprintf("compiled program failed: %v\n%s", err, stderr.String())
	}
	res := map[runKey]string{}
	for _, line := range strings.Split(strings.TrimRight(stdout.String(), "\n"), "\n") {
		var fn, vec int
		parts := strings.SplitN(line, " ", 3)
		if len(parts) < 3 {
			continue
		}
		fmt.Sscan(parts[0], &fn)
		fmt.Sscan(parts[1], &vec)
		res[runKey{fn, vec}] = parts[2]
	}
	return res, ""
}

type interpResult struct {
	out     map[runKey]string
	skipped map[runKey]string // interpreter-level problems (unsupported, budget): inconclusive
	shape   struct{ phis, loops int }
}

func interpret(c *Case, cfg config) (res interpResult, fatal string) {
	res.out = map[runKey]string{}
	res.skipped = map[runKey]string{}
	defer func() {
		if r := recover(); r != nil {
			fatal = fmt.Sprintf("builder panicked in configuration %s: %v", cfg.name, r)
		}
	}()
	b, pkg, err := irbuild.BuildOne(c.Src, c.Version, cfg.mode)
	if err != nil {
		return res, "generated program does not type-check: " + err.Error()
	}
	runFn := pkg.Func("Run")
	if runFn == nil {
		return res, "no Run function"
	}
	for _, fn := range irbuild.Functions(pkg) {
		if !strings.HasPrefix(fn.Name(), "F") && fn.Parent() == nil {
			continue
		}
		for _, blk := range fn.Blocks {
			for _, p := range blk.Preds {
				if p.Index >= blk.Index {
					res.shape.loops++
				}
			}
			for _, in := range blk.Instrs {
				if _, ok := in.(*ir.Phi); ok {
					res.shape.phis++
				}
			}
		}
	}
	in := irinterp.New(b.Prog, pkg, irinterp.Options{MaxSteps: 3000000})
	if err := in.RunInit(); err != nil {
		return res, "" // whole program inconclusive
	}
	for fn := 0; fn < c.NumFuncs; fn++ {
		for vi, v := range c.Vectors {
			k := runKey{fn, vi}
			results, pan, err := in.Call(runFn, []irinterp.Value{fn, v.A, v.B, v.S, v.C})
			switch {
			case err != nil:
				kind := "internal"
				switch {
				case errors.Is(err, irinterp.ErrUnsupported):
					kind = "unsupported"
				case errors.Is(err, irinterp.ErrSteps):
					kind = "budget"
				case errors.Is(err, irinterp.ErrUndefined):
					kind = "undefined"
				}
				res.skipped[k] = kind + ": " + err.Error()
			case pan != nil:
				// Run recovers every panic of the target; a panic escaping Run itself is reported as such
				res.out[k] = "ESCAPED-PANIC " + pan.Class
			default:
				if len(results) == 1 {
					if s, ok := results[0].(string); ok {
						res.out[k] = s
						continue
					}
				}
				res.skipped[k] = fmt.Sprintf("internal: Run returned %v", results)
			}
		}
	}
	return res, ""
}

type verdict struct {
	msg        string
	infra      string
	nontrivial bool
	classes    []string
	runs       int
	skipped    int
}

func evaluate(c *Case, withTruth bool) verdict {
	var v verdict
	var truth map[runKey]string
	if withTruth {
		t, infra := groundTruth(c)
		if infra != "" {
			v.infra = infra
			return v
		}
		truth = t
	}
	results := make([]interpResult, len(configs))
	for i, cfg := range configs {
		r, fatal := interpret(c, cfg)
		if fatal != "" {
			if strings.HasPrefix(fatal, "builder panicked") {
				v.msg = fatal
			} else {
				v.infra = fatal
			}
			return v
		}
		results[i] = r
	}
	lifted := results[0]
	v.nontrivial = lifted.shape.phis > 0 && lifted.shape.loops > 0
	var sb strings.Builder
	ndiff := 0
	for fn := 0; fn < c.NumFuncs; fn++ {
		for vi := range c.Vectors {
			k := runKey{fn, vi}
			v.runs++
			skip := false
			for _, r := range results {
				if _, bad := r.skipped[k]; bad {
					skip = true
					if strings.HasPrefix(r.skipped[k], "internal") || strings.HasPrefix(r.skipped[k], "undefined") {
						// the interpreter met a state the IR gives no meaning to: report, this is how ill-formed IR shows up
						if ndiff < 3 {
							fmt.Fprintf(&sb, "F%d vector %d %+v: interpreter error: %s\n", fn, vi, c.Vectors[vi], trunc(r.skipped[k], 600))
						}
						ndiff++
					}
				}
			}
			if skip {
				v.skipped++
				continue
			}
			ref := results[0].out[k]
			refName := configs[0].name
			if withTruth {
				ref, refName = truth[k], "compiled"
			}
			for i, r := range results {
				if r.out[k] != ref {
					if ndiff < 3 {
						fmt.Fprintf(&sb, "F%d vector %d %+v:\n  %-12s %s\n  %-12s %s\n", fn, vi, c.Vectors[vi], refName+":", ref, configs[i].name+":", r.out[k])
					}
					ndiff++
				}
			}
			out := ref
			if strings.Contains(out, "panic=rt") {
				v.classes = appendOnce(v.classes, "run_runtime_panic")
			} else if !strings.Contains(out, "panic=none") {
				v.classes = appendOnce(v.classes, "run_explicit_panic")
			}
		}
	}
	if ndiff > 0 {
		v.msg = fmt.Sprintf("%d (function, vector, configuration) outputs differ; first ones:\n%s", ndiff, sb.String())
	}
	return v
}

func appendOnce(s []string, x string) []string {
	for _, y := range s {
		if x == y {
			return s
		}
	}
	return append(s, x)
}

func trunc(s string, n int) string {
	if len(s) > n {
		return s[:n] + "…"
	}
	return s
}

func caseFrom(p *gogen.Program, version string) *Case {
	return &Case{Src: p.Src, NumFuncs: p.NumFuncs, Vectors: p.Vectors, Version: version}
}

func record(c *Case, p *gogen.Program, v verdict, layer string) {
	classes := append([]string{layer, "programs"}, v.classes...)
	if p != nil {
		for _, f := range p.Features {
			switch f {
			case "goto-irreducible", "range-func-exit", "range-func-defer", "addr-taken-partial", "defer-recover-named", "typeswitch-nil", "fallthrough", "generic-func", "closure-mutates-capture", "swap-assign", "rotate-assign", "goto-graph":
				classes = append(classes, "feat_"+f)
			}
		}
	}
	ev.Case(ev.Hash(c.Src), v.nontrivial, classes...)
	ev.Count("runs", v.runs)
	ev.Count("runs_skipped_interpreter_limits", v.skipped)
	if v.msg != "" {
		ev.Count("disagreements_checked", 1)
	}
}

// TestAgainstCompiler is layer 1: ground truth from the Go toolchain.
func TestAgainstCompiler(t *testing.T) {
	ev.Rule(rule)
	ev.Assume("harness/internal/irinterp implements the documented meaning of each go/ir instruction (Appendix A of DESIGN.md where ssa.go is silent); runs that hit interpreter limits (unsupported construct, step budget) are skipped and counted")
	ev.Assume("all run-time errors are one panic class; explicit panic values are compared exactly")
	cfg := gogen.DefaultConfig()
	n := 0
	ev.Check(t, "TestAgainstCompiler", func(rt *rapid.T) {
		version := "go1.26"
		p := gogen.Generate(rt, cfg)
		c := caseFrom(p, version)
		b, _ := json.Marshal(c)
		ev.Begin("TestAgainstCompiler", "json", b)
		v := evaluate(c, true)
		if v.infra != "" {
			ev.Count("infra_skipped", 1)
			ev.Extra("last_infra", trunc(v.infra, 500))
			rt.Skip(v.infra)
		}
		record(c, p, v, "layer1_compiled")
		n++
		if v.nontrivial && ev.WantSample() {
			ev.Sample(map[string]any{"layer": "compiled vs 4 IR configurations", "features": p.Features, "functions": p.NumFuncs, "vectors": len(p.Vectors), "source_bytes": len(p.Src)})
		}
		if v.msg != "" {
			ev.Failf(rt, "TestAgainstCompiler", "IR execution disagrees with the compiled program\n%s", v.msg)
		}
	})
}

// TestConfigsAgree is layer 2: the four IR forms must agree among themselves (no compiler needed, higher volume).
func TestConfigsAgree(t *testing.T) {
	cfg := gogen.DefaultConfig()
	ev.Check(t, "TestConfigsAgree", func(rt *rapid.T) {
		version := "go1.26"
		if rapid.IntRange(0, 3).Draw(rt, "oldloopvar") == 0 {
			version = "go1.21" // pre-1.22 loop variable semantics: a different path through builder.go
			cfg2 := cfg
			cfg2.GoVersion = "go1.21"
			p := gogen.Generate(rt, cfg2)
			runLayer2(rt, p, version)
			return
		}
		p := gogen.Generate(rt, cfg)
		runLayer2(rt, p, version)
	})
}

func runLayer2(rt *rapid.T, p *gogen.Program, version string) {
	c := caseFrom(p, version)
	b, _ := json.Marshal(c)
	ev.Begin("TestConfigsAgree", "l2.json", b)
	v := evaluate(c, false)
	if v.infra != "" {
		ev.Count("infra_skipped", 1)
		ev.Extra("last_infra", trunc(v.infra, 500))
		rt.Skip(v.infra)
	}
	record(c, p, v, "layer2_configs")
	if v.msg != "" {
		ev.Failf(rt, "TestConfigsAgree", "IR configurations disagree with each other (go version %s)\n%s", version, v.msg)
	}
}

func replayFile(t *testing.T, f, test string) {
	b, err := os.ReadFile(f)
	if err != nil {
		ev.Infra("read %s: %v", f, err)
		return
	}
	var c Case
	if strings.HasSuffix(f, ".go") {
		// plain source corpus file: must define Run like generated programs; vectors are fixed
		c = Case{Src: string(b), NumFuncs: 1, Version: "go1.26", Vectors: []gogen.Vector{{A: 0, B: 1, S: "", C: false}, {A: 1, B: 2, S: "a", C: true}, {A: 3, B: -1, S: "ab", C: true}, {A: 7, B: 0, S: "héllo", C: false}}}
		if n := strings.Count(string(b), "\n// verif:numfuncs="); n > 0 {
			fmt.Sscanf(string(b)[strings.Index(string(b), "// verif:numfuncs=")+len("// verif:numfuncs="):], "%d", &c.NumFuncs)
		}
	} else if err := json.Unmarshal(b, &c); err != nil {
		ev.Infra("decode %s: %v", f, err)
		return
	}
	v := evaluate(&c, !strings.Contains(f, ".l2."))
	if v.infra != "" {
		ev.Infra("%s: %s", f, v.infra)
		return
	}
	record(&c, nil, v, "corpus")
	if v.msg != "" {
		ev.Violate(test, fmt.Sprintf("replay of %s:\n%s", f, v.msg), "json", b)
		t.Errorf("%s", v.msg)
	} else {
		t.Logf("replay %s: property holds (%d runs, %d skipped)", f, v.runs, v.skipped)
	}
}

func TestCorpus(t *testing.T) {
	if os.Getenv("VERIF_SECONDARY") != "" {
		return
	}
	var files []string
	for _, pat := range []string{"*.json", "*.go"} {
		m, _ := filepath.Glob(filepath.Join(os.Getenv("VERIF_ROOT"), "corpus", "C01", pat))
		files = append(files, m...)
	}
	sort.Strings(files)
	for _, f := range files {
		replayFile(t, f, "TestCorpus")
	}
}

func TestReplay(t *testing.T) {
	if f := ev.ReplayFile(); f != "" {
		replayFile(t, f, "TestReplay")
	}
}
