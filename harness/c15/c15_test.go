package c15

import (
	"bytes"
	"encoding/json"
	"fmt"
	"go/types"
	"os"
	"os/exec"
	"path/filepath"
	"sort"
	"strings"
	"testing"

	"golang.org/x/tools/go/analysis"
	"honnef.co/go/tools/analysis/facts/nilness"
	"honnef.co/go/tools/analysis/report"
	"honnef.co/go/tools/lintcmd/runner"
	"pgregory.net/rapid"
	"verif/harness/internal/ev"
	"verif/harness/internal/rn"
)

func TestMain(m *testing.M) { ev.Main(m) }

const rule = "case = generated module with packages dep and p (p imports dep): functions with 1-2 pointer-like results (*T, []int, map, chan, func, error, any, unsafe.Pointer, *E) built from nil checks, loads from globals/fields/maps, allocations, conversions, slicing with zero/non-zero bounds, append, type assertions and switches (nil case, multi-type case, default), typed nils in interfaces, swap/rotate loops, calls within and across packages, recursion, named results with defer/recover; oracle = claims of the nilness analysis (probe analyzer reading nilness.Result through the real runner, plus SA4023 diagnostics on `f(...) == nil` callers) vs the same package compiled and every function run on an input grid (20736 input combinations): NeverNil => never observed nil, AlwaysNil => never observed non-nil, for the outer value and for the value inside a non-nil interface; non-trivial = function result with a non-MaybeNil claim and >=2 observed normal returns; distinct by function source hash"

type Case struct {
	Dep   string  `json:"dep"`
	P     string  `json:"p"`
	Funcs []FnSig `json:"funcs"`
}

type FnSig struct {
	Pkg     string   `json:"pkg"`
	Name    string   `json:"name"`
	Results []string `json:"results"`
}

type claim struct {
	inner, outer string
}

var probe *analysis.Analyzer

func makeProbe() *analysis.Analyzer {
	return &analysis.Analyzer{
		Name:     "VP9015",
		Doc:      "verification probe: prints nilness claims",
		Requires: []*analysis.Analyzer{nilness.Analysis, rn.Find("tokenfileanalyzer")},
		Run: func(pass *analysis.Pass) (any, error) {
			res := pass.ResultOf[nilness.Analysis].(*nilness.Result)
			scope := pass.Pkg.Scope()
			for _, name := range scope.Names() {
				fn, ok := scope.Lookup(name).(*types.Func)
				if !ok {
					continue
				}
				sig := fn.Type().(*types.Signature)
				for i := 0; i < sig.Results().Len(); i++ {
					n := res.Nilness(fn, i)
					// report on the package clause of the first file; the message carries everything
					report.Report(pass, pass.Files[0].Name, fmt.Sprintf("NILNESS %s.%s %d %s %s", pass.Pkg.Name(), name, i, n.Inner, n.Outer))
				}
			}
			return nil, nil
		},
	}
}

// ---------------------------------------------------------------- ground truth

type obs struct {
	normal, outerNil, outerNonNil, innerNil, innerNonNil int
}

func isIface(t string) bool { return t == "error" || t == "any" }

func driverSource(funcs []fnSig) string {
	var sb strings.Builder
	sb.WriteString(`package main

import (
	"fmt"
	"reflect"
	"unsafe"

	"t/dep"
	pp "t/p"
)

var _ = unsafe.Pointer(nil)
var _ = pp.Q0
var _ = dep.F0

type stat struct{ normal, outerNil, outerNonNil, innerNil, innerNonNil int }

func (s *stat) add(outerNil bool, iface bool, v any) {
	s.normal++
	if outerNil {
		s.outerNil++
		return
	}
	s.outerNonNil++
	if !iface {
		return
	}
	rv := reflect.ValueOf(v)
	switch rv.Kind() {
	case reflect.Pointer, reflect.Map, reflect.Slice, reflect.Chan, reflect.Func, reflect.UnsafePointer:
		if rv.IsNil() {
			s.innerNil++
			return
		}
	}
	s.innerNonNil++
}

func grid(f func(a int, b bool, p *dep.T, s []int, m map[string]*dep.T, e error, x any, u uintptr, pe *dep.E)) {
	for a := 0; a < 4; a++ {
		for _, b := range []bool{false, true} {
			for pi := 0; pi < 3; pi++ {
				for si := 0; si < 3; si++ {
					for mi := 0; mi < 3; mi++ {
						for ei := 0; ei < 4; ei++ {
							for xi := 0; xi < 6; xi++ {
								for _, u := range []uintptr{0, 1} {
									for pei := 0; pei < 2; pei++ {
										// package-level state varies with the grid point (the analysis must be sound for any state)
										dep.GP, dep.GS, dep.GE, dep.GX, dep.HX.X, dep.Sink = nil, nil, nil, nil, nil, 0
										switch (a + pi + si + xi) % 3 {
										case 1:
											dep.GP, dep.GS, dep.GE, dep.GX, dep.HX.X = &dep.T{}, []int{1}, &dep.E{}, &dep.T{}, 1
										case 2:
											dep.GE, dep.GX, dep.HX.X = (*dep.E)(nil), (*dep.T)(nil), (*dep.E)(nil)
										}
										var p *dep.T
										switch pi {
										case 1:
											p = &dep.T{}
										case 2:
											p = &dep.T{Next: &dep.T{}}
										}
										var s []int
										switch si {
										case 1:
											s = []int{}
										case 2:
											s = []int{1, 2, 3}
										}
										var m map[string]*dep.T
										switch mi {
										case 1:
											m = map[string]*dep.T{}
										case 2:
											m = map[string]*dep.T{"k": {}}
										}
										var e error
										switch ei {
										case 1:
											e = (*dep.E)(nil)
										case 2:
											e = &dep.E{}
										case 3:
											e = dep.E2(0)
										}
										var x any
										switch xi {
										case 1:
											x = 1
										case 2:
											x = (*dep.T)(nil)
										case 3:
											x = &dep.T{}
										case 4:
											x = &dep.E{}
										case 5:
											x = []int(nil)
										}
										var pe *dep.E
										if pei == 1 {
											pe = &dep.E{}
										}
										func() {
											defer func() { recover() }()
											f(a, b, p, s, m, e, x, u, pe)
										}()
									}
								}
							}
						}
					}
				}
			}
		}
	}
}

func main() {
`)
	for _, f := range funcs {
		n := len(f.results)
		fmt.Fprintf(&sb, "\t{\n\t\tvar st [%d]stat\n\t\tgrid(func(a int, b bool, p *dep.T, s []int, m map[string]*dep.T, e error, x any, u uintptr, pe *dep.E) {\n", n)
		var rs []string
		for i := 0; i < n; i++ {
			rs = append(rs, fmt.Sprintf("r%d", i))
		}
		alias := f.pkg
		if alias == "p" {
			alias = "pp"
		}
		fmt.Fprintf(&sb, "\t\t\t%s := %s.%s(a, b, p, s, m, e, x, u, pe)\n", strings.Join(rs, ", "), alias, f.name)
		for i, r := range f.results {
			fmt.Fprintf(&sb, "\t\t\tst[%d].add(r%d == nil, %v, any(r%d))\n", i, i, isIface(r), i)
		}
		sb.WriteString("\t\t})\n")
		for i := range f.results {
			fmt.Fprintf(&sb, "\t\tfmt.Println(\"OBS\", %q, %d, st[%d].normal, st[%d].outerNil, st[%d].outerNonNil, st[%d].innerNil, st[%d].innerNonNil)\n", f.pkg+"."+f.name, i, i, i, i, i, i)
		}
		sb.WriteString("\t}\n")
	}
	sb.WriteString("}\n")
	return sb.String()
}

func funcsOf(c *Case) []fnSig {
	var out []fnSig
	for _, f := range c.Funcs {
		out = append(out, fnSig{pkg: f.Pkg, name: f.Name, results: f.Results})
	}
	return out
}

func evaluate(c *Case) (msg string, infra string, ncases int) {
	dir, err := os.MkdirTemp("", "c15-")
	if err != nil {
		return "", err.Error(), 0
	}
	defer os.RemoveAll(dir)
	os.MkdirAll(filepath.Join(dir, "dep"), 0o755)
	os.MkdirAll(filepath.Join(dir, "p"), 0o755)
	os.MkdirAll(filepath.Join(dir, "cmd"), 0o755)
	os.WriteFile(filepath.Join(dir, "go.mod"), []byte("module t\n\ngo 1.26.0\n"), 0o644)
	os.WriteFile(filepath.Join(dir, "dep", "dep.go"), []byte(c.Dep), 0o644)
	os.WriteFile(filepath.Join(dir, "p", "p.go"), []byte(c.P), 0o644)
	funcs := funcsOf(c)
	os.WriteFile(filepath.Join(dir, "cmd", "main.go"), []byte(driverSource(funcs)), 0o644)
	build := exec.Command("go", "build", "-o", "drv", "./cmd")
	build.Dir = dir
	if out, err := build.CombinedOutput(); err != nil {
		return "", fmt.Sprintf("go build failed: %v\n%s", err, out), 0
	}
	run := exec.Command(filepath.Join(dir, "drv"))
	var stdout, stderr bytes.Buffer
	run.Stdout, run.Stderr = &stdout, &stderr
	if err := run.Run(); err != nil {
		return "", fmt.Sprintf("compiled driver failed: %v\n%s", err, trunc(stderr.String(), 2000)), 0
	}
	observed := map[string]obs{}
	for _, line := range strings.Split(stdout.String(), "\n") {
		var name string
		var idx int
		var o obs
		if n, _ := fmt.Sscanf(line, "OBS %s %d %d %d %d %d %d", &name, &idx, &o.normal, &o.outerNil, &o.outerNonNil, &o.innerNil, &o.innerNonNil); n == 7 {
			observed[fmt.Sprintf("%s %d", name, idx)] = o
		}
	}
	claims := map[string]claim{}
	never := map[string]bool{} // SA4023 "never true"/"always true" per Cmp function
	var sb strings.Builder
	err = rn.Run(rn.Options{Dir: dir}, append([]*analysis.Analyzer{probe}, sa4023()...), []string{"./dep", "./p"}, func(res []runner.Result) error {
		for _, r := range res {
			if !r.Initial {
				continue
			}
			if r.Failed {
				fmt.Fprintf(&sb, "package %s failed in the runner: %v\n", r.Package.PkgPath, r.Errors)
				continue
			}
			data, err := r.Load()
			if err != nil {
				return err
			}
			for _, d := range data.Diagnostics {
				switch d.Category {
				case "VP9015":
					var name, in, out string
					var idx int
					if n, _ := fmt.Sscanf(d.Message, "NILNESS %s %d %s %s", &name, &idx, &in, &out); n == 4 {
						claims[fmt.Sprintf("%s %d", name, idx)] = claim{in, out}
					}
				case "SA4023":
					never[fmt.Sprintf("%s:%d", filepath.Base(d.Position.Filename), d.Position.Line)] = true
				case "compile":
					fmt.Fprintf(&sb, "compile problem: %s\n", d.Message)
				}
			}
		}
		return nil
	})
	if err != nil {
		return "", "runner: " + err.Error(), 0
	}
	srcs := map[string]string{"dep": c.Dep, "p": c.P}
	for _, f := range funcs {
		for i, rt := range f.results {
			key := fmt.Sprintf("%s.%s %d", f.pkg, f.name, i)
			cl, ok := claims[key]
			o, ok2 := observed[key]
			if !ok || !ok2 {
				continue
			}
			ncases++
			interesting := cl.outer == "NeverNil" || cl.outer == "AlwaysNil" || (isIface(rt) && (cl.inner == "NeverNil" || cl.inner == "AlwaysNil"))
			classes := []string{"result_" + strings.NewReplacer("*", "ptr", "[", "", "]", "", " ", "", "(", "", ")", "", ".", "").Replace(rt), "claim_outer_" + cl.outer}
			if isIface(rt) {
				classes = append(classes, "claim_inner_"+cl.inner)
			}
			ev.Case(ev.Hash(funcSource(srcs[f.pkg], f.name), fmt.Sprint(i)), interesting && o.normal >= 2, classes...)
			desc := fmt.Sprintf("%s result %d (%s): claimed {Inner:%s Outer:%s}; observed over %d normal returns: outer nil %d, outer non-nil %d, inner nil %d, inner non-nil %d", key, i, rt, cl.inner, cl.outer, o.normal, o.outerNil, o.outerNonNil, o.innerNil, o.innerNonNil)
			bad := false
			if cl.outer == "NeverNil" && o.outerNil > 0 {
				bad = true
			}
			if cl.outer == "AlwaysNil" && o.outerNonNil > 0 {
				bad = true
			}
			if isIface(rt) {
				if cl.inner == "NeverNil" && o.innerNil > 0 {
					bad = true
				}
				if cl.inner == "AlwaysNil" && o.innerNonNil > 0 {
					bad = true
				}
			}
			if bad {
				fmt.Fprintf(&sb, "UNSOUND %s\n%s\n", desc, funcSource(srcs[f.pkg], f.name))
			}
		}
	}
	// SA4023: a flagged `v == nil` in Cmp_<pkg>_<fn>_<i> claims the comparison is never true
	lines := strings.Split(c.P, "\n")
	for ln, line := range lines {
		if strings.TrimSpace(line) != "return v == nil" || !never[fmt.Sprintf("p.go:%d", ln+1)] {
			continue
		}
		// find the enclosing Cmp function
		for k := ln; k >= 0; k-- {
			if strings.HasPrefix(lines[k], "func Cmp_") {
				var pkg, fn string
				var idx int
				name := lines[k][len("func Cmp_"):strings.Index(lines[k], "(")]
				parts := strings.Split(name, "_")
				pkg, fn = parts[0], parts[1]
				fmt.Sscan(parts[2], &idx)
				o := observed[fmt.Sprintf("%s.%s %d", pkg, fn, idx)]
				ev.Count("sa4023_diagnostics_checked", 1)
				if o.outerNil > 0 {
					fmt.Fprintf(&sb, "SA4023 reports `%s.%s(...) == nil` as never true, but result %d was nil in %d of %d observed normal returns\n%s\n", pkg, fn, idx, o.outerNil, o.normal, funcSource(srcs[pkg], fn))
				}
				break
			}
		}
	}
	return sb.String(), "", ncases
}

func sa4023() []*analysis.Analyzer {
	for _, a := range rn.Analyzers(false) {
		if a.Name == "SA4023" {
			return []*analysis.Analyzer{a}
		}
	}
	return nil
}

func funcSource(src, name string) string {
	i := strings.Index(src, "func "+name+"(")
	if i < 0 {
		return ""
	}
	j := strings.Index(src[i:], "\n}\n")
	if j < 0 {
		return src[i:]
	}
	return src[i : i+j+3]
}

func trunc(s string, n int) string {
	if len(s) > n {
		return s[:n] + "…"
	}
	return s
}

func TestNilness(t *testing.T) {
	probe = makeProbe()
	ev.Rule(rule)
	ev.Assume("ground truth is the set of executions on the input grid: a claim that is wrong only on inputs outside the grid is not detected")
	ev.Check(t, "TestNilness", func(rt *rapid.T) {
		p := genProgram(rt)
		c := &Case{Dep: p.Dep, P: p.P}
		for _, f := range p.Funcs {
			c.Funcs = append(c.Funcs, FnSig{f.pkg, f.name, f.results})
		}
		js, _ := json.Marshal(c)
		ev.Begin("TestNilness", "json", js)
		msg, infra, _ := evaluate(c)
		if infra != "" {
			ev.Count("infra_skipped", 1)
			ev.Extra("last_infra", trunc(infra, 1500))
			rt.Skip(infra)
		}
		for f := range p.Feature {
			ev.Count("feat_"+f, 1)
		}
		ev.Count("programs", 1)
		if ev.WantSample() {
			ev.Sample(map[string]any{"functions": len(p.Funcs), "features": keys(p.Feature), "first_function": funcSource(p.Dep, "F0")})
		}
		if msg != "" {
			ev.Failf(rt, "TestNilness", "%s", msg)
		}
	})
}

func keys(m map[string]bool) []string {
	var ks []string
	for k := range m {
		ks = append(ks, k)
	}
	sort.Strings(ks)
	return ks
}

func replayFile(t *testing.T, f, test string) {
	if probe == nil {
		probe = makeProbe()
	}
	b, err := os.ReadFile(f)
	if err != nil {
		ev.Infra("read %s: %v", f, err)
		return
	}
	var c Case
	if err := json.Unmarshal(b, &c); err != nil {
		ev.Infra("decode %s: %v", f, err)
		return
	}
	msg, infra, _ := evaluate(&c)
	if infra != "" {
		ev.Infra("%s: %s", f, infra)
		return
	}
	if msg != "" {
		ev.Violate(test, fmt.Sprintf("replay of %s:\n%s", f, msg), "json", b)
		t.Errorf("%s", msg)
	} else {
		t.Logf("replay %s: property holds", f)
	}
}

func TestCorpus(t *testing.T) {
	if os.Getenv("VERIF_SECONDARY") != "" {
		return
	}
	files, _ := filepath.Glob(filepath.Join(os.Getenv("VERIF_ROOT"), "corpus", "C15", "*.json"))
	sort.Strings(files)
	for _, f := range files {
		replayFile(t, f, "TestCorpus")
	}
}

func TestReplay(t *testing.T) {
	if f := ev.ReplayFile(); f != "" {
		replayFile(t, f, "TestReplay")
	}
}
