package c15

import (
	"fmt"
	"strings"

	"pgregory.net/rapid"
)

// Generator of packages full of functions with pointer-like results. Two
// packages are produced: "dep" and "p" (p imports dep and calls into it, so
// facts cross a package boundary).

const prelude = `
type T struct {
	Next *T
	V    int
}

func (t *T) Get() int { return 1 }

type E struct{ msg string }

func (e *E) Error() string { return "e" }

type E2 int

func (e E2) Error() string { return "e2" }

type Named []int

type Holder struct{ X any }

var (
	GP   *T
	GP2  = &T{}
	GS   []int
	GE   error
	GX   any
	PX   = &GX
	HX   = &Holder{}
	Sink int
)
`

// pointer-like types of the universe
var plTypes = []string{"*T", "[]int", "map[string]*T", "chan int", "func() int", "error", "any", "unsafe.Pointer", "*E"}

const params = "a int, b bool, p *T, s []int, m map[string]*T, e error, x any, u uintptr, pe *E"
const args = "a, b, p, s, m, e, x, u, pe"

type fnSig struct {
	pkg     string
	name    string
	results []string
}

type gen struct {
	t      *rapid.T
	pkg    string
	fns    []fnSig // callable functions defined so far (this package and dep)
	sb     strings.Builder
	nlocal map[string]int
	feat   map[string]bool
	self   fnSig
	named  bool
}

func (g *gen) pick(label string, n int) int { return rapid.IntRange(0, n-1).Draw(g.t, label) }

func (g *gen) qual(f fnSig) string {
	if f.pkg == g.pkg {
		return f.name
	}
	return f.pkg + "." + f.name
}

func (g *gen) q(name string) string {
	// qualify prelude identifiers when generating package p (types live in dep)
	if g.pkg == "dep" {
		return name
	}
	return "dep." + name
}

func (g *gen) ty(t string) string {
	if g.pkg == "dep" {
		return t
	}
	r := strings.NewReplacer("*T", "*dep.T", "*E", "*dep.E")
	return r.Replace(t)
}

func local(ty string, i int) string {
	return fmt.Sprintf("l%s%d", map[string]string{"*T": "T", "[]int": "S", "map[string]*T": "M", "chan int": "C", "func() int": "F", "error": "Er", "any": "X", "unsafe.Pointer": "U", "*E": "E"}[ty], i)
}

func paramOf(ty string) string {
	return map[string]string{"*T": "p", "[]int": "s", "map[string]*T": "m", "error": "e", "any": "x", "*E": "pe"}[ty]
}

// expr returns an expression of pointer-like type ty.
func (g *gen) expr(ty string, d int) string {
	var opts []func() string
	add := func(f func() string) { opts = append(opts, f) }
	add(func() string { return "nil" })
	add(func() string { return local(ty, g.pick("loc", 2)) })
	add(func() string { return local(ty, g.pick("loc", 2)) })
	if p := paramOf(ty); p != "" {
		add(func() string { return p })
		add(func() string { return p })
	}
	// calls to single-result functions of that type
	for _, f := range g.fns {
		f := f
		if len(f.results) == 1 && f.results[0] == ty {
			add(func() string { g.feat["call"] = true; return g.qual(f) + "(" + g.callArgs() + ")" })
		}
	}
	if len(g.self.results) == 1 && g.self.results[0] == ty {
		add(func() string { g.feat["recursion"] = true; return g.self.name + "(a-1, b, p, s, m, e, x, u, pe)" })
	}
	sub := func(t string) string {
		if d <= 0 {
			return local(t, g.pick("loc", 2))
		}
		e := g.expr(t, d-1)
		if e == "nil" {
			// operands need a typed nil
			return "(" + g.ty(t) + ")(nil)"
		}
		return e
	}
	switch ty {
	case "*T":
		add(func() string { return "&" + g.q("T") + "{}" })
		add(func() string { return "new(" + g.q("T") + ")" })
		add(func() string { g.feat["field-load"] = true; return sub("*T") + ".Next" })
		add(func() string { g.feat["map-lookup"] = true; return sub("map[string]*T") + `["k"]` })
		add(func() string { g.feat["unsafe"] = true; return "(*" + g.q("T") + ")(" + sub("unsafe.Pointer") + ")" })
		add(func() string { g.feat["type-assert"] = true; return sub("any") + ".(*" + g.q("T") + ")" })
		add(func() string { return g.q("GP") })
		add(func() string { return g.q("GP2") })
	case "[]int":
		add(func() string { return "[]int{}" })
		add(func() string { return "[]int{1, 2}" })
		add(func() string { return "make([]int, a&3)" })
		add(func() string { g.feat["slice"] = true; return sub("[]int") + "[:]" })
		add(func() string { g.feat["slice"] = true; return sub("[]int") + "[0:0]" })
		add(func() string { g.feat["slice"] = true; return sub("[]int") + "[:0]" })
		add(func() string { g.feat["slice-nonzero"] = true; return sub("[]int") + "[1:]" })
		add(func() string { g.feat["slice"] = true; return sub("[]int") + "[a&1:]" })
		add(func() string { g.feat["slice-array"] = true; return "arr[:]" })
		add(func() string { g.feat["slice-array"] = true; return "arr[:0]" })
		add(func() string { g.feat["append"] = true; return "append(" + sub("[]int") + ")" })
		add(func() string { g.feat["append"] = true; return "append(" + sub("[]int") + ", 1)" })
		add(func() string { g.feat["append"] = true; return "append(" + sub("[]int") + ", " + sub("[]int") + "...)" })
		add(func() string { g.feat["convert"] = true; return "[]int(" + g.q("Named") + "(" + sub("[]int") + "))" })
		add(func() string { g.feat["unsafe"] = true; return "unsafe.Slice(&arr[0], 2)" })
		add(func() string { g.feat["unsafe"] = true; return "unsafe.Slice((*int)(nil), 0)" })
		add(func() string { return g.q("GS") })
	case "map[string]*T":
		add(func() string { return "map[string]*" + g.q("T") + "{}" })
		add(func() string { return "make(map[string]*" + g.q("T") + ")" })
	case "chan int":
		add(func() string { return "make(chan int)" })
		add(func() string { return "make(chan int, 1)" })
	case "func() int":
		add(func() string { return "func() int { return 1 }" })
		add(func() string { g.feat["method-value"] = true; return sub("*T") + ".Get" })
	case "*E":
		add(func() string { return "&" + g.q("E") + "{}" })
		add(func() string { g.feat["type-assert"] = true; return sub("error") + ".(*" + g.q("E") + ")" })
	case "error":
		add(func() string { return "&" + g.q("E") + "{}" })
		add(func() string { return g.q("E2") + "(1)" })
		add(func() string { g.feat["typed-nil-in-iface"] = true; return "error(" + sub("*E") + ")" })
		add(func() string { g.feat["typed-nil-in-iface"] = true; return "error((*" + g.q("E") + ")(nil))" })
		add(func() string { g.feat["type-assert"] = true; return sub("any") + ".(error)" })
		add(func() string { return g.q("GE") })
	case "any":
		add(func() string { g.feat["load-interface-through-pointer"] = true; return "*" + g.q("PX") })
		add(func() string { g.feat["load-interface-field"] = true; return g.q("HX") + ".X" })
		add(func() string { g.feat["typed-nil-in-iface"] = true; return "any(" + sub("*E") + ")" })
		add(func() string { g.feat["typed-nil-in-iface"] = true; return "any(" + sub("*T") + ")" })
		add(func() string { return "any(1)" })
		add(func() string { return "any(" + sub("[]int") + ")" })
		add(func() string { g.feat["change-interface"] = true; return "any(" + sub("error") + ")" })
		add(func() string { return "any(" + sub("map[string]*T") + ")" })
	case "unsafe.Pointer":
		add(func() string { g.feat["unsafe"] = true; return "unsafe.Pointer(" + sub("*T") + ")" })
		add(func() string { g.feat["unsafe-uintptr"] = true; return "unsafe.Pointer(u)" })
		add(func() string { g.feat["unsafe"] = true; return "unsafe.Add(" + sub("unsafe.Pointer") + ", a&1)" })
		add(func() string { g.feat["unsafe"] = true; return "unsafe.Pointer(unsafe.SliceData(" + sub("[]int") + "))" })
		add(func() string { g.feat["unsafe"] = true; return "unsafe.Pointer(unsafe.StringData(str))" })
	}
	return opts[g.pick("expr", len(opts))]()
}

func (g *gen) callArgs() string {
	// vary the arguments a little so that callees see nil and non-nil values
	switch g.pick("args", 4) {
	case 0:
		return "a, b, nil, nil, nil, nil, nil, 0, nil"
	case 1:
		return "a+1, !b, lT0, lS0, lM0, lEr0, lX0, u, lE0"
	default:
		return args
	}
}

func (g *gen) w(ind int, format string, a ...any) {
	g.sb.WriteString(strings.Repeat("\t", ind))
	fmt.Fprintf(&g.sb, format, a...)
	g.sb.WriteString("\n")
}

func (g *gen) anyType() string { return plTypes[g.pick("type", len(plTypes))] }

func (g *gen) ret(ind int) {
	if g.named && g.pick("bare", 2) == 0 {
		g.w(ind, "return")
		return
	}
	var rs []string
	for _, r := range g.self.results {
		if f := g.fresh(r); f != "" && g.pick("retfresh", 4) == 0 {
			rs = append(rs, f) // a value that is never nil
			continue
		}
		if g.pick("retlocal", 3) != 0 {
			rs = append(rs, local(r, g.pick("loc", 2)))
		} else {
			rs = append(rs, g.expr(r, 1))
		}
	}
	g.w(ind, "return %s", strings.Join(rs, ", "))
}

// retWith returns from the function with the identifier v in the first result slot of type ty, if any.
func (g *gen) retWith(ind int, v, ty string) bool {
	slot := -1
	for i, r := range g.self.results {
		if r == ty {
			slot = i
			break
		}
	}
	if slot < 0 {
		return false
	}
	var rs []string
	for i, r := range g.self.results {
		if i == slot {
			rs = append(rs, v)
		} else {
			rs = append(rs, local(r, g.pick("loc", 2)))
		}
	}
	g.w(ind, "return %s", strings.Join(rs, ", "))
	return true
}

// fresh returns an expression of type ty that is never nil, "" if there is none.
func (g *gen) fresh(ty string) string {
	switch ty {
	case "*T":
		return "&" + g.q("T") + "{}"
	case "[]int":
		return "[]int{1}"
	case "map[string]*T":
		return "map[string]*" + g.q("T") + "{}"
	case "chan int":
		return "make(chan int)"
	case "func() int":
		return "func() int { return 2 }"
	case "error":
		return "&" + g.q("E") + "{}"
	case "any":
		return "any(3)"
	case "*E":
		return "&" + g.q("E") + "{}"
	}
	return ""
}

// globalOf returns the package-level variable of type ty, "" if there is none.
func (g *gen) globalOf(ty string) string {
	switch ty {
	case "*T":
		return g.q("GP")
	case "[]int":
		return g.q("GS")
	case "error":
		return g.q("GE")
	}
	return ""
}

func (g *gen) block(ind, d int) {
	n := 1 + g.pick("nstmts", 3)
	for i := 0; i < n; i++ {
		g.stmt(ind, d)
	}
}

func (g *gen) stmt(ind, d int) {
	k := g.pick("stmt", 20)
	if d <= 0 && k >= 8 {
		k = g.pick("simple", 8)
	}
	switch k {
	case 0, 1, 2:
		ty := g.anyType()
		g.w(ind, "%s = %s", local(ty, g.pick("loc", 2)), g.expr(ty, 2))
	case 3:
		// a use that implies non-nilness afterwards
		switch g.pick("use", 6) {
		case 0:
			g.feat["deref-implies"] = true
			g.w(ind, "%s += %s.V", g.q("Sink"), local("*T", g.pick("loc", 2)))
		case 1:
			g.feat["deref-implies"] = true
			g.w(ind, "%s.V = a", local("*T", g.pick("loc", 2)))
		case 2:
			g.w(ind, "%s += len(%s)", g.q("Sink"), local("map[string]*T", g.pick("loc", 2)))
		case 3:
			g.feat["deref-implies"] = true
			g.w(ind, "%s[\"k\"] = %s", local("map[string]*T", g.pick("loc", 2)), local("*T", g.pick("loc", 2)))
		case 4:
			g.feat["deref-implies"] = true
			g.w(ind, "%s += %s()", g.q("Sink"), local("func() int", g.pick("loc", 2)))
		default:
			g.feat["deref-implies"] = true
			g.w(ind, "%s += %s[0]", g.q("Sink"), local("[]int", g.pick("loc", 2)))
		}
	case 4:
		ty := g.anyType()
		a, b := local(ty, 0), local(ty, 1)
		g.feat["swap"] = true
		g.w(ind, "%s, %s = %s, %s", a, b, b, a)
	case 5:
		if len(g.self.results) > 0 {
			g.w(ind, "if a == %d {", g.pick("aval", 4))
			g.ret(ind + 1)
			g.w(ind, "}")
		}
	case 6:
		if g.pick("globalret", 2) == 0 {
			// return a value loaded straight from a package-level variable on one path
			for _, r := range g.self.results {
				if gl := g.globalOf(r); gl != "" {
					g.feat["return-global-on-one-path"] = true
					g.w(ind, "if %s {", []string{"b", "a > 1", "!b", "a == 0"}[g.pick("cond", 4)])
					g.retWith(ind+1, gl, r)
					g.w(ind, "}")
					return
				}
			}
		}
		g.w(ind, "if a == 3 && b {")
		g.w(ind+1, "panic(\"boom\")")
		g.w(ind, "}")
	case 7:
		if g.named {
			g.feat["named-result-assign"] = true
			i := g.pick("res", len(g.self.results))
			g.w(ind, "r%d = %s", i, g.expr(g.self.results[i], 2))
		} else {
			g.w(ind, "%s++", g.q("Sink"))
		}
	case 8, 9, 10:
		ty := g.anyType()
		l := local(ty, g.pick("loc", 2))
		op := []string{"==", "!="}[g.pick("nilop", 2)]
		g.feat["nil-check"] = true
		g.w(ind, "if %s %s nil {", l, op)
		g.block(ind+1, d-1)
		if g.pick("else", 2) == 0 {
			g.w(ind, "} else {")
			g.block(ind+1, d-1)
		}
		g.w(ind, "}")
	case 11:
		g.w(ind, "if %s {", []string{"b", "a > 1", "a&1 == 0", "!b"}[g.pick("cond", 4)])
		g.block(ind+1, d-1)
		if g.pick("else", 2) == 0 {
			g.w(ind, "} else {")
			g.block(ind+1, d-1)
		}
		g.w(ind, "}")
	case 12, 13:
		g.feat["loop"] = true
		g.w(ind, "for i := 0; i < a&3; i++ {")
		g.block(ind+1, d-1)
		g.w(ind, "}")
	case 14, 15:
		g.feat["type-switch"] = true
		src := []string{"any", "error"}[g.pick("tswsrc", 2)]
		l := local(src, g.pick("loc", 2))
		if g.pick("tswinit", 2) == 0 {
			g.w(ind, "%s = %s", l, g.expr(src, 2))
		}
		g.w(ind, "switch v := %s.(type) {", l)
		multiFirstPre := src == "any" && g.pick("multifirst", 2) == 0
		if !multiFirstPre && g.pick("nilcase", 2) == 0 {
			g.feat["type-switch-nil-case"] = true
			g.w(ind, "case nil:")
			g.block(ind+1, d-1)
		}
		multiFirst := multiFirstPre
		if !multiFirst {
			g.w(ind, "case *%s:", g.q("E"))
			g.w(ind+1, "%s = v", local("*E", g.pick("loc", 2)))
		}
		if src == "any" {
			g.w(ind, "case *%s:", g.q("T"))
			g.w(ind+1, "%s = v", local("*T", g.pick("loc", 2)))
			if multiFirst {
				g.feat["type-switch-multi"] = true
				if g.pick("nilinmulti", 2) == 0 {
					g.feat["type-switch-multi-with-nil"] = true
					g.w(ind, "case nil, []int, map[string]*%s, *%s:", g.q("T"), g.q("E"))
				} else {
					g.w(ind, "case []int, map[string]*%s, *%s:", g.q("T"), g.q("E"))
				}
				if g.pick("retv", 2) != 0 || !g.retWith(ind+1, "v", "any") {
					g.w(ind+1, "%s = v", local("any", g.pick("loc", 2)))
				} else {
					g.feat["type-switch-return-binding"] = true
				}
			}
			if g.pick("ifacecase", 2) == 0 {
				g.w(ind, "case error:")
				g.w(ind+1, "%s = v", local("error", g.pick("loc", 2)))
			}
		} else if g.pick("multi", 2) == 0 {
			g.feat["type-switch-multi"] = true
			g.w(ind, "case %s, interface{ Error() string; X() }:", g.q("E2"))
			g.w(ind+1, "%s = v", local("error", g.pick("loc", 2)))
		}
		if g.pick("default", 2) == 0 {
			g.feat["type-switch-default"] = true
			g.w(ind, "default:")
			if g.pick("retv", 2) != 0 || !g.retWith(ind+1, "v", src) {
				g.w(ind+1, "%s = v", local(src, g.pick("loc", 2)))
			} else {
				g.feat["type-switch-return-binding"] = true
			}
		}
		g.w(ind, "}")
	case 16:
		g.feat["comma-ok"] = true
		g.w(ind, "if v, ok := %s.(*%s); ok {", local("any", g.pick("loc", 2)), g.q("T"))
		g.w(ind+1, "%s = v", local("*T", g.pick("loc", 2)))
		g.w(ind, "} else {")
		g.w(ind+1, "%s = v", local("*T", g.pick("loc", 2)))
		g.w(ind, "}")
	case 17:
		// multi-result call
		var cands []fnSig
		for _, f := range g.fns {
			if len(f.results) == 2 {
				cands = append(cands, f)
			}
		}
		if len(cands) > 0 {
			f := cands[g.pick("mcall", len(cands))]
			g.feat["multi-result-call"] = true
			g.w(ind, "%s, %s = %s(%s)", local(f.results[0], 0), local(f.results[1], 1), g.qual(f), g.callArgs())
		} else {
			g.w(ind, "%s++", g.q("Sink"))
		}
	case 18:
		g.feat["global-store"] = true
		g.w(ind, "%s = %s", g.q("GP"), g.expr("*T", 1))
	default:
		ty := g.anyType()
		if len(g.self.results) > 0 && g.pick("swaploop", 2) == 0 {
			ty = g.self.results[g.pick("res", len(g.self.results))]
		}
		a, b, c := local(ty, 0), local(ty, 1), g.expr(ty, 1)
		if g.pick("looped", 2) == 0 {
			// two variables initialised differently, exchanged in a loop
			g.feat["swap-loop"] = true
			g.w(ind, "%s = %s", a, g.expr(ty, 1))
			g.w(ind, "%s = %s", b, c)
			g.w(ind, "for i := 0; i < a&3; i++ {")
			g.w(ind+1, "%s, %s = %s, %s", a, b, b, a)
			g.w(ind, "}")
		} else {
			g.feat["rotate"] = true
			g.w(ind, "%s, %s = %s, %s", a, b, b, c)
		}
	}
}

func (g *gen) function(name string) fnSig {
	nres := 1 + g.pick("nres", 2)
	sig := fnSig{pkg: g.pkg, name: name}
	for i := 0; i < nres; i++ {
		sig.results = append(sig.results, g.anyType())
	}
	g.self = sig
	g.named = g.pick("named", 3) == 0
	var res []string
	for i, r := range sig.results {
		if g.named {
			res = append(res, fmt.Sprintf("r%d %s", i, g.ty(r)))
		} else {
			res = append(res, g.ty(r))
		}
	}
	g.w(0, "func %s(%s) (%s) {", name, g.ty(params), strings.Join(res, ", "))
	g.w(1, "if a < 0 {")
	g.w(2, "panic(\"depth\")")
	g.w(1, "}")
	for _, ty := range plTypes {
		g.w(1, "var %s, %s %s", local(ty, 0), local(ty, 1), g.ty(ty))
		g.w(1, "_, _ = %s, %s", local(ty, 0), local(ty, 1))
	}
	g.w(1, "var arr [3]int")
	g.w(1, "str := \"s\"")
	g.w(1, "_, _ = arr, str")
	if g.named && g.pick("recover", 2) == 0 {
		g.feat["defer-recover"] = true
		g.w(1, "defer func() { recover() }()")
	} else if g.pick("directrecover", 12) == 0 {
		g.feat["direct-recover-call"] = true
		g.w(1, "%s = recover()", local("any", 0))
	}
	g.block(1, 3)
	g.ret(1)
	g.w(0, "}")
	g.w(0, "")
	return sig
}

type Program struct {
	Dep, P  string
	Funcs   []fnSig
	Feature map[string]bool
}

func genProgram(t *rapid.T) *Program {
	feat := map[string]bool{}
	pr := &Program{Feature: feat}
	var all []fnSig
	for _, pkg := range []string{"dep", "p"} {
		g := &gen{t: t, pkg: pkg, fns: all, feat: feat}
		g.sb.WriteString("package " + pkg + "\n\nimport \"unsafe\"\n\nvar _ unsafe.Pointer\n")
		if pkg == "dep" {
			g.sb.WriteString(prelude)
		} else {
			g.sb.WriteString("\nimport \"t/dep\"\n\nvar _ dep.T\n")
		}
		n := 2 + g.pick("nfuncs", 5)
		for i := 0; i < n; i++ {
			name := fmt.Sprintf("F%d", i)
			if pkg == "p" {
				name = fmt.Sprintf("Q%d", i)
			}
			sig := g.function(name)
			g.fns = append(g.fns, sig)
		}
		all = g.fns
		if pkg == "p" {
			// callers comparing interface results with nil: SA4023's trigger
			for _, f := range g.fns {
				for i, r := range f.results {
					if r != "error" && r != "any" {
						continue
					}
					blanks := make([]string, len(f.results))
					for j := range blanks {
						blanks[j] = "_"
					}
					blanks[i] = "v"
					fmt.Fprintf(&g.sb, "func Cmp_%s_%s_%d(%s) bool {\n\t%s := %s(%s)\n\treturn v == nil\n}\n\n", f.pkg, f.name, i, g.ty(params), strings.Join(blanks, ", "), g.qual(f), args)
				}
			}
			pr.P = g.sb.String()
		} else {
			pr.Dep = g.sb.String()
		}
	}
	// "import" must precede other declarations: fix the order in p
	pr.P = strings.Replace(pr.P, "package p\n\nimport \"unsafe\"\n\nvar _ unsafe.Pointer\n\nimport \"t/dep\"\n", "package p\n\nimport (\n\t\"t/dep\"\n\t\"unsafe\"\n)\n\nvar _ unsafe.Pointer\n", 1)
	pr.Funcs = all
	return pr
}
