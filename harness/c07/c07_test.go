package c07

import (
	"encoding/json"
	"fmt"
	"go/ast"
	"go/parser"
	"go/token"
	"go/types"
	"bytes"
	"os"
	"os/exec"
	"path/filepath"
	"sort"
	"strings"
	"testing"

	"honnef.co/go/tools/unused"
	"pgregory.net/rapid"
	"verif/harness/internal/declgen"
	"verif/harness/internal/ev"
	"verif/harness/internal/irbuild"
	"verif/harness/internal/u1k"
)

func TestMain(m *testing.M) { ev.Main(m) }

const rule = "case = generated package (declgen: functions, methods with value/pointer receivers, structs with fields and embedding, interfaces and implicit satisfaction, named types, generics, vars, stand-alone constants and iota groups, struct conversions, keyed/unkeyed literals, method values/expressions, closures, multi-name var specs with shared or per-name initializers, function-local types incl. local structs that satisfy an interface through an embedded field; 1-3 files; package p or main), analysed through the runner, or (TestCommandLine) through the staticcheck command together with hollowed twins of the same package name; oracle 1 (deletion safety) = delete every object U1000 reports (funcs/methods/types with their methods removed, vars/consts/fields renamed to _) and type-check the result with go/types: only 'imported and not used' may appear; oracle 2 (completeness) = every unexported package-level func, named type, var or stand-alone const without any referring identifier (types.Info.Uses) must be reported; non-trivial = package with >=1 reported object and >=1 object kept alive only through an indirect rule (interface satisfaction, embedding, struct conversion, method value/expression, generic instantiation); distinct by hash of the sources"

// Case is a module with several independent generated packages (one runner invocation analyses all of them).
type Case struct {
	Pkgs []*declgen.Package `json:"pkgs"`
	// CL: analyse the module with the staticcheck command (lintcmd merges the U1000 results of all
	// packages of a run) instead of reading the runner's per-package results.
	CL bool `json:"cl,omitempty"`
}

func files(p *declgen.Package) map[string]string {
	out := map[string]string{}
	for i := range p.Files {
		out[p.FileName(i)] = p.Source(i)
	}
	return out
}

type parsed struct {
	fset  *token.FileSet
	files []*ast.File
	names []string
	info  *types.Info
	pkg   *types.Package
}

func parseAndCheck(srcs map[string]string, pkgName string) (*parsed, error) {
	p := &parsed{fset: token.NewFileSet()}
	for n := range srcs {
		p.names = append(p.names, n)
	}
	sort.Strings(p.names)
	for _, n := range p.names {
		f, err := parser.ParseFile(p.fset, n, srcs[n], parser.SkipObjectResolution)
		if err != nil {
			return nil, err
		}
		p.files = append(p.files, f)
	}
	p.info = irbuild.NewInfo()
	conf := types.Config{GoVersion: "go1.26"}
	pkg, err := conf.Check(pkgName, p.fset, p.files, p.info)
	p.pkg = pkg
	return p, err
}

// deletion applies the edits for the reported objects and returns the type errors of the result.
func deletion(p *parsed, reported []unused.Object) (errs []string, undeletable int, deleted map[types.Object]bool, writeOnly map[string]bool) {
	deleted = map[types.Object]bool{}
	writeOnly = map[string]bool{}
	// index defining identifiers by (file base, line, column)
	type posKey struct {
		file      string
		line, col int
	}
	defs := map[posKey]*ast.Ident{}
	for id := range p.info.Defs {
		pos := p.fset.Position(id.Pos())
		defs[posKey{filepath.Base(pos.Filename), pos.Line, pos.Column}] = id
	}
	want := map[*ast.Ident]bool{}
	for _, o := range reported {
		id := defs[posKey{filepath.Base(o.Position.Filename), o.Position.Line, o.Position.Column}]
		if id == nil {
			undeletable++
			continue
		}
		want[id] = true
		if obj := p.info.Defs[id]; obj != nil {
			deleted[obj] = true
		}
	}
	// classify write-only variables (documented rule 9.7: writes do not use variables)
	reads := map[types.Object]int{}
	writes := map[types.Object]int{}
	for _, f := range p.files {
		ast.Inspect(f, func(n ast.Node) bool {
			switch n := n.(type) {
			case *ast.AssignStmt:
				if n.Tok == token.ASSIGN {
					for _, l := range n.Lhs {
						if id, ok := l.(*ast.Ident); ok {
							if obj := p.info.Uses[id]; obj != nil {
								writes[obj]++
							}
						}
					}
				}
			}
			return true
		})
	}
	_ = reads
	// positions at which a package-level variable is the target of a plain assignment
	for _, f := range p.files {
		ast.Inspect(f, func(n ast.Node) bool {
			if as, ok := n.(*ast.AssignStmt); ok && as.Tok == token.ASSIGN {
				for _, l := range as.Lhs {
					if id, ok := l.(*ast.Ident); ok {
						if v, ok := p.info.Uses[id].(*types.Var); ok && !v.IsField() && v.Parent() == p.pkg.Scope() {
							pos := p.fset.Position(id.Pos())
							writeOnly[fmt.Sprintf("%s:%d:%d: undefined: %s", pos.Filename, pos.Line, pos.Column, id.Name)] = true
						}
					}
				}
			}
			return true
		})
	}
	removedTypes := map[string]bool{}
	for _, f := range p.files {
		var decls []ast.Decl
		for _, d := range f.Decls {
			switch d := d.(type) {
			case *ast.FuncDecl:
				if want[d.Name] {
					continue
				}
				decls = append(decls, d)
			case *ast.GenDecl:
				var specs []ast.Spec
				for _, s := range d.Specs {
					switch s := s.(type) {
					case *ast.TypeSpec:
						if want[s.Name] {
							removedTypes[s.Name.Name] = true
							continue
						}
						if st, ok := s.Type.(*ast.StructType); ok {
							// reported fields are removed (an unkeyed literal would count as a use of every field)
							var keep []*ast.Field
							for _, fld := range st.Fields.List {
								if len(fld.Names) == 0 {
									if !wantEmbedded(p, want, fld) {
										keep = append(keep, fld)
									}
									continue
								}
								var names []*ast.Ident
								for _, n := range fld.Names {
									if !want[n] {
										names = append(names, n)
									}
								}
								if len(names) > 0 {
									fld.Names = names
									keep = append(keep, fld)
								}
							}
							st.Fields.List = keep
						}
						specs = append(specs, s)
					case *ast.ValueSpec:
						all := true
						for _, n := range s.Names {
							if !want[n] {
								all = false
							}
						}
						if all && !(d.Tok == token.CONST && d.Lparen.IsValid()) {
							// every name of the spec is reported: the spec goes, together with its
							// initializer (which may refer to other reported objects)
							continue
						}
						if d.Tok == token.VAR && (len(s.Values) == len(s.Names) || len(s.Values) == 0) {
							// one value per name (or none): a reported name goes together with its own initializer
							var names []*ast.Ident
							var values []ast.Expr
							for i, n := range s.Names {
								if want[n] {
									continue
								}
								names = append(names, n)
								if len(s.Values) > 0 {
									values = append(values, s.Values[i])
								}
							}
							s.Names, s.Values = names, values
							specs = append(specs, s)
							break
						}
						// shared multi-value initializer, constants: the name is blanked
						for _, n := range s.Names {
							if want[n] {
								n.Name = "_"
							}
						}
						specs = append(specs, s)
					default:
						specs = append(specs, s)
					}
				}
				if len(specs) == 0 {
					continue
				}
				d.Specs = specs
				decls = append(decls, d)
			}
		}
		f.Decls = decls
	}
	// reported objects declared inside function bodies: fields of local struct types and local types
	filterFields := func(st *ast.StructType) {
		var keep []*ast.Field
		for _, fld := range st.Fields.List {
			if len(fld.Names) == 0 {
				if !wantEmbedded(p, want, fld) {
					keep = append(keep, fld)
				}
				continue
			}
			var names []*ast.Ident
			for _, n := range fld.Names {
				if !want[n] {
					names = append(names, n)
				}
			}
			if len(names) > 0 {
				fld.Names = names
				keep = append(keep, fld)
			}
		}
		st.Fields.List = keep
	}
	for _, f := range p.files {
		for _, d := range f.Decls {
			fd, ok := d.(*ast.FuncDecl)
			if !ok || fd.Body == nil {
				continue
			}
			ast.Inspect(fd.Body, func(n ast.Node) bool {
				switch n := n.(type) {
				case *ast.StructType:
					filterFields(n)
				case *ast.BlockStmt:
					var keep []ast.Stmt
					for _, st := range n.List {
						if ds, ok := st.(*ast.DeclStmt); ok {
							if gd, ok := ds.Decl.(*ast.GenDecl); ok && gd.Tok == token.TYPE {
								var specs []ast.Spec
								for _, sp := range gd.Specs {
									if ts := sp.(*ast.TypeSpec); !want[ts.Name] {
										specs = append(specs, sp)
									}
								}
								if len(specs) == 0 {
									continue
								}
								gd.Specs = specs
							}
						}
						keep = append(keep, st)
					}
					n.List = keep
				}
				return true
			})
		}
	}
	// objects declared inside removed types go with them: their methods
	for _, f := range p.files {
		var decls []ast.Decl
		for _, d := range f.Decls {
			if fd, ok := d.(*ast.FuncDecl); ok && fd.Recv != nil && len(fd.Recv.List) == 1 {
				if removedTypes[recvName(fd.Recv.List[0].Type)] {
					continue
				}
			}
			decls = append(decls, d)
		}
		f.Decls = decls
	}
	conf := types.Config{GoVersion: "go1.26", Error: func(err error) {
		msg := err.Error()
		if strings.Contains(msg, "imported and not used") {
			return
		}
		errs = append(errs, msg)
	}}
	conf.Check(p.pkg.Name(), p.fset, p.files, irbuild.NewInfo())
	return errs, undeletable, deleted, writeOnly
}

func wantEmbedded(p *parsed, want map[*ast.Ident]bool, fld *ast.Field) bool {
	// the defining identifier of an embedded field is the type name identifier itself
	var id *ast.Ident
	switch t := fld.Type.(type) {
	case *ast.Ident:
		id = t
	case *ast.StarExpr:
		id, _ = t.X.(*ast.Ident)
	}
	return id != nil && want[id]
}

func recvName(e ast.Expr) string {
	for {
		switch t := e.(type) {
		case *ast.StarExpr:
			e = t.X
		case *ast.IndexExpr:
			e = t.X
		case *ast.IndexListExpr:
			e = t.X
		case *ast.Ident:
			return t.Name
		default:
			return ""
		}
	}
}

// zeroRef lists unexported package-level funcs, named types, vars and stand-alone consts without referring identifiers.
func zeroRef(p *parsed) map[string]string {
	used := map[types.Object]bool{}
	for _, obj := range p.info.Uses {
		used[obj] = true
	}
	// constants declared in a parenthesised group are not stand-alone
	grouped := map[*ast.Ident]bool{}
	for _, f := range p.files {
		for _, d := range f.Decls {
			if gd, ok := d.(*ast.GenDecl); ok && gd.Tok == token.CONST && gd.Lparen.IsValid() {
				for _, s := range gd.Specs {
					for _, n := range s.(*ast.ValueSpec).Names {
						grouped[n] = true
					}
				}
			}
		}
	}
	out := map[string]string{}
	for id, obj := range p.info.Defs {
		if obj == nil || obj.Parent() != p.pkg.Scope() || obj.Exported() || obj.Name() == "_" || used[obj] {
			continue
		}
		kind := ""
		switch o := obj.(type) {
		case *types.Func:
			if o.Name() == "init" || (o.Name() == "main" && p.pkg.Name() == "main") {
				continue
			}
			kind = "func"
		case *types.TypeName:
			kind = "type"
		case *types.Var:
			kind = "var"
		case *types.Const:
			if grouped[id] {
				continue
			}
			kind = "const"
		}
		if kind != "" {
			pos := p.fset.Position(id.Pos())
			out[fmt.Sprintf("%s %s (%s)", kind, obj.Name(), filepath.Base(pos.Filename))] = pos.String()
		}
	}
	return out
}

type clProblem struct {
	Code     string `json:"code"`
	Message  string `json:"message"`
	Location struct {
		File   string `json:"file"`
		Line   int    `json:"line"`
		Column int    `json:"column"`
	} `json:"location"`
}

// evaluateCL runs the staticcheck binary once over the whole module and applies both oracles to what it prints.
func evaluateCL(c *Case) (msg string, infra string) {
	mod := map[string]string{}
	for k, pk := range c.Pkgs {
		for n, src := range files(pk) {
			mod[fmt.Sprintf("q%d/%s", k, n)] = src
		}
	}
	dir, err := u1k.WriteModule(mod)
	if err != nil {
		return "", err.Error()
	}
	defer os.RemoveAll(dir)
	if d, err := filepath.EvalSymlinks(dir); err == nil {
		dir = d
	}
	cache, _ := os.MkdirTemp("", "c07cache-")
	defer os.RemoveAll(cache)
	cmd := exec.Command(filepath.Join(ev.BinDir(), "staticcheck"), "-f", "json", "-checks", "U1000", "./...")
	cmd.Dir = dir
	cmd.Env = append(os.Environ(), "STATICCHECK_CACHE="+cache)
	var stdout, stderr bytes.Buffer
	cmd.Stdout, cmd.Stderr = &stdout, &stderr
	runErr := cmd.Run()
	if ee, ok := runErr.(*exec.ExitError); runErr != nil && (!ok || ee.ExitCode() > 1) {
		return "", fmt.Sprintf("staticcheck failed: %v\n%s", runErr, stderr.String())
	}
	per := make([]unused.Result, len(c.Pkgs))
	for _, line := range strings.Split(strings.TrimSpace(stdout.String()), "\n") {
		if line == "" {
			continue
		}
		var p clProblem
		if err := json.Unmarshal([]byte(line), &p); err != nil {
			return "", "cannot parse staticcheck output: " + line
		}
		if p.Code != "U1000" {
			return "", "unexpected problem: " + line
		}
		rel, err := filepath.Rel(dir, p.Location.File)
		if err != nil {
			return "", "file outside the module: " + line
		}
		var k int
		var base string
		if _, err := fmt.Sscanf(filepath.ToSlash(rel), "q%d/%s", &k, &base); err != nil || k < 0 || k >= len(c.Pkgs) {
			return "", "cannot attribute " + line
		}
		// "<kind> <name> is unused"
		f := strings.Fields(p.Message)
		if len(f) < 4 || f[len(f)-1] != "unused" {
			return "", "unexpected message: " + line
		}
		per[k].Unused = append(per[k].Unused, unused.Object{
			Kind:     f[0],
			Name:     strings.Join(f[1:len(f)-2], " "),
			Position: token.Position{Filename: p.Location.File, Line: p.Location.Line, Column: p.Location.Column},
		})
	}
	var sb strings.Builder
	names := map[string]int{}
	for _, pk := range c.Pkgs {
		names[pk.Name]++
	}
	for k, pk := range c.Pkgs {
		ev.Count("cli_packages", 1)
		if names[pk.Name] > 1 {
			ev.Count("cli_packages_sharing_their_name_with_another_package_of_the_run", 1)
		}
		m, infra := evalPkg(pk, per[k])
		if infra != "" {
			return "", infra
		}
		if m != "" {
			fmt.Fprintf(&sb, "staticcheck -checks U1000 ./... (%d packages), package q%d:\n%s", len(c.Pkgs), k, m)
			for i := range pk.Files {
				fmt.Fprintf(&sb, "// ---- q%d/%s\n%s", k, pk.FileName(i), pk.Source(i))
			}
		}
	}
	return sb.String(), ""
}

func evaluate(c *Case) (msg string, infra string) {
	if c.CL {
		return evaluateCL(c)
	}
	mod := map[string]string{}
	for k, pk := range c.Pkgs {
		for n, src := range files(pk) {
			mod[fmt.Sprintf("q%d/%s", k, n)] = src
		}
	}
	dir, err := u1k.WriteModule(mod)
	if err != nil {
		return "", err.Error()
	}
	defer os.RemoveAll(dir)
	vs, err := u1k.Run(dir, false, "./...")
	if err != nil {
		return "", "runner: " + err.Error()
	}
	if len(vs) != len(c.Pkgs) {
		return "", fmt.Sprintf("expected %d packages, got %d", len(c.Pkgs), len(vs))
	}
	byPath := map[string]unused.Result{}
	for _, v := range vs {
		byPath[v.Path] = v.Result
	}
	var sb strings.Builder
	for k, pk := range c.Pkgs {
		res, ok := byPath[fmt.Sprintf("m/q%d", k)]
		if !ok {
			return "", fmt.Sprintf("no result for package q%d", k)
		}
		m, infra := evalPkg(pk, res)
		if infra != "" {
			return "", infra
		}
		if m != "" {
			fmt.Fprintf(&sb, "package q%d:\n%s", k, m)
			for i := range pk.Files {
				fmt.Fprintf(&sb, "// ---- q%d/%s\n%s", k, pk.FileName(i), pk.Source(i))
			}
		}
	}
	return sb.String(), ""
}

func evalPkg(pk *declgen.Package, res unused.Result) (msg string, infra string) {
	srcs := files(pk)
	p, err := parseAndCheck(srcs, pk.Name)
	if err != nil {
		return "", "generated package does not type-check: " + err.Error()
	}
	var sb strings.Builder
	// completeness first (needs the unedited AST)
	reportedKeys := map[string]bool{}
	for _, o := range res.Unused {
		reportedKeys[u1k.Key(o)] = true
	}
	zr := zeroRef(p)
	var zkeys []string
	for k := range zr {
		zkeys = append(zkeys, k)
	}
	sort.Strings(zkeys)
	for _, k := range zkeys {
		ev.Count("completeness_objects_without_references", 1)
		if !reportedKeys[k] {
			fmt.Fprintf(&sb, "COMPLETENESS: %s at %s has no referring identifier but is not reported by U1000\n", k, zr[k])
		}
	}
	// deletion safety
	errs, undeletable, _, writeOnly := deletion(p, res.Unused)
	ev.Count("reported_objects", len(res.Unused))
	ev.Count("reported_objects_not_located", undeletable)
	for _, e := range errs {
		// documented design (rule 9.7): a variable that is only ever assigned is reported; deleting it breaks the assignment
		isWO := writeOnly[e] // the error sits exactly on the target of a plain assignment to a package-level variable
		if isWO && ev.IsKnown("write-only-variable-reported") {
			ev.KnownFinding("write-only-variable-reported", "")
			continue
		}
		fmt.Fprintf(&sb, "DELETION: after removing the %d reported objects the package no longer type-checks: %s\n", len(res.Unused), e)
	}
	if sb.Len() > 0 {
		fmt.Fprintf(&sb, "reported unused: %v\n", u1k.Keys(res.Unused))
	}
	indirect := false
	for _, f := range pk.Feat {
		switch f {
		case "iface-satisfaction", "embedding", "struct-conversion", "method-value", "method-expr", "generic-inst":
			indirect = true
		}
	}
	classes := []string{"pkg_" + pk.Name, fmt.Sprintf("files_%d", len(pk.Files))}
	for _, f := range pk.Feat {
		classes = append(classes, "feat_"+f)
	}
	var all []string
	for _, n := range p.names {
		all = append(all, srcs[n])
	}
	ev.Case(ev.Hash(all...), indirect && len(res.Unused) > 0, classes...)
	return sb.String(), ""
}

func TestDeletionAndCompleteness(t *testing.T) {
	ev.Rule(rule)
	ev.Assume("the deletion edit removes funcs, methods, types (with their methods), fields and fully reported var/const specs; names in partially reported specs and in iota groups are blanked so that iota and implicit repetition keep their meaning")
	ev.Check(t, "TestDeletionAndCompleteness", func(rt *rapid.T) {
		c := &Case{}
		n := rapid.IntRange(1, ev.EnvInt("C07_PKGS_PER_CASE", 8, 8)).Draw(rt, "npkgs")
		for i := 0; i < n; i++ {
			name := "p"
			if rapid.IntRange(0, 3).Draw(rt, "main") == 0 {
				name = "main"
			}
			c.Pkgs = append(c.Pkgs, declgen.Generate(rt, name))
		}
		js, _ := json.Marshal(c)
		ev.Begin("TestDeletionAndCompleteness", "json", js)
		msg, infra := evaluate(c)
		if infra != "" {
			ev.Count("infra_skipped", 1)
			ev.Extra("last_infra", infra)
			rt.Skip(infra)
		}
		if ev.WantSample() {
			pk := c.Pkgs[0]
			ev.Sample(map[string]any{"packages_in_case": len(c.Pkgs), "features": pk.Feat, "decls": len(pk.Decls), "files": len(pk.Files), "first_file": pk.Source(0)})
		}
		if msg != "" {
			ev.Failf(rt, "TestDeletionAndCompleteness", "%s", msg)
		}
	})
}

// TestCommandLine analyses modules through the staticcheck command. Every
// generated package comes with a hollowed twin in another directory: same
// package name, same file names, every declaration on the same line, but some
// function bodies emptied, so that objects used in one are unreferenced in
// the other.
func TestCommandLine(t *testing.T) {
	ev.Rule(rule)
	ev.Check(t, "TestCommandLine", func(rt *rapid.T) {
		c := &Case{CL: true}
		n := rapid.IntRange(1, 3).Draw(rt, "npairs")
		for i := 0; i < n; i++ {
			name := "p"
			if rapid.IntRange(0, 2).Draw(rt, "main") == 0 {
				name = "main"
			}
			a := declgen.Generate(rt, name)
			c.Pkgs = append(c.Pkgs, a)
			ntwins := rapid.IntRange(1, 2).Draw(rt, "ntwins")
			for j := 0; j < ntwins; j++ {
				c.Pkgs = append(c.Pkgs, a.Hollow(func(int) bool { return rapid.IntRange(0, 2).Draw(rt, "hollow") > 0 }))
			}
		}
		js, _ := json.Marshal(c)
		ev.Begin("TestCommandLine", "json", js)
		msg, infra := evaluate(c)
		if infra != "" {
			ev.Count("infra_skipped", 1)
			ev.Extra("last_infra", infra)
			rt.Skip(infra)
		}
		if msg != "" {
			ev.Failf(rt, "TestCommandLine", "%s", msg)
		}
	})
}

func replayFile(t *testing.T, f, test string) {
	b, err := os.ReadFile(f)
	if err != nil {
		ev.Infra("read %s: %v", f, err)
		return
	}
	var c Case
	if err := json.Unmarshal(b, &c); err != nil {
		ev.Infra("decode %s: %v", f, err)
		return
	}
	msg, infra := evaluate(&c)
	if infra != "" {
		ev.Infra("%s: %s", f, infra)
		return
	}
	if msg != "" {
		ev.Violate(test, fmt.Sprintf("replay of %s:\n%s", f, msg), "json", b)
		t.Errorf("%s", msg)
	} else {
		t.Logf("replay %s: property holds", f)
	}
}

func TestCorpus(t *testing.T) {
	if os.Getenv("VERIF_SECONDARY") != "" {
		return
	}
	fs, _ := filepath.Glob(filepath.Join(os.Getenv("VERIF_ROOT"), "corpus", "C07", "*.json"))
	sort.Strings(fs)
	for _, f := range fs {
		replayFile(t, f, "TestCorpus")
	}
}

func TestReplay(t *testing.T) {
	if f := ev.ReplayFile(); f != "" {
		replayFile(t, f, "TestReplay")
	}
}
