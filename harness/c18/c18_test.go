package c18

import (
	"bytes"
	"encoding/json"
	"fmt"
	"go/types"
	"os"
	"path/filepath"
	"regexp"
	"runtime"
	"sort"
	"strings"
	"sync"
	"sync/atomic"
	"testing"
	"time"

	"honnef.co/go/tools/go/ir"
	"honnef.co/go/tools/go/ir/irutil"
	"pgregory.net/rapid"
	"verif/harness/internal/ev"
	"verif/harness/internal/irbuild"
)

func TestMain(m *testing.M) { ev.Main(m) }

const rule = "case = (generated multi-package program with 3-6 packages: cross-package generic instances requested from several packages, structs embedding structs/pointers/interfaces of another package (promoted-method wrappers), method values and method expressions (bound closures, thunks); builder mode in {BuildSerially}x{InstantiateGenerics}; a drawn schedule: Program.Build, per-package Build from goroutines in a drawn order, duplicate concurrent Build calls, partial build of a subset first, MethodValue calls racing with builds, K callers of MethodValue for the same selections at once on unbuilt programs (oracle: a serial pass), and gated schedules: a controller script of start/release steps parks each package's builder at calls to its gate function through the Program.SetNoReturn predicate while the process runs on one P, so the interleaving is owned by the harness); oracle = canonical dump (WriteTo text, value names renumbered) of every function equal to the serial reference build, second Build changes nothing, shared synthetic callees have bodies when a package's Build returns, one *Function per name, and the whole test binary runs under the race detector; non-trivial = some function instance or wrapper is referenced from >=2 packages; distinct by (program hash, schedule)"

// ---------------------------------------------------------------- program generator

type Program struct {
	Pkgs []irbuild.Pkg `json:"pkgs"`
}

const lib = `package p0

type Num interface{ ~int | ~int64 | ~string }

func Map[T any](xs []T, f func(T) T) []T {
	out := make([]T, 0, len(xs))
	for _, x := range xs {
		out = append(out, f(x))
	}
	return out
}

func Sum[T Num](xs ...T) T {
	var s T
	for _, x := range xs {
		s += x
	}
	return s
}

func Pair[K comparable, V any](k K, v V) map[K]V { return map[K]V{k: v} }

type Box[T any] struct{ V T }

func (b Box[T]) Get() T   { return b.V }
func (b *Box[T]) Set(v T) { b.V = v }

func Wrap[T any](v T) *Box[T] { return &Box[T]{V: Sum2(v)} }

func Sum2[T any](v T) T { return v }

func Chain2[T any](v T) T { return Sum2(v) }

func Chain3[T any](v T) T { return Chain2(Sum2(v)) }

type Many struct{ N int }

func (m Many) M0() int { return m.N }
func (m Many) M1() int { return m.N + 1 }
func (m Many) M2() int { return m.N + 2 }
func (m Many) M3() int { return m.N + 3 }
func (m Many) M4() int { return m.N + 4 }
func (m Many) M5() int { return m.N + 5 }
func (m Many) M6() int { return m.N + 6 }
func (m Many) M7() int { return m.N + 7 }

type Base struct{ N int }

func (b Base) Val() int { return b.N }
func (b *Base) Inc()    { b.N++ }

type Iface interface{ Val() int }

type Wide interface {
	Iface
	Inc()
}

func Use(i Iface) int { return i.Val() }
`

type gen struct {
	t *rapid.T
}

func (g *gen) pick(label string, n int) int { return rapid.IntRange(0, n-1).Draw(g.t, label) }

// genProgram draws a program. With chain set, every package mostly calls the
// generic functions that call each other (Chain3 -> Chain2 -> Sum2, Wrap ->
// Sum2) and has many gates: the shape in which one builder waits for a
// second one that waits for a third.
func genProgram(t *rapid.T, chain bool) *Program {
	g := &gen{t}
	p := &Program{}
	p.Pkgs = append(p.Pkgs, irbuild.Pkg{Path: "p0", Files: map[string]string{"p0.go": lib}})
	n := 2 + g.pick("npkgs", 4)
	if chain {
		n++
	}
	for i := 1; i <= n; i++ {
		var sb strings.Builder
		fmt.Fprintf(&sb, "package p%d\n\nimport \"p0\"\n", i)
		// import some earlier user packages as well
		var deps []int
		for j := 1; j < i; j++ {
			if g.pick("dep", 3) == 0 {
				deps = append(deps, j)
				fmt.Fprintf(&sb, "import \"p%d\"\n", j)
			}
		}
		sb.WriteString("\n")
		for _, d := range deps {
			fmt.Fprintf(&sb, "var _ = p%d.G0\n", d) // every import is used
		}
		// embedding kinds
		switch g.pick("embed", 4) {
		case 0:
			sb.WriteString("type E struct {\n\tp0.Base\n\tX int\n}\n\n")
		case 1:
			sb.WriteString("type E struct {\n\t*p0.Base\n\tX int\n}\n\n")
		case 2:
			sb.WriteString("type E struct {\n\tp0.Iface\n\tX int\n}\n\n")
		default:
			sb.WriteString("type E struct {\n\tp0.Wide\n\tp0.Box[int]\n\tX int\n}\n\n")
		}
		sb.WriteString("func UseE(e E) int { return p0.Use(e) }\n\n")
		// gate is a scheduling point: the "gated" schedule parks this package's builder when it
		// builds a call to it (through the Program.SetNoReturn predicate, consulted for every static call)
		sb.WriteString("func gate() {}\n\n")
		if g.pick("many", 3) == 0 {
			sb.WriteString("type EM struct {\n\tp0.Many\n\tY int\n}\n\n")
		}
		chainy := chain || g.pick("chainy", 2) == 0
		nf := 1 + g.pick("nfuncs", 4)
		for f := 0; f < nf; f++ {
			fmt.Fprintf(&sb, "func G%d(a int, s string) (r int) {\n", f)
			ns := 1 + g.pick("nstmts", 5)
			for k := 0; k < ns; k++ {
				kind := g.pick("stmt", 14)
				if chainy && g.pick("chain", 5) < 3 {
					kind = 14 + g.pick("chainkind", 6)
				}
				switch kind {
				case 14:
					sb.WriteString("\tr += p0.Sum2(a)\n")
				case 15:
					sb.WriteString("\tr += p0.Chain2(a)\n")
				case 16:
					sb.WriteString("\tr += p0.Chain3(a)\n")
				case 17:
					sb.WriteString("\tr += len(p0.Sum2(s))\n")
				case 18:
					sb.WriteString("\tr += p0.Wrap(a).Get()\n")
				case 19:
					sb.WriteString("\tr += len(p0.Chain3(s))\n")
				case 0:
					sb.WriteString("\tr += len(p0.Map([]int{a, 1}, func(x int) int { return x + a }))\n")
				case 1:
					sb.WriteString("\tr += len(p0.Map([]string{s}, func(x string) string { return x + s }))\n")
				case 2:
					sb.WriteString("\tr += p0.Sum(a, 2, 3)\n")
				case 3:
					sb.WriteString("\tr += len(p0.Sum(s, \"x\"))\n")
				case 4:
					sb.WriteString("\t{\n\t\tb := p0.Wrap(a)\n\t\tb.Set(b.Get() + 1)\n\t\tr += b.Get()\n\t}\n")
				case 5:
					sb.WriteString("\t{\n\t\tb := p0.Box[string]{V: s}\n\t\tf := b.Get\n\t\tr += len(f())\n\t}\n")
				case 6:
					sb.WriteString("\t{\n\t\tbase := p0.Base{N: a}\n\t\tf := base.Val\n\t\tg := (*p0.Base).Inc\n\t\tg(&base)\n\t\tr += f() + p0.Base.Val(base)\n\t}\n")
				case 7:
					sb.WriteString("\t{\n\t\tvar i p0.Iface = p0.Base{N: a}\n\t\tf := i.Val\n\t\tr += f()\n\t}\n")
				case 8:
					sb.WriteString("\t{\n\t\tvar e E\n\t\tvar w p0.Iface = e\n\t\t_ = w\n\t\tr += e.X\n\t}\n")
				case 9:
					sb.WriteString("\t{\n\t\tm := p0.Pair(s, a)\n\t\tr += len(m) + m[s]\n\t}\n")
				case 10:
					sb.WriteString("\t{\n\t\tvar e E\n\t\tf := E.Val\n\t\t_ = f\n\t\tr += UseE(e)\n\t}\n")
				case 11:
					if len(deps) > 0 {
						d := deps[g.pick("whichdep", len(deps))]
						fmt.Fprintf(&sb, "\tr += p%d.G0(a, s)\n", d)
					} else {
						sb.WriteString("\tr += p0.Use(p0.Base{N: a})\n")
					}
				case 12:
					if len(deps) > 0 {
						d := deps[g.pick("whichdep", len(deps))]
						fmt.Fprintf(&sb, "\t{\n\t\tvar e p%d.E\n\t\tvar w p0.Iface = e\n\t\tf := w.Val\n\t\tg := p%d.E.Val\n\t\t_, _ = f, g\n\t}\n", d, d)
					} else {
						sb.WriteString("\tr += p0.Wrap(s).Get()[0:0] + \"\" == \"\" && true == true\n")
						// replaced below (kept type-correct)
					}
				default:
					sb.WriteString("\tdefer func() { r += len(p0.Map([]int{r}, func(x int) int { return x })) }()\n")
				}
				if g.pick("gate", 4) == 0 || chainy && g.pick("gate2", 3) == 0 {
					sb.WriteString("\tgate()\n")
				}
			}
			sb.WriteString("\treturn r\n}\n\n")
		}
		src := strings.ReplaceAll(sb.String(), "\tr += p0.Wrap(s).Get()[0:0] + \"\" == \"\" && true == true\n", "\tr += len(p0.Wrap(s).Get())\n")
		p.Pkgs = append(p.Pkgs, irbuild.Pkg{Path: fmt.Sprintf("p%d", i), Files: map[string]string{fmt.Sprintf("p%d.go", i): src}})
	}
	return p
}

// ---------------------------------------------------------------- building under a schedule

type Schedule struct {
	Kind   string `json:"kind"` // program | per-package | duplicate | partial-first | racing-methodvalue | gated | concurrent-methodvalue
	Order  []int  `json:"order"`
	Yields []int  `json:"yields"`
	Procs  int    `json:"procs"`
	Steps  []Step `json:"steps,omitempty"` // gated: the controller's script
	K      int    `json:"k,omitempty"`     // concurrent-methodvalue: number of callers
}

// Step is one action of the controller of a gated schedule: start the builder
// of package Pkg (in its own goroutine), or let the parked builder of package
// Pkg run on to its next gate.
type Step struct {
	Op  string `json:"op"` // start | release
	Pkg int    `json:"pkg"`
}

type Case struct {
	Prog  *Program `json:"prog"`
	Mode  uint     `json:"mode"`
	Sched Schedule `json:"sched"`
}

type built struct {
	prog *ir.Program
	pkgs []*ir.Package
}

func create(p *Program, mode ir.BuilderMode) (*built, error) {
	b, err := irbuild.Check(p.Pkgs, "go1.26")
	if err != nil {
		return nil, err
	}
	prog := ir.NewProgram(b.Fset, mode)
	out := &built{prog: prog}
	for _, pk := range p.Pkgs {
		out.pkgs = append(out.pkgs, prog.CreatePackage(b.Types[pk.Path], b.Files[pk.Path], b.Infos[pk.Path], true))
	}
	return out, nil
}

var nameRe = regexp.MustCompile(`\bt[0-9]+\b`)

// canonical renders fn with value names renumbered in order of appearance.
func canonical(fn *ir.Function) string {
	var buf bytes.Buffer
	fn.WriteTo(&buf)
	seen := map[string]string{}
	return nameRe.ReplaceAllStringFunc(buf.String(), func(s string) string {
		if r, ok := seen[s]; ok {
			return r
		}
		r := fmt.Sprintf("v%d", len(seen))
		seen[s] = r
		return r
	})
}

// dump returns name -> canonical text for all functions of the program, and
// reports two distinct function objects for what must be one shared function.
// Bound-method closures and thunks are created per use site by design (see
// builder.go), so several objects with the same name are legitimate for them:
// their texts are collected as a sorted multiset under one key.
func dump(b *built) (map[string]string, string) {
	multi := map[string][]string{}
	var dup []string
	for fn := range irutil.AllFunctions(b.prog) {
		key := fn.String() + " [" + fn.Synthetic + "]"
		// Sum2[T] instantiated with Chain2's T and with Wrap's T are different functions that print alike
		for _, ta := range fn.TypeArgs() {
			if tp, ok := types.Unalias(ta).(*types.TypeParam); ok {
				pos := b.prog.Fset.Position(tp.Obj().Pos())
				key += fmt.Sprintf(" {%s declared at %s:%d:%d}", tp, filepath.Base(pos.Filename), pos.Line, pos.Column)
			}
		}
		if fn.Parent() != nil {
			key = fn.Parent().String() + ">" + key
		}
		if _, ok := multi[key]; ok {
			perUseSite := strings.HasPrefix(fn.Synthetic, "bound method wrapper") || strings.HasPrefix(fn.Synthetic, "thunk for") || fn.Parent() != nil
			if !perUseSite {
				dup = append(dup, key+" (two function objects)")
			}
		}
		multi[key] = append(multi[key], canonical(fn))
	}
	out := map[string]string{}
	for k, v := range multi {
		sort.Strings(v)
		out[k] = strings.Join(v, "\n=====\n")
	}
	sort.Strings(dup)
	return out, strings.Join(dup, "\n")
}

// sharedUnbuilt lists synthetic functions referenced from pkg's functions that have no body.
func sharedUnbuilt(pkg *ir.Package) []string {
	var bad []string
	seen := map[*ir.Function]bool{}
	var visit func(fn *ir.Function, depth int)
	visit = func(fn *ir.Function, depth int) {
		if fn == nil || seen[fn] {
			return
		}
		seen[fn] = true
		for _, b := range fn.Blocks {
			for _, instr := range b.Instrs {
				for _, op := range instr.Operands(nil) {
					callee, ok := (*op).(*ir.Function)
					if !ok {
						continue
					}
					if callee.Synthetic != "" && !strings.HasPrefix(callee.Synthetic, "from type information") && callee.Synthetic != "package initializer" {
						if len(callee.Blocks) == 0 {
							bad = append(bad, fmt.Sprintf("%s (%s) referenced from %s", callee, callee.Synthetic, fn))
						}
						visit(callee, depth+1)
					} else if callee.Parent() != nil {
						visit(callee, depth+1)
					}
				}
			}
		}
		for _, a := range fn.AnonFuncs {
			visit(a, depth+1)
		}
	}
	for _, m := range pkg.Members {
		if fn, ok := m.(*ir.Function); ok {
			visit(fn, 0)
		}
	}
	return bad
}

func runSchedule(c *Case) (msg string, shared int, err error) {
	mode := ir.BuilderMode(c.Mode)
	ref, err := create(c.Prog, mode|ir.BuildSerially)
	if err != nil {
		return "", 0, err
	}
	ref.prog.Build()
	refDump, dup := dump(ref)
	var sb strings.Builder
	if dup != "" {
		fmt.Fprintf(&sb, "reference build: functions that are not unique:\n%s\n", dup)
	}
	// shared functions: referenced from >= 2 packages
	users := map[*ir.Function]map[*ir.Package]bool{}
	for fn := range irutil.AllFunctions(ref.prog) {
		for _, b := range fn.Blocks {
			for _, instr := range b.Instrs {
				for _, op := range instr.Operands(nil) {
					if callee, ok := (*op).(*ir.Function); ok && callee.Synthetic != "" && fn.Pkg != nil {
						if users[callee] == nil {
							users[callee] = map[*ir.Package]bool{}
						}
						users[callee][fn.Pkg] = true
					}
				}
			}
		}
	}
	for _, u := range users {
		if len(u) >= 2 {
			shared++
		}
	}

	b, err := create(c.Prog, mode)
	if err != nil {
		return "", 0, err
	}
	if c.Sched.Procs > 0 {
		defer runtime.GOMAXPROCS(runtime.GOMAXPROCS(c.Sched.Procs))
	}
	yield := func(i int) {
		if i < len(c.Sched.Yields) {
			for k := 0; k < c.Sched.Yields[i]; k++ {
				runtime.Gosched()
			}
		}
	}
	var mu sync.Mutex
	var early []string
	buildPkg := func(i int) {
		pkg := b.pkgs[i%len(b.pkgs)]
		pkg.Build()
		// right after Build returns: shared synthetic callees must have bodies
		if bad := sharedUnbuilt(pkg); len(bad) > 0 {
			mu.Lock()
			early = append(early, bad...)
			mu.Unlock()
		}
	}
	switch c.Sched.Kind {
	case "program":
		b.prog.Build()
	case "per-package", "duplicate", "racing-methodvalue":
		var wg sync.WaitGroup
		order := c.Sched.Order
		if c.Sched.Kind == "duplicate" {
			order = append(append([]int{}, order...), order...)
		}
		for k, i := range order {
			wg.Add(1)
			go func(k, i int) {
				defer wg.Done()
				yield(k)
				buildPkg(i)
			}(k, i)
		}
		if c.Sched.Kind == "racing-methodvalue" {
			wg.Add(1)
			go func() {
				defer wg.Done()
				for _, pkg := range b.pkgs {
					for _, m := range pkg.Members {
						if t, ok := m.(*ir.Type); ok {
							if named, ok := t.Type().(*types.Named); ok && named.TypeParams() == nil && !types.IsInterface(named) {
								for _, T := range []types.Type{named, types.NewPointer(named)} {
									ms := b.prog.MethodSets.MethodSet(T)
									for j := 0; j < ms.Len(); j++ {
										// only synthetic wrappers are built on demand by MethodValue; declared methods
										// belong to their package's Build (reading their Blocks here would be the harness racing)
										if fn := b.prog.MethodValue(ms.At(j)); fn != nil && strings.HasPrefix(fn.Synthetic, "wrapper for") && len(fn.Blocks) == 0 {
											mu.Lock()
											early = append(early, fmt.Sprintf("MethodValue returned %s without a body", fn))
											mu.Unlock()
										}
										runtime.Gosched()
									}
								}
							}
						}
					}
				}
			}()
		}
		wg.Wait()
		b.prog.Build() // packages not in the drawn order
	case "gated":
		if e := runGated(c, b, buildPkg); e != nil {
			return "", 0, e
		}
		b.prog.Build()
	case "concurrent-methodvalue":
		concurrentMethodValue(&sb, c, mode)
		b.prog.Build()
	case "partial-first":
		for _, i := range c.Sched.Order {
			buildPkg(i)
		}
		b.prog.Build()
	default:
		return "", 0, fmt.Errorf("unknown schedule %q", c.Sched.Kind)
	}
	for _, e := range early {
		fmt.Fprintf(&sb, "Build returned while a shared function was not built: %s\n", e)
	}
	got, dup2 := dump(b)
	if dup2 != "" {
		fmt.Fprintf(&sb, "functions that are not unique:\n%s\n", dup2)
	}
	compareDumps(&sb, "serial reference", "scheduled build", refDump, got)
	// idempotence
	b.prog.Build()
	for _, pkg := range b.pkgs {
		pkg.Build()
	}
	again, _ := dump(b)
	compareDumps(&sb, "first build", "after a second Build", got, again)
	return sb.String(), shared, nil
}

// ---------------------------------------------------------------- gated schedules

// gates parks builders at calls to their package's gate function.
type gates struct {
	mu     sync.Mutex
	open   bool
	parked map[int][]chan struct{}
	events atomic.Int64
}

func (g *gates) pred(f *types.Func) bool {
	if f.Name() != "gate" || f.Pkg() == nil {
		return false
	}
	var i int
	if _, err := fmt.Sscanf(f.Pkg().Path(), "p%d", &i); err != nil {
		return false
	}
	g.mu.Lock()
	if g.open {
		g.mu.Unlock()
		return false
	}
	ch := make(chan struct{})
	g.parked[i] = append(g.parked[i], ch)
	g.events.Add(1)
	g.mu.Unlock()
	<-ch
	return false
}

func (g *gates) release(i int) bool {
	g.mu.Lock()
	chs := g.parked[i]
	delete(g.parked, i)
	g.mu.Unlock()
	for _, ch := range chs {
		close(ch)
	}
	return len(chs) > 0
}

func (g *gates) openAll() {
	g.mu.Lock()
	g.open = true
	all := g.parked
	g.parked = map[int][]chan struct{}{}
	g.mu.Unlock()
	for _, chs := range all {
		for _, ch := range chs {
			close(ch)
		}
	}
}

// runGated executes the controller script of a gated schedule. The process
// runs on one P: after every step the controller yields until nothing moves
// any more, i.e. every builder is parked at a gate, has returned, or is
// waiting for another builder. The oracle is the one of the other schedules
// (buildPkg: when Build returns, everything reachable is built); the gates
// only decide which interleaving is explored, they cannot make correct code fail.
func runGated(c *Case, b *built, buildPkg func(int)) error {
	defer runtime.GOMAXPROCS(runtime.GOMAXPROCS(1))
	g := &gates{parked: map[int][]chan struct{}{}}
	b.prog.SetNoReturn(g.pred)
	settle := func() {
		for idle := 0; idle < 30; {
			before := g.events.Load()
			runtime.Gosched()
			if g.events.Load() == before {
				idle++
			} else {
				idle = 0
			}
		}
	}
	var wg sync.WaitGroup
	started := map[int]bool{}
	for _, st := range c.Sched.Steps {
		i := st.Pkg % len(b.pkgs)
		switch st.Op {
		case "start":
			if started[i] {
				continue
			}
			started[i] = true
			wg.Add(1)
			go func() {
				defer wg.Done()
				buildPkg(i)
				g.events.Add(1)
			}()
			ev.Count("gated_builders_started", 1)
		case "release":
			if g.release(i) {
				ev.Count("gated_releases_of_parked_builder", 1)
			}
		}
		settle()
	}
	g.mu.Lock()
	np := len(g.parked)
	g.mu.Unlock()
	if np > 0 {
		ev.Count("gated_cases_with_builder_parked_at_end_of_script", 1)
	}
	g.openAll()
	done := make(chan struct{})
	go func() { wg.Wait(); close(done) }()
	select {
	case <-done:
	case <-time.After(120 * time.Second):
		return fmt.Errorf("gated schedule: builders did not finish within 120s after all gates were opened")
	}
	return nil
}

// ---------------------------------------------------------------- concurrent MethodValue

// selections lists the method selections of the declared non-generic named
// types of all packages, of the named types they embed, and of pointers to both.
func selections(b *built) []*types.Selection {
	var out []*types.Selection
	seen := map[string]bool{}
	add := func(T types.Type) {
		if types.IsInterface(T) || seen[T.String()] {
			return
		}
		seen[T.String()] = true
		ms := b.prog.MethodSets.MethodSet(T)
		for j := 0; j < ms.Len(); j++ {
			out = append(out, ms.At(j))
		}
	}
	for _, pkg := range b.pkgs {
		var names []string
		for n := range pkg.Members {
			names = append(names, n)
		}
		sort.Strings(names)
		for _, n := range names {
			t, ok := pkg.Members[n].(*ir.Type)
			if !ok {
				continue
			}
			named, ok := t.Type().(*types.Named)
			if !ok || named.TypeParams() != nil || types.IsInterface(named) {
				continue
			}
			add(named)
			add(types.NewPointer(named))
			if st, ok := named.Underlying().(*types.Struct); ok {
				for k := 0; k < st.NumFields(); k++ {
					f := st.Field(k)
					if !f.Embedded() {
						continue
					}
					ft := f.Type()
					if p, ok := ft.(*types.Pointer); ok {
						ft = p.Elem()
					}
					if fn, ok := ft.(*types.Named); ok && !types.IsInterface(fn) {
						add(fn)
						add(types.NewPointer(fn))
					}
				}
			}
		}
	}
	return out
}

// concurrentMethodValue calls Program.MethodValue ("Thread-safe", "building
// wrapper methods on demand") for the same selections from K goroutines at
// once, on fresh programs whose packages have not been built. Oracle: a
// serial pass over another fresh program. Every caller must get one and the
// same function per selection, and that function must have a body when
// MethodValue returns if it has one after the serial call.
func concurrentMethodValue(sb *strings.Builder, c *Case, mode ir.BuilderMode) {
	ref, err := create(c.Prog, mode)
	if err != nil {
		return
	}
	rsels := selections(ref)
	want := make([]bool, len(rsels))
	names := make([]string, len(rsels))
	for i, sel := range rsels {
		if fn := ref.prog.MethodValue(sel); fn != nil {
			want[i] = len(fn.Blocks) > 0
			names[i] = fn.String() + " (" + fn.Synthetic + ")"
			if want[i] {
				ev.Count("methodvalue_selections_built_on_demand", 1)
			}
		}
	}
	K := max(2, c.Sched.K)
	defer runtime.GOMAXPROCS(runtime.GOMAXPROCS(max(4, c.Sched.Procs)))
	for round := 0; round < 4; round++ {
		b, err := create(c.Prog, mode)
		if err != nil {
			return
		}
		sels := selections(b)
		if len(sels) != len(rsels) {
			return
		}
		got := make([][]*ir.Function, K)
		unbuilt := make([][]int, K)
		start := make(chan struct{})
		var wg sync.WaitGroup
		for k := 0; k < K; k++ {
			wg.Add(1)
			go func(k int) {
				defer wg.Done()
				got[k] = make([]*ir.Function, len(sels))
				<-start
				for i, sel := range sels {
					fn := b.prog.MethodValue(sel)
					got[k][i] = fn
					if fn != nil && want[i] && len(fn.Blocks) == 0 {
						unbuilt[k] = append(unbuilt[k], i)
					}
				}
			}(k)
		}
		close(start)
		wg.Wait()
		n := 0
		for k := 0; k < K; k++ {
			for _, i := range unbuilt[k] {
				if n < 5 {
					fmt.Fprintf(sb, "round %d: MethodValue returned %s without a body to caller %d of %d (it has one after a serial call)\n", round, names[i], k, K)
				}
				n++
			}
			for i := range sels {
				if got[k][i] != got[0][i] && n < 5 {
					fmt.Fprintf(sb, "round %d: MethodValue returned different functions for %s to callers 0 and %d\n", round, names[i], k)
					n++
				}
			}
		}
		if n > 0 {
			return
		}
	}
}

func compareDumps(sb *strings.Builder, an, bn string, a, b map[string]string) {
	n := 0
	for k, ta := range a {
		tb, ok := b[k]
		if !ok {
			if n < 5 {
				fmt.Fprintf(sb, "function %s exists in the %s but not in the %s\n", k, an, bn)
			}
			n++
		} else if ta != tb {
			if n < 3 {
				fmt.Fprintf(sb, "function %s differs between %s and %s:\n--- %s\n%s\n--- %s\n%s\n", k, an, bn, an, ta, bn, tb)
			}
			n++
		}
	}
	for k := range b {
		if _, ok := a[k]; !ok {
			if n < 5 {
				fmt.Fprintf(sb, "function %s exists in the %s but not in the %s\n", k, bn, an)
			}
			n++
		}
	}
}

func genSchedule(t *rapid.T, npkgs int, chain bool) Schedule {
	kinds := []string{"program", "per-package", "per-package", "duplicate", "partial-first", "racing-methodvalue", "gated", "gated", "gated", "concurrent-methodvalue", "concurrent-methodvalue"}
	if chain {
		kinds = []string{"gated", "gated", "gated", "per-package"}
	}
	s := Schedule{Kind: rapid.SampledFrom(kinds).Draw(t, "sched")}
	perm := rapid.Permutation(seq(npkgs)).Draw(t, "order")
	k := rapid.IntRange(1, npkgs).Draw(t, "nbuilt")
	s.Order = perm[:k]
	for i := 0; i < 2*npkgs; i++ {
		s.Yields = append(s.Yields, rapid.IntRange(0, 20).Draw(t, "yield"))
	}
	s.Procs = rapid.SampledFrom([]int{1, 2, 4, 16}).Draw(t, "procs")
	switch s.Kind {
	case "gated":
		// a script over the drawn order: start the next builder or release a started one
		next := 0
		for n := rapid.IntRange(2, 3*npkgs).Draw(t, "nsteps"); n > 0; n-- {
			if next < len(perm) && (next == 0 || rapid.IntRange(0, 3).Draw(t, "op") < 3) {
				s.Steps = append(s.Steps, Step{Op: "start", Pkg: perm[next]})
				next++
			} else {
				s.Steps = append(s.Steps, Step{Op: "release", Pkg: perm[rapid.IntRange(0, next-1).Draw(t, "which")]})
			}
		}
	case "concurrent-methodvalue":
		s.K = rapid.SampledFrom([]int{2, 3, 4, 8}).Draw(t, "callers")
	}
	return s
}

func seq(n int) []int {
	s := make([]int, n)
	for i := range s {
		s[i] = i
	}
	return s
}

func TestParallelBuild(t *testing.T) {
	ev.Rule(rule)
	ev.Assume("schedules are sampled (drawn orders, Gosched noise, GOMAXPROCS in {1,2,4,16}); absence of races is 'none observed under the race detector'")
	ev.Check(t, "TestParallelBuild", func(rt *rapid.T) {
		chain := rapid.IntRange(0, 3).Draw(rt, "theme") == 0
		p := genProgram(rt, chain)
		mode := ir.BuilderMode(0)
		if rapid.Bool().Draw(rt, "instantiate") || chain && rapid.Bool().Draw(rt, "instantiate2") {
			mode |= ir.InstantiateGenerics
		}
		c := &Case{Prog: p, Mode: uint(mode), Sched: genSchedule(rt, len(p.Pkgs), chain)}
		js, _ := json.Marshal(c)
		ev.Begin("TestParallelBuild", "json", js)
		msg, shared, err := runSchedule(c)
		if err != nil {
			ev.Count("gen_invalid", 1)
			ev.Extra("last_gen_error", err.Error())
			rt.Skip(err.Error())
		}
		classes := []string{"sched_" + c.Sched.Kind}
		if chain {
			classes = append(classes, "chain_theme")
		}
		if mode&ir.InstantiateGenerics != 0 {
			classes = append(classes, "instantiate_generics")
		}
		ev.Case(ev.Hash(string(js)), shared > 0, classes...)
		ev.Count("shared_functions_seen", shared)
		if shared > 0 && ev.WantSample() {
			ev.Sample(map[string]any{"packages": len(p.Pkgs), "schedule": c.Sched, "shared_functions": shared, "last_package": p.Pkgs[len(p.Pkgs)-1].Files})
		}
		if msg != "" {
			ev.Failf(rt, "TestParallelBuild", "schedule %+v, mode %q:\n%s", c.Sched, mode.String(), msg)
		}
	})
}

func replayFile(t *testing.T, f, test string) {
	b, err := os.ReadFile(f)
	if err != nil {
		ev.Infra("read %s: %v", f, err)
		return
	}
	var c Case
	if err := json.Unmarshal(b, &c); err != nil {
		ev.Infra("decode %s: %v", f, err)
		return
	}
	// a schedule-dependent failure may need repetition
	for i := 0; i < 20; i++ {
		msg, _, err := runSchedule(&c)
		if err != nil {
			ev.Infra("%v", err)
			return
		}
		if msg != "" {
			ev.Violate(test, fmt.Sprintf("replay of %s (attempt %d):\n%s", f, i, msg), "json", b)
			t.Errorf("%s", msg)
			return
		}
	}
	t.Logf("replay %s: property holds (20 attempts)", f)
}

func TestCorpus(t *testing.T) {
	if os.Getenv("VERIF_SECONDARY") != "" {
		return
	}
	files, _ := filepath.Glob(filepath.Join(os.Getenv("VERIF_ROOT"), "corpus", "C18", "*.json"))
	sort.Strings(files)
	for _, f := range files {
		replayFile(t, f, "TestCorpus")
	}
}

func TestReplay(t *testing.T) {
	if f := ev.ReplayFile(); f != "" {
		replayFile(t, f, "TestReplay")
	}
}
