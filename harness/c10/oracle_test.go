package c10

import (
	"bytes"
	"encoding/json"
	"fmt"
	"go/ast"
	"go/parser"
	"go/token"
	"os"
	"os/exec"
	"path/filepath"
	"sort"
	"strings"
	"sync"
	"time"

	"verif/harness/internal/ev"
	"verif/harness/internal/rn"
)

// ---------------------------------------------------------------- catalogue of checks

type checkInfo struct {
	Name       string
	NonDefault bool
}

var (
	catOnce   sync.Once
	catalogue []checkInfo
	catByFold map[string]checkInfo
)

func loadCatalogue() {
	catOnce.Do(func() {
		catByFold = map[string]checkInfo{}
		for _, a := range rn.Lint(false) {
			ci := checkInfo{a.Analyzer.Name, a.Doc.NonDefault}
			catalogue = append(catalogue, ci)
			catByFold[strings.ToLower(ci.Name)] = ci
			if ci.NonDefault {
				nonDefaultIDs = append(nonDefaultIDs, ci.Name)
			}
		}
		sort.Strings(nonDefaultIDs)
	})
}

// enabledSet evaluates a -checks / checks= list per the documentation of the
// "checks" option: "all", "inherit" (here: the default set), full ids, and a
// leading minus to disable. Only these forms are generated.
func enabledSet(checks string) map[string]bool {
	loadCatalogue()
	en := map[string]bool{}
	def := func() {
		for _, c := range catalogue {
			en[c.Name] = !c.NonDefault
		}
	}
	if checks == "" {
		def()
		return en
	}
	for _, it := range strings.Split(checks, ",") {
		on := true
		if strings.HasPrefix(it, "-") {
			on = false
			it = it[1:]
		}
		switch it {
		case "all":
			for _, c := range catalogue {
				en[c.Name] = on
			}
		case "inherit":
			def()
		default:
			if ci, ok := catByFold[strings.ToLower(it)]; ok {
				en[ci.Name] = on
			}
		}
	}
	return en
}

// globFold is the oracle's own matcher for the names it generates: "*" any
// run of characters, "?" one character, everything else literal, ASCII case
// folded.
func globFold(pat, s string) bool {
	return glob(strings.ToLower(pat), strings.ToLower(s))
}

func glob(p, s string) bool {
	if p == "" {
		return s == ""
	}
	switch p[0] {
	case '*':
		for i := 0; i <= len(s); i++ {
			if glob(p[1:], s[i:]) {
				return true
			}
		}
		return false
	case '?':
		return s != "" && glob(p[1:], s[1:])
	default:
		return s != "" && p[0] == s[0] && glob(p[1:], s[1:])
	}
}

func isGlob(name string) bool { return strings.ContainsAny(name, "*?") }

// ---------------------------------------------------------------- running staticcheck

type Prob struct {
	Pkg  string
	File string
	Line int
	Col  int
	Code string
	Sev  string
	Msg  string
}

func (p Prob) key(withSev bool) string {
	s := fmt.Sprintf("%s:%d:%d %s %q", p.File, p.Line, p.Col, p.Code, p.Msg)
	if withSev {
		s += " [" + p.Sev + "]"
	}
	return s
}

var lineDirectivePositions int // positions mapped back from //line coordinates (evidence)

type runResult struct {
	byPkg  map[string][]Prob
	exit   int
	stderr string
	stdout string
}

func staticcheck(dir, cache string, args ...string) (*runResult, error) {
	cmd := exec.Command(filepath.Join(ev.BinDir(), "staticcheck"), args...)
	cmd.Dir = dir
	cmd.Env = append(os.Environ(), "STATICCHECK_CACHE="+cache, "GOFLAGS=-mod=mod", "GOPROXY=off", "GOWORK=off", "GOMAXPROCS=4")
	var o, e bytes.Buffer
	cmd.Stdout, cmd.Stderr = &o, &e
	err := cmd.Run()
	res := &runResult{byPkg: map[string][]Prob{}, stderr: e.String(), stdout: o.String()}
	if err != nil {
		ee, ok := err.(*exec.ExitError)
		if !ok {
			return nil, fmt.Errorf("staticcheck did not start: %v", err)
		}
		res.exit = ee.ExitCode()
	}
	if res.exit != 0 && res.exit != 1 {
		return res, fmt.Errorf("staticcheck %v: exit status %d\n%s", args, res.exit, res.stderr)
	}
	real, err := filepath.EvalSymlinks(dir)
	if err != nil {
		real = dir
	}
	for _, ln := range strings.Split(o.String(), "\n") {
		if strings.TrimSpace(ln) == "" {
			continue
		}
		var j struct {
			Code     string `json:"code"`
			Severity string `json:"severity"`
			Location struct {
				File   string `json:"file"`
				Line   int    `json:"line"`
				Column int    `json:"column"`
			} `json:"location"`
			Message string `json:"message"`
		}
		if err := json.Unmarshal([]byte(ln), &j); err != nil {
			return res, fmt.Errorf("staticcheck %v: output line is not JSON: %q", args, ln)
		}
		rel, err := filepath.Rel(real, j.Location.File)
		if err != nil || strings.HasPrefix(rel, "..") {
			rel, err = filepath.Rel(dir, j.Location.File)
			if err != nil {
				rel = j.Location.File
			}
		}
		pkg, file := filepath.Split(rel)
		pkg = strings.TrimSuffix(pkg, "/")
		if phys, ok := strings.CutPrefix(file, "zzline_"); ok {
			// a generated file that starts with "//line zzline_<name>:N": back to physical coordinates
			b, err := os.ReadFile(filepath.Join(dir, pkg, phys))
			if err != nil {
				return res, fmt.Errorf("position in %s but %s cannot be read: %v", file, phys, err)
			}
			found := false
			for q, l := range strings.Split(string(b), "\n") {
				var n int
				if _, err := fmt.Sscanf(l, "//line zzline_"+phys+":%d", &n); err == nil {
					j.Location.Line = q + 2 + (j.Location.Line - n)
					found = true
					break
				}
			}
			if !found {
				return res, fmt.Errorf("position in %s but %s has no //line comment", file, phys)
			}
			file = phys
			lineDirectivePositions++
		}
		res.byPkg[pkg] = append(res.byPkg[pkg], Prob{pkg, file, j.Location.Line, j.Location.Column, j.Code, j.Severity, j.Message})
	}
	return res, nil
}

// ---------------------------------------------------------------- attachment (standard library only)

type attach struct {
	found    bool // a comment starting with //lint: exists in the variant file
	nodeLine int
	nodeKind string
	dirLine  int
	dirCol   int
}

// locate parses the variant source and computes, with go/ast.NewCommentMap,
// the node the directive comment is associated with.
func locate(src string) (attach, error) {
	fset := token.NewFileSet()
	f, err := parser.ParseFile(fset, "v.go", src, parser.ParseComments)
	if err != nil {
		return attach{}, err
	}
	cm := ast.NewCommentMap(fset, f, f.Comments)
	var res attach
	n := 0
	for node, groups := range cm {
		for _, g := range groups {
			for _, c := range g.List {
				if !strings.HasPrefix(c.Text, "//lint:") {
					continue
				}
				n++
				p := fset.PositionFor(c.Pos(), false)
				res = attach{found: true, nodeLine: fset.PositionFor(node.Pos(), false).Line, nodeKind: fmt.Sprintf("%T", node), dirLine: p.Line, dirCol: p.Column}
			}
		}
	}
	if n > 1 {
		return res, fmt.Errorf("%d directive comments in the variant", n)
	}
	return res, nil
}

// ---------------------------------------------------------------- evaluation

const (
	sigGlobNeverFlagged = "glob-directive-never-flagged"     // F9
	sigU1000Order       = "u1000-before-enabled-check-hides" // order dependence in couldHaveMatched
	sigReasonlessU1000  = "reasonless-u1000-still-suppresses"
)

type variantResult struct {
	idx        int
	msg        string // "" = property holds
	knownSig   string // a known finding hit (assertion replaced by a count)
	nontrivial bool
	classes    []string
}

func multiset(ps []Prob, withSev bool) []string {
	var out []string
	for _, p := range ps {
		out = append(out, p.key(withSev))
	}
	sort.Strings(out)
	return out
}

func diffSets(want, got []string) (missing, extra []string) {
	cnt := map[string]int{}
	for _, w := range want {
		cnt[w]++
	}
	for _, g := range got {
		if cnt[g] > 0 {
			cnt[g]--
		} else {
			extra = append(extra, g)
		}
	}
	for _, w := range want {
		if cnt[w] > 0 {
			cnt[w]--
			missing = append(missing, w)
		}
	}
	return
}

func special(code string) bool { return code == "U1000" || code == "compile" || code == "staticcheck" }

func writeModule(c *Case, dir string) error {
	if err := os.WriteFile(filepath.Join(dir, "go.mod"), []byte("module m\n\ngo 1.26.0\n"), 0o644); err != nil {
		return err
	}
	if c.Checks != "" && c.ChecksVia == "conf" {
		var items []string
		for _, it := range strings.Split(c.Checks, ",") {
			items = append(items, fmt.Sprintf("%q", it))
		}
		if err := os.WriteFile(filepath.Join(dir, "staticcheck.conf"), []byte("checks = ["+strings.Join(items, ", ")+"]\n"), 0o644); err != nil {
			return err
		}
	}
	for i := -1; i < len(c.Variants); i++ {
		name := "p0"
		var d *Directive
		if i >= 0 {
			name = fmt.Sprintf("v%d", i)
			d = &c.Variants[i]
		}
		if err := os.MkdirAll(filepath.Join(dir, name), 0o755); err != nil {
			return err
		}
		for _, f := range c.Files {
			src := f.Src
			if d != nil {
				src = d.apply(f.Name, src)
			}
			if err := os.WriteFile(filepath.Join(dir, name, f.Name), []byte(src), 0o644); err != nil {
				return err
			}
		}
	}
	return nil
}

func (c *Case) args(showIgnored bool) []string {
	a := []string{"-f", "json"}
	if showIgnored {
		a = append(a, "-show-ignored")
	}
	if c.Checks != "" && c.ChecksVia != "conf" {
		a = append(a, "-checks", c.Checks)
	}
	return append(a, "./...")
}

// quality describes the baseline of a case.
type quality struct {
	problems, checks, lines int
	twoChecksOneLine        bool
}

// evaluateQ runs the two staticcheck invocations and judges every variant.
// genInvalid: the base package is not usable (it does not compile).
func evaluateQ(c *Case, cache string) (results []variantResult, q quality, genInvalid string, infra string) {
	loadCatalogue()
	dir, err := os.MkdirTemp("", "c10-")
	if err != nil {
		return nil, q, "", err.Error()
	}
	defer os.RemoveAll(dir)
	if err := writeModule(c, dir); err != nil {
		return nil, q, "", err.Error()
	}
	t0 := time.Now()
	runA, err := staticcheck(dir, cache, c.args(true)...)
	if err != nil {
		return nil, q, "", err.Error()
	}
	t1 := time.Now()
	runB, err := staticcheck(dir, cache, c.args(false)...)
	if err != nil {
		return nil, q, "", err.Error()
	}
	ev.Count("staticcheck_runs", 2)
	ev.Count("positions_mapped_back_from_line_directive_coordinates", lineDirectivePositions)
	lineDirectivePositions = 0
	ev.Count("ms_in_runs_with_show_ignored", int(t1.Sub(t0).Milliseconds()))
	ev.Count("ms_in_runs_without_show_ignored", int(time.Since(t1).Milliseconds()))
	r0 := runA.byPkg["p0"]
	for _, p := range r0 {
		if p.Code == "compile" || p.Code == "staticcheck" || p.Code == "config" {
			return nil, q, fmt.Sprintf("base package has a %s problem: %s", p.Code, p.key(false)), ""
		}
		if p.Sev == "ignored" {
			return nil, q, "base package has ignored problems", ""
		}
	}
	if a, b := multiset(r0, false), multiset(runB.byPkg["p0"], false); strings.Join(a, "\n") != strings.Join(b, "\n") {
		return nil, q, "", fmt.Sprintf("base package differs between the run with and without -show-ignored:\n%v\n%v", a, b)
	}
	enabled := enabledSet(c.Checks)
	{
		codes, lines := map[string]bool{}, map[string]map[string]bool{}
		for _, p := range r0 {
			codes[p.Code] = true
			k := fmt.Sprintf("%s:%d", p.File, p.Line)
			if lines[k] == nil {
				lines[k] = map[string]bool{}
			}
			lines[k][p.Code] = true
			if len(lines[k]) > 1 {
				q.twoChecksOneLine = true
			}
		}
		q.problems, q.checks, q.lines = len(r0), len(codes), len(lines)
	}

	srcOf := map[string]string{}
	for _, f := range c.Files {
		srcOf[f.Name] = f.Src
	}

	for i := range c.Variants {
		d := &c.Variants[i]
		pkg := fmt.Sprintf("v%d", i)
		vr := variantResult{idx: i}
		var sb strings.Builder
		fail := func(format string, a ...any) { fmt.Fprintf(&sb, format+"\n", a...) }
		cls := func(s string) { vr.classes = append(vr.classes, s) }

		gotA, gotB := runA.byPkg[pkg], runB.byPkg[pkg]

		if d.Kind == "" {
			// control: an unchanged copy reports exactly the baseline
			cls("control_copy")
			for _, run := range []struct {
				name string
				got  []Prob
			}{{"with -show-ignored", gotA}, {"without -show-ignored", gotB}} {
				if miss, extra := diffSets(multiset(r0, true), multiset(run.got, true)); len(miss)+len(extra) > 0 {
					fail("unchanged copy of the package, %s: missing %v, extra %v", run.name, miss, extra)
				}
			}
			vr.msg = sb.String()
			results = append(results, vr)
			continue
		}

		at, err := locate(d.apply(d.File, srcOf[d.File]))
		if err != nil {
			return nil, q, "variant does not parse: " + err.Error(), ""
		}
		shift := func(p Prob) Prob {
			if p.File == d.File && !d.Trailing && p.Line >= d.Line {
				p.Line++
			}
			p.Pkg = pkg
			return p
		}
		var base []Prob // shift(R0)
		for _, p := range r0 {
			base = append(base, shift(p))
		}
		fileIgnore := d.Kind == "file-ignore"
		cls("kind_" + d.Kind)
		cls("pl_" + d.Place)
		for _, k := range distinct(d.ListKind) {
			cls("ls_" + k)
		}
		if len(d.Names) > 1 {
			cls("ls_comma_list")
		}
		cls("checks_" + checksClass(c))

		if !at.found {
			// the text was swallowed by an existing comment: not a directive, nothing may change
			cls("swallowed_by_existing_comment")
			for _, run := range []struct {
				name string
				got  []Prob
			}{{"with -show-ignored", gotA}, {"without -show-ignored", gotB}} {
				if miss, extra := diffSets(multiset(base, true), multiset(run.got, true)); len(miss)+len(extra) > 0 {
					fail("%s: text appended to an existing comment is not a directive, yet the report changed: missing %v, extra %v", run.name, miss, extra)
				}
			}
			vr.msg = sb.String()
			results = append(results, vr)
			continue
		}
		cls("node_" + strings.TrimPrefix(at.nodeKind, "*ast."))
		hasReason := d.Reason != ""
		names := d.Names

		inScope := func(p Prob) bool {
			return p.File == d.File && (fileIgnore || p.Line == at.nodeLine)
		}
		matches := func(code string) bool {
			for _, n := range names {
				if globFold(n, code) {
					return true
				}
			}
			return false
		}
		// ---- clause (i): predicted suppressed set
		isS := func(p Prob) bool {
			return hasReason && !special(p.Code) && inScope(p) && matches(p.Code)
		}
		var wantA, wantB []Prob
		nS := 0
		survivorSameLine, survivorAdjacent, survivorFile, survivorTwin := false, false, false, false
		for _, p := range base {
			if special(p.Code) {
				continue
			}
			if isS(p) {
				nS++
				q := p
				q.Sev = "ignored"
				wantA = append(wantA, q)
				continue
			}
			wantA = append(wantA, p)
			wantB = append(wantB, p)
			if p.File == d.File {
				survivorFile = true
				if p.Line == at.nodeLine {
					survivorSameLine = true
				}
				if p.Line == at.nodeLine-1 || p.Line == at.nodeLine+1 {
					survivorAdjacent = true
				}
			} else if fileIgnore || p.Line == at.nodeLine {
				survivorTwin = true
			}
		}
		plain := func(ps []Prob) []Prob {
			var out []Prob
			for _, p := range ps {
				if !special(p.Code) {
					out = append(out, p)
				}
			}
			return out
		}
		if miss, extra := diffSets(multiset(wantA, true), multiset(plain(gotA), true)); len(miss)+len(extra) > 0 {
			fail("with -show-ignored: expected the shifted baseline with exactly %d problem(s) marked ignored; missing %v; unexpected %v", nS, miss, extra)
		}
		if miss, extra := diffSets(multiset(wantB, true), multiset(plain(gotB), true)); len(miss)+len(extra) > 0 {
			fail("without -show-ignored: expected the shifted baseline minus the %d suppressed problem(s); missing %v; unexpected %v", nS, miss, extra)
		}
		if nS > 0 {
			cls("cl_i_suppresses")
			if survivorSameLine {
				cls("survivor_other_check_same_line")
			}
			if survivorAdjacent {
				cls("survivor_adjacent_line")
			}
			if survivorTwin {
				cls("survivor_same_line_other_file")
			}
		} else if hasReason {
			cls("cl_i_suppresses_nothing")
		}
		if fileIgnore {
			vr.nontrivial = nS > 0 && (survivorFile || survivorTwin)
		} else {
			vr.nontrivial = nS > 0 && (survivorSameLine || survivorAdjacent)
		}

		// ---- U1000
		var u0, t0 []Prob
		for _, p := range base {
			if p.Code == "U1000" {
				u0 = append(u0, p)
				if inScope(p) {
					t0 = append(t0, p)
				}
			}
		}
		exactU := false
		for _, n := range names {
			if n == "U1000" {
				exactU = true
			}
		}
		matchU := matches("U1000")
		uChanged := false
		for _, run := range []struct {
			name string
			got  []Prob
		}{{"with -show-ignored", gotA}, {"without -show-ignored", gotB}} {
			var u1 []Prob
			for _, p := range run.got {
				if p.Code == "U1000" {
					u1 = append(u1, p)
				}
			}
			miss, extra := diffSets(multiset(u0, true), multiset(u1, true))
			if len(miss) > 0 {
				uChanged = true
			}
			if len(extra) > 0 {
				fail("%s: U1000 problems that the baseline does not have: %v", run.name, extra)
			}
			switch {
			case !hasReason:
				if len(miss) > 0 {
					if exactU && ev.IsKnown(sigReasonlessU1000) {
						vr.knownSig = sigReasonlessU1000
					} else {
						fail("%s: the directive has no reason (it is an error and must suppress nothing), yet these U1000 problems disappeared: %v", run.name, miss)
					}
				}
			case exactU:
				still := map[string]bool{}
				for _, p := range u1 {
					still[p.key(false)] = true
				}
				for _, p := range t0 {
					if still[p.key(false)] {
						fail("%s: %s names U1000 and is attached to line %d, yet %s is still reported", run.name, d.Text(), at.nodeLine, p.key(false))
					}
				}
			case matchU:
				// only through case or glob: the statement sets U1000 aside; observed, not asserted
			default:
				if len(miss) > 0 {
					fail("%s: no name of the directive matches U1000, yet these U1000 problems disappeared: %v", run.name, miss)
				}
			}
			if run.name == "with -show-ignored" {
				switch {
				case !hasReason:
				case exactU && len(t0) > 0:
					cls("cl_iv_u1000_exact_on_unused_object")
					if len(miss) > len(t0) {
						cls("u1000_exact_also_frees_reachable_objects")
					}
				case exactU:
					cls("u1000_exact_no_unused_object_in_scope")
				case matchU && len(t0) > 0 && len(miss) > 0:
					cls("u1000_by_case_or_glob_suppressed(observed)")
				case matchU && len(t0) > 0:
					cls("u1000_by_case_or_glob_not_suppressed(observed)")
				}
			}
		}

		// ---- clause (ii): directive without a reason
		countCode := func(ps []Prob, code string) (n int, list []Prob) {
			for _, p := range ps {
				if p.Code == code {
					n++
					list = append(list, p)
				}
			}
			return
		}
		for _, run := range []struct {
			name string
			got  []Prob
		}{{"with -show-ignored", gotA}, {"without -show-ignored", gotB}} {
			n, list := countCode(run.got, "compile")
			if !hasReason {
				ok := n == 1 && list[0].File == d.File && strings.Contains(list[0].Msg, "malformed linter directive") && list[0].Sev == "error"
				if !ok {
					fail("%s: a directive without a reason must add exactly one error problem about the malformed directive in %s; got %v", run.name, d.File, multiset(list, true))
				}
			} else if n != 0 {
				fail("%s: unexpected compile problems %v", run.name, multiset(list, true))
			}
		}
		if !hasReason {
			cls("cl_ii_no_reason")
			if _, list := countCode(gotA, "compile"); len(list) == 1 {
				if list[0].Line == at.nodeLine {
					cls("no_reason_error_at_node_line(observed)")
				} else if list[0].Line == at.dirLine {
					cls("no_reason_error_at_directive_line(observed)")
				}
			}
			if runB.exit != 1 {
				fail("the run exits %d although a directive has no reason", runB.exit)
			}
		}

		// ---- clause (iii): useless line directives
		nameClass := func(n string) string {
			if strings.ToLower(n) == "u1000" {
				return "u1000"
			}
			if !isGlob(n) {
				ci, ok := catByFold[strings.ToLower(n)]
				if !ok {
					return "unknown"
				}
				if enabled[ci.Name] {
					return "enabled"
				}
				return "disabled"
			}
			any, anyEnabled, onlyU := false, false, true
			for _, ci := range catalogue {
				if globFold(n, ci.Name) {
					any = true
					if ci.Name != "U1000" {
						onlyU = false
						if enabled[ci.Name] {
							anyEnabled = true
						}
					}
				}
			}
			switch {
			case !any:
				return "unknown"
			case anyEnabled:
				return "enabled_glob"
			case onlyU:
				return "u1000"
			default:
				return "disabled"
			}
		}
		var nEnabled, nEnabledGlob, nUnknown, nU int
		for _, n := range names {
			switch nameClass(n) {
			case "enabled":
				nEnabled++
			case "enabled_glob":
				nEnabledGlob++
			case "unknown":
				nUnknown++
			case "u1000":
				nU++
			}
		}
		const unmatchedMsg = "this linter directive didn't match anything; should it be removed?"
		for _, run := range []struct {
			name string
			got  []Prob
		}{{"with -show-ignored", gotA}, {"without -show-ignored", gotB}} {
			n, list := countCode(run.got, "staticcheck")
			first := run.name == "with -show-ignored"
			switch {
			case fileIgnore || !hasReason || nS > 0:
				if first {
					cls("cl_iii_must_be_silent")
				}
				if n != 0 {
					why := "it suppresses problems"
					if fileIgnore {
						why = "file-based directives are never flagged"
					} else if !hasReason {
						why = "it is malformed and reported as such"
					}
					fail("%s: %s is reported as %v although %s", run.name, d.Text(), multiset(list, false), why)
				}
			case uChanged:
				// a line directive whose only effect is on U1000: the statement does not say; observed
				if first {
					if n == 0 {
						cls("cl_iii_only_u1000_effect_not_flagged(observed)")
					} else {
						cls("cl_iii_only_u1000_effect_flagged(observed)")
					}
				}
			case nUnknown > 0:
				if first {
					cls("cl_iii_unknown_name_unasserted")
				}
			case nEnabled+nEnabledGlob > 0:
				if first {
					cls("cl_iii_must_be_flagged")
				}
				ok := n == 1 && list[0].Msg == unmatchedMsg && list[0].File == d.File && list[0].Line == at.dirLine
				if !ok {
					sig := ""
					switch {
					case n != 0:
					case nU > 0:
						sig = sigU1000Order
					case nEnabled == 0:
						sig = sigGlobNeverFlagged
					}
					if sig != "" && ev.IsKnown(sig) {
						vr.knownSig = sig
					} else {
						fail("%s: %s suppresses nothing and names an enabled check, so it must be reported once as %q at %s:%d; got %v", run.name, d.Text(), unmatchedMsg, d.File, at.dirLine, multiset(list, false))
					}
				} else if first && list[0].Col == at.dirCol {
					cls("unmatched_reported_at_directive_column(observed)")
				}
			default:
				if first {
					cls("cl_iii_only_disabled_or_u1000_must_be_silent")
				}
				if n != 0 {
					fail("%s: %s only names disabled checks or U1000 and must not be reported; got %v", run.name, d.Text(), multiset(list, false))
				}
			}
		}
		if vr.knownSig != "" {
			cls("known_" + vr.knownSig)
		}
		if sb.Len() > 0 {
			vr.msg = fmt.Sprintf("variant %d: %s inserted in %s (%s line %d, place %s), attached by go/ast.NewCommentMap to a %s at line %d; -checks %q via %s\n%s",
				i, d.Text(), d.File, map[bool]string{true: "at the end of", false: "before"}[d.Trailing], d.Line, d.Place, at.nodeKind, at.nodeLine, c.Checks, c.ChecksVia, sb.String())
		}
		results = append(results, vr)
	}
	return results, q, "", ""
}

func checksClass(c *Case) string {
	s := ""
	switch {
	case c.Checks == "":
		return "default"
	case c.Checks == "all":
		s = "all"
	case strings.HasPrefix(c.Checks, "all,-"):
		s = "all_minus_one"
	case strings.HasPrefix(c.Checks, "inherit,-"):
		s = "inherit_minus_one"
	default:
		s = "positive_list"
	}
	return s + "_via_" + c.ChecksVia
}
