// Package c10 checks property C10: linter directives (//lint:ignore,
// //lint:file-ignore) suppress exactly the problems they name on the code
// they are attached to, and useless or malformed directives are reported.
package c10

import (
	"encoding/json"
	"fmt"
	"os"
	"path/filepath"
	"sort"
	"strings"
	"sync"
	"testing"
	"time"

	"pgregory.net/rapid"
	"verif/harness/internal/ev"
)

func TestMain(m *testing.M) { ev.Main(m) }

const rule = "case = a generated package of two files (7-11 resp. 2-5 snippets out of 35 templates with robust triggers of SA4000, SA4006, SA4003, SA4013, SA4018, SA5009, SA1019, SA9003*, S1002, S1003, S1005, S1009, S1021, S1023, S1025, S1028, S1039, ST1003*, ST1005, ST1006, ST1012, ST1017, ST1023*, U1000 (funcs, vars, consts, types, fields), two checks on one line; * = non-default; the second file is a renamed copy with identical line numbers in 40% of the cases) plus N variants, each a copy of the package with ONE inserted directive: kind ignore|file-ignore; placement own line above a statement / first line of a block / above case / above else / above a declaration, its doc comment, a spec, a struct field / above a multi-line statement whose problem is on a later line / inside a multi-line statement / trailing comment of the previous line or of the statement itself / above the package clause / top, end, after imports / any line; names 1-3 of {exact id, other case, *, category glob, ? glob, check without a problem there, disabled check, U1000, u1000, U*, glob of another category, nonexistent}; with or without reason; check selection default | all | all,-X | inherit,-X | positive list, by flag or staticcheck.conf. All variants are packages of one module: one run with -show-ignored and one without give the baseline R0 (package p0) and every R1. Oracle: the attached node is computed with go/ast.NewCommentMap; S = problems of shift(R0) in the directive's file on the node's line (whole file for file-ignore) whose check matches a name as case-folded glob; R1 must be shift(R0) with exactly S ignored / absent. non-trivial = S non-empty while another problem on an adjacent line or of another check on the same line (file-ignore: in the same file or in the twin file) survives; distinct by (package, placement, name list)"

// ---------------------------------------------------------------- calibration (steering hints only)

type hint struct {
	Rel  int
	Code string
}

// calibrate runs staticcheck once on a package holding every snippet and
// records which checks fire on which snippet line. The result only steers the
// generator (where to put directives, which ids to name); verdicts never use it.
func calibrate(cache string) (map[int][]hint, error) {
	var idx []int
	for i := range snippets {
		idx = append(idx, i)
	}
	lines, snipAt, relAt := buildFile("A", 0, idx, "")
	dir, err := os.MkdirTemp("", "c10cal-")
	if err != nil {
		return nil, err
	}
	defer os.RemoveAll(dir)
	os.MkdirAll(filepath.Join(dir, "p0"), 0o755)
	os.WriteFile(filepath.Join(dir, "go.mod"), []byte("module m\n\ngo 1.26.0\n"), 0o644)
	os.WriteFile(filepath.Join(dir, "p0", "a.go"), []byte(strings.Join(lines, "\n")+"\n"), 0o644)
	res, err := staticcheck(dir, cache, "-f", "json", "-checks", "all", "./...")
	if err != nil {
		return nil, err
	}
	hints := map[int][]hint{}
	for _, p := range res.byPkg["p0"] {
		if p.Code == "compile" {
			return nil, fmt.Errorf("snippet library does not compile: %s", p.key(false))
		}
		if p.Line-1 < len(snipAt) && snipAt[p.Line-1] >= 0 {
			hints[snipAt[p.Line-1]] = append(hints[snipAt[p.Line-1]], hint{relAt[p.Line-1], p.Code})
		}
	}
	return hints, nil
}

// ---------------------------------------------------------------- staticcheck cache
//
// Analysing the standard-library dependencies of the generated packages costs
// 10-20 s of CPU with a cold cache. The cache is not under test here, so the
// shards of one invocation share one cache directory below VERIF_OUT (owned
// and removed by the driver); the first shard to arrive warms it with the
// calibration run while the others wait.

var (
	cacheOnce sync.Once
	cacheDir  string
	cacheHint map[int][]hint
	cacheErr  error
)

func sharedCache() (string, map[int][]hint, error) {
	cacheOnce.Do(func() {
		if os.Getenv("VERIF_OUT") == "" || ev.NShards() == 1 {
			// stand-alone: a private cache below TMPDIR; the calibration run warms it
			cacheDir, cacheErr = os.MkdirTemp("", "c10cache-")
			if cacheErr == nil {
				cacheHint, cacheErr = calibrate(cacheDir)
			}
			return
		}
		cacheDir = filepath.Join(ev.OutDir(), "c10-cache")
		os.MkdirAll(cacheDir, 0o755)
		lock, warm := cacheDir+".lock", cacheDir+".warm"
		if err := os.Mkdir(lock, 0o755); err == nil {
			cacheHint, cacheErr = calibrate(cacheDir)
			os.WriteFile(warm, []byte("ok"), 0o644)
			return
		}
		for i := 0; i < 600; i++ {
			if _, err := os.Stat(warm); err == nil {
				break
			}
			time.Sleep(250 * time.Millisecond)
		}
		cacheHint, cacheErr = calibrate(cacheDir)
	})
	return cacheDir, cacheHint, cacheErr
}

func dropPrivateCache() {
	if cacheDir != "" && (os.Getenv("VERIF_OUT") == "" || ev.NShards() == 1) {
		os.RemoveAll(cacheDir)
	}
}

// ---------------------------------------------------------------- the property

func judge(results []variantResult, c *Case) (msg string, failing []int) {
	var sb strings.Builder
	for _, r := range results {
		if r.msg != "" {
			sb.WriteString(r.msg)
			failing = append(failing, r.idx)
		}
	}
	return sb.String(), failing
}

func record(c *Case, results []variantResult) {
	var files []string
	for _, f := range c.Files {
		files = append(files, f.Src)
	}
	ph := ev.Hash(files...)
	for _, r := range results {
		d := &c.Variants[r.idx]
		h := ev.Hash(ph, c.Checks, c.ChecksVia, d.File, fmt.Sprint(d.Line, d.Trailing), d.Kind, strings.Join(d.Names, ","), fmt.Sprint(d.Reason != ""))
		ev.Case(h, r.nontrivial, r.classes...)
		if r.knownSig != "" {
			ev.KnownFinding(r.knownSig, "")
		}
	}
}

// reduce keeps the control copy and one variant.
func reduce(c *Case, idx int) *Case {
	r := *c
	r.Variants = []Directive{c.Variants[idx]}
	return &r
}

func TestIgnore(t *testing.T) {
	ev.Rule(rule)
	ev.Assume("go/ast.NewCommentMap (standard library) is the documented attachment rule for comments; the oracle uses it to find the node a directive is attached to")
	ev.Assume("the names and non-default flags of the registered analyzers (simple, staticcheck, stylecheck, unused) are read from the analyzer tables; enabled sets are evaluated per the documentation of the checks option for the generated forms all | inherit | id | -id")
	ev.Assume("an inserted //lint: comment does not change what the checks themselves find (the templates avoid the comment-sensitive checks S1008, ST1000, ST1020-ST1022); verified per case by the control copy and the exact comparison of all other problems")
	ev.Assume("the result cache of staticcheck is not under test: all shards of an invocation share one STATICCHECK_CACHE directory below VERIF_OUT, warmed once by the calibration run")
	ev.Assume("U1000: asserted only for the exact name U1000 (problems of unused objects on the attached line disappear, no new ones appear) and for directives none of whose names can match U1000 (unchanged); names matching U1000 only by case or glob are counted, not judged (the statement sets U1000 aside)")
	loadCatalogue()
	cache, hints, err := sharedCache()
	if err != nil {
		ev.Infra("calibration failed: %v", err)
		t.Fatalf("calibration failed: %v", err)
	}
	var hinted []string
	for i, s := range snippets {
		var cs []string
		for _, h := range hints[i] {
			cs = append(cs, h.Code)
		}
		hinted = append(hinted, s.Name+"="+strings.Join(distinct(cs), "+"))
		if len(cs) == 0 {
			ev.Count("snippet_without_problem_"+s.Name, 1)
		}
	}
	ev.Extra("snippet_hints", strings.Join(hinted, " "))
	nvar := ev.EnvInt("C10_VARIANTS", 12, 40)
	ev.Check(t, "TestIgnore", func(rt *rapid.T) {
		c, err := genCase(rt, hints, nvar)
		if err != nil {
			ev.Count("gen_invalid", 1)
			rt.Skip(err.Error())
		}
		js, _ := json.Marshal(c)
		ev.Begin("TestIgnore", "json", js)
		results, q, invalid, infra := evaluateQ(c, cache)
		if infra != "" {
			ev.Infra("%s", infra)
			rt.Skip(infra)
		}
		if invalid != "" {
			ev.Count("gen_invalid", 1)
			rt.Skip(invalid)
		}
		if q.problems < 8 || q.checks < 5 {
			ev.Count("base_package_below_8_problems_or_5_checks", 1)
		}
		ev.Count("base_packages", 1)
		if q.twoChecksOneLine {
			ev.Count("base_packages_with_two_checks_on_one_line", 1)
		}
		record(c, results)
		msg, failing := judge(results, c)
		if msg == "" {
			if ev.WantSample() {
				for _, r := range results {
					if r.nontrivial {
						d := c.Variants[r.idx]
						ev.Sample(map[string]any{"directive": d.Text(), "file": d.File, "line": d.Line, "trailing": d.Trailing, "place": d.Place, "checks": c.Checks, "classes": r.classes})
						break
					}
				}
			}
			return
		}
		// shrink the replay to the first failing variant when it fails on its own
		vi := failing[0]
		small := reduce(c, vi)
		if res2, _, inv2, infra2 := evaluateQ(small, cache); inv2 == "" && infra2 == "" {
			if m2, _ := judge(res2, small); m2 != "" {
				js2, _ := json.Marshal(small)
				ev.Begin("TestIgnore", "json", js2)
				msg = m2
				c, vi = small, 0
			}
		}
		ev.Failf(rt, "TestIgnore", "%s\nfile %s of the variant:\n%s", msg, c.Variants[vi].File, numbered(c, vi))
	})
}

func numbered(c *Case, vi int) string {
	d := &c.Variants[vi]
	for _, f := range c.Files {
		if f.Name == d.File {
			var sb strings.Builder
			for i, l := range strings.Split(d.apply(f.Name, f.Src), "\n") {
				fmt.Fprintf(&sb, "%4d  %s\n", i+1, l)
			}
			return sb.String()
		}
	}
	return ""
}

// ---------------------------------------------------------------- exit status

// ExitCase: a package whose only problem sits on one line, with a directive
// above it. With a reason the run must be silent and exit 0; without, the
// problem stays, one error is added and the run exits 1.
type ExitCase struct {
	Trigger string `json:"trigger"` // a statement line with exactly one problem
	Names   string `json:"names"`
	Kind    string `json:"kind"`
}

var exitTriggers = []struct{ line, code string }{
	{"\tif x == x {", "SA4000"},
	{"\tif b == true {", "S1002"},
	{"\tif b == true && x == x {", "S1002,SA4000"},
}

func (e *ExitCase) src(reason string) string {
	dir := "//lint:" + e.Kind + " " + e.Names
	if reason != "" {
		dir += " " + reason
	}
	return "// Package p is a generated test package.\npackage p\n\n// F is a function.\nfunc F(x int, b bool) int {\n\t" + dir + "\n" + e.Trigger + "\n\t\treturn 1\n\t}\n\treturn 0\n}\n"
}

func evalExit(e *ExitCase, cache string) (msg, infra string) {
	dir, err := os.MkdirTemp("", "c10x-")
	if err != nil {
		return "", err.Error()
	}
	defer os.RemoveAll(dir)
	os.WriteFile(filepath.Join(dir, "go.mod"), []byte("module m\n\ngo 1.26.0\n"), 0o644)
	plain := strings.Replace(e.src("reason"), "//lint:", "// not a directive: ", 1)
	for name, src := range map[string]string{"ok": e.src("reason"), "bad": e.src(""), "plain": plain} {
		os.MkdirAll(filepath.Join(dir, name), 0o755)
		os.WriteFile(filepath.Join(dir, name, "a.go"), []byte(src), 0o644)
	}
	var sb strings.Builder
	okRun, err := staticcheck(dir, cache, "-f", "json", "./ok")
	if err != nil {
		return "", err.Error()
	}
	if okRun.exit != 0 || len(okRun.byPkg["ok"]) != 0 {
		fmt.Fprintf(&sb, "package whose only problems are suppressed by %q (with a reason): exit status %d, output %v; expected exit 0 and no output\n", "//lint:"+e.Kind+" "+e.Names, okRun.exit, multiset(okRun.byPkg["ok"], true))
	}
	// the same package without the reason, and with the directive turned into a plain comment (the problems it would suppress)
	badRun, err := staticcheck(dir, cache, "-f", "json", "./bad", "./plain")
	if err != nil {
		return "", err.Error()
	}
	want := multiset(badRun.byPkg["plain"], true)
	if len(want) == 0 {
		return "", "exit-status trigger produced no problem: " + e.Trigger
	}
	var got []string
	ncompile := 0
	for _, p := range badRun.byPkg["bad"] {
		if p.Code == "compile" && strings.Contains(p.Msg, "malformed linter directive") && p.Sev == "error" {
			ncompile++
			continue
		}
		got = append(got, p.key(true))
	}
	sort.Strings(got)
	if badRun.exit != 1 || ncompile != 1 || strings.Join(want, "\n") != strings.Join(got, "\n") {
		fmt.Fprintf(&sb, "same package with the reason removed: exit status %d, %d malformed-directive error(s), other problems %v; expected exit 1, one error and the unsuppressed problems %v\n", badRun.exit, ncompile, got, want)
	}
	ev.Count("staticcheck_runs", 2)
	return sb.String(), ""
}

func TestReasonAndExitStatus(t *testing.T) {
	if ev.Shard()%4 != 0 {
		return // a side property: a quarter of the shards is enough
	}
	cache, _, err := sharedCache()
	if err != nil {
		ev.Infra("calibration failed: %v", err)
		t.Fatalf("calibration failed: %v", err)
	}
	ev.Check(t, "TestReasonAndExitStatus", func(rt *rapid.T) {
		tr := pick(rt, "trigger", exitTriggers)
		e := &ExitCase{Trigger: tr.line, Kind: pick(rt, "kind", []string{"ignore", "file-ignore"})}
		ids := strings.Split(tr.code, ",")
		switch rng(rt, "names", 0, 4) {
		case 0:
			e.Names = tr.code
		case 1:
			e.Names = strings.ToLower(tr.code)
		case 2:
			e.Names = "*"
		case 3:
			var gs []string
			for _, id := range ids {
				gs = append(gs, id[:len(id)-1]+"?")
			}
			e.Names = strings.Join(gs, ",")
		default:
			var gs []string
			for _, id := range ids {
				gs = append(gs, catPrefix(id)+"*")
			}
			e.Names = strings.Join(gs, ",")
		}
		js, _ := json.Marshal(e)
		ev.Begin("TestReasonAndExitStatus", "exit.json", js)
		msg, infra := evalExit(e, cache)
		if infra != "" {
			ev.Infra("%s", infra)
			rt.Skip(infra)
		}
		ev.Case(ev.Hash("exit", string(js)), true, "exit_status_case", "exit_kind_"+e.Kind)
		if msg != "" {
			ev.Failf(rt, "TestReasonAndExitStatus", "%s\nsource with reason:\n%s", msg, e.src("reason"))
		}
	})
}

// ---------------------------------------------------------------- corpus / replay

func replayFile(t *testing.T, f, test string) {
	b, err := os.ReadFile(f)
	if err != nil {
		ev.Infra("read %s: %v", f, err)
		return
	}
	cache, _, err := sharedCache()
	if err != nil {
		ev.Infra("calibration failed: %v", err)
		return
	}
	var msg string
	ext := "json"
	if strings.HasSuffix(f, ".exit.json") {
		ext = "exit.json"
		var e ExitCase
		if err := json.Unmarshal(b, &e); err != nil {
			ev.Infra("decode %s: %v", f, err)
			return
		}
		m, infra := evalExit(&e, cache)
		if infra != "" {
			ev.Infra("%s", infra)
			return
		}
		ev.Case(ev.Hash("exit", string(b)), true, "exit_status_case")
		msg = m
	} else if strings.HasSuffix(f, ".pairs.json") {
		ext = "pairs.json"
		var pc PairCase
		if err := json.Unmarshal(b, &pc); err != nil {
			ev.Infra("decode %s: %v", f, err)
			return
		}
		m, invalid, infra := evalPairs(&pc, cache)
		if infra != "" || invalid != "" {
			ev.Infra("replay %s: %s%s", f, infra, invalid)
			return
		}
		msg = m
	} else {
		var c Case
		if err := json.Unmarshal(b, &c); err != nil {
			ev.Infra("decode %s: %v", f, err)
			return
		}
		results, _, invalid, infra := evaluateQ(&c, cache)
		if infra != "" || invalid != "" {
			ev.Infra("replay %s: %s%s", f, infra, invalid)
			return
		}
		record(&c, results)
		msg, _ = judge(results, &c)
		for _, r := range results {
			if r.knownSig != "" {
				t.Logf("replay %s: KNOWN-FINDING %s (variant %d)", f, r.knownSig, r.idx)
			}
		}
	}
	if msg != "" {
		ev.Violate(test, fmt.Sprintf("replay of %s:\n%s", f, msg), ext, b)
		t.Errorf("%s", msg)
	} else {
		t.Logf("replay %s: property holds", f)
	}
}

func TestCorpus(t *testing.T) {
	if os.Getenv("VERIF_SECONDARY") != "" {
		return
	}
	files, _ := filepath.Glob(filepath.Join(os.Getenv("VERIF_ROOT"), "corpus", "C10", "*.json"))
	sort.Strings(files)
	for _, f := range files {
		replayFile(t, f, "TestCorpus")
	}
}

func TestReplay(t *testing.T) {
	if f := ev.ReplayFile(); f != "" {
		defer dropPrivateCache() // replay mode runs this test alone
		replayFile(t, f, "TestReplay")
	}
}

// TestDump writes the module of one generated case to $C10_DUMP (debugging aid; inert otherwise).
func TestDump(t *testing.T) {
	dir := os.Getenv("C10_DUMP")
	if dir == "" {
		return
	}
	_, hints, err := sharedCache()
	if err != nil {
		t.Fatal(err)
	}
	c := rapid.Custom(func(rt *rapid.T) *Case {
		c, err := genCase(rt, hints, ev.EnvInt("C10_VARIANTS", 12, 40))
		if err != nil {
			rt.Skip(err.Error())
		}
		return c
	}).Example(int(ev.Seed()))
	os.MkdirAll(dir, 0o755)
	if err := writeModule(c, dir); err != nil {
		t.Fatal(err)
	}
	js, _ := json.MarshalIndent(c, "", " ")
	os.WriteFile(filepath.Join(dir, "case.json"), js, 0o644)
	t.Logf("staticcheck %s", strings.Join(c.args(true), " "))
}

// TestZZCleanup runs last (tests run in source order) and removes the private
// cache of a stand-alone run.
func TestZZCleanup(t *testing.T) { dropPrivateCache() }
