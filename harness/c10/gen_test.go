package c10

import (
	"fmt"
	"go/ast"
	"go/parser"
	"go/token"
	"sort"
	"strings"

	"pgregory.net/rapid"
)

// ---------------------------------------------------------------- snippets
//
// A snippet is a group of top-level declarations. "@" is replaced by a unique
// id, "$" by the file prefix (the per-file impure helper is Gen$). Which
// problems a snippet produces is NOT written down here: the oracle takes the
// baseline from a real run, and the generator steers with hints measured by a
// calibration run (see calibrate).

type Snippet struct {
	Name string
	Src  string
}

var snippets = []Snippet{
	{"sa4000_if", `
func F@(x int) int {
	if x == x {
		return 1
	}
	return 0
}`},
	{"s1002_if", `
func F@(b bool) int {
	if b == true {
		return 1
	}
	return 0
}`},
	{"twin_line", `
func F@(x int, b bool) int {
	if b == true && x == x {
		return 1
	}
	return 0
}`},
	{"s1021", `
func F@(x int) int {
	var y int
	y = x * 2
	return y
}`},
	{"sa4006", `
func F@() int {
	v := Gen$()
	v = Gen$()
	return v
}`},
	{"st1005", `
// F@ returns an error.
func F@() error {
	return errors.New("Capitalised message @")
}`},
	{"sa1019", `
func F@(s string) string {
	return strings.Title(s)
}`},
	{"sa9003", `
func F@(x int) {
	if x > 0 {
	}
	fmt.Println(x)
}`},
	{"switch_tagless", `
func F@(x int, b bool) int {
	switch {
	case x == x:
		return 1
	case b == true:
		return 2
	default:
		return 0
	}
}`},
	{"switch_tag", `
func F@(x int) {
	switch x {
	case 1:
		fmt.Println(x == x)
	case 2:
		fmt.Println(
			"a",
			x != x,
		)
	}
}`},
	{"loops", `
func F@(xs []int) int {
	n := 0
	for _ = range xs {
		n++
	}
	for i := 0; i != i; i++ {
		n++
	}
	return n
}`},
	{"s1003", `
func F@(s string) bool {
	return strings.Index(s, "a") != -1
}`},
	{"printf", `
func F@(s string) string {
	fmt.Printf("%d\n")
	return fmt.Sprintf("%s", s)
}`},
	{"fields", `
// T@ is a record.
type T@ struct {
	f1 int
	// F2 is used.
	F2 int
	f3 string
}`},
	{"unused_funcs", `
func helper@() {}

func unused@() { helper@() }`},
	{"unused_values", `
var unusedVar@ = 3

const (
	unusedC1@ = 1
	unusedC2@ = 2
)`},
	{"unused_type", `
type t@ struct {
	n int
}

func (r t@) get() int { return r.n }`},
	{"closure", `
func F@(x int) func() bool {
	f := func() bool {
		if x == x {
			return true
		}
		return x != x
	}
	return f
}`},
	{"else_if", `
func F@(x int, b bool) int {
	if x > 3 {
		return 1
	} else if b == true {
		return 2
	} else if x == x {
		return 3
	}
	return 0
}`},
	{"composite", `
func F@(x int, b bool) []bool {
	return []bool{
		x == x,
		b == true,
		b != false,
	}
}`},
	{"yoda", `
func F@(x int) bool {
	if 1 == x {
		return true
	}
	return false || x > 7
}`},
	{"self_assign", `
func F@(x int) int {
	x = x
	return x
}`},
	{"redundant_return", `
func F@(x int) {
	fmt.Println(x)
	return
}`},
	{"s1009", `
func F@(xs []int) int {
	if xs != nil && len(xs) > 0 {
		return xs[0]
	}
	return 0
}`},
	{"sa4003", `
func F@(u uint) bool {
	return u >= 0
}`},
	{"sprintf_const", `
func F@(x int) (string, error) {
	s := fmt.Sprintf("abc")
	return s, errors.New(fmt.Sprintf("x %d", x))
}`},
	{"receiver", `
// R@ is a receiver.
type R@ struct{ N int }

// Get returns N.
func (self R@) Get() int { return self.N }`},
	{"underscore", `
// Under_score@ has a name with an underscore.
func Under_score@() int {
	my_var := 1
	return my_var + 1
}`},
	{"redundant_type", `
func F@() (int, bool) {
	var n int = 1
	var ok bool = true
	return n, ok
}`},
	{"receiver_names", `
// N@ is a number.
type N@ int

// One returns 1.
func (x N@) One() int { return 1 }

// Two returns 2.
func (y N@) Two() int { return 2 }`},
	{"not_not", `
func F@(b bool) bool {
	return !!b
}`},
	{"select_default", `
func F@(c chan int, x int) int {
	select {
	case v := <-c:
		return v
	default:
		if x == x {
			return 1
		}
	}
	return 0
}`},
	{"var_group", `
var (
	V@ = errors.New("Capital in var @")
	W@ = strings.Title("w")
)`},
	{"defer_go", `
func F@(x int) {
	defer fmt.Println(x == x)
	go fmt.Println(x != x)
}`},
	{"documented", `
// F@ does a thing.
// It has a doc comment of two lines.
func F@(x int, b bool) bool {
	// the comparison below is deliberate
	ok := b == true
	return ok && x == x // trailing note
}`},
}

func (s Snippet) lines(id, prefix string) []string {
	src := strings.TrimPrefix(s.Src, "\n")
	src = strings.ReplaceAll(src, "@", id)
	src = strings.ReplaceAll(src, "$", prefix)
	return strings.Split(src, "\n")
}

// header returns the lines before the first snippet.
func header(prefix string, doc int) []string {
	var ls []string
	switch doc {
	case 0:
		ls = append(ls, "// Package p is a generated test package.")
	}
	ls = append(ls, "package p", "",
		"import (", "\t\"errors\"", "\t\"fmt\"", "\t\"strings\"", ")", "",
		"var (", "\t_ = errors.New", "\t_ = fmt.Sprint", "\t_ = strings.ToUpper", ")", "",
		"// Gen"+prefix+" is an impure helper.",
		"func Gen"+prefix+"() int {", "\tfmt.Println()", "\treturn 0", "}")
	return ls
}

// buildFile assembles a file; snipAt[i] is the index of the snippet line i
// (1-based line i+1) belongs to, relAt[i] its line inside the snippet, -1 for
// header and separator lines.
func buildFile(prefix string, doc int, snips []int, lineDir string) (lines []string, snipAt, relAt []int) {
	add := func(l string, s, r int) {
		lines = append(lines, l)
		snipAt = append(snipAt, s)
		relAt = append(relAt, r)
	}
	if lineDir != "" {
		// the whole file is displayed under another name and numbering (as yacc output or the
		// analysed twin of a cgo file is); the oracle maps reported positions back (see staticcheck)
		add("//line "+lineDir+":1000", -1, -1)
		add("", -1, -1)
	}
	for _, l := range header(prefix, doc) {
		add(l, -1, -1)
	}
	for k, si := range snips {
		add("", -1, -1)
		for r, l := range snippets[si].lines(fmt.Sprintf("%s%d", prefix, k), prefix) {
			add(l, si, r)
		}
	}
	return
}

// ---------------------------------------------------------------- case

type FileSrc struct {
	Name string `json:"name"`
	Src  string `json:"src"`
}

type Directive struct {
	File     string   `json:"file"`
	Line     int      `json:"line"`     // own line: inserted before this 1-based line of the base file (n+1 = appended); trailing: appended to this line
	Trailing bool     `json:"trailing"` // comment at the end of an existing line
	Indent   string   `json:"indent"`
	Kind     string   `json:"kind"` // "ignore", "file-ignore", "" = unchanged copy (control)
	Names    []string `json:"names"`
	Reason   string   `json:"reason"` // "" = no reason
	Place    string   `json:"place"`  // generator's label of the placement (evidence only)
	ListKind []string `json:"listkind"`
}

func (d *Directive) Text() string {
	s := "//lint:" + d.Kind + " " + strings.Join(d.Names, ",")
	if d.Reason != "" {
		s += " " + d.Reason
	}
	return s
}

type Case struct {
	Files     []FileSrc   `json:"files"`
	Checks    string      `json:"checks"`     // "" = default
	ChecksVia string      `json:"checks_via"` // "flag" or "conf"
	Variants  []Directive `json:"variants"`
}

// apply returns the source of file name in the variant.
func (d *Directive) apply(name, src string) string {
	if d.Kind == "" || name != d.File {
		return src
	}
	lines := strings.Split(src, "\n")
	// a source ending in "\n" has an empty last element; line numbers refer to lines[0..]
	idx := d.Line - 1
	if d.Trailing {
		if idx < 0 || idx >= len(lines) {
			return src
		}
		lines[idx] = lines[idx] + " " + d.Text()
		return strings.Join(lines, "\n")
	}
	if idx < 0 {
		idx = 0
	}
	if idx > len(lines) {
		idx = len(lines)
	}
	out := append([]string{}, lines[:idx]...)
	out = append(out, d.Indent+d.Text())
	out = append(out, lines[idx:]...)
	return strings.Join(out, "\n")
}

// ---------------------------------------------------------------- placement candidates

type cand struct {
	Place    string
	Line     int
	Trailing bool
	FileOnly bool // sensible for file-ignore only in the sense of the docs ("near the top"); line ignores may use it too
}

func indentOf(lines []string, line int) string {
	if line < 1 || line > len(lines) {
		return ""
	}
	l := lines[line-1]
	return l[:len(l)-len(strings.TrimLeft(l, " \t"))]
}

// candidates enumerates placements from the syntax of the base file.
func candidates(src string, hot map[int][]string) ([]cand, error) {
	fset := token.NewFileSet()
	f, err := parser.ParseFile(fset, "x.go", src, parser.ParseComments)
	if err != nil {
		return nil, err
	}
	lines := strings.Split(src, "\n")
	line := func(p token.Pos) int { return fset.PositionFor(p, false).Line }
	startsLine := func(p token.Pos) bool {
		pos := fset.PositionFor(p, false)
		return strings.TrimSpace(lines[pos.Line-1][:pos.Column-1]) == ""
	}
	var cs []cand
	add := func(place string, l int, trailing bool) {
		if l >= 1 && l <= len(lines)+1 {
			cs = append(cs, cand{Place: place, Line: l, Trailing: trailing})
		}
	}
	pkgLine := line(f.Package)
	add("above_package", pkgLine, false)
	add("file_top", 1, false)
	nl := len(lines)
	if lines[nl-1] == "" {
		add("eof", nl, false)
	} else {
		add("eof", nl+1, false)
	}
	if len(f.Imports) > 0 {
		add("after_imports", line(f.Imports[len(f.Imports)-1].End())+2, false)
	}
	stmts := func(list []ast.Stmt) {
		for i, s := range list {
			if !startsLine(s.Pos()) {
				continue
			}
			sl, el := line(s.Pos()), line(s.End())
			if i == 0 {
				add("block_first_line", sl, false)
			} else {
				add("above_stmt", sl, false)
			}
			add("prev_line_trailing", sl-1, true)
			add("same_stmt_trailing", el, true)
			if el > sl {
				later := false
				for l := sl + 1; l <= el; l++ {
					if len(hot[l]) > 0 {
						later = true
					}
				}
				if later {
					add("above_multiline_problem_later", sl, false)
				}
				switch s.(type) {
				case *ast.ExprStmt, *ast.ReturnStmt, *ast.AssignStmt, *ast.DeferStmt, *ast.GoStmt:
					for l := sl + 1; l <= el; l++ {
						add("inside_multiline_stmt", l, false)
					}
				}
			}
		}
	}
	ast.Inspect(f, func(n ast.Node) bool {
		switch n := n.(type) {
		case *ast.BlockStmt:
			stmts(n.List)
		case *ast.CaseClause:
			add("above_case", line(n.Pos()), false)
			stmts(n.Body)
		case *ast.CommClause:
			add("above_case", line(n.Pos()), false)
			stmts(n.Body)
		case *ast.FuncDecl:
			add("above_decl", line(n.Pos()), false)
			if n.Doc != nil {
				add("above_doc_comment", line(n.Doc.Pos()), false)
			}
		case *ast.GenDecl:
			if n.Tok == token.IMPORT {
				return true
			}
			add("above_decl", line(n.Pos()), false)
			if n.Doc != nil {
				add("above_doc_comment", line(n.Doc.Pos()), false)
			}
			if n.Lparen.IsValid() {
				for _, sp := range n.Specs {
					add("above_spec", line(sp.Pos()), false)
				}
			}
		case *ast.StructType:
			if n.Fields != nil {
				for _, fl := range n.Fields.List {
					if startsLine(fl.Pos()) && line(fl.Pos()) != line(n.Pos()) {
						add("above_field", line(fl.Pos()), false)
					}
				}
			}
		case *ast.IfStmt:
			if n.Else != nil {
				// the line holding "} else ..." : a comment above it sits at the end of the previous block
				add("above_else", line(n.Else.Pos()), false)
			}
		}
		return true
	})
	sort.SliceStable(cs, func(i, j int) bool {
		if cs[i].Place != cs[j].Place {
			return cs[i].Place < cs[j].Place
		}
		if cs[i].Line != cs[j].Line {
			return cs[i].Line < cs[j].Line
		}
		return !cs[i].Trailing && cs[j].Trailing
	})
	return cs, nil
}

// ---------------------------------------------------------------- generator

type genFile struct {
	name   string
	lines  []string
	hot    map[int][]string // line -> hinted check ids (steering only)
	codes  []string         // hinted ids in the file, sorted, distinct
	cands  []cand
	places []string
}

// rng draws an integer of [lo, hi] with (nearly) equal probabilities. rapid's own
// integer generators strongly prefer small values, which is right for sizes but
// wrong for picking among alternatives, so a 64-bit draw is mixed first.
func rng(rt *rapid.T, label string, lo, hi int) int {
	if hi <= lo {
		return lo
	}
	v := rapid.Uint64().Draw(rt, label)
	v ^= v >> 30
	v *= 0xbf58476d1ce4e5b9
	v ^= v >> 27
	v *= 0x94d049bb133111eb
	v ^= v >> 31
	return lo + int(v%uint64(hi-lo+1))
}

func pick[T any](rt *rapid.T, label string, xs []T) T {
	return xs[rng(rt, label, 0, len(xs)-1)]
}

func distinct(xs []string) []string {
	m := map[string]bool{}
	var out []string
	for _, x := range xs {
		if !m[x] {
			m[x] = true
			out = append(out, x)
		}
	}
	sort.Strings(out)
	return out
}

func catPrefix(id string) string {
	i := strings.IndexAny(id, "0123456789")
	if i < 0 {
		return id
	}
	return id[:i]
}

func mixCase(rt *rapid.T, id string) string {
	switch rng(rt, "casekind", 0, 2) {
	case 0:
		return strings.ToLower(id)
	case 1:
		return strings.ToLower(id[:1]) + id[1:]
	default:
		if len(id) > 1 {
			return id[:1] + strings.ToLower(id[1:])
		}
		return strings.ToLower(id)
	}
}

// genName draws one check name and its kind label.
func genName(rt *rapid.T, hot, fileCodes []string, disabled []string, first bool) (string, string) {
	base := ""
	if len(hot) > 0 {
		base = pick(rt, "hotid", hot)
	} else if len(fileCodes) > 0 {
		base = pick(rt, "fileid", fileCodes)
	} else {
		base = "SA4000"
	}
	if base == "U1000" && len(hot) == 0 && len(fileCodes) > 0 && rng(rt, "avoidU", 0, 2) > 0 {
		base = pick(rt, "fileid", fileCodes)
	}
	k := rng(rt, "namekind", 0, 99)
	if first && len(hot) > 0 && k >= 58 && rng(rt, "rematch", 0, 1) == 0 {
		k = rng(rt, "namekind2", 0, 57) // one of the kinds that name the hinted check
	}
	switch {
	case k < 24:
		return base, "exact"
	case k < 32:
		return mixCase(rt, base), "case"
	case k < 38:
		return "*", "star"
	case k < 50:
		p := catPrefix(base)
		switch rng(rt, "globkind", 0, 2) {
		case 0:
			return p + "*", "cat_glob"
		case 1:
			if len(base) > len(p) {
				return base[:len(p)+1] + "*", "cat_glob"
			}
			return p + "*", "cat_glob"
		default:
			return strings.ToLower(base[:len(base)-1]) + "*", "cat_glob_lower"
		}
	case k < 58:
		if rapid.Bool().Draw(rt, "q2") && len(base) > 2 {
			return base[:len(base)-2] + "??", "q_glob"
		}
		return base[:len(base)-1] + "?", "q_glob"
	case k < 66:
		var others []string
		for _, c := range fileCodes {
			found := false
			for _, h := range hot {
				if h == c {
					found = true
				}
			}
			if !found && c != "U1000" {
				others = append(others, c)
			}
		}
		if len(others) == 0 {
			return "SA1000", "other_check"
		}
		return pick(rt, "otherid", others), "other_check"
	case k < 74:
		if len(disabled) == 0 {
			return "SA1000", "other_check"
		}
		return pick(rt, "disabledid", disabled), "disabled_check"
	case k < 81:
		return "U1000", "U1000"
	case k < 85:
		return mixCase(rt, "U1000"), "u1000_case"
	case k < 89:
		return pick(rt, "uglob", []string{"U*", "U100?", "u*", "U1*"}), "u1000_glob"
	case k < 93:
		return "SA1000", "other_check"
	case k < 96:
		// a glob of another category than the problem's
		for _, g := range []string{"ST1*", "SA4*", "S1*", "SA1*"} {
			if !strings.HasPrefix(base, strings.TrimSuffix(g, "*")) {
				return g, "other_glob"
			}
		}
		return "SA5*", "other_glob"
	default:
		return pick(rt, "nonexistent", []string{"SA9999", "XX*", "S9???"}), "nonexistent"
	}
}

var nonDefaultIDs []string // filled by the catalogue (oracle_test.go)

func genCase(rt *rapid.T, hints map[int][]hint, nvariants int) (*Case, error) {
	c := &Case{}
	// ---- base package
	nsn := rng(rt, "nsnippets", 7, 11)
	var snA []int
	for i := 0; i < nsn; i++ {
		snA = append(snA, rng(rt, "snippet", 0, len(snippets)-1))
	}
	// by construction (per the calibration hints): at least 10 problems of at least 6 checks in a.go
	for _, name := range []string{"twin_line", "printf", "var_group", "st1005", "sa1019", "s1021", "unused_funcs", "yoda", "sa4006"} {
		np, codes := 0, map[string]bool{}
		for _, si := range snA {
			for _, h := range hints[si] {
				np++
				codes[h.Code] = true
			}
		}
		if np >= 10 && len(codes) >= 6 {
			break
		}
		for si := range snippets {
			if snippets[si].Name == name {
				snA = append(snA, si)
			}
		}
	}
	twin := rng(rt, "twinfile", 0, 9) < 4
	snB := snA
	if !twin {
		snB = nil
		nb := rng(rt, "nsnippetsB", 2, 5)
		for i := 0; i < nb; i++ {
			snB = append(snB, rng(rt, "snippetB", 0, len(snippets)-1))
		}
	}
	// b.go has no comment before its package clause (a free-standing comment there would be
	// merged with a directive inserted below it into a malformed package comment: ST1000), or,
	// as a twin, the same package comment as a.go
	docB := 2
	if twin {
		docB = 0 // identical line numbers in both files
	}
	lineDirs := rng(rt, "linedirective", 0, 3) == 0
	var gfs []*genFile
	for i, spec := range []struct {
		name, prefix string
		doc          int
		sn           []int
	}{{"a.go", "A", 0, snA}, {"b.go", "B", docB, snB}} {
		_ = i
		lineDir := ""
		if lineDirs {
			lineDir = "zzline_" + spec.name
		}
		lines, snipAt, relAt := buildFile(spec.prefix, spec.doc, spec.sn, lineDir)
		gf := &genFile{name: spec.name, lines: lines, hot: map[int][]string{}}
		var codes []string
		for li := range lines {
			if snipAt[li] < 0 {
				continue
			}
			for _, h := range hints[snipAt[li]] {
				if h.Rel == relAt[li] {
					gf.hot[li+1] = append(gf.hot[li+1], h.Code)
					codes = append(codes, h.Code)
				}
			}
		}
		gf.codes = distinct(codes)
		src := strings.Join(lines, "\n") + "\n"
		c.Files = append(c.Files, FileSrc{Name: spec.name, Src: src})
		cs, err := candidates(src, gf.hot)
		if err != nil {
			return nil, err
		}
		if lineDirs {
			// nothing is placed above or on the //line comment: a directive there would be displayed in another file than the code
			var keep []cand
			for _, cd := range cs {
				if cd.Line > 2 {
					keep = append(keep, cd)
				}
			}
			cs = keep
		}
		gf.cands = cs
		var pl []string
		for _, cd := range cs {
			pl = append(pl, cd.Place)
		}
		gf.places = distinct(pl)
		gfs = append(gfs, gf)
	}
	allCodes := distinct(append(append([]string{}, gfs[0].codes...), gfs[1].codes...))

	// ---- check selection
	var disabled []string
	switch m := rng(rt, "checksmode", 0, 99); {
	case m < 38:
		c.Checks = ""
		disabled = nonDefaultIDs
	case m < 62:
		c.Checks = "all"
	case m < 84:
		var real []string
		for _, x := range allCodes {
			if x != "U1000" {
				real = append(real, x)
			}
		}
		x := "SA4000"
		if len(real) > 0 {
			x = pick(rt, "disabledcheck", real)
		}
		disabled = []string{x}
		if rapid.Bool().Draw(rt, "inherit") {
			c.Checks = "inherit,-" + x
			disabled = append(disabled, nonDefaultIDs...)
		} else {
			c.Checks = "all,-" + x
		}
	default:
		var sel []string
		for _, x := range allCodes {
			if x == "U1000" {
				continue
			}
			if rng(rt, "selcheck", 0, 2) > 0 {
				sel = append(sel, x)
			} else {
				disabled = append(disabled, x)
			}
		}
		if rng(rt, "selU", 0, 3) > 0 {
			sel = append(sel, "U1000")
		}
		if len(sel) == 0 {
			sel = append(sel, "SA4000")
		}
		c.Checks = strings.Join(sel, ",")
	}
	c.ChecksVia = "flag"
	if c.Checks != "" && rng(rt, "viaconf", 0, 3) == 0 {
		c.ChecksVia = "conf"
	}

	// ---- variants
	c.Variants = append(c.Variants, Directive{Kind: "", Place: "control_copy"})
	for v := 0; v < nvariants; v++ {
		gf := gfs[0]
		if rng(rt, "infileB", 0, 3) == 0 {
			gf = gfs[1]
		}
		d := Directive{File: gf.name, Kind: "ignore"}
		fileIgnore := rng(rt, "fileignore", 0, 3) == 0
		if fileIgnore {
			d.Kind = "file-ignore"
		}
		// placement: 7% any line; 67% driven by a line that (per the hints) carries a problem;
		// else a placement kind first (so that rare kinds are not drowned by statements), then a site
		var cd cand
		var hotLines []int
		for l := range gf.hot {
			hotLines = append(hotLines, l)
		}
		sort.Ints(hotLines)
		switch r := rng(rt, "placemode", 0, 99); {
		case r < 7:
			cd = cand{Place: "any_line", Line: rng(rt, "line", 1, len(gf.lines)+1), Trailing: rapid.Bool().Draw(rt, "trailing")}
			if cd.Trailing && cd.Line > len(gf.lines) {
				cd.Line = len(gf.lines)
			}
		case r < 74 && len(hotLines) > 0:
			// prefer lines with a second check on the same line or a problem on a neighbouring line
			var rich []int
			for _, l := range hotLines {
				if len(distinct(gf.hot[l])) > 1 || len(gf.hot[l-1]) > 0 || len(gf.hot[l+1]) > 0 {
					rich = append(rich, l)
				}
			}
			from := hotLines
			if len(rich) > 0 && rng(rt, "richline", 0, 9) < 8 {
				from = rich
			}
			l := pick(rt, "hotline", from)
			var sites []cand
			for _, x := range gf.cands {
				if (!x.Trailing && x.Line == l) || (x.Trailing && x.Place == "prev_line_trailing" && x.Line == l-1) {
					sites = append(sites, x)
				}
			}
			if len(sites) == 0 {
				sites = []cand{{Place: "above_problem_line", Line: l}}
			}
			cd = pick(rt, "site", sites)
		default:
			places := gf.places
			if fileIgnore && rapid.Bool().Draw(rt, "fileplaces") {
				places = []string{"above_package", "file_top", "eof", "after_imports"}
			}
			place := pick(rt, "place", places)
			var sites, hotSites []cand
			for _, x := range gf.cands {
				if x.Place == place {
					sites = append(sites, x)
					if !x.Trailing && len(gf.hot[x.Line]) > 0 {
						hotSites = append(hotSites, x)
					}
				}
			}
			if len(sites) == 0 {
				sites = gf.cands
			}
			if len(hotSites) > 0 && rng(rt, "preferhot", 0, 3) > 0 {
				sites = hotSites
			}
			cd = pick(rt, "site", sites)
		}
		if lineDirs && cd.Line <= 2 {
			cd.Line = 3
		}
		d.Place, d.Line, d.Trailing = cd.Place, cd.Line, cd.Trailing
		if !d.Trailing {
			d.Indent = indentOf(gf.lines, d.Line)
		}
		// names: steered by the hints on the line the directive most likely attaches to
		hot := gf.hot[d.Line]
		if d.Trailing {
			hot = append(append([]string{}, gf.hot[d.Line]...), gf.hot[d.Line+1]...)
		}
		if d.Place == "above_multiline_problem_later" || d.Place == "above_case" {
			for l := d.Line; l <= d.Line+3; l++ {
				hot = append(hot, gf.hot[l]...)
			}
		}
		if fileIgnore {
			hot = gf.codes
		}
		n := 1
		switch x := rng(rt, "nnames", 0, 9); {
		case x >= 9:
			n = 3
		case x >= 6:
			n = 2
		}
		for i := 0; i < n; i++ {
			name, kind := genName(rt, distinct(hot), gf.codes, disabled, i == 0)
			d.Names = append(d.Names, name)
			d.ListKind = append(d.ListKind, kind)
		}
		if rng(rt, "noreason", 0, 6) == 0 {
			d.Reason = ""
		} else {
			d.Reason = pick(rt, "reason", []string{"reason", "deliberate, see the design document", "x"})
		}
		c.Variants = append(c.Variants, d)
	}
	return c, nil
}
