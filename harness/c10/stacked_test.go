package c10

import (
	"encoding/json"
	"fmt"
	"os"
	"path/filepath"
	"sort"
	"strings"
	"testing"

	"pgregory.net/rapid"
	"verif/harness/internal/ev"
)

// ---------------------------------------------------------------- several directives (composition)
//
// The statement gives every directive its own effect: it suppresses the
// problems it names on the line of the code it is attached to. Two directives
// in one file therefore compose: what both suppress together is the union of
// what each suppresses alone, every other problem is reported unchanged, and
// each is reported as useless (or malformed) exactly when it is so alone.
// No model of attachment is needed for this relation; the single-directive
// runs are the reference. Pairs are placed so that one comment cannot change
// the comment group of the other: stacked above the same line, above a line
// and trailing on that line, or at least three lines apart / in two files.

type Pair struct {
	A, B Directive
	Form string `json:"form"`
}

type PairCase struct {
	Files     []FileSrc `json:"files"`
	Checks    string    `json:"checks"`
	ChecksVia string    `json:"checks_via"`
	Pairs     []Pair    `json:"pairs"`
}

// applyAll inserts the directives into the file; ds[k] is reported under the identity D<k>.
// It returns the source and a function mapping a physical line to a base line or a directive identity.
func applyAll(name, src string, ds []*Directive) (string, func(int) string) {
	type ins struct {
		line int // inserted before this base line
		k    int
	}
	var own []ins
	for k, d := range ds {
		if d.File == name && d.Kind != "" && !d.Trailing {
			own = append(own, ins{d.Line, k})
		}
	}
	// apply from the bottom up; among equal lines the later directive first, so that ds[0] ends up on top
	order := make([]int, 0, len(ds))
	for k := range ds {
		order = append(order, k)
	}
	sort.SliceStable(order, func(i, j int) bool {
		a, b := ds[order[i]], ds[order[j]]
		if a.Line != b.Line {
			return a.Line > b.Line
		}
		return order[i] > order[j]
	})
	for _, k := range order {
		src = ds[k].apply(name, src)
	}
	sort.SliceStable(own, func(i, j int) bool {
		if own[i].line != own[j].line {
			return own[i].line < own[j].line
		}
		return own[i].k < own[j].k
	})
	// physical line of the i-th insertion: base line + number of insertions before it
	phys := map[int]int{}
	for i, in := range own {
		phys[in.line+i] = in.k
	}
	return src, func(p int) string {
		if k, ok := phys[p]; ok {
			return fmt.Sprintf("D%d", k)
		}
		n := 0
		for q := range phys {
			if q < p {
				n++
			}
		}
		return fmt.Sprint(p - n)
	}
}

func evalPairs(c *PairCase, cache string) (msg, invalid, infra string) {
	dir, err := os.MkdirTemp("", "c10s-")
	if err != nil {
		return "", "", err.Error()
	}
	defer os.RemoveAll(dir)
	base := &Case{Files: c.Files, Checks: c.Checks, ChecksVia: c.ChecksVia, Variants: []Directive{{Kind: "", Place: "control_copy"}}}
	if err := writeModule(base, dir); err != nil {
		return "", "", err.Error()
	}
	os.RemoveAll(filepath.Join(dir, "v0"))
	type variant struct {
		pkg   string
		ds    []*Directive
		ident []int // identity of ds[i] within the pair (0 = A, 1 = B)
		norm  map[string]func(int) string
	}
	var vs []*variant
	for k := range c.Pairs {
		p := &c.Pairs[k]
		vs = append(vs,
			&variant{pkg: fmt.Sprintf("s%da", k), ds: []*Directive{&p.A}, ident: []int{0}},
			&variant{pkg: fmt.Sprintf("s%db", k), ds: []*Directive{&p.B}, ident: []int{1}},
			&variant{pkg: fmt.Sprintf("s%dab", k), ds: []*Directive{&p.A, &p.B}, ident: []int{0, 1}})
	}
	for _, v := range vs {
		v.norm = map[string]func(int) string{}
		if err := os.MkdirAll(filepath.Join(dir, v.pkg), 0o755); err != nil {
			return "", "", err.Error()
		}
		for _, f := range c.Files {
			src, norm := applyAll(f.Name, f.Src, v.ds)
			ident := v.ident
			v.norm[f.Name] = func(p int) string {
				s := norm(p)
				if strings.HasPrefix(s, "D") {
					var k int
					fmt.Sscanf(s, "D%d", &k)
					return fmt.Sprintf("D%d", ident[k])
				}
				return s
			}
			if err := os.WriteFile(filepath.Join(dir, v.pkg, f.Name), []byte(src), 0o644); err != nil {
				return "", "", err.Error()
			}
		}
	}
	run, err := staticcheck(dir, cache, base.args(true)...)
	if err != nil {
		return "", "", err.Error()
	}
	ev.Count("staticcheck_runs", 1)
	for _, p := range run.byPkg["p0"] {
		if p.Code == "compile" || p.Code == "config" {
			return "", "base package has a " + p.Code + " problem", ""
		}
	}
	// keyed, normalised problem sets; U1000 is set aside by the statement
	type sets struct{ ignored, all, meta []string }
	collect := func(pkg string, norm map[string]func(int) string) sets {
		var s sets
		for _, p := range run.byPkg[pkg] {
			if p.Code == "U1000" {
				continue
			}
			line := fmt.Sprint(p.Line)
			if norm != nil {
				line = norm[p.File](p.Line)
			}
			key := fmt.Sprintf("%s:%s:%d %s %q", p.File, line, p.Col, p.Code, p.Msg)
			switch {
			case p.Code == "staticcheck" || p.Code == "compile" || p.Code == "config":
				s.meta = append(s.meta, key+" ["+p.Sev+"]")
			default:
				s.all = append(s.all, key)
				if p.Sev == "ignored" {
					s.ignored = append(s.ignored, key)
				}
			}
		}
		sort.Strings(s.ignored)
		sort.Strings(s.all)
		sort.Strings(s.meta)
		return s
	}
	union := func(a, b []string) []string {
		m := map[string]bool{}
		for _, x := range a {
			m[x] = true
		}
		for _, x := range b {
			m[x] = true
		}
		var out []string
		for x := range m {
			out = append(out, x)
		}
		sort.Strings(out)
		return out
	}
	uniq := func(a []string) []string { return union(a, nil) }
	ctl := collect("p0", nil)
	var sb strings.Builder
	for k := range c.Pairs {
		a := collect(vs[3*k].pkg, vs[3*k].norm)
		b := collect(vs[3*k+1].pkg, vs[3*k+1].norm)
		ab := collect(vs[3*k+2].pkg, vs[3*k+2].norm)
		var bad []string
		if got, want := strings.Join(uniq(ab.ignored), "\n"), strings.Join(union(a.ignored, b.ignored), "\n"); got != want {
			bad = append(bad, fmt.Sprintf("suppressed by both directives together:\n%s\nunion of what each suppresses alone:\n%s", got, want))
		}
		if got, want := strings.Join(ab.all, "\n"), strings.Join(ctl.all, "\n"); got != want {
			bad = append(bad, fmt.Sprintf("problems of checks (suppressed or not) with both directives:\n%s\nwithout any directive:\n%s", got, want))
		}
		// as sets: two identical problems at one position are printed once
		if got, want := strings.Join(uniq(ab.meta), "\n"), strings.Join(union(a.meta, b.meta), "\n"); got != want {
			bad = append(bad, fmt.Sprintf("directive problems with both directives:\n%s\nof each directive alone:\n%s", got, want))
		}
		p := &c.Pairs[k]
		nt := len(a.ignored) > 0 && len(b.ignored) > 0
		classes := []string{"pair_" + p.Form, "pair_kinds_" + p.A.Kind + "+" + p.B.Kind}
		if len(a.ignored) > 0 || len(b.ignored) > 0 {
			classes = append(classes, "pair_with_a_suppressing_directive")
		}
		if len(a.meta)+len(b.meta) > 0 {
			classes = append(classes, "pair_with_a_reported_directive")
		}
		var srcs []string
		for _, f := range c.Files {
			srcs = append(srcs, f.Src)
		}
		ev.Case(ev.Hash(append(srcs, c.Checks, p.A.Text(), p.B.Text(), p.A.File, p.B.File, fmt.Sprint(p.A.Line, p.A.Trailing, p.B.Line, p.B.Trailing))...), nt, classes...)
		if len(bad) > 0 {
			fmt.Fprintf(&sb, "pair %d (%s): %s:%d trailing=%v %q  and  %s:%d trailing=%v %q (lines of the file without directives; checks %q)\n%s\n", k, p.Form, p.A.File, p.A.Line, p.A.Trailing, p.A.Text(), p.B.File, p.B.Line, p.B.Trailing, p.B.Text(), c.Checks, strings.Join(bad, "\n"))
			for _, f := range c.Files {
				if f.Name == p.A.File || f.Name == p.B.File {
					src, _ := applyAll(f.Name, f.Src, []*Directive{&p.A, &p.B})
					fmt.Fprintf(&sb, "---- %s with both directives\n", f.Name)
					for i, l := range strings.Split(src, "\n") {
						fmt.Fprintf(&sb, "%4d| %s\n", i+1, l)
					}
				}
			}
		}
	}
	return sb.String(), "", ""
}

func genPairs(rt *rapid.T, c *Case, n int) *PairCase {
	pc := &PairCase{Files: c.Files, Checks: c.Checks, ChecksVia: c.ChecksVia}
	var vars []Directive
	for _, d := range c.Variants {
		if d.Kind != "" {
			vars = append(vars, d)
		}
	}
	if len(vars) < 2 {
		return pc
	}
	for len(pc.Pairs) < n {
		a := pick(rt, "pairA", vars)
		b := pick(rt, "pairB", vars)
		switch form := rng(rt, "pairform", 0, 9); {
		case form < 5:
			// stacked above the same line
			a.Trailing = false
			b.File, b.Line, b.Trailing, b.Indent = a.File, a.Line, false, a.Indent
			pc.Pairs = append(pc.Pairs, Pair{a, b, "stacked"})
		case form < 8:
			// one above the line, one trailing on it
			if a.Trailing {
				continue
			}
			// the line must hold code: a "trailing" comment on a blank or comment line is an own-line comment
			// and would join the group of the directive above it
			code := false
			for _, f := range c.Files {
				if f.Name == a.File {
					ls := strings.Split(f.Src, "\n")
					if a.Line >= 1 && a.Line <= len(ls) {
						t := strings.TrimSpace(ls[a.Line-1])
						code = t != "" && !strings.HasPrefix(t, "//")
					}
				}
			}
			if !code {
				continue
			}
			b.File, b.Line, b.Trailing, b.Indent = a.File, a.Line, true, ""
			pc.Pairs = append(pc.Pairs, Pair{a, b, "above_and_trailing"})
		default:
			if a.File == b.File && a.Line-b.Line < 3 && b.Line-a.Line < 3 {
				continue
			}
			pc.Pairs = append(pc.Pairs, Pair{a, b, "apart"})
		}
	}
	return pc
}

func TestStacked(t *testing.T) {
	ev.Rule(rule)
	loadCatalogue()
	cache, hints, err := sharedCache()
	if err != nil {
		ev.Infra("calibration failed: %v", err)
		t.Fatalf("calibration failed: %v", err)
	}
	ev.Check(t, "TestStacked", func(rt *rapid.T) {
		c, err := genCase(rt, hints, 10)
		if err != nil {
			ev.Count("gen_invalid", 1)
			rt.Skip(err.Error())
		}
		pc := genPairs(rt, c, 4)
		if len(pc.Pairs) == 0 {
			rt.Skip("no pairs")
		}
		js, _ := json.Marshal(pc)
		ev.Begin("TestStacked", "pairs.json", js)
		msg, invalid, infra := evalPairs(pc, cache)
		if infra != "" {
			ev.Infra("%s", infra)
			rt.Skip(infra)
		}
		if invalid != "" {
			ev.Count("gen_invalid", 1)
			rt.Skip(invalid)
		}
		if msg != "" {
			ev.Failf(rt, "TestStacked", "%s", msg)
		}
	})
}
