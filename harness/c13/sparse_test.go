package c13

import (
	"encoding/json"
	"fmt"
	"sort"
	"strings"
	"testing"

	"honnef.co/go/tools/analysis/dfa/sparse"
	"honnef.co/go/tools/go/ir"
	"pgregory.net/rapid"
	"verif/harness/internal/cfggen"
	"verif/harness/internal/ev"
	"verif/harness/internal/irbuild"
)

// SparseCase: a generated package; every function with a body is analysed
// with a value-based forward analysis over a powerset ("taint") lattice or a
// flat constant lattice.
type SparseCase struct {
	Src    string `json:"src"`
	Domain string `json:"domain"` // taint | const
	Naive  bool   `json:"naive"`
}

type getter[E any] func(ir.Value) E

// transferFn describes the equations: for instruction i, which values get
// which state, as a function of the current states.
type transferFn[E any] func(get getter[E], instr ir.Instruction) []sparse.Mapping[E]

func singleStore(a *ir.Alloc) *ir.Store {
	var st *ir.Store
	for _, ref := range *a.Referrers() {
		if s, ok := ref.(*ir.Store); ok && s.Addr == a {
			if st != nil {
				return nil
			}
			st = s
		}
	}
	return st
}

func isTwoCall(c *ir.Call) bool {
	fn, ok := c.Call.Value.(*ir.Function)
	return ok && fn.Name() == "two" && !c.Call.IsInvoke()
}

func taintTransfer(get getter[uint16], instr ir.Instruction) []sparse.Mapping[uint16] {
	d := sparse.Decision{}
	switch instr := instr.(type) {
	case *ir.Store:
		// a non-value instruction that maps another value: flow-insensitive
		// memory for allocs with exactly one store
		if a, ok := instr.Addr.(*ir.Alloc); ok && singleStore(a) == instr {
			return sparse.Ms(sparse.M[uint16](a, get(instr.Val)|1<<12, d))
		}
		return nil
	case *ir.Alloc:
		if singleStore(instr) != nil {
			return nil // mapped by its store
		}
		return sparse.Ms(sparse.M[uint16](instr, 1<<13, d))
	case *ir.Call:
		if isTwoCall(instr) {
			// the tuple-producing instruction maps its Extracts
			var ms []sparse.Mapping[uint16]
			for _, ref := range *instr.Referrers() {
				if ex, ok := ref.(*ir.Extract); ok && ex.Index < len(instr.Call.Args) {
					ms = append(ms, sparse.M[uint16](ex, get(instr.Call.Args[ex.Index])|1<<uint(9+ex.Index), d))
				}
			}
			return ms
		}
	case *ir.Extract:
		if c, ok := instr.Tuple.(*ir.Call); ok && isTwoCall(c) {
			return nil // mapped by the call
		}
	}
	v, ok := instr.(ir.Value)
	if !ok {
		return nil
	}
	var s uint16
	for _, op := range instr.Operands(nil) {
		if *op != nil {
			s |= get(*op)
		}
	}
	if _, ok := instr.(*ir.Load); ok {
		s |= 1 << 8
	}
	return sparse.Ms(sparse.M[uint16](v, s, d))
}

func constTransfer(get getter[uint8], instr ir.Instruction) []sparse.Mapping[uint8] {
	d := sparse.Decision{}
	switch instr := instr.(type) {
	case *ir.Store:
		if a, ok := instr.Addr.(*ir.Alloc); ok && singleStore(a) == instr {
			return sparse.Ms(sparse.M[uint8](a, get(instr.Val), d))
		}
		return nil
	case *ir.Alloc:
		if singleStore(instr) != nil {
			return nil
		}
		return sparse.Ms(sparse.M[uint8](instr, 7, d))
	case *ir.Call:
		if isTwoCall(instr) {
			var ms []sparse.Mapping[uint8]
			for _, ref := range *instr.Referrers() {
				if ex, ok := ref.(*ir.Extract); ok && ex.Index < len(instr.Call.Args) {
					ms = append(ms, sparse.M[uint8](ex, flatFn(3, get(instr.Call.Args[ex.Index])), d))
				}
			}
			return ms
		}
	case *ir.Extract:
		if c, ok := instr.Tuple.(*ir.Call); ok && isTwoCall(c) {
			return nil
		}
	case *ir.BinOp:
		x, y := get(instr.X), get(instr.Y)
		// constant folding on the flat lattice (monotone: bottom if any bottom... no:
		// use merge-like rule so that it is monotone): equal constants stay, else top
		return sparse.Ms(sparse.M[uint8](instr, flatL{}.Merge(flatFn(3, x), y), d))
	}
	v, ok := instr.(ir.Value)
	if !ok {
		return nil
	}
	var s uint8
	for _, op := range instr.Operands(nil) {
		if *op != nil {
			s = flatL{}.Merge(s, get(*op))
		}
	}
	if _, ok := instr.(*ir.Load); ok {
		s = 7
	}
	return sparse.Ms(sparse.M[uint8](v, s, d))
}

func allValues(fn *ir.Function) []ir.Value {
	var vs []ir.Value
	for _, p := range fn.Params {
		vs = append(vs, p)
	}
	for _, b := range fn.Blocks {
		for _, i := range b.Instrs {
			if v, ok := i.(ir.Value); ok {
				vs = append(vs, v)
			}
		}
	}
	return vs
}

func refSparse[E comparable](fn *ir.Function, ident E, merge func(a, b E) E, preset map[ir.Value]E, tf transferFn[E]) (map[ir.Value]E, int) {
	st := map[ir.Value]E{}
	for k, v := range preset {
		st[k] = v
	}
	get := func(v ir.Value) E {
		if s, ok := st[v]; ok {
			return s
		}
		return ident
	}
	for rounds := 1; rounds < 10000; rounds++ {
		changed := false
		for _, b := range fn.Blocks {
			for _, instr := range b.Instrs {
				var ms []sparse.Mapping[E]
				if phi, ok := instr.(*ir.Phi); ok {
					d := ident
					for _, e := range phi.Edges {
						d = merge(d, get(e))
					}
					ms = []sparse.Mapping[E]{{Value: phi, State: d}}
				} else {
					ms = tf(get, instr)
				}
				for _, m := range ms {
					if get(m.Value) != m.State {
						st[m.Value] = m.State
						changed = true
					}
				}
			}
		}
		if !changed {
			return st, rounds
		}
	}
	panic("reference did not converge")
}

func hasLoopPhi(fn *ir.Function) bool {
	for _, b := range fn.Blocks {
		for _, i := range b.Instrs {
			if _, ok := i.(*ir.Phi); ok {
				for _, p := range b.Preds {
					if b.Dominates(p) {
						return true
					}
				}
			}
		}
	}
	return false
}

func evalSparse(sc *SparseCase) (msg string, nontrivial int, classes []string) {
	defer func() {
		if r := recover(); r != nil {
			msg = fmt.Sprintf("panic: %v", r)
		}
	}()
	mode := ir.BuildSerially
	if sc.Naive {
		mode |= ir.NaiveForm
	}
	_, pkg, err := irbuild.BuildOne(sc.Src, "go1.26", mode)
	if err != nil {
		ev.Count("gen_invalid", 1)
		return "", 0, nil
	}
	var sb strings.Builder
	for _, fn := range irbuild.Functions(pkg) {
		var rounds int
		var diffs []string
		repeat := 12 // the worklist iterates a Go map: solve repeatedly
		switch sc.Domain {
		case "taint":
			preset := map[ir.Value]uint16{}
			for i, p := range fn.Params {
				preset[p] = 1 << uint(i%8)
			}
			var ref map[ir.Value]uint16
			ref, rounds = refSparse(fn, 0, setL{}.Merge, preset, taintTransfer)
			for r := 0; r < repeat && len(diffs) == 0; r++ {
				ins := &sparse.Instance[setL, uint16]{Mapping: map[ir.Value]sparse.Mapping[uint16]{}}
				for k, v := range preset {
					ins.Set(k, v)
				}
				steps := 0
				ins.Transfer = func(in *sparse.Instance[setL, uint16], instr ir.Instruction) []sparse.Mapping[uint16] {
					steps++
					if steps > 2000000 {
						panic("sparse solver does not terminate")
					}
					return taintTransfer(in.Value, instr)
				}
				ins.Forward(fn)
				for _, v := range allValues(fn) {
					if got, want := ins.Value(v), ref[v]; got != want {
						diffs = append(diffs, fmt.Sprintf("%s.%s (%s): solver %016b, least fixpoint %016b", fn.Name(), v.Name(), v, got, want))
					}
				}
			}
		case "const":
			preset := map[ir.Value]uint8{}
			for i, p := range fn.Params {
				preset[p] = uint8(1 + i%6)
			}
			var ref map[ir.Value]uint8
			ref, rounds = refSparse(fn, 0, flatL{}.Merge, preset, constTransfer)
			for r := 0; r < repeat && len(diffs) == 0; r++ {
				ins := &sparse.Instance[flatL, uint8]{Mapping: map[ir.Value]sparse.Mapping[uint8]{}}
				for k, v := range preset {
					ins.Set(k, v)
				}
				steps := 0
				ins.Transfer = func(in *sparse.Instance[flatL, uint8], instr ir.Instruction) []sparse.Mapping[uint8] {
					steps++
					if steps > 2000000 {
						panic("sparse solver does not terminate")
					}
					return constTransfer(in.Value, instr)
				}
				ins.Forward(fn)
				for _, v := range allValues(fn) {
					if got, want := ins.Value(v), ref[v]; got != want {
						diffs = append(diffs, fmt.Sprintf("%s.%s (%s): solver %d, least fixpoint %d", fn.Name(), v.Name(), v, got, want))
					}
				}
			}
		}
		if len(diffs) > 0 {
			sort.Strings(diffs)
			if len(diffs) > 8 {
				diffs = diffs[:8]
			}
			sb.WriteString(strings.Join(diffs, "\n") + "\n")
		}
		if hasLoopPhi(fn) && rounds >= 3 {
			nontrivial++
		}
	}
	classes = append(classes, "sparse", "sparse_domain_"+sc.Domain)
	return sb.String(), nontrivial, classes
}

func TestSparse(t *testing.T) {
	ev.Assume("sparse: every value is mapped by at most one instruction (otherwise the equation system is ill-defined); transfer functions are monotone")
	cfg := cfggen.Default()
	cfg.MaxFuncs = 2
	ev.Check(t, "TestSparse", func(rt *rapid.T) {
		p := cfggen.Generate(rt, cfg)
		sc := &SparseCase{Src: p.Src, Domain: rapid.SampledFrom([]string{"taint", "const"}).Draw(rt, "domain"), Naive: rapid.IntRange(0, 3).Draw(rt, "naive") == 0}
		b, _ := json.Marshal(sc)
		ev.Begin("TestSparse", "sparse.json", b)
		msg, nt, classes := evalSparse(sc)
		if nt > 0 {
			classes = append(classes, "sparse_nontrivial")
		}
		ev.Case(ev.Hash(string(b)), nt > 0, classes...)
		ev.Count("sparse_functions_with_loop_phi_and_late_change", nt)
		if nt > 0 && ev.Class("sparse_sampled") < 2 {
			ev.Count("sparse_sampled", 1)
			ev.Sample(map[string]any{"kind": "sparse", "domain": sc.Domain, "naive_form": sc.Naive, "source_bytes": len(sc.Src), "source_head": firstFunc(sc.Src)})
		}
		if msg != "" {
			ev.Failf(rt, "TestSparse", "sparse.Forward disagrees with the least fixpoint (domain %s, naive=%v)\n%s\nsource:\n%s", sc.Domain, sc.Naive, msg, sc.Src)
		}
	})
}

func firstFunc(src string) string {
	i := strings.Index(src, "func F0")
	if i < 0 {
		return ""
	}
	s := src[i:]
	if len(s) > 600 {
		s = s[:600] + "…"
	}
	return s
}
