package c13

import (
	"encoding/json"
	"fmt"
	"iter"
	"maps"
	"os"
	"path/filepath"
	"sort"
	"strings"
	"testing"

	"honnef.co/go/tools/analysis/dfa"
	"honnef.co/go/tools/analysis/dfa/dense"
	"honnef.co/go/tools/analysis/facts/nilness"
	"pgregory.net/rapid"
	"verif/harness/internal/ev"
)

func TestMain(m *testing.M) { ev.Main(m) }

const rule = "dense: case = (digraph on <=N nodes incl. cycles, irreducible and unreachable regions, self loops; entry facts on zero-predecessor nodes; one monotone transfer function per edge; lattice in {powerset gen/kill, MapLattice of flat constants, DenseMapLattice of flat constants, chain}); oracle = naive round-robin Kleene iteration from bottom; non-trivial = graph has a cycle AND the reference needed >=3 rounds (a fact changed after the first visit of a cycle); distinct by hash of (graph, transfer table, entry facts, lattice). sparse: see TestSparse. laws: exhaustive over the nilness lattice, generated for the map lattices."

// ------------------------------------------------------------------ graphs

type Graph struct {
	IDs []int   `json:"ids"`  // node ids (not dense: exercised through graph.Compact)
	Out [][]int `json:"out"`  // successor indices per node index, no parallel edges
	Ent []int   `json:"ent"`  // entry fact seeds per node (used only for zero-predecessor nodes), -1 = absent
	Lat string  `json:"lat"`  // set | map | dense | chain
	Tr  [][]int `json:"tr"`   // per edge (same shape as Out): transfer table seed
	NV  int     `json:"nvar"` // number of variables for map/dense
}

type g struct{ *Graph }

func (x g) Nodes() iter.Seq[int] {
	return func(yield func(int) bool) {
		for _, id := range x.IDs {
			if !yield(id) {
				return
			}
		}
	}
}
func (x g) NumNodes() int { return len(x.IDs) }
func (x g) Out(node int) iter.Seq[int] {
	return func(yield func(int) bool) {
		for i, id := range x.IDs {
			if id == node {
				for _, s := range x.Graph.Out[i] {
					if !yield(x.IDs[s]) {
						return
					}
				}
			}
		}
	}
}

func genGraph(t *rapid.T, maxN int) *Graph {
	n := rapid.IntRange(1, maxN).Draw(t, "n")
	gr := &Graph{NV: rapid.IntRange(1, 4).Draw(t, "nvar")}
	perm := rapid.Permutation(seq(n)).Draw(t, "idperm")
	mul := rapid.SampledFrom([]int{1, 3, 7}).Draw(t, "idmul")
	for i := 0; i < n; i++ {
		gr.IDs = append(gr.IDs, perm[i]*mul+rapid.IntRange(0, 1).Draw(t, "idoff")*100)
	}
	// ids must be unique
	seen := map[int]bool{}
	for i, id := range gr.IDs {
		for seen[id] {
			id += 1000
		}
		seen[id] = true
		gr.IDs[i] = id
	}
	density := rapid.IntRange(1, 4).Draw(t, "density")
	for i := 0; i < n; i++ {
		var out []int
		var tr []int
		for j := 0; j < n; j++ {
			if rapid.IntRange(0, 2*n).Draw(t, "edge") < density {
				out = append(out, j)
				tr = append(tr, rapid.IntRange(0, 1<<20).Draw(t, "tr"))
			}
		}
		gr.Out = append(gr.Out, out)
		gr.Tr = append(gr.Tr, tr)
		e := -1
		if rapid.IntRange(0, 2).Draw(t, "hasentry") > 0 {
			e = rapid.IntRange(0, 1<<16).Draw(t, "entry")
		}
		gr.Ent = append(gr.Ent, e)
	}
	gr.Lat = rapid.SampledFrom([]string{"set", "map", "dense", "chain"}).Draw(t, "lattice")
	return gr
}

func seq(n int) []int {
	s := make([]int, n)
	for i := range s {
		s[i] = i
	}
	return s
}

func (gr *Graph) preds() [][]int {
	p := make([][]int, len(gr.IDs))
	for i, outs := range gr.Out {
		for _, s := range outs {
			p[s] = append(p[s], i)
		}
	}
	return p
}

func (gr *Graph) hasCycle() bool {
	n := len(gr.IDs)
	color := make([]int, n)
	var dfs func(int) bool
	dfs = func(u int) bool {
		color[u] = 1
		for _, v := range gr.Out[u] {
			if color[v] == 1 || (color[v] == 0 && dfs(v)) {
				return true
			}
		}
		color[u] = 2
		return false
	}
	for i := 0; i < n; i++ {
		if color[i] == 0 && dfs(i) {
			return true
		}
	}
	return false
}

// ------------------------------------------------------------------ lattices

// powerset of 16 elements, join = union
type setL struct{}

func (setL) Ident() uint16           { return 0 }
func (setL) Equals(a, b uint16) bool { return a == b }
func (setL) Merge(a, b uint16) uint16 { return a | b }

// flat constant lattice: 0 = bottom, 1..6 constants, 7 = top
type flatL struct{}

func (flatL) Ident() uint8           { return 0 }
func (flatL) Equals(a, b uint8) bool { return a == b }
func (flatL) Merge(a, b uint8) uint8 {
	switch {
	case a == 0:
		return b
	case b == 0:
		return a
	case a == b:
		return a
	}
	return 7
}

// chain 0 < 1 < ... < 9, join = max
type chainL struct{}

func (chainL) Ident() int           { return 0 }
func (chainL) Equals(a, b int) bool { return a == b }
func (chainL) Merge(a, b int) int   { return max(a, b) }

// monotone unary functions on the flat lattice, selected by a seed:
// f(bottom)=bottom is NOT required for monotonicity (bottom <= everything), but
// f must satisfy f(bot) <= f(c) <= f(top).
func flatFn(seed int, x uint8) uint8 {
	switch seed % 5 {
	case 0: // identity
		return x
	case 1: // constant c
		return uint8(1 + (seed/5)%6)
	case 2: // havoc
		return 7
	case 3: // successor on constants: c -> c%6+1, bottom and top fixed
		if x == 0 || x == 7 {
			return x
		}
		return x%6 + 1
	default: // bottom -> bottom, anything else -> top
		if x == 0 {
			return 0
		}
		return 7
	}
}

// ------------------------------------------------------------------ generic check

type latticeOps[F any] struct {
	ident  func() F
	equals func(a, b F) bool
	merge  func(a, b F) F
	show   func(F) string
}

// kleene computes the least fixpoint by round-robin iteration from bottom.
func kleene[F any](gr *Graph, L latticeOps[F], entry func(i int) (F, bool), transfer func(i, k int, in F) F) (ins []F, edges [][]F, rounds int) {
	n := len(gr.IDs)
	preds := gr.preds()
	ins = make([]F, n)
	edges = make([][]F, n)
	for i := range ins {
		ins[i] = L.ident()
		edges[i] = make([]F, len(gr.Out[i]))
		for k := range edges[i] {
			edges[i][k] = L.ident()
		}
	}
	edgeIdx := func(p, s int) int {
		for k, x := range gr.Out[p] {
			if x == s {
				return k
			}
		}
		panic("no edge")
	}
	for rounds = 1; rounds < 10000; rounds++ {
		changed := false
		for i := 0; i < n; i++ {
			var in F
			if len(preds[i]) == 0 {
				if e, ok := entry(i); ok {
					in = e
				} else {
					in = L.ident()
				}
			} else {
				in = L.ident()
				for _, p := range preds[i] {
					in = L.merge(in, edges[p][edgeIdx(p, i)])
				}
			}
			if !L.equals(in, ins[i]) {
				ins[i] = in
				changed = true
			}
			for k := range gr.Out[i] {
				e := transfer(i, k, ins[i])
				if !L.equals(e, edges[i][k]) {
					edges[i][k] = e
					changed = true
				}
			}
		}
		if !changed {
			return ins, edges, rounds
		}
	}
	panic("reference iteration did not converge: transfer function not monotone?")
}

func runDense[L dfa.Semilattice[F], F any](gr *Graph, ops latticeOps[F], entry func(i int) (F, bool), transfer func(i, k int, in F) F) (msg string, rounds int) {
	refIn, refEdge, rounds := kleene(gr, ops, entry, transfer)
	entryMap := map[int]F{}
	preds := gr.preds()
	for i := range gr.IDs {
		if len(preds[i]) == 0 {
			if e, ok := entry(i); ok {
				entryMap[gr.IDs[i]] = e
			}
		}
	}
	idx := map[int]int{}
	for i, id := range gr.IDs {
		idx[id] = i
	}
	calls := 0
	res := dense.Forward[L](g{gr}, entryMap, func(from, to int, fact F) F {
		calls++
		if calls > 200000 {
			panic("solver does not terminate (more than 200000 transfer calls)")
		}
		i := idx[from]
		for k, s := range gr.Out[i] {
			if gr.IDs[s] == to {
				return transfer(i, k, fact)
			}
		}
		panic("transfer called for a non-existent edge")
	})
	var sb strings.Builder
	for i, id := range gr.IDs {
		got := res.In(id)
		if !ops.equals(got, refIn[i]) {
			fmt.Fprintf(&sb, "In(node %d): solver %s, least fixpoint %s\n", id, ops.show(got), ops.show(refIn[i]))
		}
		for k, s := range gr.Out[i] {
			ge := res.Edge(id, gr.IDs[s])
			if !ops.equals(ge, refEdge[i][k]) {
				fmt.Fprintf(&sb, "Edge(%d->%d): solver %s, least fixpoint %s\n", id, gr.IDs[s], ops.show(ge), ops.show(refEdge[i][k]))
			}
			// fixpoint equation on the solver's own result
			if want := transfer(i, k, got); !ops.equals(ge, want) {
				fmt.Fprintf(&sb, "Edge(%d->%d) = %s is not transfer(In(%d)) = %s\n", id, gr.IDs[s], ops.show(ge), id, ops.show(want))
			}
		}
	}
	return sb.String(), rounds
}

func evalDense(gr *Graph) (msg string, rounds int) {
	defer func() {
		if r := recover(); r != nil {
			msg = fmt.Sprintf("panic: %v", r)
		}
	}()
	switch gr.Lat {
	case "set":
		ops := latticeOps[uint16]{setL{}.Ident, setL{}.Equals, setL{}.Merge, func(x uint16) string { return fmt.Sprintf("%016b", x) }}
		return runDense[setL](gr, ops,
			func(i int) (uint16, bool) { return uint16(gr.Ent[i]), gr.Ent[i] >= 0 },
			func(i, k int, in uint16) uint16 {
				seed := gr.Tr[i][k]
				gen, kill := uint16(seed&0xff)&uint16(seed>>3), uint16(seed>>8)
				if seed%3 == 0 {
					gen = 0
				}
				return (in &^ kill) | gen
			})
	case "chain":
		ops := latticeOps[int]{chainL{}.Ident, chainL{}.Equals, chainL{}.Merge, func(x int) string { return fmt.Sprint(x) }}
		return runDense[chainL](gr, ops,
			func(i int) (int, bool) { return gr.Ent[i] % 10, gr.Ent[i] >= 0 },
			func(i, k int, in int) int {
				seed := gr.Tr[i][k]
				switch seed % 4 {
				case 0:
					return in
				case 1:
					return min(in+1, 9) // climbs around cycles
				case 2:
					return max(in, seed/4%10)
				default:
					if in >= seed/4%10 {
						return 9
					}
					return in
				}
			})
	case "map":
		type M = map[int]uint8
		ml := dfa.MapLattice[int, uint8, flatL]{}
		ops := latticeOps[M]{ml.Ident, ml.Equals, ml.Merge, func(m M) string { return showMap(m) }}
		return runDense[dfa.MapLattice[int, uint8, flatL]](gr, ops,
			func(i int) (M, bool) {
				if gr.Ent[i] < 0 {
					return nil, false
				}
				m := M{}
				for v := 0; v < gr.NV; v++ {
					if x := uint8(gr.Ent[i]>>(3*v)) & 7; x != 0 {
						m[v] = x
					}
				}
				return m, true
			},
			func(i, k int, in M) M {
				seed := gr.Tr[i][k]
				out := maps.Clone(in)
				if out == nil {
					out = M{}
				}
				// two assignments: x := f(x or y)
				for a := 0; a < 2; a++ {
					s := seed >> (9 * a)
					dst, src := s%gr.NV, (s/4)%gr.NV
					v := flatFn(s/16, in[src])
					if v == 0 {
						delete(out, dst) // identity never appears as a value
					} else {
						out[dst] = v
					}
				}
				if len(out) == 0 {
					return nil
				}
				return out
			})
	case "dense":
		type S = []uint8
		dl := dfa.DenseMapLattice[uint8, flatL]{}
		ops := latticeOps[S]{dl.Ident, dl.Equals, dl.Merge, func(s S) string { return fmt.Sprint(s) }}
		return runDense[dfa.DenseMapLattice[uint8, flatL]](gr, ops,
			func(i int) (S, bool) {
				if gr.Ent[i] < 0 {
					return nil, false
				}
				s := make(S, 0, gr.NV)
				// deliberately shorter than NV sometimes
				for v := 0; v < gr.NV-(gr.Ent[i]>>12)%2; v++ {
					s = append(s, uint8(gr.Ent[i]>>(3*v))&7)
				}
				return s, true
			},
			func(i, k int, in S) S {
				seed := gr.Tr[i][k]
				get := func(v int) uint8 {
					if v < len(in) {
						return in[v]
					}
					return 0
				}
				n := len(in)
				var out S
				for a := 0; a < 2; a++ {
					s := seed >> (9 * a)
					dst, src := s%gr.NV, (s/4)%gr.NV
					v := flatFn(s/16, get(src))
					if out == nil {
						out = make(S, max(n, dst+1))
						copy(out, in)
					}
					if dst >= len(out) {
						out = append(out, make(S, dst+1-len(out))...)
					}
					out[dst] = v
				}
				return out
			})
	}
	panic("unknown lattice " + gr.Lat)
}

func showMap(m map[int]uint8) string {
	ks := make([]int, 0, len(m))
	for k := range m {
		ks = append(ks, k)
	}
	sort.Ints(ks)
	var sb strings.Builder
	sb.WriteString("{")
	for _, k := range ks {
		fmt.Fprintf(&sb, "%d:%d ", k, m[k])
	}
	sb.WriteString("}")
	return sb.String()
}

func TestDense(t *testing.T) {
	ev.Rule(rule)
	ev.Assume("transfer functions are monotone by construction; entry facts are given only for zero-predecessor nodes (documented contract of dense.Forward); graphs have no parallel edges")
	maxN := ev.EnvInt("C13_MAXN", 10, 40)
	ev.Check(t, "TestDense", func(rt *rapid.T) {
		gr := genGraph(rt, maxN)
		b, _ := json.Marshal(gr)
		ev.Begin("TestDense", "dense.json", b)
		msg, rounds := evalDense(gr)
		cyc := gr.hasCycle()
		classes := []string{"dense", "dense_lattice_" + gr.Lat}
		if cyc {
			classes = append(classes, "dense_cyclic")
		}
		nontrivial := cyc && rounds >= 3
		if nontrivial {
			classes = append(classes, "dense_nontrivial")
		}
		ev.Case(ev.Hash(string(b)), nontrivial, classes...)
		if nontrivial && ev.WantSample() {
			ev.Sample(map[string]any{"kind": "dense", "graph": gr, "reference_rounds": rounds})
		}
		if msg != "" {
			ev.Failf(rt, "TestDense", "dense.Forward disagrees with the least fixpoint\ngraph: %s\n%s", b, msg)
		}
	})
}

// ------------------------------------------------------------------ lattice laws

func allNilness() []nilness.ValueNilness {
	var out []nilness.ValueNilness
	for i := 0; i < 5; i++ {
		for o := 0; o < 5; o++ {
			out = append(out, nilness.ValueNilness{Inner: nilness.Nilness(i), Outer: nilness.Nilness(o)})
		}
	}
	return out
}

func checkLaws[F any](name string, ident F, equals func(a, b F) bool, merge func(a, b F) F, a, b, c F, show func(F) string) string {
	var sb strings.Builder
	if !equals(merge(a, merge(b, c)), merge(merge(a, b), c)) {
		fmt.Fprintf(&sb, "%s: associativity fails for a=%s b=%s c=%s: a∧(b∧c)=%s (a∧b)∧c=%s\n", name, show(a), show(b), show(c), show(merge(a, merge(b, c))), show(merge(merge(a, b), c)))
	}
	if !equals(merge(a, b), merge(b, a)) {
		fmt.Fprintf(&sb, "%s: commutativity fails for a=%s b=%s: %s vs %s\n", name, show(a), show(b), show(merge(a, b)), show(merge(b, a)))
	}
	if !equals(merge(a, a), a) {
		fmt.Fprintf(&sb, "%s: idempotence fails for a=%s: a∧a=%s\n", name, show(a), show(merge(a, a)))
	}
	if !equals(merge(a, ident), a) || !equals(merge(ident, a), a) {
		fmt.Fprintf(&sb, "%s: identity fails for a=%s: a∧1=%s 1∧a=%s\n", name, show(a), show(merge(a, ident)), show(merge(ident, a)))
	}
	if !equals(a, a) {
		fmt.Fprintf(&sb, "%s: Equals not reflexive for %s\n", name, show(a))
	}
	if equals(a, b) != equals(b, a) {
		fmt.Fprintf(&sb, "%s: Equals not symmetric for %s, %s\n", name, show(a), show(b))
	}
	if equals(a, b) && !equals(merge(a, c), merge(b, c)) {
		fmt.Fprintf(&sb, "%s: Equals not a congruence for Merge: a=%s b=%s c=%s\n", name, show(a), show(b), show(c))
	}
	return sb.String()
}

func TestNilnessLatticeLawsExhaustive(t *testing.T) {
	if os.Getenv("VERIF_SECONDARY") != "" {
		return
	}
	all := allNilness()
	show := func(v nilness.ValueNilness) string { return fmt.Sprintf("{Inner:%d Outer:%d}", v.Inner, v.Outer) }
	n := 0
	for _, a := range all {
		for _, b := range all {
			for _, c := range all {
				n++
				if msg := checkLaws("nilness lattice", nilness.VerifLatticeIdent(), nilness.VerifLatticeEquals, nilness.VerifLatticeMerge, a, b, c, show); msg != "" {
					js, _ := json.Marshal([]nilness.ValueNilness{a, b, c})
					ev.Violate("TestNilnessLatticeLawsExhaustive", msg, "nilness-triple.json", js)
					t.Fatal(msg)
				}
			}
		}
	}
	ev.Count("laws_nilness_triples_exhaustive", n)
	ev.Case(ev.Hash("nilness-laws"), true, "laws_nilness_exhaustive_run")
	ev.Exhaustive(true)
}

type mapTriple struct {
	A, B, C map[int]uint8
}

func genFlatMap(t *rapid.T, label string) map[int]uint8 {
	n := rapid.IntRange(0, 4).Draw(t, label+"n")
	if n == 0 {
		if rapid.Bool().Draw(t, label+"nilmap") {
			return nil
		}
		return map[int]uint8{}
	}
	m := map[int]uint8{}
	for i := 0; i < n; i++ {
		m[rapid.IntRange(0, 4).Draw(t, label+"k")] = uint8(rapid.IntRange(1, 7).Draw(t, label+"v")) // identity never stored
	}
	return m
}

func genFlatSlice(t *rapid.T, label string) []uint8 {
	n := rapid.IntRange(0, 5).Draw(t, label+"n")
	if n == 0 && rapid.Bool().Draw(t, label+"nilslice") {
		return nil
	}
	s := make([]uint8, n)
	for i := range s {
		s[i] = uint8(rapid.IntRange(0, 7).Draw(t, label+"v")) // identity may appear
	}
	return s
}

func TestMapLatticeLaws(t *testing.T) {
	ml := dfa.MapLattice[int, uint8, flatL]{}
	ev.Check(t, "TestMapLatticeLaws", func(rt *rapid.T) {
		a, b, c := genFlatMap(rt, "a"), genFlatMap(rt, "b"), genFlatMap(rt, "c")
		if rapid.IntRange(0, 3).Draw(rt, "alias") == 0 {
			b = maps.Clone(a)
		}
		js, _ := json.Marshal(mapTriple{a, b, c})
		ev.Begin("TestMapLatticeLaws", "maptriple.json", js)
		// Merge must not modify its arguments
		ca, cb := maps.Clone(a), maps.Clone(b)
		msg := checkLaws("MapLattice", ml.Ident(), ml.Equals, ml.Merge, a, b, c, showMap)
		if !maps.Equal(ca, a) || !maps.Equal(cb, b) {
			msg += "MapLattice.Merge modified an argument\n"
		}
		nontrivial := len(a) > 0 && len(b) > 0 && len(c) > 0
		ev.Case(ev.Hash("maplaws", string(js)), nontrivial, "laws_map")
		if msg != "" {
			ev.Failf(rt, "TestMapLatticeLaws", "%s", msg)
		}
	})
}

func TestDenseMapLatticeLaws(t *testing.T) {
	dl := dfa.DenseMapLattice[uint8, flatL]{}
	ev.Check(t, "TestDenseMapLatticeLaws", func(rt *rapid.T) {
		a, b, c := genFlatSlice(rt, "a"), genFlatSlice(rt, "b"), genFlatSlice(rt, "c")
		js, _ := json.Marshal([][]uint8{a, b, c})
		ev.Begin("TestDenseMapLatticeLaws", "densetriple.json", js)
		show := func(s []uint8) string { return fmt.Sprint(s) }
		msg := checkLaws("DenseMapLattice", dl.Ident(), dl.Equals, dl.Merge, a, b, c, show)
		nontrivial := len(a) != len(b) && len(a) > 0 && len(b) > 0
		ev.Case(ev.Hash("denselaws", string(js)), nontrivial, "laws_dense")
		if msg != "" {
			ev.Failf(rt, "TestDenseMapLatticeLaws", "%s", msg)
		}
	})
}

// ------------------------------------------------------------------ replay / corpus

func replayFile(t *testing.T, f, test string) {
	b, err := os.ReadFile(f)
	if err != nil {
		ev.Infra("cannot read %s: %v", f, err)
		return
	}
	var msg string
	switch {
	case strings.HasSuffix(f, ".dense.json"):
		var gr Graph
		if err := json.Unmarshal(b, &gr); err != nil {
			ev.Infra("decode %s: %v", f, err)
			return
		}
		msg, _ = evalDense(&gr)
	case strings.HasSuffix(f, ".sparse.json"):
		var sc SparseCase
		if err := json.Unmarshal(b, &sc); err != nil {
			ev.Infra("decode %s: %v", f, err)
			return
		}
		msg, _, _ = evalSparse(&sc)
	case strings.HasSuffix(f, ".maptriple.json"):
		var tr mapTriple
		json.Unmarshal(b, &tr)
		ml := dfa.MapLattice[int, uint8, flatL]{}
		msg = checkLaws("MapLattice", ml.Ident(), ml.Equals, ml.Merge, tr.A, tr.B, tr.C, showMap)
	case strings.HasSuffix(f, ".densetriple.json"):
		var tr [][]uint8
		json.Unmarshal(b, &tr)
		dl := dfa.DenseMapLattice[uint8, flatL]{}
		msg = checkLaws("DenseMapLattice", dl.Ident(), dl.Equals, dl.Merge, tr[0], tr[1], tr[2], func(s []uint8) string { return fmt.Sprint(s) })
	default:
		ev.Infra("unknown replay kind %s", f)
		return
	}
	ev.Case(ev.Hash("replay", string(b)), true, "corpus")
	if msg != "" {
		ev.Violate(test, fmt.Sprintf("replay of %s:\n%s", f, msg), filepath.Ext(f)[1:], b)
		t.Errorf("%s", msg)
	} else {
		t.Logf("replay %s: property holds", f)
	}
}

func TestCorpus(t *testing.T) {
	if os.Getenv("VERIF_SECONDARY") != "" {
		return
	}
	files, _ := filepath.Glob(filepath.Join(os.Getenv("VERIF_ROOT"), "corpus", "C13", "*.json"))
	sort.Strings(files)
	for _, f := range files {
		replayFile(t, f, "TestCorpus")
	}
}

func TestReplay(t *testing.T) {
	if f := ev.ReplayFile(); f != "" {
		replayFile(t, f, "TestReplay")
	}
}
