// Package cfggen generates small, type-correct, terminating, import-free Go
// packages whose functions have rich control-flow graphs: structured nests of
// if/for/switch/range with labelled break/continue, and "goto graphs" drawn as
// arbitrary digraphs (irreducible loops, self loops, unreachable labels),
// optional defer/recover (which gives the IR function a Recover block), locals
// whose address escapes on some paths only (partial lifting), closures,
// multi-value calls (tuples) and range-over-func loops.
//
// Every random choice is a rapid draw, so programs shrink as one value.
package cfggen

import (
	"fmt"
	"strings"

	"pgregory.net/rapid"
)

type Config struct {
	MaxFuncs  int
	MaxDepth  int
	MaxStmts  int
	MaxLabels int
	NoRecover bool
}

func Default() Config { return Config{MaxFuncs: 4, MaxDepth: 3, MaxStmts: 4, MaxLabels: 7} }

type Program struct {
	Src      string
	Funcs    []string // names of generated target functions, all func(a, b int, c bool) int
	Features map[string]bool
}

const prelude = `package p

var g0, g1 int
var fuel int
var trace []int

func tr(k int) {
	if len(trace) < 64 {
		trace = append(trace, k)
	}
}

func sink(p *int) {
	if p != nil {
		g0 += *p
		*p = *p + 1
	}
}

func two(a, b int) (int, int) { return a + b, a - b }

func iter(n int) func(func(int) bool) {
	return func(yield func(int) bool) {
		for i := 0; i < n && i < 4; i++ {
			if !yield(i) {
				return
			}
		}
	}
}

type box struct {
	x, y int
	p    *int
}

`

type gen struct {
	t      *rapid.T
	cfg    Config
	sb     strings.Builder
	feat   map[string]bool
	nvars  int
	labels []string // enclosing loop labels usable by break/continue
	inLoop int
	inFunc int // nesting of func literals (no return of outer value there)
	uniq   int
}

func (g *gen) pick(label string, n int) int { return rapid.IntRange(0, n-1).Draw(g.t, label) }
func (g *gen) chance(label string, num, den int) bool {
	return rapid.IntRange(0, den-1).Draw(g.t, label) < num
}

func (g *gen) v() string { return fmt.Sprintf("v%d", g.pick("var", g.nvars)) }

func (g *gen) atom() string {
	switch g.pick("atom", 7) {
	case 0:
		return "a"
	case 1:
		return "b"
	case 2:
		return fmt.Sprint(g.pick("const", 5))
	case 3:
		return "g0"
	default:
		return g.v()
	}
}

func (g *gen) expr(d int) string {
	if d <= 0 || g.chance("leaf", 2, 5) {
		return g.atom()
	}
	switch g.pick("expr", 6) {
	case 0:
		return "(" + g.expr(d-1) + " + " + g.expr(d-1) + ")"
	case 1:
		return "(" + g.expr(d-1) + " - " + g.expr(d-1) + ")"
	case 2:
		return "(" + g.expr(d-1) + " * " + g.atom() + ")"
	case 3:
		return "(" + g.expr(d-1) + " ^ " + g.expr(d-1) + ")"
	case 4:
		return "(" + g.expr(d-1) + " & 15)"
	default:
		return "-" + g.atom()
	}
}

func (g *gen) cond() string {
	switch g.pick("cond", 6) {
	case 0:
		return "c"
	case 1:
		return g.expr(1) + " < " + g.expr(1)
	case 2:
		return g.expr(1) + " == " + g.atom()
	case 3:
		return g.expr(1) + "%2 == 0"
	case 4:
		return "!c && " + g.atom() + " > 0"
	default:
		return g.atom() + " != " + g.atom() + " || c"
	}
}

func (g *gen) w(indent int, format string, a ...any) {
	g.sb.WriteString(strings.Repeat("\t", indent))
	fmt.Fprintf(&g.sb, format, a...)
	g.sb.WriteString("\n")
}

func (g *gen) block(ind, d int) {
	n := 1 + g.pick("nstmts", g.cfg.MaxStmts)
	for i := 0; i < n; i++ {
		g.stmt(ind, d)
	}
}

func (g *gen) fuelGuard(ind int) {
	g.w(ind, "fuel--")
	g.w(ind, "if fuel < 0 {")
	if g.inFunc > 0 {
		g.w(ind+1, "return")
	} else {
		g.w(ind+1, "return v0")
	}
	g.w(ind, "}")
}

func (g *gen) stmt(ind, d int) {
	k := g.pick("stmt", 22)
	if d <= 0 && k >= 6 {
		k = g.pick("simple", 6)
	}
	switch k {
	case 0, 1:
		g.w(ind, "%s = %s", g.v(), g.expr(2))
	case 2:
		g.w(ind, "%s += %s", g.v(), g.expr(1))
	case 3:
		x, y := g.v(), g.v()
		if x != y {
			g.feat["swap"] = true
			g.w(ind, "%s, %s = %s, %s", x, y, y, x)
		} else {
			g.w(ind, "%s++", x)
		}
	case 4:
		g.w(ind, "tr(%s)", g.expr(1))
	case 5:
		g.w(ind, "g%d = %s", g.pick("glob", 2), g.expr(1))
	case 6, 7:
		g.feat["if"] = true
		g.w(ind, "if %s {", g.cond())
		g.block(ind+1, d-1)
		switch g.pick("else", 3) {
		case 0:
			g.w(ind, "} else {")
			g.block(ind+1, d-1)
		case 1:
			g.w(ind, "} else if %s {", g.cond())
			g.block(ind+1, d-1)
		}
		g.w(ind, "}")
	case 8, 9:
		g.feat["for"] = true
		g.uniq++
		lbl := fmt.Sprintf("L%d", g.uniq)
		uselbl := g.chance("uselabel", 1, 2)
		iv := fmt.Sprintf("i%d", g.uniq)
		hdr := ""
		switch g.pick("forkind", 4) {
		case 0:
			hdr = fmt.Sprintf("for %s := 0; %s < %d; %s++ {", iv, iv, 1+g.pick("bound", 4), iv)
		case 1:
			hdr = fmt.Sprintf("for %s := range %d {", iv, 1+g.pick("bound", 4))
			g.feat["range-int"] = true
		case 2:
			hdr = fmt.Sprintf("for %s := 0; %s; %s++ {", iv, g.cond(), iv)
		default:
			hdr = fmt.Sprintf("for %s := 0; ; %s++ {", iv, iv)
		}
		if uselbl {
			g.w(ind-0, "%s:", lbl)
		}
		g.w(ind, "%s", hdr)
		g.fuelGuard(ind + 1)
		g.w(ind+1, "_ = %s", iv)
		if uselbl {
			g.labels = append(g.labels, lbl)
		}
		g.inLoop++
		g.block(ind+1, d-1)
		if uselbl {
			// make sure the label is used
			g.w(ind+1, "if %s {", g.cond())
			if g.chance("lblkind", 1, 2) {
				g.w(ind+2, "continue %s", lbl)
			} else {
				g.w(ind+2, "break %s", lbl)
			}
			g.w(ind+1, "}")
			g.labels = g.labels[:len(g.labels)-1]
		}
		g.inLoop--
		g.w(ind, "}")
	case 10:
		if g.inLoop > 0 {
			g.feat["break-continue"] = true
			kw := []string{"break", "continue"}[g.pick("bc", 2)]
			if len(g.labels) > 0 && g.chance("labelled", 1, 2) {
				g.feat["labelled-jump"] = true
				g.w(ind, "if %s {", g.cond())
				g.w(ind+1, "%s %s", kw, g.labels[g.pick("lbl", len(g.labels))])
				g.w(ind, "}")
			} else {
				g.w(ind, "if %s {", g.cond())
				g.w(ind+1, "%s", kw)
				g.w(ind, "}")
			}
		} else {
			g.w(ind, "%s--", g.v())
		}
	case 11, 12:
		g.feat["switch"] = true
		tagless := g.chance("tagless", 1, 3)
		if tagless {
			g.w(ind, "switch {")
			g.w(ind, "case %s:", g.cond())
		} else {
			g.w(ind, "switch %s {", g.expr(1))
			if g.chance("dyncase", 1, 3) {
				g.feat["switch-dynamic-case"] = true
				g.w(ind, "case %s, %s:", g.atom(), g.v())
			} else {
				g.w(ind, "case 0, 1:")
			}
		}
		g.block(ind+1, d-1)
		if g.chance("fallthrough", 1, 3) {
			g.feat["fallthrough"] = true
			g.w(ind+1, "fallthrough")
		}
		if tagless {
			g.w(ind, "case %s == 3 || c:", g.v())
		} else {
			g.w(ind, "case 9:")
		}
		g.block(ind+1, d-1)
		if g.chance("default", 2, 3) {
			g.w(ind, "default:")
			g.block(ind+1, d-1)
		}
		g.w(ind, "}")
	case 13:
		g.feat["addr-escape"] = true
		g.w(ind, "sink(&%s)", g.v())
	case 14:
		g.feat["tuple-call"] = true
		x, y := g.v(), g.v()
		if x == y {
			g.w(ind, "%s, _ = two(%s, %s)", x, g.expr(1), g.expr(1))
		} else {
			g.w(ind, "%s, %s = two(%s, %s)", x, y, g.expr(1), g.expr(1))
		}
	case 15:
		g.feat["closure"] = true
		g.w(ind, "func() {")
		g.inFunc++
		saveLoop, saveLabels := g.inLoop, g.labels
		g.inLoop, g.labels = 0, nil
		g.block(ind+1, d-1)
		g.inLoop, g.labels = saveLoop, saveLabels
		g.inFunc--
		g.w(ind, "}()")
	case 16:
		if g.inFunc == 0 {
			g.feat["early-return"] = true
			g.w(ind, "if %s {", g.cond())
			g.w(ind+1, "return %s", g.expr(1))
			g.w(ind, "}")
		} else {
			g.w(ind, "%s ^= 1", g.v())
		}
	case 17:
		g.feat["range-func"] = true
		g.uniq++
		iv := fmt.Sprintf("k%d", g.uniq)
		g.w(ind, "for %s := range iter(%s & 3) {", iv, g.expr(1))
		g.w(ind+1, "_ = %s", iv)
		g.inLoop++
		saveLabels := g.labels
		g.block(ind+1, d-1)
		g.labels = saveLabels
		g.inLoop--
		g.w(ind, "}")
	case 18:
		g.feat["struct-local"] = true
		g.uniq++
		bx := fmt.Sprintf("bx%d", g.uniq)
		g.w(ind, "%s := box{x: %s, y: %s}", bx, g.expr(1), g.atom())
		if g.chance("boxptr", 1, 2) {
			g.w(ind, "%s.p = &%s", bx, g.v())
			g.w(ind, "if %s.p != nil && %s {", bx, g.cond())
			g.w(ind+1, "*%s.p += %s.x", bx, bx)
			g.w(ind, "}")
		}
		g.w(ind, "%s = %s.x + %s.y", g.v(), bx, bx)
	case 19:
		g.feat["panic"] = true
		g.w(ind, "if %s && %s == 7 {", g.cond(), g.v())
		g.w(ind+1, "panic(%s)", g.atom())
		g.w(ind, "}")
	case 20:
		g.feat["defer"] = true
		g.w(ind, "defer tr(%s)", g.expr(1))
	default:
		g.w(ind, "%s = %s", g.v(), g.expr(2))
	}
}

// structured emits a function with nested structured control flow.
func (g *gen) structured(name string) {
	g.nvars = 2 + g.pick("nvars", 3)
	recov := !g.cfg.NoRecover && g.chance("recover", 1, 3)
	g.w(0, "func %s(a, b int, c bool) (r int) {", name)
	for i := 0; i < g.nvars; i++ {
		g.w(1, "v%d := %s", i, []string{"a", "b", "0", "1", "a + b"}[g.pick("init", 5)])
	}
	if recov {
		g.feat["recover"] = true
		g.w(1, "defer func() {")
		g.w(2, "if e := recover(); e != nil {")
		g.w(3, "r = -1")
		g.w(2, "}")
		g.w(1, "}()")
	}
	g.block(1, g.cfg.MaxDepth)
	for i := 0; i < g.nvars; i++ {
		g.w(1, "_ = v%d", i)
	}
	g.w(1, "return v0 + v1")
	g.w(0, "}")
	g.w(0, "")
}

// gotoGraph emits a function whose CFG is an arbitrary digraph on labels.
func (g *gen) gotoGraph(name string) {
	g.feat["goto-graph"] = true
	g.nvars = 2 + g.pick("nvars", 3)
	n := 2 + g.pick("nlabels", g.cfg.MaxLabels-1)
	recov := !g.cfg.NoRecover && g.chance("recover", 1, 4)
	g.w(0, "func %s(a, b int, c bool) (r int) {", name)
	for i := 0; i < g.nvars; i++ {
		g.w(1, "var v%d int = %s", i, []string{"a", "b", "0", "1"}[g.pick("init", 4)])
	}
	for i := 0; i < g.nvars; i++ {
		g.w(1, "_ = v%d", i)
	}
	escape := g.chance("escapes", 1, 2)
	if recov {
		g.feat["recover"] = true
		g.w(1, "defer func() {")
		g.w(2, "if e := recover(); e != nil {")
		g.w(3, "r = -1")
		g.w(2, "}")
		g.w(1, "}()")
	}
	targeted := make([]bool, n)
	type blk struct{ lines []string }
	blocks := make([]blk, n)
	for i := 0; i < n; i++ {
		var ls []string
		ls = append(ls, "fuel--", "if fuel < 0 {", "\treturn v0", "}")
		na := g.pick("nassign", 3)
		for j := 0; j < na; j++ {
			switch g.pick("gstmt", 6) {
			case 0:
				if escape {
					g.feat["addr-escape"] = true
					ls = append(ls, fmt.Sprintf("sink(&%s)", g.v()))
					break
				}
				fallthrough
			case 1:
				x, y := g.v(), g.v()
				if x != y {
					g.feat["swap"] = true
					ls = append(ls, fmt.Sprintf("%s, %s = %s, %s", x, y, y, x))
					break
				}
				fallthrough
			case 2:
				ls = append(ls, fmt.Sprintf("tr(%s)", g.expr(1)))
			case 3:
				ls = append(ls, fmt.Sprintf("if %s == 9 {", g.v()), fmt.Sprintf("\tpanic(%s)", g.atom()), "}")
			default:
				ls = append(ls, fmt.Sprintf("%s = %s", g.v(), g.expr(2)))
			}
		}
		switch g.pick("term", 8) {
		case 0:
			ls = append(ls, fmt.Sprintf("return %s", g.expr(1)))
		case 1:
			t := g.pick("target", n)
			targeted[t] = true
			ls = append(ls, fmt.Sprintf("goto B%d", t))
		case 2:
			// three-way
			t1, t2, t3 := g.pick("target", n), g.pick("target", n), g.pick("target", n)
			targeted[t1], targeted[t2], targeted[t3] = true, true, true
			ls = append(ls, fmt.Sprintf("switch %s & 3 {", g.expr(1)), "case 0:", fmt.Sprintf("\tgoto B%d", t1), "case 1:", fmt.Sprintf("\tgoto B%d", t2), "}", fmt.Sprintf("goto B%d", t3))
		default:
			t1, t2 := g.pick("target", n), g.pick("target", n)
			targeted[t1], targeted[t2] = true, true
			if t1 == i {
				g.feat["self-loop"] = true
			}
			ls = append(ls, fmt.Sprintf("if %s {", g.cond()), fmt.Sprintf("\tgoto B%d", t1), "}", fmt.Sprintf("goto B%d", t2))
		}
		blocks[i].lines = ls
	}
	// entry jumps to a drawn start label
	start := g.pick("start", n)
	targeted[start] = true
	if n >= 3 && g.chance("force-irreducible", 1, 3) {
		// a loop {x, y} entered at both x and y: start -> x | y, x -> y, y -> x
		x := (start + 1 + g.pick("irx", n-1)) % n
		y := x
		for y == x || y == start {
			y = (y + 1) % n
		}
		g.feat["forced-irreducible"] = true
		setTerm := func(i int, lines ...string) {
			ls := blocks[i].lines
			// drop the drawn terminator: everything after the last assignment group is replaced
			blocks[i].lines = append(ls[:4:4], lines...)
		}
		setTerm(start, fmt.Sprintf("if %s {", g.cond()), fmt.Sprintf("\tgoto B%d", x), "}", fmt.Sprintf("goto B%d", y))
		setTerm(x, fmt.Sprintf("%s = %s", g.v(), g.expr(1)), fmt.Sprintf("if %s {", g.cond()), fmt.Sprintf("\tgoto B%d", y), "}", fmt.Sprintf("return %s", g.v()))
		z := g.pick("irz", n)
		setTerm(y, fmt.Sprintf("%s += 1", g.v()), fmt.Sprintf("if %s {", g.cond()), fmt.Sprintf("\tgoto B%d", x), "}", fmt.Sprintf("goto B%d", z))
		// recompute which labels are targeted
		for i := range targeted {
			targeted[i] = false
		}
		targeted[start] = true
		for i := 0; i < n; i++ {
			for _, l := range blocks[i].lines {
				var t int
				if _, err := fmt.Sscanf(strings.TrimSpace(l), "goto B%d", &t); err == nil {
					targeted[t] = true
				}
			}
		}
	}
	g.w(1, "goto B%d", start)
	for i := 0; i < n; i++ {
		if !targeted[i] {
			// a label must be used: reference it from dead code at the end
			continue
		}
		g.w(0, "B%d:", i)
		for _, l := range blocks[i].lines {
			g.w(1, "%s", l)
		}
	}
	// untargeted labels become unreachable regions that still jump around
	var dead []int
	for i := 0; i < n; i++ {
		if !targeted[i] {
			dead = append(dead, i)
		}
	}
	if len(dead) > 0 {
		g.feat["unreachable-label"] = true
		g.w(1, "goto B%d", dead[0])
		for _, i := range dead {
			g.w(0, "B%d:", i)
			for _, l := range blocks[i].lines {
				g.w(1, "%s", l)
			}
			// chain so every dead label is referenced
		}
		for _, i := range dead[1:] {
			g.w(1, "goto B%d", i)
		}
	}
	g.w(1, "return v0 + v1")
	g.w(0, "}")
	g.w(0, "")
}

// Generate draws a package.
func Generate(t *rapid.T, cfg Config) *Program {
	g := &gen{t: t, cfg: cfg, feat: map[string]bool{}}
	g.sb.WriteString(prelude)
	p := &Program{Features: g.feat}
	nf := 1 + g.pick("nfuncs", cfg.MaxFuncs)
	for i := 0; i < nf; i++ {
		name := fmt.Sprintf("F%d", i)
		p.Funcs = append(p.Funcs, name)
		if g.chance("gotomode", 1, 2) {
			g.gotoGraph(name)
		} else {
			g.structured(name)
		}
	}
	p.Src = g.sb.String()
	return p
}
