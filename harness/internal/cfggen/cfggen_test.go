package cfggen

import (
	"sort"
	"testing"

	"honnef.co/go/tools/go/ir"
	"pgregory.net/rapid"
	"verif/harness/internal/irbuild"
)

func TestGenerateTypechecks(t *testing.T) {
	feats := map[string]int{}
	n := 0
	rapid.Check(t, func(rt *rapid.T) {
		p := Generate(rt, Default())
		defer func() {
			if r := recover(); r != nil {
				rt.Fatalf("PANIC %v\n%s", r, p.Src)
			}
		}()
		_, _, err := irbuild.BuildOne(p.Src, "go1.26", ir.SanityCheckFunctions|ir.BuildSerially)
		if err != nil {
			rt.Fatalf("%v\n%s", err, p.Src)
		}
		n++
		for f := range p.Features {
			feats[f]++
		}
	})
	var ks []string
	for k := range feats {
		ks = append(ks, k)
	}
	sort.Strings(ks)
	for _, k := range ks {
		t.Logf("%-22s %d/%d", k, feats[k], n)
	}
}
