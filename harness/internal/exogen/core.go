// Package exogen generates small buildable Go packages made of "exotic but
// valid" Go: the corners of the language and of the standard library call
// shapes that the analyzers of staticcheck pattern-match on, combined from
// shared pools (a type pool, an expression generator, name stylers, operand
// "exoticisers") so that the families mix:
//
//	a. type declarations (recursive types through every position, aliases,
//	   defined types over every kind, generic types, constraints with and
//	   without core type, parenthesised types), and uses of them in every
//	   type position;
//	b. generic functions whose bodies draw operators from the operator classes
//	   that the constraint's type set permits, conversions among slices, arrays,
//	   array pointers, strings and type parameters, type assertions, composite
//	   literals, nil comparisons;
//	c. if / else-if chains and switches that compare the same complex
//	   expression against different values, labelled loops, defer/go of exotic
//	   callees, range over everything;
//	d. call graphs with drawn edges (self/mutual recursion, unconditional
//	   cycles) whose functions return interface/pointer values from concrete
//	   allocations that callers compare against nil or dereference;
//	e. printf-family calls with formats drawn from the verb grammar and
//	   argument lists of exotic types;
//	f. documented declarations in every comment position with styled names;
//	g. the call shapes of the SA/S/ST checks with exoticised operands;
//	h. _test.go declarations (tests, benchmarks, examples, fuzz targets).
//
// A package is a list of self-contained units (one or a few top-level
// declarations each) with explicit dependencies between them, so that a
// failing package can be minimised by removing units. All randomness comes
// from rapid draws.
package exogen

import (
	"fmt"
	"go/scanner"
	"go/token"
	"sort"
	"strings"

	"pgregory.net/rapid"
)

// Config steers generation.
type Config struct {
	// Include reports whether the input class of the recorded finding sig may
	// be generated (nil: everything is generated).
	Include func(sig string) bool
	// MinUnits/MaxUnits bound the number of family draws per package.
	MinUnits, MaxUnits int
	// Test adds a _test.go file.
	Test bool
	// Families restricts generation to the named families (nil: all).
	Families []string
	// NoRepair disables the in-process type check that drops invalid units.
	NoRepair bool
}

// Unit is one or a few top-level declarations.
type Unit struct {
	ID     int      `json:"id"`
	Text   string   `json:"text"`
	Family string   `json:"family"`
	Feats  []string `json:"feats,omitempty"`
	Deps   []int    `json:"deps,omitempty"` // IDs of units whose declarations this one refers to
	Test   bool     `json:"test,omitempty"` // belongs in the _test.go file
}

// Package is a generated package.
type Package struct {
	Name     string         `json:"name"`
	Units    []Unit         `json:"units"`
	Excluded map[string]int `json:"excluded,omitempty"` // generator exclusions applied, per finding signature
	Dropped  map[string]int `json:"dropped,omitempty"`  // units dropped by the validity repair, per family
}

// the standard library packages the families may refer to, by the identifier used in the source
var stdImports = map[string]string{
	"fmt": "fmt", "errors": "errors", "strings": "strings", "bytes": "bytes", "strconv": "strconv",
	"regexp": "regexp", "time": "time", "sync": "sync", "atomic": "sync/atomic", "sort": "sort",
	"os": "os", "signal": "os/signal", "syscall": "syscall", "http": "net/http", "json": "encoding/json",
	"xml": "encoding/xml", "binary": "encoding/binary", "unsafe": "unsafe", "context": "context",
	"cmp": "cmp", "log": "log", "io": "io", "math": "math", "rand": "math/rand", "url": "net/url",
	"reflect": "reflect", "testing": "testing", "utf8": "unicode/utf8", "unicode": "unicode",
	"template": "text/template", "slices": "slices", "maps": "maps", "filepath": "path/filepath",
	"bufio": "bufio", "net": "net", "ioutil": "io/ioutil", "flag": "flag", "sha256": "crypto/sha256",
	"iter": "iter", "exec": "os/exec", "heap": "container/heap", "big": "math/big", "path": "path",
	"bits": "math/bits", "elliptic": "crypto/elliptic", "tls": "crypto/tls", "x509": "crypto/x509",
	"hex": "encoding/hex", "base64": "encoding/base64", "runtime": "runtime", "debug": "runtime/debug", "tar": "archive/tar",
}

// importsOf lists the import paths a piece of source needs: every known
// package identifier that is used as a qualifier (outside strings and comments).
func importsOf(src string) []string {
	seen := map[string]bool{}
	var sc scanner.Scanner
	fset := token.NewFileSet()
	sc.Init(fset.AddFile("", fset.Base(), len(src)), []byte(src), nil, 0)
	prev, prev2 := token.ILLEGAL, token.ILLEGAL
	prevLit := ""
	for {
		_, tok, lit := sc.Scan()
		if tok == token.EOF {
			break
		}
		if tok == token.IDENT && prev == token.PERIOD && prev2 == token.IDENT {
			// prevLit . lit: handled when the period was seen
		}
		if tok == token.PERIOD && prev == token.IDENT && prev2 != token.PERIOD {
			if p, ok := stdImports[prevLit]; ok {
				seen[p] = true
			}
		}
		prev2, prev = prev, tok
		if tok == token.IDENT {
			prevLit = lit
		}
	}
	var out []string
	for p := range seen {
		out = append(out, p)
	}
	sort.Strings(out)
	return out
}

// Source renders the non-test file (test=false) or the _test.go file
// (test=true; "" when the package has no test units).
func (p *Package) Source(test bool) string {
	src, _ := p.render(test)
	return src
}

// render also returns, per unit index, the first and last line of its text.
func (p *Package) render(test bool) (string, map[int][2]int) {
	var body strings.Builder
	n := 0
	for _, u := range p.Units {
		if u.Test == test {
			n++
		}
	}
	if n == 0 {
		return "", nil
	}
	for _, u := range p.Units {
		if u.Test == test {
			body.WriteString(u.Text)
			body.WriteString("\n\n")
		}
	}
	var sb strings.Builder
	if !test {
		sb.WriteString("// Package " + p.Name + " is generated.\n")
	}
	sb.WriteString("package " + p.Name + "\n\n")
	imps := importsOf(body.String())
	if len(imps) > 0 {
		sb.WriteString("import (\n")
		for _, i := range imps {
			sb.WriteString("\t\"" + i + "\"\n")
		}
		sb.WriteString(")\n\n")
	}
	lines := map[int][2]int{}
	line := strings.Count(sb.String(), "\n") + 1
	for i, u := range p.Units {
		if u.Test != test {
			continue
		}
		k := strings.Count(u.Text, "\n")
		lines[i] = [2]int{line, line + k}
		sb.WriteString(u.Text)
		sb.WriteString("\n\n")
		line += k + 2
	}
	return sb.String(), lines
}

// Keep returns the package restricted to the units with the given IDs, closed
// under dependencies.
func (p *Package) Keep(ids map[int]bool) *Package {
	byID := map[int]*Unit{}
	for i := range p.Units {
		byID[p.Units[i].ID] = &p.Units[i]
	}
	keep := map[int]bool{}
	var add func(id int)
	add = func(id int) {
		if keep[id] || byID[id] == nil {
			return
		}
		keep[id] = true
		for _, d := range byID[id].Deps {
			add(d)
		}
	}
	for id := range ids {
		add(id)
	}
	q := &Package{Name: p.Name, Excluded: p.Excluded, Dropped: p.Dropped}
	for _, u := range p.Units {
		if keep[u.ID] {
			q.Units = append(q.Units, u)
		}
	}
	return q
}

// Classes lists the evidence classes of the package: one per family and one
// per feature that occurs.
func (p *Package) Classes() []string {
	seen := map[string]bool{}
	for _, u := range p.Units {
		seen["fam_"+u.Family] = true
		for _, f := range u.Feats {
			seen["feat_"+f] = true
		}
	}
	var out []string
	for c := range seen {
		out = append(out, c)
	}
	sort.Strings(out)
	return out
}

// ---------------------------------------------------------------- generator state

type gen struct {
	t     *rapid.T
	cfg   Config
	n     int
	units []Unit
	stack []*Unit // units under construction (innermost last)
	pool  []*Ty   // named types declared so far
	funcs []*fnInfo
	excl  map[string]int
	sc    *scope // body under construction (nil at package level)

	rng     uint64 // state of the decision stream
	pkgSeed uint64

	noBlankTP bool // the method under construction mentions the receiver's type parameters

	heavy       bool // the package may import the standard packages with large dependency graphs
	testMode    bool // units are created for the _test.go file
	hasTestMain bool

	printfHelpers int // unit of the printf helper declarations (-1: not declared yet)
	exoHelpers    int // unit of the operand exoticiser helpers (-1: not declared yet)
}

// fnInfo is a declared package-level function that later units may call.
type fnInfo struct {
	Test    bool
	Name    string
	Params  []*Ty
	Results []*Ty
	unit    int
}

func (g *gen) include(sig string) bool {
	if g.cfg.Include == nil || g.cfg.Include(sig) {
		return true
	}
	g.excl[sig]++
	return false
}

// rapid's integer generators favour small values and the ends of a range
// (IntRange(0, 99) is below 10 in about 40% of the draws), which is what one
// wants for test data but not for weighted choices. The generator therefore
// takes its decisions from a splitmix64 stream that is re-seeded, for every
// unit, with a value drawn from rapid: the rapid draws remain the only source
// of randomness, and the choices are uniform.
func (g *gen) next() uint64 {
	g.rng += 0x9E3779B97F4A7C15
	z := g.rng
	z = (z ^ (z >> 30)) * 0xBF58476D1CE4E5B9
	z = (z ^ (z >> 27)) * 0x94D049BB133111EB
	return z ^ (z >> 31)
}

func (g *gen) intn(lo, hi int, label string) int {
	if hi <= lo {
		return lo
	}
	return lo + int(g.next()%uint64(hi-lo+1))
}

func (g *gen) flip(label string) bool { return g.next()&1 == 1 }

// chance is true with probability pct percent.
func (g *gen) chance(pct int, label string) bool { return int(g.next()%100) < pct }

func pick[T any](g *gen, label string, xs ...T) T { return xs[g.next()%uint64(len(xs))] }

// reseed starts the decision stream of the next unit.
func (g *gen) reseed() {
	s := rapid.Uint64().Draw(g.t, "unit_seed")
	g.rng = g.pkgSeed ^ (s * 0xD6E8FEB86659FD93) ^ uint64(len(g.units))<<48
	g.next()
}

func (g *gen) feat(fs ...string) {
	if len(g.stack) == 0 {
		return
	}
	u := g.stack[len(g.stack)-1]
	for _, f := range fs {
		dup := false
		for _, x := range u.Feats {
			if x == f {
				dup = true
			}
		}
		if !dup {
			u.Feats = append(u.Feats, f)
		}
	}
}

// dep records that the unit under construction refers to a declaration of unit id.
func (g *gen) dep(id int) {
	if id < 0 || len(g.stack) == 0 {
		return
	}
	u := g.stack[len(g.stack)-1]
	if u.ID == id {
		return
	}
	for _, d := range u.Deps {
		if d == id {
			return
		}
	}
	u.Deps = append(u.Deps, id)
}

// unit builds one unit; units may be created while another one is being built
// (a pool type declared on demand), the outer one then depends on the inner.
func (g *gen) unit(family string, test bool, build func() string) int {
	u := &Unit{ID: len(g.units), Family: family, Test: test}
	g.units = append(g.units, Unit{}) // reserve the slot
	g.stack = append(g.stack, u)
	saveScope := g.sc
	g.sc = nil // a unit is a top-level declaration: nothing of an enclosing body is visible in it
	u.Text = build()
	g.sc = saveScope
	g.stack = g.stack[:len(g.stack)-1]
	sort.Ints(u.Deps)
	g.units[u.ID] = *u
	g.dep(u.ID)
	return u.ID
}

func (g *gen) curUnit() int {
	if len(g.stack) == 0 {
		return -1
	}
	return g.stack[len(g.stack)-1].ID
}

// fresh returns a new identifier with the given prefix.
func (g *gen) fresh(prefix string) string {
	g.n++
	return fmt.Sprintf("%s%d", prefix, g.n)
}

var nameStems = []string{"foo", "bar", "Http", "Id", "url", "Json", "my_var", "Some_Name", "ALL_CAPS", "x", "ç", "Ünï", "api", "Uid", "kFoo", "this", "self", "err", "Err", "T", "v", "Sql", "ip", "Tls"}

// styled returns a fresh identifier in a drawn naming style (ST1003 material).
func (g *gen) styled(exported bool) string {
	stem := pick(g, "stem", nameStems...)
	r := []rune(stem)
	if exported {
		r[0] = []rune(strings.ToUpper(string(r[0])))[0]
		if !isUpper(r[0]) {
			r = append([]rune{'X'}, r...)
		}
	} else {
		r[0] = []rune(strings.ToLower(string(r[0])))[0]
		if isUpper(r[0]) {
			r = append([]rune{'x'}, r...)
		}
	}
	g.n++
	sep := ""
	if strings.Contains(stem, "_") && g.flip("sep") {
		sep = "_"
	}
	return fmt.Sprintf("%s%s%d", string(r), sep, g.n)
}

func isUpper(r rune) bool {
	return strings.ToUpper(string(r)) == string(r) && strings.ToLower(string(r)) != string(r)
}

// ---------------------------------------------------------------- types

type Kind int

const (
	KBool Kind = iota
	KInt
	KFloat
	KComplex
	KString
	KUnsafe
	KPtr
	KSlice
	KArray
	KMap
	KChan
	KFunc
	KStruct
	KIface
	KTParam
)

type Field struct {
	Name     string
	T        *Ty
	Embedded bool
	Tag      string
}

type Meth struct {
	Name    string
	Params  []*Ty
	Results []*Ty
	Ptr     bool
}

// Ty is a type of the generated program.
type Ty struct {
	K        Kind
	Name     string // basic types, defined types, aliases, type parameters
	Named    bool   // declared in the package (Under is the declared underlying type literal)
	Under    *Ty
	Elem     *Ty
	Key      *Ty
	Len      int
	Dir      int // channels: 0 bidirectional, 1 receive-only, 2 send-only
	Params   []*Ty
	Results  []*Ty
	Variadic bool
	Fields   []Field
	Methods  []Meth // defined types: declared methods; interfaces: methods
	Con      *Con   // type parameters
	Rec      bool   // self-referential
	Generic  bool   // an instantiation of a generic type
	Impls    []Impl // interfaces: declared types known to implement it
	Test     bool   // declared in the _test.go file
	open     bool   // its declaration is still being generated
	SelfEmb  bool   // a struct that embeds a pointer to itself
	EmbPtr   bool   // a struct that embeds a pointer to a struct
	Opaque   bool   // known by its source text only (Name holds a type literal or a qualified name)
	unit     int
}

// Impl is a type that implements an interface, through pointer receivers or not.
type Impl struct {
	T   *Ty
	Ptr bool
}

func basic(k Kind, name string) *Ty { return &Ty{K: k, Name: name, unit: -1} }

var (
	tBool    = basic(KBool, "bool")
	tInt     = basic(KInt, "int")
	tInt8    = basic(KInt, "int8")
	tInt16   = basic(KInt, "int16")
	tInt32   = basic(KInt, "int32")
	tInt64   = basic(KInt, "int64")
	tUint    = basic(KInt, "uint")
	tUint8   = basic(KInt, "uint8")
	tUint16  = basic(KInt, "uint16")
	tUint32  = basic(KInt, "uint32")
	tUint64  = basic(KInt, "uint64")
	tUintptr = basic(KInt, "uintptr")
	tByte    = basic(KInt, "byte")
	tRune    = basic(KInt, "rune")
	tF32     = basic(KFloat, "float32")
	tF64     = basic(KFloat, "float64")
	tC64     = basic(KComplex, "complex64")
	tC128    = basic(KComplex, "complex128")
	tString  = basic(KString, "string")
	tUnsafe  = basic(KUnsafe, "unsafe.Pointer")
	tAny     = &Ty{K: KIface, Name: "any", unit: -1}
	tError   = &Ty{K: KIface, Name: "error", unit: -1, Methods: []Meth{{Name: "Error", Results: []*Ty{tString}}}}

	intTypes   = []*Ty{tInt, tInt8, tInt16, tInt32, tInt64, tUint, tUint8, tUint16, tUint32, tUint64, tUintptr}
	basicTypes = []*Ty{tBool, tInt, tInt8, tInt16, tInt32, tInt64, tUint, tUint8, tUint16, tUint32, tUint64, tUintptr, tByte, tRune, tF32, tF64, tC64, tC128, tString}
)

func ptrTo(t *Ty) *Ty           { return &Ty{K: KPtr, Elem: t, unit: -1} }
func sliceOf(t *Ty) *Ty         { return &Ty{K: KSlice, Elem: t, unit: -1} }
func arrayOf(n int, t *Ty) *Ty  { return &Ty{K: KArray, Len: n, Elem: t, unit: -1} }
func mapOf(k, v *Ty) *Ty        { return &Ty{K: KMap, Key: k, Elem: v, unit: -1} }
func chanOf(dir int, t *Ty) *Ty { return &Ty{K: KChan, Dir: dir, Elem: t, unit: -1} }
func funcOf(ps, rs []*Ty) *Ty   { return &Ty{K: KFunc, Params: ps, Results: rs, unit: -1} }

// u is the underlying type as far as the generator knows it.
func (t *Ty) u() *Ty {
	if t.Named && t.Under != nil {
		return t.Under
	}
	return t
}

func (t *Ty) kind() Kind { return t.u().K }

// String renders the type without parentheses.
func (t *Ty) String() string { return t.render(nil) }

// render renders the type; paren, when non-nil, decides for every type node
// whether it is wrapped in parentheses.
func (t *Ty) render(paren func() bool) string {
	s := t.render1(paren)
	if paren != nil && paren() {
		return "(" + s + ")"
	}
	return s
}

func (t *Ty) render1(paren func() bool) string {
	if t.Name != "" {
		return t.Name
	}
	switch t.K {
	case KPtr:
		return "*" + t.Elem.render(paren)
	case KSlice:
		return "[]" + t.Elem.render(paren)
	case KArray:
		return fmt.Sprintf("[%d]%s", t.Len, t.Elem.render(paren))
	case KMap:
		return "map[" + t.Key.render(paren) + "]" + t.Elem.render(paren)
	case KChan:
		e := t.Elem.render(paren)
		switch t.Dir {
		case 1:
			return "<-chan " + e
		case 2:
			return "chan<- " + e
		}
		if t.Elem.Name == "" && t.Elem.K == KChan && t.Elem.Dir == 1 && !strings.HasPrefix(e, "(") {
			e = "(" + e + ")" // chan (<-chan T)
		}
		return "chan " + e
	case KFunc:
		return "func" + sigString(t.Params, t.Results, t.Variadic, paren)
	case KStruct:
		var sb strings.Builder
		sb.WriteString("struct {")
		for i, f := range t.Fields {
			if i > 0 {
				sb.WriteString(";")
			}
			sb.WriteString(" ")
			if f.Embedded {
				sb.WriteString(f.T.render(nil))
			} else {
				sb.WriteString(f.Name + " " + f.T.render(paren))
			}
			if f.Tag != "" {
				sb.WriteString(" `" + f.Tag + "`")
			}
		}
		sb.WriteString(" }")
		return sb.String()
	case KIface:
		var sb strings.Builder
		sb.WriteString("interface {")
		for i, m := range t.Methods {
			if i > 0 {
				sb.WriteString(";")
			}
			sb.WriteString(" " + m.Name + sigString(m.Params, m.Results, false, paren))
		}
		sb.WriteString(" }")
		return sb.String()
	}
	return "int"
}

func sigString(ps, rs []*Ty, variadic bool, paren func() bool) string {
	var sb strings.Builder
	sb.WriteString("(")
	for i, p := range ps {
		if i > 0 {
			sb.WriteString(", ")
		}
		if variadic && i == len(ps)-1 {
			sb.WriteString("..." + p.Elem.render(paren))
		} else {
			sb.WriteString(p.render(paren))
		}
	}
	sb.WriteString(")")
	switch len(rs) {
	case 0:
	case 1:
		s := rs[0].render(paren)
		if strings.HasPrefix(s, "(") {
			s = "(" + s + ")" // a parenthesised single result would read as a result list
		}
		sb.WriteString(" " + s)
	default:
		sb.WriteString(" (")
		for i, r := range rs {
			if i > 0 {
				sb.WriteString(", ")
			}
			sb.WriteString(r.render(paren))
		}
		sb.WriteString(")")
	}
	return sb.String()
}

// ts renders t for a position where a parenthesised type is allowed, with
// drawn parentheses.
func (g *gen) ts(t *Ty) string {
	used := false
	s := t.render(func() bool {
		if g.chance(12, "paren") {
			used = true
			return true
		}
		return false
	})
	if used {
		g.feat("paren_type")
	}
	g.dep(t.unitOf())
	g.depsOf(t, 0)
	return s
}

// tn renders t without parentheses (composite literal types, embedded fields).
func (g *gen) tn(t *Ty) string {
	g.depsOf(t, 0)
	return t.String()
}

func (t *Ty) unitOf() int {
	if t == nil {
		return -1
	}
	return t.unit
}

// depsOf records dependencies on every declared type mentioned in t.
func (g *gen) depsOf(t *Ty, d int) {
	if t == nil || d > 6 {
		return
	}
	if t.Name != "" {
		g.dep(t.unit)
		if !t.Generic {
			return
		}
	}
	g.depsOf(t.Elem, d+1)
	g.depsOf(t.Key, d+1)
	for _, p := range t.Params {
		g.depsOf(p, d+1)
	}
	for _, p := range t.Results {
		g.depsOf(p, d+1)
	}
	for _, f := range t.Fields {
		g.depsOf(f.T, d+1)
	}
	if t.Name == "" {
		for _, m := range t.Methods {
			for _, p := range m.Params {
				g.depsOf(p, d+1)
			}
			for _, p := range m.Results {
				g.depsOf(p, d+1)
			}
		}
	}
}

func (t *Ty) nillable() bool {
	switch t.kind() {
	case KPtr, KSlice, KMap, KChan, KFunc, KIface, KUnsafe:
		return true
	case KTParam:
		return t.Con != nil && t.Con.Nillable
	}
	return false
}

func (t *Ty) comparable() bool { return t.cmp(0) }

func (t *Ty) cmp(d int) bool {
	if d > 8 {
		return false
	}
	u := t.u()
	switch u.K {
	case KSlice, KMap, KFunc:
		return false
	case KStruct:
		for _, f := range u.Fields {
			if !f.T.cmp(d + 1) {
				return false
			}
		}
		return true
	case KArray:
		return u.Elem.cmp(d + 1)
	case KTParam:
		return t.Con != nil && t.Con.Comparable
	}
	return true
}

// hasIface reports whether an interface type occurs in t outside pointers,
// channels, functions, maps and slices (types that contain one are comparable
// but not strictly comparable).
func (t *Ty) hasIface(d int) bool {
	if d > 8 {
		return true
	}
	u := t.u()
	switch u.K {
	case KIface:
		return true
	case KStruct:
		for _, f := range u.Fields {
			if f.T.hasIface(d + 1) {
				return true
			}
		}
	case KArray:
		return u.Elem.hasIface(d + 1)
	}
	return false
}

// mentionsRec reports whether a self-referential declared type occurs in t.
func (t *Ty) mentionsRec(d int) bool {
	if t == nil || d > 5 {
		return false
	}
	if t.Rec {
		return true
	}
	if t.Name != "" {
		return false
	}
	if t.Elem.mentionsRec(d+1) || t.Key.mentionsRec(d+1) {
		return true
	}
	for _, f := range t.Fields {
		if f.T.mentionsRec(d + 1) {
			return true
		}
	}
	return false
}

func (t *Ty) ordered() bool {
	switch t.kind() {
	case KInt, KFloat, KString:
		return true
	case KTParam:
		return t.Con != nil && t.Con.Ordered
	}
	return false
}

func (t *Ty) numeric() bool {
	switch t.kind() {
	case KInt, KFloat, KComplex:
		return true
	case KTParam:
		return t.Con != nil && t.Con.Numeric
	}
	return false
}

func (t *Ty) integer() bool {
	switch t.kind() {
	case KInt:
		return true
	case KTParam:
		return t.Con != nil && t.Con.Integer
	}
	return false
}

// literalable reports whether T{...} is a valid composite literal type.
func (t *Ty) literalable() bool {
	switch t.kind() {
	case KStruct, KSlice, KArray, KMap:
		return t.K != KTParam
	}
	return false
}

func same(a, b *Ty) bool { return a == b || a.String() == b.String() }

// method looks a method up.
func (t *Ty) method(name string) *Meth {
	for i := range t.Methods {
		if t.Methods[i].Name == name {
			return &t.Methods[i]
		}
	}
	if t.Named && t.Under != nil && t.Under.K == KIface {
		return t.Under.method(name)
	}
	return nil
}
