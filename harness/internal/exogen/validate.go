package exogen

import (
	"encoding/json"
	"fmt"
	"go/ast"
	"go/importer"
	"go/parser"
	"go/scanner"
	"go/token"
	"go/types"
	"io"
	"os"
	"os/exec"
	"path/filepath"
	"sort"
	"strings"
	"sync"
)

// The validity repair: the generated package is type-checked in-process
// (go/types against the export data of the standard library) and the units
// that contain errors are dropped together with their dependents. What is left
// is what the families produced correctly; `go build` remains the judge of the
// final module.

var (
	expOnce sync.Once
	exports map[string]string
	expErr  error
	impMu   sync.Mutex
	impFset = token.NewFileSet()
	imp     types.Importer
)

func loadExports() {
	// the shards of one run share the listing through a file in the run's work directory
	shared := ""
	if d := os.Getenv("VERIF_OUT"); d != "" {
		shared = filepath.Join(d, "exogen-exports.json")
		if b, err := os.ReadFile(shared); err == nil {
			m := map[string]string{}
			if json.Unmarshal(b, &m) == nil && len(m) > 0 {
				ok := true
				for _, f := range m {
					if _, err := os.Stat(f); err != nil {
						ok = false
						break
					}
				}
				if ok {
					exports = m
					setImporter()
					return
				}
			}
		}
	}
	defer func() {
		if shared != "" && expErr == nil && len(exports) > 0 {
			if b, err := json.Marshal(exports); err == nil {
				tmp := shared + fmt.Sprintf(".%d", os.Getpid())
				if os.WriteFile(tmp, b, 0o644) == nil {
					os.Rename(tmp, shared)
				}
			}
		}
	}()
	dir, err := os.MkdirTemp("", "exogen-exports-")
	if err != nil {
		expErr = err
		return
	}
	defer os.RemoveAll(dir)
	os.WriteFile(filepath.Join(dir, "go.mod"), []byte("module example.com/x\n\ngo 1.26.0\n"), 0o644)
	seen := map[string]bool{}
	var paths []string
	for _, p := range stdImports {
		if !seen[p] {
			seen[p] = true
			paths = append(paths, p)
		}
	}
	sort.Strings(paths)
	args := append([]string{"list", "-export", "-deps", "-f", "{{if .Export}}{{.ImportPath}}={{.Export}}{{end}}"}, paths...)
	cmd := exec.Command("go", args...)
	cmd.Dir = dir
	out, err := cmd.Output()
	if err != nil {
		expErr = fmt.Errorf("go list -export: %v", err)
		return
	}
	exports = map[string]string{}
	for _, line := range strings.Split(string(out), "\n") {
		if i := strings.Index(line, "="); i > 0 {
			exports[line[:i]] = line[i+1:]
		}
	}
	setImporter()
}

func setImporter() {
	imp = importer.ForCompiler(impFset, "gc", func(path string) (io.ReadCloser, error) {
		f, ok := exports[path]
		if !ok {
			return nil, fmt.Errorf("no export data for %s", path)
		}
		return os.Open(f)
	})
}

// CheckErrors type-checks the package and returns the errors with the index
// of the unit (into p.Units) each one falls into (-1: outside every unit).
func CheckErrors(p *Package) (unitErrs map[int][]string, err error) {
	expOnce.Do(loadExports)
	if expErr != nil {
		return nil, expErr
	}
	impMu.Lock()
	defer impMu.Unlock()
	fset := token.NewFileSet()
	var files []*ast.File
	type span struct {
		file string
		lo   int
		hi   int
		unit int
	}
	var spans []span
	unitErrs = map[int][]string{}
	for _, test := range []bool{false, true} {
		src, lines := p.render(test)
		if src == "" {
			continue
		}
		name := "p.go"
		if test {
			name = "p_test.go"
		}
		for u, r := range lines {
			spans = append(spans, span{name, r[0], r[1], u})
		}
		f, perr := parser.ParseFile(fset, name, src, parser.ParseComments|parser.SkipObjectResolution)
		if perr != nil {
			if el, ok := perr.(scanner.ErrorList); ok {
				for _, e := range el {
					u := -1
					for _, s := range spans {
						if s.file == e.Pos.Filename && e.Pos.Line >= s.lo && e.Pos.Line <= s.hi {
							u = s.unit
						}
					}
					unitErrs[u] = append(unitErrs[u], "syntax: "+e.Msg)
				}
				return unitErrs, nil
			}
			return nil, perr
		}
		files = append(files, f)
	}
	conf := types.Config{
		Importer:  imp,
		GoVersion: "go1.26",
		Error: func(e error) {
			te, ok := e.(types.Error)
			if !ok {
				unitErrs[-1] = append(unitErrs[-1], e.Error())
				return
			}
			pos := te.Fset.Position(te.Pos)
			u := -1
			for _, s := range spans {
				if s.file == pos.Filename && pos.Line >= s.lo && pos.Line <= s.hi {
					u = s.unit
				}
			}
			unitErrs[u] = append(unitErrs[u], te.Msg)
		},
	}
	conf.Check("example.com/m/"+p.Name, fset, files, nil)
	return unitErrs, nil
}

// repair drops the units that do not type-check (and the units depending on them).
func repair(p *Package) {
	for round := 0; round < 5; round++ {
		errs, err := CheckErrors(p)
		if err != nil || len(errs) == 0 {
			return
		}
		bad := map[int]bool{}
		for u := range errs {
			if u >= 0 {
				bad[p.Units[u].ID] = true
			}
		}
		if len(bad) == 0 {
			return // errors outside every unit: leave the verdict to go build
		}
		// dependents
		for changed := true; changed; {
			changed = false
			for _, u := range p.Units {
				if bad[u.ID] {
					continue
				}
				for _, d := range u.Deps {
					if bad[d] {
						bad[u.ID] = true
						changed = true
						break
					}
				}
			}
		}
		if p.Dropped == nil {
			p.Dropped = map[string]int{}
		}
		var keep []Unit
		for _, u := range p.Units {
			if bad[u.ID] {
				p.Dropped[u.Family]++
				continue
			}
			keep = append(keep, u)
		}
		p.Units = keep
	}
}
