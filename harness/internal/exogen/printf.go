package exogen

import (
	"fmt"
	"strings"
)

// verb draws one formatting directive from the verb grammar of package fmt,
// including malformed but compilable ones. nargs is the number of arguments
// the call will have (explicit indexes are drawn around it).
func (g *gen) verb(nargs int, explicitOK bool) string {
	var sb strings.Builder
	sb.WriteString("%")
	for g.chance(15, "flag") {
		sb.WriteString(pick(g, "flagc", "+", "-", "#", " ", "0"))
	}
	index := func() string {
		switch g.intn(0, 19, "indexform") {
		case 0:
			return "[0]"
		case 1:
			return fmt.Sprintf("[%d]", nargs+1+g.intn(0, 2, "beyond"))
		case 2:
			return pick(g, "badindex", "[x]", "[-1]", "[]", "[99999999999999999999]", "[1", "[ 1]", "[1 ]", "[+1]")
		default:
			return fmt.Sprintf("[%d]", g.intn(1, max(1, nargs), "idx"))
		}
	}
	// width
	switch w := g.intn(0, 19, "width"); {
	case w < 2:
		sb.WriteString(fmt.Sprint(g.intn(0, 12, "w")))
	case w < 4:
		sb.WriteString("*")
		g.feat("printf_star")
	case w < 6 && explicitOK:
		sb.WriteString(index() + "*")
		g.feat("printf_indexed_star")
	}
	// precision
	switch p := g.intn(0, 19, "prec"); {
	case p < 2:
		sb.WriteString("." + fmt.Sprint(g.intn(0, 5, "p")))
	case p < 3:
		sb.WriteString(".*")
		g.feat("printf_star")
	case p < 4 && explicitOK:
		sb.WriteString("." + index() + "*")
		g.feat("printf_indexed_star")
	case p < 5:
		sb.WriteString(".")
	}
	letter := pick(g, "verbletter", "v", "v", "d", "d", "d", "s", "s", "s", "q", "x", "x", "t", "f", "f", "p", "T", "c", "w", "e", "g", "b", "o", "U", "X", "E", "F", "G", "O")
	switch g.intn(0, 19, "oddletter") {
	case 0:
		letter = "%"
	case 1:
		letter = pick(g, "junkletter", "z", "!", "y", "i", "ü", "")
	}
	if explicitOK && g.chance(60, "verbindex") {
		g.feat("printf_indexed_verb")
		// recorded finding: an explicitly indexed verb whose argument has the wrong type makes SA5009
		// index the argument list by the sequential position; only %[n]v (every type is right) is kept
		if !g.include("sa5009-indexed-verb-wrong-type") {
			letter = "v"
		}
		sb.WriteString(index())
	}
	sb.WriteString(letter)
	return sb.String()
}

// format draws a format string (unquoted content) for a call with nargs arguments.
func (g *gen) format(nargs int) string {
	var parts []string
	nv := nargs
	switch g.intn(0, 9, "nverbs") {
	case 0:
		nv = nargs + 1 // too few arguments
	case 1:
		if nargs > 0 {
			nv = nargs - 1 // too many
		}
	case 2:
		nv = nargs + 2 // several verbs share arguments (meaningful with explicit indexes)
	}
	explicitOK := g.chance(50, "explicit")
	for i := 0; i < nv; i++ {
		parts = append(parts, g.verb(nargs, explicitOK))
		if g.flip("text") {
			parts = append(parts, pick(g, "fmttext", " ", "x", ": ", "%%", "\\n", "=", "100%%"))
		}
	}
	if g.chance(5, "trailingpercent") {
		parts = append(parts, "%")
	}
	return strings.Join(parts, "")
}

// printfArgs are the parameters every printf function receives, and values to pass.
const printfParams = "e any, err error, st fmt.Stringer, ps *struct{ a int }, fn func(), ch chan int, rest []any, w io.Writer"

func (g *gen) printfArg(d int) string {
	switch g.intn(0, 27, "pfarg") {
	case 22, 23:
		// values that already are interfaces
		return pick(g, "pfiface", "e", "err", "st", "w", "any(fn)", "rest[0]", "error(nil)", "fmt.Stringer(nil)", "any(e)", "(e)")
	case 24, 25, 26:
		return pick(g, "pfbasic", "1", `"s"`, "ps.a", "true", "'x'", "1.5", "len(rest)", "&ps.a", "[]byte(nil)", "ch", "fn")
	case 0:
		return "e"
	case 1:
		return "err"
	case 2:
		return "st"
	case 3:
		return "ps"
	case 4:
		return "fn"
	case 5:
		return "ch"
	case 6:
		return "nil"
	case 7:
		return g.val(tInt, d)
	case 8:
		return g.val(tString, d)
	case 9:
		return pick(g, "pfconst", "1", "1.5", "'x'", `"s"`, "true", "2i", "1 << 40")
	case 10:
		return g.val(sliceOf(tByte), d)
	case 11:
		t := g.namedType(nil)
		if t.K == KTParam {
			return "0"
		}
		return g.val(t, 1)
	case 12:
		return g.val(g.anyType(2), d)
	case 13:
		return "&e"
	case 14:
		return "rest"
	case 15:
		return pick(g, "pfexotic", "struct{ a int; b string }{1, \"x\"}", "[]error{nil}", "map[string]any{}", "[2]bool{}", "&[]int{1}", "new(error)", "os.Stdout", "time.Second", "w", "*ps", "ps.a", "(*int)(nil)", "unsafe.Pointer(nil)", "uintptr(0)", "[]byte(nil)", "[3]byte{}", "any(1)", "any(nil)", "error(nil)", "fmt.Sprint()", "func() int { return 1 }()", "int8(1)", "complex64(1)", "'\\x00'")
	case 16:
		it := g.errorType()
		return g.implVal(it, 1)
	case 17:
		return g.val(ptrTo(g.anyType(1)), d)
	case 18:
		return g.val(tF64, d)
	case 19:
		return g.val(tBool, d)
	case 20:
		return g.val(tRune, d)
	default:
		return g.val(pick(g, "pfnum", intTypes...), d)
	}
}

// printfCall draws a printf-family call statement.
func (g *gen) printfCall(d int) string {
	nargs := g.intn(0, 4, "nargs")
	var args []string
	for i := 0; i < nargs; i++ {
		args = append(args, g.printfArg(d))
	}
	f := g.format(nargs)
	var fexpr string
	switch g.intn(0, 9, "fmtexpr") {
	case 0:
		h := len(f) / 2
		for h > 0 && h < len(f) && (f[h-1] == '\\' || f[h]&0xC0 == 0x80) {
			h++
		}
		fexpr = `"` + f[:h] + `" + "` + f[h:] + `"`
		g.feat("printf_concat_format")
	case 1:
		fexpr = `("` + f + `")`
	case 2:
		fexpr = `string(fmtString("` + f + `"))`
		g.feat("printf_named_const_format")
	case 3:
		fexpr = `fmt.Sprintf("` + f + `")`
		g.feat("printf_nonconst_format")
	case 4:
		if !strings.Contains(f, "`") && !strings.Contains(f, "\\") {
			fexpr = "`" + f + "`"
			break
		}
		fexpr = `"` + f + `"`
	default:
		fexpr = `"` + f + `"`
	}
	spread := false
	if nargs == 1 && args[0] == "rest" && g.flip("spread") {
		args[0] = "rest..."
		spread = true
		g.feat("printf_spread_args")
	}
	_ = spread
	all := strings.Join(append([]string{fexpr}, args...), ", ")
	switch g.intn(0, 11, "printfn") {
	case 0, 1, 2:
		return "fmt.Printf(" + all + ")"
	case 3:
		return "_ = fmt.Sprintf(" + all + ")"
	case 4:
		return "_ = fmt.Errorf(" + all + ")"
	case 5:
		return "fmt.Fprintf(" + pick(g, "fprintfw", "os.Stderr", "w", "new(bytes.Buffer)", "io.Discard", "&strings.Builder{}") + ", " + all + ")"
	case 6:
		return "log.Printf(" + all + ")"
	case 7:
		return pick(g, "logfn", "log.Fatalf(", "log.Panicf(", "log.New(w, \"\", 0).Printf(", "log.Default().Fatalf(") + all + ")"
	case 8:
		g.feat("printf_wrapper")
		return "printfWrapper(" + all + ")"
	case 9:
		return "_, _ = fmt.Sscanf(\"1\", " + all + ")"
	case 10:
		g.feat("printf_method_value")
		return "func() { pf := fmt.Printf; pf(" + all + ") }()"
	default:
		return "_ = fmt.Appendf(nil, " + all + ")"
	}
}

// printfStmt is a printf statement for general bodies: the parameters that
// printfCall refers to are bound locally.
func (g *gen) printfStmt(d int) string {
	g.feat("printf_in_body")
	g.needPrintfHelpers()
	return "func(" + printfParams + ") {\n\t\t" + g.printfCall(d) + "\n\t}(nil, nil, nil, nil, nil, nil, nil, nil)"
}

// needPrintfHelpers declares the named format type and the wrapper once per package.
func (g *gen) needPrintfHelpers() {
	if g.printfHelpers != -1 {
		g.dep(g.printfHelpers)
		return
	}
	g.printfHelpers = -2 // under construction
	save := g.sc
	g.sc = nil
	id := g.unit("printf", false, func() string {
		return "type fmtString string\n\nfunc printfWrapper(format string, args ...any) {\n\tfmt.Printf(format, args...)\n}"
	})
	g.sc = save
	g.printfHelpers = id
	g.dep(id)
}

// printfFunc is family e: a function full of printf-family calls.
func (g *gen) printfFunc() {
	g.needPrintfHelpers()
	g.unit("printf", g.inTest(), func() string {
		g.dep(g.printfHelpers)
		name := g.styled(g.flip("expfn"))
		save := g.sc
		g.sc = &scope{}
		defer func() { g.sc = save }()
		var lines []string
		for i, n := 0, g.intn(3, 10, "ncalls"); i < n; i++ {
			lines = append(lines, g.printfCall(1))
		}
		return g.doc(name) + "func " + name + "(" + printfParams + ") {\n\t" + strings.Join(lines, "\n\t") + "\n}"
	})
}
