package exogen

import (
	"fmt"
	"strings"
)

var errorTexts = []string{`"something failed"`, `"Something failed"`, `"failed."`, `"failed\n"`, `""`, `"HTTP failed"`, `"x: " + "y"`, `"ünï failed"`, `"Ünï failed"`, "`raw failed.`", `" leading space"`, `"failed!"`, `"URL is bad:"`, `"A"`, `"Go is fine"`, `"1st"`, `string(errText)`, `"%d failed"`, `"\x00"`, `"​zero width"`}

// docDecls is family f: documented declarations in every position that carries a doc comment.
func (g *gen) docDecls() {
	g.unit("docs", g.inTest(), func() string {
		var sb strings.Builder
		switch g.intn(0, 11, "docform") {
		case 0: // const group
			g.feat("const_group")
			sb.WriteString(g.doc("constants") + "const (\n")
			typ := pick(g, "consttype", "", "", " int", " string", " float64", " time.Duration", " rune")
			for i, n := 0, g.intn(1, 4, "nconst"); i < n; i++ {
				name := g.styled(g.flip("exp"))
				var v string
				switch typ {
				case " string":
					v = pick(g, "sconst", stringLits...)
				case " float64":
					v = pick(g, "fconst", "1.5", "2", "1e3")
				default:
					v = pick(g, "iconst", "1", "iota", "1 << iota", "iota * 2", "0x10", "'a'", "-1")
				}
				if i > 0 && g.flip("implicit") && typ != " string" {
					sb.WriteString("\t" + g.doc(name) + "\t" + name + "\n")
					continue
				}
				sb.WriteString("\t" + g.doc(name) + "\t" + name + typ + " = " + v + pick(g, "trailing", "", " // trailing comment", " // "+name+" is documented") + "\n")
			}
			sb.WriteString(")")
		case 1: // error variables
			g.feat("error_vars")
			group := g.flip("group")
			if group {
				sb.WriteString(g.doc("errors") + "var (\n")
			}
			sb.WriteString("")
			for i, n := 0, g.intn(1, 3, "nerr"); i < n; i++ {
				name := pick(g, "errvarname", "ErrFoo", "errFoo", "FooError", "fooErr", "EFoo", "errorFoo", "Err", "err_foo", "ErrHTTP", "BadThing") + fmt.Sprint(g.n)
				g.n++
				init := pick(g, "errinit", "errors.New(", "fmt.Errorf(") + pick(g, "errtext", errorTexts...) + ")"
				if g.chance(15, "errtyped") {
					init = "error(" + init + ")"
				}
				if group {
					sb.WriteString("\t" + g.doc(name) + "\t" + name + " = " + init + "\n")
				} else {
					sb.WriteString(g.doc(name) + "var " + name + " = " + init + "\n")
				}
			}
			if group {
				sb.WriteString(")")
			}
			sb.WriteString("\n\nconst errText fmtErrText" + fmt.Sprint(g.n) + " = \"Const text.\"\n\ntype fmtErrText" + fmt.Sprint(g.n) + " string")
			// errText must be unique per package: rename
			s := strings.ReplaceAll(sb.String(), "errText", "errText"+fmt.Sprint(g.n))
			g.n++
			return strings.TrimRight(s, "\n")
		case 2: // variables of every shape
			g.feat("var_decls")
			n1, n2, n3 := g.styled(g.flip("exp")), g.styled(g.flip("exp")), g.styled(false)
			t := g.anyType(2)
			sb.WriteString(g.doc(n1) + "var " + n1 + ", " + n2 + " = " + g.simple(tInt) + ", " + g.simple(tString) + "\n\n")
			sb.WriteString(g.doc(n3) + "var " + n3 + " " + g.ts(t) + "\n\n")
			sb.WriteString(g.doc("_") + "var _ = " + n3 + "\n\n")
			sb.WriteString("var (\n\t" + g.doc("_") + "\t_ " + g.ts(g.anyType(1)) + "\n\t_, _ = " + n1 + ", " + n2 + "\n)")
		case 3: // durations with unit-suffixed names
			g.feat("duration_names")
			for i, n := 0, g.intn(1, 3, "ndur"); i < n; i++ {
				name := pick(g, "durname", "delaySecs", "timeoutMs", "TimeoutMillis", "waitSeconds", "intervalNano", "ttlMin", "backoffMS", "delay") + fmt.Sprint(g.n)
				g.n++
				sb.WriteString(g.doc(name) + "var " + name + pick(g, "durinit", " = 5 * time.Second", " time.Duration", " = time.Duration(3)", " time.Duration = 2", " = 2 * time.Duration(4) * time.Millisecond") + "\n")
			}
			name := g.styled(true)
			sb.WriteString("\n" + g.doc(name) + "func " + name + "(waitSecs time.Duration, timeoutMs, n " + pick(g, "durparam", "time.Duration", "int") + ") (elapsedMs time.Duration) {\n\tvar sleepMsec time.Duration\n\t_ = sleepMsec\n\treturn\n}")
		case 4: // function with styled parameter, result, label and local names
			g.feat("styled_names")
			name := g.styled(true)
			p1, p2, r1 := g.styled(false), g.styled(false), g.styled(false)
			l := strings.ToUpper(g.fresh("L_"))
			loc := g.styled(false)
			rv := pick(g, "rangevar", "my_i", "I", "idx_1", "ii")
			sb.WriteString(g.doc(name) + "func " + name + "(" + p1 + " int, " + p2 + " ...string) (" + r1 + " error, _ int) {\n")
			sb.WriteString("\tconst " + g.styled(g.flip("exp")) + " = 1\n\ttype " + g.styled(g.flip("exp")) + " struct{ " + g.styled(true) + ", " + g.styled(false) + " int }\n")
			sb.WriteString("\tvar " + loc + " = " + p1 + "\n" + l + ":\n\tfor " + rv + " := range " + p2 + " {\n\t\t_ = " + rv + "\n\t\tif " + loc + " > 0 {\n\t\t\tcontinue " + l + "\n\t\t}\n\t}\n\treturn\n}")
		case 5: // type group with documented members and fields
			g.feat("type_group")
			sb.WriteString(g.doc("types") + "type (\n")
			for i, n := 0, g.intn(1, 3, "ntypes"); i < n; i++ {
				name := g.typeName()
				sb.WriteString("\t" + g.doc(name) + "\t" + name + " " + pick(g, "grouptype", "int", "struct{}", "= string", "func()", "interface{ M() }", "[]"+name, "struct {\n\t\t// F is documented.\n\t\tF int // trailing\n\t\t"+g.doc("G")+"\t\tG, h string\n\t}") + "\n")
			}
			sb.WriteString(")")
		case 6: // function-local declarations with comments
			g.feat("local_decl_docs")
			name := g.styled(g.flip("exp"))
			tn, vn, cn := g.styled(true), g.styled(true), g.styled(true)
			sb.WriteString(g.doc(name) + "func " + name + "() {\n\t" + g.doc(tn) + "\ttype " + tn + " int\n\t" + g.doc(vn) + "\tvar " + vn + " " + tn + "\n\t" + g.doc(cn) + "\tconst " + cn + " = 1\n\t_ = " + vn + "\n\tfunc() {\n\t\t" + g.doc("Inner") + "\t\ttype Inner" + fmt.Sprint(g.n) + " struct{}\n\t}()\n}")
		case 7: // errors created in function bodies with exotic strings
			g.feat("error_strings")
			name := g.styled(g.flip("exp"))
			sb.WriteString(g.doc(name) + "func " + name + "(s string, args ...any) error {\n")
			for i, n := 0, g.intn(1, 3, "nerrs"); i < n; i++ {
				txt := pick(g, "errtext2", append(errorTexts[:16:16], "s", `s + "."`, `"Bad " + s`, `fmt.Sprintf("Bad %s", s)`, `strings.Title(s)`)...)
				sb.WriteString("\tif len(s) == " + fmt.Sprint(i) + " {\n\t\treturn " + pick(g, "errctor", "errors.New(", "fmt.Errorf(") + txt + ")\n\t}\n")
			}
			sb.WriteString("\treturn fmt.Errorf(" + pick(g, "errfmt", `"Wrapped: %w"`, `"failed: %v."`, `"%s"`, `"URL %q bad\n"`) + ", args...)\n}")
		case 8: // string literals with invisible and escaped characters
			g.feat("odd_string_literals")
			name := g.styled(false)
			lits := []string{"\"a\u200bb\"", "\"\\u200b\"", "`\u200b`", "\"\\ufeff\"", "\"\u0007\"", "\"\\a\\b\"", "`\t tab`", "\"e\u0301\"", "\"\U0001F468\u200d\U0001F469\"", "\"\u00a0\"", "'\u200b'", "\"\u202e\"", "\"\x7f\"", "\"\\x00\u200b\"", "\"\u200b\\n\"", "`\u0001`"}
			sb.WriteString("var " + name + " = []any{" + pick(g, "oddlit", lits...) + ", " + pick(g, "oddlit", lits...) + ", " + pick(g, "oddlit", lits...) + "}")
		case 9: // documented exported function and method set on one type with inconsistent receiver names
			g.feat("receiver_names")
			tn := g.styled(true)
			t := &Ty{K: KStruct, Name: tn, Named: true, Under: &Ty{K: KStruct, unit: -1}, unit: g.curUnit()}
			sb.WriteString(g.doc(tn) + "type " + tn + " struct{}\n\n")
			for i, n := 0, g.intn(2, 4, "nmeth"); i < n; i++ {
				g.writeMethod(&sb, t, nil, Meth{Name: g.methodName(), Ptr: g.flip("ptr")}, "")
				sb.WriteString("\n")
			}
			return strings.TrimRight(sb.String(), "\n")
		case 10: // a main-like and init functions, blank functions and methods
			g.feat("blank_and_init_funcs")
			tn := g.styled(false)
			sb.WriteString("func init() {}\n\n" + g.doc("init") + "func init() { _ = 0 }\n\nfunc _() {}\n\n" + g.doc("_") + "func _(x int) int { return x }\n\ntype " + tn + " struct{ _ int }\n\nfunc (" + tn + ") _() {}\n\nfunc (*" + tn + ") _(int) {}\n\nvar _ " + tn + "\n\ntype _ struct{}\n\ntype _ = int\n\nconst _ = 1")
		default: // deprecated objects and their uses
			g.feat("deprecated_objects")
			fn, tn := g.styled(true), g.styled(true)
			sb.WriteString("// " + fn + " is old.\n//\n// Deprecated: use something else.\nfunc " + fn + "() {}\n\n// " + tn + " is old.\n//\n// Deprecated: gone.\ntype " + tn + " struct {\n\t// Deprecated: field.\n\tF int\n}\n\nfunc " + g.fresh("useDeprecated") + "() {\n\t" + fn + "()\n\t_ = " + tn + "{F: 1}\n\tvar x " + tn + "\n\t_ = x.F\n\t_ = " + pick(g, "stddepr", "strings.Title(\"x\")", "ioutil.Discard", "os.SEEK_SET", "syscall.StringByteSlice", "reflect.SliceHeader{}", "rand.Seed", "sort.SearchInts") + "\n}")
		}
		return strings.TrimRight(sb.String(), "\n")
	})
}
