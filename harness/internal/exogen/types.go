package exogen

import (
	"fmt"
	"strings"
)

// ---------------------------------------------------------------- doc comments, receivers

// doc draws a doc comment (ending in a newline) for a declaration, or "".
func (g *gen) doc(name string) string {
	switch g.intn(0, 13, "doc") {
	case 0, 1, 2, 3:
		return ""
	case 4, 5:
		g.feat("doc_proper")
		return "// " + name + " does something.\n"
	case 6:
		g.feat("doc_wrong_name")
		return "// " + pick(g, "wrongdoc", strings.ToLower(name), "This", "Frob", name+"s", "returns") + " the thing.\n"
	case 7:
		g.feat("doc_block")
		return "/* " + pick(g, "blockdoc", name+" is", " "+name+" is", "is", "\n"+name) + " documented.\n*/\n"
	case 8:
		g.feat("doc_empty")
		return pick(g, "emptydoc", "//\n", "// \n", "/**/\n", "//\n//\n")
	case 9:
		g.feat("doc_deprecated")
		return "// " + pick(g, "depr", "Deprecated: use something else.", name+" is old.\n//\n// Deprecated: gone.", "Deprecated:") + "\n"
	case 10:
		g.feat("doc_directive")
		return pick(g, "directive", "//nolint:all\n", "//lint:ignore ST1020 because\n", "//lint:file-ignore U1000 because\n", "// +build ignore\n", "//foo:bar\n")
	case 11:
		g.feat("doc_article")
		return "// " + pick(g, "article", "A ", "An ", "The ", "a ") + name + pick(g, "articlerest", " is a thing.", "", " ", ".") + "\n"
	case 12:
		g.feat("doc_name_only")
		return "// " + name + pick(g, "nameonly", "", ".", " ", ":") + "\n"
	default:
		g.feat("doc_multi")
		return "// " + name + "\n//\n// does\n//\tcode\n//\n"
	}
}

// recv renders a receiver clause for a method of t. tps are the type
// parameter names of a generic base type. documented says that the method is
// exported and carries a doc comment in a non-test file.
func (g *gen) recv(t *Ty, ptr bool, tps []string, documented bool) string {
	name := pick(g, "recvname", "t", "r", "this", "self", "_", "", "x", "me")
	base := t.Name
	if i := strings.Index(base, "["); i >= 0 {
		base = base[:i]
	}
	if len(tps) > 0 {
		args := make([]string, len(tps))
		for i, p := range tps {
			args[i] = p
			if !g.noBlankTP && g.chance(25, "blanktparam") {
				args[i] = "_"
				g.feat("recv_blank_tparam")
			}
		}
		base += "[" + strings.Join(args, ", ") + "]"
	}
	paren := g.chance(20, "recvparen")
	if paren && documented && !g.include("st1020-parenthesised-receiver") {
		paren = false
	}
	typ := base
	if paren {
		g.feat("recv_paren")
		switch {
		case !ptr:
			typ = "(" + base + ")"
		case g.flip("parenform"):
			typ = "*(" + base + ")"
		default:
			typ = "(*" + base + ")"
		}
	} else if ptr {
		typ = "*" + base
	}
	switch name {
	case "":
		g.feat("recv_unnamed")
		return "(" + typ + ")"
	case "_":
		g.feat("recv_blank")
	case "this", "self":
		g.feat("recv_this_self")
	}
	return "(" + name + " " + typ + ")"
}

// methodName draws a method name.
func (g *gen) methodName() string {
	if g.chance(70, "expmethod") {
		return g.styled(true)
	}
	return g.styled(false)
}

// declMethods adds drawn methods to the defined type t (which must admit methods).
func (g *gen) declMethods(sb *strings.Builder, t *Ty, tps []string, n int) {
	for i := 0; i < n; i++ {
		m := Meth{Name: g.methodName(), Ptr: g.flip("ptrrecv")}
		if g.chance(40, "mparam") {
			m.Params = append(m.Params, g.smallType())
		}
		if g.chance(60, "mresult") {
			m.Results = append(m.Results, g.smallType())
		}
		g.writeMethod(sb, t, tps, m, "")
		t.Methods = append(t.Methods, m)
	}
}

// writeMethod renders a method declaration with a trivial body.
func (g *gen) writeMethod(sb *strings.Builder, t *Ty, tps []string, m Meth, body string) {
	doc := ""
	exported := isUpper([]rune(m.Name)[0])
	doc = g.doc(m.Name)
	documented := doc != "" && exported && !g.inTest()
	sb.WriteString(doc)
	sb.WriteString("func " + g.recv(t, m.Ptr, tps, documented) + " " + m.Name + "(")
	for i, p := range m.Params {
		if i > 0 {
			sb.WriteString(", ")
		}
		sb.WriteString(fmt.Sprintf("p%d %s", i, g.ts(p)))
	}
	sb.WriteString(")")
	var rv []string
	for _, r := range m.Results {
		rv = append(rv, g.arg(r, 1))
	}
	switch len(m.Results) {
	case 0:
	case 1:
		sb.WriteString(" " + g.tn(m.Results[0]))
	default:
		var rs []string
		for _, r := range m.Results {
			rs = append(rs, g.ts(r))
		}
		sb.WriteString(" (" + strings.Join(rs, ", ") + ")")
	}
	if body == "" {
		if len(rv) > 0 {
			body = "return " + strings.Join(rv, ", ")
		}
	}
	sb.WriteString(" { " + body + " }\n")
}

// deepType draws a type whose nesting depth is drawn from a heavy-tailed
// distribution (a few levels usually, more than a hundred sometimes).
func (g *gen) deepType() *Ty {
	n := pick(g, "depth", 3, 5, 9, 17, 33, 50, 65, 97, 98, 99, 101, 129, 200)
	// recorded finding: the unifier of the unused-code analysis gives up with a panic beyond a
	// fixed depth; excluded by keeping generated types shallower than that
	if n > 40 && !g.include("unify-max-depth-exceeded") {
		n = 40
	}
	base := pick(g, "deepbase", "int", "string", "any")
	var src string
	k := KPtr
	switch g.intn(0, 4, "deepform") {
	case 0:
		src = strings.Repeat("*", n) + base
	case 1:
		src, k = strings.Repeat("[]", n)+base, KSlice
	case 2:
		n = min(n, 60)
		src, k = strings.Repeat("func(", n)+base+strings.Repeat(")", n), KFunc
	case 3:
		n = min(n, 60)
		src, k = strings.Repeat("map[string]", n)+base, KMap
	default:
		n = min(n, 60)
		src, k = strings.Repeat("chan ", n)+base, KChan
	}
	g.feat("deep_type")
	if n >= 97 {
		g.feat("deep_type_100")
	}
	return &Ty{K: k, Name: src, unit: -1, Opaque: true}
}

// smallType draws a simple type for method signatures.
func (g *gen) smallType() *Ty {
	if g.chance(4, "deepsmall") {
		return g.deepType()
	}
	return pick(g, "smalltype", tInt, tString, tBool, tError, tAny, tF64, sliceOf(tByte), ptrTo(tInt), sliceOf(tString), tInt64)
}

func (g *gen) inTest() bool {
	if len(g.stack) > 0 {
		return g.stack[len(g.stack)-1].Test
	}
	return g.testMode
}

// ---------------------------------------------------------------- the type pool (family a)

// namedType returns a declared type satisfying want (nil: any), declaring a
// new one when none fits or a fresh one is drawn.
func (g *gen) namedType(want func(*Ty) bool, fallback ...int) *Ty {
	var c []*Ty
	for _, t := range g.pool {
		if !t.open && (want == nil || want(t)) && (!t.Test || g.inTest()) {
			c = append(c, t)
		}
	}
	if len(c) > 0 && g.chance(85, "reuse") {
		t := c[g.intn(0, len(c)-1, "pick")]
		g.dep(t.unit)
		return t
	}
	if want == nil {
		return g.declType(g.intn(0, 13, "typeform"))
	}
	if len(fallback) == 0 {
		for i := 0; i < 3; i++ {
			if t := g.declType(g.intn(0, 13, "typeform")); want(t) {
				return t
			}
		}
	}
	if len(c) > 0 {
		t := c[g.intn(0, len(c)-1, "pick")]
		g.dep(t.unit)
		return t
	}
	if len(fallback) > 0 {
		return g.declType(fallback[g.intn(0, len(fallback)-1, "fallbackform")])
	}
	return g.declType(0)
}

// newNamed registers a declared type.
func (g *gen) newNamed(name string, under *Ty) *Ty {
	t := &Ty{K: under.K, Name: name, Named: true, Under: under, unit: g.curUnit(), Test: g.inTest(), open: true}
	g.pool = append(g.pool, t)
	return t
}

func (g *gen) typeName() string {
	if g.chance(60, "exptype") {
		return g.styled(true)
	}
	return g.styled(false)
}

// declType declares a new type of the given form in its own unit.
func (g *gen) declType(form int) *Ty {
	var t *Ty
	first := len(g.pool)
	defer func() {
		for _, x := range g.pool[min(first, len(g.pool)):] {
			x.open = false
		}
	}()
	g.unit("typedecl", g.inTest(), func() string {
		var sb strings.Builder
		switch form {
		case 0: // struct
			name := g.typeName()
			t = g.newNamed(name, &Ty{K: KStruct})
			u := g.structType(1, false)
			if g.chance(25, "selfptr") {
				u.Fields = append(u.Fields, Field{Name: "next", T: ptrTo(t)})
				t.Rec = true
				g.feat("rec_struct_field")
			}
			if g.chance(15, "selfslice") {
				u.Fields = append(u.Fields, Field{Name: "kids", T: pick(g, "selfctor", sliceOf(t), mapOf(tString, t), funcOf([]*Ty{t}, []*Ty{t}), chanOf(0, t), arrayOf(2, ptrTo(t)))})
				t.Rec = true
				g.feat("rec_struct_field")
			}
			if g.chance(25, "embed") {
				e := g.embeddable()
				if e != nil {
					u.Fields = append(u.Fields, Field{Name: embeddedName(e), T: e, Embedded: true})
					g.feat("embedded_field")
					if e.Name == "" && e.K == KPtr {
						t.EmbPtr = true
					}
				}
			} else if g.chance(20, "embedself") {
				u.Fields = append(u.Fields, Field{Name: name, T: ptrTo(t), Embedded: true})
				t.Rec, t.SelfEmb, t.EmbPtr = true, true, true
				g.feat("embedded_self_pointer")
			}
			t.Under = u
			sb.WriteString(g.doc(name) + "type " + name + " " + g.ts(u) + "\n")
			g.declMethods(&sb, t, nil, g.intn(0, 2, "nmethods"))
		case 1: // defined type over a drawn type
			name := g.typeName()
			u := g.anyType(2)
			for u.Named && u.Under != nil {
				u = u.Under
			}
			if u.K == KTParam {
				u = tInt
			}
			t = g.newNamed(name, u)
			t.Methods = nil
			sb.WriteString(g.doc(name) + "type " + name + " " + g.ts(u) + "\n")
			if u.K != KPtr && u.K != KIface && u.K != KUnsafe {
				g.declMethods(&sb, t, nil, g.intn(0, 2, "nmethods"))
			}
			g.feat("defined_" + kindName(u.K))
		case 2: // self-referential type through a drawn position
			name := g.typeName()
			t = g.newNamed(name, &Ty{K: KPtr})
			t.Rec = true
			var u *Ty
			switch g.intn(0, 8, "recform") {
			case 0:
				u = ptrTo(t)
			case 1:
				u = sliceOf(t)
			case 2:
				u = mapOf(pick(g, "reckey", tString, tInt), t)
			case 3:
				u = chanOf(g.intn(0, 2, "dir"), t)
			case 4:
				u = funcOf([]*Ty{t}, []*Ty{t})
			case 5:
				u = funcOf(nil, []*Ty{t})
			case 6:
				u = arrayOf(2, ptrTo(t))
			case 7:
				u = ptrTo(ptrTo(t))
			default:
				u = sliceOf(ptrTo(t))
			}
			t.Under, t.K = u, u.K
			sb.WriteString(g.doc(name) + "type " + name + " " + g.ts(u) + "\n")
			g.feat("rec_" + kindName(u.K))
			if u.K != KPtr {
				g.declMethods(&sb, t, nil, g.intn(0, 1, "nmethods"))
			}
		case 3: // mutually recursive pair
			a, b := g.typeName(), g.typeName()
			t = g.newNamed(a, &Ty{K: KPtr})
			tb := g.newNamed(b, &Ty{K: KSlice})
			t.Rec, tb.Rec = true, true
			t.Under = ptrTo(tb)
			tb.Under = pick(g, "mutform", sliceOf(t), mapOf(tInt, t), funcOf([]*Ty{t}, nil), &Ty{K: KStruct, Fields: []Field{{Name: "a", T: t}}})
			tb.K = tb.Under.K
			sb.WriteString("type (\n\t" + a + " " + g.ts(t.Under) + "\n\t" + g.doc(b) + "\t" + b + " " + g.ts(tb.Under) + "\n)\n")
			g.feat("rec_mutual", "type_group")
		case 4: // alias
			of := g.anyType(2)
			name := g.typeName()
			if of.K == KTParam {
				of = tInt
			}
			al := *of
			al.Name, al.unit, al.Test = name, g.curUnit(), g.inTest()
			if !of.Named {
				// an alias of a type literal: same type, no methods
				al.Named = false
				al.Under = nil
			}
			t = &al
			t.Generic = false
			g.pool = append(g.pool, t)
			sb.WriteString(g.doc(name) + "type " + name + " = " + g.ts(of) + "\n")
			g.feat("alias")
		case 5: // error type
			t = g.declErrorType(&sb)
		case 6: // interface with an implementation
			t = g.declIface(&sb)
		case 7, 8: // generic type, instantiated
			t = g.declGeneric(&sb)
		case 9: // defined basic types with constants (enum)
			name := g.typeName()
			b := pick(g, "enumbase", tInt, tUint8, tString, tInt64, tF64, tRune, tBool)
			t = g.newNamed(name, b)
			sb.WriteString(g.doc(name) + "type " + name + " " + b.Name + "\n")
			if b.K == KInt {
				c1, c2, c3 := g.styled(g.flip("expconst")), g.styled(true), g.styled(false)
				sb.WriteString("const (\n\t" + g.doc(c1) + "\t" + c1 + " " + name + " = iota\n\t" + c2 + "\n\t_\n\t" + c3 + "\n)\n")
				g.feat("iota_group")
			}
			if g.flip("stringer") {
				sb.WriteString("func " + g.recv(t, false, nil, false) + " String() string { return " + pick(g, "stringerbody", `""`, `fmt.Sprint(1)`, `"x"`) + " }\n")
				t.Methods = append(t.Methods, Meth{Name: "String", Results: []*Ty{tString}})
				g.feat("stringer")
			}
		case 10: // struct embedding pointers, interfaces, generic instantiations
			name := g.typeName()
			t = g.newNamed(name, &Ty{K: KStruct})
			u := &Ty{K: KStruct, unit: -1}
			for i, n := 0, g.intn(1, 3, "nembed"); i < n; i++ {
				e := g.embeddable()
				if e == nil {
					continue
				}
				dup := false
				for _, f := range u.Fields {
					if f.Name == embeddedName(e) {
						dup = true
					}
				}
				if !dup {
					u.Fields = append(u.Fields, Field{Name: embeddedName(e), T: e, Embedded: true, Tag: pick(g, "tag", fieldTags...)})
					if e.Name == "" && e.K == KPtr {
						t.EmbPtr = true
					}
				}
			}
			u.Fields = append(u.Fields, Field{Name: "n", T: tInt})
			t.Under = u
			sb.WriteString(g.doc(name) + "type " + name + " " + g.ts(u) + "\n")
			g.feat("embedded_field")
		case 12: // a generic interface and a generic type whose equally named methods draw their
			// parameter lists from one pool of shapes over the type parameter
			iname, gname, m := g.typeName(), g.typeName(), g.methodName()
			shapes := []string{"%s", "[]%s", "*%s", "map[string]%s", "func(%s)", "chan %s", "[2]%s", "[]%s", "%s"}
			k := g.intn(1, 4, "arity")
			var a, b []string
			same := !g.include("unify-max-depth-exceeded")
			for i := 0; i < k; i++ {
				sa := pick(g, "shapeA", shapes...)
				sb2 := pick(g, "shapeB", shapes...)
				if same {
					sb2 = sa
				}
				a = append(a, fmt.Sprintf(sa, "Y"))
				b = append(b, fmt.Sprintf(sb2, "T"))
			}
			res := pick(g, "crossresult", "", "", " Y", " []Y", " error")
			resB := strings.ReplaceAll(res, "Y", "T")
			ret := ""
			if resB != "" {
				ret = " panic(0) "
			}
			sb.WriteString(g.doc(iname) + "type " + iname + "[Y any] interface{ " + m + "(" + strings.Join(a, ", ") + ")" + res + " }\n\n")
			sb.WriteString(g.doc(gname) + "type " + gname + "[T any] struct{}\n\n")
			sb.WriteString(g.doc(m) + "func (" + gname + "[T]) " + m + "(" + strings.Join(b, ", ") + ")" + resB + " {" + ret + "}\n")
			t = &Ty{K: KStruct, Name: gname + "[int]", Named: true, Generic: true, Under: &Ty{K: KStruct, unit: -1}, unit: g.curUnit(), Test: g.inTest()}
			g.pool = append(g.pool, t)
			g.feat("generic_iface_and_impl")
		default: // function type / channel type with methods
			name := g.typeName()
			u := pick(g, "methodbase", g.funcType(1), chanOf(0, tInt), mapOf(tString, tAny), sliceOf(tError), arrayOf(3, tString))
			t = g.newNamed(name, u)
			sb.WriteString(g.doc(name) + "type " + name + " " + g.ts(u) + "\n")
			g.declMethods(&sb, t, nil, g.intn(1, 2, "nmethods"))
			g.feat("methods_on_" + kindName(u.K))
		}
		return strings.TrimRight(sb.String(), "\n")
	})
	return t
}

func kindName(k Kind) string {
	return [...]string{"bool", "int", "float", "complex", "string", "unsafe", "ptr", "slice", "array", "map", "chan", "func", "struct", "iface", "tparam"}[k]
}

// embeddable returns a type that may be embedded in a struct: a declared
// non-pointer type or a pointer to one, or a well-known std type.
func (g *gen) embeddable() *Ty {
	if g.chance(30, "stdembed") {
		return pick(g, "stdembed", &Ty{K: KStruct, Name: "sync.Mutex", unit: -1}, &Ty{K: KIface, Name: "error", unit: -1, Methods: tError.Methods},
			ptrTo(&Ty{K: KStruct, Name: "sync.RWMutex", unit: -1}), &Ty{K: KIface, Name: "fmt.Stringer", unit: -1, Methods: []Meth{{Name: "String", Results: []*Ty{tString}}}},
			&Ty{K: KStruct, Name: "sync.WaitGroup", unit: -1}, &Ty{K: KIface, Name: "io.Reader", unit: -1, Methods: []Meth{{Name: "Read", Params: []*Ty{sliceOf(tByte)}, Results: []*Ty{tInt, tError}}}})
	}
	var c []*Ty
	for _, t := range g.pool {
		if !t.open && t.Named && t.Under != nil && t.Under.K != KPtr && t.Under.K != KTParam && !t.Generic && (!t.Test || g.inTest()) && t.unit != g.curUnit() {
			c = append(c, t)
		}
	}
	if len(c) == 0 {
		return nil
	}
	t := c[g.intn(0, len(c)-1, "embedpick")]
	g.dep(t.unit)
	if t.Under.K != KIface && g.flip("embedptr") {
		return ptrTo(t)
	}
	return t
}

// errorType returns a declared type implementing error.
func (g *gen) errorType() Impl {
	t := g.namedType(func(t *Ty) bool { return t.method("Error") != nil && t.Under != nil && t.Under.K != KIface }, 5)
	return Impl{T: t, Ptr: t.method("Error").Ptr}
}

func (g *gen) declErrorType(sb *strings.Builder) *Ty {
	name := pick(g, "errname", "MyErr", "ErrThing", "errThing", "ThingError", "parseError", "E", "Failure") + fmt.Sprint(g.n)
	g.n++
	u := pick(g, "errunder", &Ty{K: KStruct, unit: -1}, &Ty{K: KStruct, unit: -1, Fields: []Field{{Name: "msg", T: tString}, {Name: "code", T: tInt}}}, tInt, tString, sliceOf(tError), &Ty{K: KStruct, unit: -1, Fields: []Field{{Name: "error", T: tError, Embedded: true}}})
	t := g.newNamed(name, u)
	sb.WriteString(g.doc(name) + "type " + name + " " + g.ts(u) + "\n")
	m := Meth{Name: "Error", Results: []*Ty{tString}, Ptr: g.flip("errptr")}
	hasEmbedded := u.K == KStruct && len(u.Fields) == 1 && u.Fields[0].Embedded
	if !hasEmbedded {
		g.writeMethod(sb, t, nil, m, "return "+pick(g, "errbody", `"failed"`, `"Failed."`, `fmt.Sprintf("%d", 1)`, `""`))
		t.Methods = append(t.Methods, m)
	} else {
		m.Ptr = false
		t.Methods = append(t.Methods, m)
	}
	if g.chance(30, "unwrap") {
		g.writeMethod(sb, t, nil, Meth{Name: "Unwrap", Results: []*Ty{tError}, Ptr: m.Ptr}, "return nil")
	}
	if g.chance(20, "is") {
		g.writeMethod(sb, t, nil, Meth{Name: "Is", Params: []*Ty{tError}, Results: []*Ty{tBool}, Ptr: m.Ptr}, "return false")
	}
	g.feat("error_type")
	return t
}

// declIface declares an interface and a type implementing it.
func (g *gen) declIface(sb *strings.Builder) *Ty {
	name := g.typeName()
	u := &Ty{K: KIface, unit: -1}
	for i, n := 0, g.intn(1, 3, "nmeth"); i < n; i++ {
		m := Meth{Name: g.methodName()}
		if g.chance(40, "mparam") {
			m.Params = append(m.Params, g.smallType())
		}
		if g.chance(60, "mresult") {
			m.Results = append(m.Results, g.smallType())
		}
		u.Methods = append(u.Methods, m)
	}
	t := g.newNamed(name, u)
	if g.chance(25, "selfmethod") {
		u.Methods = append(u.Methods, Meth{Name: g.methodName(), Results: []*Ty{t}})
		t.Rec = true
		g.feat("rec_iface_method")
	}
	embed := ""
	if g.chance(25, "ifaceembed") {
		embed = pick(g, "ifaceembed", "error", "fmt.Stringer", "any", "comparable")
		if embed == "comparable" {
			embed = "any"
		}
		switch embed {
		case "error":
			u.Methods = append(u.Methods, Meth{Name: "Error", Results: []*Ty{tString}})
		case "fmt.Stringer":
			u.Methods = append(u.Methods, Meth{Name: "String", Results: []*Ty{tString}})
		}
		g.feat("iface_embed")
	}
	// render: embedded interfaces are written as such
	sb.WriteString(g.doc(name) + "type " + name + " interface {\n")
	if embed != "" {
		sb.WriteString("\t" + embed + "\n")
	}
	for _, m := range u.Methods {
		if embed == "error" && m.Name == "Error" || embed == "fmt.Stringer" && m.Name == "String" {
			continue
		}
		sb.WriteString("\t" + g.doc(m.Name) + "\t" + m.Name + sigString(m.Params, m.Results, false, nil) + "\n")
	}
	sb.WriteString("}\n")
	// an implementation
	iname := g.typeName()
	iu := pick(g, "implunder", &Ty{K: KStruct, unit: -1}, tInt, &Ty{K: KStruct, unit: -1, Fields: []Field{{Name: "v", T: tInt}}}, sliceOf(tInt), funcOf(nil, nil), tString)
	it := g.newNamed(iname, iu)
	ptr := g.flip("implptr")
	sb.WriteString("type " + iname + " " + g.ts(iu) + "\n")
	for _, m := range u.Methods {
		m.Ptr = ptr
		g.writeMethod(sb, it, nil, m, "")
		it.Methods = append(it.Methods, m)
	}
	t.Impls = append(t.Impls, Impl{T: it, Ptr: ptr})
	g.feat("iface_with_impl")
	return t
}

// declGeneric declares a generic type and returns an instantiation of it.
func (g *gen) declGeneric(sb *strings.Builder) *Ty {
	name := g.typeName()
	arg := pick(g, "targ", tInt, tString, tAny, tError, sliceOf(tInt), ptrTo(tInt), tF64)
	tp := &Ty{K: KTParam, Name: "T", unit: -1, Con: &Con{Src: "any"}}
	con := "any"
	form := g.intn(0, 6, "genform")
	var u func(a *Ty, self *Ty) *Ty
	switch form {
	case 0:
		u = func(a, self *Ty) *Ty {
			return &Ty{K: KStruct, unit: -1, Fields: []Field{{Name: "v", T: a}, {Name: "next", T: ptrTo(self)}}}
		}
	case 1:
		u = func(a, self *Ty) *Ty { return sliceOf(a) }
	case 2:
		u = func(a, self *Ty) *Ty { return funcOf([]*Ty{a}, []*Ty{a}) }
	case 3:
		u = func(a, self *Ty) *Ty { return mapOf(tString, a) }
	case 4:
		u = func(a, self *Ty) *Ty { return chanOf(0, a) }
	case 5:
		u = func(a, self *Ty) *Ty {
			return &Ty{K: KStruct, unit: -1, Fields: []Field{{Name: "p", T: ptrTo(a)}, {Name: "kids", T: sliceOf(self)}}}
		}
	default:
		con = "comparable"
		tp.Con = &Con{Src: "comparable", Comparable: true}
		arg = pick(g, "cmparg", tInt, tString, tF64, ptrTo(tInt), tAny)
		u = func(a, self *Ty) *Ty { return mapOf(a, sliceOf(self)) }
	}
	// the generic declaration, rendered over the type parameter
	decl := &Ty{K: KStruct, Name: name + "[T]", Named: true, unit: g.curUnit(), Generic: true}
	decl.Under = u(tp, decl)
	decl.K = decl.Under.K
	sb.WriteString(g.doc(name) + "type " + name + "[T " + con + "] " + g.ts(decl.Under) + "\n")
	inst := &Ty{K: decl.K, Name: name + "[" + arg.String() + "]", Named: true, unit: g.curUnit(), Generic: true, Test: g.inTest(), Rec: form == 0 || form == 5 || form == 6}
	inst.Under = u(arg, inst)
	// methods on the generic receiver
	for i, n := 0, g.intn(0, 2, "ngmeth"); i < n; i++ {
		m := Meth{Name: g.methodName(), Ptr: g.flip("ptrrecv")}
		var body string
		switch g.intn(0, 2, "gmform") {
		case 0:
			m.Results = []*Ty{tInt}
			body = "return 0"
			g.writeMethod(sb, decl, []string{"T"}, m, body)
		case 1:
			gm := m
			gm.Params, gm.Results = []*Ty{tp}, []*Ty{tp}
			g.noBlankTP = true
			g.writeMethod(sb, decl, []string{"T"}, gm, "return p0")
			g.noBlankTP = false
			m.Params, m.Results = []*Ty{arg}, []*Ty{arg}
		default:
			gm := m
			gm.Results = []*Ty{ptrTo(decl)}
			g.noBlankTP = true
			g.writeMethod(sb, decl, []string{"T"}, gm, "return nil")
			g.noBlankTP = false
			m.Results = []*Ty{ptrTo(inst)}
		}
		inst.Methods = append(inst.Methods, m)
	}
	g.pool = append(g.pool, inst)
	g.feat("generic_type")
	return inst
}
