package exogen

import (
	"pgregory.net/rapid"
)

// Families lists the family names in the order of their weights.
var Families = []string{"typedecl", "generic", "chain", "stmts", "callgraph", "printf", "docs", "api", "typeuse"}

var familyWeights = map[string]int{"typedecl": 2, "generic": 6, "chain": 5, "stmts": 4, "callgraph": 3, "printf": 5, "docs": 2, "api": 6, "typeuse": 3}

// Generate draws a package.
func Generate(t *rapid.T, name string, cfg Config) *Package {
	g := &gen{t: t, cfg: cfg, excl: map[string]int{}, printfHelpers: -1, exoHelpers: -1}
	g.pkgSeed = rapid.Uint64().Draw(t, "package_seed")
	g.rng = g.pkgSeed
	g.next()
	if cfg.MaxUnits == 0 {
		cfg.MinUnits, cfg.MaxUnits = 6, 24
	}
	fams := cfg.Families
	if len(fams) == 0 {
		fams = Families
	}
	var wheel []string
	for _, f := range fams {
		for i := 0; i < max(1, familyWeights[f]); i++ {
			wheel = append(wheel, f)
		}
	}
	g.heavy = g.intn(0, 7, "heavy") == 0
	n := g.intn(cfg.MinUnits, cfg.MaxUnits, "nunits")
	for i := 0; i < n; i++ {
		g.reseed()
		g.family(pick(g, "family", wheel...))
	}
	if cfg.Test {
		g.testMode = true
		nt := g.intn(1, 6, "ntestunits")
		for i := 0; i < nt; i++ {
			g.reseed()
			if g.flip("testspecific") {
				g.testDecl()
			} else {
				g.family(pick(g, "family", wheel...))
			}
		}
		g.testMode = false
	}
	p := &Package{Name: name, Units: g.units, Excluded: g.excl}
	if !cfg.NoRepair {
		repair(p)
	}
	return p
}

func (g *gen) family(f string) {
	g.sc = nil
	switch f {
	case "typedecl":
		g.declType(g.intn(0, 13, "typeform"))
	case "generic":
		g.genericFunc()
	case "chain":
		g.chainFunc()
	case "stmts":
		g.stmtFunc()
	case "callgraph":
		g.callGraph()
	case "printf":
		g.printfFunc()
	case "docs":
		g.docDecls()
	case "api":
		g.apiFunc()
	case "typeuse":
		g.typeUse()
	}
}
