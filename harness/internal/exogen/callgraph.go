package exogen

import (
	"fmt"
	"strings"
)

// callGraph is family d: a group of small functions with drawn call edges
// (self recursion, mutual recursion, unconditional cycles) that return
// interface / pointer / other nillable values from concrete allocations, and
// callers that compare the results against nil, dereference or assert them.
func (g *gen) callGraph() {
	g.unit("callgraph", g.inTest(), func() string {
		k := g.intn(2, 5, "nfuncs")
		base := g.fresh("cg")
		names := make([]string, k)
		for i := range names {
			names[i] = fmt.Sprintf("%s_%d", base, i)
			if g.chance(30, "expname") {
				names[i] = "X" + names[i]
			}
		}
		// result types
		resultOf := func() *Ty {
			switch g.intn(0, 11, "cgresult") {
			case 0, 1, 2:
				return tError
			case 3:
				return tAny
			case 4, 5:
				t := g.namedType(func(t *Ty) bool { return t.kind() == KStruct && !t.Generic }, 0, 10)
				return ptrTo(t)
			case 6:
				t := g.namedType(func(t *Ty) bool { return t.Named && t.Under != nil && t.Under.K == KIface && len(t.Impls) > 0 }, 6)
				return t
			case 7:
				return pick(g, "cgnillable", funcOf(nil, nil), sliceOf(tInt), mapOf(tString, tInt), chanOf(0, tInt), ptrTo(tInt))
			case 8:
				return nil
			case 9:
				return tInt
			default:
				return &Ty{K: KIface, Name: "fmt.Stringer", unit: -1, Methods: []Meth{{Name: "String", Results: []*Ty{tString}}}}
			}
		}
		common := resultOf()
		results := make([]*Ty, k)
		for i := range results {
			results[i] = common
			if g.chance(30, "ownresult") {
				results[i] = resultOf()
			}
		}
		withParam := g.flip("withparam")
		param, argv, argrec := "", "", ""
		if withParam {
			param, argv, argrec = "n int", "1", "n - 1"
		}
		// an iterator group: every function is a push iterator, and edges may be range statements
		iter := g.chance(25, "itergroup")
		if iter {
			g.feat("cg_iterator_group")
			withParam = false
			param, argv, argrec = "yield func(int) bool", "func(int) bool { return true }", "yield"
			for i := range results {
				results[i] = nil
			}
			common = nil
		}
		var sb strings.Builder
		callOf := func(j int, arg string) string { return names[j] + "(" + arg + ")" }
		cyclic := false
		for i := 0; i < k; i++ {
			var lines []string
			ne := g.intn(0, 3, "nedges")
			for e := 0; e < ne; e++ {
				j := g.intn(0, k-1, "callee")
				if j <= i {
					cyclic = true
				}
				c := callOf(j, argrec)
				if iter && g.chance(60, "rangeedge") {
					// recorded finding: the implicit call of a range-over-func loop has no position, and an
					// unconditional self call is reported at that position; excluded by not ranging over self
					if j != i || g.include("range-over-func-call-without-position") {
						g.feat("cg_range_over_func_edge")
						lines = append(lines, pick(g, "rangeedge", "for range "+names[j]+" {\n\t}", "for x := range "+names[j]+" {\n\t\t_ = x\n\t}", "for x := range "+names[j]+" {\n\t\tif !yield(x) {\n\t\t\treturn\n\t\t}\n\t}", "for range "+names[j]+" {\n\t\tbreak\n\t}"))
						continue
					}
				}
				switch g.intn(0, 7, "edgeform") {
				case 0, 1, 2:
					lines = append(lines, c) // unconditional
					if j == i {
						g.feat("cg_unconditional_self_call")
					}
				case 3:
					cond := "len(os.Args) > 1"
					if withParam {
						cond = "n > 0"
					}
					lines = append(lines, "if "+cond+" {\n\t\t"+c+"\n\t}")
				case 4:
					lines = append(lines, "defer "+c)
				case 5:
					lines = append(lines, "go "+c)
				case 6:
					if results[j] != nil {
						lines = append(lines, "_ = "+c)
					} else {
						lines = append(lines, c)
					}
				default:
					if results[j] != nil && results[j].nillable() {
						lines = append(lines, "if "+c+" != nil {\n\t\tprintln()\n\t}")
					} else {
						lines = append(lines, c)
					}
				}
			}
			r := results[i]
			if r != nil {
				// the return value: a concrete allocation, nil, or the result of a callee of the same type
				var rets []string
				alloc := g.allocOf(r)
				rets = append(rets, alloc, alloc)
				if r.nillable() {
					rets = append(rets, "nil")
				}
				for j := 0; j < k; j++ {
					if results[j] != nil && same(results[j], r) {
						rets = append(rets, callOf(j, argrec))
					}
				}
				ret := rets[g.intn(0, len(rets)-1, "ret")]
				if g.chance(25, "tworeturns") {
					cond := "len(os.Args) > 2"
					if withParam {
						cond = "n == 2"
					}
					lines = append(lines, "if "+cond+" {\n\t\treturn "+rets[g.intn(0, len(rets)-1, "ret2")]+"\n\t}")
				}
				if g.chance(15, "viavar") {
					lines = append(lines, "var r "+g.ts(r)+" = "+ret, "return r")
				} else {
					lines = append(lines, "return "+ret)
				}
			}
			res := ""
			if r != nil {
				res = " " + g.ts(r)
				if strings.HasPrefix(res, " (") {
					res = " (" + res[1:] + ")"
				}
			}
			sb.WriteString(g.doc(names[i]) + "func " + names[i] + "(" + param + ")" + res + " {\n\t" + strings.Join(lines, "\n\t") + "\n}\n\n")
		}
		if cyclic {
			g.feat("cg_cycle")
		}
		// callers
		var uses []string
		for i := 0; i < k; i++ {
			r := results[i]
			c := callOf(i, argv)
			if r == nil {
				uses = append(uses, c)
				continue
			}
			switch {
			case r.nillable():
				switch g.intn(0, 5, "useform") {
				case 0, 1:
					g.feat("cg_result_nil_cmp")
					uses = append(uses, "if "+c+pick(g, "nilop", " == nil", " != nil")+" {\n\t\tprintln()\n\t}")
				case 2:
					g.feat("cg_result_nil_cmp")
					uses = append(uses, "if x := "+c+"; nil != x {\n\t\t_ = x\n\t}")
				case 3:
					if r.kind() == KPtr && r.Elem.kind() == KStruct {
						uses = append(uses, "_ = *"+c)
					} else if r.kind() == KIface {
						g.feat("cg_result_assert")
						uses = append(uses, "_, _ = "+c+".("+pick(g, "asserted", "interface{ M() }", "error", "fmt.Stringer", "interface{ Error() string; Is(error) bool }", "any")+")")
					} else {
						uses = append(uses, "_ = "+c)
					}
				case 4:
					g.feat("cg_result_nil_cmp")
					uses = append(uses, "for "+c+" == nil {\n\t\tbreak\n\t}")
				default:
					g.feat("cg_result_nil_cmp")
					n := g.fresh("r")
					uses = append(uses, n+" := "+c+"\n\tswitch {\n\tcase "+n+" == nil:\n\tcase "+n+" != nil:\n\t}")
				}
			default:
				uses = append(uses, "_ = "+c)
			}
		}
		sb.WriteString("func " + g.styled(g.flip("expuse")) + "() {\n\t" + strings.Join(uses, "\n\t") + "\n}")
		return sb.String()
	})
}

// allocOf returns an expression that allocates a concrete, non-nil value assignable to t.
func (g *gen) allocOf(t *Ty) string {
	switch {
	case t == tError || t.Name == "error":
		if g.flip("stderr") {
			return pick(g, "erralloc", `errors.New("x")`, `fmt.Errorf("x %d", 1)`, "io.EOF", `&os.PathError{}`)
		}
		it := g.errorType()
		if it.Ptr {
			g.feat("cg_alloc_ptr_impl")
			if it.T.literalable() {
				return "&" + g.tn(it.T) + "{}"
			}
			return "new(" + g.tn(it.T) + ")"
		}
		return g.val(it.T, 1)
	case t.Name == "fmt.Stringer":
		return pick(g, "stringeralloc", "time.Second", "new(strings.Builder)", "&bytes.Buffer{}", "reflect.TypeOf(0)")
	case t.Name == "any":
		return pick(g, "anyalloc", "0", `""`, "new(int)", "struct{}{}", "[]int{}", "(*int)(nil)", "error(nil)", "func() {}")
	case t.kind() == KIface && len(t.Impls) > 0:
		it := t.Impls[0]
		g.dep(it.T.unit)
		if it.Ptr {
			if it.T.literalable() {
				return "&" + g.tn(it.T) + "{}"
			}
			return "new(" + g.tn(it.T) + ")"
		}
		return g.simple(it.T)
	case t.kind() == KPtr && t.Name == "":
		if t.Elem.literalable() && g.flip("addrlit") {
			return "&" + g.tn(t.Elem) + "{}"
		}
		return "new(" + g.tn(t.Elem) + ")"
	case t.kind() == KSlice:
		return pick(g, "slicealloc", "[]int{}", "make([]int, 0)", "[]int{1}")
	case t.kind() == KMap:
		return pick(g, "mapalloc", "map[string]int{}", "make(map[string]int)")
	case t.kind() == KChan:
		return "make(chan int)"
	case t.kind() == KFunc:
		return "func() {}"
	}
	return g.val(t, 1)
}
