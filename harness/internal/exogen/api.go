package exogen

import (
	"regexp"
	"strings"
)

// apiParams are the variables every API template may refer to.
const apiParamsHeavy = "s string, b []byte, n int, err error, m map[string]int, xs []int, ch chan int, mu *sync.Mutex, w http.ResponseWriter, r *http.Request, ctx context.Context, t time.Time, f float64, v any, d time.Duration, p *int, u uint8, ss []string, wg *sync.WaitGroup, rd io.Reader"
const apiParamsLight = "s string, b []byte, n int, err error, m map[string]int, xs []int, ch chan int, mu *sync.Mutex, w io.Writer, ctx context.Context, t time.Time, f float64, v any, d time.Duration, p *int, u uint8, ss []string, wg *sync.WaitGroup, rd io.Reader"
const apiZeroArgsHeavy = `"", nil, 0, nil, nil, nil, nil, nil, nil, nil, nil, time.Time{}, 0, nil, 0, nil, 0, nil, nil, nil`
const apiZeroArgsLight = `"", nil, 0, nil, nil, nil, nil, nil, nil, nil, time.Time{}, 0, nil, 0, nil, 0, nil, nil, nil`

// Packages whose import makes building and linting a module much slower
// (large dependency graphs); only a quarter of the packages use them.
var heavyRe = regexp.MustCompile(`\b(http|tls|x509|exec|net|url|elliptic|big|flag)\.|\br\.Header|w\.WriteHeader`)

var (
	lightTemplates []int
	allTemplates   []int
)

func init() {
	for i, t := range apiTemplates {
		allTemplates = append(allTemplates, i)
		if !heavyRe.MatchString(t) {
			lightTemplates = append(lightTemplates, i)
		}
	}
}

func (g *gen) apiParams() (params, zero string) {
	if g.heavy {
		return apiParamsHeavy, apiZeroArgsHeavy
	}
	return apiParamsLight, apiZeroArgsLight
}

// apiTemplates are the call shapes that individual checks pattern-match on.
// A hole {K:a|b|c} is an operand of kind K (S string, I int, D duration, B
// byte slice, F float64, L bool, R rune, E error) drawn from the listed
// candidates and then exoticised: parenthesised, routed through a named type,
// an alias, a constant, a variable, a generic identity function, a method
// value, a closure.
var apiTemplates = []string{
	// regexp, time, strconv
	"_ = regexp.MustCompile({S:\"[a-\"|\"a+\"|\"(?P<n>x)\"|`\\d`|\"[\"|\"\\\\p{Foo}\"|\"a{2,1}\"|\"\"})",
	"_, _ = regexp.Compile({S:\"(\"|\"x*\"|\"(?i)y\"|s})",
	"_ = regexp.MustCompile({S:\"a.\"|\"^$\"}).FindAll({B:b|nil|[]byte(s)}, {I:-1|0|1|n})",
	"_, _ = regexp.Match({S:\"[\"|\"x\"}, {B:b|nil})",
	"_, _ = regexp.MatchString({S:\"(?\"|\"x\"}, {S:s|\"y\"})",
	"_ = regexp.MustCompilePOSIX({S:\"a|b\"|\"\\\\pN\"})",
	"_, _ = time.Parse({S:\"2006-01-02\"|\"02/13/2006\"|\"invalid\"|time.RFC3339|\"\"|\"Jan _2\"|\"2006-01-02T15:04:05.000000000000000000Z07:00\"}, {S:s|\"x\"})",
	"_, _ = time.ParseInLocation({S:\"2006\"|\"1999\"}, s, time.UTC)",
	"_ = t.Format({S:\"2006-02-01\"|\"YYYY\"|time.Kitchen})",
	"time.Sleep({D:1|5|time.Second|5 * time.Second|0|d|100|time.Duration(n)})",
	"_ = time.NewTicker({D:0|-1|time.Second|d})",
	"_ = time.Tick({D:time.Second|d|0})",
	"_ = time.NewTimer({D:1|d}).Reset({D:2})",
	"_ = time.After({D:10|d})",
	"_ = t.Sub(time.Now())",
	"_ = time.Now().Sub({N:t|time.Time{}|time.Now()})",
	"_ = time.Since(t).Seconds() * {F:1000|1e3|f}",
	"_ = {D:d|time.Second} * {D:time.Millisecond|d|2}",
	"_ = t == {N:t|time.Time{}}",
	"_, _ = strconv.ParseInt({S:s|\"1\"}, {I:10|0|37|1|-1|n}, {I:64|0|65|-1|32|n})",
	"_, _ = strconv.ParseUint({S:s}, {I:10|100}, {I:64|128})",
	"_, _ = strconv.ParseFloat({S:s|\"1\"}, {I:64|32|10|0})",
	"_ = strconv.FormatInt(int64(n), {I:10|1|37|2})",
	"_ = strconv.FormatFloat(f, {N:'f'|'x'|'e'|byte(u)}, {I:-1|2}, {I:64|33})",
	"_ = strconv.Itoa(int({I:n|1}))",
	"_, _ = strconv.Atoi(fmt.Sprint({I:n}))",
	"_ = strconv.AppendInt(b, int64(n), {I:10|99})",
	// strings, bytes
	"_ = strings.TrimLeft({S:s|\"x\"}, {S:\"abc\"|\"aa\"|\"\"|\"aba\"|s})",
	"_ = strings.Trim({S:s}, {S:\"xx\"|\" \"|\"\\t\\t\"})",
	"_ = strings.TrimRight(s, {S:\"abcabc\"})",
	"_ = strings.NewReplacer({S:\"a\"}, {S:\"b\"}, {S:\"c\"})",
	"_ = strings.NewReplacer(ss...)",
	"_ = strings.NewReplacer({S:\"a\"}, {S:\"b\"})",
	"_ = strings.Replace(s, {S:\"a\"}, {S:\"b\"|\"a\"}, {I:-1|0|1|n})",
	"_ = strings.Index(s, {S:\"x\"|s}) {O:!=|==|>|>=|<} {I:-1|0|1}",
	"_ = strings.IndexByte(s, {N:'x'|u|0}) {O:!=|==|>=} -1",
	"_ = strings.IndexRune(s, {R:'x'|-1|0x110000}) != -1",
	"_ = strings.IndexAny(s, {S:\"ab\"|\"\"}) > -1",
	"_ = strings.Contains(s, {S:\"\"|\"x\"}) == {L:true|false}",
	"_ = strings.Compare({S:s|\"a\"}, {S:\"b\"|s}) {O:==|!=|<|>|<=|>=} {I:0|1|-1}",
	"_ = bytes.Compare({B:b|nil|[]byte(s)}, {B:b|nil}) {O:==|!=|<|>} {I:0|1}",
	"_ = bytes.Equal({B:b|[]byte(s)}, {B:b|nil|[]byte(\"x\")})",
	"_ = string({B:b}) == string({B:b|[]byte(s)})",
	"_ = strings.ToLower({S:s|\"A\"}) {O:==|!=} strings.ToLower({S:s|\"b\"})",
	"_ = strings.ToUpper(s) == strings.ToUpper({S:\"x\"})",
	"_ = strings.EqualFold(strings.ToLower(s), {S:\"x\"})",
	"_ = strings.Map(func(r rune) rune { return {N:r|-1|'x'} }, {S:s})",
	"_ = strings.Count(s, {S:\"\"|\"a\"})",
	"_ = strings.Split(s, {S:\"\"|\",\"})[{I:0|1}]",
	"_ = strings.SplitN(s, {S:\",\"}, {I:0|1|-1|2})",
	"_ = strings.Repeat({S:s|\"a\"}, {I:-1|0|n|2})",
	"_ = strings.Title({S:s})",
	"_ = strings.Fields(strings.TrimSpace({S:s}))",
	"_ = strings.Join(strings.Split(s, {S:\"a\"}), {S:\"b\"})",
	"_ = len(strings.Split(s, {S:\",\"})) {O:==|>|!=} {I:0|1}",
	"if strings.HasPrefix({N:s|(s)}, {S:\"pre\"|s}) {\n\t\ts = s[len({S:\"pre\"|s}):]\n\t}",
	"if strings.HasSuffix(s, {S:\"suf\"}) {\n\t\ts = s[:len(s)-len({S:\"suf\"|\"xyz\"})]\n\t}",
	"if strings.Contains(s, {S:\"x\"}) {\n\t\ts = strings.Replace(s, {S:\"x\"}, {S:\"y\"}, -1)\n\t}",
	"if strings.HasPrefix(s, {S:\"ab\"}) {\n\t\ts = strings.TrimPrefix(s, {S:\"ab\"|\"cd\"})\n\t}",
	"if bytes.HasPrefix(b, {B:[]byte(\"x\")|b}) {\n\t\tb = b[{I:1|n}:]\n\t}",
	"_ = string(bytes.TrimSpace([]byte({S:s})))",
	"_ = bytes.NewBuffer({B:b|nil}).String() == {S:\"\"|s}",
	"_ = []byte(fmt.Sprintf({S:\"%d\"|\"x\"|\"%s\"}, {N:n|s|v}))",
	"_, _ = w.Write([]byte(fmt.Sprintf({S:\"%s\"|\"%d\"}, {N:s|n})))",
	"_, _ = io.WriteString(w, string({B:b}))",
	"_ = utf8.RuneCountInString(string({B:b}))",
	"_ = len([]rune({S:s}))",
	"for _, c := range []rune({S:s}) {\n\t\t_ = c\n\t}",
	"for i, c := range []byte({S:s}) {\n\t\t_, _ = i, c\n\t}",
	"for _, c := range strings.Split({S:s}, {S:\"\"|\"x\"}) {\n\t\t_ = c\n\t}",
	// fmt
	"_ = fmt.Sprintf({S:\"%s\"|\"%v\"|\"%d\"|\"x\"|\"%s%s\"}, {N:s|n|v|err|b|t|d|p})",
	"_ = fmt.Sprintf({S:\"%s\"}, {N:s|err|v|t|fmt.Sprint(s)})",
	"_ = fmt.Sprint({N:s|err|n|string(b)})",
	"fmt.Println(fmt.Sprintf({S:\"%d\"|\"x\"}, {N:n|s}))",
	"fmt.Print(fmt.Sprintf({S:\"%s\\n\"}, s))",
	"_ = errors.New(fmt.Sprintf({S:\"x %d\"|\"x\"}, {N:n}))",
	"_ = fmt.Errorf({S:\"x\"|\"%w %w\"|\"%w\"}, {N:err|n|nil})",
	"_ = fmt.Sprintf({S:\"%s\"|\"%x\"}, {N:err.Error()|t.String()|d.String()|s+s|[]byte(s)})",
	"panic(fmt.Sprintf({S:\"%s\"|\"x\"}, {N:s|err}))",
	"_, _ = fmt.Fprint(w, fmt.Sprintf({S:\"%v\"}, {N:v|n}))",
	"_ = fmt.Sprintf({S:\"%t\"|\"%d\"|\"%s\"}, {N:true|n > 1|u|int64(n)|s})",
	// sort, slices
	"sort.Sort(sort.StringSlice({N:ss|[]string{}|nil}))",
	"sort.Sort(sort.IntSlice({N:xs|[]int{1}}))",
	"sort.Sort(sort.Reverse(sort.IntSlice(xs)))",
	"sort.Slice({N:xs|v|ss|m|&xs|[2]int{}|s|nil|*new([]int)}, func(i, j int) bool { return {N:i < j|true} })",
	"sort.SliceStable({N:xs|v|p}, func(i, j int) bool { return xs[i] < xs[j] })",
	"_ = sort.SliceIsSorted({N:v|xs|n}, func(i, j int) bool { return false })",
	"_ = sort.Search({I:n|len(xs)|-1}, func(i int) bool { return xs[i] >= {I:1} })",
	"slices.Sort({N:xs|ss|[]int(nil)})",
	"_ = slices.Contains({N:xs}, {I:1|n})",
	// sync, atomic
	"mu.Lock()\n\tmu.Unlock()",
	"mu.Lock()\n\tdefer mu.Lock()",
	"mu.Lock()\n\tdefer mu.Unlock()\n\tmu.Unlock()",
	"{N:mu|new(sync.Mutex)|(mu)|(*sync.Mutex)(nil)}.Lock()\n\t{N:mu|(mu)}.Unlock()",
	"var rw sync.RWMutex\n\trw.RLock()\n\trw.RUnlock()\n\trw.Lock()\n\tdefer rw.RUnlock()",
	"go func() {\n\t\twg.Add({I:1|n|-1})\n\t\tdefer wg.Done()\n\t}()\n\twg.Wait()",
	"wg.Add(1)\n\tgo func() { wg.Done() }()",
	"var pool sync.Pool\n\tpool.Put({N:xs|b|p|&xs|s|n|v|[4]byte{}|struct{}{}|ss|m|ch|mu|*new([]byte)})\n\t_ = pool.Get()",
	"var once sync.Once\n\tonce.Do(func() { once.Do(func() {}) })",
	"var cnt int64\n\tcnt = atomic.AddInt64(&cnt, {N:1|int64(n)})\n\t_ = cnt",
	"var cnt uint32\n\tatomic.StoreUint32(&cnt, atomic.LoadUint32(&cnt)+1)",
	"var st struct {\n\t\ta bool\n\t\tb int64\n\t}\n\tatomic.AddInt64(&st.b, 1)",
	"var av atomic.Value\n\tav.Store({N:nil|s|n|v})\n\t_ = av.Load()",
	"var cond = sync.NewCond(mu)\n\tcond.Wait()",
	"mu2 := *mu\n\tmu2.Lock()",
	// os/signal, os, syscall, exec
	"sigc := make(chan os.Signal{N:|, 1|, 0|, n})\n\tsignal.Notify(sigc, {N:os.Interrupt|os.Kill|syscall.SIGKILL|syscall.SIGSTOP|syscall.SIGTERM|os.Signal(syscall.SIGKILL)})",
	"signal.Ignore({N:os.Kill|syscall.SIGKILL|syscall.SIGINT|os.Signal(nil)})",
	"signal.Reset({N:syscall.SIGSTOP|os.Interrupt})",
	"_, _ = os.OpenFile({S:s|\"f\"}, os.O_RDONLY, {N:644|0644|0o644|0|os.ModePerm|os.FileMode(n)|420})",
	"_ = os.MkdirAll({S:s}, {N:755|0755|0o700|777})",
	"_ = os.Chmod(s, {N:0777|777|os.FileMode(644)})",
	"_ = os.WriteFile(s, {B:b}, {N:600|0600})",
	"_ = os.RemoveAll(os.TempDir())",
	"_ = os.RemoveAll({N:os.TempDir()|filepath.Join(os.TempDir(), s)|s})",
	"_, _ = os.UserCacheDir()\n\t_ = os.RemoveAll(func() string { d, _ := os.UserCacheDir(); return d }())",
	"_ = exec.Command({S:\"ls -l\"|\"ls\"|s}, {S:\"x\"})",
	"_ = exec.Command({S:\"rm -rf x\"})",
	"fd, err2 := os.Open(s)\n\tdefer fd.Close()\n\tif err2 != nil {\n\t\treturn\n\t}",
	"fd, err2 := os.Create(s)\n\tif err2 != nil {\n\t\tlog.Fatal(err2)\n\t}\n\tdefer fd.Close()\n\tos.Exit({I:1|0|n})",
	"_ = os.Getenv({S:\"HOME\"|\"\"}) == {S:\"\"}",
	"_, ok := os.LookupEnv({S:\"X\"})\n\t_ = ok",
	"_ = filepath.Join({S:\"a\"})",
	"_ = filepath.Join({S:\"a\"|s}, {S:\"/b\"|\"..\"})",
	// net/http, url, net
	"_ = r.Header[{S:\"content-type\"|\"Content-Type\"|\"X-my-header\"|s}]",
	"h := http.Header{}\n\th[{S:\"accept\"|\"Accept\"}] = {N:nil|ss|[]string{s}}\n\t_ = h[{S:\"etag\"|\"ETag\"|\"Etag\"}]",
	"_ = r.Header.Get(http.CanonicalHeaderKey({S:\"x-y\"|s}))",
	"r.Header.Set(http.CanonicalHeaderKey({S:\"a\"}), s)",
	"http.Error(w, {S:\"x\"}, {I:404|200|999|http.StatusTeapot|418|n|500|0})",
	"w.WriteHeader({I:200|201|404|503|http.StatusOK|n|1000})",
	"http.Redirect(w, r, s, {I:301|302|http.StatusFound|307})",
	"_ = http.StatusText({I:404|200})",
	"resp, err2 := http.Get({S:s|\"http://x\"})\n\tdefer resp.Body.Close()\n\tif err2 != nil {\n\t\treturn\n\t}",
	"resp, err2 := http.Get(s)\n\tif err2 != nil {\n\t\treturn\n\t}\n\tdefer resp.Body.Close()\n\t_, _ = io.ReadAll(resp.Body)",
	"_, _ = http.NewRequest({S:\"GET\"|\"get\"|\"POST\"|http.MethodGet|\"\"|s}, s, {N:nil|rd|strings.NewReader(s)})",
	"_, _ = http.NewRequestWithContext({N:ctx|nil|context.TODO()}, {S:\"PUT\"|\"put\"}, s, nil)",
	"_, _ = url.Parse({S:\":\"|\"http://x\"|\"%zz\"|s|\"http://[::1\"})",
	"_, _ = url.ParseRequestURI({S:\"x\"})",
	"_ = net.ParseIP({S:\"1.2.3.4\"|\"x\"|\"::1\"}) {O:==|!=} nil",
	"_ = net.IP({B:b|nil}).Equal(net.ParseIP({S:\"1.1.1.1\"}))",
	"_ = bytes.Equal(net.ParseIP(s), {N:net.IP(b)|net.IPv4zero|b})",
	"_, _, _ = net.ParseCIDR({S:\"1.2.3.4/8\"|\"x\"})",
	"_, _ = net.Listen({S:\"tcp\"|\"tcp7\"|\"\"}, {S:\":0\"|\"x:y:z\"|\":65536\"|\"host:http\"})",
	"_, _ = net.Dial({S:\"udp\"}, {S:\"1.2.3.4:80\"|\"[::1]:80\"|\"::1:80\"})",
	"_ = http.ListenAndServe({S:\":8080\"|\"localhost\"|\":99999\"}, nil)",
	// encoding
	"_, _ = json.Marshal({N:v|ch|func() {}|struct{ a int }{}|struct{ A chan int }{}|m|&v|complex(1, 2)|map[int]int{}|map[float64]int{}|map[struct{}]int{}|[]func(){}|struct{ F func() `json:\"-\"` }{}|*new(interface{ M() })|struct{ unexported, also int }{}|t|d|p|err})",
	"_ = json.Unmarshal({B:b|nil}, {N:v|&v|m|&m|p|xs|&xs|nil|s|&s|struct{}{}|new(any)|*new(*int)|map[string]any{}|ch|&ch})",
	"_ = json.NewDecoder(rd).Decode({N:v|&v|m|n|&n|nil})",
	"_ = json.NewEncoder(w).Encode({N:ch|v|func() {}|&p})",
	"_, _ = xml.Marshal({N:v|ch|m|struct{ A int `xml:\"a,attr,attr\"` }{}|struct{ XMLName xml.Name `xml:\"x\"`; A []int `xml:\"a>b>c\"` }{}|struct{ A, B int `xml:\",chardata\"` }{}|p|&xs|struct{ A map[string]int }{}|func() {}|struct{ A any `xml:\",any,attr\"` }{}|struct{ A string `xml:\"a>b,attr\"` }{}|struct{ A int `xml:\",innerxml\"`; B int `xml:\",innerxml\"` }{}})",
	"_ = xml.Unmarshal({B:b}, {N:v|&v|p|m|&m|xs|nil|s})",
	"_ = binary.Write(w, binary.LittleEndian, {N:n|int32(n)|v|xs|s|p|u|&u|[]int{}|[]int32{}|struct{ a int }{}|struct{ a int32 }{}|&struct{ A uint8; B []byte }{}|true|f|[2]bool{}|uint(1)|uintptr(0)|[]struct{ X uint16 }{}|*new(struct{ _ int8 })})",
	"_ = binary.Read(rd, binary.BigEndian, {N:n|&n|p|v|&f|xs|&xs|new(int32)|nil})",
	"_ = binary.Size({N:n|int64(1)|v|xs})",
	"_, _ = hex.DecodeString({S:\"zz\"|s})",
	"_, _ = base64.StdEncoding.DecodeString({S:\"!\"|s})",
	// context, errors
	"_ = context.WithValue({N:ctx|context.Background()|nil|context.TODO()}, {N:\"key\"|s|1|n|struct{}{}|v|'k'|true|1.5|new(int)|[1]int{}|struct{ a int }{}|fmtString(\"k\")|p|nil|err|t}, {N:1|nil|v})",
	"ctx2, _ := context.WithCancel({N:ctx|nil})\n\t_ = ctx2",
	"ctx2, cancel := context.WithTimeout({N:ctx|context.Background()}, {D:d|5|time.Second})\n\t_ = ctx2\n\t_ = cancel",
	"_, _ = http.NewRequestWithContext(nil, {S:\"GET\"}, s, nil)",
	"func(c context.Context, k int) {}({N:nil|ctx|context.TODO()|context.Context(nil)}, {I:1})",
	"_ = errors.Is({E:err|nil|io.EOF}, {E:io.EOF|err|nil|os.ErrNotExist})",
	"_ = errors.As({E:err|nil}, {N:&err|v|&v|p|nil|new(error)|new(*os.PathError)|*new(**os.PathError)|err|&p|new(int)|&s})",
	"_ = {E:err|io.EOF} {O:==|!=} {E:io.EOF|nil|err|os.ErrNotExist|context.Canceled|sqlErrNoRows}",
	"if {E:err} != nil {\n\t\t_ = {E:err}.Error() == {S:\"x\"|io.EOF.Error()}\n\t}",
	"_ = errors.Unwrap(fmt.Errorf({S:\"%v\"|\"%w\"}, {E:err}))",
	// templates
	"_, _ = template.New({S:\"x\"}).Parse({S:\"{{.}}\"|\"{{\"|\"{{if}}\"|\"{{ .Foo | bar }}\"|s|\"{{end}}\"})",
	"_ = template.Must(template.New(s).Parse({S:\"{{range}}\"|\"ok\"}))",
	"_, _ = template.New(s).Delims({S:\"<<\"}, {S:\">>\"}).Parse({S:\"{{\"|\"<<\"})",
	// math, rand
	"_ = math.Pow({F:f|2|float64(n)}, {F:2|3|0.5|-1|0|1|f|10})",
	"_ = {F:f|1.5} {O:==|!=|<} math.NaN()",
	"_ = math.Ceil(float64({I:n|1}))",
	"_ = math.Floor({F:float64(n)|float64(int64(n))|f})",
	"_ = math.IsNaN(float64({I:n}))",
	"_ = rand.Intn({I:1|0|n|-1|2})",
	"_ = rand.Int63n({N:1|int64(n)})",
	"_ = rand.Int31n(1) {O:==|!=|>} {N:0|1}",
	"rand.Seed({N:1|int64(n)|time.Now().UnixNano()})",
	"_ = math.Sqrt({F:-1|f}) * math.Sqrt({F:f})",
	"_ = int({F:math.Float64frombits(1)|f}) {O:==|<} {I:0}",
	"_ = bits.LeadingZeros8({N:u|1}) > 8",
	// reflect, unsafe
	"_ = reflect.TypeOf({N:v|n|nil|err|(*error)(nil)|p}).{N:Kind()|Elem()|String()|Name()}",
	"_ = reflect.ValueOf({N:v|xs|&xs|p}).{N:Len()|Pointer()|UnsafeAddr()|IsNil()|Interface()}",
	"_ = reflect.DeepEqual({N:v|xs|b|err|nil|t}, {N:v|xs|b|nil|t|[]int(nil)})",
	"_ = reflect.PtrTo(reflect.TypeOf({N:n|v}))",
	"var hdr reflect.SliceHeader\n\thdr.Data = uintptr(unsafe.Pointer({N:p|&xs[0]|new(int)}))\n\t_ = hdr",
	"_ = unsafe.Pointer(uintptr(unsafe.Pointer({N:p|&n})) + {N:1|uintptr(n)|unsafe.Sizeof(n)})",
	"_ = uintptr(unsafe.Pointer({N:p|&xs|&s|nil}))",
	"_ = (*[4]byte)(unsafe.Pointer({N:p|&n|&f|&u}))",
	"_ = unsafe.Sizeof({N:n|v|xs|struct{ a bool; b int64; c bool }{}|*p|s|[0]int{}})",
	"_ = unsafe.Slice({N:p|&xs[0]|(*int)(nil)}, {I:n|0|1})",
	// io, bufio, flag, misc std
	"_, _ = io.Copy({N:w|io.Discard}, io.LimitReader({N:rd|strings.NewReader(s)|bytes.NewReader(b)|bytes.NewBuffer(b)|bytes.NewBufferString(s)}, {N:10|int64(n)}))",
	"_, _ = ioutil.ReadAll(rd)",
	"_, _ = rd.Read({B:b|nil|make([]byte, 0)|b[:0]})",
	"_, _ = io.ReadFull(rd, {B:b[:0]|nil|b})",
	"var sk io.Seeker\n\t_, _ = sk.Seek({N:0|io.SeekStart|int64(n)|2}, {N:io.SeekStart|0|io.SeekEnd|os.SEEK_SET|int(n)|10})",
	"sc := bufio.NewScanner(rd)\n\tfor sc.Scan() {\n\t\t_ = sc.Text()\n\t}",
	"_ = flag.String({S:\"name\"|\"-name\"|\"na=me\"|\"\"}, {S:\"\"}, {S:\"usage\"|\"Usage.\"})",
	"_ = flag.Lookup({S:\"x\"}).Value.(flag.Getter).Get().({N:int|string|time.Duration})",
	"_ = sha256.Sum256({B:b|nil|[]byte(s)})",
	"_ = elliptic.P224()\n\t_, _, _, _ = elliptic.GenerateKey(elliptic.P256(), rd)",
	"_ = tls.Config{MinVersion: {N:tls.VersionSSL30|tls.VersionTLS10|0|tls.VersionTLS13}, InsecureSkipVerify: {L:true|false}}",
	"_ = runtime.NumGoroutine() {O:>|==} {I:0|-1}\n\truntime.GC()\n\tdebug.FreeOSMemory()",
	"runtime.SetFinalizer({N:p|v|&xs|s|nil|*new(*struct{ a int })}, {N:nil|func(*int) {}|func(any) {}|func(p *int) { println(p) }|v})",
	"_ = path.Join({S:\"a\"}, {S:\"\\\\b\"|\"b\"})",
	"_ = new(big.Int).SetInt64({N:1|int64(n)}).Cmp(big.NewInt({N:0|2})) {O:==|<|!=} {I:0|1|-1|2}",
	"heap.Init({N:(*intHeap)(nil)|new(intHeap)|&intHeap{1}})",
	// language-level shapes of the S1xxx / SA4xxx / SA9xxx checks
	"if {L:n > 0|v == nil} == {L:true|false} {\n\t}",
	"if !({L:n == 1|s != \"\"|!(n > 2)}) {\n\t}",
	"if {L:n > 0} {\n\t} else {\n\t}",
	"if {L:n > 1} {\n\t} else if {L:n > 1} {\n\t}",
	"for {L:true|n > 0|!false} {\n\t\tbreak\n\t}",
	"for i := 0; i < {I:10|n}; i++ {\n\t\t{N:break|return|continue|panic(1)|os.Exit(1)|_ = i}\n\t}",
	"for i, x := range xs {\n\t\t_ = i\n\t\txs2 := make([]int, len(xs))\n\t\txs2[i] = x\n\t}",
	"dst := make([]int, len(xs))\n\tfor i, x := range {N:xs|xs[:]|(xs)} {\n\t\tdst[i] = x\n\t}",
	"dst := make([]int, {I:0|len(xs)})\n\tfor _, x := range xs {\n\t\tdst = append(dst, {N:x|(x)|x + 0|int(x)})\n\t}\n\t_ = dst",
	"var arr, arr2 [4]int\n\tfor i := range arr {\n\t\tarr2[i] = arr[i]\n\t}\n\t_ = arr2",
	"for i := range xs {\n\t\txs[i] = {I:0|1|n}\n\t}",
	"for k := range m {\n\t\tdelete(m, k)\n\t}",
	"for k, v2 := range m {\n\t\t_ = v2\n\t\tm[k+\"x\"] = 1\n\t}",
	"for _ = range {N:xs|ch|s|m|10} {\n\t}",
	"for i, _ := range {N:xs|s|m|ss} {\n\t\t_ = i\n\t}",
	"for {\n\t\tselect {\n\t\tcase x := <-ch:\n\t\t\t_ = x\n\t\t}\n\t}",
	"for {\n\t\tselect {\n\t\tcase <-ch:\n\t\tdefault:\n\t\t}\n\t}",
	"select {\n\tcase x, ok := <-ch:\n\t\t_, _ = x, ok\n\t}",
	"select {\n\tcase <-time.After({D:d|time.Second}):\n\t}",
	"for {\n\t\tselect {\n\t\tcase <-time.After(d):\n\t\tcase <-ctx.Done():\n\t\t\treturn\n\t\t}\n\t}",
	"for range time.Tick(d) {\n\t\tbreak\n\t}",
	"for {\n\t\ttime.Sleep({D:d|0})\n\t}",
	"for {\n\t\tdefer {N:mu.Unlock()|func() {}()|wg.Done()}\n\t}",
	"for x := range ch {\n\t\tdefer func(int) {}(x)\n\t}",
	"_ = <-ch",
	"x, _ := m[{S:\"k\"|s}]\n\t_ = x",
	"x, _ := v.({N:int|error|interface{ M() }})\n\t_ = x",
	"var x int = {N:*new(int)|0|n}\n\t_ = x",
	"var x {N:string = s|any = v|error = err|*int = p|[]int = xs|float64 = f|uint8 = u|error = nil|[]int = nil|func() = nil}\n\t_ = x",
	"var x2 = {N:int(n)|string(s)|float64(f)|uint8(u)|error(err)|[]int(xs)|any(v)|(*int)(p)|time.Duration(d)|int(1)|string(\"a\")}\n\t_ = x2",
	"if m != nil {\n\t\tfor range m {\n\t\t}\n\t}",
	"if {N:xs|ss|b} != nil {\n\t\tfor _, x := range {N:xs} {\n\t\t\t_ = x\n\t\t}\n\t}",
	"if xs != nil && len(xs) {O:>|!=|==|>=} {I:0|1} {\n\t}",
	"if {N:m|xs|ch|b} == nil || len({N:m|xs}) == 0 {\n\t}",
	"if _, ok := m[{S:\"k\"|s}]; ok {\n\t\tdelete(m, {S:\"k\"|s|\"j\"})\n\t}",
	"if x, ok := m[s]; ok {\n\t\tm[s] = x + {I:1|n}\n\t} else {\n\t\tm[s] = {I:1|n|0}\n\t}",
	"if _, ok := m[s]; !ok {\n\t\tm[s] = 0\n\t}\n\tm[s] += 1",
	"switch x := v.(type) {\n\tcase int:\n\t\t_ = v.(int)\n\tcase error:\n\t\t_ = x\n\t}",
	"switch v.(type) {\n\tcase {N:int|io.Reader|error|any}:\n\t\t_ = v.({N:int|io.Reader})\n\tcase {N:string|io.ReadCloser|fmt.Stringer|interface{ Read([]byte) (int, error) }}:\n\t}",
	"switch {N:n|(n)|len(s)} {\n\tdefault:\n\t\t_ = 0\n\tcase {N:*new(int)|1}:\n\t}",
	"switch {\n\tcase n > 0:\n\t\tfallthrough\n\tdefault:\n\tcase n < 0:\n\t}",
	"switch x := {N:n|len(s)}; {N:x|x > 1} {\n\t}",
	"_ = v.(interface{ Error() string }).({N:error|fmt.Stringer|any})",
	"_ = error(err).(error)",
	"_ = any(v).(any)",
	"_ = xs[{N:0:len(xs)|:len(xs)|0:|:|n:len(xs):cap(xs)|:len(xs):cap(xs)}]",
	"_ = s[{N::len(s)|0:|len(s):|n:len(s)}]",
	"_ = make({N:[]int|map[string]int|chan int}, {I:0|n})",
	"_ = make([]int, {I:0|n}, {I:0|n|10})",
	"_ = append(xs{N:|, 1|, xs...|, xs[1:]...})",
	"xs = append({N:xs|xs[:0]|[]int(nil)|ss2}{N:|, n|, xs...})",
	"_ = len(xs) {O:<|>=|==|<=|>|!=} {I:0|-1}",
	"_ = {N:u|uint(n)|uint64(u)|uintptr(n)|byte(n)|len(xs)|cap(xs)|len(s)} {O:<|>=|<=|>} 0",
	"_ = {N:u|int8(n)|uint16(u)|int32(n)} {O:>>|<<} {I:8|7|16|32|64|0}",
	"_ = {N:n|u|int64(n)} {O:&|\\||^|&^} {N:0|0x0|(0)}",
	"_ = n {O:&|\\||^|-|/|%|==|!=|<} n",
	"_ = {N:n|xs[0]|len(s)|m[s]|*p} {O:==|!=|-|/|<=} {N:n|xs[0]|len(s)|m[s]|*p}",
	"_ = ({L:n > 0|true} {O:&&|\\|\\|} {L:n > 0|false|true})",
	"_ = {I:0|1} {O:*|+|-} n {O:*|/} {I:1|2}\n\t_ = n * {I:0|0x0}",
	"_ = n {O:%|/} {I:1|2}",
	"_ = {N:-n|^n|!(n > 0)|- -n|^^u|+n}",
	"_ = float64(int({F:f})) == {F:f}",
	"_ = {N:n|int(u)} == {N:0x41|'A'|n}",
	"n = n\n\ts, s = s, s\n\txs[0], xs[0] = xs[0], xs[0]",
	"n, m[s] = m[s], n",
	"n++\n\tn += {I:1|0|-1}\n\tn -= 1\n\tn = n + 1\n\tn = 1 + n\n\tn *= 1",
	"x := n\n\tx = {I:1|n}\n\tx = {I:2}\n\t_ = x",
	"var x, y = 1, 2\n\tx, y = y, x\n\ttmp := x\n\tx = y\n\ty = tmp\n\t_, _ = x, y",
	"var nm map[string]int\n\tnm[{S:\"k\"}] = {I:1}",
	"var np *struct{ a int }\n\t_ = np.a",
	"if p == nil {\n\t\t{N:println(*p)|_ = *p|log.Println(\"nil\")|log.Fatal()|panic(*p)}\n\t}\n\t_ = *p",
	"_ = *p\n\tif p {O:==|!=} nil {\n\t\treturn\n\t}",
	"if x, ok := v.(*int); !ok {\n\t\t_ = *x\n\t} else {\n\t\t_ = x\n\t}",
	"if x, ok := v.({N:*int|error|int}); ok {\n\t} else {\n\t\t_ = x\n\t}",
	"defer func() {\n\t\tif r := recover(); r != nil {\n\t\t\t_ = r.(error)\n\t\t}\n\t}()",
	"defer recover()\n\tdefer panic({N:nil|\"x\"|err})",
	"go func() {\n\t\tpanic({N:err|\"x\"|nil})\n\t}()",
	"func() {\n\t\treturn\n\t}()",
	"func() (x int, err error) {\n\t\tdefer func() { err = nil }()\n\t\treturn 1, nil\n\t}()",
	"_ = func() error {\n\t\tif err != nil {\n\t\t\treturn err\n\t\t}\n\t\treturn {N:nil|err}\n\t}()",
	"_ = func() bool {\n\t\tif {L:n > 0|v == nil} {\n\t\t\treturn {L:true|false}\n\t\t}\n\t\treturn {L:false|true}\n\t}()",
	"_ = func() int {\n\t\tfor {\n\t\t}\n\t}",
	"_ = func(a, b int, c ...string) (int, error) { return a, nil }",
	"_ = func(x int) int {\n\t\tx = {I:1}\n\t\treturn x\n\t}",
	"var fnrec func(int) int\n\tfnrec = func(k int) int { return fnrec(k) }\n\t_ = fnrec",
	"var e1 interface{ M() }\n\tvar e2 interface{ M(); N() }\n\t_ = e1 == e2\n\t_ = e1 == v\n\t_ = v == n\n\t_ = err == v",
	"_ = [...]int{1, 2}[{I:0|1}] + [2]int{}[n]",
	"_ = struct{ a, b int }{1, 2} == struct{ a, b int }{b: 2, a: 1}",
	"_ = [](*int){p, nil}\n\t_ = []*struct{ a int }{{1}, nil, {}}\n\t_ = map[string][]int{\"a\": {1}, \"b\": nil}\n\t_ = [][]int{{}, nil, []int{1}}\n\t_ = [...]struct{ x, y int }{{1, 2}, {x: 1}}",
	"_ = &[]int{1}\n\t_ = &map[string]int{}\n\t_ = &[2]int{}\n\t_ = &struct{}{}\n\t_ = (&struct{ a int }{}).a",
	"type local struct {\n\t\tA int `json:\"a\" json:\"b\"`\n\t\tB int `json:\"a\"`\n\t\tC int `json:\",omitempty,omitempty\"`\n\t\tD int `json:\"d,string\" xml:\"d,attr,attr\"`\n\t\te int `json:\"e\"`\n\t\tF string `json:\",string\"`\n\t\tG []int `json:\",string\"`\n\t}\n\t_, _ = json.Marshal(local{})\n\t_, _ = xml.Marshal(local{})",
	"type local struct{ a, b int }\n\t_, _ = json.Marshal({N:local{}|&local{}|[]local{}|map[string]local{}|struct{ local }{}})",
	"type local struct {\n\t\tsync.Mutex\n\t\tn int\n\t}\n\tvar l local\n\tl2 := l\n\t_ = l2\n\tfunc(local) {}(l)",
	"type local struct {\n\t\ta bool\n\t\tb int64\n\t\tc bool\n\t}\n\tvar l local\n\tatomic.AddInt64(&l.b, 1)",
	"const (\n\t\tc1 {N:int|uint8|time.Duration} = {N:iota|1}\n\t\tc2 = {N:iota|2}\n\t\tc3\n\t)\n\t_, _, _ = c1, c2, c3",
	"const big = 1 << 40\n\t_ = {N:int64|float64|uint64}(big)\n\t_ = n > big>>38",
	"var _ = n\n\tvar _, _ = s, b",
	"_ = fmt.Sprint() + \"\" + s + {S:\"\"|s}",
	"_ = time.Duration({N:n|f|d|5}) * time.Second",
	"_ = int64(d / time.Millisecond)\n\t_ = d.Seconds() * 1000\n\t_ = time.Duration(d.Nanoseconds())",
	"println({N:1|s|n|v|p|f|xs|m|ch|err|u|'x'|1.5|true|2i})",
	"print()",
	"_ = copy({N:xs|xs[:0]}, {N:xs|xs[1:]})\n\t_ = copy({N:b|b[1:]}, {N:b|s|\"lit\"})",
	"_ = copy(xs, xs)\n\t_ = copy(b, {S:s|\"lit\"})",
	"clear({N:m|xs|ss|b})\n\t_ = min({I:1}, {I:n|2})\n\t_ = max({F:f}, {F:1.5}, {F:2})",
	"_ = cap({N:xs|ch|[3]int{}|&[2]int{}|make(chan int, 1)}) + len({N:m|\"lit\"|s|[0]int{}|ch})",
	"_ = new({N:int|[]int|struct{}|*int|func()|any|[0]int|chan int|map[string]int|sync.Mutex})",
	"_ = complex({F:f|1}, {F:2|f}) {O:==|!=} complex({F:1}, 2)\n\t_ = real(complex128({N:1i|complex(f, f)})) + imag({N:2i|complex(1, f)})",
	"close({N:ch|make(chan int)|(ch)|*new(chan int)})",
	// method calls that can also be written as method expressions (hole M: receiver;type;method)
	"_ = {M:regexp.MustCompile(\"a\");(*regexp.Regexp);FindAll}{B:b|nil}, {I:-1|0|n})",
	"_ = {M:regexp.MustCompile(\"a\");(*regexp.Regexp);FindAllString}{S:s}, {I:0|-1})",
	"{M:mu;(*sync.Mutex);Lock})\n\t{M:mu;(*sync.Mutex);Unlock})",
	"{M:wg;(*sync.WaitGroup);Add}{I:1|-1|n})",
	"_ = {M:t;time.Time;Sub}time.Now())",
	"_ = {M:time.Now();time.Time;Sub}{N:t|time.Time{}})",
	"_ = {M:json.NewDecoder(rd);(*json.Decoder);Decode}{N:v|&v|m|n|nil})",
	"_ = {M:json.NewEncoder(w);(*json.Encoder);Encode}{N:ch|v|func() {}|struct{ a int }{}})",
	"_ = {M:xml.NewEncoder(w);(*xml.Encoder);Encode}{N:ch|v|m|struct{ a int }{}})",
	"_ = {M:xml.NewDecoder(rd);(*xml.Decoder);Decode}{N:v|&v|m|n})",
	"{M:new(sync.Pool);(*sync.Pool);Put}{N:xs|b|p|s|n|&xs})",
	"_ = {M:new(bytes.Buffer);(*bytes.Buffer);String})",
	"_ = {M:time.NewTimer(d);(*time.Timer);Reset}{D:d|0})",
	"_ = {M:rand.New(rand.NewSource(1));(*rand.Rand);Intn}{I:1|n})",
	"{M:base64.StdEncoding;(*base64.Encoding);Encode}{B:b}, {B:b|b[1:]})",
	"_ = hex.Encode({B:b}, {B:b|b[:1]|[]byte(s)})",
	"_ = {M:strings.NewReplacer(\"a\", \"b\");(*strings.Replacer);Replace}{S:s})",
	"_ = {M:ctx;context.Context;Err})",
	"_ = {M:err;error;Error})",
	// functions that require an even number of elements
	"exoPairs({N:|1|1, 2|1, 2, 3|xs...|xs[:1]...|xs[1:3]...|arr3[:]...|arr3[:2]...|new([5]int)[:]...|[]int{1}...|append(xs, 1)...})",
	"_ = strings.NewReplacer({N:ss...|ss[:1]...|ss[:3]...|[]string{\"a\"}...|sarr3[:]...|new([1]string)[:]...})",
	// keyed literals of struct types reached through aliases and instantiated generic aliases
	"_ = {N:tar.Header|exoTarAlias|exoTarGA[int]|exoTarGA[[]string]}{Name: {S:s|\"n\"}, {N:Mode: 1|Size: int64(n)|Uid: n}}",
	"§sa1019-instantiated-literal-selector§_ = {N:exoTarGA[int]|exoTarGA[string]|exoTarGA[any]}{{N:Xattrs: nil|Name: s, Xattrs: map[string]string{}}}",
	"_ = {N:tar.Header|exoTarAlias}{Xattrs: nil}\n\t_ = {N:tar.Header{}|exoTarAlias{}|exoTarGA[int]{}}.Xattrs",
	"var fv {N:func(int) int = exoID[int]|func() = func() {}|func(string) string = strings.ToUpper|func() string = t.String|func(time.Time) string = time.Time.String|func(int, string) int = exoPair[int, string]|func(error) error = errors.Unwrap|func(...any) string = fmt.Sprint}\n\t_ = fv",
	// explicitly typed variables whose initialiser needs the declared type to infer type arguments
	"§redundant-type-partial-instantiation§var fv {N:func(int, string) int = exoPair[int]|func(int) int = exoID|func(int, string) int = exoPair|func(*int, []string) *int = exoPair[*int]}\n\t_ = fv",
	"delete(m, {S:s|\"k\"})\n\tdelete({N:m|map[string]int{}|(m)}, {S:\"k\"})",
}

// helper declarations referred to by a few templates
const exoHelperDecls = `type exoStr string

type exoAlias = string

type exoInt int

type exoBox[T any] struct{ v T }

func (b exoBox[T]) Get() T { return b.v }

func exoID[T any](x T) T { return x }

func exoPair[A, B any](a A, b B) A { return a }

func exoPairs(kv ...int) {
	if len(kv)%2 != 0 {
		panic("odd")
	}
}

var (
	arr3  [3]int
	sarr3 [3]string
)

type exoTarAlias = tar.Header

type exoTarGA[X any] = tar.Header

// the variables of the API call shapes, for shapes placed in package-level initialisers
var (
	s   string
	b   []byte
	n   int
	err error
	m   map[string]int
	xs  []int
	ch  chan int
	mu  *sync.Mutex
	w   io.Writer
	ctx context.Context
	t   time.Time
	f   float64
	v   any
	d   time.Duration
	p   *int
	u   uint8
	ss  []string
	wg  *sync.WaitGroup
	rd  io.Reader
)

var sqlErrNoRows = errors.New("sql: no rows")

var ss2 []int

type intHeap []int

func (h intHeap) Len() int           { return len(h) }
func (h intHeap) Less(i, j int) bool { return h[i] < h[j] }
func (h intHeap) Swap(i, j int)      { h[i], h[j] = h[j], h[i] }
func (h *intHeap) Push(x any)        { *h = append(*h, x.(int)) }
func (h *intHeap) Pop() any          { return nil }`

// findHole locates the first hole {K:body} in s, skipping string literals and
// balancing braces inside the body.
func findHole(s string) (start, end int, kind byte, body string, ok bool) {
	for i := 0; i+2 < len(s); i++ {
		if s[i] != '{' || s[i+2] != ':' || !strings.ContainsRune("SIDBFLREONM", rune(s[i+1])) {
			continue
		}
		depth := 0
		for j := i + 3; j < len(s); j++ {
			switch c := s[j]; c {
			case '"', '`', '\'':
				// skip the literal
				k := j + 1
				for k < len(s) && s[k] != c {
					if s[k] == '\\' && c != '`' {
						k++
					}
					k++
				}
				j = k
			case '{':
				depth++
			case '}':
				if depth == 0 {
					return i, j + 1, s[i+1], s[i+3 : j], true
				}
				depth--
			}
		}
	}
	return 0, 0, 0, "", false
}

// needExoHelpers declares the helper types once per package.
func (g *gen) needExoHelpers() {
	if g.exoHelpers != -1 {
		g.dep(g.exoHelpers)
		return
	}
	g.exoHelpers = -2
	save := g.sc
	g.sc = nil
	g.needPrintfHelpers()
	id := g.unit("api", false, func() string {
		g.dep(g.printfHelpers)
		return exoHelperDecls
	})
	g.sc = save
	g.exoHelpers = id
	g.dep(id)
}

// exo routes an operand of the given kind through a drawn disguise. pre
// collects statements that must precede the one under construction.
func (g *gen) exo(kind byte, e string, pre *[]string) string {
	if pre == nil {
		// no room for auxiliary statements (package-level initialiser)
		var none []string
		for i := 0; i < 4; i++ {
			if x := g.exo(kind, e, &none); len(none) == 0 {
				return x
			}
			none = none[:0]
		}
		return e
	}
	var typ string
	switch kind {
	case 'S':
		typ = "string"
	case 'I':
		typ = "int"
	case 'D':
		typ = "time.Duration"
	case 'B':
		typ = "[]byte"
	case 'F':
		typ = "float64"
	case 'L':
		typ = "bool"
	case 'R':
		typ = "rune"
	case 'E':
		typ = "error"
	default:
		return e
	}
	untypedNil := e == "nil"
	switch g.intn(0, 19, "exo") {
	case 0, 1, 2, 3, 4, 5, 6:
		return e
	case 7:
		g.feat("exo_paren")
		return "(" + e + ")"
	case 8:
		g.feat("exo_conversion")
		if untypedNil {
			return typ + "(nil)"
		}
		if typ == "[]byte" {
			return "([]byte)(" + e + ")"
		}
		return typ + "(" + e + ")"
	case 9:
		// through a named type and back (keeps constants constant)
		switch kind {
		case 'S':
			g.feat("exo_named_roundtrip")
			return "string(exoStr(" + e + "))"
		case 'I':
			g.feat("exo_named_roundtrip")
			return "int(exoInt(" + e + "))"
		}
		return e
	case 10:
		if kind == 'S' {
			g.feat("exo_alias")
			return "exoAlias(" + e + ")"
		}
		return e
	case 11:
		// a local constant
		if isConstOperand(e) && kind != 'B' && kind != 'E' {
			c := g.fresh("c")
			if g.flip("typedconst") {
				*pre = append(*pre, "const "+c+" "+typ+" = "+e)
			} else {
				*pre = append(*pre, "const "+c+" = "+e)
			}
			g.feat("exo_const")
			return c
		}
		return e
	case 12:
		if untypedNil {
			return e
		}
		x := g.fresh("x")
		*pre = append(*pre, "var "+x+" "+typ+" = "+e)
		g.feat("exo_var")
		return x
	case 13:
		if untypedNil {
			return e
		}
		g.feat("exo_generic_identity")
		if g.flip("explicitinst") {
			return "exoID[" + typ + "](" + e + ")"
		}
		return "exoID(" + typ + "(" + e + "))"
	case 14:
		if untypedNil {
			return e
		}
		g.feat("exo_method_value")
		return "(exoBox[" + typ + "]{" + e + "}).Get()"
	case 15:
		if untypedNil {
			return e
		}
		g.feat("exo_closure")
		return "func() " + typ + " { return " + e + " }()"
	case 16:
		if untypedNil {
			return e
		}
		x := g.fresh("x")
		*pre = append(*pre, x+" := "+typ+"("+e+")")
		g.feat("exo_deref")
		return "*&" + x
	case 17:
		if kind == 'S' && isConstOperand(e) {
			g.feat("exo_concat")
			return e + ` + ""`
		}
		if kind == 'I' && isConstOperand(e) {
			g.feat("exo_arith")
			return "(" + e + " + 0)"
		}
		return e
	case 18:
		if untypedNil {
			return e
		}
		g.feat("exo_any_assert")
		return "any(" + typ + "(" + e + ")).(" + typ + ")"
	default:
		return "((" + e + "))"
	}
}

var constOperandRe = regexp.MustCompile("^(-?[0-9][0-9a-zA-Z_.]*|\"[^\"]*\"|`[^`]*`|'[^']*'|true|false|time\\.[A-Z][A-Za-z0-9]*|[0-9] \\* time\\.[A-Za-z]+|http\\.(Status|Method)[A-Za-z]+|-1|tls\\.Version[A-Z0-9]+)$")

func isConstOperand(e string) bool { return constOperandRe.MatchString(e) }

// fill instantiates a template.
func (g *gen) fill(tmpl string, pre *[]string) string {
	for {
		start, end, kind, body, ok := findHole(tmpl)
		if !ok {
			return tmpl
		}
		var c string
		if kind == 'M' {
			// a method call: receiver;type;method, rendered up to the first argument
			parts := strings.SplitN(body, ";", 3)
			if len(parts) == 3 && g.chance(35, "methexpr") && g.include("callcheck-method-expression-receiver") {
				g.feat("exo_method_expression")
				c = parts[1] + "." + parts[2] + "(" + parts[0] + ", "
			} else if len(parts) == 3 {
				recv := parts[0]
				if g.chance(15, "parenrecv") {
					recv = "(" + recv + ")"
				}
				c = recv + "." + parts[2] + "("
			}
			tmpl = tmpl[:start] + c + tmpl[end:]
			continue
		}
		cands := splitTop(body)
		c = cands[g.intn(0, len(cands)-1, "cand")]
		if kind != 'O' && kind != 'N' {
			c = g.exo(kind, c, pre)
		}
		tmpl = tmpl[:start] + c + tmpl[end:]
	}
}

// splitTop splits at | outside braces, honouring \| as a literal bar.
func splitTop(s string) []string {
	var out []string
	depth := 0
	var cur strings.Builder
	for i := 0; i < len(s); i++ {
		c := s[i]
		switch {
		case c == '"' || c == '`' || c == '\'':
			k := i + 1
			for k < len(s) && s[k] != c {
				if s[k] == '\\' && c != '`' {
					k++
				}
				k++
			}
			if k >= len(s) {
				k = len(s) - 1
			}
			cur.WriteString(s[i : k+1])
			i = k
		case c == '\\' && i+1 < len(s) && s[i+1] == '|':
			cur.WriteByte('|')
			i++
		case c == '{':
			depth++
			cur.WriteByte(c)
		case c == '}':
			depth--
			cur.WriteByte(c)
		case c == '|' && depth == 0:
			out = append(out, cur.String())
			cur.Reset()
		default:
			cur.WriteByte(c)
		}
	}
	return append(out, cur.String())
}

// apiLines draws one template and returns its statements.
func (g *gen) apiLines() string {
	set := lightTemplates
	if g.heavy {
		set = allTemplates
	}
	i := set[g.intn(0, len(set)-1, "api")]
	tmpl := apiTemplates[i]
	// a template that is the input class of a recorded finding names its signature in front
	for strings.HasPrefix(tmpl, "§") {
		end := strings.Index(tmpl[2:], "§") + 2
		if g.include(tmpl[2:end]) {
			tmpl = tmpl[end+2:]
			break
		}
		i = set[g.intn(0, len(set)-1, "api")]
		tmpl = apiTemplates[i]
	}
	var pre []string
	s := g.fill(tmpl, &pre)
	s = g.exoCall(s)
	g.feat("api_" + apiName(apiTemplates[i]))
	if len(pre) > 0 {
		return "{\n\t" + strings.Join(pre, "\n\t") + "\n\t" + s + "\n\t}"
	}
	return "{\n\t" + s + "\n\t}"
}

// lastCall splits a single-line statement of the form `_ = X(args)`, `_, _ = X(args)` or
// `X(args)` into its prefix, the callee X and the parenthesised arguments of the
// outermost call, or reports false.
func lastCall(stmt string) (prefix, callee, args string, ok bool) {
	if strings.Contains(stmt, "\n") {
		return
	}
	expr := stmt
	if m := assignPrefixRe.FindString(stmt); m != "" {
		prefix, expr = m, stmt[len(m):]
	}
	if !strings.HasSuffix(expr, ")") || !callStartRe.MatchString(expr) {
		return
	}
	// match parentheses, skipping literals
	var stack []int
	open := -1
	for i := 0; i < len(expr); i++ {
		switch c := expr[i]; c {
		case '"', '`', '\'':
			k := i + 1
			for k < len(expr) && expr[k] != c {
				if expr[k] == '\\' && c != '`' {
					k++
				}
				k++
			}
			i = k
		case '(', '[', '{':
			stack = append(stack, i)
		case ')', ']', '}':
			if len(stack) == 0 {
				return
			}
			if i == len(expr)-1 {
				open = stack[len(stack)-1]
			}
			stack = stack[:len(stack)-1]
		}
	}
	if open <= 0 || len(stack) != 0 || expr[open] != '(' {
		return
	}
	callee = expr[:open]
	last := callee[len(callee)-1]
	if !(last == ')' || last == ']' || last == '_' || last >= '0' && last <= '9' || last >= 'a' && last <= 'z' || last >= 'A' && last <= 'Z') {
		return
	}
	for _, kw := range []string{"func", "len", "cap", "make", "new", "append", "copy", "delete", "close", "panic", "print", "println", "min", "max", "clear", "complex", "real", "imag", "recover"} {
		if callee == kw {
			return
		}
	}
	if strings.ContainsAny(callee, " <>=!+-*/%&|^") && !strings.HasPrefix(callee, "(") {
		return // an operator at the top level: the call is only an operand
	}
	return prefix, callee, expr[open:], true
}

var (
	assignPrefixRe = regexp.MustCompile(`^_(, _)* = `)
	callStartRe    = regexp.MustCompile(`^\(?\*?[A-Za-z_]`)
)

// exoCall disguises the call of a statement that consists of one call: the
// callee is parenthesised, or the call is deferred or started as a goroutine.
func (g *gen) exoCall(stmt string) string {
	prefix, callee, args, ok := lastCall(stmt)
	if !ok {
		return stmt
	}
	switch g.intn(0, 11, "exocall") {
	case 0, 3:
		// recorded finding: SA1001 asserts that the callee of a matched call is a selector expression
		if strings.HasSuffix(callee, ".Parse") && !g.include("sa1001-parenthesised-callee") {
			return stmt
		}
		if strings.HasPrefix(callee, "slices.") || strings.HasPrefix(callee, "maps.") || strings.HasPrefix(callee, "exoID") || strings.HasPrefix(callee, "exoPair(") || callee == "exoPair" {
			return stmt // generic functions cannot be parenthesised without instantiation
		}
		g.feat("exo_paren_callee")
		return prefix + "(" + callee + ")" + args
	case 1, 2:
		// conversions cannot be deferred; the callee must be a function or method
		if !qualifiedCalleeRe.MatchString(callee) || strings.HasPrefix(callee, "unsafe.") {
			return stmt
		}
		// recorded finding: SA5012 asserts that the source of a call instruction is a call expression
		if (strings.Contains(callee, "NewReplacer") || strings.Contains(callee, "exoPairs")) && !g.include("sa5012-call-source-defer-go") {
			return stmt
		}
		g.feat("exo_defer_go_call")
		return pick(g, "defergo", "defer ", "go ") + callee + args
	}
	return stmt
}

var qualifiedCalleeRe = regexp.MustCompile(`^([a-z][a-z0-9]*\.[A-Z]\w*|exo[A-Z]\w*|\(\*?[a-z]+\.[A-Z]\w*\)\.[A-Z]\w*|[a-z]+\.[A-Z]\w*\([^()]*\)\.[A-Z]\w*)$`)

var apiNameRe = regexp.MustCompile(`([a-z0-9]+\.[A-Za-z0-9]+)`)

// apiName is a short class name for a template: the first qualified identifier it mentions.
func apiName(t string) string {
	if m := apiNameRe.FindString(t); m != "" {
		return m
	}
	return "language_shape"
}

// apiStmt is an API statement for general bodies.
func (g *gen) apiStmt(d int) string {
	g.needExoHelpers()
	params, zero := g.apiParams()
	return "func(" + params + ") {\n\t" + g.apiLines() + "\n\t}(" + zero + ")"
}

// apiFunc is family g: a function whose body is a sequence of API call shapes.
func (g *gen) apiFunc() {
	g.needExoHelpers()
	// (only in packages without tests: `go test` runs the initialisers of the package, and the
	// call shapes are not meant to be executed)
	if !g.cfg.Test && g.chance(20, "pkglevel") {
		g.apiPackageLevel()
		return
	}
	g.unit("api", g.inTest(), func() string {
		g.dep(g.exoHelpers)
		name := g.styled(g.flip("expfn"))
		var blocks []string
		for i, n := 0, g.intn(1, 6, "napi"); i < n; i++ {
			blocks = append(blocks, g.apiLines())
		}
		params, _ := g.apiParams()
		return g.doc(name) + "func " + name + "(" + params + ") {\n\t" + strings.Join(blocks, "\n\t") + "\n}"
	})
}

// apiPackageLevel places call shapes in the initialisers of package-level
// variables (the calls then belong to the synthetic init function).
func (g *gen) apiPackageLevel() {
	g.unit("api", g.inTest(), func() string {
		g.dep(g.exoHelpers)
		var lines []string
		for tries, want := 0, g.intn(2, 6, "npkglevel"); tries < 60 && len(lines) < want; tries++ {
			tmpl := apiTemplates[lightTemplates[g.intn(0, len(lightTemplates)-1, "api")]]
			if strings.HasPrefix(tmpl, "§") || strings.Contains(tmpl, "\n") || !assignPrefixRe.MatchString(tmpl) {
				continue
			}
			// recorded finding: SA1003 takes the position of the enclosing function, which the
			// synthetic init function does not have
			if strings.Contains(tmpl, "binary.Write") && !g.include("sa1003-position-in-package-initialiser") {
				continue
			}
			s := g.fill(tmpl, nil)
			g.feat("api_package_level", "api_"+apiName(tmpl))
			lines = append(lines, "var "+s)
		}
		if len(lines) == 0 {
			lines = append(lines, "var _ = len(s)")
		}
		return strings.Join(lines, "\n\n")
	})
}
