package exogen

import (
	"fmt"
	"strings"
)

// testDecl is family h: declarations that only make sense in a _test.go file.
func (g *gen) testDecl() {
	g.unit("tests", true, func() string {
		n := g.fresh("")
		switch g.intn(0, 9, "testform") {
		case 0, 1:
			g.feat("test_func")
			name := pick(g, "testname", "TestFoo", "Test_foo", "TestFoo_bar", "Testfoo", "Test") + n
			body := pick(g, "testbody",
				"go func() {\n\t\tt.Fatal(\"x\")\n\t}()",
				"go func() {\n\t\tt.Fatalf(\"%d\", 1)\n\t\tt.FailNow()\n\t\tt.Skip()\n\t}()",
				"t.Parallel()\n\tt.Run(\"sub\", func(t *testing.T) {\n\t\tt.Parallel()\n\t\tgo t.FailNow()\n\t})",
				"t.Errorf(\"%d %s\", 1)\n\tt.Logf(\"%z\", t)\n\tt.Fatalf(\"x\", 1)",
				"defer t.Cleanup(func() {})\n\tt.Helper()\n\tif testing.Short() {\n\t\tt.Skip(\"short\")\n\t}",
				"var wg sync.WaitGroup\n\twg.Add(1)\n\tgo func() {\n\t\tdefer wg.Done()\n\t\tt.Fatal()\n\t}()\n\twg.Wait()",
				"for i := 0; i < 2; i++ {\n\t\tt.Run(fmt.Sprint(i), func(t *testing.T) {\n\t\t\t_ = i\n\t\t})\n\t}",
				"ctx, cancel := context.WithCancel(context.Background())\n\t_ = ctx\n\tt.Cleanup(cancel)\n\tt.Setenv(\"A\", \"b\")\n\t_ = t.TempDir()",
				"")
			return g.doc(name) + "func " + name + "(t *testing.T) {\n\t" + body + "\n}"
		case 2:
			g.feat("benchmark_func")
			name := "Benchmark" + pick(g, "benchname", "Foo", "_foo", "") + n
			body := pick(g, "benchbody",
				"for i := 0; i < b.N; i++ {\n\t}",
				"b.N = 1\n\tfor i := 0; i < b.N; i++ {\n\t\tb.N++\n\t}",
				"for b.Loop() {\n\t}",
				"b.RunParallel(func(pb *testing.PB) {\n\t\tfor pb.Next() {\n\t\t\tb.Fatal()\n\t\t}\n\t})",
				"b.ResetTimer()\n\tb.ReportAllocs()\n\tfor range b.N {\n\t}",
				"go func() {\n\t\tb.Fatal(\"x\")\n\t}()\n\tb.Run(\"s\", func(b *testing.B) {\n\t\tb.N = 2\n\t})")
			return g.doc(name) + "func " + name + "(b *testing.B) {\n\t" + body + "\n}"
		case 3:
			g.feat("example_func")
			name := "Example" + pick(g, "exname", "", "_suffix", "Foo_bar") + n
			return g.doc(name) + "func " + name + "() {\n\tfmt.Println(" + g.val(tInt, 1) + ")\n\t" + pick(g, "output", "// Output: 1", "// Output:", "// output: x", "// Unordered output: a\n\t// b", "", "// Output: 1\n\tfmt.Println()") + "\n}"
		case 4:
			g.feat("fuzz_func")
			name := "Fuzz" + n
			return "func " + name + "(f *testing.F) {\n\tf.Add(" + pick(g, "fuzzadd", "\"a\"", "\"a\", 1", "1", "[]byte(nil)") + ")\n\tf.Fuzz(func(t *testing.T, " + pick(g, "fuzzparams", "s string", "s string, n int", "b []byte", "n int") + ") {\n\t\t" + pick(g, "fuzzbody", "", "t.Skip()", "go t.Fatal()", "f.Add(\"x\")") + "\n\t})\n}"
		case 5:
			if g.hasTestMain {
				return "func TestAfterMain" + n + "(t *testing.T) {}"
			}
			g.hasTestMain = true
			g.feat("test_main")
			return "func TestMain(m *testing.M) {\n\t" + pick(g, "testmain", "m.Run()", "os.Exit(m.Run())", "code := m.Run()\n\t_ = code", "defer os.Exit(0)\n\tm.Run()", "flag.Parse()\n\tos.Exit(m.Run())", "") + "\n}"
		case 6:
			g.feat("test_helper")
			name := g.styled(false)
			return "func " + name + "(t testing.TB, args ...any) {\n\tt.Helper()\n\tt.Errorf(\"%v\", args...)\n\tgo func() {\n\t\tt.Fatalf(\"%d\", args)\n\t}()\n}"
		case 7:
			g.feat("test_table")
			name := "TestTable" + n
			return "func " + name + "(t *testing.T) {\n\ttests := []struct {\n\t\tname string\n\t\tin   int\n\t}{\n\t\t{\"a\", 1},\n\t\t{name: \"b\"},\n\t}\n\tfor _, tt := range tests {\n\t\ttt := tt\n\t\tt.Run(tt.name, func(t *testing.T) {\n\t\t\tt.Parallel()\n\t\t\t_ = tt.in\n\t\t})\n\t}\n}"
		default:
			g.feat("test_assertions")
			name := "TestAssert" + n
			et := g.errorType()
			return "func " + name + "(t *testing.T) {\n\tvar err error = " + g.implVal(et, 1) + "\n\tif err != nil {\n\t\tt.Fatal(err)\n\t}\n\tif !reflect.DeepEqual(err, nil) {\n\t\tt.Error(" + pick(g, "asserterr", "err.Error()", "\"x\"", "fmt.Sprintf(\"%v\", err)", "err") + ")\n\t}\n\tif got, want := strings.ToLower(\"A\"), \"a\"; got != want {\n\t\tt.Errorf(\"got %q want %q\", got, want)\n\t}\n}"
		}
	})
}

var _ = fmt.Sprint
var _ = strings.Join
