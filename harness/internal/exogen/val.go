package exogen

import (
	"fmt"
	"strings"
)

// scope is the body of the function under construction.
type scope struct {
	vars    []svar
	tparams []*Ty
	results []*Ty
	labels  int
	noZero  bool // no zero values of type parameter type are produced (see genericFunc)
}

type svar struct {
	name string
	t    *Ty
}

func (s *scope) find(g *gen, t *Ty) string {
	if s == nil {
		return ""
	}
	var c []string
	for _, v := range s.vars {
		if same(v.t, t) {
			c = append(c, v.name)
		}
	}
	if len(c) == 0 {
		return ""
	}
	return c[g.intn(0, len(c)-1, "var")]
}

// findKind returns a variable whose type satisfies pred.
func (s *scope) findBy(g *gen, pred func(*Ty) bool) (string, *Ty) {
	if s == nil {
		return "", nil
	}
	var c []svar
	for _, v := range s.vars {
		if pred(v.t) {
			c = append(c, v)
		}
	}
	if len(c) == 0 {
		return "", nil
	}
	v := c[g.intn(0, len(c)-1, "varby")]
	return v.name, v.t
}

func (s *scope) add(name string, t *Ty) { s.vars = append(s.vars, svar{name, t}) }

// conv renders a conversion T(x), with the parentheses the type needs and
// sometimes some it does not need.
func (g *gen) conv(t *Ty, x string) string {
	s := g.tn(t)
	need := t.Name == "" || t.Opaque
	if need || g.chance(15, "convparen") {
		if !need {
			g.feat("paren_conv")
		}
		return "(" + s + ")(" + x + ")"
	}
	return s + "(" + x + ")"
}

var stringLits = []string{`"a"`, `""`, `"x y"`, `"%d"`, "`raw`", `"ü"`, `"\x00"`, `"a" + "b"`, `"​"`, `"Abc."`, `"(?i)x"`, `"2006-01-02"`, `"[a-"`}
var intLits = []string{"0", "1", "2", "3", "7", "10", "0x10", "1_0", "0b11", "'a'", "1 << 3", "100"}

// simple returns a minimal expression of exactly type t.
func (g *gen) simple(t *Ty) string {
	if t.Opaque {
		if t.nillable() {
			return g.conv(t, "nil")
		}
		return "(*new(" + t.Name + "))"
	}
	u := t.u()
	plain := !t.Named && t.K != KTParam
	switch u.K {
	case KTParam:
		if g.sc != nil && g.sc.noZero {
			if v := g.sc.find(g, t); v != "" {
				return v
			}
		}
		return "(*new(" + g.tn(t) + "))"
	case KBool:
		b := pick(g, "bool", "true", "false")
		if plain {
			return b
		}
		return g.conv(t, b)
	case KInt:
		if t == tInt {
			return pick(g, "int", "0", "1", "2", "3", "7", "10", "0x10", "1_0", "100")
		}
		if t == tRune && g.flip("runelit") {
			return pick(g, "rune", "'a'", "'\\n'", "'ü'", "'\\x00'")
		}
		return g.conv(t, pick(g, "int", "0", "1", "2", "3", "7", "10", "100"))
	case KFloat:
		if t == tF64 {
			return pick(g, "float", "1.5", "0.0", "2e3", "1.", ".5")
		}
		return g.conv(t, pick(g, "float", "1.5", "0", "2", "0.25"))
	case KComplex:
		if t == tC128 {
			return pick(g, "cplx", "2i", "1 + 2i", "complex(1, 2)", "0i")
		}
		return g.conv(t, pick(g, "cplx", "2i", "1", "0"))
	case KString:
		if plain {
			return pick(g, "str", stringLits...)
		}
		return g.conv(t, pick(g, "str", stringLits...))
	case KUnsafe:
		return "unsafe.Pointer(nil)"
	case KPtr:
		if plain && g.flip("new") {
			return "new(" + g.ts(u.Elem) + ")"
		}
		return g.conv(t, "nil")
	case KSlice, KMap:
		if g.flip("lit") {
			return g.tn(t) + "{}"
		}
		return g.conv(t, "nil")
	case KArray, KStruct:
		return g.tn(t) + "{}"
	case KChan:
		if g.flip("make") {
			return "make(" + g.ts(t) + pick(g, "cap", "", ", 1", ", 0") + ")"
		}
		return g.conv(t, "nil")
	case KFunc, KIface:
		return g.conv(t, "nil")
	}
	return "(*new(" + g.tn(t) + "))"
}

// hdr makes an expression safe for the header of an if, for or switch
// statement, where a composite literal must not appear at the top level.
func hdr(e string) string {
	if strings.Contains(e, "{") {
		return "(" + e + ")"
	}
	return e
}

// val returns an expression of exactly type t.
func (g *gen) val(t *Ty, d int) string {
	if g.sc != nil && g.chance(30, "usevar") {
		if v := g.sc.find(g, t); v != "" {
			return v
		}
	}
	if d <= 0 || t.Opaque || g.chance(25, "simple") {
		return g.simple(t)
	}
	if g.chance(6, "parenexpr") {
		g.feat("paren_expr")
		return "(" + g.val(t, d-1) + ")"
	}
	if g.chance(5, "newderef") {
		return "(*new(" + g.ts(t) + "))"
	}
	if g.chance(5, "funclit_call") && t.K != KTParam {
		g.feat("funclit_called")
		return "func() " + g.tn(t) + " { return " + g.arg(t, d-1) + " }()"
	}
	if f := g.callFor(t, d); f != "" {
		return f
	}
	u := t.u()
	switch u.K {
	case KBool:
		var e string
		switch g.intn(0, 4, "boolform") {
		case 0:
			e = "!" + g.val(tBool, d-1)
		case 1:
			e = g.val(tInt, d-1) + pick(g, "cmpop", " < ", " == ", " != ", " >= ") + g.val(tInt, d-1)
		case 2:
			e = g.val(tBool, d-1) + pick(g, "logop", " && ", " || ") + g.val(tBool, d-1)
		case 3:
			x := g.anyCmp(1)
			if x.nillable() {
				e = g.val(x, d-1) + pick(g, "eq", " == ", " != ") + "nil"
			} else {
				e = g.val(x, d-1) + pick(g, "eq", " == ", " != ") + g.val(x, d-1)
			}
			e = "(" + e + ")"
		default:
			return g.simple(t)
		}
		if t != tBool {
			return g.conv(t, e)
		}
		return "(" + e + ")"
	case KInt:
		var e string
		switch g.intn(0, 5, "intform") {
		case 0:
			e = g.nonconst(t) + pick(g, "arith", " + ", " - ", " * ", " | ", " & ", " ^ ", " &^ ") + g.val(t, d-1)
		case 1:
			e = g.conv(t, "len("+g.val(pick(g, "lenof", tString, sliceOf(tInt), mapOf(tString, tInt), arrayOf(2, tByte)), d-1)+")")
			return e
		case 2:
			e = g.nonconst(t) + pick(g, "shift", " << ", " >> ") + pick(g, "shiftn", "1", "2", "uint(3)")
		case 3:
			e = pick(g, "unary", "-", "^", "+") + g.nonconst(t)
		case 4:
			o := pick(g, "convfrom", tInt, tInt64, tUint8, tF64, tRune, tUintptr)
			return g.conv(t, g.nonconst(o))
		default:
			return g.simple(t)
		}
		return "(" + e + ")"
	case KFloat, KComplex:
		if g.flip("arith") {
			return "(" + g.nonconst(t) + pick(g, "farith", " + ", " - ", " * ", " / ") + g.conv(t, "2") + ")"
		}
		if u.K == KFloat {
			return g.conv(t, g.nonconst(pick(g, "convfrom", tInt, tF32, tF64, tUint8)))
		}
		return g.simple(t)
	case KString:
		switch g.intn(0, 4, "strform") {
		case 0:
			return "(" + g.val(t, d-1) + " + " + g.val(t, d-1) + ")"
		case 1:
			return g.conv(t, g.val(pick(g, "strfrom", sliceOf(tByte), sliceOf(tRune), tRune, tByte, tString), d-1))
		case 2:
			return g.nonconst(t) + pick(g, "slice", "[1:]", "[:1]", "[:]", "[0:0]")
		case 3:
			if t == tString {
				return pick(g, "strcall", `fmt.Sprint(1)`, `strings.ToLower("A")`, `strconv.Itoa(2)`, `errors.New("e").Error()`, `strings.Repeat("a", 2)`)
			}
		}
		return g.simple(t)
	case KPtr:
		e := u.Elem
		switch {
		case e.literalable() && e.K != KTParam && g.flip("addrlit"):
			return g.conv1(t, "&"+g.lit(e, d-1))
		case g.sc != nil && g.flip("addrvar"):
			if v := g.sc.find(g, e); v != "" {
				return g.conv1(t, "&"+v)
			}
		}
		return g.simple(t)
	case KSlice, KArray, KMap, KStruct:
		if u.K == KSlice && g.chance(25, "makeslice") {
			return "make(" + g.ts(t) + ", " + pick(g, "mklen", "0", "1", "2", "0, 4") + ")"
		}
		if u.K == KSlice && g.chance(15, "append") {
			return "append(" + g.val(t, d-1) + ", " + g.arg(u.Elem, d-1) + ")"
		}
		if u.K == KSlice && g.chance(10, "reslice") {
			return g.val(t, d-1) + pick(g, "reslice", "[:]", "[1:]", "[:0]", "[0:0:0]")
		}
		if u.K == KMap && g.chance(25, "makemap") {
			return "make(" + g.ts(t) + pick(g, "mapcap", "", ", 4") + ")"
		}
		return g.lit(t, d-1)
	case KChan:
		return g.simple(t)
	case KFunc:
		return g.conv1(t, g.funcLit(u, d-1))
	case KIface:
		return g.ifaceVal(t, d-1)
	}
	return g.simple(t)
}

// nonconst returns a non-constant expression of exactly type t (constant
// arithmetic is checked for overflow, division by zero and index ranges at
// compile time; the generated operands must not be subject to that).
func (g *gen) nonconst(t *Ty) string {
	if v := g.sc.find(g, t); v != "" && g.chance(70, "ncvar") {
		return v
	}
	if g.flip("ncnew") {
		return "(*new(" + g.ts(t) + "))"
	}
	g.feat("funclit_called")
	return "func() " + g.tn(t) + " { return " + g.simple(t) + " }()"
}

// conv1 converts x to t when t is a defined type and leaves it alone otherwise
// (x already has the underlying type literal as its type).
func (g *gen) conv1(t *Ty, x string) string {
	if t.Named {
		return g.conv(t, x)
	}
	return x
}

// arg returns an expression assignable to t (it may be untyped).
func (g *gen) arg(t *Ty, d int) string {
	if t.K == KTParam {
		return g.val(t, d)
	}
	if t.nillable() && g.chance(15, "nilarg") {
		return "nil"
	}
	switch t.kind() {
	case KInt:
		if g.chance(30, "untyped") {
			return pick(g, "intlit", intLits...)
		}
	case KFloat:
		if g.chance(30, "untyped") {
			return pick(g, "floatlit", "1", "2.5", "1e3", "'a'", "0")
		}
	case KString:
		if g.chance(30, "untyped") {
			return pick(g, "strlit", stringLits...)
		}
	case KBool:
		if g.chance(30, "untyped") {
			return pick(g, "boollit", "true", "false", "1 < 2")
		}
	case KIface:
		if t.Name == "any" || len(t.u().Methods) == 0 {
			return g.val(g.anyType(1), d)
		}
	}
	return g.val(t, d)
}

// lit renders a composite literal of type t (struct, slice, array, map).
func (g *gen) lit(t *Ty, d int) string {
	u := t.u()
	name := g.tn(t)
	if d <= 0 {
		return name + "{}"
	}
	elem := func(e *Ty) string {
		// elided element types for nested composite literals
		if e.literalable() && e.Name == "" && g.flip("elide") {
			g.feat("elided_literal")
			s := g.lit(e, d-1)
			return s[len(e.String()):]
		}
		if e.kind() == KPtr && e.Name == "" && e.Elem.literalable() && e.Elem.K != KTParam && g.flip("elideptr") {
			g.feat("elided_literal")
			s := g.lit(e.Elem, d-1)
			if e.Elem.Name == "" {
				return s[len(e.Elem.String()):]
			}
			return "&" + s
		}
		return g.arg(e, d-1)
	}
	switch u.K {
	case KStruct:
		if len(u.Fields) == 0 {
			return name + "{}"
		}
		var parts []string
		if g.flip("keyed") {
			for _, f := range u.Fields {
				if f.Name != "_" && g.chance(70, "setfield") {
					fn := f.Name
					if f.Embedded {
						fn = embeddedName(f.T)
					}
					parts = append(parts, fn+": "+g.arg(f.T, d-1))
				}
			}
		} else {
			for _, f := range u.Fields {
				if f.Name == "_" {
					// blank fields cannot be set positionally in a useful way; fall back to the keyed form
					return name + "{}"
				}
				parts = append(parts, g.arg(f.T, d-1))
			}
		}
		return name + "{" + strings.Join(parts, ", ") + "}"
	case KSlice:
		n := g.intn(0, 3, "nelem")
		var parts []string
		for i := 0; i < n; i++ {
			if g.chance(10, "idxkey") {
				parts = append(parts, fmt.Sprintf("%d: %s", i+3, elem(u.Elem)))
				g.feat("indexed_literal")
				break
			}
			parts = append(parts, elem(u.Elem))
		}
		return name + "{" + strings.Join(parts, ", ") + "}"
	case KArray:
		n := g.intn(0, u.Len, "nelem")
		var parts []string
		for i := 0; i < n; i++ {
			parts = append(parts, elem(u.Elem))
		}
		return name + "{" + strings.Join(parts, ", ") + "}"
	case KMap:
		if !u.Key.comparable() {
			return name + "{}"
		}
		keys := g.distinctKeys(u.Key, g.intn(0, 2, "nkeys"))
		var parts []string
		for _, k := range keys {
			parts = append(parts, k+": "+elem(u.Elem))
		}
		return name + "{" + strings.Join(parts, ", ") + "}"
	}
	return name + "{}"
}

func embeddedName(t *Ty) string {
	s := t.String()
	s = strings.TrimPrefix(s, "*")
	if i := strings.Index(s, "["); i >= 0 {
		s = s[:i]
	}
	if i := strings.LastIndex(s, "."); i >= 0 {
		s = s[i+1:]
	}
	return s
}

// distinctKeys returns up to n constant-distinct expressions of a comparable type.
func (g *gen) distinctKeys(t *Ty, n int) []string {
	var out []string
	for i := 0; i < n; i++ {
		var k string
		switch t.kind() {
		case KInt:
			k = fmt.Sprint(i + 1)
		case KString:
			k = fmt.Sprintf("%q", string(rune('a'+i)))
		case KFloat:
			k = fmt.Sprintf("%d.5", i)
		case KBool:
			if i > 1 {
				return out
			}
			k = []string{"true", "false"}[i]
		default:
			if i > 0 {
				return out
			}
			out = append(out, g.val(t, 0))
			continue
		}
		if t.Named {
			k = g.conv(t, k)
		}
		out = append(out, k)
	}
	return out
}

// funcLit renders a function literal of the function type u.
func (g *gen) funcLit(u *Ty, d int) string {
	var ps []string
	for i, p := range u.Params {
		n := fmt.Sprintf("a%d", i)
		if g.chance(20, "blankparam") {
			n = "_"
		}
		if u.Variadic && i == len(u.Params)-1 {
			ps = append(ps, n+" ..."+g.ts(p.Elem))
		} else {
			ps = append(ps, n+" "+g.ts(p))
		}
	}
	var rs, rv []string
	for _, r := range u.Results {
		rs = append(rs, g.ts(r))
		save := g.sc
		g.sc = nil // the literal's body must not capture variables that are declared later
		rv = append(rv, g.arg(r, d))
		g.sc = save
	}
	res := ""
	switch len(rs) {
	case 0:
	case 1:
		res = " " + rs[0]
		if strings.HasPrefix(rs[0], "(") {
			res = " (" + rs[0] + ")"
		}
	default:
		res = " (" + strings.Join(rs, ", ") + ")"
	}
	body := " "
	if len(rv) > 0 {
		body = " return " + strings.Join(rv, ", ") + " "
	}
	g.feat("funclit")
	return "func(" + strings.Join(ps, ", ") + ")" + res + " {" + body + "}"
}

// ifaceVal returns an expression of the interface type t holding some value.
func (g *gen) ifaceVal(t *Ty, d int) string {
	if t == tError || t.Name == "error" {
		switch g.intn(0, 4, "errform") {
		case 0:
			return `errors.New(` + pick(g, "errmsg", stringLits...) + `)`
		case 1:
			return `fmt.Errorf("e: %w", ` + g.val(tError, d-1) + `)`
		case 2:
			et := g.errorType()
			return g.conv(tError, g.implVal(et, d-1))
		case 3:
			return pick(g, "sentinel", "io.EOF", "os.ErrNotExist", "context.Canceled")
		}
		return "error(nil)"
	}
	if len(t.u().Methods) == 0 {
		return g.conv(t, g.arg(g.anyType(1), d))
	}
	if len(t.Impls) > 0 {
		it := t.Impls[g.intn(0, len(t.Impls)-1, "impl")]
		g.dep(it.T.unit)
		return g.conv(t, g.implVal(it, d))
	}
	return g.conv(t, "nil")
}

// implVal returns a value of the implementing type (or a pointer to it when
// the methods have pointer receivers).
func (g *gen) implVal(it Impl, d int) string {
	if it.Ptr {
		return g.val(ptrTo(it.T), d)
	}
	return g.val(it.T, d)
}

// callFor returns a call of a previously declared function with the single result type t, or "".
func (g *gen) callFor(t *Ty, d int) string {
	if len(g.funcs) == 0 || !g.chance(12, "callfor") {
		return ""
	}
	var c []*fnInfo
	for _, f := range g.funcs {
		if len(f.Results) == 1 && same(f.Results[0], t) && f.unit != g.curUnit() && (!f.Test || g.inTest()) {
			c = append(c, f)
		}
	}
	if len(c) == 0 {
		return ""
	}
	f := c[g.intn(0, len(c)-1, "fn")]
	g.dep(f.unit)
	var as []string
	for _, p := range f.Params {
		as = append(as, g.arg(p, d-1))
	}
	return f.Name + "(" + strings.Join(as, ", ") + ")"
}

// ---------------------------------------------------------------- random types

// anyType draws a type.
func (g *gen) anyType(d int) *Ty {
	if d <= 0 || g.chance(35, "basic") {
		switch g.intn(0, 9, "leaf") {
		case 0, 1, 2:
			return pick(g, "basic", basicTypes...)
		case 3:
			return tAny
		case 4:
			return tError
		case 5, 6:
			if len(g.pool) > 0 {
				t := g.pool[g.intn(0, len(g.pool)-1, "pooltype")]
				if !t.open && (!t.Test || g.inTest()) {
					g.dep(t.unit)
					return t
				}
			}
			return tInt
		default:
			return pick(g, "common", tInt, tString, tBool, tF64, tByte)
		}
	}
	switch g.intn(0, 9, "ctor") {
	case 0, 1:
		return ptrTo(g.anyType(d - 1))
	case 2, 3:
		return sliceOf(g.anyType(d - 1))
	case 4:
		return arrayOf(g.intn(0, 4, "len"), g.anyType(d-1))
	case 5:
		return mapOf(g.anyCmp(d-1), g.anyType(d-1))
	case 6:
		return chanOf(g.intn(0, 2, "dir"), g.anyType(d-1))
	case 7:
		return g.funcType(d - 1)
	case 8:
		return g.structType(d-1, false)
	default:
		return g.namedType(nil)
	}
}

// anyCmp draws a comparable type.
func (g *gen) anyCmp(d int) *Ty {
	for i := 0; i < 4; i++ {
		t := g.anyType(d)
		if t.comparable() {
			return t
		}
	}
	return pick(g, "cmpbasic", tInt, tString, tBool, tF64, tAny, tError, ptrTo(tInt))
}

func (g *gen) funcType(d int) *Ty {
	np, nr := g.intn(0, 2, "nparams"), g.intn(0, 2, "nresults")
	f := &Ty{K: KFunc, unit: -1}
	for i := 0; i < np; i++ {
		f.Params = append(f.Params, g.anyType(d))
	}
	for i := 0; i < nr; i++ {
		f.Results = append(f.Results, g.anyType(d))
	}
	if np > 0 && g.chance(20, "variadic") {
		f.Variadic = true
		f.Params[np-1] = sliceOf(f.Params[np-1])
	}
	return f
}

// tags that make the XML encoder look through the field's pointers
var xmlIndirectTags = []string{`xml:",comment"`, `xml:",innerxml"`, `xml:",cdata"`, `xml:",any"`, `xml:"a,attr,omitempty"`, `xml:",comment,omitempty"`}

var fieldTags = []string{"", "", "", `json:"a"`, `json:"a,omitempty"`, `json:",string"`, `json:"-"`, `xml:"a,attr"`, `json:"a" xml:"b"`, `json:"a,omitempty,omitempty"`, `xml:",any"`, `json:"a" json:"b"`, `yaml:"x"`, `json:"a,string,omitempty"`, `xml:"ns name"`, `choice:"a" choice:"b"`, `xml:"a>b,attr"`, `xml:",chardata,attr"`}

func (g *gen) structType(d int, exported bool) *Ty {
	s := &Ty{K: KStruct, unit: -1}
	n := g.intn(0, 4, "nfields")
	for i := 0; i < n; i++ {
		name := fmt.Sprintf("f%d", i)
		if exported || g.chance(30, "expfield") {
			name = fmt.Sprintf("F%d", i)
		}
		if g.chance(5, "blankfield") {
			name = "_"
		}
		tag := pick(g, "tag", fieldTags...)
		// recorded finding: the XML encoder model follows self-referential pointer types without end for
		// comment and innerxml fields; excluded by not drawing those tags
		ft := g.anyType(d)
		if (g.chance(10, "xmlindirect") || ft.Rec && g.chance(50, "xmlindirectrec")) && g.include("no-termination") {
			tag = pick(g, "xmltag", xmlIndirectTags...)
			g.feat("xml_indirect_tag")
		}
		if strings.Contains(tag, "xml") && ft.mentionsRec(0) && !g.include("no-termination") {
			tag = "" // recorded finding: the XML encoder model does not terminate on self-referential types
		}
		s.Fields = append(s.Fields, Field{Name: name, T: ft, Tag: tag})
	}
	return s
}
