package exogen

import (
	"strings"
)

// typeUse is the second half of family a: a declared (or drawn) type used in
// every position a type can occupy, and its values in one-argument calls and
// conversions, assertions, literals, comparisons.
func (g *gen) typeUse() {
	g.unit("typeuse", g.inTest(), func() string {
		var t *Ty
		switch {
		case g.chance(35, "userecursive"):
			// self-referential types are what cycle guards are for: they get extra uses
			t = g.namedType(func(t *Ty) bool { return (t.Rec || t.EmbPtr) && !t.Generic }, 0, 2, 3, 10)
		case g.chance(75, "usenamed"):
			t = g.namedType(nil)
		default:
			t = g.anyType(2)
		}
		save := g.sc
		g.sc = &scope{}
		defer func() { g.sc = save }()
		fn := g.styled(g.flip("expfn"))
		use := g.fresh("use")
		ts := func() string { return g.ts(t) }
		g.sc.add("p", t)
		var lines []string
		add := func(s string) { lines = append(lines, s) }
		n := g.intn(2, 8, "nuses")
		for i := 0; i < n; i++ {
			form := g.intn(0, 23, "useform")
			if (t.kind() == KStruct || t.Rec) && g.chance(25, "reflectfirst") {
				form = 22
			}
			switch form {
			case 0:
				add("_ = " + fn + "(" + g.arg(t, 2) + ")")
				g.feat("use_one_arg_call")
			case 1:
				add("_ = " + g.conv(t, g.val(t, 1)))
				g.feat("use_identity_conversion")
			case 2:
				if t.nillable() {
					add("_ = " + g.conv(t, "nil"))
					add("_ = " + g.val(t, 1) + pick(g, "nilop", " == nil", " != nil"))
					g.feat("use_nil_conversion")
				}
			case 3:
				add("_ = new(" + ts() + ")")
				add("_ = (*" + g.tn(t) + ")(nil)")
			case 4:
				add("_ = []" + g.tn(t) + "{" + g.arg(t, 1) + "}")
				add("_ = map[string]" + g.tn(t) + "{\"k\": " + g.arg(t, 1) + "}")
				g.feat("use_in_composite")
			case 5:
				add("_ = make(chan " + ts() + ")")
				add("_ = make([]" + ts() + ", 1)")
			case 6:
				x := g.fresh("f")
				add("var " + x + " func(" + ts() + ") " + ts() + " = " + fn)
				add("_ = " + x)
				g.feat("use_func_value")
			case 7:
				add("_ = struct{ f " + ts() + " }{}")
				add("_ = [2]" + g.tn(t) + "{}")
			case 8:
				add("_, _ = any(p).(" + ts() + ")")
				g.feat("use_type_assert")
			case 9:
				add("switch any(p).(type) {\n\tcase " + ts() + ":\n\tcase *" + ts() + ", []" + ts() + ":\n\t}")
				g.feat("use_type_switch_case")
			case 10:
				g.needExoHelpers()
				add("_ = exoID[" + ts() + "](p)")
				add("_ = exoBox[" + ts() + "]{p}.Get()")
				g.feat("use_as_type_argument")
			case 11:
				if len(t.Methods) > 0 && t.Named && t.u().K != KIface && !t.Generic {
					m := t.Methods[g.intn(0, len(t.Methods)-1, "meth")]
					if m.Ptr {
						add("_ = (&p)." + m.Name)
						add("_ = (*" + g.tn(t) + ")." + m.Name)
					} else {
						add("_ = p." + m.Name)
						add("_ = " + g.tn(t) + "." + m.Name)
						add("_ = (*" + g.tn(t) + ")." + m.Name)
					}
					g.feat("use_method_value_expr")
				}
			case 12:
				if t.comparable() {
					add("_ = p == " + g.val(t, 1))
					add("_ = map[" + ts() + "]bool{}")
					g.feat("use_comparison")
				}
			case 13:
				switch t.kind() {
				case KSlice, KArray, KMap, KString:
					add("for range p {\n\t\tbreak\n\t}")
					g.feat("use_range")
				case KFunc:
					add("_ = p == nil")
				case KPtr:
					if t.u().Elem != nil {
						add("if p != nil {\n\t\t_ = *p\n\t}")
						g.feat("use_deref")
					}
				case KStruct:
					for _, f := range t.u().Fields {
						if f.Name != "_" && !f.Embedded {
							add("_ = p." + f.Name)
							add("_ = (&p)." + f.Name)
							break
						}
					}
				}
			case 14:
				x := g.fresh("x")
				add("var " + x + " " + ts() + " = " + g.arg(t, 2))
				add("_ = " + x)
			case 15:
				x := g.fresh("x")
				add(x + " := " + g.val(t, 2))
				add("p = " + x)
			case 16:
				add("_ = func(" + ts() + ") {}")
				add("_ = func() (_ " + ts() + ") { return }")
				add("func(q ..." + ts() + ") { _ = q }(p, p)")
				g.feat("use_in_func_literal")
			case 17:
				add("type local " + ts())
				add("type localAlias = " + ts())
				add("var _ local\n\tvar _ localAlias = p")
				g.feat("use_local_type_decl")
				// only once per function
				n = i
			case 18:
				add("_ = interface{ M(" + ts() + ") " + ts() + " }(nil)")
				add("var _ interface{ M() } = nil")
			case 22, 23:
				// values of the type handed to the functions that walk types by reflection
				g.feat("use_reflection_api")
				xmlOK := (!t.SelfEmb || g.include("fakexml-embedded-pointer-cycle")) && (!t.EmbPtr || g.include("fakereflect-fieldbyindex-embedded-pointer"))
				forms := []string{"_, _ = json.Marshal(p)", "_ = json.Unmarshal(nil, &p)", "_, _ = json.Marshal(&p)", "_ = binary.Write(io.Discard, binary.LittleEndian, p)", "_ = binary.Size(p)",
					"_ = fmt.Sprintf(\"%v %d %s %x\", p, p, p, p)", "new(sync.Pool).Put(p)", "sort.Slice(p, func(i, j int) bool { return false })", "_ = errors.As(nil, &p)", "_ = reflect.DeepEqual(p, p)",
					"_ = context.WithValue(context.Background(), p, p)", "new(atomic.Value).Store(p)", "_ = json.NewEncoder(io.Discard).Encode([]any{p, &p})", "_ = binary.Read(nil, binary.BigEndian, &p)"}
				if xmlOK {
					forms = append(forms, "_, _ = xml.Marshal(p)", "_, _ = xml.Marshal(&p)", "_ = xml.Unmarshal(nil, &p)", "_ = xml.NewEncoder(io.Discard).Encode(p)", "_, _ = xml.MarshalIndent([]any{p}, \"\", \" \")", "_, _ = xml.Marshal(struct{ V any }{p})")
				}
				add(pick(g, "reflapi", forms...))
				add(pick(g, "reflapi", forms...))
			case 19:
				add("_ = unsafe.Sizeof(p)")
				add("_ = reflect.TypeOf(p)")
				add("_ = fmt.Sprint(p)")
			case 20:
				add("defer " + fn + "(p)")
				add("go " + fn + "(" + g.arg(t, 1) + ")")
				g.feat("use_defer_go")
			default:
				add("_ = [...]" + g.tn(t) + "{p, p}")
				add("_ = &[]*" + g.tn(t) + "{&p, nil}")
			}
		}
		var sb strings.Builder
		sb.WriteString(g.doc(fn) + "func " + fn + "(p " + ts() + ") " + g.tn(t) + " { return p }\n\n")
		sb.WriteString("func " + use + "(p " + ts() + ") {\n\t" + strings.Join(lines, "\n\t") + "\n}")
		g.funcs = append(g.funcs, &fnInfo{Test: g.inTest(), Name: fn, Params: []*Ty{t}, Results: []*Ty{t}, unit: g.curUnit()})
		return sb.String()
	})
}
