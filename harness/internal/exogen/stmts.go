package exogen

import (
	"fmt"
	"regexp"
	"strings"
)

// ---------------------------------------------------------------- family c: chains over one complex expression

// cexpr is a complex expression of a comparable type together with the
// parameters the enclosing function needs for it.
type cexpr struct {
	E      string
	T      *Ty
	Params []string
	Form   string
	Alt    *cexpr // a near-variant of E (one leaf changed) that some branches use instead
}

// lit is a type that is only known by its source text.
func litType(src string) *Ty {
	t := &Ty{K: KStruct, Name: src, unit: -1, Opaque: true}
	switch {
	case strings.HasPrefix(src, "*"):
		t.K = KPtr
	case strings.HasPrefix(src, "chan"), strings.HasPrefix(src, "<-chan"):
		t.K = KChan
	case strings.HasPrefix(src, "["):
		t.K = KArray
	case strings.HasPrefix(src, "interface"):
		t.K = KIface
	case src == "int":
		return tInt
	case src == "string":
		return tString
	case src == "bool":
		return tBool
	}
	return t
}

// typeVariants are pairs of comparable type literals that differ in one leaf.
var typeVariants = [][2]string{
	{"struct{ a int }", "struct{ a int `t:\"x\"` }"},
	{"struct{ a int `t:\"x\"` }", "struct{ a int }"},
	{"chan int", "chan string"},
	{"[2]int", "[3]int"},
	{"*[]int", "*[]string"},
	{"interface{ M() }", "interface{ N() }"},
	{"interface{ M(int) }", "interface{ M(string) }"},
	{"*func(int)", "*func(string)"},
	{"*func(int)", "*func(int) int"},
	{"struct{ a int }", "struct{ a, b int }"},
	{"*map[string]int", "*map[string]bool"},
	{"*struct{ A int `json:\"a\"` }", "*struct{ A int `json:\"b\"` }"},
	{"[1]struct{ a int }", "[1]struct{ a int `k:\"v\"` }"},
	{"*[2]chan<- int", "*[2]<-chan int"},
	{"struct{ int }", "struct{ string }"},
	{"struct{ int }", "struct{ int `t:\"e\"` }"},
	{"*[]struct{ a int }", "*[]struct{ a int `t:\"x\"` }"},
	{"*int", "*string"},
	{"[2]int", "[2]int"},
	{"interface{ M() }", "interface{ M() }"},
	{"*func(...int)", "*func([]int)"},
	{"*struct{}", "*interface{}"},
	{"<-chan int", "chan int"},
	{"*[...]int", "*[1]int"},
}

// exprVariants are pairs of call-free expressions over the parameters of
// exprVariantParams that differ in one leaf; both have the type in the third column.
const exprVariantParams = "s []int, ss [][]int, m map[string]int, o struct{ a, b int; p *struct{ a, b int } }, p, q *int, i, j int, arr [4]int, g2 struct{ f exoBox[int] }"

var exprVariants = [][3]string{
	{"s[i]", "s[j]", "int"}, {"s[i]", "s[i+1]", "int"}, {"m[\"k\"]", "m[\"j\"]", "int"}, {"o.a", "o.b", "int"}, {"o.p.a", "o.p.b", "int"}, {"*p", "*q", "int"},
	{"-i", "+i", "int"}, {"-i", "^i", "int"}, {"i + j", "i - j", "int"}, {"i + j", "j + i", "int"}, {"(i)", "i", "int"}, {"(i + j)", "((i + j))", "int"},
	{"s[1:][0]", "s[:1][0]", "int"}, {"s[1:2][0]", "s[1:2:3][0]", "int"}, {"s[1:][0]", "s[i:][0]", "int"}, {"ss[i][j]", "ss[j][i]", "int"}, {"arr[1]", "arr[2]", "int"},
	{"[2]int{1, 2}[i]", "[2]int{1, 3}[i]", "int"}, {"[2]int{1, 2}[i]", "[...]int{1, 2}[i]", "int"}, {"[]int{1: 2}[i]", "[]int{2: 2}[i]", "int"}, {"struct{ a int }{1}.a", "struct{ a int }{a: 1}.a", "int"},
	{"map[string]int{\"a\": 1}[\"a\"]", "map[string]int{\"a\": 2}[\"a\"]", "int"}, {"(*o.p).a", "o.p.a", "int"}, {"*&i", "*&j", "int"}, {"p", "q", "*int"}, {"&o.a", "&o.b", "*int"},
	{"g2.f.v", "(g2.f).v", "int"}, {"exoBox[int]{1}.v", "exoBox[int]{2}.v", "int"}, {"exoBox[int]{1}.v", "exoBox[int]{v: 1}.v", "int"}, {"s[len(s)-1]", "s[cap(s)-1]", "int"}, {"i << 1", "i >> 1", "int"}, {"i &^ j", "i & j", "int"},
	{"(o.p == nil)", "(o.p != nil)", "bool"}, {"(i == j)", "(i != j)", "bool"}, {"!(i == j)", "(i == j)", "bool"},
}

var ifaceLits = []string{"interface{ M() }", "interface{ M(int) string }", "interface{ Error() string }", "interface{ M(); N() error }", "interface{ comparableM(func(int) bool) }", "interface{}", "interface{ M(...int) }", "interface{ M() (a, b int) }"}

// complexExpr draws the expression that a chain compares again and again.
func (g *gen) complexExpr() cexpr {
	// type assertions with type literals and near-variants get half of the draws: they put
	// the largest variety of type nodes into the compared expression
	form := g.intn(0, 19, "cexpr")
	if g.chance(40, "assertheavy") {
		form = pick(g, "assertform", 0, 0, 1, 16, 17, 18)
	}
	switch form {
	case 16, 17: // near-variant type assertions
		v := typeVariants[g.intn(0, len(typeVariants)-1, "typevariant")]
		// recorded finding: astutil.Equal dereferences the missing tag when only one of two fields has
		// one; excluded by not pairing a tagged with an untagged field
		for i := 0; strings.Contains(v[0], "`") != strings.Contains(v[1], "`") && !g.include("astutil-equal-field-tag"); i++ {
			v = typeVariants[(i*7+3)%len(typeVariants)]
		}
		wrap := pick(g, "variantwrap", "v.(%s)", "v.(%s)", "(v.(%s))", "v.([]%s)[0]", "*v.(*%s)", "v.(map[string]%s)[\"k\"]", "v.([1]%s)[0]")
		if strings.Contains(v[0], "...") {
			wrap = "*(v.(*%s))"
			v = [2]string{"[1]int", "[2]int"}
		}
		t1, t2 := litType(v[0]), litType(v[1])
		return cexpr{E: fmt.Sprintf(wrap, v[0]), T: t1, Params: []string{"v any"}, Form: "assert_type_variants",
			Alt: &cexpr{E: fmt.Sprintf(wrap, v[1]), T: t2}}
	case 18, 19: // near-variant call-free expressions
		g.needExoHelpers()
		v := exprVariants[g.intn(0, len(exprVariants)-1, "exprvariant")]
		t := litType(v[2])
		if g.flip("swap") {
			v[0], v[1] = v[1], v[0]
		}
		return cexpr{E: v[0], T: t, Params: []string{exprVariantParams}, Form: "expr_variants", Alt: &cexpr{E: v[1], T: t}}
	case 0: // type assertion to an interface literal
		it := pick(g, "ifacelit", ifaceLits...)
		t := &Ty{K: KIface, Name: it, unit: -1}
		return cexpr{E: "v.(" + it + ")", T: t, Params: []string{"v any"}, Form: "assert_iface_literal"}
	case 1: // type assertion to another type literal
		t := pick(g, "asserted", ptrTo(tInt), tInt, tString, arrayOf(2, tInt), chanOf(0, tInt), &Ty{K: KStruct, unit: -1, Fields: []Field{{Name: "a", T: tInt}}}, ptrTo(&Ty{K: KStruct, unit: -1}), tError,
			chanOf(1, funcOf(nil, nil)), ptrTo(funcOf([]*Ty{tInt}, []*Ty{tBool})), ptrTo(mapOf(tString, sliceOf(tInt))), arrayOf(1, chanOf(2, tInt)))
		return cexpr{E: "v.(" + g.ts(t) + ")", T: t, Params: []string{"v any"}, Form: "assert_type_literal"}
	case 2: // type assertion to a declared type
		t := g.namedType(func(t *Ty) bool { return t.comparable() && t.K != KTParam }, 9)
		if !t.comparable() {
			t = tInt
		}
		return cexpr{E: "v.(" + g.ts(t) + ")", T: t, Params: []string{"v any"}, Form: "assert_named"}
	case 3: // index
		et := g.anyCmp(1)
		switch g.intn(0, 3, "indexform") {
		case 0:
			return cexpr{E: pick(g, "idx", "s[i]", "s[i+1]", "s[len(s)-1]", "s[0]", "(s)[i]", "s[(i)]"), T: et, Params: []string{"s []" + g.ts(et), "i int"}, Form: "index_slice"}
		case 1:
			return cexpr{E: pick(g, "midx", `m["k"]`, "m[k]", `m[k+"x"]`), T: et, Params: []string{"m map[string]" + g.ts(et), "k string"}, Form: "index_map"}
		case 2:
			return cexpr{E: "m[k][i]", T: et, Params: []string{"m map[string][]" + g.ts(et), "k string", "i int"}, Form: "index_nested"}
		default:
			return cexpr{E: "p[1]", T: et, Params: []string{"p *[2]" + g.ts(et)}, Form: "index_array_ptr"}
		}
	case 4: // call
		rt := g.anyCmp(1)
		switch g.intn(0, 4, "callform") {
		case 0:
			return cexpr{E: "f(x)", T: rt, Params: []string{"f func(int) " + g.ts(rt), "x int"}, Form: "call_func_value"}
		case 1:
			return cexpr{E: "f(x)(x)", T: rt, Params: []string{"f func(int) func(int) " + g.ts(rt), "x int"}, Form: "call_curried"}
		case 2:
			return cexpr{E: "func() " + g.tn(rt) + " { return " + g.simple(rt) + " }()", T: rt, Form: "call_funclit"}
		case 3:
			return cexpr{E: "f(xs...)", T: rt, Params: []string{"f func(...int) " + g.ts(rt), "xs []int"}, Form: "call_ellipsis"}
		default:
			return cexpr{E: "o.M(x)", T: rt, Params: []string{"o interface{ M(int) " + g.ts(rt) + " }", "x int"}, Form: "call_method"}
		}
	case 5: // std call
		c := pick(g, "stdcall", [2]string{"len(s)", "int"}, [2]string{"strings.ToLower(s)", "string"}, [2]string{"strings.Index(s, \"x\")", "int"}, [2]string{"s[1:]", "string"}, [2]string{"len(s[1:2])", "int"},
			[2]string{"string([]byte(s)[1:])", "string"}, [2]string{"len(map[string]func(int) bool{})", "int"}, [2]string{"cap(make(chan func(), 1))", "int"}, [2]string{"len([...]int{1, 2})", "int"}, [2]string{"len([]struct{ a int }{{1}, {a: 2}})", "int"},
			[2]string{"utf8.RuneCountInString(s)", "int"}, [2]string{"s + \"x\"", "string"}, [2]string{"fmt.Sprint(s)", "string"}, [2]string{"len(v.(map[string]func(int) bool))", "int"}, [2]string{"len(v.([]interface{ M() }))", "int"})
		t := tInt
		if c[1] == "string" {
			t = tString
		}
		return cexpr{E: c[0], T: t, Params: []string{"s string", "v any"}, Form: "std_call"}
	case 6: // selector chain
		t := g.anyCmp(1)
		ts := g.ts(t)
		return cexpr{E: pick(g, "selchain", "o.a.b.c", "(o.a).b.c", "o.a.b.c", "(*o.p).c", "o.p.c"), T: t, Params: []string{"o struct{ a struct{ b struct{ c " + ts + " } }; p *struct{ c " + ts + " } }"}, Form: "selector_chain"}
	case 7: // unary / binary / star / paren / receive
		switch g.intn(0, 5, "opform") {
		case 0:
			return cexpr{E: "*p", T: tInt, Params: []string{"p *int"}, Form: "star"}
		case 1:
			return cexpr{E: pick(g, "unop", "-x", "^x", "+x", "(-x)", "-(x)"), T: tInt, Params: []string{"x int"}, Form: "unary"}
		case 2:
			return cexpr{E: pick(g, "binop", "x + y", "x*y + 1", "x << 2", "(x + y) % 3", "x &^ y"), T: tInt, Params: []string{"x, y int"}, Form: "binary"}
		case 3:
			return cexpr{E: "<-ch", T: tInt, Params: []string{"ch chan int"}, Form: "receive"}
		case 4:
			return cexpr{E: "&o.f", T: ptrTo(tInt), Params: []string{"o *struct{ f int }"}, Form: "address"}
		default:
			return cexpr{E: "**pp", T: tInt, Params: []string{"pp **int"}, Form: "star"}
		}
	case 8: // conversion with a type literal
		c := pick(g, "convlit", [2]string{"interface{ M() }(w)", "interface{ M() }"}, [2]string{"(interface{ M() })(w)", "interface{ M() }"}, [2]string{"(*int)(up)", "*int"}, [2]string{"(chan<- int)(ch)", "chan<- int"},
			[2]string{"[2]int(sl)", "[2]int"}, [2]string{"(*[2]int)(sl)", "*[2]int"}, [2]string{"struct{ a int }(st)", "struct{ a int }"}, [2]string{"any(w)", "any"})
		t := &Ty{K: KIface, Name: c[1], unit: -1}
		switch c[1] {
		case "*int", "*[2]int":
			t.K = KPtr
		case "chan<- int":
			t.K = KChan
		case "[2]int":
			t.K = KArray
		case "struct{ a int }":
			t.K = KStruct
		}
		return cexpr{E: c[0], T: t, Params: []string{"w interface{ M(); N() }", "up unsafe.Pointer", "ch chan int", "sl []int", "st struct{ a int }"}, Form: "conversion_type_literal"}
	case 9: // composite literal
		c := pick(g, "complit", [2]string{"(struct{ a int }{1})", "struct{ a int }"}, [2]string{"([2]int{1, 2})", "[2]int"}, [2]string{"([...]string{\"a\"})", "[1]string"}, [2]string{"((struct{ f func() }{}).f == nil)", "bool"},
			[2]string{"(struct{ a, b int }{a: 1})", "struct{ a, b int }"}, [2]string{"([1]struct{ a int }{{a: 1}})", "[1]struct{ a int }"}, [2]string{"(&struct{ a int }{1}).a", "int"}, [2]string{"map[string]int{\"a\": 1}[\"a\"]", "int"}, [2]string{"[]func() int{nil}[0]()", "int"})
		t := &Ty{K: KStruct, Name: c[1], unit: -1}
		switch {
		case c[1] == "int":
			t = tInt
		case c[1] == "bool":
			t = tBool
		case strings.HasPrefix(c[1], "["):
			t.K = KArray
		}
		return cexpr{E: c[0], T: t, Form: "composite_literal"}
	case 10: // generic instantiation
		id := g.unit("chain", g.inTest(), func() string {
			return "func gid" + fmt.Sprint(g.n+1) + "[K comparable, V any](k K, v V) K { return k }"
		})
		g.dep(id)
		g.n++
		name := "gid" + fmt.Sprint(g.n)
		insts := []string{name + "(x, \"a\")", name + "[int](x, 1.5)"}
		// recorded finding: astutil.CopyExpr writes into the index list of the expression it copies
		// (fresh identifiers without type information; nil when an index is a function type); excluded
		// by not instantiating with an explicit list of several type arguments
		if g.include("copyexpr-indexlist-nil-index") {
			insts = append(insts, name+"[int, string](x, \"a\")", name+"[int, []int](x, nil)", name+"[int, func()](x, nil)", name+"[int, func()](x, nil)", name+"[int, interface{ M() }](x, nil)")
		}
		return cexpr{E: pick(g, "ginst", insts...), T: tInt, Params: []string{"x int"}, Form: "generic_call"}
	case 11: // method value / expression call
		t := g.namedType(func(t *Ty) bool {
			return len(t.Methods) > 0 && t.Under != nil && t.Under.K != KIface && !t.Generic && firstCmpMethod(t) != nil
		}, 5, 9)
		m := firstCmpMethod(t)
		if m == nil {
			return cexpr{E: "x", T: tInt, Params: []string{"x int"}, Form: "ident"}
		}
		var as []string
		for _, p := range m.Params {
			as = append(as, g.arg(p, 1))
		}
		recv := "o"
		pt := g.ts(t)
		if m.Ptr {
			pt = "*" + pt
		}
		e := "o." + m.Name + "(" + strings.Join(as, ", ") + ")"
		if g.flip("methexpr") {
			ex := g.tn(t)
			if m.Ptr {
				ex = "(*" + ex + ")"
			}
			e = ex + "." + m.Name + "(" + strings.Join(append([]string{recv}, as...), ", ") + ")"
		}
		return cexpr{E: e, T: m.Results[0], Params: []string{"o " + pt}, Form: "method_call"}
	case 12: // value of a declared type
		t := g.namedType(func(t *Ty) bool { return t.comparable() && t.K != KTParam }, 9)
		if !t.comparable() {
			t = tInt
		}
		return cexpr{E: pick(g, "namedval", "o", "(o)", "*&o"), T: t, Params: []string{"o " + g.ts(t)}, Form: "named_value"}
	case 13: // slice of slices / key-value composite inside a call
		return cexpr{E: pick(g, "kv", "len([]int{2: 1, 5: 2})", "len(map[[2]int]string{{1, 2}: \"a\"})", "len(struct{ s []int }{s: []int{1}}.s)", "cap([]chan<- int(nil))", "len(append([]int(nil), xs...))"), T: tInt, Params: []string{"xs []int"}, Form: "keyvalue_in_call"}
	case 14: // function-typed values compared with nil only
		return cexpr{E: pick(g, "fnil", "f", "(f)", "o.f", "fs[0]"), T: funcOf(nil, nil), Params: []string{"f func()", "o struct{ f func() }", "fs []func()"}, Form: "func_value"}
	default: // package-level identifiers of std
		c := pick(g, "stdval", [2]string{"os.Args[0]", "string"}, [2]string{"time.Now().Weekday()", "time.Weekday"}, [2]string{"time.RFC3339", "string"}, [2]string{"io.EOF", "error"}, [2]string{"os.Stdout", "*os.File"}, [2]string{"reflect.TypeOf(x).Kind()", "reflect.Kind"})
		t := &Ty{K: KInt, Name: c[1], unit: -1}
		switch c[1] {
		case "string":
			t = tString
		case "error":
			t = tError
		case "*os.File":
			t = &Ty{K: KPtr, Name: "*os.File", unit: -1}
		}
		return cexpr{E: c[0], T: t, Params: []string{"x any"}, Form: "std_value"}
	}
}

func firstCmpMethod(t *Ty) *Meth {
	for i := range t.Methods {
		m := &t.Methods[i]
		if len(m.Results) == 1 && m.Results[0].comparable() && m.Results[0].K != KTParam {
			return m
		}
	}
	return nil
}

var funcTypeRe = regexp.MustCompile(`interface\s*\{\s*[A-Za-z]|func\(`)

// hasFuncType reports whether the expression (or its variant) contains a function type node.
func hasFuncType(ce cexpr) bool {
	if funcTypeRe.MatchString(ce.E) {
		return true
	}
	for _, p := range ce.Params {
		_ = p
	}
	return ce.Alt != nil && funcTypeRe.MatchString(ce.Alt.E)
}

// cmpValues returns n operands to compare an expression of type t with,
// and the parameters they need. Constants are pairwise distinct.
func (g *gen) cmpValues(t *Ty, n int, prefix string) (vals []string, params []string) {
	switch {
	case t.unit == -1 && t.Name != "" && t.K == KInt && t != tInt && !isBasicName(t.Name): // std named integer types
		for i := 0; i < n; i++ {
			vals = append(vals, fmt.Sprintf("%s(%d)", t.Name, i))
		}
		return
	case t.K == KInt || t.K == KString || t.K == KFloat:
		vals = g.distinctKeys(t, n)
		if len(vals) == n {
			if t.kind() == KString && g.chance(20, "emptystr") {
				vals[0] = `""`
			}
			return
		}
		vals = nil
	case t.kind() == KFunc:
		for i := 0; i < n; i++ {
			vals = append(vals, "nil")
		}
		return
	}
	ts := t.String()
	for i := 0; i < n; i++ {
		if t.nillable() && g.chance(25, "nilval") {
			vals = append(vals, "nil")
			continue
		}
		p := fmt.Sprintf("%s%d", prefix, i)
		params = append(params, p+" "+ts)
		vals = append(vals, p)
	}
	g.depsOf(t, 0)
	return
}

func isBasicName(s string) bool {
	for _, b := range basicTypes {
		if b.Name == s {
			return true
		}
	}
	return false
}

var branchBodies = []string{"", "n++", "return n", "n--", "println(n)", "n += 2", "_ = n", "panic(\"x\")", "n = 0", "// nothing", "fmt.Println(n)", "return 0"}

// chainFunc is family c: a function that compares one complex expression
// against several values in an if/else-if chain, a switch, or a sequence.
func (g *gen) chainFunc() {
	g.unit("chain", g.inTest(), func() string {
		ce := g.complexExpr()
		// recorded finding: astutil.Equal has no case for function types; excluded by comparing
		// only expressions without a function type node (method of an interface literal, func type)
		for i := 0; i < 20 && hasFuncType(ce) && !g.include("astutil-equal-func-type"); i++ {
			ce = g.complexExpr()
			if i == 19 {
				ce = cexpr{E: "x", T: tInt, Params: []string{"x int"}, Form: "ident"}
			}
		}
		g.feat("chain_" + ce.Form)
		n := g.intn(2, 4, "nvals")
		vals, vparams := g.cmpValues(ce.T, n, "c")
		var altVals []string
		if ce.Alt != nil {
			var ap []string
			altVals, ap = g.cmpValues(ce.Alt.T, n, "d")
			vparams = append(vparams, ap...)
			g.feat("chain_near_variant")
		}
		constVals := len(vparams) == 0 && ce.T.kind() != KFunc
		eq := func(i int) string {
			v := vals[i]
			E := ce.E
			if ce.Alt != nil && g.chance(30, "usealt") {
				v, E = altVals[i], ce.Alt.E
			}
			if strings.Contains(E, "{") && !strings.HasPrefix(E, "(") {
				E = "(" + E + ")" // composite literals must not appear bare in statement headers
			}
			op := " == "
			if g.chance(12, "neq") {
				op = " != "
			}
			if g.chance(12, "yoda") && v != "nil" {
				g.feat("yoda")
				return v + op + E
			}
			e := E + op + v
			if g.chance(10, "parencmp") {
				e = "(" + e + ")"
			}
			return e
		}
		body := func() string { return pick(g, "branch", branchBodies...) }
		var sb strings.Builder
		switch g.intn(0, 11, "chainform") {
		case 0, 1, 2: // if / else if
			g.feat("chain_if_else_if")
			for i := 0; i < n; i++ {
				if i > 0 {
					sb.WriteString(" else ")
				}
				c := eq(i)
				if g.chance(20, "orcond") && i+1 < n {
					c += " || " + eq(i+1)
					g.feat("chain_or")
				}
				if i == 0 && g.chance(15, "ifinit") {
					c = "n++; " + c
					g.feat("chain_if_init")
				}
				sb.WriteString("if " + c + " {\n\t\t" + body() + "\n\t}")
			}
			if g.chance(40, "else") {
				sb.WriteString(" else {\n\t\t" + body() + "\n\t}")
			}
		case 3, 4: // untagged switch
			g.feat("chain_untagged_switch")
			sb.WriteString("switch {\n")
			for i := 0; i < n; i++ {
				c := eq(i)
				if g.chance(20, "orcase") && i+1 < n {
					c += pick(g, "casejoin", ", ", " || ") + eq(i+1)
				}
				sb.WriteString("\tcase " + c + ":\n\t\t" + body() + "\n")
				if g.chance(10, "fallthrough") && i+1 < n {
					sb.WriteString("\t\tfallthrough\n")
					g.feat("fallthrough")
				}
			}
			if g.chance(40, "default") {
				sb.WriteString("\tdefault:\n\t\t" + body() + "\n")
			}
			sb.WriteString("\t}")
		case 5: // tagged switch
			g.feat("chain_tagged_switch")
			tag := hdr(ce.E)
			if g.chance(25, "taginit") {
				tag = "x := " + hdr(ce.E) + "; x"
				g.feat("switch_init")
			}
			sb.WriteString("switch " + tag + " {\n")
			seen := map[string]bool{}
			for i := 0; i < n; i++ {
				if seen[vals[i]] && (constVals || vals[i] == "nil") {
					continue
				}
				seen[vals[i]] = true
				sb.WriteString("\tcase " + vals[i] + ":\n\t\t" + body() + "\n")
			}
			if g.chance(40, "default") {
				sb.WriteString("\tdefault:\n\t\t" + body() + "\n")
			}
			sb.WriteString("\t}")
		case 6: // sequence of ifs
			g.feat("chain_if_sequence")
			for i := 0; i < n; i++ {
				sb.WriteString("if " + eq(i) + " {\n\t\t" + pick(g, "seqbody", "return n", "return 0", "n++", "panic(\"x\")") + "\n\t}\n\t")
			}
		case 7: // the same expression on both sides
			g.feat("chain_identical_operands")
			op := pick(g, "sameop", " == ", " != ")
			if ce.T.kind() == KFunc {
				sb.WriteString("if " + hdr(ce.E+op+"nil && "+ce.E+op+"nil") + " {\n\t\tn++\n\t}")
			} else {
				sb.WriteString("if (" + ce.E + ")" + op + "(" + ce.E + ")" + pick(g, "samejoin", " {", " || "+eq(0)+" {", " && "+eq(0)+" && "+eq(0)+" {") + "\n\t\tn++\n\t}")
			}
		case 8: // negated / De Morgan material
			g.feat("chain_negated")
			sb.WriteString("if !(" + eq(0) + pick(g, "demorgan", " || ", " && ") + "!(" + eq(1) + ")) {\n\t\tn++\n\t}")
		case 10, 11: // the expression as a map key in the prefix-trimming idiom (three occurrences compared syntactically)
			g.feat("chain_trim_prefix_idiom")
			key := func() string {
				if ce.Alt != nil && g.chance(30, "usealt") {
					return ce.Alt.E
				}
				return ce.E
			}
			fn := pick(g, "prefixfn", [2]string{"HasPrefix", "TrimPrefix"}, [2]string{"HasSuffix", "TrimSuffix"}, [2]string{"HasPrefix", "TrimPrefix"}, [2]string{"Contains", "TrimPrefix"})
			sb.WriteString("if strings." + fn[0] + "(ms[" + key() + "], \"x\") {\n\t\tms[" + key() + "] = " + pick(g, "trimform", "strings."+fn[1]+"(ms["+key()+"], \"x\")", "ms["+key()+"][len(\"x\"):]", "ms["+key()+"][1:]") + "\n\t}")
		default: // loop with conditional break on the expression
			g.feat("chain_loop_break")
			sb.WriteString("for {\n\t\tif " + eq(0) + " {\n\t\t\tbreak\n\t\t}\n\t\tn++\n\t}")
		}
		name := g.styled(g.flip("expfn"))
		params := append(append([]string{"ms map[any]string"}, ce.Params...), vparams...)
		return g.doc(name) + "func " + name + "(" + strings.Join(params, ", ") + ") int {\n\tn := 0\n\t" + sb.String() + "\n\treturn n\n}"
	})
}

// ---------------------------------------------------------------- general statements

// localVar declares a new local variable of a drawn type and returns the statement.
func (g *gen) localVar(d int) string {
	t := g.anyType(2)
	n := g.fresh("v")
	var s string
	switch g.intn(0, 3, "declform") {
	case 0:
		s = n + " := " + g.val(t, d)
	case 1:
		s = "var " + n + " " + g.ts(t)
	case 2:
		s = "var " + n + " " + g.ts(t) + " = " + g.arg(t, d)
	default:
		s = "var " + n + " = " + g.val(t, d)
	}
	g.sc.add(n, t)
	return s + "\n\t_ = " + n
}

// rangeStmt ranges over a drawn operand.
func (g *gen) rangeStmt(d int) string {
	label := ""
	use := ""
	if g.chance(30, "label") {
		g.sc.labels++
		label = fmt.Sprintf("L%d", g.sc.labels)
		use = pick(g, "labeluse", "continue "+label, "break "+label)
		g.feat("labelled_loop")
	} else {
		use = pick(g, "loopbody", "continue", "break", "_ = 0", "")
	}
	var hdr string
	hdrParen := func(e string) string {
		if strings.Contains(e, "{") {
			return "(" + e + ")"
		}
		return e
	}
	kv := func(nv int) string {
		switch g.intn(0, 3, "rangevars") {
		case 0:
			return ""
		case 1:
			return "_ = "
		case 2:
			if nv >= 2 {
				return "_, _ = "
			}
			return "_ = "
		default:
			if nv >= 2 {
				return "i, x := "
			}
			return "i := "
		}
	}
	vars := func(h string) string {
		if strings.HasPrefix(h, "i, x :=") {
			return "\n\t\t_, _ = i, x"
		}
		if strings.HasPrefix(h, "i :=") {
			return "\n\t\t_ = i"
		}
		return ""
	}
	var over string
	nv := 2
	switch g.intn(0, 9, "rangeover") {
	case 0:
		over = g.val(sliceOf(g.anyType(1)), d)
	case 1:
		over = g.val(arrayOf(g.intn(0, 3, "len"), g.anyType(1)), d)
	case 2:
		over = g.val(ptrTo(arrayOf(2, tInt)), d)
	case 3:
		over = g.val(tString, d)
	case 4:
		over = g.val(mapOf(g.anyCmp(1), g.anyType(1)), d)
	case 5:
		over = g.val(chanOf(pick(g, "rdir", 0, 1), g.anyType(1)), d)
		nv = 1
	case 6:
		over = pick(g, "rangeint", "3", "len(\"ab\")", "int8(2)", "0", "uint(1)")
		nv = 1
		g.feat("range_int")
	case 7:
		over = pick(g, "rangefunc", "func(yield func(int, string) bool) { yield(1, \"a\") }", "slices.All([]int{1})", "maps.Keys(map[string]int{})", "func(yield func() bool) {}", "func(yield func(int) bool) { _ = yield(1) && yield(2) }")
		nv = 2
		if strings.Contains(over, "func() bool") {
			nv = 0
		} else if strings.Contains(over, "func(int) bool") || strings.Contains(over, "maps.Keys") {
			nv = 1
		}
		g.feat("range_func")
	case 8:
		t := g.namedType(func(t *Ty) bool { k := t.kind(); return k == KSlice || k == KMap || k == KArray || k == KString })
		if k := t.kind(); k == KSlice || k == KMap || k == KArray || k == KString {
			over = g.val(t, d)
			g.feat("range_named")
		} else {
			over = "[]int{1}"
		}
	default:
		over = "[]int{1, 2}"
	}
	h := kv(nv)
	if nv == 0 {
		h = ""
	}
	hdr = "for " + h + "range " + hdrParen(over)
	s := hdr + " {" + vars(h) + "\n\t\t" + use + "\n\t}"
	if label != "" {
		s = label + ":\n\t" + s
	}
	return s
}

// exoticCall returns a call expression usable after defer or go.
func (g *gen) exoticCall(d int) string {
	switch g.intn(0, 14, "callee") {
	case 0:
		return "func() { recover() }()"
	case 1:
		return "recover()"
	case 2:
		return `panic("x")`
	case 3:
		return "(func())(nil)()"
	case 4:
		return "func(x int) { _ = x }(" + g.val(tInt, d) + ")"
	case 5:
		return "new(sync.Mutex).Unlock()"
	case 6:
		return "close(make(chan int))"
	case 7:
		return "println()"
	case 8:
		t := g.namedType(func(t *Ty) bool { return len(t.Methods) > 0 && t.Under != nil && t.Under.K != KIface && !t.Generic }, 5, 11)
		if len(t.Methods) == 0 || t.Under == nil || t.Under.K == KIface || t.Generic {
			return "println(1)"
		}
		m := t.Methods[g.intn(0, len(t.Methods)-1, "meth")]
		var as []string
		for _, p := range m.Params {
			as = append(as, g.arg(p, 1))
		}
		recv := g.val(t, 1)
		if m.Ptr {
			recv = g.val(ptrTo(t), 1)
		}
		if g.flip("methexpr") {
			g.feat("method_expression")
			ex := g.tn(t)
			if m.Ptr {
				ex = "(*" + ex + ")"
			}
			return ex + "." + m.Name + "(" + strings.Join(append([]string{recv}, as...), ", ") + ")"
		}
		g.feat("method_call_exotic_recv")
		if !m.Ptr && !strings.HasPrefix(recv, "(") {
			recv = "(" + recv + ")"
		}
		if m.Ptr {
			recv = "(" + recv + ")"
		}
		return recv + "." + m.Name + "(" + strings.Join(as, ", ") + ")"
	case 9:
		return "[]func(){func() {}}[0]()"
	case 10:
		return `map[string]func(){"k": nil}["k"]()`
	case 11:
		return "func() func() { return func() {} }()()"
	case 12:
		return pick(g, "stdcallee", "os.Exit(1)", "fmt.Println()", "new(sync.WaitGroup).Done()", "time.Sleep(0)", "runtime.Gosched()", "new(sync.WaitGroup).Add(1)", "context.Background().Done()", "new(sync.RWMutex).RUnlock()")
	case 13:
		if f := g.callFor(tInt, d); f != "" {
			return f
		}
		return "func() int { return 1 }()"
	default:
		return "struct{ f func() }{}.f()"
	}
}

// stmt draws one statement for the body of a general function.
func (g *gen) stmt(d int) string {
	switch g.intn(0, 28, "stmt") {
	case 25:
		// select with every form of communication clause
		g.feat("select_comm_forms")
		n := g.fresh("c")
		clauses := []string{"case <-" + n + ":", "case (<-" + n + "):", "case ((<-(" + n + "))):", "case x := <-" + n + ":\n\t\t_ = x", "case x, ok := (<-" + n + "):\n\t\t_, _ = x, ok",
			"case arr[0], *new(bool) = <-" + n + ":", "case st.f, _ = <-" + n + ":", "case " + n + " <- 1:", "case (" + n + ") <- len(arr):", "case _ = <-" + n + ":", "case *new(int) = <-" + n + ":", "case mp[\"k\"] = <-" + n + ":", "case _, _ = <-" + n + ":"}
		var cs []string
		for i, k := 0, g.intn(1, 4, "nclauses"); i < k; i++ {
			cs = append(cs, pick(g, "commclause", clauses...))
		}
		if g.flip("seldefault") {
			cs = append(cs, "default:")
		}
		return "{\n\t\t" + n + " := make(chan int, 1)\n\t\tvar arr [2]int\n\t\tvar st struct{ f int }\n\t\tmp := map[string]int{}\n\t\t_, _, _ = arr, st, mp\n\t\tselect {\n\t\t" + strings.Join(cs, "\n\t\t") + "\n\t\t}\n\t}"
	case 26:
		// assignment targets of every form
		g.feat("assign_target_forms")
		targets := []string{"(x)", "*p", "(*p)", "arr[0]", "(arr)[1]", "st.f", "(st).f", "(*ps).f", "ps.f", "mp[\"k\"]", "(mp)[\"j\"]", "*new(int)", "map[int]int{}[0]", "sl[len(sl)-1]", "*&x", "(*(&st)).f", "_"}
		var lines []string
		for i, k := 0, g.intn(1, 4, "nassign"); i < k; i++ {
			t1, t2 := pick(g, "target", targets...), pick(g, "target", targets...)
			switch g.intn(0, 5, "assignform") {
			case 0:
				lines = append(lines, t1+" = "+g.arg(tInt, 1))
			case 1:
				lines = append(lines, t1+", "+t2+" = "+g.arg(tInt, 1)+", "+g.arg(tInt, 1))
			case 2:
				if t1 != "_" {
					lines = append(lines, t1+pick(g, "incdec", "++", "--", " += 2", " <<= 1", " |= 1", " %= 3"))
				}
			case 3:
				lines = append(lines, "for "+t1+", "+t2+" = range sl {\n\t\t}")
			case 4:
				lines = append(lines, "for "+t1+" = range 3 {\n\t\t}")
			default:
				lines = append(lines, t1+", "+t2+" = "+t2+", "+t1)
			}
		}
		for i, l := range lines {
			if strings.HasPrefix(l, "_, _ = _") || strings.Contains(l, "= _") || strings.HasSuffix(l, ", _") && strings.Contains(l, "= ") && strings.Contains(l[strings.Index(l, "= "):], "_") {
				lines[i] = "x = 1"
			}
		}
		return "{\n\t\tvar x int\n\t\tp, ps, sl := &x, &struct{ f int }{}, []int{1}\n\t\tvar arr [2]int\n\t\tvar st struct{ f int }\n\t\tmp := map[string]int{}\n\t\t_, _, _, _, _, _ = p, ps, sl, arr, st, mp\n\t\t" + strings.Join(lines, "\n\t\t") + "\n\t}"
	case 27:
		// promoted fields and methods through named pointer types and several levels of embedding
		g.feat("promoted_selectors")
		n := g.fresh("")
		return "{\n\t\ttype inner" + n + " struct{ f int }\n\t\ttype mid" + n + " struct{ *inner" + n + " }\n\t\ttype outer" + n + " struct {\n\t\t\tmid" + n + "\n\t\t\tsync.Mutex\n\t\t}\n\t\ttype ptr" + n + " *outer" + n + "\n\t\ttype alias" + n + " = *mid" + n + "\n\t\tvar o outer" + n + "\n\t\tvar p ptr" + n + " = &o\n\t\tvar a alias" + n + " = &o.mid" + n + "\n\t\t_, _ = p, a\n\t\t_ = " +
			pick(g, "promoted", "o.f", "p.f", "a.f", "(*p).mid"+n+".f", "o.inner"+n+".f", "p.inner"+n, "a.inner"+n+".f", "(&o).f", "o.mid"+n+".inner"+n+".f") + "\n\t\t" +
			pick(g, "promotedmeth", "o.Lock()", "(*p).Lock()", "_ = o.Unlock", "_ = (*outer"+n+").Lock", "_ = p.Mutex.TryLock", "defer o.Unlock()", "_ = (&p.Mutex).Lock") + "\n\t}"
	case 0, 1, 2:
		return g.localVar(d)
	case 3:
		// assignment to an existing variable
		if len(g.sc.vars) > 0 {
			v := g.sc.vars[g.intn(0, len(g.sc.vars)-1, "assignvar")]
			if g.chance(8, "selfassign") {
				return v.name + " = " + v.name
			}
			return v.name + " = " + g.arg(v.t, d)
		}
		return g.localVar(d)
	case 4, 5:
		// nil comparison of a nillable value
		t := g.anyType(2)
		for i := 0; i < 3 && !t.nillable(); i++ {
			t = g.anyType(2)
		}
		if !t.nillable() {
			t = tError
		}
		g.feat("nil_cmp_" + kindName(t.kind()))
		x := g.val(t, d)
		c := x + pick(g, "nilop", " == nil", " != nil")
		if g.chance(20, "nilyoda") {
			c = "nil" + pick(g, "nilop2", " == ", " != ") + x
		}
		return "if " + hdr(c) + " {\n\t\t" + pick(g, "nilbody", "", "println()", "panic(\"nil\")", "_ = 0") + "\n\t}"
	case 6, 7:
		return g.rangeStmt(d)
	case 8:
		g.feat("defer_exotic")
		return "defer " + g.exoticCall(d)
	case 9:
		g.feat("go_exotic")
		return "go " + g.exoticCall(d)
	case 10:
		// type switch
		t := g.anyType(1)
		x := "any(" + g.val(t, d) + ")"
		bind := pick(g, "tsbind", "", "y := ")
		use := ""
		if bind != "" {
			use = "\n\t\t_ = y"
		}
		c1t := g.anyType(1)
		c1 := g.ts(c1t)
		c2 := pick(g, "tscase2", "nil", "interface{ M() }", "func(int) bool", "map[string][]int", "chan<- int", "*struct{ a int }", "error", "fmt.Stringer", "[2]int")
		if c1t.String() == c2 || c1t.String() == "[7]uint16" || c1t.String() == "any" {
			c2 = "[]complex64"
		}
		g.feat("type_switch")
		return "switch " + bind + "(" + x + ").(type) {\n\tcase " + c1 + ":" + use + "\n\tcase " + c2 + ", [7]uint16:" + use + "\n\t" + pick(g, "tsdefault", "default:"+use+"\n\t", "") + "}"
	case 11:
		// comma-ok forms
		g.feat("comma_ok")
		n := g.fresh("ok")
		switch g.intn(0, 2, "commaok") {
		case 0:
			return "_, " + n + " := any(" + g.val(g.anyType(1), d) + ").(" + g.ts(g.anyType(1)) + ")\n\t_ = " + n
		case 1:
			return "_, " + n + " := " + g.val(mapOf(tString, tInt), d) + "[\"k\"]\n\t_ = " + n
		default:
			return "_, " + n + " := <-" + g.val(chanOf(0, tInt), d) + "\n\t_ = " + n
		}
	case 12:
		// select
		g.feat("select")
		ch := g.val(chanOf(0, tInt), d)
		return "select {\n\tcase x := <-" + ch + ":\n\t\t_ = x\n\tcase " + ch + " <- 1:\n\tcase <-time.After(0):\n\t" + pick(g, "seldefault", "default:\n\t", "") + "}"
	case 13:
		return g.printfStmt(d)
	case 14, 15, 16:
		return g.apiStmt(d)
	case 17:
		// call of a declared function, result compared with nil or dropped
		if len(g.funcs) > 0 {
			f := g.funcs[g.intn(0, len(g.funcs)-1, "callfn")]
			if f.unit != g.curUnit() && (!f.Test || g.inTest()) {
				g.dep(f.unit)
				var as []string
				for _, p := range f.Params {
					as = append(as, g.arg(p, 1))
				}
				call := f.Name + "(" + strings.Join(as, ", ") + ")"
				if len(f.Results) == 1 && f.Results[0].nillable() {
					g.feat("call_result_nil_cmp")
					return "if " + hdr(call+pick(g, "nilop", " == nil", " != nil")) + " {\n\t}"
				}
				return call
			}
		}
		return g.localVar(d)
	case 18:
		// nested block with shadowing
		if len(g.sc.vars) > 0 {
			v := g.sc.vars[g.intn(0, len(g.sc.vars)-1, "shadow")]
			g.feat("shadowing")
			return "{\n\t\t" + v.name + " := " + v.name + "\n\t\t_ = " + v.name + "\n\t}"
		}
		return "{\n\t}"
	case 19:
		// closure capturing and called later
		n := g.fresh("fn")
		g.feat("closure")
		return n + " := func() { " + pick(g, "closurebody", "", "recover()", "println()", "panic(1)") + " }\n\t" + pick(g, "closureuse", n+"()", "defer "+n+"()", "go "+n+"()", "_ = "+n)
	case 20:
		// increments, compound assignment on a fresh integer-like variable
		t := pick(g, "inctype", intTypes...)
		n := g.fresh("k")
		g.sc.add(n, t)
		return "var " + n + " " + t.Name + "\n\t" + n + pick(g, "incop", "++", "--", " += 1", " <<= 1", " %= 3", " &^= 1", " |= 2") + "\n\t_ = " + n
	case 21:
		// if with init and else
		t := g.anyCmp(1)
		g.feat("if_init")
		return "if x := " + hdr(g.val(t, d)) + "; x == " + hdr(g.val(t, d-1)) + " {\n\t} else if x != " + hdr(g.val(t, 0)) + " {\n\t\t_ = x\n\t} else {\n\t}"
	case 22:
		// pointer dereference after / before a nil check (SA5011 material)
		t := g.namedType(func(t *Ty) bool {
			return t.kind() == KStruct && !t.Generic && len(t.u().Fields) > 0 && !t.u().Fields[0].Embedded && t.u().Fields[0].Name != "_"
		}, 0)
		if t.kind() != KStruct || len(t.u().Fields) == 0 || t.u().Fields[0].Embedded || t.u().Fields[0].Name == "_" {
			return g.localVar(d)
		}
		n := g.fresh("ptr")
		f := t.u().Fields[0].Name
		g.feat("deref_around_nil_check")
		pv := g.val(ptrTo(t), d)
		g.sc.add(n, ptrTo(t))
		return n + " := " + pv + "\n\t" + pick(g, "derefform",
			"if "+n+" == nil {\n\t\tprintln()\n\t}\n\t_ = "+n+"."+f,
			"_ = "+n+"."+f+"\n\tif "+n+" != nil {\n\t}",
			"if "+n+" != nil {\n\t\t_ = "+n+"."+f+"\n\t}\n\t_ = *"+n,
			"for "+n+" == nil {\n\t\tbreak\n\t}\n\t_ = (*"+n+")."+f)
	case 23:
		// conversions among strings, byte and rune slices, arrays, array pointers
		g.feat("conversion_zoo")
		return "_ = " + pick(g, "convzoo",
			"string("+g.val(sliceOf(tByte), d)+")", "[]byte("+g.val(tString, d)+")", "[]rune("+g.val(tString, d)+")", "string("+g.val(sliceOf(tRune), d)+")",
			"[2]int("+g.val(sliceOf(tInt), d)+")", "(*[2]int)("+g.val(sliceOf(tInt), d)+")", "(*[0]int)("+g.val(sliceOf(tInt), d)+")", "[0]string("+g.val(sliceOf(tString), d)+")",
			"string(rune("+g.val(tInt, d)+"))", "[]byte(string("+g.val(sliceOf(tByte), d)+"))", "strings.Compare(string("+g.val(sliceOf(tByte), d)+"), \"a\")", "unsafe.Pointer(uintptr(1))", "uintptr(unsafe.Pointer(new(int)))",
			"(*int)(unsafe.Pointer(new(float64)))", "unsafe.Slice(new(int), 1)", "unsafe.String(new(byte), 1)")
	default:
		return g.localVar(d)
	}
}

// stmtFunc is the general family: a function whose body is a sequence of drawn statements.
func (g *gen) stmtFunc() {
	g.unit("stmts", g.inTest(), func() string {
		name := g.styled(g.flip("expfn"))
		sc := &scope{}
		save := g.sc
		g.sc = sc
		defer func() { g.sc = save }()
		var ps []string
		var pts []*Ty
		for i, n := 0, g.intn(0, 3, "nparams"); i < n; i++ {
			t := g.anyType(2)
			pn := fmt.Sprintf("p%d", i)
			sc.add(pn, t)
			pts = append(pts, t)
			ps = append(ps, pn+" "+g.ts(t))
		}
		switch g.intn(0, 3, "nresults") {
		case 0:
		case 1, 2:
			sc.results = []*Ty{g.anyType(2)}
		default:
			sc.results = []*Ty{g.anyType(1), tError}
		}
		var lines []string
		for i, n := 0, g.intn(1, 7, "nstmts"); i < n; i++ {
			lines = append(lines, g.stmt(2))
		}
		if len(sc.results) > 0 || g.chance(20, "explicit_return") {
			lines = append(lines, g.returnStmt())
		}
		var rs []string
		for _, r := range sc.results {
			rs = append(rs, g.ts(r))
		}
		res := ""
		if len(rs) == 1 && !strings.HasPrefix(rs[0], "(") {
			res = " " + rs[0]
		} else if len(rs) > 0 {
			res = " (" + strings.Join(rs, ", ") + ")"
		}
		g.funcs = append(g.funcs, &fnInfo{Test: g.inTest(), Name: name, Params: pts, Results: sc.results, unit: g.curUnit()})
		return g.doc(name) + "func " + name + "(" + strings.Join(ps, ", ") + ")" + res + " {\n\t" + strings.Join(lines, "\n\t") + "\n}"
	})
}
