package exogen

import (
	"fmt"
	"strings"
)

// Con is a type constraint with the operator classes its type set permits.
type Con struct {
	Src        string // the constraint as written in a type parameter list
	Terms      []*Ty
	Ordered    bool
	Numeric    bool
	Integer    bool
	Addable    bool // + is defined (numeric or string)
	Comparable bool
	Nillable   bool
	Lenable    bool
	Capable    bool
	IndexElem  *Ty  // x[i] is valid and has this type
	Stringish  bool // strings and byte slices
	Core       bool // all terms have the same underlying type
	SliceElem  *Ty  // arrays / array pointers over this element type: T(s) converts from []SliceElem
	RecvElem   *Ty  // channels that permit receiving
	SendElem   *Ty
	Consts     []string // constants convertible to every term
	Methods    []Meth
	Insts      []*Ty // some type arguments that satisfy the constraint
	Feat       string
	MinLen     int // smallest array length among the terms (large when there is no array)
}

// termsCon computes the operator classes of a union of terms.
func termsCon(terms []*Ty, tilde []bool) *Con {
	c := &Con{MinLen: 1 << 20, Terms: terms, Ordered: true, Numeric: true, Integer: true, Addable: true, Comparable: true, Nillable: true, Lenable: true, Capable: true, Stringish: true, Core: true}
	var parts []string
	allNum, allStr := true, true
	for i, t := range terms {
		s := t.String()
		if tilde[i] {
			s = "~" + s
		}
		parts = append(parts, s)
		u := t.u()
		k := u.K
		c.Ordered = c.Ordered && (k == KInt || k == KFloat || k == KString)
		c.Numeric = c.Numeric && (k == KInt || k == KFloat || k == KComplex)
		c.Integer = c.Integer && k == KInt
		allNum = allNum && (k == KInt || k == KFloat || k == KComplex)
		allStr = allStr && k == KString
		c.Comparable = c.Comparable && t.comparable() && !t.hasIface(0)
		c.Nillable = c.Nillable && t.nillable()
		lenable := k == KString || k == KSlice || k == KArray || k == KMap || k == KChan || k == KPtr && u.Elem.kind() == KArray
		c.Lenable = c.Lenable && lenable
		c.Capable = c.Capable && lenable && k != KString && k != KMap
		c.Stringish = c.Stringish && (k == KString || k == KSlice && u.Elem.kind() == KInt && (u.Elem.Name == "byte" || u.Elem.Name == "uint8"))
		if u.String() != terms[0].u().String() {
			c.Core = false
		}
		c.Insts = append(c.Insts, t)
	}
	c.Addable = allNum || allStr
	// indexing: all terms slices / arrays / array pointers (or strings and byte slices) with one element type
	var elem *Ty
	idx, arr := true, true
	var recv, send *Ty
	chans := true
	for _, t := range terms {
		u := t.u()
		var e *Ty
		isArr := false
		switch {
		case u.K == KSlice:
			e = u.Elem
		case u.K == KArray:
			e, isArr = u.Elem, true
			c.MinLen = min(c.MinLen, u.Len)
		case u.K == KPtr && u.Elem.kind() == KArray:
			e, isArr = u.Elem.u().Elem, true
			c.MinLen = min(c.MinLen, u.Elem.u().Len)
		case u.K == KString:
			e = tByte
		}
		if e == nil || elem != nil && !same(elem, e) && !(e.String() == "byte" && elem.String() == "uint8" || e.String() == "uint8" && elem.String() == "byte") {
			idx = false
		} else {
			elem = e
		}
		arr = arr && isArr
		if u.K == KChan {
			if u.Dir != 2 && (recv == nil || same(recv, u.Elem)) {
				recv = u.Elem
			} else {
				chans = false
			}
		} else {
			chans = false
		}
	}
	if idx {
		c.IndexElem = elem
		if arr {
			c.SliceElem = elem
		}
	}
	if chans {
		c.RecvElem = recv
	}
	sendOK := true
	for _, t := range terms {
		u := t.u()
		if u.K != KChan || u.Dir == 1 || send != nil && !same(send, u.Elem) {
			sendOK = false
			break
		}
		send = u.Elem
	}
	if sendOK {
		c.SendElem = send
	}
	switch {
	case c.Numeric && c.Integer:
		c.Consts = []string{"0", "1", "2", "7"}
	case c.Numeric:
		c.Consts = []string{"0", "1", "2"}
		onlyFloatish := true
		for _, t := range terms {
			if t.kind() == KInt {
				onlyFloatish = false
			}
		}
		if onlyFloatish {
			c.Consts = append(c.Consts, "1.5")
		}
	case allStr:
		c.Consts = []string{`""`, `"a"`}
	case c.Stringish:
		c.Consts = []string{`""`, `"ab"`}
	}
	c.Src = strings.Join(parts, " | ")
	return c
}

// constraint draws a constraint.
func (g *gen) constraint() *Con {
	var terms []*Ty
	var tilde []bool
	add := func(t *Ty, tl bool) {
		for _, o := range terms {
			if o.u().String() == t.u().String() {
				return // terms must not overlap
			}
		}
		terms = append(terms, t)
		tilde = append(tilde, tl && !t.Named)
	}
	elem := pick(g, "conelem", tInt, tString, tByte, tF64, tAny)
	feat := ""
	switch g.intn(0, 18, "conform") {
	case 18:
		feat = "con_core_array"
		add(arrayOf(g.intn(1, 5, "len"), pick(g, "arrelem", tInt, tInt, tString, tByte)), g.flip("tilde"))
	case 0:
		g.feat("con_any")
		return &Con{Src: "any", Insts: []*Ty{tInt, tString, tAny, sliceOf(tInt), ptrTo(tInt), tError}, Feat: "con_any"}
	case 1:
		g.feat("con_comparable")
		return &Con{Src: "comparable", Comparable: true, Insts: []*Ty{tInt, tString, ptrTo(tInt), tF64, arrayOf(2, tInt)}, Feat: "con_comparable"}
	case 2:
		g.feat("con_cmp_ordered")
		return &Con{Src: "cmp.Ordered", Ordered: true, Addable: true, Comparable: true, Insts: []*Ty{tInt, tString, tF64, tUint8}, Consts: nil, Feat: "con_cmp_ordered"}
	case 3:
		feat = "con_ints"
		for i, n := 0, g.intn(1, 4, "nterms"); i < n; i++ {
			add(pick(g, "intterm", intTypes...), g.flip("tilde"))
		}
	case 4:
		feat = "con_floats"
		for i, n := 0, g.intn(1, 3, "nterms"); i < n; i++ {
			add(pick(g, "floatterm", tF32, tF64, tC64, tC128), g.flip("tilde"))
		}
	case 5:
		feat = "con_numeric_mixed"
		add(pick(g, "intterm", intTypes...), g.flip("tilde"))
		add(pick(g, "floatterm", tF32, tF64, tC128), g.flip("tilde"))
		if g.flip("third") {
			add(pick(g, "intterm", intTypes...), g.flip("tilde"))
		}
	case 6:
		feat = "con_ordered_mixed"
		add(pick(g, "intterm", intTypes...), g.flip("tilde"))
		add(tString, g.flip("tilde"))
		if g.flip("third") {
			add(pick(g, "floatterm", tF32, tF64), g.flip("tilde"))
		}
	case 7:
		feat = "con_stringish"
		add(tString, g.flip("tilde"))
		add(sliceOf(tByte), g.flip("tilde"))
	case 8:
		feat = "con_slices_mixed"
		add(sliceOf(elem), g.flip("tilde"))
		add(sliceOf(pick(g, "conelem2", tInt, tString, tBool, tError)), g.flip("tilde"))
	case 9:
		feat = "con_array_pointers"
		add(ptrTo(arrayOf(g.intn(0, 2, "len"), elem)), false)
		add(ptrTo(arrayOf(g.intn(3, 5, "len"), elem)), false)
	case 10:
		feat = "con_arrays"
		add(arrayOf(g.intn(0, 2, "len"), elem), g.flip("tilde"))
		add(arrayOf(g.intn(3, 5, "len"), elem), g.flip("tilde"))
	case 11:
		feat = "con_chans"
		add(chanOf(0, elem), g.flip("tilde"))
		add(chanOf(g.intn(1, 2, "dir"), elem), g.flip("tilde"))
	case 12:
		feat = "con_ptr_slice_mix"
		add(ptrTo(elem), false)
		add(sliceOf(elem), g.flip("tilde"))
		if g.flip("third") {
			add(mapOf(tString, elem), false)
		}
	case 13:
		feat = "con_maps_funcs"
		if g.flip("maps") {
			add(mapOf(tString, elem), g.flip("tilde"))
			add(mapOf(tString, tBool), g.flip("tilde"))
		} else {
			add(funcOf(nil, nil), g.flip("tilde"))
			add(funcOf([]*Ty{elem}, nil), g.flip("tilde"))
		}
	case 14:
		feat = "con_single_core"
		add(pick(g, "core", sliceOf(elem), mapOf(tString, elem), ptrTo(elem), funcOf(nil, []*Ty{elem}), chanOf(0, elem), arrayOf(3, elem), ptrTo(arrayOf(2, elem)), &Ty{K: KStruct, unit: -1, Fields: []Field{{Name: "a", T: elem}}}), g.flip("tilde"))
	case 15:
		feat = "con_slice_array_mix"
		add(sliceOf(elem), g.flip("tilde"))
		add(arrayOf(g.intn(1, 3, "len"), elem), g.flip("tilde"))
		if g.flip("third") {
			add(ptrTo(arrayOf(2, elem)), false)
		}
	case 16:
		feat = "con_named_terms"
		t := g.namedType(func(t *Ty) bool { return !t.Generic && t.Under != nil && t.Under.K != KIface && t.Under.K != KTParam }, 0, 1, 2, 9)
		if t.Generic || t.Under == nil || t.Under.K == KIface {
			t = tInt
		}
		add(t, false)
		if g.flip("second") {
			add(pick(g, "namedsecond", tInt, tString, sliceOf(tInt)), false)
		}
	default:
		feat = "con_with_method"
		add(pick(g, "methbase", tInt, tString, tF64), true)
		if g.flip("second") {
			add(pick(g, "methbase2", tInt64, tUint8), true)
		}
		c := termsCon(terms, tilde)
		c.Src = "interface { " + c.Src + "; String() string }"
		c.Methods = []Meth{{Name: "String", Results: []*Ty{tString}}}
		c.Insts = nil
		c.Feat = feat
		g.feat(feat)
		return c
	}
	c := termsCon(terms, tilde)
	c.Feat = feat
	g.feat(feat)
	// a union may be written bare or inside interface{ }; single pointer terms need the latter
	literalTerm := false
	for _, t := range terms {
		if t.Name == "" {
			literalTerm = true
		}
	}
	if literalTerm || g.chance(40, "ifacewrap") {
		c.Src = "interface { " + c.Src + " }"
	}
	if g.chance(15, "namedcon") {
		name := g.typeName()
		src := c.Src
		if !strings.HasPrefix(src, "interface") {
			src = "interface { " + src + " }"
		}
		id := g.unit("typedecl", g.inTest(), func() string {
			g.feat("named_constraint")
			return g.doc(name) + "type " + name + " " + src
		})
		g.dep(id)
		c.Src = name
	}
	return c
}

// resultTypes draws the result list of a generic function over type parameter tp.
func (g *gen) resultTypes(tp *Ty) []*Ty {
	switch g.intn(0, 15, "results") {
	case 0:
		return nil
	case 1:
		return []*Ty{tp}
	case 2:
		return []*Ty{ptrTo(tp)}
	case 3:
		return []*Ty{sliceOf(tp)}
	case 4:
		return []*Ty{ptrTo(tInt)}
	case 5:
		return []*Ty{tError}
	case 6:
		return []*Ty{tAny}
	case 7:
		return []*Ty{funcOf(nil, []*Ty{tp})}
	case 8:
		return []*Ty{mapOf(tString, tp)}
	case 9:
		return []*Ty{chanOf(0, tp)}
	case 10:
		return []*Ty{tBool}
	case 11:
		return []*Ty{tInt}
	case 12:
		return []*Ty{tp, tError}
	case 13:
		return []*Ty{ptrTo(tp), tBool}
	case 14:
		return []*Ty{g.anyType(1)}
	default:
		return []*Ty{g.namedType(nil)}
	}
}

func pointerLike(rs []*Ty) bool {
	for _, r := range rs {
		switch r.kind() {
		case KPtr, KIface, KMap, KChan, KFunc, KSlice, KUnsafe:
			return true
		}
	}
	return false
}

// tpOperand returns an operand of type parameter type tp: a variable, a fresh
// zero value, or a converted constant.
func (g *gen) tpOperand(tp *Ty, allowZero bool) string {
	if g.sc.noZero {
		allowZero = false
	}
	switch g.intn(0, 5, "tpoperand") {
	case 0:
		if allowZero {
			if v := g.sc.find(g, tp); v != "" {
				return v
			}
		}
	case 1, 3:
		if allowZero {
			g.feat("tparam_new_zero")
			return "(*new(" + tp.Name + "))"
		}
	case 2:
		if len(tp.Con.Consts) > 0 {
			g.feat("tparam_const_conv")
			return g.conv(tp, pick(g, "tpconst", tp.Con.Consts...))
		}
	}
	// parameters are never the zero constant
	var ps []string
	for _, v := range g.sc.vars {
		if same(v.t, tp) && strings.HasPrefix(v.name, "p") {
			ps = append(ps, v.name)
		}
	}
	if len(ps) > 0 {
		return ps[g.intn(0, len(ps)-1, "tpparam")]
	}
	return "(*new(" + tp.Name + "))"
}

// tpCond draws a boolean condition over values of the type parameter.
func (g *gen) tpCond(tp *Ty, ptrResult bool) string {
	c := tp.Con
	var forms []int
	if c.Comparable {
		forms = append(forms, 0, 0)
	}
	if c.Ordered {
		forms = append(forms, 1, 1, 1)
	}
	if c.Nillable {
		forms = append(forms, 2)
	}
	if c.Lenable {
		forms = append(forms, 3)
	}
	forms = append(forms, 4)
	switch forms[g.intn(0, len(forms)-1, "condform")] {
	case 0:
		g.feat("tparam_eq")
		return g.tpOperand(tp, true) + pick(g, "eqop", " == ", " != ") + g.tpOperand(tp, true)
	case 1:
		g.feat("tparam_ordered_cmp")
		return g.tpOperand(tp, true) + pick(g, "ordop", " < ", " <= ", " > ", " >= ") + g.tpOperand(tp, true)
	case 2:
		g.feat("tparam_nil_cmp")
		return g.tpOperand(tp, true) + pick(g, "eqop", " == ", " != ") + "nil"
	case 3:
		g.feat("tparam_len")
		return "len(" + g.tpOperand(tp, true) + ")" + pick(g, "lencmp", " == 0", " > 1", " != 0", " < 0", " >= 0")
	default:
		g.feat("tparam_type_assert")
		return "func() bool { _, ok := any(" + g.tpOperand(tp, true) + ").(" + pick(g, "asserted", "int", "string", tp.Name, "interface{ M() }", "error", "[]"+tp.Name) + "); return ok }()"
	}
}

// tpExprs draws statements that use the operator classes of the constraint.
func (g *gen) tpStmt(tp *Ty, ptrResult bool) string {
	c := tp.Con
	x := func() string { return g.tpOperand(tp, true) }
	v := func() string { // an assignable variable of type tp
		var ps []string
		for _, sv := range g.sc.vars {
			if same(sv.t, tp) {
				ps = append(ps, sv.name)
			}
		}
		return ps[g.intn(0, len(ps)-1, "tpvar")]
	}
	type form struct {
		ok bool
		f  func() string
	}
	forms := []form{
		{!g.sc.noZero, func() string { n := g.fresh("z"); g.sc.add(n, tp); return "var " + n + " " + g.ts(tp) + "\n\t_ = " + n }},
		{true, func() string { n := g.fresh("v"); e := x(); g.sc.add(n, tp); return n + " := " + e + "\n\t_ = " + n }},
		{true, func() string { return "_ = any(" + x() + ")" }},
		{true, func() string { g.feat("tparam_composite"); return "_ = []" + tp.Name + "{" + x() + ", " + x() + "}" }},
		{true, func() string {
			g.feat("tparam_composite")
			return "_ = " + pick(g, "tpcomposite", "struct{ v "+tp.Name+" }{"+x()+"}", "[1]"+tp.Name+"{"+x()+"}", "map[string]"+tp.Name+"{\"k\": "+x()+"}", "&[]"+tp.Name+"{"+x()+"}", "[]*"+tp.Name+"{new("+tp.Name+")}", "[][]"+tp.Name+"{{"+x()+"}, {}}")
		}},
		{true, func() string {
			n := g.fresh("q")
			e, e2 := v(), x()
			g.sc.add(n, ptrTo(tp))
			return n + " := &" + e + "\n\t*" + n + " = " + e2 + "\n\t_ = " + n
		}},
		{true, func() string {
			return "fmt." + pick(g, "print", "Println(", "Printf(\"%v %d %s\\n\", 1, ", "Print(", "Sprint(") + x() + ")"
		}},
		{true, func() string {
			g.feat("tparam_type_switch")
			n := g.fresh("y")
			return "switch " + n + " := any(" + x() + ").(type) {\n\tcase " + pick(g, "tscase", "int, string", "nil", tp.Name, "*"+tp.Name, "error", "interface{ M() }") + ":\n\t\t_ = " + n + "\n\tcase []" + tp.Name + ":\n\t}"
		}},
		{true, func() string { return "if " + hdr(g.tpCond(tp, ptrResult)) + " {\n\t\t" + g.returnStmt() + "\n\t}" }},
		{true, func() string {
			return "if " + hdr(g.tpCond(tp, ptrResult)) + " {\n\t\t" + v() + " = " + x() + "\n\t} else if " + hdr(g.tpCond(tp, ptrResult)) + " {\n\t\t" + g.returnStmt() + "\n\t}"
		}},
		{true, func() string {
			return "for " + hdr(g.tpCond(tp, ptrResult)) + " {\n\t\t" + pick(g, "loopexit", "break", g.returnStmt(), v()+" = "+x()+"\n\t\tbreak") + "\n\t}"
		}},
		{c.Comparable, func() string {
			g.feat("tparam_switch")
			return "switch " + hdr(x()) + " {\n\tcase " + g.tpOperand(tp, false) + ":\n\t\t" + g.returnStmt() + "\n\t}"
		}},
		{c.Comparable, func() string {
			g.feat("tparam_map_key")
			return "_ = map[" + tp.Name + "]int{" + g.tpOperand(tp, false) + ": 1}"
		}},
		{c.Ordered, func() string {
			g.feat("tparam_minmax")
			return v() + " = " + pick(g, "minmax", "min", "max") + "(" + x() + ", " + x() + ")"
		}},
		{c.Ordered, func() string { return "_ = cmp.Compare(" + x() + ", " + x() + ")" }},
		{c.Addable, func() string { return v() + pick(g, "addassign", " += ", " = "+x()+" + ") + x() }},
		{c.Numeric, func() string {
			g.feat("tparam_arith")
			return v() + " = " + x() + pick(g, "numop", " - ", " * ", " / ") + v()
		}},
		{c.Numeric, func() string { return v() + pick(g, "incdec", "++", "--", " *= 2", " -= 1") }},
		{c.Numeric, func() string { return v() + " = -" + x() }},
		{c.Numeric && !hasComplex(c), func() string {
			g.feat("tparam_numeric_conv")
			return "_ = " + pick(g, "numconv", "float64", "int", "uint8", "float32", "int64") + "(" + x() + ")"
		}},
		{c.Numeric && !hasComplex(c), func() string {
			g.feat("tparam_numeric_conv")
			n := g.fresh("n")
			return n + " := " + pick(g, "numsrc", "len(\"abc\")", "1.5", "uint8(3)", "int64(7)") + "\n\t" + v() + " = " + tp.Name + "(" + n + ")"
		}},
		{c.Integer, func() string {
			g.feat("tparam_int_ops")
			return v() + " = " + x() + pick(g, "intop", " % ", " & ", " | ", " ^ ", " &^ ", " << ", " >> ") + v()
		}},
		{c.Integer, func() string { return v() + " = ^" + x() + pick(g, "shiftc", " << 1", " >> 2", "") }},
		{c.Lenable, func() string { return "_ = len(" + x() + ")" }},
		{c.Capable, func() string { return "_ = cap(" + x() + ")" }},
		{c.IndexElem != nil && c.MinLen >= 2, func() string {
			g.feat("tparam_index")
			return "if len(" + v() + ") > 0 {\n\t\t_ = " + v() + "[0]\n\t}"
		}},
		{c.IndexElem != nil && c.MinLen >= 2 && !c.Stringish && !hasString(c), func() string {
			g.feat("tparam_index_store")
			w := v()
			return "if len(" + w + ") > 1 {\n\t\t" + w + "[1] = " + w + "[0]\n\t}"
		}},
		{c.Stringish, func() string {
			g.feat("tparam_string_conv")
			pre := pick(g, "strconv", "string(", "[]byte(", tp.Name+"(string(", tp.Name+"([]byte(")
			return "_ = " + pre + x() + strings.Repeat(")", strings.Count(pre, "("))
		}},
		{c.SliceElem != nil, func() string {
			g.feat("tparam_slice_to_array_conv")
			n := g.fresh("s")
			return n + " := " + g.val(sliceOf(c.SliceElem), 1) + "\n\t" + v() + " = " + g.conv(tp, n)
		}},
		{c.RecvElem != nil, func() string {
			g.feat("tparam_chan_recv")
			return pick(g, "recvform", "<-"+v(), "_, _ = <-"+v(), "select {\n\tcase <-"+v()+":\n\tdefault:\n\t}")
		}},
		{c.SendElem != nil, func() string {
			g.feat("tparam_chan_send")
			return "select {\n\tcase " + v() + " <- " + g.arg(c.SendElem, 1) + ":\n\tdefault:\n\t}"
		}},
		{c.Core && len(c.Terms) == 1 && c.Terms[0].literalable(), func() string {
			g.feat("tparam_core_literal")
			return "_ = " + tp.Name + "{}"
		}},
		{c.Core && len(c.Terms) > 0 && (c.Terms[0].kind() == KSlice || c.Terms[0].kind() == KMap || c.Terms[0].kind() == KArray || c.Terms[0].kind() == KChan || c.Terms[0].kind() == KString), func() string {
			g.feat("tparam_core_range")
			return "for range " + hdr(x()) + " {\n\t\tbreak\n\t}"
		}},
		{c.Core && len(c.Terms) > 0 && (c.Terms[0].kind() == KSlice || c.Terms[0].kind() == KMap || c.Terms[0].kind() == KChan), func() string {
			g.feat("tparam_core_make")
			return v() + " = make(" + tp.Name + pick(g, "mkarg", "", ", 1") + ifSlice(c.Terms[0]) + ")"
		}},
		{c.Core && len(c.Terms) == 1 && c.Terms[0].kind() == KArray && c.Terms[0].u().Elem == tInt && g.include("sa5012-typeparam-array-length"), func() string {
			g.feat("tparam_array_slice_variadic")
			g.needExoHelpers()
			return "exoPairs(" + v() + pick(g, "arrslice", "[:]", "[1:]", "[:2]") + "...)"
		}},
		{len(c.Methods) > 0, func() string {
			g.feat("tparam_method")
			return "_ = " + pick(g, "tpmeth", x()+".String()", x()+".String", tp.Name+".String", "fmt.Stringer("+x()+")")
		}},
	}
	var ok []form
	for _, f := range forms {
		if f.ok {
			ok = append(ok, f)
		}
	}
	// the conditional forms (indexes 8-10) carry the operator classes into branch conditions,
	// which is what the flow-sensitive analyses look at: they get a third of the draws
	if g.chance(33, "condstmt") {
		return forms[8+g.intn(0, 2, "condform")].f()
	}
	return ok[g.intn(0, len(ok)-1, "tpstmt")].f()
}

func ifSlice(t *Ty) string {
	if t.kind() == KSlice {
		return ", 2"
	}
	return ""
}

func hasComplex(c *Con) bool {
	for _, t := range c.Terms {
		if t.kind() == KComplex {
			return true
		}
	}
	return false
}

func hasString(c *Con) bool {
	for _, t := range c.Terms {
		if t.kind() == KString {
			return true
		}
	}
	return false
}

// returnStmt renders a return statement for the results of the function under construction.
func (g *gen) returnStmt() string {
	if len(g.sc.results) == 0 {
		return "return"
	}
	var rv []string
	for _, r := range g.sc.results {
		rv = append(rv, g.arg(r, 2))
	}
	return "return " + strings.Join(rv, ", ")
}

// genericFunc is family b: a generic function over a drawn constraint.
func (g *gen) genericFunc() {
	g.unit("generic", g.inTest(), func() string {
		con := g.constraint()
		tp := &Ty{K: KTParam, Name: pick(g, "tpname", "T", "E", "K", "Elem"), Con: con, unit: -1}
		name := g.styled(g.flip("expfn"))
		sc := &scope{tparams: []*Ty{tp}}
		sc.results = g.resultTypes(tp)
		ptrResult := pointerLike(sc.results)
		save := g.sc
		g.sc = sc
		defer func() { g.sc = save }()
		// recorded finding: an ordered comparison with the zero value of a type parameter in a
		// function with a pointer-like result; excluded by never producing such zero values there
		if ptrResult && con.Ordered && !g.include("nilness-ordered-comparison-with-typeparam-zero") {
			sc.noZero = true
		}
		tplist := tp.Name + " " + con.Src
		// an optional second type parameter
		var tp2 *Ty
		if g.chance(25, "tparam2") {
			c2 := g.constraint()
			tp2 = &Ty{K: KTParam, Name: "U", Con: c2, unit: -1}
			tplist += ", U " + c2.Src
			if ptrResult && c2.Ordered && !sc.noZero && !g.include("nilness-ordered-comparison-with-typeparam-zero") {
				sc.noZero = true
			}
			sc.tparams = append(sc.tparams, tp2)
			g.feat("two_tparams")
		}
		var ps []string
		np := g.intn(1, 3, "nparams")
		for i := 0; i < np; i++ {
			pn := fmt.Sprintf("p%d", i)
			pt := tp
			switch {
			case i > 0 && tp2 != nil && g.flip("p_u"):
				pt = tp2
			case i > 0 && g.chance(25, "p_other"):
				pt = pick(g, "ptype", sliceOf(tp), ptrTo(tp), tInt, funcOf([]*Ty{tp}, []*Ty{tp}), mapOf(tString, tp), chanOf(0, tp), tAny)
			}
			sc.add(pn, pt)
			ps = append(ps, pn+" "+g.ts(pt))
		}
		var lines []string
		for i, n := 0, g.intn(2, 10, "nstmts"); i < n; i++ {
			if tp2 != nil && g.chance(30, "stmt_u") && hasVar(sc, tp2) {
				lines = append(lines, g.tpStmt(tp2, ptrResult))
				continue
			}
			lines = append(lines, g.tpStmt(tp, ptrResult))
		}
		if tp2 != nil && con.Numeric && tp2.Con.Numeric && !hasComplex(con) && !hasComplex(tp2.Con) && hasVar(sc, tp2) {
			g.feat("tparam_to_tparam_conv")
			lines = append(lines, "_ = "+tp.Name+"("+g.tpOperand(tp2, true)+")")
		}
		lines = append(lines, g.returnStmt())
		var rs []string
		for _, r := range sc.results {
			rs = append(rs, g.ts(r))
		}
		res := ""
		if len(rs) == 1 && !strings.HasPrefix(rs[0], "(") {
			res = " " + rs[0]
		} else if len(rs) > 0 {
			res = " (" + strings.Join(rs, ", ") + ")"
		}
		var sb strings.Builder
		sb.WriteString(g.doc(name))
		sb.WriteString("func " + name + "[" + tplist + "](" + strings.Join(ps, ", ") + ")" + res + " {\n\t" + strings.Join(lines, "\n\t") + "\n}")
		// a caller that instantiates the function
		if tp2 == nil && len(con.Insts) > 0 && np == 1 && g.chance(60, "instantiate") {
			it := con.Insts[g.intn(0, len(con.Insts)-1, "inst")]
			g.sc = &scope{}
			call := name + "[" + g.ts(it) + "](" + g.val(it, 1) + ")"
			if g.flip("inferred") {
				call = name + "(" + g.val(it, 1) + ")"
			}
			if g.chance(20, "funcvalue") {
				g.feat("generic_func_value")
				call = "func() { f := " + name + "[" + g.tn(it) + "]; _ = f }()"
			}
			sb.WriteString("\n\nfunc " + g.fresh("use") + "() {\n\t" + call + "\n}")
			g.feat("generic_instantiated")
		}
		return sb.String()
	})
}

func hasVar(sc *scope, t *Ty) bool {
	for _, v := range sc.vars {
		if same(v.t, t) {
			return true
		}
	}
	return false
}
