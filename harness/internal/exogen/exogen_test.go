package exogen

import (
	"fmt"
	"os"
	"sort"
	"strconv"
	"strings"
	"testing"

	"pgregory.net/rapid"
)

// TestValidity generates packages without the repair step and reports the
// fraction of units that do not type-check, per family (development aid and
// regression test of the generator: the rate must stay low).
func TestValidity(t *testing.T) {
	n := 40
	if v := os.Getenv("EXOGEN_N"); v != "" {
		n, _ = strconv.Atoi(v)
	}
	verbose := os.Getenv("EXOGEN_VERBOSE") != ""
	total, bad := map[string]int{}, map[string]int{}
	msgs := map[string]int{}
	shown := 0
	seed := 1
	if v := os.Getenv("EXOGEN_SEED"); v != "" {
		seed, _ = strconv.Atoi(v)
	}
	for i := 0; i < n; i++ {
		p := rapid.Custom(func(rt *rapid.T) *Package {
			return Generate(rt, "p", Config{NoRepair: true, Test: true})
		}).Example(seed*1000 + i)
		errs, err := CheckErrors(p)
		if err != nil {
			t.Skipf("cannot type-check in this environment: %v", err)
		}
		for _, u := range p.Units {
			total[u.Family]++
		}
		if d := os.Getenv("EXOGEN_DUMP"); d != "" && len(errs) > 0 {
			os.WriteFile(fmt.Sprintf("%s/bad-%d.go", d, i), []byte(p.Source(false)), 0o644)
			os.WriteFile(fmt.Sprintf("%s/bad-%d_test.go", d, i), []byte(p.Source(true)), 0o644)
		}
		for ui, es := range errs {
			fam := "outside"
			if ui >= 0 {
				fam = p.Units[ui].Family
			}
			bad[fam]++
			for _, e := range es {
				msgs[fam+": "+e]++
			}
			if verbose && shown < 25 {
				shown++
				txt := ""
				if ui >= 0 {
					txt = p.Units[ui].Text
				}
				fmt.Printf("---- %s: %v\n%s\n", fam, es, txt)
			}
		}
	}
	var fams []string
	nt, nb := 0, 0
	for f := range total {
		fams = append(fams, f)
		nt += total[f]
	}
	sort.Strings(fams)
	for _, f := range fams {
		nb += bad[f]
		t.Logf("%-10s units=%4d invalid=%3d", f, total[f], bad[f])
	}
	t.Logf("outside=%d total=%d invalid=%d (%.1f%%)", bad["outside"], nt, nb, 100*float64(nb)/float64(max(nt, 1)))
	var ms []string
	for m, c := range msgs {
		ms = append(ms, fmt.Sprintf("%4d %s", c, m))
	}
	sort.Sort(sort.Reverse(sort.StringSlice(ms)))
	for i, m := range ms {
		if i > 40 {
			break
		}
		t.Log(strings.TrimSpace(m))
	}
	if nt > 0 && float64(nb)/float64(nt) > 0.10 {
		t.Errorf("too many invalid units: %d of %d", nb, nt)
	}
}

// TestDump writes generated packages as a module under EXOGEN_OUT (development aid).
func TestDump(t *testing.T) {
	out := os.Getenv("EXOGEN_OUT")
	if out == "" {
		t.Skip("EXOGEN_OUT not set")
	}
	n := 20
	if v := os.Getenv("EXOGEN_N"); v != "" {
		n, _ = strconv.Atoi(v)
	}
	seed := 1
	if v := os.Getenv("EXOGEN_SEED"); v != "" {
		seed, _ = strconv.Atoi(v)
	}
	var fams []string
	if v := os.Getenv("EXOGEN_FAMILIES"); v != "" {
		fams = strings.Split(v, ",")
	}
	os.MkdirAll(out, 0o755)
	os.WriteFile(out+"/go.mod", []byte("module example.com/m\n\ngo 1.26.0\n"), 0o644)
	for i := 0; i < n; i++ {
		p := rapid.Custom(func(rt *rapid.T) *Package {
			return Generate(rt, "p", Config{Test: i%2 == 0, Families: fams, MinUnits: envInt("EXOGEN_MIN", 10), MaxUnits: envInt("EXOGEN_MAX", 30), Include: func(sig string) bool { return os.Getenv("EXOGEN_EXCLUDE") == "" }})
		}).Example(seed*100000 + i)
		d := fmt.Sprintf("%s/p%d", out, i)
		os.MkdirAll(d, 0o755)
		os.WriteFile(d+"/p.go", []byte(p.Source(false)), 0o644)
		if s := p.Source(true); s != "" {
			os.WriteFile(d+"/p_test.go", []byte(s), 0o644)
		}
	}
}

func envInt(name string, def int) int {
	if v := os.Getenv(name); v != "" {
		if n, err := strconv.Atoi(v); err == nil {
			return n
		}
	}
	return def
}
