package srcmut

import (
	"go/importer"
	"go/token"
	"os"
	"path/filepath"
	"sort"
	"strings"
	"testing"

	"pgregory.net/rapid"
)

const tricky = `// Package doc.
package p

import (
	"errors"
	"fmt"
	str "strings"
	"time"
)

type T struct {
	A int ` + "`json:\"a\"`" + `
	B string
}

type G[K comparable, V any] struct{ m map[K]V }

func (g *G[K, V]) Get(k K) (V, bool) { v, ok := g.m[k]; return v, ok }

func gen[X any](x X) X { return x }

const (
	c0 = iota
	c1
	c2 = 1 << 3
)

var raw = ` + "`line1\nline2`" + `

var arr = [c2]int{1: 2, 3}

var nested = [][]T{{{1, "a"}}, {{A: 2}}}

func f(a, b int, s string, ch chan int, m map[string]int, i interface{}) (r int, err error) {
	defer func() { recover() }()
	go func() {}()
	x, ok := m[s]
	_ = ok
	if v, ok := i.(int); ok {
		x += v
	}
	switch y := i.(type) {
	case nil:
	case int, string:
		_ = y
	case fmt.Stringer:
		_ = y.String()
	}
	switch {
	case a < b && str.Contains(s, "x"):
		x++
	case a == 1, b == 2:
		x--
	}
L:
	for i := 0; i < a; i++ {
		select {
		case v := <-ch:
			x += v
		case ch <- x:
		default:
			break L
		}
		continue L
	}
	for range m {
	}
	for k, v := range m {
		_, _ = k, v
	}
	p := &T{A: a, B: s}
	q := &p.A
	*q = gen(a) + gen[int](b)
	var g G[string, int]
	_, _ = g.Get(s)
	fn := p.String
	_ = fn()
	_ = T.String(*p)
	_ = time.Duration(a) * time.Second
	_ = []byte(s)
	_ = arr[1:c1+1]
	if a > 3 {
		return -a, errors.New("x")
	} else if b > 3 {
		return
	}
	return x + len(s), nil
}

func (t T) String() string { return fmt.Sprintf("%d %s", t.A, t.B) }

func variadic(xs ...int) int { return len(xs) }

var _ = variadic([]int{1, 2}...)
`

func corpusFiles(t testing.TB) [][]File {
	out := [][]File{{{Name: "tricky.go", Src: []byte(tricky)}}}
	for _, g := range []string{"/repo/simple/s1*/testdata/go1.0/*", "/repo/quickfix/qf*/testdata/go1.0/*", "/repo/staticcheck/sa4*/testdata/go1.0/*", "/repo/stylecheck/st10*/testdata/go1.0/*"} {
		dirs, _ := filepath.Glob(g)
		sort.Strings(dirs)
		for _, d := range dirs {
			fs, _ := filepath.Glob(filepath.Join(d, "*.go"))
			var pkg []File
			for _, f := range fs {
				if strings.HasSuffix(f, "_test.go") {
					continue
				}
				b, err := os.ReadFile(f)
				if err != nil {
					continue
				}
				pkg = append(pkg, File{Name: filepath.Base(f), Src: b})
			}
			if len(pkg) > 0 {
				out = append(out, pkg)
			}
		}
	}
	return out
}

func TestMutationsPreserveTypes(t *testing.T) {
	imp := importer.ForCompiler(token.NewFileSet(), "source", nil)
	var corpus [][]File
	var prints []string
	for _, pkg := range corpusFiles(t) {
		fp, err := Fingerprint(pkg, imp)
		if err != nil {
			continue // package does not type-check on its own (sibling imports, deliberate errors)
		}
		corpus = append(corpus, pkg)
		prints = append(prints, fp)
	}
	if len(corpus) < 20 {
		t.Fatalf("only %d type-checkable corpus packages", len(corpus))
	}
	t.Logf("%d corpus packages", len(corpus))
	applied := map[Kind]int{}
	rapid.Check(t, func(rt *rapid.T) {
		pi := rapid.IntRange(0, len(corpus)-1).Draw(rt, "pkg")
		files := corpus[pi]
		n := rapid.IntRange(1, 12).Draw(rt, "n")
		var muts []Mutation
		for i := 0; i < n; i++ {
			kinds := append([]Kind{NewlineExpr, CommentExpr}, Kinds...)
			kind := kinds[rapid.IntRange(0, len(kinds)-1).Draw(rt, "kind")]
			out, m, err := Apply(files, kind, func(k int) int { return rapid.IntRange(0, k-1).Draw(rt, "pick") }, imp)
			if err != nil {
				continue
			}
			files = out
			muts = append(muts, *m)
			applied[kind]++
		}
		fp, err := Fingerprint(files, imp)
		if err != nil {
			rt.Fatalf("mutated package no longer type-checks: %v\nmutations: %+v\n%s", err, muts, dump(files))
		}
		if fp != prints[pi] {
			rt.Fatalf("fingerprint changed\nmutations: %+v\n--- before\n%s\n--- after\n%s\n%s", muts, prints[pi], fp, dump(files))
		}
	})
	t.Logf("applied: %v", applied)
	for _, k := range append([]Kind{NewlineExpr, CommentExpr}, Kinds...) {
		if applied[k] == 0 {
			t.Errorf("mutator %s never applied", k)
		}
	}
}

func dump(files []File) string {
	var sb strings.Builder
	for _, f := range files {
		sb.WriteString("== " + f.Name + "\n")
		sb.Write(f.Src)
	}
	return sb.String()
}

// TestFocus checks that aimed mutations land inside the focus and report where they inserted text.
func TestFocus(t *testing.T) {
	imp := importer.ForCompiler(token.NewFileSet(), "source", nil)
	files := []File{{Name: "tricky.go", Src: []byte(tricky)}}
	lo := strings.Index(tricky, "x, ok := m[s]")
	hi := lo + len("x, ok := m[s]")
	focus := func(file string, s, e int) bool { return s < hi && e >= lo }
	rapid.Check(t, func(rt *rapid.T) {
		kind := []Kind{Comment, CommentExpr, NewlineExpr, Paren}[rapid.IntRange(0, 3).Draw(rt, "kind")]
		out, m, err := ApplyAt(files, kind, func(k int) int { return rapid.IntRange(0, k-1).Draw(rt, "pick") }, imp, focus)
		if err != nil {
			rt.Skip()
		}
		if len(m.Inserted) == 0 {
			rt.Fatalf("no insertion recorded for %+v", m)
		}
		for _, in := range m.Inserted {
			if in[0] < lo || in[0] > hi {
				rt.Fatalf("%s inserted at %d, outside the focus [%d,%d]", kind, in[0], lo, hi)
			}
		}
		total := 0
		for _, in := range m.Inserted {
			total += in[1]
		}
		if len(out[0].Src) != len(files[0].Src)+total {
			rt.Fatalf("recorded insertions (%d bytes) do not explain the size change %d", total, len(out[0].Src)-len(files[0].Src))
		}
	})
}
