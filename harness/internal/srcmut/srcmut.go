// Package srcmut rewrites the source files of one Go package in ways that do
// not change what the package means: the result parses, type-checks and
// assigns the same types and constant values to the same expressions.
//
// The mutators are used as metamorphic transformations: a tool that computes
// positions and text edits from syntax trees must stay correct under them.
//
//	comment   insert /*c*/ behind a token
//	newline   insert a line break behind a token that does not trigger automatic
//	          semicolon insertion
//	paren     wrap a value expression in redundant parentheses (type-aware)
//	rename    give an import a (new) local name and rewrite its uses (type-aware)
//	crlf      convert a file to CRLF line endings
//	shift     prepend blank lines / a line comment to a file
//
// Every choice is made through a pick function (pick(n) in [0,n)), so callers
// can drive the package from rapid draws. Files that contain //line
// directives, cgo or carriage returns are never touched.
package srcmut

import (
	"bytes"
	"fmt"
	"go/ast"
	"go/parser"
	"go/scanner"
	"go/token"
	"go/types"
	"sort"
	"strings"
)

type File struct {
	Name string
	Src  []byte
}

type Kind string

const (
	Comment Kind = "comment"
	Newline Kind = "newline"
	// NewlineExpr is Newline restricted to sites inside an expression (the
	// tokens on both sides of the break belong to one expression node).
	NewlineExpr Kind = "newline-expr"
	// CommentExpr is Comment restricted in the same way.
	CommentExpr Kind = "comment-expr"
	Paren       Kind = "paren"
	Rename      Kind = "rename"
	CRLF        Kind = "crlf"
	Shift       Kind = "shift"
)

// Kinds lists all mutators; the cheap token-level ones come first.
var Kinds = []Kind{Comment, Newline, Paren, Rename, CRLF, Shift}

type Mutation struct {
	Kind   Kind   `json:"kind"`
	File   string `json:"file"`
	Offset int    `json:"offset"`
	Detail string `json:"detail,omitempty"`
	// Inserted lists (offset in the file before the mutation, number of bytes
	// inserted there) for the mutators that only insert text; nil for Rename and CRLF.
	Inserted [][2]int `json:"-"`
}

// ErrNoSite is returned when a mutator has no place to apply in the package.
var ErrNoSite = fmt.Errorf("srcmut: no applicable site")

// Eligible reports whether a file may be rewritten.
func Eligible(src []byte) bool {
	if bytes.Contains(src, []byte("//line ")) || bytes.Contains(src, []byte("/*line ")) {
		return false
	}
	if bytes.Contains(src, []byte("import \"C\"")) || bytes.Contains(src, []byte("\t\"C\"\n")) {
		return false
	}
	if bytes.IndexByte(src, '\r') >= 0 {
		return false
	}
	return true
}

func clone(files []File) []File {
	out := make([]File, len(files))
	copy(out, files)
	return out
}

func eligibleIdx(files []File) []int {
	var out []int
	for i, f := range files {
		if Eligible(f.Src) {
			out = append(out, i)
		}
	}
	return out
}

// Apply applies one mutation of the given kind. imp is used by the type-aware
// mutators (Paren, Rename); it may be nil for the others. The input is not
// modified.
func Apply(files []File, kind Kind, pick func(n int) int, imp types.Importer) ([]File, *Mutation, error) {
	return ApplyAt(files, kind, pick, imp, nil)
}

// Focus restricts the sites of the token-level and parenthesis mutators: a site
// is eligible if its byte range [start, end) in the named file is accepted. A
// mutator that finds no accepted site falls back to all sites.
type Focus func(file string, start, end int) bool

// ApplyAt is Apply with an optional focus.
func ApplyAt(files []File, kind Kind, pick func(n int) int, imp types.Importer, focus Focus) ([]File, *Mutation, error) {
	switch kind {
	case Comment, Newline, NewlineExpr, CommentExpr:
		return tokenMut(files, kind, pick, focus)
	case CRLF:
		el := eligibleIdx(files)
		if len(el) == 0 {
			return nil, nil, ErrNoSite
		}
		i := el[pick(len(el))]
		out := clone(files)
		out[i].Src = bytes.ReplaceAll(files[i].Src, []byte("\n"), []byte("\r\n"))
		return out, &Mutation{Kind: CRLF, File: files[i].Name}, nil
	case Shift:
		el := eligibleIdx(files)
		if len(el) == 0 {
			return nil, nil, ErrNoSite
		}
		i := el[pick(len(el))]
		prefixes := []string{"\n", "\n\n\n", "// shifted\n\n", "\n// shifted\n// twice\n\n"}
		p := prefixes[pick(len(prefixes))]
		out := clone(files)
		out[i].Src = append([]byte(p), files[i].Src...)
		return out, &Mutation{Kind: Shift, File: files[i].Name, Detail: fmt.Sprintf("%q", p), Inserted: [][2]int{{0, len(p)}}}, nil
	case Paren:
		return parenMut(files, pick, imp, focus)
	case Rename:
		return renameMut(files, pick, imp)
	}
	return nil, nil, fmt.Errorf("srcmut: unknown kind %q", kind)
}

// ---------------------------------------------------------------- token level

type site struct {
	file, off int
}

// noSemicolonAfter reports whether a line break may follow the token without
// the scanner inserting a semicolon (Go spec, "Semicolons", rule 1).
func noSemicolonAfter(tok token.Token) bool {
	switch tok {
	case token.IDENT, token.INT, token.FLOAT, token.IMAG, token.CHAR, token.STRING,
		token.BREAK, token.CONTINUE, token.FALLTHROUGH, token.RETURN,
		token.INC, token.DEC, token.RPAREN, token.RBRACK, token.RBRACE,
		token.EOF, token.COMMENT, token.ILLEGAL:
		return false
	}
	return true
}

func tokenSites(src []byte, kind Kind) []int {
	fset := token.NewFileSet()
	f := fset.AddFile("", fset.Base(), len(src))
	var s scanner.Scanner
	bad := false
	s.Init(f, src, func(token.Position, string) { bad = true }, 0)
	var out []int
	for {
		pos, tok, lit := s.Scan()
		if tok == token.EOF {
			break
		}
		if tok == token.SEMICOLON && lit != ";" {
			continue // inserted automatically
		}
		n := len(lit)
		if !tok.IsLiteral() && tok != token.SEMICOLON {
			n = len(tok.String())
		}
		end := f.Offset(pos) + n
		if (kind == Newline || kind == NewlineExpr) && !noSemicolonAfter(tok) {
			continue
		}
		out = append(out, end)
	}
	if bad {
		return nil
	}
	return out
}

func tokenMut(files []File, kind Kind, pick func(n int) int, focus Focus) ([]File, *Mutation, error) {
	el := eligibleIdx(files)
	if len(el) == 0 {
		return nil, nil, ErrNoSite
	}
	// choose the file first (uniformly), then the site: cheap, and the draw stays small
	start := pick(len(el))
	for k := 0; k < len(el); k++ {
		i := el[(start+k)%len(el)]
		sites := tokenSites(files[i].Src, kind)
		if focus != nil {
			var in []int
			for _, o := range sites {
				if focus(files[i].Name, o, o) {
					in = append(in, o)
				}
			}
			if len(in) > 0 {
				sites = in
			}
		}
		if len(sites) == 0 {
			continue
		}
		at := pick(len(sites))
		off := sites[at]
		if kind == NewlineExpr || kind == CommentExpr {
			inside := insideExpr(files[i].Name, files[i].Src)
			found := false
			for d := 0; d < len(sites) && inside != nil; d++ {
				if o := sites[(at+d)%len(sites)]; inside(o) {
					off, found = o, true
					break
				}
			}
			if !found {
				continue
			}
		}
		ins := "/*c*/"
		if off > 0 && files[i].Src[off-1] == '/' {
			ins = " /*c*/" // "x //*c*/ y" would start a line comment
		}
		if kind == Newline || kind == NewlineExpr {
			ins = "\n"
		}
		out := clone(files)
		out[i].Src = splice(files[i].Src, []edit{{off, off, ins}})
		return out, &Mutation{Kind: kind, File: files[i].Name, Offset: off, Inserted: [][2]int{{off, len(ins)}}}, nil
	}
	return nil, nil, ErrNoSite
}

// insideExpr returns a predicate telling whether the innermost syntax node
// that has tokens on both sides of a byte offset is an expression.
func insideExpr(name string, src []byte) func(off int) bool {
	fset := token.NewFileSet()
	f, err := parser.ParseFile(fset, name, src, parser.SkipObjectResolution)
	if err != nil {
		return nil
	}
	tf := fset.File(f.Pos())
	return func(off int) bool {
		var deepest ast.Node
		ast.Inspect(f, func(n ast.Node) bool {
			if n == nil {
				return false
			}
			if tf.Offset(n.Pos()) < off && off < tf.Offset(n.End()) {
				deepest = n
				return true
			}
			return false
		})
		_, ok := deepest.(ast.Expr)
		return ok
	}
}

type edit struct {
	start, end int
	text       string
}

func splice(src []byte, edits []edit) []byte {
	sort.SliceStable(edits, func(i, j int) bool { return edits[i].start < edits[j].start })
	var out []byte
	last := 0
	for _, e := range edits {
		out = append(out, src[last:e.start]...)
		out = append(out, e.text...)
		last = e.end
	}
	out = append(out, src[last:]...)
	return out
}

// ---------------------------------------------------------------- type aware

type checked struct {
	fset  *token.FileSet
	files []*ast.File // parallel to the input; nil for files that were not parsed
	info  *types.Info
	pkg   *types.Package
}

// Check parses and type-checks the files as one package. It fails when the
// package has any error: the type-aware mutators rely on complete information.
func Check(files []File, imp types.Importer) (*checked, error) {
	c := &checked{fset: token.NewFileSet()}
	var asts []*ast.File
	for _, f := range files {
		af, err := parser.ParseFile(c.fset, f.Name, f.Src, parser.ParseComments|parser.SkipObjectResolution)
		if err != nil {
			return nil, err
		}
		c.files = append(c.files, af)
		asts = append(asts, af)
	}
	if len(asts) == 0 {
		return nil, ErrNoSite
	}
	c.info = &types.Info{
		Types:     map[ast.Expr]types.TypeAndValue{},
		Defs:      map[*ast.Ident]types.Object{},
		Uses:      map[*ast.Ident]types.Object{},
		Implicits: map[ast.Node]types.Object{},
		Instances: map[*ast.Ident]types.Instance{},
	}
	conf := types.Config{Importer: imp}
	pkg, err := conf.Check(asts[0].Name.Name, c.fset, asts, c.info)
	if err != nil {
		return nil, err
	}
	c.pkg = pkg
	return c, nil
}

func (c *checked) offset(p token.Pos) int { return c.fset.Position(p).Offset }

func parenMut(files []File, pick func(n int) int, imp types.Importer, focus Focus) ([]File, *Mutation, error) {
	c, err := Check(files, imp)
	if err != nil {
		return nil, nil, err
	}
	type cand struct {
		file int
		e    ast.Expr
	}
	var cands []cand
	for i, af := range c.files {
		if !Eligible(files[i].Src) {
			continue
		}
		for _, e := range parenSites(c, af) {
			cands = append(cands, cand{i, e})
		}
	}
	if len(cands) == 0 {
		return nil, nil, ErrNoSite
	}
	if focus != nil {
		var in []cand
		for _, k := range cands {
			if focus(files[k.file].Name, c.offset(k.e.Pos()), c.offset(k.e.End())) {
				in = append(in, k)
			}
		}
		if len(in) > 0 {
			cands = in
		}
	}
	k := cands[pick(len(cands))]
	s, e := c.offset(k.e.Pos()), c.offset(k.e.End())
	out := clone(files)
	out[k.file].Src = splice(files[k.file].Src, []edit{{s, s, "("}, {e, e, ")"}})
	return out, &Mutation{Kind: Paren, File: files[k.file].Name, Offset: s, Detail: types.ExprString(k.e), Inserted: [][2]int{{s, 1}, {e, 1}}}, nil
}

func isGenericFunc(c *checked, e ast.Expr) bool {
	switch x := ast.Unparen(e).(type) {
	case *ast.Ident:
		if _, ok := c.info.Instances[x]; ok {
			return true
		}
		if fn, ok := c.info.Uses[x].(*types.Func); ok {
			if sig, ok := fn.Type().(*types.Signature); ok && sig.TypeParams().Len() > 0 {
				return true
			}
		}
	case *ast.SelectorExpr:
		return isGenericFunc(c, x.Sel)
	case *ast.IndexExpr:
		return isGenericFunc(c, x.X)
	case *ast.IndexListExpr:
		return isGenericFunc(c, x.X)
	}
	return false
}

// parenSites lists the expressions of a file that can be parenthesised without
// changing the program.
func parenSites(c *checked, af *ast.File) []ast.Expr {
	var out []ast.Expr
	var stack []ast.Node
	ast.Inspect(af, func(n ast.Node) bool {
		if n == nil {
			stack = stack[:len(stack)-1]
			return true
		}
		var parent, grand ast.Node
		if len(stack) > 0 {
			parent = stack[len(stack)-1]
		}
		if len(stack) > 1 {
			grand = stack[len(stack)-2]
		}
		stack = append(stack, n)
		switch n.(type) {
		case *ast.Field, *ast.ImportSpec, *ast.TypeSpec:
			// types, tags, import paths: nothing to parenthesise below (func types
			// and struct types inside a TypeSpec contain no value expressions
			// except array lengths, which we leave alone)
			stack = stack[:len(stack)-1]
			return false
		}
		e, ok := n.(ast.Expr)
		if !ok {
			return true
		}
		if okSite(c, e, parent, grand) {
			out = append(out, e)
		}
		return true
	})
	return out
}

func okSite(c *checked, e ast.Expr, parent, grand ast.Node) bool {
	tv, ok := c.info.Types[e]
	if !ok || !tv.IsValue() || tv.Type == nil {
		return false
	}
	if _, isTuple := tv.Type.(*types.Tuple); isTuple {
		return false
	}
	switch x := e.(type) {
	case *ast.CompositeLit:
		if x.Type == nil {
			return false // element of a literal with elided type
		}
	case *ast.TypeAssertExpr:
		if x.Type == nil {
			return false // x.(type)
		}
	case *ast.KeyValueExpr, *ast.Ellipsis:
		return false
	case *ast.Ident:
		if x.Name == "_" {
			return false
		}
	}
	if isGenericFunc(c, e) {
		return false // (f)[int], (f)(x) with inference: keep instantiation syntax untouched
	}
	switch p := parent.(type) {
	case nil:
		return false
	case *ast.AssignStmt:
		for _, l := range p.Lhs {
			if l == e {
				return false
			}
		}
		if len(p.Lhs) != len(p.Rhs) {
			return false
		}
	case *ast.ValueSpec:
		if e == p.Type {
			return false
		}
		if len(p.Names) != len(p.Values) {
			return false
		}
	case *ast.RangeStmt:
		if e == p.Key || e == p.Value {
			return false
		}
	case *ast.IncDecStmt, *ast.ExprStmt, *ast.GoStmt, *ast.DeferStmt, *ast.LabeledStmt, *ast.BranchStmt:
		return false
	case *ast.CallExpr:
		if e == p.Fun {
			switch grand.(type) {
			case *ast.GoStmt, *ast.DeferStmt:
				return false
			}
		}
	case *ast.CaseClause:
		if _, ok := grand.(*ast.BlockStmt); ok {
			// cannot tell expression switch from type switch here; the Types entry
			// did: in a type switch the case elements are types (or nil)
			if tv.IsNil() {
				return false
			}
		}
	case *ast.KeyValueExpr:
		if e == p.Key {
			// struct field names have no Types entry; map/array keys do
			if _, ok := e.(*ast.Ident); ok {
				return false
			}
		}
	case *ast.SelectorExpr:
		if e == p.Sel {
			return false
		}
	case *ast.ArrayType, *ast.MapType, *ast.ChanType, *ast.FuncType, *ast.StructType, *ast.InterfaceType:
		return false
	case *ast.TypeSwitchStmt:
		return false
	}
	return true
}

func renameMut(files []File, pick func(n int) int, imp types.Importer) ([]File, *Mutation, error) {
	c, err := Check(files, imp)
	if err != nil {
		return nil, nil, err
	}
	used := map[string]bool{}
	for _, af := range c.files {
		ast.Inspect(af, func(n ast.Node) bool {
			if id, ok := n.(*ast.Ident); ok {
				used[id.Name] = true
			}
			return true
		})
	}
	for _, n := range types.Universe.Names() {
		used[n] = true
	}
	type cand struct {
		file int
		spec *ast.ImportSpec
		obj  *types.PkgName
	}
	var cands []cand
	for i, af := range c.files {
		if !Eligible(files[i].Src) {
			continue
		}
		for _, spec := range af.Imports {
			if spec.Path.Value == `"C"` || spec.Path.Value == `"unsafe"` {
				continue
			}
			var obj *types.PkgName
			if spec.Name != nil {
				if spec.Name.Name == "_" || spec.Name.Name == "." {
					continue
				}
				obj, _ = c.info.Defs[spec.Name].(*types.PkgName)
			} else {
				obj, _ = c.info.Implicits[spec].(*types.PkgName)
			}
			if obj != nil {
				cands = append(cands, cand{i, spec, obj})
			}
		}
	}
	if len(cands) == 0 {
		return nil, nil, ErrNoSite
	}
	k := cands[pick(len(cands))]
	name := k.obj.Name() + "_r"
	if pick(2) == 1 {
		name = "r" + strings.ToUpper(k.obj.Name()[:1]) + k.obj.Name()[1:]
	}
	for used[name] {
		name += "x"
	}
	var edits []edit
	if k.spec.Name != nil {
		edits = append(edits, edit{c.offset(k.spec.Name.Pos()), c.offset(k.spec.Name.End()), name})
	} else {
		o := c.offset(k.spec.Path.Pos())
		edits = append(edits, edit{o, o, name + " "})
	}
	ast.Inspect(c.files[k.file], func(n ast.Node) bool {
		if id, ok := n.(*ast.Ident); ok && c.info.Uses[id] == types.Object(k.obj) {
			edits = append(edits, edit{c.offset(id.Pos()), c.offset(id.End()), name})
		}
		return true
	})
	out := clone(files)
	out[k.file].Src = splice(files[k.file].Src, edits)
	return out, &Mutation{Kind: Rename, File: files[k.file].Name, Offset: c.offset(k.spec.Pos()), Detail: k.spec.Path.Value + " as " + name}, nil
}

// ---------------------------------------------------------------- fingerprint

// Fingerprint summarises what the type checker computed for a package in a way
// that is invariant under the mutators: the package-level objects with their
// types, and the multiset of (type, constant value) over all expressions that
// are not parenthesised expressions. Two packages with equal fingerprints
// "type-check identically" for the purposes of this package.
func Fingerprint(files []File, imp types.Importer) (string, error) {
	c, err := Check(files, imp)
	if err != nil {
		return "", err
	}
	qual := func(p *types.Package) string { return p.Path() }
	var lines []string
	scope := c.pkg.Scope()
	for _, n := range scope.Names() {
		lines = append(lines, "obj "+types.ObjectString(scope.Lookup(n), qual))
	}
	counts := map[string]int{}
	for e, tv := range c.info.Types {
		if _, ok := e.(*ast.ParenExpr); ok {
			continue
		}
		s := fmt.Sprintf("%T ", e)
		if tv.Type != nil {
			s += types.TypeString(tv.Type, qual)
		}
		if tv.Value != nil {
			s += " = " + tv.Value.ExactString()
		}
		counts[s]++
	}
	for s, n := range counts {
		lines = append(lines, fmt.Sprintf("expr %s x%d", s, n))
	}
	lines = append(lines, fmt.Sprintf("uses %d", len(c.info.Uses)))
	sort.Strings(lines)
	return strings.Join(lines, "\n"), nil
}
