// Package irvalid is an independent well-formedness checker for go/ir
// function bodies. It uses only the exported API of go/ir and shares no code
// with go/ir/sanity.go: its own reachability, its own dominators (iterative
// bit-set intersection, two roots), its own operand/referrer accounting, and
// typing rules transcribed from the instruction documentation in ssa.go.
package irvalid

import (
	"fmt"
	"go/token"
	"go/types"
	"strings"

	"honnef.co/go/tools/go/ir"
)

type Problem struct {
	Fn     string
	Clause string // a: terminators, b: cfg, c: phis, d: dominance, e: referrers, f: locals/ids, g: typing
	Msg    string
}

func (p Problem) String() string { return fmt.Sprintf("[%s] %s: %s", p.Clause, p.Fn, p.Msg) }

type Stats struct {
	Functions                   int
	Blocks                      int
	Instrs                      int
	Phis                        int
	UsesChecked                 int
	RecoverRelaxed              int // uses in recover-rooted blocks that refer to entry-block values
	UnreachableBlks             int
	TypeRules                   int // typing rule applications
	TypeSkippedGen              int // functions whose strict typing clauses were skipped (free type parameters)
	IfSameTarget                int
	ReferrerMultiplicityDiffers int
	SwitchCondAssignable        int
	StaleLocals                 int
	DuplicateEdges              int
	InstrKinds                  map[string]int
}

type checker struct {
	fn    *ir.Function
	st    *Stats
	probs []Problem
}

func (c *checker) errf(clause, format string, a ...any) {
	if len(c.probs) < 40 {
		c.probs = append(c.probs, Problem{Fn: c.fn.String(), Clause: clause, Msg: fmt.Sprintf(format, a...)})
	}
}

func name(v ir.Value) string {
	if v == nil {
		return "<nil>"
	}
	return fmt.Sprintf("%s(%T)", v.Name(), v)
}

type bitset []uint64

func newBitset(n int) bitset { return make(bitset, (n+63)/64) }
func (b bitset) set(i int)   { b[i/64] |= 1 << (i % 64) }
func (b bitset) has(i int) bool {
	return b[i/64]&(1<<(i%64)) != 0
}
func (b bitset) fill(n int) {
	for i := 0; i < n; i++ {
		b.set(i)
	}
}

// Check validates one function body. Functions without blocks are ignored.
func Check(fn *ir.Function, st *Stats) []Problem {
	if len(fn.Blocks) == 0 {
		return nil
	}
	if st.InstrKinds == nil {
		st.InstrKinds = map[string]int{}
	}
	c := &checker{fn: fn, st: st}
	st.Functions++
	c.run()
	return c.probs
}

func isTerminator(i ir.Instruction) bool {
	switch i.(type) {
	case *ir.Jump, *ir.If, *ir.Return, *ir.Panic, *ir.Unreachable, *ir.ConstantSwitch:
		return true
	}
	return false
}

func (c *checker) run() {
	fn := c.fn
	n := len(fn.Blocks)
	c.st.Blocks += n
	blockIdx := map[*ir.BasicBlock]int{}
	for i, b := range fn.Blocks {
		if b == nil {
			c.errf("b", "nil block at index %d", i)
			return
		}
		if b.Index != i {
			c.errf("b", "block at position %d has Index %d", i, b.Index)
		}
		if b.Parent() != fn {
			c.errf("b", "block %d has parent %v", i, b.Parent())
		}
		blockIdx[b] = i
	}
	if fn.Recover != nil {
		if _, ok := blockIdx[fn.Recover]; !ok {
			c.errf("b", "Recover block is not in Blocks")
			return
		}
	}

	// (a) terminators, (b) CFG edges
	for i, b := range fn.Blocks {
		if len(b.Instrs) == 0 {
			c.errf("a", "block %d is empty", i)
			continue
		}
		for j, instr := range b.Instrs {
			if instr == nil {
				c.errf("a", "block %d: nil instruction at %d", i, j)
				continue
			}
			c.st.Instrs++
			c.st.InstrKinds[strings.TrimPrefix(fmt.Sprintf("%T", instr), "*ir.")]++
			if isTerminator(instr) != (j == len(b.Instrs)-1) {
				if isTerminator(instr) {
					c.errf("a", "block %d: terminator %T at position %d of %d", i, instr, j, len(b.Instrs))
				} else {
					c.errf("a", "block %d ends in non-terminator %T", i, instr)
				}
			}
			if instr.Block() != b {
				c.errf("a", "block %d: instruction %v claims block %v", i, instr, instr.Block())
			}
			if instr.Parent() != fn {
				c.errf("a", "block %d: instruction %v claims parent %v", i, instr, instr.Parent())
			}
		}
		last := b.Instrs[len(b.Instrs)-1]
		want := -1
		switch t := last.(type) {
		case *ir.Jump:
			want = 1
		case *ir.If:
			want = 2
			if len(b.Succs) == 2 && b.Succs[0] == b.Succs[1] {
				c.st.IfSameTarget++ // not claimed by the property: counted only
			}
		case *ir.Return, *ir.Panic, *ir.Unreachable:
			want = 0
		case *ir.ConstantSwitch:
			want = len(t.Conds)
		}
		if want >= 0 && len(b.Succs) != want {
			c.errf("a", "block %d: terminator %T needs %d successors, block has %d", i, last, want, len(b.Succs))
		}
		for _, s := range b.Succs {
			if _, ok := blockIdx[s]; !ok {
				c.errf("b", "block %d: successor not in function", i)
			}
		}
		for _, p := range b.Preds {
			if _, ok := blockIdx[p]; !ok {
				c.errf("b", "block %d: predecessor not in function", i)
			}
		}
	}
	if len(c.probs) > 0 {
		return // later clauses assume a sane block structure
	}
	// Preds/Succs are mutual inverses as multisets; no duplicate edges except
	// those a ConstantSwitch legitimately has (several conditions, same target).
	type edge struct{ from, to int }
	succCount := map[edge]int{}
	predCount := map[edge]int{}
	for i, b := range fn.Blocks {
		for _, s := range b.Succs {
			succCount[edge{i, blockIdx[s]}]++
		}
		for _, p := range b.Preds {
			predCount[edge{blockIdx[p], i}]++
		}
	}
	for e, k := range succCount {
		if predCount[e] != k {
			c.errf("b", "edge %d->%d: %d times in Succs, %d times in Preds", e.from, e.to, k, predCount[e])
		}
		if k > 1 {
			c.st.DuplicateEdges++ // legitimate for ConstantSwitch; counted only
		}
	}
	for e, k := range predCount {
		if succCount[e] != k {
			c.errf("b", "edge %d->%d: %d times in Preds, %d times in Succs", e.from, e.to, k, succCount[e])
		}
	}

	// reachability and dominators (own computation)
	reach := func(root int) bitset {
		seen := newBitset(n)
		stack := []int{root}
		seen.set(root)
		for len(stack) > 0 {
			b := stack[len(stack)-1]
			stack = stack[:len(stack)-1]
			for _, s := range fn.Blocks[b].Succs {
				if si := blockIdx[s]; !seen.has(si) {
					seen.set(si)
					stack = append(stack, si)
				}
			}
		}
		return seen
	}
	fromEntry := reach(0)
	fromRec := newBitset(n)
	recIdx := -1
	if fn.Recover != nil {
		recIdx = blockIdx[fn.Recover]
		fromRec = reach(recIdx)
	}
	// root of each block: 0 entry, 1 recover, -1 unreachable
	root := make([]int, n)
	for i := range root {
		switch {
		case fromEntry.has(i):
			root[i] = 0
		case fromRec.has(i):
			root[i] = 1
		default:
			root[i] = -1
			c.st.UnreachableBlks++
		}
	}
	dom := make([]bitset, n) // dom[b] = set of blocks dominating b
	for i := range dom {
		dom[i] = newBitset(n)
		if i == 0 || (i == recIdx && root[i] == 1) {
			dom[i].set(i)
		} else {
			dom[i].fill(n)
		}
	}
	for changed := true; changed; {
		changed = false
		for i, b := range fn.Blocks {
			if root[i] == -1 || i == 0 || (i == recIdx && root[i] == 1) {
				continue
			}
			nw := newBitset(n)
			nw.fill(n)
			any := false
			for _, p := range b.Preds {
				pi := blockIdx[p]
				if root[pi] != root[i] {
					continue // predecessor not reachable from this root
				}
				any = true
				for w := range nw {
					nw[w] &= dom[pi][w]
				}
			}
			if !any {
				nw = newBitset(n)
			}
			nw.set(i)
			for w := range nw {
				if nw[w] != dom[i][w] {
					dom[i] = nw
					changed = true
					break
				}
			}
		}
	}

	// positions of instructions
	type pos struct{ blk, idx int }
	where := map[ir.Instruction]pos{}
	for i, b := range fn.Blocks {
		for j, instr := range b.Instrs {
			if _, dup := where[instr]; dup {
				c.errf("f", "instruction %v appears twice in the function", instr)
			}
			where[instr] = pos{i, j}
		}
	}

	// (c) phis
	for i, b := range fn.Blocks {
		seenNonPhi := false
		for _, instr := range b.Instrs {
			phi, ok := instr.(*ir.Phi)
			if !ok {
				seenNonPhi = true
				continue
			}
			c.st.Phis++
			if seenNonPhi {
				c.errf("c", "block %d: phi %s after a non-phi instruction", i, phi.Name())
			}
			if len(phi.Edges) != len(b.Preds) {
				c.errf("c", "block %d: phi %s has %d edges for %d predecessors", i, phi.Name(), len(phi.Edges), len(b.Preds))
			}
			for k, e := range phi.Edges {
				if e == nil {
					c.errf("c", "block %d: phi %s has nil edge %d", i, phi.Name(), k)
				}
			}
		}
	}

	// (d) def dominates use, (e) operands/referrers
	params := map[ir.Value]bool{}
	for _, p := range fn.Params {
		params[p] = true
	}
	for _, fv := range fn.FreeVars {
		params[fv] = true
	}
	var ops []*ir.Value
	for i, b := range fn.Blocks {
		for j, instr := range b.Instrs {
			ops = instr.Operands(ops[:0])
			counts := map[ir.Value]int{}
			for k, op := range ops {
				if op == nil || *op == nil {
					continue
				}
				v := *op
				counts[v]++
				switch v := v.(type) {
				case *ir.Parameter, *ir.FreeVar:
					if !params[v] {
						c.errf("d", "block %d: %v uses %s which belongs to function %v", i, instr, name(v), v.Parent())
					}
				case ir.Instruction:
					c.st.UsesChecked++
					dp, ok := where[v]
					if !ok {
						c.errf("d", "block %d: operand %d of %q is %s, an instruction that is not in the function body (block=%v)", i, k, instr.String(), name(v.(ir.Value)), v.Block())
						continue
					}
					if root[i] == -1 {
						continue // use in an unreachable block: dominance is vacuous
					}
					if phi, isPhi := instr.(*ir.Phi); isPhi {
						if k >= len(b.Preds) {
							continue
						}
						pi := blockIdx[b.Preds[k]]
						if root[pi] == -1 {
							continue
						}
						if !(dp.blk == pi || dom[pi].has(dp.blk)) {
							c.errf("d", "block %d: phi %s edge %d (from block %d) is %s defined in block %d, which does not dominate the end of that predecessor", i, phi.Name(), k, pi, name(v.(ir.Value)), dp.blk)
						}
						continue
					}
					if dp.blk == i {
						if dp.idx >= j {
							c.errf("d", "block %d: %q uses %s before its definition in the same block", i, instr.String(), name(v.(ir.Value)))
						}
						continue
					}
					if !dom[i].has(dp.blk) {
						if root[i] == 1 && dp.blk == 0 {
							// documented relaxation: the recover block runs after the entry block
							c.st.RecoverRelaxed++
							continue
						}
						c.errf("d", "block %d: %q uses %s defined in block %d, which does not dominate block %d", i, instr.String(), name(v.(ir.Value)), dp.blk, i)
					}
				}
			}
			// every operand with a referrer list must list this instruction with multiplicity
			for v, want := range counts {
				refs := v.Referrers()
				if refs == nil {
					continue
				}
				got := 0
				for _, r := range *refs {
					if r == instr {
						got++
					}
				}
				// ssa.go: Referrers "may contain duplicates if an instruction has a repeated
				// operand": the relation is an inverse as a set; multiplicities are only counted
				if got == 0 {
					c.errf("e", "block %d: %q uses %s but is not listed in its referrers", i, instr.String(), name(v))
				} else if got != want {
					c.st.ReferrerMultiplicityDiffers++
				}
			}
		}
	}
	checkRefs := func(v ir.Value) {
		refs := v.Referrers()
		if refs == nil {
			return
		}
		for _, r := range *refs {
			if r == nil {
				c.errf("e", "%s has a nil referrer", name(v))
				continue
			}
			if _, ok := where[r]; !ok {
				c.errf("e", "%s lists referrer %q which is not in the function body", name(v), r.String())
				continue
			}
			found := false
			for _, op := range r.Operands(nil) {
				if op != nil && *op == v {
					found = true
				}
			}
			if !found {
				c.errf("e", "%s lists referrer %q which does not use it", name(v), r.String())
			}
		}
	}
	for _, p := range fn.Params {
		checkRefs(p)
	}
	for _, fv := range fn.FreeVars {
		checkRefs(fv)
	}
	ids := map[ir.ID]ir.Instruction{}
	localsSeen := map[*ir.Alloc]bool{}
	for _, b := range fn.Blocks {
		for _, instr := range b.Instrs {
			if v, ok := instr.(ir.Value); ok {
				checkRefs(v)
			}
			if other, dup := ids[instr.ID()]; dup {
				c.errf("f", "instructions %q and %q share ID %d", other.String(), instr.String(), instr.ID())
			}
			ids[instr.ID()] = instr
			if a, ok := instr.(*ir.Alloc); ok && !a.Heap {
				localsSeen[a] = true
			}
		}
	}
	// (f) Locals = non-heap allocs present in the body
	inLocals := map[*ir.Alloc]bool{}
	for _, l := range fn.Locals {
		inLocals[l] = true
		if !localsSeen[l] {
			// only "a local alloc must be present in Locals" is documented;
			// stale entries (allocs of removed blocks) are counted, not reported
			c.st.StaleLocals++
		}
	}
	for a := range localsSeen {
		if !inLocals[a] {
			c.errf("f", "local alloc %s is missing from Locals", name(a))
		}
	}

	// (g) typing
	if hasFreeTypeParams(fn) {
		c.st.TypeSkippedGen++
		return
	}
	for i, b := range fn.Blocks {
		for _, instr := range b.Instrs {
			c.typing(i, instr)
		}
	}
}

func hasFreeTypeParams(fn *ir.Function) bool {
	for f := fn; f != nil; f = f.Parent() {
		if f.TypeParams() != nil && f.TypeParams().Len() > 0 && len(f.TypeArgs()) == 0 {
			return true
		}
		if sig := f.Signature; sig != nil {
			if mentionsTypeParam(sig, map[types.Type]bool{}) {
				return true
			}
		}
	}
	// a body may still mention type parameters (methods of generic types)
	for _, b := range fn.Blocks {
		for _, instr := range b.Instrs {
			if v, ok := instr.(ir.Value); ok && v.Type() != nil && mentionsTypeParam(v.Type(), map[types.Type]bool{}) {
				return true
			}
		}
	}
	return false
}

func mentionsTypeParam(t types.Type, seen map[types.Type]bool) bool {
	if t == nil || seen[t] {
		return false
	}
	seen[t] = true
	switch t := t.(type) {
	case *types.TypeParam:
		return true
	case *types.Named:
		for i := 0; i < t.TypeArgs().Len(); i++ {
			if mentionsTypeParam(t.TypeArgs().At(i), seen) {
				return true
			}
		}
		if t.TypeParams().Len() > 0 && t.TypeArgs().Len() == 0 {
			return true
		}
		return false
	case *types.Alias:
		return mentionsTypeParam(types.Unalias(t), seen)
	case *types.Pointer:
		return mentionsTypeParam(t.Elem(), seen)
	case *types.Slice:
		return mentionsTypeParam(t.Elem(), seen)
	case *types.Array:
		return mentionsTypeParam(t.Elem(), seen)
	case *types.Chan:
		return mentionsTypeParam(t.Elem(), seen)
	case *types.Map:
		return mentionsTypeParam(t.Key(), seen) || mentionsTypeParam(t.Elem(), seen)
	case *types.Struct:
		for i := 0; i < t.NumFields(); i++ {
			if mentionsTypeParam(t.Field(i).Type(), seen) {
				return true
			}
		}
	case *types.Tuple:
		for i := 0; i < t.Len(); i++ {
			if mentionsTypeParam(t.At(i).Type(), seen) {
				return true
			}
		}
	case *types.Signature:
		if t.Recv() != nil && mentionsTypeParam(t.Recv().Type(), seen) {
			return true
		}
		return mentionsTypeParam(t.Params(), seen) || mentionsTypeParam(t.Results(), seen)
	case *types.Interface:
		for i := 0; i < t.NumMethods(); i++ {
			if mentionsTypeParam(t.Method(i).Type(), seen) {
				return true
			}
		}
	}
	return false
}

func ident(a, b types.Type) bool { return types.Identical(a, b) }

func isInteger(t types.Type) bool {
	b, ok := t.Underlying().(*types.Basic)
	return ok && b.Info()&types.IsInteger != 0
}

func isBoolean(t types.Type) bool {
	b, ok := t.Underlying().(*types.Basic)
	return ok && b.Info()&types.IsBoolean != 0
}

func (c *checker) typing(bi int, instr ir.Instruction) {
	terr := func(format string, a ...any) {
		c.errf("g", "block %d: %q: %s", bi, instr.String(), fmt.Sprintf(format, a...))
	}
	c.st.TypeRules++
	if v, ok := instr.(ir.Value); ok && v.Type() == nil {
		terr("value without a type")
		return
	}
	switch x := instr.(type) {
	case *ir.Alloc:
		if _, ok := x.Type().Underlying().(*types.Pointer); !ok {
			terr("Alloc type %s is not a pointer", x.Type())
		}
	case *ir.Load:
		p, ok := x.X.Type().Underlying().(*types.Pointer)
		if !ok {
			terr("Load from non-pointer %s", x.X.Type())
		} else if !ident(p.Elem(), x.Type()) {
			terr("Load yields %s from pointer to %s", x.Type(), p.Elem())
		}
	case *ir.Store:
		p, ok := x.Addr.Type().Underlying().(*types.Pointer)
		if !ok {
			terr("Store to non-pointer %s", x.Addr.Type())
		} else if !ident(p.Elem(), x.Val.Type()) {
			terr("Store of %s into pointer to %s", x.Val.Type(), p.Elem())
		}
	case *ir.Phi:
		for k, e := range x.Edges {
			if e != nil && !ident(e.Type(), x.Type()) {
				terr("edge %d has type %s, phi has type %s", k, e.Type(), x.Type())
			}
		}
	case *ir.BinOp:
		switch x.Op {
		case token.SHL, token.SHR:
			if !ident(x.X.Type(), x.Type()) {
				terr("shift result %s differs from operand %s", x.Type(), x.X.Type())
			}
			if !isInteger(x.Y.Type()) {
				terr("shift count of type %s", x.Y.Type())
			}
		case token.EQL, token.NEQ, token.LSS, token.LEQ, token.GTR, token.GEQ:
			if !isBoolean(x.Type()) {
				terr("comparison yields %s", x.Type())
			}
			// the documentation does not demand identical operand types; Go
			// compares operands when one is assignable to the other
			if !ident(x.X.Type(), x.Y.Type()) && !types.AssignableTo(x.X.Type(), x.Y.Type()) && !types.AssignableTo(x.Y.Type(), x.X.Type()) {
				terr("comparison of %s with %s", x.X.Type(), x.Y.Type())
			}
		default:
			if !ident(x.X.Type(), x.Type()) || !ident(x.Y.Type(), x.Type()) {
				terr("operands %s, %s, result %s", x.X.Type(), x.Y.Type(), x.Type())
			}
		}
	case *ir.UnOp:
		if !ident(x.X.Type(), x.Type()) {
			terr("operand %s, result %s", x.X.Type(), x.Type())
		}
	case *ir.If:
		if !isBoolean(x.Cond.Type()) {
			terr("condition of type %s", x.Cond.Type())
		}
	case *ir.FieldAddr:
		p, ok := x.X.Type().Underlying().(*types.Pointer)
		if !ok {
			terr("FieldAddr of non-pointer %s", x.X.Type())
			break
		}
		s, ok := p.Elem().Underlying().(*types.Struct)
		if !ok {
			terr("FieldAddr of pointer to non-struct %s", p.Elem())
			break
		}
		if x.Field < 0 || x.Field >= s.NumFields() {
			terr("field index %d out of range", x.Field)
			break
		}
		rp, ok := x.Type().Underlying().(*types.Pointer)
		if !ok || !ident(rp.Elem(), s.Field(x.Field).Type()) {
			terr("result %s, field type %s", x.Type(), s.Field(x.Field).Type())
		}
	case *ir.Field:
		s, ok := x.X.Type().Underlying().(*types.Struct)
		if !ok {
			terr("Field of non-struct %s", x.X.Type())
			break
		}
		if x.Field < 0 || x.Field >= s.NumFields() {
			terr("field index %d out of range", x.Field)
			break
		}
		if !ident(x.Type(), s.Field(x.Field).Type()) {
			terr("result %s, field type %s", x.Type(), s.Field(x.Field).Type())
		}
	case *ir.IndexAddr:
		var elem types.Type
		switch t := x.X.Type().Underlying().(type) {
		case *types.Slice:
			elem = t.Elem()
		case *types.Pointer:
			if a, ok := t.Elem().Underlying().(*types.Array); ok {
				elem = a.Elem()
			}
		}
		if elem == nil {
			terr("IndexAddr of %s", x.X.Type())
			break
		}
		rp, ok := x.Type().Underlying().(*types.Pointer)
		if !ok || !ident(rp.Elem(), elem) {
			terr("result %s, element type %s", x.Type(), elem)
		}
		if !isInteger(x.Index.Type()) {
			terr("index of type %s", x.Index.Type())
		}
	case *ir.Index:
		if a, ok := x.X.Type().Underlying().(*types.Array); ok {
			if !ident(a.Elem(), x.Type()) {
				terr("result %s, element type %s", x.Type(), a.Elem())
			}
		}
		if !isInteger(x.Index.Type()) {
			terr("index of type %s", x.Index.Type())
		}
	case *ir.MapLookup:
		m, ok := x.X.Type().Underlying().(*types.Map)
		if !ok {
			terr("MapLookup on %s", x.X.Type())
			break
		}
		if !ident(m.Key(), x.Index.Type()) {
			terr("key of type %s for map key type %s", x.Index.Type(), m.Key())
		}
		if x.CommaOk {
			tup, ok := x.Type().(*types.Tuple)
			if !ok || tup.Len() != 2 || !ident(tup.At(0).Type(), m.Elem()) || !isBoolean(tup.At(1).Type()) {
				terr("comma-ok result %s", x.Type())
			}
		} else if !ident(x.Type(), m.Elem()) {
			terr("result %s, element type %s", x.Type(), m.Elem())
		}
	case *ir.MapUpdate:
		m, ok := x.Map.Type().Underlying().(*types.Map)
		if !ok {
			terr("MapUpdate on %s", x.Map.Type())
			break
		}
		if !ident(m.Key(), x.Key.Type()) {
			terr("key of type %s for map key type %s", x.Key.Type(), m.Key())
		}
		if !ident(m.Elem(), x.Value.Type()) {
			terr("value of type %s for map element type %s", x.Value.Type(), m.Elem())
		}
	case *ir.Slice:
		switch t := x.X.Type().Underlying().(type) {
		case *types.Basic:
			if t.Info()&types.IsString == 0 {
				terr("Slice of %s", x.X.Type())
			} else if b, ok := x.Type().Underlying().(*types.Basic); !ok || b.Info()&types.IsString == 0 {
				terr("slicing a string yields %s", x.Type())
			}
		case *types.Slice:
			if s, ok := x.Type().Underlying().(*types.Slice); !ok || !ident(s.Elem(), t.Elem()) {
				terr("slicing %s yields %s", x.X.Type(), x.Type())
			}
		case *types.Pointer:
			a, ok := t.Elem().Underlying().(*types.Array)
			if !ok {
				terr("Slice of %s", x.X.Type())
			} else if s, ok := x.Type().Underlying().(*types.Slice); !ok || !ident(s.Elem(), a.Elem()) {
				terr("slicing %s yields %s", x.X.Type(), x.Type())
			}
		default:
			terr("Slice of %s", x.X.Type())
		}
		for _, b := range []ir.Value{x.Low, x.High, x.Max} {
			if b != nil && !isInteger(b.Type()) {
				terr("bound of type %s", b.Type())
			}
		}
	case *ir.MakeInterface:
		if types.IsInterface(x.X.Type()) {
			terr("operand %s is already an interface", x.X.Type())
		}
		if !types.IsInterface(x.Type()) {
			terr("result %s is not an interface", x.Type())
		} else if it, ok := x.Type().Underlying().(*types.Interface); ok && !types.Implements(x.X.Type(), it) {
			terr("%s does not implement %s", x.X.Type(), x.Type())
		}
	case *ir.ChangeInterface:
		if !types.IsInterface(x.X.Type()) || !types.IsInterface(x.Type()) {
			terr("%s <- %s", x.Type(), x.X.Type())
		}
	case *ir.ChangeType:
		if !valuePreserving(x.X.Type(), x.Type()) {
			terr("%s <- %s is not a value-preserving type change", x.Type(), x.X.Type())
		}
	case *ir.Convert:
		_, b1 := x.X.Type().Underlying().(*types.Basic)
		_, b2 := x.Type().Underlying().(*types.Basic)
		if !b1 && !b2 {
			terr("neither %s nor %s is basic", x.X.Type(), x.Type())
		}
	case *ir.TypeAssert:
		if !types.IsInterface(x.X.Type()) {
			terr("operand %s is not an interface", x.X.Type())
		}
		if x.CommaOk {
			tup, ok := x.Type().(*types.Tuple)
			if !ok || tup.Len() != 2 || !ident(tup.At(0).Type(), x.AssertedType) || !isBoolean(tup.At(1).Type()) {
				terr("comma-ok result %s for asserted type %s", x.Type(), x.AssertedType)
			}
		} else if !ident(x.Type(), x.AssertedType) {
			terr("result %s for asserted type %s", x.Type(), x.AssertedType)
		}
	case *ir.Extract:
		tup, ok := x.Tuple.Type().(*types.Tuple)
		if !ok {
			terr("Extract from non-tuple %s", x.Tuple.Type())
			break
		}
		if x.Index < 0 || x.Index >= tup.Len() {
			terr("index %d out of range for %s", x.Index, tup)
			break
		}
		if !ident(x.Type(), tup.At(x.Index).Type()) {
			terr("result %s, component type %s", x.Type(), tup.At(x.Index).Type())
		}
	case *ir.Return:
		res := c.fn.Signature.Results()
		if len(x.Results) != res.Len() {
			terr("%d results for signature with %d", len(x.Results), res.Len())
			break
		}
		for k, r := range x.Results {
			if !ident(r.Type(), res.At(k).Type()) {
				terr("result %d has type %s, signature says %s", k, r.Type(), res.At(k).Type())
			}
		}
	case *ir.MakeClosure:
		f, ok := x.Fn.(*ir.Function)
		if !ok {
			terr("Fn is %T", x.Fn)
			break
		}
		if len(x.Bindings) != len(f.FreeVars) {
			terr("%d bindings for %d free variables", len(x.Bindings), len(f.FreeVars))
			break
		}
		for k, b := range x.Bindings {
			if !ident(b.Type(), f.FreeVars[k].Type()) {
				terr("binding %d has type %s, free variable has %s", k, b.Type(), f.FreeVars[k].Type())
			}
		}
	case *ir.Call:
		c.callTyping(terr, &x.Call, x.Type())
	case *ir.Defer:
		c.callTyping(terr, &x.Call, nil)
	case *ir.Go:
		c.callTyping(terr, &x.Call, nil)
	case *ir.Next:
		tup, ok := x.Type().(*types.Tuple)
		if !ok || tup.Len() != 3 || !isBoolean(tup.At(0).Type()) {
			terr("Next yields %s", x.Type())
		}
	case *ir.Range:
		switch t := x.X.Type().Underlying().(type) {
		case *types.Map:
		case *types.Basic:
			if t.Info()&types.IsString == 0 {
				terr("Range over %s", x.X.Type())
			}
		default:
			terr("Range over %s", x.X.Type())
		}
	case *ir.CompositeValue:
		switch t := x.Type().Underlying().(type) {
		case *types.Struct:
			if len(x.Values) != t.NumFields() {
				terr("%d values for %d fields", len(x.Values), t.NumFields())
				break
			}
			for k, v := range x.Values {
				if !ident(v.Type(), t.Field(k).Type()) {
					terr("value %d has type %s, field has %s", k, v.Type(), t.Field(k).Type())
				}
			}
		case *types.Array:
			if int64(len(x.Values)) != t.Len() {
				terr("%d values for array of %d", len(x.Values), t.Len())
				break
			}
			for k, v := range x.Values {
				if !ident(v.Type(), t.Elem()) {
					terr("value %d has type %s, element type %s", k, v.Type(), t.Elem())
				}
			}
		default:
			terr("CompositeValue of type %s", x.Type())
		}
	case *ir.ConstantSwitch:
		for k, cnd := range x.Conds {
			if cnd == nil {
				continue
			}
			if _, ok := cnd.(*ir.Const); !ok {
				terr("condition %d is %T, not a constant", k, cnd)
			} else if !ident(cnd.Type(), x.Tag.Type()) {
				// as for comparisons: no document demands identical types; 'switch err { case
				// syscall.EAGAIN: }' compares an interface tag with constants of a concrete type
				if types.AssignableTo(cnd.Type(), x.Tag.Type()) || types.AssignableTo(x.Tag.Type(), cnd.Type()) {
					c.st.SwitchCondAssignable++
				} else {
					terr("condition %d has type %s, tag has %s", k, cnd.Type(), x.Tag.Type())
				}
			}
		}
	case *ir.TypeSwitch:
		tup, ok := x.Type().(*types.Tuple)
		if !ok || tup.Len() != len(x.Conds)+2 || !isInteger(tup.At(0).Type()) {
			terr("TypeSwitch with %d conditions yields %s", len(x.Conds), x.Type())
		}
		if !types.IsInterface(x.Tag.Type()) {
			terr("tag %s is not an interface", x.Tag.Type())
		}
	case *ir.Panic:
		if !types.IsInterface(x.X.Type()) {
			terr("Panic operand %s is not an interface", x.X.Type())
		}
	case *ir.MakeSlice:
		if _, ok := x.Type().Underlying().(*types.Slice); !ok {
			terr("MakeSlice yields %s", x.Type())
		}
		if !isInteger(x.Len.Type()) || !isInteger(x.Cap.Type()) {
			terr("len/cap of types %s, %s", x.Len.Type(), x.Cap.Type())
		}
	case *ir.MakeMap:
		if _, ok := x.Type().Underlying().(*types.Map); !ok {
			terr("MakeMap yields %s", x.Type())
		}
	case *ir.MakeChan:
		if _, ok := x.Type().Underlying().(*types.Chan); !ok {
			terr("MakeChan yields %s", x.Type())
		}
	case *ir.Send:
		ch, ok := x.Chan.Type().Underlying().(*types.Chan)
		if !ok {
			terr("Send on %s", x.Chan.Type())
		} else if !ident(ch.Elem(), x.X.Type()) {
			terr("Send of %s on chan of %s", x.X.Type(), ch.Elem())
		}
	case *ir.Recv:
		ch, ok := x.Chan.Type().Underlying().(*types.Chan)
		if !ok {
			terr("Recv on %s", x.Chan.Type())
			break
		}
		if x.CommaOk {
			tup, ok := x.Type().(*types.Tuple)
			if !ok || tup.Len() != 2 || !ident(tup.At(0).Type(), ch.Elem()) || !isBoolean(tup.At(1).Type()) {
				terr("comma-ok result %s", x.Type())
			}
		} else if !ident(x.Type(), ch.Elem()) {
			terr("result %s, element type %s", x.Type(), ch.Elem())
		}
	case *ir.Select:
		nrecv := 0
		for _, s := range x.States {
			if s.Dir == types.RecvOnly {
				nrecv++
			}
		}
		tup, ok := x.Type().(*types.Tuple)
		if !ok || tup.Len() != nrecv+2 {
			terr("Select with %d receives yields %s", nrecv, x.Type())
		}
	}
}

func valuePreserving(from, to types.Type) bool {
	if ident(from.Underlying(), to.Underlying()) {
		return true
	}
	if p1, ok := from.Underlying().(*types.Pointer); ok {
		if p2, ok := to.Underlying().(*types.Pointer); ok {
			return ident(p1.Elem().Underlying(), p2.Elem().Underlying())
		}
	}
	if c1, ok := from.Underlying().(*types.Chan); ok {
		if c2, ok := to.Underlying().(*types.Chan); ok {
			return ident(c1.Elem(), c2.Elem()) && c1.Dir() == types.SendRecv
		}
	}
	// struct conversion ignoring tags, and similar spec-permitted changes
	return types.ConvertibleTo(from, to) && !isBasicPair(from, to)
}

func isBasicPair(a, b types.Type) bool {
	_, x := a.Underlying().(*types.Basic)
	_, y := b.Underlying().(*types.Basic)
	return x && y && !ident(a.Underlying(), b.Underlying())
}

func (c *checker) callTyping(terr func(string, ...any), call *ir.CallCommon, result types.Type) {
	if _, ok := call.Value.(*ir.Builtin); ok {
		return // builtins have ad-hoc effective signatures
	}
	var sig *types.Signature
	if call.IsInvoke() {
		if !types.IsInterface(call.Value.Type()) {
			terr("invoke on non-interface %s", call.Value.Type())
			return
		}
		sig = call.Method.Type().(*types.Signature)
	} else {
		s, ok := call.Value.Type().Underlying().(*types.Signature)
		if !ok {
			terr("call of non-function %s", call.Value.Type())
			return
		}
		sig = s
	}
	var want []types.Type
	if !call.IsInvoke() && sig.Recv() != nil {
		want = append(want, sig.Recv().Type())
	}
	for i := 0; i < sig.Params().Len(); i++ {
		want = append(want, sig.Params().At(i).Type())
	}
	if len(call.Args) != len(want) {
		terr("%d arguments for %d parameters (incl. receiver)", len(call.Args), len(want))
		return
	}
	for i, a := range call.Args {
		if !ident(a.Type(), want[i]) {
			terr("argument %d has type %s, parameter has %s", i, a.Type(), want[i])
		}
	}
	if sig.Variadic() && len(want) > 0 {
		if _, ok := call.Args[len(call.Args)-1].Type().Underlying().(*types.Slice); !ok {
			terr("variadic call whose last argument is %s", call.Args[len(call.Args)-1].Type())
		}
	}
	if result != nil {
		switch sig.Results().Len() {
		case 0:
			if t, ok := result.(*types.Tuple); !ok || t.Len() != 0 {
				terr("call of result-less function has type %s", result)
			}
		case 1:
			if !ident(result, sig.Results().At(0).Type()) {
				terr("result %s, signature says %s", result, sig.Results().At(0).Type())
			}
		default:
			if !ident(result, sig.Results()) {
				terr("result %s, signature says %s", result, sig.Results())
			}
		}
	}
}
