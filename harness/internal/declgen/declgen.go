// Package declgen generates import-free Go packages that consist of many small
// package-level declarations with a drawn reference graph between them, for
// testing the unused-code analysis (U1000): functions, methods (value and
// pointer receivers), struct types with fields and embedding, interfaces and
// implicit interface satisfaction, named non-struct types, generic functions
// and types, variables, stand-alone constants and iota groups, conversions
// between struct types, keyed and unkeyed literals, method values and
// expressions, closures.
//
// A package is a list of self-contained top-level declarations (Decl), so
// that files and declaration order can be permuted freely.
package declgen

import (
	"fmt"
	"strings"

	"pgregory.net/rapid"
)

type Decl struct {
	Text string `json:"text"` // one top-level declaration (may declare several names, e.g. a const group)
	Kind string `json:"kind"`
}

type Package struct {
	Name  string   `json:"name"`
	Decls []Decl   `json:"decls"`
	Files [][]int  `json:"files"` // indices into Decls per file
	Feat  []string `json:"features"`
	Refs  []Ref    `json:"refs"` // one read-reference statement per referable object
	// LineDir: every file carries a "//line zz_<name>:1000" comment after its first declaration, so that the
	// rest of the file is displayed under another file name and numbering (set by the caller; default off)
	LineDir bool `json:"line_directive,omitempty"`
}

// Ref is a statement that reads (uses) one package-level object or member, and
// the name U1000 gives that object in its reports ("func f3", "field f0a", ...).
type Ref struct {
	Object string `json:"object"`
	Stmt   string `json:"stmt"`
}

// Source renders file i.
func (p *Package) Source(i int) string {
	var sb strings.Builder
	sb.WriteString("package " + p.Name + "\n\n")
	for k, d := range p.Files[i] {
		if p.LineDir && k == 1 {
			sb.WriteString("//line zz_" + p.FileName(i) + ":1000\n\n")
		}
		sb.WriteString(p.Decls[d].Text)
		sb.WriteString("\n\n")
	}
	return sb.String()
}

func (p *Package) FileName(i int) string { return fmt.Sprintf("f%d.go", i) }

// Hollow returns a copy of p in which the bodies of the result-less functions
// selected by pick (called with the index of every candidate declaration) are
// replaced by blank lines: every declaration stays on its line, the references
// made from those bodies disappear.
func (p *Package) Hollow(pick func(decl int) bool) *Package {
	q := *p
	q.Decls = append([]Decl(nil), p.Decls...)
	for i, d := range q.Decls {
		if d.Kind != "func" || !strings.HasSuffix(d.Text, "}") {
			continue
		}
		lines := strings.Split(d.Text, "\n")
		if len(lines) < 3 || !strings.HasSuffix(lines[0], "() {") || strings.HasPrefix(lines[0], "func main") {
			continue
		}
		if !pick(i) {
			continue
		}
		for k := 1; k < len(lines)-1; k++ {
			lines[k] = ""
		}
		q.Decls[i].Text = strings.Join(lines, "\n")
	}
	return &q
}

type method struct {
	name string
	ptr  bool
}

type structT struct {
	name    string
	fields  []string // int fields
	embed   string   // embedded earlier struct, "" if none
	embedP  bool     // embedded as pointer
	methods []method
}

type gen struct {
	t       *rapid.T
	structs []structT
	ifaces  []struct {
		name    string
		methods []string
	}
	funcs   []string
	vars    []string
	consts  []string
	nameds  []string        // named int types with method mB
	anon    []string        // functions with unnamed parameters: name(int, string)
	strSig  map[string]bool // structs/interfaces whose mC takes a string instead of an int
	generic bool
	feat    map[string]bool
	noCalls bool // inside a package-level variable initializer: avoid initialization cycles
}

func (g *gen) pick(label string, n int) int { return rapid.IntRange(0, n-1).Draw(g.t, label) }
func (g *gen) chance(label string, num, den int) bool {
	return rapid.IntRange(0, den-1).Draw(g.t, label) < num
}

var methodSigs = map[string]string{"mA": "()", "mB": "() int", "mC": "(x int)"}
var methodBodies = map[string]string{"mA": "{}", "mB": "{ return 1 }", "mC": "{ _ = x }"}
var methodCall = map[string]string{"mA": "mA()", "mB": "mB()", "mC": "mC(1)"}

// Some structs and interfaces declare mC(x string) instead of mC(x int): two
// interfaces may then list methods of the same names with different signatures.
func sigOf(m string, str bool) string {
	if m == "mC" && str {
		return "(x string)"
	}
	return methodSigs[m]
}

func callOf(m string, str bool) string {
	if m == "mC" && str {
		return "mC(\"\")"
	}
	return methodCall[m]
}

// cStr reports whether the mC in the method set of s is the string variant.
func (g *gen) cStr(s structT) bool {
	for _, m := range s.methods {
		if m.name == "mC" {
			return g.strSig[s.name]
		}
	}
	if s.embed != "" {
		for _, e := range g.structs {
			if e.name == s.embed {
				return g.cStr(e)
			}
		}
	}
	return false
}

// satisfies: the method set of *s has the interface's methods with the interface's signatures.
func (g *gen) satisfies(s structT, methods []string, iname string) bool {
	ms := g.methodSet(s, true)
	for _, m := range methods {
		if !ms[m] {
			return false
		}
		if m == "mC" && g.cStr(s) != g.strSig[iname] {
			return false
		}
	}
	return true
}

// allMethods returns the methods in the method set of s (value or pointer form), including promoted ones.
func (g *gen) methodSet(s structT, viaPtr bool) map[string]bool {
	out := map[string]bool{}
	for _, m := range s.methods {
		if !m.ptr || viaPtr {
			out[m.name] = true
		}
	}
	if s.embed != "" {
		for _, e := range g.structs {
			if e.name == s.embed {
				for k := range g.methodSet(e, viaPtr || s.embedP) {
					if !out[k] {
						out[k] = true
					}
				}
			}
		}
	}
	return out
}

func (g *gen) fieldsOf(s structT) []string {
	fs := append([]string{}, s.fields...)
	if s.embed != "" {
		for _, e := range g.structs {
			if e.name == s.embed {
				for _, f := range g.fieldsOf(e) {
					dup := false
					for _, x := range fs {
						if x == f {
							dup = true
						}
					}
					if !dup {
						fs = append(fs, f)
					}
				}
			}
		}
	}
	return fs
}

// stmt produces one statement that references package-level objects.
func (g *gen) stmt() string {
	for try := 0; try < 8; try++ {
		k := g.pick("ref", 28)
		if g.noCalls {
			k = []int{4, 5, 6, 7, 8, 14}[g.pick("refinit", 6)]
		}
		switch k {
		case 0, 1:
			if len(g.funcs) > 0 {
				g.feat["call"] = true
				return g.funcs[g.pick("fn", len(g.funcs))] + "()"
			}
		case 2:
			if len(g.vars) > 0 {
				g.feat["var-read"] = true
				return "_ = " + g.vars[g.pick("var", len(g.vars))]
			}
		case 3:
			if len(g.vars) > 0 {
				g.feat["var-write"] = true
				return g.vars[g.pick("var", len(g.vars))] + " = 7"
			}
		case 4:
			if len(g.consts) > 0 {
				g.feat["const-read"] = true
				return "_ = " + g.consts[g.pick("const", len(g.consts))]
			}
		case 5:
			if len(g.structs) > 0 {
				s := g.structs[g.pick("st", len(g.structs))]
				g.feat["zero-value"] = true
				return "{\n\t\tvar x " + s.name + "\n\t\t_ = x\n\t}"
			}
		case 6:
			if len(g.structs) > 0 {
				s := g.structs[g.pick("st", len(g.structs))]
				if len(s.fields) > 0 && s.embed == "" {
					g.feat["unkeyed-literal"] = true
					vals := make([]string, len(s.fields))
					for i := range vals {
						vals[i] = fmt.Sprint(i)
					}
					return "_ = " + s.name + "{" + strings.Join(vals, ", ") + "}"
				}
			}
		case 7:
			if len(g.structs) > 0 {
				s := g.structs[g.pick("st", len(g.structs))]
				if len(s.fields) > 0 {
					g.feat["keyed-literal"] = true
					return "_ = " + s.name + "{" + s.fields[g.pick("fld", len(s.fields))] + ": 1}"
				}
			}
		case 8:
			if len(g.structs) > 0 {
				s := g.structs[g.pick("st", len(g.structs))]
				if fs := g.fieldsOf(s); len(fs) > 0 {
					g.feat["field-read"] = true
					return "{\n\t\tvar x " + s.name + "\n\t\t_ = x." + fs[g.pick("fld", len(fs))] + "\n\t}"
				}
			}
		case 9:
			if len(g.structs) > 0 {
				s := g.structs[g.pick("st", len(g.structs))]
				if !(s.embed != "" && s.embedP) {
					if fs := g.fieldsOf(s); len(fs) > 0 {
						g.feat["field-write"] = true
						return "{\n\t\tvar x " + s.name + "\n\t\tx." + fs[g.pick("fld", len(fs))] + " = 3\n\t}"
					}
				}
			}
		case 10, 11:
			if len(g.structs) > 0 {
				s := g.structs[g.pick("st", len(g.structs))]
				ms := g.methodSet(s, true)
				if len(ms) > 0 && !(s.embed != "" && s.embedP) {
					names := sortedKeys(ms)
					m := names[g.pick("m", len(names))]
					switch g.pick("mform", 3) {
					case 0:
						g.feat["method-call"] = true
						return "{\n\t\tvar x " + s.name + "\n\t\tx." + callOf(m, g.cStr(s)) + "\n\t}"
					case 1:
						g.feat["method-value"] = true
						return "{\n\t\tvar x " + s.name + "\n\t\tf := x." + m + "\n\t\t_ = f\n\t}"
					default:
						g.feat["method-expr"] = true
						return "_ = (*" + s.name + ")." + m
					}
				}
			}
		case 12, 13:
			// implicit interface satisfaction
			if len(g.ifaces) > 0 && len(g.structs) > 0 {
				i := g.ifaces[g.pick("if", len(g.ifaces))]
				for _, s := range g.structs {
					if s.embed != "" && s.embedP {
						continue
					}
					if g.satisfies(s, i.methods, i.name) {
						g.feat["iface-satisfaction"] = true
						call := ""
						if len(i.methods) > 0 && g.chance("icall", 1, 2) {
							g.feat["iface-call"] = true
							call = "\n\t\ti." + callOf(i.methods[g.pick("im", len(i.methods))], g.strSig[i.name])
						}
						return "{\n\t\tvar i " + i.name + " = &" + s.name + "{}" + call + "\n\t\t_ = i\n\t}"
					}
				}
			}
		case 14:
			if len(g.ifaces) > 0 && len(g.structs) > 0 {
				i := g.ifaces[g.pick("if", len(g.ifaces))]
				s := g.structs[g.pick("st", len(g.structs))]
				g.feat["type-assert"] = true
				return "{\n\t\tvar i " + i.name + "\n\t\tif v, ok := any(i).(*" + s.name + "); ok {\n\t\t\t_ = v\n\t\t}\n\t}"
			}
		case 15:
			// conversion between struct types with identical field lists
			for a := 0; a < len(g.structs); a++ {
				for b := 0; b < len(g.structs); b++ {
					x, y := g.structs[a], g.structs[b]
					if a != b && x.embed == "" && y.embed == "" && strings.Join(x.fields, ",") == strings.Join(y.fields, ",") && g.chance("conv", 1, 2) {
						g.feat["struct-conversion"] = true
						return "{\n\t\tvar x " + x.name + "\n\t\t_ = " + y.name + "(x)\n\t}"
					}
				}
			}
		case 16:
			if g.generic {
				g.feat["generic-inst"] = true
				if len(g.structs) > 0 && g.chance("gstruct", 1, 2) {
					return "_ = gident[" + g.structs[g.pick("st", len(g.structs))].name + "]"
				}
				return "{\n\t\tb := gbox[int]{v: 1}\n\t\t_ = b.get()\n\t}"
			}
		case 17:
			if len(g.nameds) > 0 {
				n := g.nameds[g.pick("nm", len(g.nameds))]
				g.feat["named-type"] = true
				if g.chance("nmcall", 1, 2) {
					return "_ = " + n + "(1).mB()"
				}
				return "_ = " + n + "(2)"
			}
		case 20, 21:
			// a type declared inside a function body that satisfies an interface only through an embedded field
			if len(g.ifaces) > 0 && len(g.structs) > 0 {
				i := g.ifaces[g.pick("if", len(g.ifaces))]
				var cands []structT
				for _, s := range g.structs {
					if s.embed != "" && s.embedP {
						continue
					}
					if g.satisfies(s, i.methods, i.name) {
						cands = append(cands, s)
					}
				}
				if len(cands) > 0 {
					s := cands[g.pick("localembed", len(cands))]
					g.feat["local-type-embedding"] = true
					emb := s.name
					lit := "&loc{}"
					if g.chance("localembedptr", 1, 3) {
						emb = "*" + s.name
						lit = "&loc{" + s.name + ": &" + s.name + "{}}"
					}
					extra := ""
					if g.chance("localextra", 1, 2) {
						extra = "\t\t\textra int\n"
					}
					call := ""
					if len(i.methods) > 0 && g.chance("icall", 1, 2) {
						call = "\n\t\ti." + callOf(i.methods[g.pick("im", len(i.methods))], g.strSig[i.name])
					}
					return "{\n\t\ttype loc struct {\n\t\t\t" + emb + "\n" + extra + "\t\t}\n\t\tvar i " + i.name + " = " + lit + call + "\n\t\t_ = i\n\t}"
				}
			}
		case 22:
			// other function-local named types and aliases over package-level types
			if len(g.structs) > 0 {
				s := g.structs[g.pick("st", len(g.structs))]
				g.feat["local-type"] = true
				switch g.pick("localform", 4) {
				case 0:
					return "{\n\t\ttype loc " + s.name + "\n\t\tvar x loc\n\t\t_ = x\n\t}"
				case 1:
					return "{\n\t\ttype loc = " + s.name + "\n\t\tvar x loc\n\t\t_ = x\n\t}"
				case 2:
					return "{\n\t\ttype loc []*" + s.name + "\n\t\t_ = loc(nil)\n\t}"
				default:
					return "{\n\t\ttype loc struct {\n\t\t\tinner " + s.name + "\n\t\t\tn     int\n\t\t}\n\t\t_ = loc{n: 1}\n\t}"
				}
			}
		case 24, 25:
			// functions whose parameters have no names (their objects are not in types.Info.Defs)
			if len(g.anon) > 0 {
				g.feat["unnamed-params"] = true
				return g.anon[g.pick("anon", len(g.anon))] + "(1, \"\")"
			}
		case 26, 27:
			// type switch with a bound variable (one implicit object per clause)
			if len(g.structs) > 0 {
				s := g.structs[g.pick("st", len(g.structs))]
				g.feat["type-switch"] = true
				other := "int"
				if len(g.nameds) > 0 {
					other = g.nameds[g.pick("nm", len(g.nameds))]
				}
				return "{\n\t\tvar a any = &" + s.name + "{}\n\t\tswitch v := a.(type) {\n\t\tcase *" + s.name + ":\n\t\t\t_ = v\n\t\tcase " + other + ":\n\t\t\t_ = v\n\t\tdefault:\n\t\t\t_ = v\n\t\t}\n\t}"
			}
		case 18:
			if len(g.funcs) > 0 {
				g.feat["func-value"] = true
				return "{\n\t\tf := " + g.funcs[g.pick("fn", len(g.funcs))] + "\n\t\t_ = f\n\t}"
			}
		default:
			if len(g.funcs) > 0 {
				g.feat["closure"] = true
				return "func() {\n\t\t" + g.funcs[g.pick("fn", len(g.funcs))] + "()\n\t}()"
			}
		}
	}
	return "_ = 0"
}

func (g *gen) body(n int) string {
	var sb strings.Builder
	sb.WriteString("{\n")
	for i := 0; i < n; i++ {
		sb.WriteString("\t" + g.stmt() + "\n")
	}
	sb.WriteString("}")
	return sb.String()
}

func sortedKeys(m map[string]bool) []string {
	var ks []string
	for _, k := range []string{"mA", "mB", "mC"} {
		if m[k] {
			ks = append(ks, k)
		}
	}
	return ks
}

// Generate draws a package. pkgName "main" adds func main.
func Generate(t *rapid.T, pkgName string) *Package {
	g := &gen{t: t, feat: map[string]bool{}, strSig: map[string]bool{}}
	p := &Package{Name: pkgName}
	add := func(kind, text string) { p.Decls = append(p.Decls, Decl{Text: text, Kind: kind}) }

	// names first, so that every body can refer to every object
	ns := 1 + g.pick("nstructs", 4)
	for i := 0; i < ns; i++ {
		s := structT{name: fmt.Sprintf("t%d", i)}
		nf := g.pick("nfields", 4)
		if g.chance("samefields", 1, 3) {
			s.fields = []string{"fa", "fb"}
		} else {
			for f := 0; f < nf; f++ {
				s.fields = append(s.fields, fmt.Sprintf("f%d%c", i, 'a'+f))
			}
		}
		if i > 0 && g.chance("embed", 1, 3) {
			s.embed = g.structs[g.pick("embedwhich", i)].name
			s.embedP = g.chance("embedptr", 1, 3)
			if strings.Join(s.fields, ",") == "fa,fb" {
				s.fields = []string{fmt.Sprintf("f%dz", i)}
			}
		}
		for _, m := range []string{"mA", "mB", "mC"} {
			if g.chance("hasmethod", 1, 2) {
				s.methods = append(s.methods, method{m, g.chance("ptrrecv", 1, 2)})
			}
		}
		g.strSig[s.name] = g.chance("strsig", 1, 3)
		g.structs = append(g.structs, s)
	}
	ni := g.pick("nifaces", 3)
	for i := 0; i < ni; i++ {
		var ms []string
		for _, m := range []string{"mA", "mB", "mC"} {
			if g.chance("ifacemethod", 1, 2) {
				ms = append(ms, m)
			}
		}
		g.ifaces = append(g.ifaces, struct {
			name    string
			methods []string
		}{fmt.Sprintf("i%d", i), ms})
		g.strSig[fmt.Sprintf("i%d", i)] = g.chance("strsig", 1, 3)
		if g.strSig[fmt.Sprintf("i%d", i)] {
			g.feat["method-same-name-other-signature"] = true
		}
	}
	for i, n := 0, g.pick("nanon", 4); i < n; i++ {
		g.anon = append(g.anon, fmt.Sprintf("u%d", i))
	}
	nfn := 2 + g.pick("nfuncs", 6)
	for i := 0; i < nfn; i++ {
		g.funcs = append(g.funcs, fmt.Sprintf("f%d", i))
	}
	nv := g.pick("nvars", 4)
	for i := 0; i < nv; i++ {
		g.vars = append(g.vars, fmt.Sprintf("v%d", i))
	}
	// a var spec with several names (one shared multi-value initializer, one value per name, or none)
	multi := -1
	if g.chance("multivar", 1, 2) {
		multi = g.pick("multikind", 4)
		g.vars = append(g.vars, "w0", "w1")
		if multi == 3 {
			g.vars = append(g.vars, "w2")
		}
	}
	nc := g.pick("nconsts", 3)
	for i := 0; i < nc; i++ {
		g.consts = append(g.consts, fmt.Sprintf("c%d", i))
	}
	group := g.chance("constgroup", 1, 2)
	if group {
		g.consts = append(g.consts, "ga", "gb", "gc")
	}
	nn := g.pick("nnamed", 3)
	for i := 0; i < nn; i++ {
		g.nameds = append(g.nameds, fmt.Sprintf("n%d", i))
	}
	g.generic = g.chance("generic", 1, 2)

	// declarations
	for _, s := range g.structs {
		var sb strings.Builder
		fmt.Fprintf(&sb, "type %s struct {\n", s.name)
		if s.embed != "" {
			if s.embedP {
				fmt.Fprintf(&sb, "\t*%s\n", s.embed)
			} else {
				fmt.Fprintf(&sb, "\t%s\n", s.embed)
			}
			g.feat["embedding"] = true
		}
		for _, f := range s.fields {
			fmt.Fprintf(&sb, "\t%s int\n", f)
		}
		sb.WriteString("}")
		add("type", sb.String())
		for _, m := range s.methods {
			recv := "r " + s.name
			if m.ptr {
				recv = "r *" + s.name
			}
			body := methodBodies[m.name]
			if g.chance("methodbody", 1, 3) {
				body = strings.TrimSuffix(g.body(1), "}") // refer to other objects from a method
				if m.name == "mB" {
					body += "\treturn 1\n}"
				} else {
					body += "}"
				}
			}
			add("method", fmt.Sprintf("func (%s) %s%s %s", recv, m.name, sigOf(m.name, g.strSig[s.name]), body))
		}
	}
	for _, i := range g.ifaces {
		var sb strings.Builder
		fmt.Fprintf(&sb, "type %s interface {\n", i.name)
		for _, m := range i.methods {
			fmt.Fprintf(&sb, "\t%s%s\n", m, sigOf(m, g.strSig[i.name]))
		}
		sb.WriteString("}")
		add("type", sb.String())
	}
	for _, n := range g.nameds {
		add("type", fmt.Sprintf("type %s int", n))
		add("method", fmt.Sprintf("func (x %s) mB() int { return int(x) }", n))
	}
	if g.generic {
		add("func", "func gident[T any](x T) T { return x }")
		add("type", "type gbox[T any] struct{ v T }")
		add("method", "func (b gbox[T]) get() T { return b.v }")
		add("method", "func (b *gbox[T]) set(v T) { b.v = v }")
	}
	for _, f := range g.anon {
		add("func", fmt.Sprintf("func %s(int, string) %s", f, g.body(g.pick("nstmts", 3))))
	}
	for _, f := range g.funcs {
		add("func", fmt.Sprintf("func %s() %s", f, g.body(g.pick("nstmts", 4))))
	}
	switch multi {
	case 0:
		g.feat["multi-name-var-shared-init"] = true
		add("func", "func pair0() (int, int) { return 1, 2 }")
		add("var", "var w0, w1 = pair0()")
	case 1:
		g.feat["multi-name-var"] = true
		add("func", "func one0() int { return 1 }")
		add("var", "var w0, w1 = one0(), 2")
	case 2:
		g.feat["multi-name-var"] = true
		add("var", "var w0, w1 int")
	case 3:
		g.feat["multi-name-var-shared-init"] = true
		add("func", "func triple0() (int, int, int) { return 1, 2, 3 }")
		add("var", "var w0, w1, w2 = triple0()")
	}
	for i, v := range g.vars {
		if strings.HasPrefix(v, "w") {
			continue
		}
		switch g.pick("varkind", 3) {
		case 0:
			add("var", fmt.Sprintf("var %s = %d", v, i))
		case 1:
			add("var", fmt.Sprintf("var %s int", v))
		default:
			g.noCalls = true
			add("var", fmt.Sprintf("var %s = func() int { %s; return 1 }()", v, g.stmt()))
			g.noCalls = false
		}
	}
	for i, c := range g.consts {
		if c == "ga" {
			add("const", "const (\n\tga = iota\n\tgb\n\tgc\n)")
			break
		}
		add("const", fmt.Sprintf("const %s = %d", c, i+10))
	}
	// roots
	nroots := 1 + g.pick("nroots", 3)
	for i := 0; i < nroots; i++ {
		add("func", fmt.Sprintf("func Root%d() %s", i, g.body(1+g.pick("nstmts", 4))))
	}
	if g.chance("init", 1, 3) {
		add("func", "func init() "+g.body(1))
	}
	if pkgName == "main" {
		add("func", "func main() "+g.body(2))
	}
	if g.chance("exportedtype", 1, 3) && len(g.structs) > 0 {
		s := g.structs[0]
		add("type", fmt.Sprintf("type Exported struct {\n\tInner %s\n\thidden int\n}", s.name))
		add("method", "func (e Exported) Method() "+g.body(1))
	}

	// reference statements, one per object
	for _, f := range g.funcs {
		p.Refs = append(p.Refs, Ref{"func " + f, f + "()"})
	}
	for _, f := range g.anon {
		p.Refs = append(p.Refs, Ref{"func " + f, f + "(2, \"r\")"})
	}
	for _, v := range g.vars {
		p.Refs = append(p.Refs, Ref{"var " + v, "_ = " + v})
	}
	for _, c := range g.consts {
		p.Refs = append(p.Refs, Ref{"const " + c, "_ = " + c})
	}
	for _, s := range g.structs {
		p.Refs = append(p.Refs, Ref{"type " + s.name, "{\n\t\tvar x " + s.name + "\n\t\t_ = x\n\t}"})
		for _, f := range s.fields {
			p.Refs = append(p.Refs, Ref{"field " + f, "{\n\t\tvar x " + s.name + "\n\t\t_ = x." + f + "\n\t}"})
		}
		for _, m := range s.methods {
			name := "func " + s.name + "." + m.name
			if m.ptr {
				name = "func (*" + s.name + ")." + m.name
			}
			p.Refs = append(p.Refs, Ref{name, "{\n\t\tvar x " + s.name + "\n\t\tx." + callOf(m.name, g.strSig[s.name]) + "\n\t}"})
		}
	}
	for _, i := range g.ifaces {
		p.Refs = append(p.Refs, Ref{"type " + i.name, "{\n\t\tvar x " + i.name + "\n\t\t_ = x\n\t}"})
	}
	for _, n := range g.nameds {
		p.Refs = append(p.Refs, Ref{"type " + n, "_ = " + n + "(3)"})
	}

	// files
	nfiles := 1 + g.pick("nfiles", 3)
	p.Files = make([][]int, nfiles)
	for i := range p.Decls {
		f := g.pick("file", nfiles)
		p.Files[f] = append(p.Files[f], i)
	}
	for k := range g.feat {
		p.Feat = append(p.Feat, k)
	}
	return p
}
