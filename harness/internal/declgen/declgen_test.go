package declgen

import (
	"testing"

	"pgregory.net/rapid"
	"verif/harness/internal/irbuild"
)

func TestTypechecks(t *testing.T) {
	rapid.Check(t, func(rt *rapid.T) {
		p := Generate(rt, "p")
		files := map[string]string{}
		for i := range p.Files {
			files[p.FileName(i)] = p.Source(i)
		}
		if _, err := irbuild.Check([]irbuild.Pkg{{Path: "p", Files: files}}, "go1.26"); err != nil {
			var all string
			for _, s := range files {
				all += s
			}
			rt.Fatalf("%v\n%s", err, all)
		}
	})
}
