// Package u1k runs the real unused (U1000) analyzer through the real runner on a
// generated package written to disk and returns its verdicts.
package u1k

import (
	"fmt"
	"os"
	"path/filepath"
	"sort"

	"golang.org/x/tools/go/analysis"
	"honnef.co/go/tools/lintcmd/runner"
	"honnef.co/go/tools/unused"
	"verif/harness/internal/rn"
)

// Verdict is the analyzer's result for one package variant.
type Verdict struct {
	ID     string // go list ID, e.g. "m/p", "m/p [m/p.test]", "m/p_test [m/p.test]"
	Path   string
	Result unused.Result
}

// Key identifies an object independently of byte offsets: kind, name, file base name.
func Key(o unused.Object) string {
	return fmt.Sprintf("%s %s (%s)", o.Kind, o.Name, filepath.Base(o.Position.Filename))
}

func Keys(objs []unused.Object) []string {
	var ks []string
	for _, o := range objs {
		ks = append(ks, Key(o))
	}
	sort.Strings(ks)
	return ks
}

// WriteModule writes files (relative path -> content) plus go.mod into a fresh temp dir.
func WriteModule(files map[string]string) (string, error) {
	dir, err := os.MkdirTemp("", "u1k-")
	if err != nil {
		return "", err
	}
	if _, ok := files["go.mod"]; !ok {
		files["go.mod"] = "module m\n\ngo 1.26.0\n"
	}
	for name, src := range files {
		p := filepath.Join(dir, name)
		os.MkdirAll(filepath.Dir(p), 0o755)
		if err := os.WriteFile(p, []byte(src), 0o644); err != nil {
			os.RemoveAll(dir)
			return "", err
		}
	}
	return dir, nil
}

// Run analyses patterns in dir.
func Run(dir string, tests bool, patterns ...string) ([]Verdict, error) {
	var out []Verdict
	err := rn.Run(rn.Options{Dir: dir, Tests: tests}, []*analysis.Analyzer{unused.Analyzer.Analyzer}, patterns, func(res []runner.Result) error {
		for _, r := range res {
			if !r.Initial {
				continue
			}
			if r.Failed {
				return fmt.Errorf("package %s failed: %v", r.Package.ID, r.Errors)
			}
			data, err := r.Load()
			if err != nil {
				return err
			}
			out = append(out, Verdict{ID: r.Package.ID, Path: r.Package.PkgPath, Result: data.Unused})
		}
		return nil
	})
	return out, err
}
