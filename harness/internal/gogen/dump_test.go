package gogen

import (
	"os"
	"strconv"
	"testing"

	"pgregory.net/rapid"
)

func TestDump(t *testing.T) {
	if os.Getenv("GOGEN_DUMP") == "" {
		t.Skip()
	}
	seed, _ := strconv.Atoi(os.Getenv("GOGEN_DUMP"))
	gen := rapid.Custom(func(rt *rapid.T) *Program { return Generate(rt, DefaultConfig()) })
	p := gen.Example(seed)
	os.WriteFile("/tmp/dump.go", []byte(p.Src), 0o644)
	os.WriteFile("/tmp/dump_main.go", []byte(MainFor(p)), 0o644)
}
