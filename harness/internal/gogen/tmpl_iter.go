package gogen

import "fmt"

// inClosure runs f as the body of a func literal with the given results.
func (g *gen) inClosure(res []*Type, names []string, f func()) {
	fc := &fctx{res: res, resNames: names, index: g.fn.index, pure: g.fn.pure}
	g.withFunc(fc, f)
}

// seqExpr returns an iterator expression over ints and the features it uses.
func (g *gen) seqExpr() string {
	switch g.intn(3, "seqkind") {
	case 0:
		return "seqN(" + g.smallBound() + ")"
	case 1:
		g.feat("named-func-type")
		return "seqSl(" + g.expr(tSlice, 1) + ")"
	default:
		return "seqN(" + g.nc(tInt, 1) + " & 7)"
	}
}

func init() {
	// plain range-over-func; the body is generic, so break/continue/return
	// and labelled jumps arise from the ordinary statement generator too.
	register("range-func", 6, func(g *gen, d int) {
		x := g.fresh("x")
		src := g.seqExpr()
		l, body := g.inLoop(false, func() {
			g.declare(&vr{name: x, ty: tInt, local: true})
			g.line("_ = %s", x)
			g.body(d)
		})
		g.emitLoop(l, fmt.Sprintf("for %s := range %s {", x, src), body)
	})

	// forced early exits from a range-over-func body
	register("range-func-exit", 6, func(g *gen, d int) {
		x := g.fresh("x")
		src := g.seqExpr()
		l, body := g.inLoop(false, func() {
			g.declare(&vr{name: x, ty: tInt, ro: true, local: true})
			kinds := rapidPerm(g, 3)
			n := g.rng(1, 3, "nexits")
			for _, k := range kinds[:n] {
				c := fmt.Sprintf("%s %s %s", x, pickOf(g, cmpOps, "cmp"), g.expr(tInt, 1))
				g.open("if %s {", c)
				switch k {
				case 0:
					g.feat("range-func-break")
					g.line("break")
				case 1:
					g.feat("range-func-continue")
					g.line("continue")
				default:
					g.feat("range-func-return")
					g.line("tr(%s)", g.traceArg())
					g.returnLine()
				}
				g.close_("}")
			}
			g.body(d)
		})
		g.emitLoop(l, fmt.Sprintf("for %s := range %s {", x, src), body)
	})

	// two-value iterator
	register("range-func-2", 4, func(g *gen, d int) {
		x, nm := g.fresh("x"), g.fresh("s")
		src := "seq2(" + g.expr(tSlice, 1) + ", " + g.expr(tString, 1) + ")"
		form := g.intn(3, "rf2form")
		l, body := g.inLoop(false, func() {
			if form != 2 {
				g.declare(&vr{name: x, ty: tInt, local: true})
				g.line("_ = %s", x)
			}
			if form == 0 {
				g.declare(&vr{name: nm, ty: tString, local: true})
				g.line("_ = %s", nm)
			}
			if g.chance(40, "rf2break") {
				g.feat("range-func-break")
				g.open("if %s {", g.boolOp(1))
				g.line("break")
				g.close_("}")
			}
			g.body(d)
		})
		hdr := [...]string{"for " + x + ", " + nm + " := range ", "for " + x + " := range ", "for range "}[form]
		g.emitLoop(l, hdr+src+" {", body)
	})

	// nested range-over-func loops with labelled break/continue of the outer one
	register("range-func-labeled", 5, func(g *gen, d int) {
		x, y := g.fresh("x"), g.fresh("y")
		outerSrc, innerSrc := g.seqExpr(), g.seqExpr()
		outerIsFunc := g.chance(75, "outerfunc")
		l, body := g.inLoop(false, func() {
			g.declare(&vr{name: x, ty: tInt, ro: true, local: true})
			g.line("_ = %s", x)
			l2, body2 := g.inLoop(false, func() {
				g.declare(&vr{name: y, ty: tInt, ro: true, local: true})
				outer := g.fn.loops[len(g.fn.loops)-2]
				outer.used = true
				g.open("if %s + %s %s %s {", x, y, pickOf(g, cmpOps, "cmp"), g.expr(tInt, 1))
				if g.chance(50, "lblkind") {
					g.feat("labeled-continue")
					g.line("continue %s", outer.label)
				} else {
					g.feat("labeled-break")
					g.line("break %s", outer.label)
				}
				g.close_("}")
				g.body(d)
			})
			g.emitLoop(l2, fmt.Sprintf("for %s := range %s {", y, innerSrc), body2)
			g.line("tr(%s)", g.traceArg())
		})
		if outerIsFunc {
			g.emitLoop(l, fmt.Sprintf("for %s := range %s {", x, outerSrc), body)
		} else {
			g.emitLoop(l, fmt.Sprintf("for %s := 0; %s < %s; %s++ {", x, x, g.smallBound(), x), body)
		}
	})

	// defer inside a range-over-func body runs when the enclosing function returns
	register("range-func-defer", 4, func(g *gen, d int) {
		x := g.fresh("x")
		src := g.seqExpr()
		l, body := g.inLoop(false, func() {
			g.declare(&vr{name: x, ty: tInt, ro: true, local: true})
			g.line("defer tr(%d + %s)", g.trk()*10, x)
			g.body(d)
		})
		g.emitLoop(l, fmt.Sprintf("for %s := range %s {", x, src), body)
	})

	// goto out of a range-over-func body (no declarations between loop and label)
	register("range-func-goto", 5, func(g *gen, d int) {
		x := g.fresh("x")
		src := g.seqExpr()
		lbl := g.label()
		l, body := g.inLoop(false, func() {
			g.declare(&vr{name: x, ty: tInt, ro: true, local: true})
			g.open("if %s %s %s {", x, pickOf(g, cmpOps, "cmp"), g.expr(tInt, 1))
			g.line("goto %s", lbl)
			g.close_("}")
			g.body(d)
		})
		g.emitLoop(l, fmt.Sprintf("for %s := range %s {", x, src), body)
		g.line("tr(%s)", g.traceArg())
		g.indent--
		g.line("%s:", lbl)
		g.indent++
		g.line("tr(%s)", g.traceArg())
	})

	// iterator written in place as a closure (push-style, with its own state)
	register("range-func-local", 4, func(g *gen, d int) {
		it, x := g.fresh("it"), g.fresh("x")
		bound := g.smallBound()
		step := g.expr(tInt, 1)
		g.open("%s := func(yield func(int) bool) {", it)
		g.open("for i := 0; i < %s; i++ {", bound)
		g.open("if !yield(i*%s + %d) {", step, g.intn(5, "off"))
		g.line("tr(%s)", g.traceArg())
		g.line("return")
		g.close_("}")
		g.close_("}")
		g.close_("}")
		l, body := g.inLoop(false, func() {
			g.declare(&vr{name: x, ty: tInt, local: true})
			g.line("_ = %s", x)
			g.body(d)
		})
		g.emitLoop(l, fmt.Sprintf("for %s := range %s {", x, it), body)
	})
}
