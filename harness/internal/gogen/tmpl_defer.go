package gogen

import "fmt"

// namedIntResult returns a named result of the current function usable in a
// deferred closure, or nil.
func (g *gen) namedResult() *vr {
	if g.fn.resNames == nil {
		return nil
	}
	var cands []*vr
	for i, n := range g.fn.resNames {
		switch g.fn.res[i].Kind {
		case kInt, kString, kBool, kSlice, kStruct:
			for _, v := range g.visible(nil) {
				if v.name == n && v.ty == g.fn.res[i] {
					cands = append(cands, v)
				}
			}
		}
	}
	if len(cands) == 0 {
		return nil
	}
	return pickOf(g, cands, "namedres")
}

// modifyStmt emits a statement that updates v from its old value.
func (g *gen) modifyStmt(v *vr) {
	switch v.ty.Kind {
	case kInt:
		if v.ty == tInt {
			g.line("%s = %s*2 + %s", v.name, v.name, g.expr(tInt, 1))
		} else {
			g.line("%s += %s", v.name, g.expr(v.ty, 1))
		}
	case kString:
		g.line("%s = sub(%s+%s, 0, 12)", v.name, v.name, g.expr(tString, 1))
	case kBool:
		g.line("%s = !%s", v.name, v.name)
	case kSlice:
		g.line("%s = app(%s, %s)", v.name, v.name, g.expr(tInt, 1))
	case kStruct:
		g.line("%s.A += %s", v.name, g.expr(tInt, 1))
	}
}

// riskyStmt emits a statement that panics for some inputs.
func (g *gen) riskyStmt() {
	switch g.intn(5, "riskykind") {
	case 0:
		g.feat("div-maybe-zero")
		g.local(tInt, g.nc(tInt, 1)+" / ("+g.nc(tInt, 1)+" & 3)")
	case 1:
		g.feat("index-unguarded")
		g.local(tInt, g.expr(tSlice, 1)+"["+g.nc(tInt, 1)+" & 3]")
	case 2:
		g.feat("panic-explicit")
		g.open("if %s {", g.boolOp(1))
		g.line("panic(%s)", g.expr(tInt, 1))
		g.close_("}")
	case 3:
		g.feat("panic-explicit")
		g.feat("panic-string")
		g.open("if %s {", g.boolOp(1))
		g.line("panic(%s)", g.expr(tString, 1))
		g.close_("}")
	default:
		if v := g.pickVar(tI, "riskyi"); v != nil && !v.nonnil {
			g.feat("type-assert")
			g.local(tInt, v.name+".(T1).V")
			return
		}
		g.feat("deref-maybe-nil")
		g.local(tInt, "*argPInt("+g.nc(tInt, 1)+", 1)")
	}
}

// deferRecover emits a deferred closure that recovers and (if possible) sets a
// named result, optionally followed by a statement that may panic.
func (g *gen) deferRecover(risk bool) {
	g.feat("defer-recover")
	res := g.namedResult()
	g.open("defer func() {")
	g.inClosure(nil, nil, func() {
		g.open("if r := recover(); r != nil {")
		g.line("//gogen:recovered")
		g.line("tr(%d)", g.trk()*10)
		if res != nil {
			g.feat("defer-recover-named")
			g.modifyStmt(res)
		}
		if g.chance(25, "repanic") {
			g.feat("repanic")
			if g.chance(50, "repanicsame") {
				g.line("panic(r)")
			} else {
				g.line("panic(%s)", g.expr(tInt, 1))
			}
		}
		g.close_("}")
	})
	g.close_("}()")
	if risk {
		g.riskyStmt()
	}
}

func init() {
	// LIFO order and argument evaluation at defer time
	register("defer-lifo", 5, func(g *gen, d int) {
		x := g.local(tInt, g.expr(tInt, g.ed()))
		g.line("defer tr(%d)", g.trk()*10)
		g.feat("defer-arg-eval")
		g.line("defer tr(%d + (%s & 7))", g.trk()*10, x.name)
		g.line("%s = %s", x.name, g.expr(tInt, 1))
		g.line("defer tr(%d + (%s & 7))", g.trk()*10, x.name)
	})

	register("defer-loop", 4, func(g *gen, d int) {
		i := g.fresh("i")
		g.open("for %s := range %s {", i, g.smallBound())
		g.line("//gogen:loop")
		if g.chance(50, "deferclosure") {
			g.feat("closure-loop-var")
			g.line("defer func() { tr(%d + %s) }()", g.trk()*10, i)
		} else {
			g.line("defer tr(%d + %s)", g.trk()*10, i)
		}
		g.close_("}")
	})

	// deferred closure that recovers and (if possible) sets a named result;
	// followed by statements that may panic.
	register("defer-recover", 14, func(g *gen, d int) { g.deferRecover(g.chance(90, "riskafter")) })

	// deferred closure modifying named results without recover
	register("defer-modify-named", 4, func(g *gen, d int) {
		res := g.namedResult()
		g.open("defer func() {")
		g.inClosure(nil, nil, func() {
			if res != nil {
				g.modifyStmt(res)
			}
			g.line("tr(%s)", g.traceArg())
		})
		g.close_("}()")
	})

	// recover() called one level too deep does not stop the panic
	register("recover-nested", 5, func(g *gen, d int) {
		g.open("defer func() {")
		g.open("func() {")
		g.open("if r := recover(); r != nil {")
		g.line("tr(%d)", g.trk()*10)
		g.close_("} else {")
		g.indent++
		g.line("tr(%d)", g.trk()*10)
		g.close_("}")
		g.close_("}()")
		g.close_("}()")
		if g.chance(60, "riskafter") {
			g.riskyStmt()
		}
	})

	// deferred method values: value receiver is copied at defer time, pointer
	// receiver observes later updates.
	register("defer-method-value", 4, func(g *gen, d int) {
		acc := g.fresh("acc")
		g.line("%s := Acc{N: %s & 15}", acc, g.expr(tInt, 1))
		switch g.intn(3, "dmv") {
		case 0:
			g.line("defer %s.Note(%d)", acc, g.intn(9, "k"))
		case 1:
			g.feat("method-value")
			f := g.fresh("f")
			g.line("%s := %s.Note", f, acc)
			g.line("defer %s(%d)", f, g.intn(9, "k"))
		default:
			g.feat("method-value-ptr")
			g.line("defer %s.Add(%d)", acc, g.intn(9, "k"))
		}
		g.line("%s.N += %s & 7", acc, g.expr(tInt, 1))
		g.line("%s.Add(1)", acc)
	})

	// a local function with its own defer/recover around a risky computation:
	// the enclosing function continues with the (named) result.
	register("recover-local", 16, func(g *gen, d int) {
		f := g.fresh("try")
		g.open("%s := func(x int) (res int) {", f)
		g.inClosure([]*Type{tInt}, []string{"res"}, func() {
			g.declare(&vr{name: "x", ty: tInt, local: true})
			g.declare(&vr{name: "res", ty: tInt, local: true})
			g.open("defer func() {")
			g.open("if r := recover(); r != nil {")
			g.line("//gogen:recovered")
			g.line("res = %d - res", g.intn(100, "recval"))
			g.line("tr(%d)", g.trk()*10)
			g.close_("}")
			g.close_("}()")
			g.line("res = %s", g.expr(tInt, 1))
			g.riskyStmt()
			if g.chance(50, "trybody") {
				g.body(0)
			}
			g.line("return res + x")
		})
		g.close_("}")
		n := g.rng(1, 2, "ntry")
		for i := 0; i < n; i++ {
			g.local(tInt, fmt.Sprintf("%s(%s)", f, g.expr(tInt, 1)))
		}
	})
}
