package gogen

import (
	"fmt"
	"strings"
)

// shadowName returns the name of a visible local to be shadowed, or a fresh name.
func (g *gen) shadowName() string {
	if g.on("shadowing") && g.chance(35, "shadow") {
		vs := g.visible(func(v *vr) bool { return !v.global && strings.HasPrefix(v.name, "v") })
		if len(vs) > 0 {
			g.feat("shadowing")
			return pickOf(g, vs, "shadowv").name
		}
	}
	return g.fresh("v")
}

func (g *gen) ifStmt(d int) {
	g.push()
	defer g.pop()
	// nil-guard form: the guarded variable is non-nil inside the body
	if g.chance(18, "nilguard") {
		vs := g.visible(func(v *vr) bool {
			return !v.global && !v.nonnil && (v.ty == tPInt || v.ty == tPS || v.ty == tI)
		})
		if len(vs) > 0 {
			v := pickOf(g, vs, "guardv")
			g.feat("nil-guard")
			g.open("if %s != nil {", v.name)
			g.scoped(func() {
				g.declare(&vr{name: v.name, ty: v.ty, ro: true, nonnil: true, local: v.local})
				g.body(d)
			})
			if g.chance(40, "guardelse") {
				g.close_("} else {")
				g.indent++
				g.body(d)
			}
			g.close_("}")
			return
		}
	}
	head := ""
	if g.chance(30, "ifinit") {
		g.feat("if-init")
		ty := pickOf(g, []*Type{tInt, tInt, tString, tBool}, "initty")
		init := g.expr(ty, g.ed())
		name := g.shadowName()
		head = name + " := " + init + "; "
		g.declare(&vr{name: name, ty: ty, local: true})
		// the condition mentions the new variable so it is always used
		switch ty {
		case tInt:
			head += name + " " + pickOf(g, cmpOps, "cmp") + " " + g.expr(tInt, 1)
		case tString:
			head += "len(" + name + ") " + pickOf(g, cmpOps, "cmp") + " " + g.expr(tInt, 1)
		default:
			head += name + " || " + g.boolOp(1)
		}
	} else {
		head = g.boolOp(g.ed())
	}
	g.open("if %s {", head)
	g.body(d)
	n := g.weighted([]int{5, 3, 2}, "elseifs")
	if n > 1 {
		g.feat("else-if-chain")
	}
	for i := 1; i < n; i++ {
		g.close_("} else if %s {", g.boolOp(g.ed()))
		g.indent++
		g.body(d)
	}
	if g.chance(50, "else") {
		g.close_("} else {")
		g.indent++
		g.body(d)
	}
	g.close_("}")
}

// loopHeader emits `label:` (if used) and the header, then the captured body.
func (g *gen) emitLoop(l *loopCtx, header, body string) {
	if l.used {
		g.indent--
		g.line("%s:", l.label)
		g.indent++
	}
	g.line("%s", header)
	g.raw(body)
	g.line("}")
}

// inLoop runs f as the body of a breakable statement and returns its text.
func (g *gen) inLoop(isSwitch bool, f func()) (*loopCtx, string) {
	l := &loopCtx{label: g.label(), isSwitch: isSwitch}
	g.fn.loops = append(g.fn.loops, l)
	g.indent++
	body := g.capture(func() {
		if !isSwitch {
			g.line("//gogen:loop")
		}
		g.scoped(f)
	})
	g.indent--
	g.fn.loops = g.fn.loops[:len(g.fn.loops)-1]
	return l, body
}

// smallBound is a loop bound in 0..5.
func (g *gen) smallBound() string {
	switch g.weighted([]int{3, 4, 3}, "bound") {
	case 0:
		return fmt.Sprint(g.rng(0, 4, "boundlit"))
	case 1:
		return "(" + g.nc(tInt, 1) + " & 3)"
	default:
		return "((" + g.nc(tInt, 1) + " & 3) + " + fmt.Sprint(g.rng(1, 2, "boundadd")) + ")"
	}
}

const fuelGuard = "if fuel <= 0 { break }; fuel--"

func (g *gen) loopStmt(d int) {
	w := []int{6, 4, 3, 4, 5, 3, 3, 3}
	if g.fn.pure {
		w = []int{6, 0, 0, 4, 0, 0, 3, 0}
	}
	if !g.on("range-int") {
		w[3] = 0
	}
	switch g.weighted(w, "loopkind") {
	case 0:
		g.feat("for-3clause")
		i := g.fresh("i")
		bound := g.smallBound()
		l, body := g.inLoop(false, func() {
			g.declare(&vr{name: i, ty: tInt, ro: true, local: true})
			g.body(d)
		})
		g.emitLoop(l, fmt.Sprintf("for %s := 0; %s < %s; %s++ {", i, i, bound, i), body)
	case 1:
		g.feat("for-cond")
		n := g.fresh("n")
		g.line("%s := %s", n, g.smallBound())
		g.declare(&vr{name: n, ty: tInt, ro: true, local: true})
		l, body := g.inLoop(false, func() {
			g.line(fuelGuard)
			g.line("%s--", n)
			g.body(d)
		})
		g.emitLoop(l, fmt.Sprintf("for %s > 0 {", n), body)
	case 2:
		g.feat("for-infinite")
		k := g.fresh("k")
		g.line("%s := 0", k)
		g.declare(&vr{name: k, ty: tInt, ro: true, local: true})
		bound := g.smallBound()
		l, body := g.inLoop(false, func() {
			g.line(fuelGuard)
			g.line("%s++", k)
			g.open("if %s > %s {", k, bound)
			g.line("break")
			g.close_("}")
			g.body(d)
		})
		g.emitLoop(l, "for {", body)
	case 3:
		g.feat("range-int")
		bound := g.smallBound()
		if g.chance(30, "rangenovar") {
			l, body := g.inLoop(false, func() { g.body(d) })
			g.emitLoop(l, fmt.Sprintf("for range %s {", bound), body)
			return
		}
		i := g.fresh("i")
		l, body := g.inLoop(false, func() {
			g.declare(&vr{name: i, ty: tInt, ro: true, local: true})
			g.line("_ = %s", i)
			g.body(d)
		})
		g.emitLoop(l, fmt.Sprintf("for %s := range %s {", i, bound), body)
	case 4:
		g.feat("range-slice")
		src := g.expr(tSlice, 1)
		i, x := g.fresh("i"), g.fresh("x")
		form := g.intn(3, "rsform")
		l, body := g.inLoop(false, func() {
			if form != 1 {
				g.declare(&vr{name: i, ty: tInt, ro: true, local: true})
				g.line("_ = %s", i)
			}
			if form != 2 {
				g.declare(&vr{name: x, ty: tInt, local: true})
				g.line("_ = %s", x)
			}
			g.line(fuelGuard)
			g.body(d)
		})
		hdr := [...]string{i + ", " + x, "_, " + x, i}[form]
		g.emitLoop(l, fmt.Sprintf("for %s := range %s {", hdr, src), body)
	case 5:
		// range over an array copies it; range over *array does not: stores
		// made in the body are (in)visible to later iterations accordingly.
		arrs := g.writableVars(tArr)
		if len(arrs) == 0 {
			a := g.local(tArr, g.construct(tArr, 1))
			arrs = []*vr{a}
		}
		a := pickOf(g, arrs, "rarr")
		i, x := g.fresh("i"), g.fresh("x")
		viaPtr := g.chance(50, "rangeptr")
		l, body := g.inLoop(false, func() {
			g.declare(&vr{name: i, ty: tInt, ro: true, local: true})
			g.declare(&vr{name: x, ty: tInt, local: true})
			g.line("_ = %s", x)
			g.line("%s[(%s+1)&3] += %s", a.name, i, g.expr(tInt, 1))
			g.body(d)
		})
		if viaPtr {
			g.feat("range-ptr-array")
			g.emitLoop(l, fmt.Sprintf("for %s, %s := range &%s {", i, x, a.name), body)
		} else {
			g.feat("range-array")
			g.emitLoop(l, fmt.Sprintf("for %s, %s := range %s {", i, x, a.name), body)
		}
	case 6:
		g.feat("range-string")
		src := g.nc(tString, 1)
		i, r := g.fresh("i"), g.fresh("r")
		l, body := g.inLoop(false, func() {
			g.declare(&vr{name: i, ty: tInt, ro: true, local: true})
			g.declare(&vr{name: r, ty: tInt32, local: true})
			g.line("_, _ = %s, %s", i, r)
			if !g.fn.pure {
				g.line(fuelGuard)
			}
			g.body(d)
		})
		g.emitLoop(l, fmt.Sprintf("for %s, %s := range %s {", i, r, src), body)
	default:
		g.rangeMap()
	}
}

// rangeMap only accumulates commutatively, so iteration order is invisible.
func (g *gen) rangeMap() {
	g.feat("range-map")
	acc := g.local(tInt, "0")
	if g.chance(50, "mapkind") {
		m := g.expr(tMapSI, 1)
		g.open("for k, v := range %s {", m)
		g.line("%s %s len(k) + v", acc.name, pickOf(g, []string{"+=", "^="}, "mop"))
	} else {
		m := g.expr(tMapII, 1)
		if g.chance(30, "countonly") {
			g.open("for range %s {", m)
			g.line("%s++", acc.name)
		} else {
			g.open("for k, v := range %s {", m)
			g.line("%s %s k*3 ^ v", acc.name, pickOf(g, []string{"+=", "^="}, "mop"))
		}
	}
	g.close_("}")
}

func (g *gen) shadowBlock(d int) {
	g.feat("block")
	g.open("{")
	g.scoped(func() {
		ty := pickOf(g, []*Type{tInt, tString, tInt, tBool}, "shty")
		init := g.expr(ty, g.ed())
		name := g.shadowName()
		g.line("%s := %s", name, init)
		g.line("_ = %s", name)
		g.declare(&vr{name: name, ty: ty, local: true})
		g.body(d)
	})
	g.close_("}")
}

func (g *gen) switchStmt(d int) {
	kind := g.weighted([]int{4, 3, 3, 2, 2}, "swkind")
	var head string
	var caseExpr func(i int) string
	g.push()
	defer g.pop()
	init := ""
	if g.chance(25, "swinit") {
		g.feat("switch-init")
		name := g.shadowName()
		init = name + " := " + g.expr(tInt, g.ed()) + "; "
		g.declare(&vr{name: name, ty: tInt, local: true})
	}
	nclauses := g.rng(2, 4, "nclauses")
	switch kind {
	case 0:
		g.feat("switch-const")
		head = "(" + g.tagExpr(init) + " & 7)"
		perm := rapidPerm(g, 8)
		used := 0
		caseExpr = func(i int) string {
			n := g.rng(1, 2, "ncasevals")
			var vals []string
			for j := 0; j < n && used < len(perm); j++ {
				vals = append(vals, fmt.Sprint(perm[used]))
				used++
			}
			return strings.Join(vals, ", ")
		}
	case 1:
		g.feat("switch-nonconst")
		head = g.tagExpr(init)
		caseExpr = func(i int) string { return g.nc(tInt, 1) }
	case 2:
		g.feat("switch-tagless")
		head = ""
		if init != "" {
			head = " "
		}
		caseExpr = func(i int) string { return g.boolOp(g.ed()) }
	case 4:
		// constant cases over a tag whose evaluation creates blocks (short-circuit operators)
		g.feat("switch-bool-const")
		op := pickOf(g, []string{"&&", "||"}, "logop")
		if init != "" {
			head = "(" + g.initName(init) + " " + pickOf(g, cmpOps, "cmp") + " " + g.expr(tInt, 1) + " " + op + " " + g.boolOp(g.ed()) + ")"
		} else {
			head = "(" + g.nc(tBool, g.ed()) + " " + op + " " + g.boolOp(g.ed()) + ")"
		}
		vals := []string{"true", "false"}
		if g.chance(50, "boolorder") {
			vals[0], vals[1] = vals[1], vals[0]
		}
		nclauses = g.rng(1, 2, "nboolclauses")
		caseExpr = func(i int) string { return vals[i%2] }
	default:
		g.feat("switch-string")
		head = g.nc(tString, 1)
		strs := []string{`""`, `"a"`, `"ab"`, `"héllo"`, `"g"`}
		perm := rapidPerm(g, len(strs))
		caseExpr = func(i int) string { return strs[perm[i%len(perm)]] }
		if nclauses > len(strs) {
			nclauses = len(strs)
		}
		if init != "" {
			head = "sub(" + head + ", 0, 2+0*" + g.initName(init) + ")"
		}
	}
	if kind == 2 && init != "" {
		// tagless switch: use the init variable in the first case instead
		name := g.initName(init)
		old := caseExpr
		caseExpr = func(i int) string {
			if i == 0 {
				return name + " " + pickOf(g, cmpOps, "cmp") + " " + g.expr(tInt, 1)
			}
			return old(i)
		}
	}
	defaultAt := -1
	if g.chance(60, "hasdefault") {
		defaultAt = g.intn(nclauses+1, "defaultat")
		if defaultAt < nclauses {
			g.feat("switch-default-middle")
		}
	}
	total := nclauses
	if defaultAt >= 0 {
		total++
	}
	l, body := g.inLoop(true, func() {
		g.indent-- // case labels sit at the switch's own indentation
		ci := 0
		for c := 0; c < total; c++ {
			if c == defaultAt {
				g.line("default:")
			} else {
				g.line("case %s:", caseExpr(ci))
				ci++
			}
			g.indent++
			g.body(d)
			if c < total-1 && g.chance(20, "fallthrough") {
				g.feat("fallthrough")
				g.line("fallthrough")
			}
			g.indent--
		}
		g.indent++
	})
	g.emitLoop(l, strings.TrimRight(fmt.Sprintf("switch %s%s", init, head), " ")+" {", body)
}

// initName extracts the variable name from "name := expr; ".
func (g *gen) initName(init string) string { return init[:strings.Index(init, " := ")] }

// tagExpr is an int tag expression; it mentions the init variable if there is one.
func (g *gen) tagExpr(init string) string {
	if init != "" {
		return "(" + g.initName(init) + " + " + g.expr(tInt, 1) + ")"
	}
	return g.nc(tInt, g.ed())
}

// rapidPerm draws a permutation of 0..n-1.
func rapidPerm(g *gen, n int) []int {
	p := make([]int, n)
	for i := range p {
		p[i] = i
	}
	for i := n - 1; i > 0; i-- {
		j := g.intn(i+1, "perm")
		p[i], p[j] = p[j], p[i]
	}
	return p
}
