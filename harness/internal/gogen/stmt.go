package gogen

import (
	"fmt"
	"strings"
)

// ed is the expression depth used inside statements.
func (g *gen) ed() int { return g.rng(1, g.cfg.MaxExprDepth, "ed") }

// block emits n statements in a fresh scope.
func (g *gen) block(d, n int) {
	g.scoped(func() {
		for i := 0; i < n; i++ {
			g.stmt(d)
		}
	})
}

// body is the usual nested body: 1..3 statements.
func (g *gen) body(d int) { g.block(d, g.rng(1, 3, "bodyn")) }

// stmt emits one statement; d is the remaining nesting depth.
func (g *gen) stmt(d int) {
	g.budget--
	if g.fn.pure {
		g.pureStmt(d)
		return
	}
	compound := 0
	if d > 0 && g.budget > 0 {
		compound = 1
	}
	w := []int{
		6,             // 0 define
		7,             // 1 assign
		4,             // 2 trace
		3,             // 3 tuple assign
		5,             // 4 effectful call
		1,             // 5 guarded panic
		2,             // 6 map / builtin statement
		2,             // 7 conditional return
		8 * compound,  // 8 if
		9 * compound,  // 9 loop
		4 * compound,  // 10 switch
		2 * compound,  // 11 type switch
		20 * compound, // 12 template
		1 * compound,  // 13 bare block with shadowing
		2,             // 14 break/continue
	}
	switch g.weighted(w, "stmt") {
	case 0:
		g.defineStmt()
	case 1:
		g.assignStmt()
	case 2:
		g.line("tr(%s)", g.traceArg())
	case 3:
		g.tupleAssign()
	case 4:
		g.effectCall()
	case 5:
		g.guardedPanic()
	case 6:
		g.builtinStmt()
	case 7:
		g.condReturn()
	case 8:
		g.ifStmt(d - 1)
	case 9:
		g.loopStmt(d - 1)
	case 10:
		g.switchStmt(d - 1)
	case 11:
		g.typeSwitch(d - 1)
	case 12:
		g.template(d - 1)
	case 13:
		g.shadowBlock(d - 1)
	default:
		g.jumpStmt()
	}
}

// traceArg is `k` or `k + expr%10`-like so that the trace depends on data.
func (g *gen) traceArg() string {
	k := g.trk() * 10
	if g.chance(50, "trdata") {
		return fmt.Sprintf("%d + (%s & 7)", k, g.nc(tInt, 1))
	}
	return fmt.Sprint(k)
}

// initFor returns an initialiser for a new variable of type ty and whether it
// is known to be non-nil.
func (g *gen) initFor(ty *Type) (string, bool) {
	switch ty.Kind {
	case kPtrInt, kPtrS, kPtrArr, kIface, kFunc:
		if v := g.pickVar(ty, "initvar"); v != nil && g.chance(30, "initcopy") {
			return v.name, v.nonnil
		}
		if ty.Kind == kIface && g.chance(12, "initnil") {
			return "I(nil)", false
		}
		for {
			s := g.construct(ty, g.ed())
			if s != "I(nil)" {
				return s, true
			}
		}
	}
	return g.expr(ty, g.ed()), false
}

func (g *gen) defineStmt() {
	ty := pickOf(g, localTypes, "localty")
	if g.chance(6, "varzero") {
		g.feat("var-zero")
		g.localVar(ty)
		return
	}
	init, nn := g.initFor(ty)
	v := g.local(ty, init)
	v.nonnil = nn
}

// lvalue returns an assignable expression of type ty (ok=false when none).
func (g *gen) lvalue(ty *Type) (string, bool) {
	vars := g.writableVars(ty)
	if ty == tInt && !g.fn.pure && g.chance(45, "lvkind") {
		switch g.intn(6, "lvint") {
		case 0:
			if v := g.pickVar(tPInt, "lvptr"); v != nil && !v.global && (v.nonnil || g.risky("lvderef")) {
				g.feat("store-through-ptr")
				return "*" + v.name, true
			}
		case 1:
			if vs := g.writableVars(tS); len(vs) > 0 {
				g.feat("field-assign")
				f := pickOf(g, []string{".A", ".In.X", ".ID", ".Base.ID"}, "lvfield")
				if f == ".ID" {
					g.feat("embedded-promoted")
				}
				return pickOf(g, vs, "lvs").name + f, true
			}
		case 2:
			if v := g.pickVar(tPS, "lvps"); v != nil && (v.nonnil || g.risky("lvpsderef")) {
				g.feat("ptr-field")
				return v.name + pickOf(g, []string{".A", ".In.X", ".ID"}, "lvfield"), true
			}
		case 3:
			if vs := g.writableVars(tArr); len(vs) > 0 {
				g.feat("array-store")
				return pickOf(g, vs, "lvarr").name + "[" + g.idx(4, 1) + "]", true
			}
		case 4:
			if v := g.pickVar(tSlice, "lvsl"); v != nil && g.risky("lvslice") {
				g.feat("slice-store")
				return v.name + "[" + g.idx(3, 1) + "]", true
			}
		case 5:
			if v := g.pickVar(tMapII, "lvmap"); v != nil {
				g.feat("map-store")
				return v.name + "[" + g.expr(tInt, 1) + "]", true
			}
		}
	}
	if len(vars) == 0 {
		return "", false
	}
	return pickOf(g, vars, "lvvar").name, true
}

var assignTypes = []*Type{tInt, tInt, tInt, tInt, tString, tBool, tInt8, tUint8, tInt32, tUint64, tSlice, tS, tArr, tI, tPInt, tPS}

func (g *gen) assignStmt() {
	ty := pickOf(g, assignTypes, "asty")
	lv, ok := g.lvalue(ty)
	if !ok {
		ty = tInt
		if lv, ok = g.lvalue(tInt); !ok {
			g.defineStmt()
			return
		}
	}
	switch ty.Kind {
	case kInt:
		switch g.weighted([]int{5, 4, 2}, "askind") {
		case 0:
			g.line("%s = %s", lv, g.expr(ty, g.ed()))
		case 1:
			g.feat("compound-assign")
			op := pickOf(g, []string{"+=", "-=", "*=", "^=", "|=", "&=", "&^=", "<<=", ">>=", "/=", "%="}, "cop")
			switch op {
			case "<<=", ">>=":
				g.line("%s %s (%s & 7)", lv, op, g.expr(tInt, 1))
			case "/=", "%=":
				if g.risky("cdiv") {
					g.feat("div-maybe-zero")
					g.line("%s %s %s", lv, op, g.nc(ty, 1))
				} else {
					g.line("%s %s (%s | 1)", lv, op, g.nc(ty, 1))
				}
			default:
				g.line("%s %s %s", lv, op, g.expr(ty, g.ed()))
			}
		default:
			g.feat("incdec")
			g.line("%s%s", lv, pickOf(g, []string{"++", "--"}, "incdec"))
		}
	case kString:
		if g.chance(40, "strcat") {
			// keep strings short: concatenate only a bounded piece
			g.line("%s = sub(%s+%s, 0, 12)", lv, lv, g.expr(tString, 1))
		} else {
			g.line("%s = %s", lv, g.expr(ty, g.ed()))
		}
	case kPtrInt, kPtrS, kIface:
		g.assignRef(ty, lv)
	default:
		g.line("%s = %s", lv, g.expr(ty, g.ed()))
	}
}

// assignRef keeps the non-nil flag of reference variables truthful.
func (g *gen) assignRef(ty *Type, lv string) {
	var target *vr
	for _, v := range g.varsOf(ty) {
		if v.name == lv {
			target = v
		}
	}
	if target != nil && !target.nonnil {
		g.line("%s = %s", lv, g.expr(ty, g.ed()))
		return
	}
	for {
		s := g.construct(ty, g.ed())
		if s != "I(nil)" {
			g.line("%s = %s", lv, s)
			return
		}
	}
}

// tupleAssign: swaps, rotations, and mixed index/variable tuple assignment.
func (g *gen) tupleAssign() {
	ints := g.writableVars(tInt)
	switch g.intn(4, "tuplekind") {
	case 0:
		if len(ints) >= 2 {
			a, b := g.twoDistinct(ints)
			g.feat("swap-assign")
			g.line("%s, %s = %s, %s", a.name, b.name, b.name, a.name)
			return
		}
	case 1:
		if len(ints) >= 3 {
			g.feat("rotate-assign")
			a, b, c := ints[0], ints[1], ints[2]
			g.line("%s, %s, %s = %s, %s, %s", a.name, b.name, c.name, b.name, c.name, a.name)
			return
		}
	case 2:
		// i, a[i] = e1, e2: index operands are evaluated before any assignment.
		arrs := g.writableVars(tArr)
		if len(ints) >= 1 && len(arrs) >= 1 {
			g.feat("tuple-index-assign")
			i := pickOf(g, ints, "ti")
			a := pickOf(g, arrs, "ta")
			if g.chance(50, "tiorder") {
				g.line("%s, %s[%s & 3] = %s, %s", i.name, a.name, i.name, g.expr(tInt, 1), g.expr(tInt, 1))
			} else {
				g.line("%s[%s & 3], %s = %s, %s", a.name, i.name, i.name, g.expr(tInt, 1), g.expr(tInt, 1))
			}
			return
		}
	}
	// generic two-target assignment with a blank
	if lv, ok := g.lvalue(tInt); ok {
		g.feat("blank-assign")
		g.line("%s, _ = %s, %s", lv, g.expr(tInt, g.ed()), g.expr(tString, 1))
		return
	}
	g.defineStmt()
}

func (g *gen) twoDistinct(vs []*vr) (*vr, *vr) {
	i := g.intn(len(vs), "d1")
	j := g.intn(len(vs)-1, "d2")
	if j >= i {
		j++
	}
	return vs[i], vs[j]
}

func (g *gen) guardedPanic() {
	g.feat("panic-explicit")
	g.open("if %s {", g.boolOp(1))
	if g.chance(50, "panickind") {
		g.line("panic(%s)", g.expr(tInt, 1))
	} else {
		g.feat("panic-string")
		g.line("panic(%s)", g.expr(tString, 1))
	}
	g.close_("}")
}

func (g *gen) builtinStmt() {
	switch g.intn(5, "builtin") {
	case 0:
		if v := g.pickVar(tMapSI, "msi"); v != nil {
			g.feat("map-store")
			g.line("%s[%s] = %s", v.name, g.expr(tString, 1), g.expr(tInt, g.ed()))
			return
		}
	case 1:
		if v := g.pickVar(tMapSI, "msi"); v != nil {
			g.feat("map-delete")
			g.line("delete(%s, %s)", v.name, g.expr(tString, 1))
			return
		}
	case 2:
		if v := g.pickVar(tMapII, "mii"); v != nil {
			g.feat("clear")
			if g.chance(50, "cleardel") {
				g.feat("map-delete")
				g.line("delete(%s, %s)", v.name, g.expr(tInt, 1))
			} else {
				g.line("clear(%s)", v.name)
			}
			return
		}
	case 3:
		if v := g.pickVar(tSlice, "cpdst"); v != nil {
			g.feat("copy")
			g.line("copy(%s, %s)", v.name, g.expr(tSlice, 1))
			return
		}
	}
	if vs := g.writableVars(tSlice); len(vs) > 0 {
		v := pickOf(g, vs, "clearsl")
		if g.chance(40, "clearslice") {
			g.feat("clear")
			g.line("clear(%s)", v.name)
			return
		}
		// direct append; the 3-index reslice keeps cap == len so that later
		// aliasing never depends on the implementation's growth policy.
		g.feat("append-direct")
		g.line("%s = append(%s, %s)", v.name, v.name, g.expr(tInt, 1))
		g.line("%s = %s[:len(%s):len(%s)]", v.name, v.name, v.name, v.name)
		return
	}
	g.line("tr(%s)", g.traceArg())
}

// zeroResults is the `return` operand list made of zero values.
func (g *gen) zeroResults() string {
	var parts []string
	for _, r := range g.fn.res {
		parts = append(parts, r.zero())
	}
	return strings.Join(parts, ", ")
}

// returnLine emits a return statement for the current function.
func (g *gen) returnLine() {
	if len(g.fn.res) == 0 {
		g.line("return")
		return
	}
	if g.fn.resNames != nil && g.chance(40, "bareret") {
		g.feat("bare-return")
		g.line("return")
		return
	}
	// return F(args) when a lower target has the same result list
	if g.fn.index > 0 && g.chance(25, "retfwd") {
		for j := g.fn.index - 1; j >= 0; j-- {
			t := g.targets[j]
			if sameTypes(t.res, g.fn.res) {
				g.feat("return-call")
				if len(t.res) > 1 {
					g.feat("multi-return-forward")
				}
				g.line("return %s", g.targetCall(t))
				return
			}
		}
	}
	var parts []string
	for _, r := range g.fn.res {
		e := g.expr(r, g.ed())
		if g.fn.resNames == nil && (r.Kind == kStruct || r.Kind == kArr || r.Kind == kInner) {
			// An unnamed composite result is returned through a local: the compiler may build
			// a composite literal directly in the result slot, so that a panic half-way through
			// (recovered by a deferred function) leaves a partly written result. That is
			// compiler-specific behaviour and not part of the semantics the IR is compared with.
			tmp := g.fresh("ret")
			g.line("%s := %s", tmp, e)
			e = tmp
		}
		parts = append(parts, e)
	}
	if len(parts) > 1 {
		g.feat("multi-return")
	}
	g.line("return %s", strings.Join(parts, ", "))
}

func sameTypes(a, b []*Type) bool {
	if len(a) != len(b) {
		return false
	}
	for i := range a {
		if a[i] != b[i] {
			return false
		}
	}
	return true
}

func (g *gen) condReturn() {
	if g.fn.noReturn {
		g.line("tr(%s)", g.traceArg())
		return
	}
	g.feat("early-return")
	g.open("if %s {", g.boolOp(g.ed()))
	g.returnLine()
	g.close_("}")
}

// jumpStmt emits break/continue (possibly labelled) when inside a loop.
func (g *gen) jumpStmt() {
	if len(g.fn.loops) == 0 {
		g.assignStmt()
		return
	}
	g.open("if %s {", g.boolOp(1))
	defer g.close_("}")
	inner := g.fn.loops[len(g.fn.loops)-1]
	if len(g.fn.loops) >= 2 && g.chance(50, "labelled") {
		l := g.fn.loops[g.intn(len(g.fn.loops)-1, "outer")]
		l.used = true
		if !l.isSwitch && g.chance(50, "lcont") {
			g.feat("labeled-continue")
			g.line("continue %s", l.label)
		} else {
			g.feat("labeled-break")
			g.line("break %s", l.label)
		}
		return
	}
	if inner.isSwitch {
		hasLoop := false
		for _, l := range g.fn.loops {
			if !l.isSwitch {
				hasLoop = true
			}
		}
		if hasLoop && g.chance(50, "swcont") {
			g.feat("continue-in-switch")
			g.line("continue")
			return
		}
		g.feat("break-in-switch")
		g.line("break")
		return
	}
	if g.chance(50, "brk") {
		g.feat("break")
		g.line("break")
	} else {
		g.feat("continue")
		g.line("continue")
	}
}
