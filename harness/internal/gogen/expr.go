package gogen

import (
	"fmt"
	"strings"
)

// Expression generation.
//
// Invariants:
//   - every expression produced here is free of side effects (it may raise a
//     run-time panic, nothing else), so it can be nested freely;
//   - every operator / conversion / builtin node has at least one operand made
//     by nc (non-constant), hence no node other than a bare literal or named
//     constant is a constant expression: the compiler never folds, so constant
//     overflow, constant division by zero and constant index checks cannot
//     reject the program.

var intPool = []int{0, 1, 2, 3, 5, 7, 10, 100, -1, -2, -128, 127, 255, 256, 65535, 1 << 31}

func paren(n int) string {
	if n < 0 {
		return fmt.Sprintf("(%d)", n)
	}
	return fmt.Sprintf("%d", n)
}

// lit returns a constant literal of an integer/bool/string type.
func (g *gen) lit(ty *Type) string {
	switch ty.Kind {
	case kInt:
		if ty == tInt {
			if g.chance(12, "namedconst") {
				g.feat("const-iota")
				return pickOf(g, []string{"KA", "KB", "KC", "KE", "KBig"}, "kname")
			}
			return paren(pickOf(g, intPool, "intlit"))
		}
		var v int
		switch ty {
		case tInt8:
			v = pickOf(g, []int{0, 1, 2, 3, 7, -1, -128, 127, 100}, "i8lit")
		case tUint8:
			if g.chance(15, "maskconst") {
				g.feat("const-typed")
				return pickOf(g, []string{"MaskLo", "MaskMid", "MaskHi"}, "mname")
			}
			v = pickOf(g, []int{0, 1, 2, 3, 7, 128, 255, 200}, "u8lit")
		case tInt32:
			if g.chance(15, "ktyped") {
				g.feat("const-typed")
				return "KTyped"
			}
			v = pickOf(g, []int{0, 1, 2, 3, -1, 1<<31 - 1, -1 << 31, 1000}, "i32lit")
		case tUint64:
			if g.chance(15, "u64big") {
				return "uint64(1<<63 + 5)"
			}
			v = pickOf(g, []int{0, 1, 2, 3, 7, 1 << 40, 255}, "u64lit")
		}
		return fmt.Sprintf("%s(%d)", ty.Name, v)
	case kBool:
		if g.chance(50, "boollit") {
			return "true"
		}
		return "false"
	case kString:
		if g.chance(10, "kname") {
			g.feat("const-typed")
			return "KName"
		}
		return pickOf(g, []string{`""`, `"a"`, `"ab"`, `"héllo"`, `"xyz"`, `"q\"z"`}, "strlit")
	}
	panic("lit: " + ty.Name)
}

// nonzeroLit returns a non-zero constant of an integer type.
func (g *gen) nonzeroLit(ty *Type) string {
	v := pickOf(g, []int{1, 2, 3, 5, 7, -1, -3}, "nzlit")
	if ty.Uns && v < 0 {
		v = -v
	}
	if ty == tInt {
		return paren(v)
	}
	return fmt.Sprintf("%s(%d)", ty.Name, v)
}

// nc returns a non-constant expression of type ty.
func (g *gen) nc(ty *Type, d int) string {
	if d > 0 && g.chance(35, "ncdeep") {
		return g.op(ty, d-1)
	}
	if v := g.pickVar(ty, "ncvar"); v != nil {
		return v.name
	}
	// No variable of that type: derive from something that always exists.
	switch ty.Kind {
	case kInt:
		if ty == tInt {
			return "gI"
		}
		return ty.Name + "(" + g.nc(tInt, 0) + ")"
	case kBool:
		return "(" + g.nc(tInt, 0) + " > " + g.lit(tInt) + ")"
	case kString:
		return "gStr"
	}
	return g.construct(ty, d)
}

// expr returns an expression of type ty (possibly a constant for basic types).
func (g *gen) expr(ty *Type, d int) string {
	if d <= 0 || g.chance(25, "leaf") {
		return g.leaf(ty, d)
	}
	return g.op(ty, d-1)
}

func (g *gen) leaf(ty *Type, d int) string {
	if v := g.pickVar(ty, "leafvar"); v != nil && g.chance(80, "usevar") {
		return v.name
	}
	switch ty.Kind {
	case kInt, kBool, kString:
		if ty.Kind == kBool {
			return g.nc(tBool, 0)
		}
		return g.lit(ty)
	}
	return g.construct(ty, d)
}

// op returns a non-constant, non-leaf (when possible) expression of type ty.
func (g *gen) op(ty *Type, d int) string {
	switch ty.Kind {
	case kInt:
		if ty == tInt {
			return g.intOp(d)
		}
		return g.smallOp(ty, d)
	case kBool:
		return g.boolOp(d)
	case kString:
		return g.strOp(d)
	}
	return g.construct(ty, d)
}

// idx returns an index expression meant for a sequence of roughly n elements.
func (g *gen) idx(n int, d int) string {
	switch g.weighted([]int{4, 5, 1}, "idxkind") {
	case 0:
		return fmt.Sprintf("%d", g.intn(n, "idxlit"))
	case 1:
		if n == 4 {
			return "(" + g.nc(tInt, d) + " & 3)"
		}
		return "(" + g.nc(tInt, d) + " & 1)"
	}
	g.feat("index-unguarded")
	return g.nc(tInt, d)
}

// risky says whether to emit the unguarded (possibly panicking) variant.
func (g *gen) risky(label string) bool { return g.chance(9, label) }

var arithOps = []string{"+", "-", "*", "&", "|", "^", "&^", "+", "-"}

func (g *gen) intOp(d int) string {
	w := []int{
		10, // 0 arith
		3,  // 1 div/mod
		2,  // 2 shift
		3,  // 3 len/cap
		4,  // 4 index
		2,  // 5 deref
		4,  // 6 field
		2,  // 7 map lookup
		3,  // 8 conversion
		2,  // 9 min/max
		5,  // 10 pure call
		3,  // 11 generic call
		2,  // 12 method expr / method value
		1,  // 13 type assertion
		1,  // 14 IIFE
		1,  // 15 string byte
	}
	switch g.weighted(w, "intop") {
	case 0:
		return "(" + g.nc(tInt, d) + " " + pickOf(g, arithOps, "aop") + " " + g.expr(tInt, d) + ")"
	case 1:
		return g.divmod(tInt, d)
	case 2:
		return g.shift(tInt, d)
	case 3:
		return g.lenExpr(d)
	case 4:
		return g.indexInt(d)
	case 5:
		return g.derefInt(d)
	case 6:
		return g.fieldInt(d)
	case 7:
		g.feat("map-lookup")
		if g.chance(50, "mapkind") {
			return g.expr(tMapII, d) + "[" + g.expr(tInt, d) + "]"
		}
		return g.expr(tMapSI, d) + "[" + g.expr(tString, d) + "]"
	case 8:
		g.feat("int-conv")
		st := pickOf(g, smallInts, "convfrom")
		return "int(" + g.nc(st, d) + ")"
	case 9:
		g.feat("min-max")
		if g.chance(50, "minmax") {
			return "min(" + g.nc(tInt, d) + ", " + g.expr(tInt, d) + ")"
		}
		return "max(" + g.nc(tInt, d) + ", " + g.expr(tInt, d) + ", " + g.expr(tInt, d) + ")"
	case 10:
		return g.pureCallInt(d)
	case 11:
		return g.genericInt(d)
	case 12:
		return g.methodExprInt(d)
	case 13:
		return g.assertInt(d)
	case 14:
		return g.iife(d)
	default:
		g.feat("string-index")
		s := g.nc(tString, d)
		if g.risky("stridx") {
			g.feat("index-unguarded")
			return "int(" + s + "[" + g.idx(2, d) + "])"
		}
		// guarded through sub: empty result gives len 0
		return "len(sub(" + s + ", " + g.expr(tInt, d) + ", " + g.expr(tInt, d) + "))"
	}
}

func (g *gen) divmod(ty *Type, d int) string {
	op := pickOf(g, []string{"/", "%"}, "divop")
	l := g.nc(ty, d)
	var r string
	switch g.weighted([]int{5, 4, 2}, "divisor") {
	case 0:
		r = g.nonzeroLit(ty)
	case 1:
		r = "(" + g.nc(ty, d) + " | 1)"
	default:
		g.feat("div-maybe-zero")
		r = g.nc(ty, d)
	}
	g.feat("divmod")
	return "(" + l + " " + op + " " + r + ")"
}

func (g *gen) shift(ty *Type, d int) string {
	op := pickOf(g, []string{"<<", ">>"}, "shop")
	g.feat("shift")
	if g.chance(35, "shunsigned") {
		g.feat("shift-unsigned-count")
		return "(" + g.nc(ty, d) + " " + op + " " + g.nc(tUint8, d) + ")"
	}
	return "(" + g.nc(ty, d) + " " + op + " (" + g.expr(tInt, d) + " & 7))"
}

func (g *gen) smallOp(ty *Type, d int) string {
	switch g.weighted([]int{8, 6, 2, 2, 2, 1}, "smallop") {
	case 0:
		g.feat("small-int-arith")
		return "(" + g.nc(ty, d) + " " + pickOf(g, arithOps, "aop") + " " + g.expr(ty, d) + ")"
	case 1:
		g.feat("int-conv")
		from := pickOf(g, []*Type{tInt, tInt, tInt8, tUint8, tInt32, tUint64}, "convsrc")
		if from == ty {
			from = tInt
		}
		return ty.Name + "(" + g.nc(from, d) + ")"
	case 2:
		return g.shift(ty, d)
	case 3:
		return g.divmod(ty, d)
	case 4:
		g.feat("generic-func")
		if g.chance(50, "gexplicit") {
			g.feat("generic-explicit")
			return "gsum[" + ty.Name + "](" + g.nc(ty, d) + ", " + g.expr(ty, d) + ")"
		}
		return "gsum(" + g.nc(ty, d) + ", " + g.expr(ty, d) + ")"
	default:
		switch ty {
		case tInt8:
			return g.expr(tS, d) + ".In.Y"
		case tUint8:
			g.feat("string-index")
			return "(sub(" + g.nc(tString, d) + ", 0, 1) + \"k\")[0]"
		case tInt32:
			g.feat("generic-func")
			return "gdouble(" + g.nc(tInt32, d) + ")"
		}
		return "(^" + g.nc(ty, d) + ")"
	}
}

func (g *gen) lenExpr(d int) string {
	switch g.weighted([]int{4, 4, 2, 2, 1}, "lenkind") {
	case 0:
		return "len(" + g.nc(tString, d) + ")"
	case 1:
		return "len(" + g.expr(tSlice, d) + ")"
	case 2:
		g.feat("cap")
		return "cap(" + g.expr(tSlice, d) + ")"
	case 3:
		return "len(" + g.expr(tMapSI, d) + ")"
	default:
		return "len(" + g.expr(tMapII, d) + ")"
	}
}

func (g *gen) indexInt(d int) string {
	switch g.weighted([]int{4, 3, 3, 1}, "indexkind") {
	case 0:
		g.feat("array-index")
		if v := g.pickVar(tArr, "arrvar"); v != nil {
			return v.name + "[" + g.idx(4, d) + "]"
		}
		return "gSl[" + g.idx(3, d) + "]"
	case 1:
		return "at(" + g.expr(tSlice, d) + ", " + g.expr(tInt, d) + ")"
	case 2:
		g.feat("slice-index")
		return g.expr(tSlice, d) + "[" + g.idx(3, d) + "]"
	default:
		if v := g.pickVar(tPArr, "parrvar"); v != nil && v.nonnil {
			g.feat("ptr-array-index")
			return v.name + "[" + g.idx(4, d) + "]"
		}
		return "at(" + g.expr(tSlice, d) + ", " + g.idx(3, d) + ")"
	}
}

func (g *gen) derefInt(d int) string {
	v := g.pickVar(tPInt, "ptrvar")
	if v == nil {
		return "deref(gP, " + g.expr(tInt, d) + ")"
	}
	if v.nonnil || g.risky("deref") {
		g.feat("deref")
		if !v.nonnil {
			g.feat("deref-maybe-nil")
		}
		return "*" + v.name
	}
	return "deref(" + v.name + ", " + g.expr(tInt, d) + ")"
}

func (g *gen) fieldInt(d int) string {
	f := pickOf(g, []string{".A", ".In.X", ".ID", ".Base.ID", ".A", ".In.X"}, "field")
	if f == ".ID" {
		g.feat("embedded-promoted")
	}
	if g.chance(30, "viaptr") {
		if v := g.pickVar(tPS, "psvar"); v != nil && (v.nonnil || g.risky("psderef")) {
			g.feat("ptr-field")
			return v.name + f
		}
	}
	return g.expr(tS, d) + f
}

func joinN(n int, f func() string) string {
	var parts []string
	for i := 0; i < n; i++ {
		parts = append(parts, f())
	}
	return strings.Join(parts, ", ")
}
