package gogen

import "fmt"

// flatStmt emits a statement that declares nothing at the current block level
// (needed between labels: goto must not jump over variable declarations).
func (g *gen) flatStmt() {
	switch g.weighted([]int{5, 3, 2, 1, 2}, "flat") {
	case 0:
		if lv, ok := g.lvalue(tInt); ok {
			g.line("%s = %s", lv, g.expr(tInt, g.ed()))
			return
		}
	case 1:
		if vs := g.writableVars(tInt); len(vs) > 0 {
			g.feat("compound-assign")
			g.line("%s %s %s", pickOf(g, vs, "flatv").name, pickOf(g, []string{"+=", "-=", "^=", "*="}, "cop"), g.expr(tInt, 1))
			return
		}
	case 2:
		if vs := g.writableVars(tString); len(vs) > 0 {
			v := pickOf(g, vs, "flats")
			g.line("%s = sub(%s+%s, 0, 12)", v.name, v.name, g.expr(tString, 1))
			return
		}
	case 3:
		g.condReturn()
		return
	case 4:
		g.open("{")
		g.body(1)
		g.close_("}")
		return
	}
	g.line("tr(%s)", g.traceArg())
}

// gotoGraph draws an arbitrary small digraph on 3..6 labels and emits it as
// labelled blocks ending in fuel-guarded conditional gotos. All variables are
// declared before the first label. The graph may contain self loops,
// irreducible (two-entry) loops and blocks that are unreachable.
func (g *gen) gotoGraph() {
	g.feat("goto-graph")
	n := g.rng(3, 6, "gnodes")
	st := g.local(tInt, g.expr(tInt, 1))
	acc := g.local(tInt, g.expr(tInt, 1))
	labels := make([]string, n)
	for i := range labels {
		labels[i] = g.label()
	}
	type edge struct {
		to     int
		uncond bool
	}
	edges := make([][]edge, n)
	indeg := make([]int, n)
	for i := 0; i < n; i++ {
		k := g.weighted([]int{2, 5, 3}, "gout")
		for j := 0; j < k; j++ {
			to := g.intn(n, "gto")
			edges[i] = append(edges[i], edge{to: to})
			indeg[to]++
			switch {
			case to == i:
				g.feat("goto-self-loop")
			case to < i:
				g.feat("goto-back")
			default:
				g.feat("goto-forward")
			}
		}
		// sometimes finish the block with an unconditional forward jump, which
		// makes the next block unreachable by fall-through
		if i+2 < n && g.chance(25, "guncond") {
			to := g.rng(i+2, n-1, "gunto")
			edges[i] = append(edges[i], edge{to: to, uncond: true})
			indeg[to]++
			g.feat("goto-unconditional")
		}
	}
	// every label must be used: reference orphan labels, from dead code after an
	// unconditional goto when there is one (keeps them unreachable), else from a
	// live conditional goto.
	dead := map[int][]int{}
	for i := 0; i < n; i++ {
		if indeg[i] > 0 {
			continue
		}
		host := -1
		for b := 0; b < n; b++ {
			if len(edges[b]) > 0 && edges[b][len(edges[b])-1].uncond && g.chance(60, "gdeadhost") {
				host = b
				break
			}
		}
		if host >= 0 {
			dead[host] = append(dead[host], i)
			g.feat("goto-unreachable-label")
		} else {
			from := g.intn(n, "gorphanfrom")
			edges[from] = append([]edge{{to: i}}, edges[from]...)
		}
		indeg[i]++
	}
	// a two-entry loop: some cycle a->b->a (a<b) with an extra entry into b from before a
	for a := 0; a < n; a++ {
		for _, e := range edges[a] {
			if e.to > a {
				for _, back := range edges[e.to] {
					if back.to == a {
						for c := 0; c < a; c++ {
							for _, in := range edges[c] {
								if in.to == e.to {
									g.feat("goto-irreducible")
								}
							}
						}
					}
				}
			}
		}
	}
	for i := 0; i < n; i++ {
		g.indent--
		g.line("%s:", labels[i])
		g.indent++
		g.line("tr(%d + (%s & 3))", g.trk()*10, st.name)
		g.line("%s = %s*3 + %d", acc.name, acc.name, i)
		for k := g.rng(0, 2, "gstmts"); k > 0; k-- {
			g.flatStmt()
		}
		g.line("%s++", st.name)
		for _, e := range edges[i] {
			if e.uncond {
				g.line("goto %s", labels[e.to])
				continue
			}
			cond := fmt.Sprintf("(%s+%s)&%d == %d", st.name, acc.name, pickOf(g, []int{1, 3}, "gmask"), g.intn(2, "gval"))
			if g.chance(40, "gcondgen") {
				cond = g.boolOp(1)
			}
			g.open("if fuel > 0 && %s {", cond)
			g.line("fuel--")
			g.line("goto %s", labels[e.to])
			g.close_("}")
		}
		for _, to := range dead[i] {
			g.line("goto %s", labels[to])
		}
	}
	g.line("tr(%d + (%s & 7))", g.trk()*10, acc.name)
}
