package gogen

import (
	"fmt"
	"strings"
)

// ifaceRecv returns an interface-typed receiver expression and whether a
// method call on it may hit nil.
func (g *gen) ifaceRecv(d int) (string, bool) {
	v := g.pickVar(tI, "ivar")
	if v == nil {
		return g.construct(tI, d), false
	}
	return v.name, !v.nonnil
}

func (g *gen) pureCallInt(d int) string {
	switch g.weighted([]int{3, 3, 3, 3, 2, 1, 2}, "purecall") {
	case 6:
		// f(g()) with a multi-result g: every flattened result is converted to its
		// parameter type (here: a concrete type to an interface), not only the first
		g.feat("chained-multi-result-call")
		a, b := g.nc(tInt, d), g.expr(tInt, d)
		switch g.intn(4, "chainkind") {
		case 0:
			return "func() int { g := func() (int, *T2) { return " + a + ", &T2{W: " + b + "} }; f := func(x int, i I) int { return x + i.Get() }; return f(g()) }()"
		case 1:
			return "func() int { g := func() (int, MyErr) { return " + a + ", MyErr{Code: " + b + "} }; f := func(x int, e error) int { return x + len(e.Error()) }; return f(g()) }()"
		case 2:
			return "func() int { g := func() (T1, int, T3) { return T1{V: " + a + "}, " + b + ", T3(2) }; f := func(i I, x int, j any) int { _, ok := j.(I); return i.Get() + x + len(btoa(ok)) }; return f(g()) }()"
		default:
			return "func() (r int) { g := func() (int, *T2) { return " + a + ", &T2{W: " + b + "} }; f := func(x int, is ...I) { for _, i := range is { r += x + i.Get() } }; defer f(g()); return 1 }()"
		}
	case 0:
		r, maybeNil := g.ifaceRecv(d)
		if !maybeNil || g.risky("icall") {
			g.feat("iface-call")
			return r + ".Get()"
		}
		return "getI(" + r + ")"
	case 1:
		switch g.intn(3, "smeth") {
		case 0:
			g.feat("method-value-recv")
			return g.expr(tS, d) + ".Sum()"
		case 1:
			g.feat("embedded-promoted-method")
			return g.expr(tS, d) + ".Describe()"
		default:
			return g.expr(tS, d) + ".Base.Describe()"
		}
	case 2:
		if v := g.pickVar(tFunc, "fvar"); v != nil {
			g.feat("func-value-call")
			return v.name + "(" + g.expr(tInt, d) + ")"
		}
		return "vsum(" + g.nc(tInt, d) + ", " + g.expr(tInt, d) + ")"
	case 3:
		if c := g.pureHelperCall(tInt, d); c != "" {
			return c
		}
		return "len(itoa(" + g.nc(tInt, d) + "))"
	case 4:
		g.feat("variadic")
		switch g.intn(3, "vkind") {
		case 0:
			return "vsum(" + joinN(g.rng(1, 3, "vn"), func() string { return g.nc(tInt, d) }) + ")"
		case 1:
			g.feat("variadic-spread")
			return "vsum(" + g.expr(tSlice, d) + "...)"
		default:
			g.feat("variadic-empty")
			return "(vsum() + " + g.nc(tInt, d) + ")"
		}
	default:
		return "len(itoa(" + g.nc(tInt, d) + "))"
	}
}

// pureHelperCall returns a call to a generated pure helper with result ty, or "".
func (g *gen) pureHelperCall(ty *Type, d int) string {
	var cands []*pureFn
	for _, p := range g.pures {
		if p.res == ty {
			cands = append(cands, p)
		}
	}
	if len(cands) == 0 {
		return ""
	}
	p := pickOf(g, cands, "purefn")
	g.feat("pure-helper-call")
	var args []string
	for _, pt := range p.params {
		args = append(args, g.expr(pt, d))
	}
	return p.name + "(" + strings.Join(args, ", ") + ")"
}

func (g *gen) genericInt(d int) string {
	g.feat("generic-func")
	switch g.intn(9, "generic") {
	case 0:
		return "gsum(" + g.nc(tInt, d) + ", " + g.expr(tInt, d) + ", " + g.expr(tInt, d) + ")"
	case 1:
		g.feat("generic-explicit")
		return "gsum[int](" + g.nc(tInt, d) + ")"
	case 2:
		g.feat("generic-comparable")
		return "gindex(" + g.expr(tSlice, d) + ", " + g.expr(tInt, d) + ")"
	case 3:
		g.feat("generic-comparable")
		return "gindex([]string{\"a\", \"ab\", " + g.expr(tString, d) + "}, " + g.nc(tString, d) + ")"
	case 4:
		return "gfirst(" + g.expr(tSlice, d) + ", " + g.expr(tInt, d) + ")"
	case 5:
		return "cond(" + g.nc(tBool, d) + ", " + g.expr(tInt, d) + ", " + g.expr(tInt, d) + ")"
	case 6:
		g.feat("generic-type")
		if g.chance(50, "pairkind") {
			return "mkPair(" + g.nc(tInt, d) + ", " + g.expr(tString, d) + ").Key"
		}
		g.feat("generic-explicit")
		return "(Pair[string, int]{Key: " + g.expr(tString, d) + "}).With(" + g.nc(tInt, d) + ").Val"
	case 7:
		return "gdouble(" + g.nc(tInt, d) + ")"
	default:
		g.feat("generic-explicit")
		return "len(gmap[int, string](" + g.expr(tSlice, d) + ", itoa))"
	}
}

func (g *gen) methodExprInt(d int) string {
	g.feat("method-expr")
	e := func() string { return g.expr(tInt, d) }
	switch g.intn(9, "mexpr") {
	case 0:
		return "T1.Get(T1{V: " + g.nc(tInt, d) + "})"
	case 1:
		return "T1.Plus(T1{V: " + e() + "}, " + g.nc(tInt, d) + ")"
	case 2:
		return "S.Sum(" + g.expr(tS, d) + ")"
	case 3:
		g.feat("embedded-promoted-method")
		return "S.Describe(" + g.expr(tS, d) + ")"
	case 4:
		g.feat("method-expr-ptr")
		return "(*T2).Get(&T2{W: " + g.nc(tInt, d) + "})"
	case 5:
		g.feat("method-expr-ptr")
		return "(*T2).Mul(&T2{W: " + e() + "}, " + g.nc(tInt, d) + ")"
	case 6:
		return "T3.Add(T3(" + g.nc(tInt, d) + "), " + e() + ")"
	case 7:
		g.feat("method-expr-iface")
		return "I.Get(T1{V: " + g.nc(tInt, d) + "})"
	default:
		g.feat("named-func-type")
		g.feat("method-value")
		return "Fn(T3(" + g.nc(tInt, d) + ").Add).Twice(" + e() + ")"
	}
}

func (g *gen) assertInt(d int) string {
	v := g.pickVar(tI, "assertvar")
	if v == nil {
		return "T1.Get(T1{V: " + g.nc(tInt, d) + "})"
	}
	if g.risky("assert") {
		g.feat("type-assert")
		switch g.intn(3, "assertkind") {
		case 0:
			return v.name + ".(T1).V"
		case 1:
			return "int(" + v.name + ".(T3))"
		default:
			return v.name + ".(*T2).W"
		}
	}
	g.feat("type-assert-commaok")
	alt := g.expr(tInt, d)
	switch g.intn(3, "assertkind") {
	case 0:
		return "func() int { if t, ok := " + v.name + ".(T1); ok { return t.V }; return " + alt + " }()"
	case 1:
		return "func() int { t, ok := " + v.name + ".(T3); if !ok { return " + alt + " }; return int(t) }()"
	default:
		return "func() int { if t, ok := " + v.name + ".(*T2); ok && t != nil { return t.W }; return " + alt + " }()"
	}
}

// iife is an immediately invoked pure func literal.
func (g *gen) iife(d int) string {
	g.feat("iife")
	arg := g.expr(tInt, d)
	x := g.fresh("x")
	var body string
	g.scoped(func() {
		g.declare(&vr{name: x, ty: tInt, ro: true, local: true})
		c := g.boolOp(d)
		body = "if " + c + " { return " + g.expr(tInt, d) + " }; return " + g.nc(tInt, d)
	})
	return "func(" + x + " int) int { " + body + " }(" + arg + ")"
}

var cmpOps = []string{"==", "!=", "<", "<=", ">", ">="}

func (g *gen) boolOp(d int) string {
	w := []int{10, 3, 4, 3, 5, 4, 2, 1, 2, 3, 3}
	switch g.weighted(w, "boolop") {
	case 10:
		// comparisons, negations and short-circuit operators at a named boolean type:
		// the comparison's result is converted to the type the expression is used at
		g.feat("named-bool")
		c1 := "(" + g.nc(tInt, d) + " " + pickOf(g, cmpOps, "cmp") + " " + g.expr(tInt, d) + ")"
		c2 := "(" + g.nc(tInt, d) + " " + pickOf(g, cmpOps, "cmp") + " " + g.expr(tInt, d) + ")"
		h := g.nc(tBool, d)
		var e string
		switch g.intn(6, "nbkind") {
		case 0:
			e = "flag(" + h + ") && " + c1
		case 1:
			e = c1 + " || flag(" + h + ")"
		case 2:
			e = "!" + c1 + " == flag(" + h + ")"
		case 3:
			e = "flag(" + h + ") != " + c1
		case 4:
			e = "(" + c1 + " && " + c2 + ") == flag(" + h + ")"
		default:
			return "func() bool { type flag bool; var f flag = " + c1 + "; if !f || " + c2 + " { f = !f }; return bool(f) }()"
		}
		return "func() bool { type flag bool; return bool(" + e + ") }()"
	case 9:
		// short-circuit operator with a constant operand in value context: the builder folds
		// the constant edge of the phi and the block optimiser threads jumps through it
		g.feat("bool-logic-const-operand")
		k := pickOf(g, []string{"true", "false", "KOn", "KOff"}, "boolconst")
		op := pickOf(g, []string{"&&", "||"}, "logop")
		if g.chance(50, "constleft") {
			return "(" + k + " " + op + " " + g.nc(tBool, d) + ")"
		}
		return "(" + g.nc(tBool, d) + " " + op + " " + k + ")"
	case 0:
		return "(" + g.nc(tInt, d) + " " + pickOf(g, cmpOps, "cmp") + " " + g.expr(tInt, d) + ")"
	case 1:
		st := pickOf(g, smallInts, "cmpty")
		return "(" + g.nc(st, d) + " " + pickOf(g, cmpOps, "cmp") + " " + g.expr(st, d) + ")"
	case 2:
		g.feat("string-compare")
		return "(" + g.nc(tString, d) + " " + pickOf(g, cmpOps, "cmp") + " " + g.expr(tString, d) + ")"
	case 3:
		return "!" + g.nc(tBool, d)
	case 4:
		g.feat("bool-logic")
		return "(" + g.nc(tBool, d) + " " + pickOf(g, []string{"&&", "||"}, "logop") + " " + g.nc(tBool, d) + ")"
	case 5:
		return g.nilCheck(d)
	case 6:
		g.feat("struct-compare")
		if g.chance(30, "arrcmp") {
			if v := g.pickVar(tArr, "arrcmpv"); v != nil {
				return "(" + v.name + " == " + g.expr(tArr, d) + ")"
			}
		}
		return "(" + g.nc(tS, d) + " == " + g.expr(tS, d) + ")"
	case 7:
		g.feat("iface-compare")
		return "(" + g.expr(tI, d) + " == " + g.expr(tI, d) + ")"
	default:
		switch g.intn(3, "okkind") {
		case 0:
			g.feat("map-commaok")
			return "func() bool { _, ok := " + g.expr(tMapSI, d) + "[" + g.expr(tString, d) + "]; return ok }()"
		case 1:
			g.feat("type-assert-commaok")
			return "func() bool { _, ok := " + g.expr(tI, d) + ".(T1); return ok }()"
		default:
			g.feat("generic-type")
			return "mkPair(" + g.nc(tInt, d) + ", " + g.lit(tBool) + ").Is(" + g.expr(tInt, d) + ")"
		}
	}
}

// nilCheck compares a nillable variable with nil, sometimes as a short-circuit guard.
func (g *gen) nilCheck(d int) string {
	op := pickOf(g, []string{"==", "!="}, "nilop")
	vs := g.visible(func(v *vr) bool {
		switch v.ty.Kind {
		case kPtrInt, kPtrS, kSlice, kIface, kErr, kMapSI, kMapII:
			return true
		}
		return false
	})
	if len(vs) == 0 {
		return "(gP " + op + " nil)"
	}
	v := pickOf(g, vs, "nilvar")
	if g.chance(40, "guard") {
		switch v.ty.Kind {
		case kPtrInt:
			g.feat("shortcircuit-guard")
			return "(" + v.name + " != nil && *" + v.name + " " + pickOf(g, cmpOps, "cmp") + " " + g.expr(tInt, d) + ")"
		case kPtrS:
			g.feat("shortcircuit-guard")
			return "(" + v.name + " == nil || " + v.name + ".A " + pickOf(g, cmpOps, "cmp") + " " + g.expr(tInt, d) + ")"
		case kIface:
			g.feat("shortcircuit-guard")
			return "(" + v.name + " != nil && " + v.name + ".Get() " + pickOf(g, cmpOps, "cmp") + " " + g.expr(tInt, d) + ")"
		}
	}
	return "(" + v.name + " " + op + " nil)"
}

func (g *gen) strOp(d int) string {
	w := []int{6, 4, 3, 3, 3, 4, 2, 1}
	switch g.weighted(w, "strop") {
	case 0:
		g.feat("string-concat")
		return "(" + g.nc(tString, d) + " + " + g.expr(tString, d) + ")"
	case 1:
		return "sub(" + g.nc(tString, d) + ", " + g.expr(tInt, d) + ", " + g.expr(tInt, d) + ")"
	case 2:
		g.feat("string-slice")
		s := g.pickVar(tString, "slstr")
		name := "gStr"
		if s != nil {
			name = s.name
		}
		if g.risky("strslice") {
			g.feat("slice-unguarded")
			return name + "[" + g.idx(2, d) + ":]"
		}
		if g.chance(50, "strslicekind") {
			return name + "[min(len(" + name + "), " + fmt.Sprint(g.intn(3, "k")) + "):]"
		}
		return name + "[:min(len(" + name + "), " + fmt.Sprint(g.intn(4, "k")) + ")]"
	case 3:
		return "itoa(" + g.nc(tInt, d) + ")"
	case 4:
		r, maybeNil := g.ifaceRecv(d)
		if !maybeNil || g.risky("iname") {
			g.feat("iface-call")
			return r + ".Name()"
		}
		return "btoa(" + g.nc(tBool, d) + ")"
	case 5:
		f := pickOf(g, []string{".B", ".Tag", ".Base.Tag"}, "sfield")
		if f == ".Tag" {
			g.feat("embedded-promoted")
		}
		return g.expr(tS, d) + f
	case 6:
		g.feat("rune-to-string")
		return "string(rune(97 + (" + g.nc(tInt, d) + " & 15)))"
	default:
		g.feat("generic-func")
		return "cond(" + g.nc(tBool, d) + ", " + g.expr(tString, d) + ", " + g.expr(tString, d) + ")"
	}
}
