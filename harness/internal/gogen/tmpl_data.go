package gogen

import "fmt"

func init() {
	// &local taken only on some paths
	register("addr-taken-partial", 7, func(g *gen, d int) {
		x := g.local(tInt, g.expr(tInt, g.ed()))
		p := g.fresh("p")
		g.line("var %s *int", p)
		if g.chance(50, "partialkind") {
			g.open("if %s {", g.boolOp(g.ed()))
			g.line("%s = &%s", p, x.name)
			g.close_("}")
		} else {
			i := g.fresh("i")
			g.open("for %s := range %s {", i, g.smallBound())
			g.line("//gogen:loop")
			g.open("if %s == %d {", i, g.intn(3, "which"))
			g.line("%s = &%s", p, x.name)
			g.close_("}")
			g.line("%s += %s", x.name, i)
			g.close_("}")
		}
		g.line("%s = %s + %s", x.name, x.name, g.expr(tInt, 1))
		g.declare(&vr{name: p, ty: tPInt, local: true})
		g.open("if %s != nil {", p)
		g.line("*%s += %s", p, g.expr(tInt, 1))
		g.close_("}")
		if g.chance(50, "partialuse") {
			g.stmt(0)
		}
	})

	register("ptr-alias", 4, func(g *gen, d int) {
		x := g.local(tInt, g.expr(tInt, 1))
		p, q := g.fresh("p"), g.fresh("q")
		g.line("%s := &%s", p, x.name)
		g.line("%s := %s", q, p)
		g.line("*%s += %s", q, g.expr(tInt, 1))
		g.line("%s++", x.name)
		g.declare(&vr{name: p, ty: tPInt, nonnil: true, ro: true, local: true})
		g.local(tInt, "*"+p+" - *"+q)
	})

	// pointers to array / slice elements and struct fields
	register("ptr-to-elem", 5, func(g *gen, d int) {
		switch g.intn(3, "pekind") {
		case 0:
			a := g.local(tArr, g.construct(tArr, 1))
			p := g.fresh("p")
			g.line("%s := &%s[%s & 3]", p, a.name, g.nc(tInt, 1))
			g.line("*%s = %s", p, g.expr(tInt, 1))
			b := g.fresh("v")
			g.line("%s := %s // array copy", b, a.name)
			g.line("*%s += 1", p)
			g.declare(&vr{name: b, ty: tArr, local: true})
			g.local(tBool, b+" == "+a.name)
		case 1:
			g.feat("ptr-to-slice-elem")
			s := g.local(tSlice, "[]int{"+g.expr(tInt, 1)+", "+g.expr(tInt, 1)+"}")
			p := g.fresh("p")
			g.line("%s := &%s[%d]", p, s.name, g.intn(2, "pei"))
			g.line("%s = app(%s, %s) // new backing array", s.name, s.name, g.expr(tInt, 1))
			g.line("*%s = %s", p, g.expr(tInt, 1))
			g.declare(&vr{name: p, ty: tPInt, nonnil: true, ro: true, local: true})
		default:
			g.feat("addr-of-field")
			s := g.local(tS, g.construct(tS, 1))
			p := g.fresh("p")
			g.line("%s := &%s.In.X", p, s.name)
			c := g.fresh("v")
			g.line("%s := %s", c, s.name)
			g.line("*%s += %s", p, g.expr(tInt, 1))
			g.declare(&vr{name: c, ty: tS, local: true})
			g.local(tBool, c+" == "+s.name)
		}
	})

	register("struct-copy-vs-ptr", 5, func(g *gen, d int) {
		s1 := g.local(tS, g.construct(tS, 1))
		s2 := g.local(tS, s1.name)
		p := g.fresh("p")
		g.line("%s := &%s", p, s1.name)
		g.line("%s.A += %s", p, g.expr(tInt, 1))
		g.line("%s.In.X--", s2.name)
		g.line("%s.Tag += \"!\"", p)
		g.feat("embedded-promoted")
		g.declare(&vr{name: p, ty: tPS, nonnil: true, ro: true, local: true})
		g.local(tInt, s1.name+".A - "+s2.name+".A + len("+s1.name+".Tag)")
	})

	register("anon-struct", 4, func(g *gen, d int) {
		pt := g.fresh("pt")
		g.line("%s := struct{ X, Y int }{%s, %s}", pt, g.expr(tInt, 1), g.expr(tInt, 1))
		q := g.fresh("pt")
		g.line("%s := %s", q, pt)
		g.line("%s.X += %s", pt, g.expr(tInt, 1))
		g.local(tInt, pt+".X*3 + "+q+".X - "+pt+".Y")
		g.local(tBool, pt+" == "+q)
	})

	// append aliasing visible through a second slice (capacities fixed by make)
	register("append-alias", 6, func(g *gen, d int) {
		base := g.fresh("base")
		g.line("%s := make([]int, 2, 4)", base)
		g.line("%s[0], %s[1] = %s, %s", base, base, g.expr(tInt, 1), g.expr(tInt, 1))
		s1 := g.fresh("v")
		s2 := g.fresh("v")
		g.line("%s := append(%s, %s)", s1, base, g.expr(tInt, 1))
		g.line("%s := append(%s, %s) // overwrites %s[2]", s2, base, g.expr(tInt, 1), s1)
		g.line("%s[0] = %s", s2, g.expr(tInt, 1))
		g.declare(&vr{name: s1, ty: tSlice, local: true})
		g.declare(&vr{name: s2, ty: tSlice, local: true})
		g.feat("cap")
		g.local(tInt, fmt.Sprintf("%s[2]*2 + %s[0] + cap(%s) + len(%s)", s1, base, s1, base))
		if g.chance(50, "aliasgrow") {
			g.feat("append-direct")
			s3 := g.fresh("v")
			g.line("%s := append(%s, 1, 2, 3) // exceeds cap: fresh array", s3, s1)
			g.line("%s = %s[:len(%s):len(%s)]", s3, s3, s3, s3)
			g.line("%s[0]++", s3)
			g.declare(&vr{name: s3, ty: tSlice, local: true})
		}
	})

	register("slice-3index", 4, func(g *gen, d int) {
		w := g.local(tSlice, "[]int{"+joinN(5, func() string { return g.expr(tInt, 1) })+"}")
		t := g.fresh("v")
		g.line("%s := %s[1:3:4]", t, w.name)
		g.line("%s = append(%s, %s) // in place: writes %s[3]", t, t, g.expr(tInt, 1), w.name)
		g.line("%s = append(%s, %s) // reallocates", t, t, g.expr(tInt, 1))
		g.line("%s = %s[:len(%s):len(%s)]", t, t, t, t)
		g.line("%s[0] = %s", t, g.expr(tInt, 1))
		g.declare(&vr{name: t, ty: tSlice, local: true})
		g.feat("copy")
		n := g.fresh("n")
		g.line("%s := copy(%s, %s[%d:])", n, w.name, t, g.intn(3, "cpoff"))
		g.declare(&vr{name: n, ty: tInt, local: true})
		g.line("_ = %s", n)
	})

	register("bytes", 5, func(g *gen, d int) {
		g.feat("string-to-bytes")
		bs := g.fresh("bs")
		g.line("%s := []byte(%s)", bs, g.nc(tString, 1))
		g.line("%s = %s[:len(%s):len(%s)]", bs, bs, bs, bs)
		g.open("if len(%s) > %d {", bs, g.intn(2, "bsi"))
		g.line("%s[len(%s)-1] ^= 32", bs, bs)
		g.close_("}")
		g.line("%s = append(%s, byte(%s))", bs, bs, g.nc(tInt, 1))
		acc := g.local(tInt, "0")
		g.open("for _, c := range %s {", bs)
		g.line("%s = %s*31 + int(c)", acc.name, acc.name)
		g.close_("}")
		g.feat("bytes-to-string")
		g.local(tString, "string("+bs+"[:min(len("+bs+"), 3)])")
	})

	register("map-ops", 6, func(g *gen, d int) {
		m := g.fresh("m")
		if g.chance(50, "mapkey") {
			g.line("%s := map[string]int{\"a\": %s}", m, g.expr(tInt, 1))
			g.line("%s[%s]++", m, g.expr(tString, 1))
			g.line("%s[%s] += %s", m, g.expr(tString, 1), g.expr(tInt, 1))
			g.declare(&vr{name: m, ty: tMapSI, ro: true, local: true})
			k := g.expr(tString, 1)
			v, ok := g.fresh("v"), g.fresh("ok")
			g.feat("map-commaok")
			g.line("%s, %s := %s[%s]", v, ok, m, k)
			g.declare(&vr{name: v, ty: tInt, local: true})
			g.declare(&vr{name: ok, ty: tBool, local: true})
			g.line("_, _ = %s, %s", v, ok)
			g.open("if %s {", ok)
			g.feat("map-delete")
			g.line("delete(%s, %s)", m, k)
			g.close_("}")
		} else {
			g.line("%s := make(map[int]int)", m)
			i := g.fresh("i")
			g.open("for %s := range %s {", i, g.smallBound())
			g.line("//gogen:loop")
			g.line("%s[%s %% 3] += %s", m, i, g.expr(tInt, 1))
			g.close_("}")
			g.declare(&vr{name: m, ty: tMapII, ro: true, local: true})
			g.feat("map-commaok")
			g.open("if v, ok := %s[%s]; ok {", m, g.expr(tInt, 1))
			g.line("tr(%d + (v & 7))", g.trk()*10)
			g.close_("}")
		}
		g.local(tInt, "len("+m+")")
		g.rangeMap()
	})

	register("generic-type", 5, func(g *gen, d int) {
		if g.chance(60, "stackkind") {
			st := g.fresh("st")
			elemS := g.chance(30, "stackstr")
			ety, et := "int", tInt
			if elemS {
				ety, et = "string", tString
			}
			g.line("var %s Stack[%s]", st, ety)
			n := g.rng(0, 3, "npush")
			for i := 0; i < n; i++ {
				g.line("%s.Push(%s)", st, g.expr(et, 1))
			}
			v, ok := g.fresh("v"), g.fresh("ok")
			g.line("%s, %s := %s.Pop()", v, ok, st)
			g.line("_, _ = %s, %s", v, ok)
			g.declare(&vr{name: v, ty: et, local: true})
			g.declare(&vr{name: ok, ty: tBool, local: true})
			g.local(tInt, st+".Len()")
			return
		}
		g.feat("generic-explicit")
		p := g.fresh("pr")
		g.line("%s := Pair[int, string]{Key: %s, Val: %s}", p, g.expr(tInt, 1), g.expr(tString, 1))
		q := g.fresh("pr")
		g.line("%s := %s.With(%s)", q, p, g.expr(tString, 1))
		g.local(tBool, q+".Is("+g.expr(tInt, 1)+") && "+p+" != "+q)
	})

	// wraparound arithmetic in the narrow integer types
	register("typed-wrap", 6, func(g *gen, d int) {
		ty := pickOf(g, smallInts, "wrapty")
		w := g.local(ty, ty.Name+"("+g.nc(tInt, 1)+")")
		i := g.fresh("i")
		g.open("for %s := range %s {", i, g.smallBound())
		g.line("//gogen:loop")
		g.line("%s = %s*%s + %s(%s)", w.name, w.name, g.nonzeroLit(ty), ty.Name, i)
		if g.chance(50, "wrapshift") {
			g.feat("shift")
			g.line("%s ^= %s << (%s & 7)", w.name, w.name, i)
		}
		g.close_("}")
		g.feat("int-conv")
		g.local(tInt, "int("+w.name+")")
	})

	register("string-runes", 5, func(g *gen, d int) {
		g.feat("range-string")
		out := g.local(tString, `""`)
		cnt := g.local(tInt, "0")
		g.open("for i, r := range %s {", g.nc(tString, 1))
		g.line("//gogen:loop")
		g.open("if r > %s {", pickOf(g, []string{"'a'", "'h'", "127", "'z'"}, "runecmp"))
		g.feat("rune-to-string")
		g.line("%s += string(r)", out.name)
		g.close_("}")
		g.line("%s += i + int(r)", cnt.name)
		g.close_("}")
	})

	// nested loops with labelled break/continue and a switch inside a loop
	register("labeled-loops", 6, func(g *gen, d int) {
		lbl := g.label()
		i, j := g.fresh("i"), g.fresh("j")
		g.indent--
		g.line("%s:", lbl)
		g.indent++
		g.open("for %s := 0; %s < %s; %s++ {", i, i, g.smallBound(), i)
		g.scoped(func() {
			g.declare(&vr{name: i, ty: tInt, ro: true, local: true})
			if g.chance(50, "llkind") {
				g.open("for %s := range %s {", j, g.smallBound())
				g.line("//gogen:loop")
				g.scoped(func() {
					g.declare(&vr{name: j, ty: tInt, ro: true, local: true})
					g.open("if %s+%s %s %s {", i, j, pickOf(g, cmpOps, "cmp"), g.expr(tInt, 1))
					g.feat("labeled-continue")
					g.line("continue %s", lbl)
					g.close_("}")
					g.open("if %s {", g.boolOp(1))
					g.feat("labeled-break")
					g.line("break %s", lbl)
					g.close_("}")
					g.body(0)
				})
				g.close_("}")
			} else {
				g.feat("break-label-from-switch")
				g.line("//gogen:loop")
				g.open("switch {")
				g.indent--
				g.line("case %s:", g.boolOp(1))
				g.feat("labeled-break")
				g.line("\tbreak %s", lbl)
				g.line("case %s %s %s:", i, pickOf(g, cmpOps, "cmp"), g.expr(tInt, 1))
				g.feat("labeled-continue")
				g.line("\tcontinue %s", lbl)
				g.line("default:")
				g.indent++
				g.body(0)
				g.close_("}")
			}
			g.line("tr(%d + %s)", g.trk()*10, i)
		})
		g.close_("}")
	})

	// rotation / swap of variables inside a loop
	register("rotate-assign", 5, func(g *gen, d int) {
		a := g.local(tInt, g.expr(tInt, 1))
		b := g.local(tInt, g.expr(tInt, 1))
		c := g.local(tInt, g.expr(tInt, 1))
		i := g.fresh("i")
		g.open("for %s := range %s {", i, g.smallBound())
		g.line("//gogen:loop")
		if g.chance(50, "rotkind") {
			g.line("%s, %s, %s = %s, %s, %s+%s", a.name, b.name, c.name, b.name, c.name, a.name, i)
		} else {
			g.feat("swap-assign")
			g.line("%s, %s = %s, %s", a.name, b.name, b.name, a.name)
			g.line("%s += %s - %s", c.name, a.name, i)
		}
		g.close_("}")
	})

	register("goto-forward", 5, func(g *gen, d int) {
		lbl := g.label()
		g.open("if %s {", g.boolOp(g.ed()))
		g.line("goto %s", lbl)
		g.close_("}")
		g.open("{")
		g.body(d)
		g.close_("}")
		g.indent--
		g.line("%s:", lbl)
		g.indent++
		g.line("tr(%s)", g.traceArg())
	})

	register("goto-back", 5, func(g *gen, d int) {
		lbl := g.label()
		k := g.fresh("k")
		g.line("%s := 0", k)
		g.declare(&vr{name: k, ty: tInt, ro: true, local: true})
		g.indent--
		g.line("%s:", lbl)
		g.indent++
		g.line("%s++", k)
		g.open("{")
		g.line("//gogen:loop")
		g.body(d)
		g.close_("}")
		g.open("if %s < %s && fuel > 0 {", k, g.smallBound())
		g.line("fuel--")
		g.line("goto %s", lbl)
		g.close_("}")
	})

	register("goto-graph", 5, func(g *gen, d int) {
		g.open("func() {")
		g.inClosure(nil, nil, func() { g.gotoGraph() })
		g.close_("}()")
	})

	// direct recursion of a target, bounded by the fuel check at its entry
	register("recursion-fuel", 3, func(g *gen, d int) {
		if g.fn.index < 0 || g.fn.pure {
			g.line("tr(%s)", g.traceArg())
			return
		}
		t := g.targets[g.fn.index]
		g.open("if %s {", g.boolOp(1))
		g.line("%s", g.targetCall(t))
		g.close_("}")
	})
}
