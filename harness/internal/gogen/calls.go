package gogen

import (
	"fmt"
	"strings"
)

// targetCall returns `Fj(args...)` with pure argument expressions.
func (g *gen) targetCall(t *target) string {
	var args []string
	for _, pt := range t.params {
		args = append(args, g.expr(pt, g.ed()))
	}
	return t.name + "(" + strings.Join(args, ", ") + ")"
}

// effectCall emits a call with side effects. Such calls only ever appear as
// an expression statement, as the sole right-hand side of an assignment or
// definition, as a return operand list, or as the sole argument of a pure
// consumer (f(g()) forwarding) — never as an operand of a larger expression.
func (g *gen) effectCall() {
	if g.fn.index > 0 && g.chance(65, "calltarget") {
		t := g.targets[g.intn(g.fn.index, "callee")]
		g.feat("target-call")
		call := g.targetCall(t)
		switch {
		case len(t.res) == 0 || g.chance(20, "discard"):
			g.line("%s", call)
		case t.consumer != "" && g.chance(35, "forward"):
			g.feat("multi-return-forward")
			g.local(tInt, t.consumer+"("+call+")")
		case g.chance(50, "calldefine"):
			var names []string
			var vs []*vr
			for _, rt := range t.res {
				n := g.fresh("v")
				names = append(names, n)
				vs = append(vs, &vr{name: n, ty: rt, local: true})
			}
			if len(names) > 1 {
				g.feat("multi-return")
			}
			g.line("%s := %s", strings.Join(names, ", "), call)
			for _, v := range vs {
				g.line("_ = %s", v.name)
				g.declare(v)
			}
		default:
			var lhs []string
			any := false
			for _, rt := range t.res {
				vs := g.writableVars(rt)
				// do not overwrite non-nil-tracked references with unknown values
				var ok []*vr
				for _, v := range vs {
					if !v.nonnil {
						ok = append(ok, v)
					}
				}
				if len(ok) > 0 && g.chance(70, "assignres") {
					v := pickOf(g, ok, "resvar")
					dup := false
					for _, l := range lhs {
						if l == v.name {
							dup = true
						}
					}
					if !dup {
						lhs = append(lhs, v.name)
						any = true
						continue
					}
				}
				g.feat("blank-assign")
				lhs = append(lhs, "_")
			}
			if !any {
				g.line("%s", call)
			} else {
				g.line("%s = %s", strings.Join(lhs, ", "), call)
			}
		}
		return
	}
	switch g.intn(5, "effmethod") {
	case 0:
		if v := g.addressable(tS, "scalev"); v != nil {
			g.feat("ptr-method-on-addressable")
			g.line("%s.Scale(%s)", v.name, g.expr(tInt, 1))
			return
		}
	case 1:
		if v := g.pickVar(tPS, "scaleps"); v != nil && (v.nonnil || g.risky("scalenil")) {
			g.feat("ptr-method-call")
			g.line("%s.Scale(%s)", v.name, g.expr(tInt, 1))
			return
		}
	case 2:
		if v := g.addressable(tS, "bumpv"); v != nil {
			g.feat("embedded-promoted-method")
			g.feat("ptr-method-on-addressable")
			g.line("%s.Bump(%s)", v.name, g.expr(tInt, 1))
			return
		}
	case 3:
		if v := g.pickVar(tPS, "bumpps"); v != nil && (v.nonnil || g.risky("bumpnil")) {
			g.feat("embedded-promoted-method")
			g.line("%s.Bump(%s)", v.name, g.expr(tInt, 1))
			return
		}
	}
	g.line("tr(%s)", g.traceArg())
}

func (g *gen) typeSwitch(d int) {
	onErr := g.chance(20, "tserr")
	var subject string
	if onErr {
		subject = g.expr(tErr, 1)
	} else if v := g.pickVar(tI, "tsvar"); v != nil {
		subject = v.name
	} else {
		subject = g.construct(tI, 1)
	}
	bind := g.chance(60, "tsbind")
	v := g.fresh("t")
	head := "switch " + subject + ".(type) {"
	if bind {
		g.feat("typeswitch-bind")
		head = "switch " + v + " := " + subject + ".(type) {"
	} else {
		g.feat("typeswitch-nobind")
	}
	type clause struct {
		types string
		bound *Type // type of v in the clause (nil: not usable by the generator)
		use   string
		nn    bool
	}
	var all []clause
	if onErr {
		all = []clause{
			{"nil", nil, "", false},
			{"MyErr", nil, "tr(%s.Code)", false},
			{"interface{ Error() string }", tErr, "", true},
		}
	} else {
		all = []clause{
			{"nil", tI, "", false},
			{"T1", nil, "tr(%s.V)", false},
			{"*T2", nil, "tr(len(%s.Name()))", false},
			{"T3", nil, "tr(int(%s))", false},
			{"T1, T3", tI, "", true},
			{"*T2, T3", tI, "", true},
			{"interface{ Get() int }", nil, "tr(%s.Get())", false},
		}
	}
	perm := rapidPerm(g, len(all))
	n := g.rng(2, 3, "tsn")
	covered := map[string]bool{}
	var chosen []clause
	for _, pi := range perm {
		if len(chosen) == n {
			break
		}
		c := all[pi]
		clash := false
		for _, t := range strings.Split(c.types, ", ") {
			if covered[t] {
				clash = true
			}
		}
		if clash {
			continue
		}
		for _, t := range strings.Split(c.types, ", ") {
			covered[t] = true
		}
		chosen = append(chosen, c)
	}
	defaultAt := -1
	if g.chance(60, "tsdefault") {
		g.feat("typeswitch-default")
		defaultAt = g.intn(len(chosen)+1, "tsdefat")
	}
	l, body := g.inLoop(true, func() {
		g.indent--
		ci := 0
		for c := 0; c < len(chosen)+btoi(defaultAt >= 0); c++ {
			var cl clause
			if c == defaultAt {
				g.line("default:")
				cl = clause{bound: nil}
				if !onErr {
					cl.bound = tI
				}
			} else {
				cl = chosen[ci]
				ci++
				g.line("case %s:", cl.types)
				if cl.types == "nil" {
					g.feat("typeswitch-nil")
				}
				if strings.Contains(cl.types, ", ") {
					g.feat("typeswitch-multi")
				}
			}
			g.indent++
			g.scoped(func() {
				if bind {
					g.line("_ = %s", v)
					if cl.use != "" {
						g.line(cl.use, v)
					}
					if cl.bound != nil {
						g.declare(&vr{name: v, ty: cl.bound, ro: true, nonnil: cl.nn, local: true})
					}
				}
				g.body(d)
			})
			g.indent--
		}
		g.indent++
	})
	g.emitLoop(l, head, body)
}

func btoi(b bool) int {
	if b {
		return 1
	}
	return 0
}

// pureStmt: statements allowed inside generated pure helpers — only local
// scalar state, bounded loops, no calls with effects, no explicit panics.
func (g *gen) pureStmt(d int) {
	compound := 0
	if d > 0 && g.budget > 0 {
		compound = 1
	}
	switch g.weighted([]int{5, 6, 3, 4 * compound, 3 * compound, 2 * compound}, "purestmt") {
	case 0:
		ty := pickOf(g, []*Type{tInt, tInt, tString, tBool, tInt8, tUint8, tInt32, tUint64, tS, tArr}, "purelocal")
		g.local(ty, g.expr(ty, g.ed()))
	case 1:
		ty := pickOf(g, []*Type{tInt, tInt, tString, tBool}, "pureasty")
		vs := g.writableVars(ty)
		if len(vs) == 0 {
			g.local(ty, g.expr(ty, g.ed()))
			return
		}
		v := pickOf(g, vs, "pureasv")
		if ty == tInt && g.chance(40, "purecomp") {
			g.feat("compound-assign")
			g.line("%s %s %s", v.name, pickOf(g, []string{"+=", "-=", "*=", "^="}, "cop"), g.expr(tInt, g.ed()))
			return
		}
		if ty == tString {
			g.line("%s = sub(%s, 0, 12)", v.name, g.expr(tString, g.ed()))
			return
		}
		g.line("%s = %s", v.name, g.expr(ty, g.ed()))
	case 2:
		g.open("if %s {", g.boolOp(g.ed()))
		g.returnLine()
		g.close_("}")
	case 3:
		g.ifStmt(d - 1)
	case 4:
		g.loopStmt(d - 1)
	default:
		g.switchStmt(d - 1)
	}
}

var _ = fmt.Sprint
