package gogen

import (
	"fmt"
	"strings"
)

// addressable returns a non-ro variable of type ty whose address may be taken.
func (g *gen) addressable(ty *Type, label string) *vr {
	vs := g.visible(func(v *vr) bool {
		if v.ty != ty || v.ro {
			return false
		}
		if g.fn.pure && !v.local {
			return false
		}
		return true
	})
	if len(vs) == 0 {
		return nil
	}
	return pickOf(g, vs, label)
}

// construct builds a value of a composite / reference type. Composite
// literals are parenthesised so they stay legal in if/for/switch headers.
func (g *gen) construct(ty *Type, d int) string {
	e := func(t *Type) string { return g.expr(t, d-1) }
	switch ty.Kind {
	case kInt, kBool, kString:
		return g.nc(ty, 0)
	case kPtrInt:
		switch g.weighted([]int{4, 3, 2, 2, 1}, "mkptr") {
		case 0:
			if v := g.addressable(tInt, "addrvar"); v != nil {
				g.feat("addr-of-var")
				return "&" + v.name
			}
		case 1:
			if v := g.addressable(tArr, "addrarr"); v != nil {
				g.feat("addr-of-elem")
				return "&" + v.name + "[" + fmt.Sprint(g.intn(4, "ai")) + "]"
			}
		case 2:
			if v := g.addressable(tS, "addrs"); v != nil {
				g.feat("addr-of-field")
				return "&" + v.name + pickOf(g, []string{".A", ".In.X", ".ID"}, "af")
			}
		case 3:
			if v := g.pickVar(tPS, "addrps"); v != nil && v.nonnil {
				g.feat("addr-of-field")
				return "&" + v.name + ".A"
			}
		}
		g.feat("new")
		return "new(int)"
	case kSlice:
		switch g.weighted([]int{4, 2, 3, 4, 2, 1, 1}, "mkslice") {
		case 0:
			g.feat("slice-lit")
			return "([]int{" + joinN(g.rng(0, 4, "sln"), func() string { return e(tInt) }) + "})"
		case 1:
			g.feat("make-slice")
			if g.chance(50, "mkcap") {
				return "make([]int, " + e(tInt) + " & 3, 4)"
			}
			return "make([]int, " + e(tInt) + " & 3)"
		case 2:
			g.feat("append-copying")
			base := g.sliceLeaf()
			return "app(" + base + ", " + joinN(g.rng(1, 2, "appn"), func() string { return e(tInt) }) + ")"
		case 3:
			if v := g.addressable(tArr, "slarr"); v != nil {
				lo := g.intn(3, "lo")
				hi := g.rng(lo, 4, "hi")
				if g.chance(40, "three") {
					g.feat("slice-3index")
					return fmt.Sprintf("%s[%d:%d:%d]", v.name, lo, hi, g.rng(hi, 4, "mx"))
				}
				g.feat("slice-of-array")
				return fmt.Sprintf("%s[%d:%d]", v.name, lo, hi)
			}
			return "app(nil, " + e(tInt) + ")"
		case 4:
			base := g.sliceLeaf()
			g.feat("slice-2index")
			if g.risky("slbounds") {
				g.feat("slice-unguarded")
				return base + "[" + g.idx(2, d-1) + ":]"
			}
			if g.chance(30, "three") {
				g.feat("slice-3index")
				return base + "[:min(len(" + base + "), 1):min(len(" + base + "), 2)]"
			}
			return base + "[min(len(" + base + "), " + fmt.Sprint(g.intn(3, "k")) + "):]"
		case 5:
			g.feat("generic-func")
			x := g.fresh("x")
			var body string
			g.scoped(func() {
				g.declare(&vr{name: x, ty: tInt, ro: true, local: true})
				body = g.nc(tInt, d-1)
			})
			return "gmap(" + g.sliceLeaf() + ", func(" + x + " int) int { return " + body + " })"
		default:
			g.feat("nil-slice")
			return "[]int(nil)"
		}
	case kArr:
		if v := g.pickVar(tPArr, "parr"); v != nil && v.nonnil && g.chance(30, "derefarr") {
			return "(*" + v.name + ")"
		}
		g.feat("array-lit")
		if g.chance(40, "dots") {
			return "([...]int{" + joinN(4, func() string { return e(tInt) }) + "})"
		}
		return "([4]int{" + joinN(g.rng(0, 3, "arn"), func() string { return e(tInt) }) + "})"
	case kPtrArr:
		if v := g.addressable(tArr, "parrv"); v != nil {
			return "&" + v.name
		}
		return "(&[4]int{" + e(tInt) + "})"
	case kBytes:
		g.feat("string-to-bytes")
		return "[]byte(" + e(tString) + ")"
	case kMapII:
		g.feat("map-lit")
		if g.chance(25, "mkmap") {
			return "make(map[int]int)"
		}
		return "(map[int]int{0: " + e(tInt) + ", 1: " + e(tInt) + ", 7: " + e(tInt) + "})"
	case kMapSI:
		g.feat("map-lit")
		if g.chance(25, "mkmap") {
			return "make(map[string]int)"
		}
		return "(map[string]int{\"a\": " + e(tInt) + ", \"héllo\": " + e(tInt) + "})"
	case kInner:
		return "(Inner{X: " + e(tInt) + ", Y: " + e(tInt8) + "})"
	case kStruct:
		g.feat("struct-lit")
		switch g.intn(4, "mks") {
		case 0:
			return "(S{A: " + e(tInt) + ", B: " + e(tString) + "})"
		case 1:
			g.feat("struct-nested-lit")
			return "(S{A: " + e(tInt) + ", In: Inner{X: " + e(tInt) + ", Y: " + e(tInt8) + "}, Base: Base{ID: " + e(tInt) + ", Tag: " + e(tString) + "}})"
		case 2:
			if v := g.pickVar(tPS, "psd"); v != nil && v.nonnil {
				return "(*" + v.name + ")"
			}
			return "(S{B: " + e(tString) + ", Base: Base{ID: " + e(tInt) + "}})"
		default:
			return "(S{" + e(tInt) + ", " + e(tString) + ", Inner{" + e(tInt) + ", " + e(tInt8) + "}, Base{" + e(tInt) + ", " + e(tString) + "}})"
		}
	case kPtrS:
		if v := g.addressable(tS, "addrsv"); v != nil && g.chance(50, "psaddr") {
			g.feat("addr-of-var")
			return "&" + v.name
		}
		return "(&S{A: " + e(tInt) + ", B: " + e(tString) + "})"
	case kIface:
		switch g.weighted([]int{4, 4, 3, 1}, "mki") {
		case 0:
			return "I(T1{V: " + e(tInt) + "})"
		case 1:
			return "I(&T2{W: " + e(tInt) + ", N: " + e(tString) + "})"
		case 2:
			return "I(T3(" + g.nc(tInt, d-1) + "))"
		default:
			return "I(nil)"
		}
	case kErr:
		if g.chance(30, "nilerr") {
			return "error(nil)"
		}
		return "error(MyErr{Code: " + e(tInt) + "})"
	case kT1:
		return "(T1{V: " + e(tInt) + "})"
	case kPT2:
		return "(&T2{W: " + e(tInt) + ", N: " + e(tString) + "})"
	case kT3:
		return "T3(" + g.nc(tInt, d-1) + ")"
	case kFunc:
		return g.funcValue(d)
	}
	panic("construct: " + ty.Name)
}

// sliceLeaf is a slice variable name or a literal (never nested deeper).
func (g *gen) sliceLeaf() string {
	if v := g.pickVar(tSlice, "slleaf"); v != nil {
		return v.name
	}
	return "gSl"
}

// funcValue builds a pure func(int) int value: a closure reading captured
// variables, a method value, or a method expression partially applied.
func (g *gen) funcValue(d int) string {
	switch g.weighted([]int{5, 2, 2, 1}, "mkfunc") {
	case 0:
		g.feat("closure-capture-read")
		x := g.fresh("x")
		var body string
		g.scoped(func() {
			g.declare(&vr{name: x, ty: tInt, ro: true, local: true})
			body = g.nc(tInt, d-1)
		})
		return "func(" + x + " int) int { return " + strings.TrimSpace(body) + " }"
	case 1:
		g.feat("method-value")
		return "(T1{V: " + g.expr(tInt, d-1) + "}).Plus"
	case 2:
		g.feat("method-value")
		g.feat("method-value-ptr")
		return "(&T2{W: " + g.expr(tInt, d-1) + "}).Mul"
	default:
		g.feat("method-value")
		return "T3(" + g.nc(tInt, d-1) + ").Add"
	}
}
