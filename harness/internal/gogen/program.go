package gogen

import (
	"fmt"
	"go/ast"
	"go/parser"
	"go/token"
	"go/types"
	"strings"

	"pgregory.net/rapid"
)

// Program is one generated test program.
type Program struct {
	Src      string   // the complete file (package p)
	NumFuncs int      // targets are F0..F(NumFuncs-1), run through Run(fn, ...)
	Features []string // sorted feature tags used by this program
	Vectors  []Vector // 4..10 input vectors
}

// Vector is one input of Run.
type Vector struct {
	A, B int
	S    string
	C    bool
}

// Config bounds the size of generated programs.
type Config struct {
	MaxFuncs     int // 3..8 targets are generated, capped by this
	MaxStmtDepth int
	MaxExprDepth int
	MaxStmts     int // statement budget per target
	GoVersion    string
	Disable      map[string]bool // feature tags (template names) to switch off
}

// DefaultConfig returns the configuration used by the harness.
func DefaultConfig() Config {
	return Config{MaxFuncs: 8, MaxStmtDepth: 3, MaxExprDepth: 3, MaxStmts: 16, GoVersion: "go1.26"}
}

// Generate draws a program from t.
func Generate(t *rapid.T, cfg Config) *Program {
	if cfg.MaxFuncs < 3 {
		cfg.MaxFuncs = 3
	}
	if cfg.MaxFuncs > 8 {
		cfg.MaxFuncs = 8
	}
	if cfg.MaxStmtDepth < 1 {
		cfg.MaxStmtDepth = 1
	}
	if cfg.MaxExprDepth < 1 {
		cfg.MaxExprDepth = 1
	}
	if cfg.MaxStmts < 3 {
		cfg.MaxStmts = 3
	}
	cfg.Disable = withGoVersion(cfg.Disable, cfg.GoVersion)
	g := &gen{t: t, cfg: cfg, buf: &strings.Builder{}, features: map[string]bool{}}
	g.raw(prelude)
	g.scopes = [][]*vr{globalScope()}

	nf := g.rng(3, cfg.MaxFuncs, "nfuncs")
	np := g.rng(1, 3, "npures")
	for i := 0; i < np; i++ {
		g.genPure(i)
	}
	for i := 0; i < nf; i++ {
		g.genSignature(i)
	}
	for i := 0; i < nf; i++ {
		g.genTarget(i)
	}
	g.genRun()

	p := &Program{Src: g.buf.String(), NumFuncs: nf, Features: sortedKeys(g.features)}
	nv := g.rng(4, 10, "nvectors")
	for i := 0; i < nv; i++ {
		p.Vectors = append(p.Vectors, Vector{
			A: pickOf(g, vecInts, "vecA"),
			B: pickOf(g, vecInts, "vecB"),
			S: pickOf(g, vecStrs, "vecS"),
			C: g.chance(50, "vecC"),
		})
	}
	return p
}

// withGoVersion switches off the templates that need a newer language version
// than cfg.GoVersion ("" means current). Only the coarse steps that matter for
// whole templates are modelled: range-over-func needs go1.23; range-over-int
// and per-iteration loop variables need go1.22.
func withGoVersion(disable map[string]bool, v string) map[string]bool {
	minor := 1 << 30
	if strings.HasPrefix(v, "go1.") {
		minor = 0
		for _, c := range v[4:] {
			if c < '0' || c > '9' {
				break
			}
			minor = minor*10 + int(c-'0')
		}
	}
	out := map[string]bool{}
	for k, b := range disable {
		out[k] = b
	}
	if minor < 23 {
		for _, k := range []string{"range-func", "range-func-exit", "range-func-2", "range-func-labeled",
			"range-func-defer", "range-func-goto", "range-func-local"} {
			out[k] = true
		}
	}
	if minor < 22 {
		for _, k := range []string{"closure-loop-var", "defer-loop", "addr-taken-partial", "map-ops", "typed-wrap", "rotate-assign", "labeled-loops", "range-int"} {
			out[k] = true
		}
	}
	return out
}

var vecInts = []int{-1, 0, 1, 2, 3, 5, 7, 100, -128, 127, 1 << 31, -1 << 63, 4, 6, 9}
var vecStrs = []string{"", "a", "ab", "héllo"}

func globalScope() []*vr {
	return []*vr{
		{name: "gI", ty: tInt, global: true},
		{name: "gJ", ty: tInt, global: true},
		{name: "gStr", ty: tString, global: true},
		{name: "gSl", ty: tSlice, global: true},
		{name: "gSt", ty: tS, global: true},
		{name: "gP", ty: tPInt, global: true},
		{name: "gM", ty: tMapSI, global: true, ro: true},
	}
}

// withFunc runs f with a fresh function context and scope; locals of the
// enclosing function stay visible (closures) unless isolate is set.
func (g *gen) withFunc(fc *fctx, f func()) {
	old := g.fn
	g.fn = fc
	g.push()
	f()
	g.pop()
	g.fn = old
}

func (g *gen) genPure(i int) {
	p := &pureFn{name: fmt.Sprintf("P%d", i)}
	np := g.rng(1, 3, "pnparams")
	var decl []string
	var vars []*vr
	for j := 0; j < np; j++ {
		ty := pickOf(g, []*Type{tInt, tInt, tBool, tString, tS, tInt8, tUint8}, "ppty")
		p.params = append(p.params, ty)
		name := fmt.Sprintf("a%d", j)
		decl = append(decl, name+" "+ty.Name)
		vars = append(vars, &vr{name: name, ty: ty, local: true})
	}
	p.res = pickOf(g, []*Type{tInt, tInt, tInt, tString, tBool}, "prty")
	g.line("")
	g.line("// %s is pure: no writes outside its own locals, no explicit panic.", p.name)
	g.open("func %s(%s) %s {", p.name, strings.Join(decl, ", "), p.res.Name)
	g.budget = 5
	g.withFunc(&fctx{res: []*Type{p.res}, pure: true, index: -1}, func() {
		for _, v := range vars {
			g.declare(v)
		}
		n := g.rng(1, 4, "pnstmts")
		for k := 0; k < n; k++ {
			g.stmt(1)
		}
		if e := g.expr(p.res, g.cfg.MaxExprDepth); p.res.Kind == kStruct || p.res.Kind == kArr || p.res.Kind == kInner {
			tmp := g.fresh("ret") // see returnLine
			g.line("%s := %s", tmp, e)
			g.line("return %s", tmp)
		} else {
			g.line("return %s", e)
		}
	})
	g.close_("}")
	g.pures = append(g.pures, p)
}

func (g *gen) genSignature(i int) {
	t := &target{name: fmt.Sprintf("F%d", i)}
	np := g.rng(1, 4, "nparams")
	for j := 0; j < np; j++ {
		t.params = append(t.params, pickOf(g, paramTypes, "paramty"))
	}
	nr := g.weighted([]int{1, 4, 3, 2}, "nresults")
	for j := 0; j < nr; j++ {
		t.res = append(t.res, pickOf(g, resultTypes, "resty"))
	}
	t.named = nr > 0 && g.chance(50, "named")
	g.targets = append(g.targets, t)
	if nr >= 2 {
		// pure consumer for f(g()) forwarding
		t.consumer = fmt.Sprintf("c%d", i)
		var decl []string
		var vars []*vr
		for j, rt := range t.res {
			name := fmt.Sprintf("a%d", j)
			decl = append(decl, name+" "+rt.Name)
			vars = append(vars, &vr{name: name, ty: rt, local: true, ro: true})
		}
		g.line("")
		g.open("func %s(%s) int {", t.consumer, strings.Join(decl, ", "))
		g.withFunc(&fctx{res: []*Type{tInt}, pure: true, index: -1}, func() {
			var parts []string
			for _, v := range vars {
				g.declare(v)
				parts = append(parts, g.digest(v))
			}
			g.line("return %s", strings.Join(parts, " + "))
		})
		g.close_("}")
	}
}

// digest maps a value of any result type to an int, purely and without panics.
func (g *gen) digest(v *vr) string {
	switch v.ty.Kind {
	case kInt:
		if v.ty == tInt {
			return v.name
		}
		return "int(" + v.name + ")"
	case kBool:
		return "cond(" + v.name + ", 1, 0)"
	case kString:
		return "len(" + v.name + ")"
	case kPtrInt:
		return "deref(" + v.name + ", -3)"
	case kSlice:
		return "vsum(" + v.name + "...)"
	case kStruct:
		return v.name + ".Sum()"
	case kPtrS:
		return "cond(" + v.name + " == nil, 0, 1)"
	case kIface:
		return "getI(" + v.name + ")"
	case kErr:
		return "cond(" + v.name + " == nil, 0, 2)"
	}
	return "0"
}

func (g *gen) genTarget(i int) {
	t := g.targets[i]
	fc := &fctx{res: t.res, index: i}
	var decl []string
	var vars []*vr
	for j, pt := range t.params {
		name := fmt.Sprintf("in%d", j)
		decl = append(decl, name+" "+pt.Name)
		v := &vr{name: name, ty: pt, local: pt.Kind == kInt || pt.Kind == kBool || pt.Kind == kString || pt.Kind == kStruct}
		if pt.Kind == kFunc {
			v.nonnil, v.ro = true, true
		}
		vars = append(vars, v)
	}
	resDecl := ""
	if len(t.res) > 0 {
		var rs []string
		for j, rt := range t.res {
			if t.named {
				name := fmt.Sprintf("out%d", j)
				fc.resNames = append(fc.resNames, name)
				rs = append(rs, name+" "+rt.Name)
				vars = append(vars, &vr{name: name, ty: rt, local: true})
			} else {
				rs = append(rs, rt.Name)
			}
		}
		resDecl = " " + strings.Join(rs, ", ")
		if len(rs) > 1 || t.named {
			resDecl = " (" + strings.Join(rs, ", ") + ")"
		}
	}
	g.line("")
	g.open("func %s(%s)%s {", t.name, strings.Join(decl, ", "), resDecl)
	g.budget = g.cfg.MaxStmts
	g.withFunc(fc, func() {
		for _, v := range vars {
			g.declare(v)
		}
		// every target call burns fuel: bounds the total work of call chains in loops
		g.open("if fuel <= 0 {")
		if t.named || len(t.res) == 0 {
			g.line("return")
		} else {
			g.line("return %s", g.zeroResults())
		}
		g.close_("}")
		g.line("fuel--")
		if g.on("defer-recover") && g.chance(20, "toprecover") {
			g.deferRecover(false)
		}
		if g.on("goto-graph") && g.chance(9, "gotomode") {
			g.gotoGraph()
		} else {
			n := g.rng(4, max(4, g.cfg.MaxStmts*2/3), "nstmts")
			for k := 0; k < n; k++ {
				g.stmt(g.cfg.MaxStmtDepth)
			}
		}
		g.finalReturn()
	})
	g.close_("}")
}

// finalReturn ends a function body; results flow from computed state.
func (g *gen) finalReturn() {
	if len(g.fn.res) == 0 {
		return
	}
	if g.fn.resNames != nil && g.chance(50, "finalbare") {
		g.feat("bare-return")
		g.line("return")
		return
	}
	g.returnLine()
}

// Check parses and type-checks src (no importer: programs are import-free).
func Check(src string) error {
	fset := token.NewFileSet()
	f, err := parser.ParseFile(fset, "p.go", src, parser.SkipObjectResolution)
	if err != nil {
		return err
	}
	if len(f.Imports) != 0 {
		return fmt.Errorf("program has imports")
	}
	conf := types.Config{GoVersion: "go1.26"}
	_, err = conf.Check("p", fset, []*ast.File{f}, nil)
	return err
}

// MainFor returns a `package main` file (module "t", program in "t/p") that
// runs every target on every vector, in order, printing one line per pair:
// "<fn> <vectorIndex> <Run output>".
func MainFor(p *Program) string {
	var b strings.Builder
	b.WriteString("package main\n\nimport (\n\t\"os\"\n\t\"t/p\"\n)\n\n")
	b.WriteString("type vec struct {\n\ta, b int\n\ts    string\n\tc    bool\n}\n\n")
	b.WriteString("var vecs = []vec{\n")
	for _, v := range p.Vectors {
		fmt.Fprintf(&b, "\t{%s, %s, %q, %v},\n", intLit(v.A), intLit(v.B), v.S, v.C)
	}
	b.WriteString("}\n\n")
	b.WriteString(`func itoa(n int) string {
	if n == 0 {
		return "0"
	}
	var buf [20]byte
	i := len(buf)
	for n > 0 {
		i--
		buf[i] = byte('0' + n%10)
		n /= 10
	}
	return string(buf[i:])
}

func main() {
`)
	fmt.Fprintf(&b, "\tfor fn := 0; fn < %d; fn++ {\n", p.NumFuncs)
	b.WriteString(`		for i, v := range vecs {
			os.Stdout.WriteString(itoa(fn) + " " + itoa(i) + " " + p.Run(fn, v.a, v.b, v.s, v.c) + "\n")
		}
	}
}
`)
	return b.String()
}

func intLit(n int) string {
	if n == -1<<63 {
		return "-1 << 63"
	}
	return fmt.Sprint(n)
}
