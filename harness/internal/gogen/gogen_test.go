package gogen

import (
	"bytes"
	"context"
	"fmt"
	"os"
	"os/exec"
	"path/filepath"
	"sort"
	"strings"
	"sync"
	"testing"
	"time"

	"pgregory.net/rapid"
)

func long() bool { return os.Getenv("GOGEN_LONG") != "" }

// genN generates n programs from fixed seeds 0..n-1 (reproducible sample).
func genN(t *testing.T, n int, f func(p *Program)) {
	t.Helper()
	gen := rapid.Custom(func(rt *rapid.T) *Program { return Generate(rt, DefaultConfig()) })
	for i := 0; i < n; i++ {
		f(gen.Example(i))
	}
}

// TestCheck: every generated program type-checks. Uses rapid.Check so that a
// failure is shrunk; -rapid.checks controls the count (default 100; the long
// run is `GOGEN_LONG=1 go test -rapid.checks=20000`).
func TestCheck(t *testing.T) {
	var mu sync.Mutex
	hist := map[string]int{}
	n, size := 0, 0
	rapid.Check(t, func(rt *rapid.T) {
		p := Generate(rt, DefaultConfig())
		if err := Check(p.Src); err != nil {
			os.WriteFile(filepath.Join(os.TempDir(), "gogen_fail.go"), []byte(p.Src), 0o644)
			rt.Fatalf("check: %v", err)
		}
		mu.Lock()
		n++
		size += len(p.Src)
		for _, f := range p.Features {
			hist[f]++
		}
		mu.Unlock()
	})
	if n > 0 {
		t.Logf("programs=%d avg source bytes=%d", n, size/n)
		printHist(t, hist, n)
	}
}

// TestHistogram: feature histogram over a fixed-seed sample (5000 long / 500 short).
func TestHistogram(t *testing.T) {
	n := 1000
	if long() {
		n = 5000
	}
	hist := map[string]int{}
	size, lines := 0, 0
	genN(t, n, func(p *Program) {
		if err := Check(p.Src); err != nil {
			t.Fatalf("check: %v", err)
		}
		size += len(p.Src)
		lines += strings.Count(p.Src, "\n")
		for _, f := range p.Features {
			hist[f]++
		}
	})
	t.Logf("programs=%d avg source bytes=%d avg lines=%d", n, size/n, lines/n)
	printHist(t, hist, n)
	for f, c := range hist {
		if c*100 < n*3 {
			t.Logf("LOW feature %s: %d/%d", f, c, n)
		}
	}
}

func printHist(t *testing.T, hist map[string]int, n int) {
	var ks []string
	for k := range hist {
		ks = append(ks, k)
	}
	sort.Slice(ks, func(i, j int) bool {
		if hist[ks[i]] != hist[ks[j]] {
			return hist[ks[i]] > hist[ks[j]]
		}
		return ks[i] < ks[j]
	})
	var b strings.Builder
	for _, k := range ks {
		fmt.Fprintf(&b, "%-28s %6d %5.1f%%\n", k, hist[k], 100*float64(hist[k])/float64(n))
	}
	t.Logf("feature histogram (%d tags):\n%s", len(ks), b.String())
}

type runStats struct {
	runs, panics, recovered, looped, fuelOut, iters int
}

func goCmd(dir string, args ...string) *exec.Cmd {
	cmd := exec.Command("go", args...)
	cmd.Dir = dir
	cmd.Env = append(os.Environ(), "GOFLAGS=-mod=mod", "GOPROXY=off")
	return cmd
}

func keepFailure(p *Program) string {
	keep := filepath.Join(os.TempDir(), "gogen_exec_fail.go")
	os.WriteFile(keep, []byte(p.Src), 0o644)
	return keep
}

// runBinary runs bin and returns stdout; it fails on non-zero exit or when
// the run takes longer than limit.
func runBinary(bin string, limit time.Duration, env ...string) (string, error) {
	ctx, cancel := context.WithTimeout(context.Background(), limit+10*time.Second)
	defer cancel()
	cmd := exec.CommandContext(ctx, bin)
	cmd.Env = append(os.Environ(), env...)
	var out, errb bytes.Buffer
	cmd.Stdout, cmd.Stderr = &out, &errb
	start := time.Now()
	err := cmd.Run()
	if err != nil {
		tail := errb.String()
		if len(tail) > 2000 {
			tail = tail[:2000]
		}
		return out.String(), fmt.Errorf("run %s: %v\nstderr: %s", filepath.Base(bin), err, tail)
	}
	if el := time.Since(start); el > limit {
		return out.String(), fmt.Errorf("run %s took %v (limit %v)", filepath.Base(bin), el, limit)
	}
	return out.String(), nil
}

// fourRuns builds the module in dir twice (optimised and -N -l) and runs the
// binaries: opt, opt again, opt with GOMAXPROCS=1, noopt. All stdout must agree.
func fourRuns(dir string, limit time.Duration) (string, error) {
	if b, err := goCmd(dir, "build", "-o", "opt", ".").CombinedOutput(); err != nil {
		return "", fmt.Errorf("go build: %v\n%s", err, b)
	}
	if b, err := goCmd(dir, "build", "-o", "noopt", "-gcflags=all=-N -l", ".").CombinedOutput(); err != nil {
		return "", fmt.Errorf("go build -N -l: %v\n%s", err, b)
	}
	o1, err := runBinary(filepath.Join(dir, "opt"), limit)
	if err != nil {
		return o1, err
	}
	for i, c := range []struct {
		bin string
		env []string
	}{{"opt", nil}, {"opt", []string{"GOMAXPROCS=1"}}, {"noopt", nil}} {
		o, err := runBinary(filepath.Join(dir, c.bin), 3*limit, c.env...)
		if err != nil {
			return o1, err
		}
		if o != o1 {
			return o1, fmt.Errorf("run %d (%s %v) differs from the first run:\n%s", i+2, c.bin, c.env, firstDiff(o1, o))
		}
	}
	return o1, nil
}

func writeFiles(dir string, files map[string]string) error {
	for name, content := range files {
		full := filepath.Join(dir, name)
		if err := os.MkdirAll(filepath.Dir(full), 0o755); err != nil {
			return err
		}
		if err := os.WriteFile(full, []byte(content), 0o644); err != nil {
			return err
		}
	}
	return nil
}

// execSingle: the module layout of the consumer: p/p.go + MainFor.
func execSingle(p *Program) error {
	dir, err := os.MkdirTemp("", "gogen")
	if err != nil {
		return err
	}
	defer os.RemoveAll(dir)
	if err := writeFiles(dir, map[string]string{
		"go.mod": "module t\n\ngo 1.26\n", "p/p.go": p.Src, "main.go": MainFor(p)}); err != nil {
		return err
	}
	out, err := fourRuns(dir, 2*time.Second)
	if err != nil {
		return fmt.Errorf("%v (source kept in %s)", err, keepFailure(p))
	}
	lines := strings.Split(strings.TrimSpace(out), "\n")
	if len(lines) != p.NumFuncs*len(p.Vectors) {
		return fmt.Errorf("expected %d lines, got %d", p.NumFuncs*len(p.Vectors), len(lines))
	}
	i := 0
	for fn := 0; fn < p.NumFuncs; fn++ {
		for v := range p.Vectors {
			pre := fmt.Sprintf("%d %d res=", fn, v)
			if !strings.HasPrefix(lines[i], pre) || !strings.Contains(lines[i], " panic=") || !strings.Contains(lines[i], " trace=") || !strings.Contains(lines[i], " g=") {
				return fmt.Errorf("line %d malformed: %q", i, lines[i])
			}
			i++
		}
	}
	return nil
}

// instrument turns the marker comments into counters and adds Stats().
func instrument(src string) string {
	n := 0
	var b strings.Builder
	for _, line := range strings.SplitAfter(src, "\n") {
		switch strings.TrimSpace(line) {
		case "//gogen:loop":
			fmt.Fprintf(&b, "statLoop(%d)\n", n)
			n++
		case "//gogen:recovered":
			b.WriteString("statRec++\n")
		default:
			b.WriteString(line)
		}
	}
	fmt.Fprintf(&b, `
var statCnt [%d]int
var statRec int

func statLoop(i int) { statCnt[i]++ }

func Stats() (maxIter, total, rec int) {
	for i := range statCnt {
		if statCnt[i] > maxIter {
			maxIter = statCnt[i]
		}
		total += statCnt[i]
		statCnt[i] = 0
	}
	rec = statRec
	statRec = 0
	return
}
`, n+1)
	return b.String()
}

// batchMain is like MainFor for many programs living in t/p0, t/p1, ...
func batchMain(progs []*Program, stats bool) string {
	var b strings.Builder
	b.WriteString("package main\n\nimport (\n\t\"os\"\n\t\"strconv\"\n")
	for i := range progs {
		fmt.Fprintf(&b, "\tp%d \"t/p%d\"\n", i, i)
	}
	b.WriteString(")\n\ntype vec struct {\n\ta, b int\n\ts string\n\tc bool\n}\n\n")
	b.WriteString("type prog struct {\n\trun func(int, int, int, string, bool) string\n\tstats func() (int, int, int)\n\tnf int\n\tvecs []vec\n}\n\nvar progs = []prog{\n")
	for i, p := range progs {
		st := "nil"
		if stats {
			st = fmt.Sprintf("p%d.Stats", i)
		}
		fmt.Fprintf(&b, "\t{p%d.Run, %s, %d, []vec{", i, st, p.NumFuncs)
		for _, v := range p.Vectors {
			fmt.Fprintf(&b, "{%s, %s, %q, %v}, ", intLit(v.A), intLit(v.B), v.S, v.C)
		}
		b.WriteString("}},\n")
	}
	b.WriteString(`}

func main() {
	for pi, p := range progs {
		for fn := 0; fn < p.nf; fn++ {
			for vi, v := range p.vecs {
				line := strconv.Itoa(pi) + " " + strconv.Itoa(fn) + " " + strconv.Itoa(vi) + " " + p.run(fn, v.a, v.b, v.s, v.c)
				if p.stats != nil {
					m, t, r := p.stats()
					line += " STATS " + strconv.Itoa(m) + " " + strconv.Itoa(t) + " " + strconv.Itoa(r)
				}
				os.Stdout.WriteString(line + "\n")
			}
		}
	}
}
`)
	return b.String()
}

// execBatch builds many programs into one binary (one link instead of N).
func execBatch(progs []*Program, stats bool, st *runStats) error {
	dir, err := os.MkdirTemp("", "gogenbatch")
	if err != nil {
		return err
	}
	defer os.RemoveAll(dir)
	files := map[string]string{"go.mod": "module t\n\ngo 1.26\n", "main.go": batchMain(progs, stats)}
	for i, p := range progs {
		src := p.Src
		if stats {
			src = instrument(src)
		}
		files[fmt.Sprintf("p%d/p.go", i)] = src
	}
	if err := writeFiles(dir, files); err != nil {
		return err
	}
	limit := time.Duration(len(progs)) * 2 * time.Second
	var out string
	if stats {
		if b, err := goCmd(dir, "build", "-o", "opt", ".").CombinedOutput(); err != nil {
			return fmt.Errorf("go build: %v\n%s", err, b)
		}
		out, err = runBinary(filepath.Join(dir, "opt"), limit)
	} else {
		out, err = fourRuns(dir, limit)
	}
	if err != nil {
		// identify the program: the last complete line names it
		lines := strings.Split(strings.TrimSpace(out), "\n")
		last := lines[len(lines)-1]
		var pi int
		fmt.Sscanf(last, "%d", &pi)
		if m := strings.Index(err.Error(), "\nA: "); m >= 0 {
			fmt.Sscanf(err.Error()[m+4:], "%d", &pi)
		}
		if pi < len(progs) {
			return fmt.Errorf("%v\n(program %d of the batch, or its successor; source kept in %s)", err, pi, keepFailure(progs[pi]))
		}
		return err
	}
	for _, l := range strings.Split(strings.TrimSpace(out), "\n") {
		st.runs++
		if !strings.Contains(l, "panic=none") {
			st.panics++
		}
		if strings.Contains(l, "fuel=0") {
			st.fuelOut++
		}
		if i := strings.Index(l, " STATS "); i >= 0 {
			var m, tot, r int
			fmt.Sscanf(l[i+7:], "%d %d %d", &m, &tot, &r)
			if m >= 2 {
				st.looped++
			}
			if r > 0 {
				st.recovered++
			}
			st.iters += tot
		}
	}
	return nil
}

func firstDiff(a, b string) string {
	la, lb := strings.Split(a, "\n"), strings.Split(b, "\n")
	for i := 0; i < len(la) && i < len(lb); i++ {
		if la[i] != lb[i] {
			return "A: " + la[i] + "\nB: " + lb[i]
		}
	}
	return "length differs"
}

func sample(t *testing.T, n, offset int) []*Program {
	gen := rapid.Custom(func(rt *rapid.T) *Program { return Generate(rt, DefaultConfig()) })
	var progs []*Program
	for i := 0; i < n; i++ {
		progs = append(progs, gen.Example(offset+i))
	}
	return progs
}

// TestExecSingle: the consumer's module layout with MainFor (3 short / 20 long).
func TestExecSingle(t *testing.T) {
	n := 3
	if long() {
		n = 20
	}
	progs := sample(t, n, 100000)
	errs := make([]error, n)
	var wg sync.WaitGroup
	sem := make(chan struct{}, 4)
	for i, p := range progs {
		wg.Add(1)
		go func() {
			defer wg.Done()
			sem <- struct{}{}
			defer func() { <-sem }()
			errs[i] = execSingle(p)
		}()
	}
	wg.Wait()
	for i, err := range errs {
		if err != nil {
			t.Errorf("program %d: %v", i, err)
		}
	}
}

// TestExecBatch: opt / opt / GOMAXPROCS=1 / -N -l outputs agree (30 short / 300 long).
func TestExecBatch(t *testing.T) {
	n, per := 30, 30
	if long() {
		n, per = 300, 50
	}
	progs := sample(t, n, 0)
	st := &runStats{}
	for i := 0; i < n; i += per {
		if err := execBatch(progs[i:min(n, i+per)], false, st); err != nil {
			t.Fatalf("batch at %d: %v", i, err)
		}
	}
	t.Logf("programs=%d runs=%d panics=%.1f%% fuel-exhausted=%.1f%%", n, st.runs, pct(st.panics, st.runs), pct(st.fuelOut, st.runs))
}

// TestBehaviour measures, on instrumented copies, how often a run iterates a
// loop at least twice, panics, and recovers.
func TestBehaviour(t *testing.T) {
	n, per := 80, 80
	if long() {
		n, per = 300, 50
	}
	progs := sample(t, n, 0)
	st := &runStats{}
	for i := 0; i < n; i += per {
		if err := execBatch(progs[i:min(n, i+per)], true, st); err != nil {
			t.Fatalf("batch at %d: %v", i, err)
		}
	}
	t.Logf("programs=%d runs=%d looped>=2: %.1f%% panics: %.1f%% recovered: %.1f%% fuel-exhausted: %.1f%% avg loop-body executions/run: %.1f",
		n, st.runs, pct(st.looped, st.runs), pct(st.panics, st.runs), pct(st.recovered, st.runs), pct(st.fuelOut, st.runs), float64(st.iters)/float64(max(1, st.runs)))
	if pct(st.looped, st.runs) < 30 || pct(st.panics, st.runs) < 10 || pct(st.recovered, st.runs) < 5 {
		t.Errorf("behaviour targets missed")
	}
}

func pct(a, b int) float64 { return 100 * float64(a) / float64(max(1, b)) }

// TestConfigs: other configurations (tiny, everything disabled, old language
// version) still produce well-typed programs.
func TestConfigs(t *testing.T) {
	all := map[string]bool{"shadowing": true}
	for _, tm := range templates {
		all[tm.tag] = true
	}
	cfgs := []Config{
		{MaxFuncs: 3, MaxStmtDepth: 1, MaxExprDepth: 1, MaxStmts: 3},
		{MaxFuncs: 8, MaxStmtDepth: 4, MaxExprDepth: 4, MaxStmts: 24},
		{MaxFuncs: 5, MaxStmtDepth: 3, MaxExprDepth: 2, MaxStmts: 10, Disable: all},
		{MaxFuncs: 5, MaxStmtDepth: 3, MaxExprDepth: 2, MaxStmts: 10, GoVersion: "go1.22"},
	}
	for ci, cfg := range cfgs {
		gen := rapid.Custom(func(rt *rapid.T) *Program { return Generate(rt, cfg) })
		for i := 0; i < 100; i++ {
			p := gen.Example(i)
			if err := Check(p.Src); err != nil {
				t.Fatalf("config %d seed %d: %v", ci, i, err)
			}
			if ci == 2 {
				// these tags are also produced by ordinary expressions/statements
				shared := map[string]bool{"goto-forward": true, "goto-back": true, "rotate-assign": true, "method-value": true,
					"named-func-type": true, "generic-type": true, "slice-3index": true}
				for _, f := range p.Features {
					if all[f] && !shared[f] {
						t.Fatalf("config %d: disabled feature %s generated", ci, f)
					}
				}
			}
			if ci == 3 && strings.Contains(p.Src, "range seq") {
				t.Fatalf("config %d: range-over-func generated for go1.22", ci)
			}
		}
	}
}
