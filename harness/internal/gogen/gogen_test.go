package gogen

import (
	"bytes"
	"context"
	"fmt"
	"os"
	"os/exec"
	"path/filepath"
	"sort"
	"strings"
	"sync"
	"testing"
	"time"

	"pgregory.net/rapid"
)

func long() bool { return os.Getenv("GOGEN_LONG") != "" }

// genN generates n programs with distinct seeds (rapid.Check drives Generate).
func genN(t *testing.T, n int, f func(p *Program)) {
	t.Helper()
	// rapid.Check's number of cases comes from -rapid.checks; to be
	// independent of flags we use rapid.MakeCheck-free sampling: a Custom
	// generator run through Example would not shrink, so simply loop.
	gen := rapid.Custom(func(rt *rapid.T) *Program { return Generate(rt, DefaultConfig()) })
	for i := 0; i < n; i++ {
		f(gen.Example(i))
	}
}

// TestCheck: every generated program type-checks. Uses rapid.Check so that a
// failure is shrunk; -rapid.checks controls the count (default 100; the long
// run is `GOGEN_LONG=1 go test -rapid.checks=20000`).
func TestCheck(t *testing.T) {
	var mu sync.Mutex
	hist := map[string]int{}
	n, size := 0, 0
	rapid.Check(t, func(rt *rapid.T) {
		p := Generate(rt, DefaultConfig())
		if err := Check(p.Src); err != nil {
			os.WriteFile(filepath.Join(os.TempDir(), "gogen_fail.go"), []byte(p.Src), 0o644)
			rt.Fatalf("check: %v", err)
		}
		mu.Lock()
		n++
		size += len(p.Src)
		for _, f := range p.Features {
			hist[f]++
		}
		mu.Unlock()
	})
	if n > 0 {
		t.Logf("programs=%d avg source bytes=%d", n, size/n)
		printHist(t, hist, n)
	}
}

// TestHistogram: feature histogram over a fixed-seed sample (5000 long / 500 short).
func TestHistogram(t *testing.T) {
	n := 500
	if long() {
		n = 5000
	}
	hist := map[string]int{}
	size, lines := 0, 0
	genN(t, n, func(p *Program) {
		if err := Check(p.Src); err != nil {
			t.Fatalf("check: %v", err)
		}
		size += len(p.Src)
		lines += strings.Count(p.Src, "\n")
		for _, f := range p.Features {
			hist[f]++
		}
	})
	t.Logf("programs=%d avg source bytes=%d avg lines=%d", n, size/n, lines/n)
	printHist(t, hist, n)
	for f, c := range hist {
		if c*100 < n*3 {
			t.Logf("LOW feature %s: %d/%d", f, c, n)
		}
	}
}

func printHist(t *testing.T, hist map[string]int, n int) {
	var ks []string
	for k := range hist {
		ks = append(ks, k)
	}
	sort.Slice(ks, func(i, j int) bool {
		if hist[ks[i]] != hist[ks[j]] {
			return hist[ks[i]] > hist[ks[j]]
		}
		return ks[i] < ks[j]
	})
	var b strings.Builder
	for _, k := range ks {
		fmt.Fprintf(&b, "%-28s %6d %5.1f%%\n", k, hist[k], 100*float64(hist[k])/float64(n))
	}
	t.Logf("feature histogram (%d tags):\n%s", len(ks), b.String())
}

type runStats struct {
	runs, panics, recovered, looped, fuelOut int
}

// buildAndRun compiles the program as module t and runs it under several
// configurations; all outputs must be identical.
func buildAndRun(t *testing.T, p *Program, st *runStats) {
	dir, err := os.MkdirTemp("", "gogen")
	if err != nil {
		t.Fatal(err)
	}
	defer os.RemoveAll(dir)
	must := func(err error) {
		if err != nil {
			t.Fatal(err)
		}
	}
	must(os.MkdirAll(filepath.Join(dir, "p"), 0o755))
	must(os.WriteFile(filepath.Join(dir, "go.mod"), []byte("module t\n\ngo 1.26\n"), 0o644))
	must(os.WriteFile(filepath.Join(dir, "p", "p.go"), []byte(p.Src), 0o644))
	must(os.WriteFile(filepath.Join(dir, "main.go"), []byte(MainFor(p)), 0o644))
	fail := func(format string, args ...any) {
		keep := filepath.Join(os.TempDir(), "gogen_exec_fail.go")
		os.WriteFile(keep, []byte(p.Src), 0o644)
		os.WriteFile(keep+".main", []byte(MainFor(p)), 0o644)
		t.Fatalf("%s (source kept in %s)", fmt.Sprintf(format, args...), keep)
	}
	build := func(out string, flags ...string) {
		args := append([]string{"build", "-o", out}, flags...)
		args = append(args, ".")
		cmd := exec.Command("go", args...)
		cmd.Dir = dir
		cmd.Env = append(os.Environ(), "GOFLAGS=-mod=mod", "GOPROXY=off")
		if b, err := cmd.CombinedOutput(); err != nil {
			fail("go build %v: %v\n%s", flags, err, b)
		}
	}
	run := func(bin string, env ...string) string {
		ctx, cancel := context.WithTimeout(context.Background(), 10*time.Second)
		defer cancel()
		cmd := exec.CommandContext(ctx, filepath.Join(dir, bin))
		cmd.Env = append(os.Environ(), env...)
		var out, errb bytes.Buffer
		cmd.Stdout, cmd.Stderr = &out, &errb
		start := time.Now()
		err := cmd.Run()
		el := time.Since(start)
		if err != nil {
			fail("run %s: %v\nstderr: %s", bin, err, errb.String())
		}
		if el > 2*time.Second {
			fail("run %s took %v", bin, el)
		}
		return out.String()
	}
	build("opt")
	build("noopt", "-gcflags=all=-N -l")
	o1 := run("opt")
	o2 := run("opt")
	o3 := run("opt", "GOMAXPROCS=1")
	o4 := run("noopt")
	for i, o := range []string{o2, o3, o4} {
		if o != o1 {
			fail("output %d differs from first run:\n%s", i+2, firstDiff(o1, o))
		}
	}
	lines := strings.Split(strings.TrimSpace(o1), "\n")
	if len(lines) != p.NumFuncs*len(p.Vectors) {
		fail("expected %d lines, got %d", p.NumFuncs*len(p.Vectors), len(lines))
	}
	for _, l := range lines {
		st.runs++
		if !strings.Contains(l, "panic=none") {
			st.panics++
		}
		if strings.Contains(l, "fuel=0") {
			st.fuelOut++
		}
	}
}

func firstDiff(a, b string) string {
	la, lb := strings.Split(a, "\n"), strings.Split(b, "\n")
	for i := 0; i < len(la) && i < len(lb); i++ {
		if la[i] != lb[i] {
			return "A: " + la[i] + "\nB: " + lb[i]
		}
	}
	return "length differs"
}

// TestExec: build and run a sample of programs (30 short / 300 long).
func TestExec(t *testing.T) {
	if _, err := exec.LookPath("go"); err != nil {
		t.Skip("no go tool")
	}
	n := 30
	if long() {
		n = 300
	}
	var progs []*Program
	genN(t, n, func(p *Program) { progs = append(progs, p) })
	var mu sync.Mutex
	total := &runStats{}
	sem := make(chan struct{}, 8)
	var wg sync.WaitGroup
	for _, p := range progs {
		wg.Add(1)
		sem <- struct{}{}
		go func(p *Program) {
			defer wg.Done()
			defer func() { <-sem }()
			st := &runStats{}
			buildAndRun(t, p, st)
			mu.Lock()
			total.runs += st.runs
			total.panics += st.panics
			total.fuelOut += st.fuelOut
			mu.Unlock()
		}(p)
	}
	wg.Wait()
	if total.runs > 0 {
		t.Logf("programs=%d runs=%d panics=%.1f%% fuel-exhausted=%.1f%%", n, total.runs,
			100*float64(total.panics)/float64(total.runs), 100*float64(total.fuelOut)/float64(total.runs))
	}
}
