package gogen

// tmpl is one of the rarer constructs, emitted from a template whose holes are
// filled with generated, typed expressions and statements.
type tmpl struct {
	tag    string
	weight int
	f      func(g *gen, d int)
}

var templates []tmpl

func register(tag string, weight int, f func(g *gen, d int)) {
	templates = append(templates, tmpl{tag, weight, f})
}

func (g *gen) template(d int) {
	var w []int
	total := 0
	for _, t := range templates {
		if g.on(t.tag) {
			w = append(w, t.weight)
			total += t.weight
		} else {
			w = append(w, 0)
		}
	}
	if total == 0 {
		g.assignStmt()
		return
	}
	t := templates[g.weighted(w, "template")]
	g.feat(t.tag)
	t.f(g, d)
}
