package gogen

import (
	"fmt"
	"sort"
	"strings"

	"pgregory.net/rapid"
)

// vr is a variable (or parameter, or global) visible to the generator.
type vr struct {
	name   string
	ty     *Type
	ro     bool // never assigned by generic statements (loop counters, template state)
	nonnil bool // pointer/interface/func known to be non-nil
	global bool
	local  bool // storage is private to the current function (safe to write in pure mode)
}

// loopCtx is an enclosing breakable statement.
type loopCtx struct {
	label    string
	used     bool
	isSwitch bool // `continue` must skip it
}

// fctx is the context of the function (or func literal) being generated.
type fctx struct {
	res      []*Type
	resNames []string // nil when unnamed
	loops    []*loopCtx
	pure     bool // no effects allowed at all (pure helpers)
	noReturn bool // inside a construct where `return` is not generated
	index    int  // index of the target (may call targets with a lower index); -1 otherwise
}

// target is a generated target function's signature.
type target struct {
	name     string
	params   []*Type
	res      []*Type
	named    bool
	consumer string // name of a pure function taking res as parameters and returning int ("" if none)
}

// pureFn is a generated pure helper.
type pureFn struct {
	name   string
	params []*Type
	res    *Type
}

type gen struct {
	t        *rapid.T
	cfg      Config
	buf      *strings.Builder
	indent   int
	scopes   [][]*vr
	fn       *fctx
	targets  []*target
	pures    []*pureFn
	nameSeq  int
	labelSeq int
	trSeq    int
	budget   int // statements left for the current function
	features map[string]bool
}

func (g *gen) feat(tag string) { g.features[tag] = true }

// on reports whether the feature is enabled in the config.
func (g *gen) on(tag string) bool { return !g.cfg.Disable[tag] }

// ---- random draws (all through rapid) ----

// rapid's integer generators are deliberately biased towards small values and
// range boundaries, which would distort every probability in this package.
// All choices are therefore derived from one rapid.Uint64 draw passed through
// a fixed bijective mixer with mix(0) == 0: the distribution over choices is
// (nearly) uniform, while rapid still shrinks each draw towards 0, i.e.
// towards the first — simplest — alternative of every choice.
func mix(u uint64) uint64 {
	u *= 0x9E3779B97F4A7C15
	u ^= u >> 32
	u *= 0xD6E8FEB86659FD93
	u ^= u >> 32
	return u
}

func (g *gen) intn(n int, label string) int {
	if n <= 1 {
		return 0
	}
	u := rapid.Uint64().Draw(g.t, label)
	return int((mix(u) >> 8) % uint64(n))
}

func (g *gen) rng(lo, hi int, label string) int { return lo + g.intn(hi-lo+1, label) }

func (g *gen) chance(pct int, label string) bool { return g.intn(100, label) >= 100-pct }

// weighted draws an index according to the weights (zero weights are never chosen).
func (g *gen) weighted(w []int, label string) int {
	total := 0
	for _, x := range w {
		total += x
	}
	if total == 0 {
		return 0
	}
	r := g.intn(total, label)
	for i, x := range w {
		if r < x {
			return i
		}
		r -= x
	}
	return len(w) - 1
}

func pickOf[T any](g *gen, xs []T, label string) T { return xs[g.intn(len(xs), label)] }

// ---- output ----

func (g *gen) line(format string, args ...any) {
	for i := 0; i < g.indent; i++ {
		g.buf.WriteByte('\t')
	}
	if len(args) == 0 {
		g.buf.WriteString(format)
	} else {
		fmt.Fprintf(g.buf, format, args...)
	}
	g.buf.WriteByte('\n')
}

// open writes a line and indents; close_ dedents and writes a line.
func (g *gen) open(format string, args ...any)   { g.line(format, args...); g.indent++ }
func (g *gen) close_(format string, args ...any) { g.indent--; g.line(format, args...) }

// capture runs f with output redirected and returns what it wrote.
func (g *gen) capture(f func()) string {
	old := g.buf
	g.buf = &strings.Builder{}
	f()
	s := g.buf.String()
	g.buf = old
	return s
}

func (g *gen) raw(s string) { g.buf.WriteString(s) }

// ---- names ----

func (g *gen) fresh(prefix string) string {
	g.nameSeq++
	return fmt.Sprintf("%s%d", prefix, g.nameSeq)
}

func (g *gen) label() string {
	g.labelSeq++
	return fmt.Sprintf("L%d", g.labelSeq)
}

// trk returns a fresh trace key literal.
func (g *gen) trk() int {
	g.trSeq++
	return g.trSeq
}

// ---- scopes ----

func (g *gen) push() { g.scopes = append(g.scopes, nil) }
func (g *gen) pop()  { g.scopes = g.scopes[:len(g.scopes)-1] }

func (g *gen) declare(v *vr) *vr {
	n := len(g.scopes) - 1
	g.scopes[n] = append(g.scopes[n], v)
	return v
}

// scoped runs f in a fresh nested scope.
func (g *gen) scoped(f func()) {
	g.push()
	f()
	g.pop()
}

// visible returns all variables visible now (innermost first, shadowed ones removed)
// that satisfy pred.
func (g *gen) visible(pred func(*vr) bool) []*vr {
	var out []*vr
	seen := map[string]bool{}
	for i := len(g.scopes) - 1; i >= 0; i-- {
		sc := g.scopes[i]
		for j := len(sc) - 1; j >= 0; j-- {
			v := sc[j]
			if seen[v.name] {
				continue
			}
			seen[v.name] = true
			if pred == nil || pred(v) {
				out = append(out, v)
			}
		}
	}
	return out
}

func (g *gen) varsOf(ty *Type) []*vr {
	return g.visible(func(v *vr) bool { return v.ty == ty })
}

// readable: in pure mode everything may be read.
func (g *gen) pickVar(ty *Type, label string) *vr {
	vs := g.varsOf(ty)
	if len(vs) == 0 {
		return nil
	}
	// Prefer locals/params over globals 3:1 by listing non-globals more often.
	var w []int
	for _, v := range vs {
		if v.global {
			w = append(w, 1)
		} else {
			w = append(w, 4)
		}
	}
	return vs[g.weighted(w, label)]
}

// writable variables of a type (respecting ro and pure mode).
func (g *gen) writableVars(ty *Type) []*vr {
	return g.visible(func(v *vr) bool {
		if v.ty != ty || v.ro {
			return false
		}
		if g.fn.pure && !v.local {
			return false
		}
		return true
	})
}

// local declares a new local with a fresh name, emits `name := init` and the
// blank use that keeps the compiler quiet.
func (g *gen) local(ty *Type, init string) *vr {
	name := g.fresh("v")
	g.line("%s := %s", name, init)
	g.line("_ = %s", name)
	return g.declare(&vr{name: name, ty: ty, local: true})
}

// localVar is `var name T` (zero value).
func (g *gen) localVar(ty *Type) *vr {
	name := g.fresh("v")
	g.line("var %s %s", name, ty.Name)
	g.line("_ = %s", name)
	return g.declare(&vr{name: name, ty: ty, local: true})
}

func sortedKeys(m map[string]bool) []string {
	var ks []string
	for k := range m {
		ks = append(ks, k)
	}
	sort.Strings(ks)
	return ks
}
