package gogen

// Type is one member of the fixed type universe of generated programs.
type Type struct {
	Name string // Go syntax
	Kind kind
	Bits int  // integer kinds
	Uns  bool // unsigned integer
}

type kind int

const (
	kInt kind = iota // every integer kind
	kBool
	kString
	kPtrInt
	kSlice  // []int
	kArr    // [4]int
	kPtrArr // *[4]int
	kBytes  // []byte
	kMapII  // map[int]int
	kMapSI  // map[string]int
	kStruct // S
	kPtrS   // *S
	kInner  // Inner
	kIface  // I
	kErr    // error
	kFunc   // func(int) int
	kT1
	kPT2
	kT3
)

var (
	tInt    = &Type{Name: "int", Kind: kInt, Bits: 64}
	tInt8   = &Type{Name: "int8", Kind: kInt, Bits: 8}
	tUint8  = &Type{Name: "uint8", Kind: kInt, Bits: 8, Uns: true}
	tInt32  = &Type{Name: "int32", Kind: kInt, Bits: 32}
	tUint64 = &Type{Name: "uint64", Kind: kInt, Bits: 64, Uns: true}
	tBool   = &Type{Name: "bool", Kind: kBool}
	tString = &Type{Name: "string", Kind: kString}
	tPInt   = &Type{Name: "*int", Kind: kPtrInt}
	tSlice  = &Type{Name: "[]int", Kind: kSlice}
	tArr    = &Type{Name: "[4]int", Kind: kArr}
	tPArr   = &Type{Name: "*[4]int", Kind: kPtrArr}
	tBytes  = &Type{Name: "[]byte", Kind: kBytes}
	tMapII  = &Type{Name: "map[int]int", Kind: kMapII}
	tMapSI  = &Type{Name: "map[string]int", Kind: kMapSI}
	tS      = &Type{Name: "S", Kind: kStruct}
	tPS     = &Type{Name: "*S", Kind: kPtrS}
	tInner  = &Type{Name: "Inner", Kind: kInner}
	tI      = &Type{Name: "I", Kind: kIface}
	tErr    = &Type{Name: "error", Kind: kErr}
	tFunc   = &Type{Name: "func(int) int", Kind: kFunc}
	tT1     = &Type{Name: "T1", Kind: kT1}
	tPT2    = &Type{Name: "*T2", Kind: kPT2}
	tT3     = &Type{Name: "T3", Kind: kT3}
)

// smallInts are the non-int integer types.
var smallInts = []*Type{tInt8, tUint8, tInt32, tUint64}

// paramTypes / resultTypes are the pools for target signatures.
var paramTypes = []*Type{tInt, tInt, tInt, tBool, tString, tPInt, tSlice, tS, tPS, tI, tFunc}
var resultTypes = []*Type{tInt, tInt, tInt, tBool, tString, tPInt, tSlice, tS, tPS, tI, tErr}

// localTypes are the types a plain `v := expr` may draw.
var localTypes = []*Type{tInt, tInt, tInt, tInt, tBool, tString, tString, tInt8, tUint8, tInt32, tUint64,
	tSlice, tArr, tArr, tS, tPInt, tPInt, tI, tMapII, tMapSI, tPS}

func (t *Type) isInt() bool { return t.Kind == kInt }

// zero returns the zero value literal of the type.
func (t *Type) zero() string {
	switch t.Kind {
	case kInt:
		if t == tInt {
			return "0"
		}
		return t.Name + "(0)"
	case kBool:
		return "false"
	case kString:
		return `""`
	case kArr:
		return "[4]int{}"
	case kStruct:
		return "S{}"
	case kInner:
		return "Inner{}"
	case kT1:
		return "T1{}"
	case kT3:
		return "T3(0)"
	case kPtrInt, kPtrArr, kPtrS, kPT2:
		return "(" + t.Name + ")(nil)"
	case kSlice, kBytes, kMapII, kMapSI, kFunc:
		return t.Name + "(nil)"
	case kIface:
		return "I(nil)"
	case kErr:
		return "error(nil)"
	}
	panic("zero: " + t.Name)
}

// fmtCall returns a Go expression of type string that formats e (of type t)
// with the prelude formatting routines.
func (t *Type) fmtCall(e string) string {
	switch t.Kind {
	case kInt:
		if t == tInt {
			return "itoa(" + e + ")"
		}
		if t == tUint64 {
			return "utoa(" + e + ")"
		}
		return "itoa(int(" + e + "))"
	case kBool:
		return "btoa(" + e + ")"
	case kString:
		return "quote(" + e + ")"
	case kPtrInt:
		return "fmtPInt(" + e + ")"
	case kSlice:
		return "fmtSl(" + e + ")"
	case kArr:
		return "fmtSl(" + e + "[:])"
	case kStruct:
		return "fmtS(" + e + ")"
	case kPtrS:
		return "fmtPS(" + e + ")"
	case kIface:
		return "fmtI(" + e + ")"
	case kErr:
		return "fmtErr(" + e + ")"
	}
	panic("fmtCall: " + t.Name)
}
