package gogen

import "fmt"

func init() {
	// closure capturing and mutating an outer local; calls are statements
	register("closure-mutates-capture", 7, func(g *gen, d int) {
		c := g.local(tInt, g.expr(tInt, g.ed()))
		f := g.fresh("inc")
		g.open("%s := func(d int) {", f)
		g.line("%s += d", c.name)
		if g.chance(50, "closuretr") {
			g.line("tr(%d + (%s & 7))", g.trk()*10, c.name)
		}
		g.close_("}")
		g.line("%s(%s)", f, g.expr(tInt, 1))
		if g.chance(60, "closuremid") {
			g.stmt(0)
		}
		g.line("%s(%s)", f, g.expr(tInt, 1))
	})

	// closure factory returning a stateful closure
	register("closure-returned", 5, func(g *gen, d int) {
		mk, next := g.fresh("mk"), g.fresh("next")
		g.open("%s := func(start int) func() int {", mk)
		g.line("n := start")
		g.open("return func() int {")
		g.line("n += %s", g.nonzeroLit(tInt))
		g.line("return n")
		g.close_("}")
		g.close_("}")
		g.line("%s := %s(%s)", next, mk, g.expr(tInt, 1))
		n := g.rng(1, 3, "ncalls")
		for i := 0; i < n; i++ {
			g.local(tInt, next+"()")
		}
	})

	// closures created in a loop capture the per-iteration variable (go1.22)
	register("closure-loop-var", 8, func(g *gen, d int) {
		fs := g.fresh("fs")
		i := g.fresh("i")
		g.line("var %s []func() int", fs)
		threeClause := g.chance(60, "clvform")
		if threeClause {
			g.open("for %s := 0; %s < %s; %s++ {", i, i, g.smallBound(), i)
		} else {
			g.open("for %s := range %s {", i, g.smallBound())
		}
		g.line("//gogen:loop")
		g.line("%s = append(%s, func() int { return %s*10 + %s })", fs, fs, i, g.expr(tInt, 1))
		if threeClause && g.chance(60, "clvbump") {
			// modifies this iteration's copy before it is copied to the next one
			g.feat("closure-loop-var-modified")
			g.open("if %s {", g.boolOp(1))
			g.line("%s++", i)
			g.close_("}")
		}
		g.close_("}")
		acc := g.local(tInt, "0")
		g.open("for _, f := range %s {", fs)
		g.line("%s = %s*3 + f()", acc.name, acc.name)
		g.close_("}")
	})

	// immediately invoked func literal with generic statements
	register("iife-stmt", 4, func(g *gen, d int) {
		g.feat("iife")
		g.open("func() {")
		g.inClosure(nil, nil, func() { g.body(d) })
		g.close_("}()")
	})

	// named function type with methods
	register("named-func-type", 3, func(g *gen, d int) {
		f := g.fresh("fn")
		g.line("var %s Fn = %s", f, g.funcValue(1))
		g.local(tInt, fmt.Sprintf("%s.%s(%s)", f, pickOf(g, []string{"Apply", "Twice"}, "fnmeth"), g.expr(tInt, 1)))
	})

	// bounded recursion through a local closure with an explicit depth
	register("recursion-depth", 4, func(g *gen, d int) {
		rec := g.fresh("rec")
		g.line("var %s func(n int) int", rec)
		g.open("%s = func(n int) int {", rec)
		g.open("if n <= 0 || n > 6 {")
		g.line("return %s", g.expr(tInt, 1))
		g.close_("}")
		if g.chance(50, "recshape") {
			g.line("return %s(n-1)*2 + n", rec)
		} else {
			g.line("return %s(n-1) + %s(n-2)", rec, rec)
		}
		g.close_("}")
		g.local(tInt, fmt.Sprintf("%s(%s & 7)", rec, g.nc(tInt, 1)))
	})

	// method values and method expressions as first-class values
	register("method-value", 6, func(g *gen, d int) {
		s := g.local(tS, g.construct(tS, 1))
		switch g.intn(4, "mvkind") {
		case 0:
			// value receiver: bound at evaluation time
			f := g.fresh("f")
			g.line("%s := %s.Sum", f, s.name)
			g.line("%s.A += %s", s.name, g.expr(tInt, 1))
			g.local(tInt, f+"() - "+s.name+".Sum()")
		case 1:
			g.feat("method-value-ptr")
			f := g.fresh("f")
			g.line("%s := %s.Scale", f, s.name)
			g.line("%s(%s)", f, g.expr(tInt, 1))
			g.line("%s.A++", s.name)
			g.line("%s(2)", f)
		case 2:
			g.feat("method-expr")
			g.feat("method-expr-ptr")
			f := g.fresh("f")
			g.line("%s := (*S).Scale", f)
			g.line("%s(&%s, %s)", f, s.name, g.expr(tInt, 1))
		default:
			g.feat("method-expr")
			g.feat("embedded-promoted-method")
			f := g.fresh("f")
			g.line("%s := S.Describe", f)
			g.local(tInt, f+"("+s.name+")")
			h := g.fresh("f")
			g.line("%s := (*S).Bump", h)
			g.line("%s(&%s, %s)", h, s.name, g.expr(tInt, 1))
		}
	})

	// interface holding a pointer-receiver implementation: mutation is shared
	register("iface-ptr-impl", 4, func(g *gen, d int) {
		t2 := g.fresh("t")
		g.line("%s := &T2{W: %s, N: %s}", t2, g.expr(tInt, 1), g.expr(tString, 1))
		iv := g.fresh("v")
		g.line("var %s I = %s", iv, t2)
		g.line("_ = %s", iv)
		g.declare(&vr{name: iv, ty: tI, nonnil: true, ro: true, local: true})
		g.line("%s.Set(%s)", t2, g.expr(tInt, 1))
		g.local(tInt, iv+".Get()")
		if g.chance(50, "ifacemv") {
			g.feat("method-value-iface")
			f := g.fresh("f")
			g.line("%s := %s.Get", f, iv)
			g.line("%s.Set(%s)", t2, g.expr(tInt, 1))
			g.local(tInt, f+"()")
		}
		if g.chance(50, "assertback") {
			g.feat("type-assert")
			g.line("%s.(*T2).W++", iv)
		}
	})
}
