package gogen

// prelude is the fixed part of every generated program: text helpers, the
// trace, the global variables, the type universe with its methods, generic
// helpers, iterator constructors and the structural formatters.
//
// Everything marked PURE below may be called from inside expressions; every
// other function has effects (trace, globals, pointer writes, explicit panic)
// and is only ever called in statement position.
const prelude = `package p

// ---- text helpers (PURE) ----

func utoa(n uint64) string {
	if n == 0 {
		return "0"
	}
	var buf [20]byte
	i := len(buf)
	for n > 0 {
		i--
		buf[i] = byte('0' + n%10)
		n /= 10
	}
	return string(buf[i:])
}

func itoa(n int) string {
	if n < 0 {
		return "-" + utoa(-uint64(n))
	}
	return utoa(uint64(n))
}

func btoa(b bool) string {
	if b {
		return "true"
	}
	return "false"
}

const hexdigits = "0123456789abcdef"

func quote(s string) string {
	out := "\""
	for i := 0; i < len(s); i++ {
		c := s[i]
		if c >= 32 && c < 127 && c != '"' && c != '\\' {
			out += s[i : i+1]
		} else {
			out += "\\x" + hexdigits[c>>4:c>>4+1] + hexdigits[c&15:c&15+1]
		}
	}
	return out + "\""
}

// ---- trace and globals ----

var trace []int
var traceN int
var fuel int

func tr(k int) {
	traceN++
	if len(trace) < 64 {
		trace = append(trace, k)
	}
}

var gI int
var gJ int
var gStr string
var gSl []int
var gSt S
var gP *int
var gCell int
var gM map[string]int

func reset() {
	trace = nil
	traceN = 0
	fuel = 200
	gI = 3
	gJ = -7
	gStr = "g"
	gSl = []int{4, 5, 6}
	gSt = S{A: 1, B: "b", In: Inner{X: 2, Y: 3}, Base: Base{ID: 4, Tag: "t"}}
	gCell = 9
	gP = &gCell
	gM = map[string]int{"a": 1, "ab": 2}
}

// ---- constants ----

const (
	KA = iota * 3
	KB
	KC
	_
	KE
)

const (
	MaskLo uint8 = 1 << iota
	MaskMid
	MaskHi
)

const KBig = 1 << 40
const KName = "kn"
const KOn, KOff = true, false
const KTyped int32 = -5

// ---- types ----

type Inner struct {
	X int
	Y int8
}

type Base struct {
	ID  int
	Tag string
}

// Describe is PURE.
func (b Base) Describe() int { return b.ID*3 + len(b.Tag) }

// Bump writes through its receiver.
func (b *Base) Bump(n int) { b.ID += n; tr(b.ID) }

type S struct {
	A  int
	B  string
	In Inner
	Base
}

// Sum is PURE.
func (s S) Sum() int { return s.A + s.In.X + int(s.In.Y) + s.ID }

// Scale writes through its receiver.
func (s *S) Scale(k int) { s.A *= k; s.In.X += k }

type I interface {
	Get() int
	Name() string
}

type T1 struct{ V int }

func (t T1) Get() int       { return t.V }
func (t T1) Name() string   { return "T1" }
func (t T1) Plus(x int) int { return t.V + x }

type T2 struct {
	W int
	N string
}

func (t *T2) Get() int     { return t.W * 2 }
func (t *T2) Name() string { return "T2" + t.N }
func (t *T2) Set(w int)    { t.W = w }
func (t *T2) Mul(x int) int { return t.W * x }

type T3 int

func (t T3) Get() int     { return int(t) + 1 }
func (t T3) Name() string { return "T3" }
func (t T3) Add(x int) int { return int(t) + x }

type MyErr struct{ Code int }

func (e MyErr) Error() string { return "E" + itoa(e.Code) }

type Fn func(int) int

// Apply is as pure as f is.
func (f Fn) Apply(x int) int { return f(x) }

// Twice is as pure as f is.
func (f Fn) Twice(x int) int { return f(f(x)) }

type Seq func(yield func(int) bool)

type Acc struct {
	N   int
	Log []int
}

// Add has effects (receiver write + trace).
func (a *Acc) Add(k int) { a.N += k; tr(a.N) }

// Note has effects (trace).
func (a Acc) Note(k int) { tr(a.N*10 + k) }

// ---- PURE accessors with guards ----

func at(xs []int, i int) int {
	if i < 0 || i >= len(xs) {
		return 0
	}
	return xs[i]
}

func deref(p *int, d int) int {
	if p == nil {
		return d
	}
	return *p
}

func getI(x I) int {
	if x == nil {
		return -1
	}
	return x.Get()
}

func sub(s string, lo, hi int) string {
	if lo < 0 {
		lo = 0
	}
	if hi > len(s) {
		hi = len(s)
	}
	if lo > hi {
		return ""
	}
	return s[lo:hi]
}

// app appends without ever aliasing xs; the result has cap == len.
func app(xs []int, vs ...int) []int {
	r := make([]int, len(xs)+len(vs))
	copy(r, xs)
	copy(r[len(xs):], vs)
	return r
}

func vsum(xs ...int) int {
	t := 0
	for _, x := range xs {
		t += x
	}
	return t
}

func cond[T any](c bool, a, b T) T {
	if c {
		return a
	}
	return b
}

// ---- generics (all PURE unless noted) ----

type Num interface {
	~int | ~int8 | ~uint8 | ~int32 | ~uint64
}

type SmallInt interface{ ~int | ~int32 }

func gsum[T Num](xs ...T) T {
	var t T
	for _, x := range xs {
		t += x
	}
	return t
}

func gdouble[T SmallInt](x T) T { return x + x }

func gindex[T comparable](xs []T, v T) int {
	for i, x := range xs {
		if x == v {
			return i
		}
	}
	return -1
}

func gmap[T, U any](xs []T, f func(T) U) []U {
	var r []U
	for _, x := range xs {
		r = append(r, f(x))
	}
	return r[:len(r):len(r)]
}

func gfirst[T any](xs []T, d T) T {
	if len(xs) == 0 {
		return d
	}
	return xs[0]
}

type Pair[K comparable, V any] struct {
	Key K
	Val V
}

func (p Pair[K, V]) Is(k K) bool         { return p.Key == k }
func (p Pair[K, V]) With(v V) Pair[K, V] { p.Val = v; return p }
func mkPair[K comparable, V any](k K, v V) Pair[K, V] {
	return Pair[K, V]{Key: k, Val: v}
}

type Stack[T any] struct{ items []T }

// Push writes through its receiver.
func (s *Stack[T]) Push(v T) { s.items = append(s.items[:len(s.items):len(s.items)], v) }

// Pop writes through its receiver.
func (s *Stack[T]) Pop() (T, bool) {
	var z T
	if len(s.items) == 0 {
		return z, false
	}
	v := s.items[len(s.items)-1]
	s.items = s.items[:len(s.items)-1]
	return v, true
}
func (s *Stack[T]) Len() int { return len(s.items) }

// ---- iterators: calling the constructor is PURE, running the loop traces ----

func seqN(n int) func(yield func(int) bool) {
	return func(yield func(int) bool) {
		for i := 0; i < n && i < 6; i++ {
			if !yield(i) {
				tr(900 + i)
				return
			}
		}
		tr(990)
	}
}

func seqSl(xs []int) Seq {
	return func(yield func(int) bool) {
		defer tr(980)
		for i, x := range xs {
			if i >= 6 || !yield(x) {
				return
			}
		}
	}
}

func seq2(xs []int, names string) func(yield func(int, string) bool) {
	return func(yield func(int, string) bool) {
		for i, x := range xs {
			nm := sub(names, i, i+1)
			if i >= 6 || !yield(x, nm) {
				tr(970 + i)
				return
			}
		}
	}
}

// ---- structural formatters (PURE) ----

func fmtPInt(p *int) string {
	if p == nil {
		return "nil"
	}
	return "&" + itoa(*p)
}

func fmtSl(xs []int) string {
	if xs == nil {
		return "nil"
	}
	out := "["
	for i, x := range xs {
		if i > 0 {
			out += " "
		}
		out += itoa(x)
	}
	return out + "]"
}

func fmtS(s S) string {
	return "{" + itoa(s.A) + " " + quote(s.B) + " {" + itoa(s.In.X) + " " + itoa(int(s.In.Y)) + "} {" + itoa(s.ID) + " " + quote(s.Tag) + "}}"
}

func fmtPS(p *S) string {
	if p == nil {
		return "nil"
	}
	return "&" + fmtS(*p)
}

func fmtI(x I) string {
	switch v := x.(type) {
	case nil:
		return "nil"
	case T1:
		return "T1{" + itoa(v.V) + "}"
	case *T2:
		if v == nil {
			return "(*T2)nil"
		}
		return "&T2{" + itoa(v.W) + " " + quote(v.N) + "}"
	case T3:
		return "T3(" + itoa(int(v)) + ")"
	}
	return "?"
}

func fmtErr(e error) string {
	switch v := e.(type) {
	case nil:
		return "nil"
	case MyErr:
		return "MyErr{" + itoa(v.Code) + "}"
	}
	return "err?"
}

func fmtPanic(r any) string {
	if r == nil {
		return "none"
	}
	if _, isErr := r.(error); isErr {
		return "rt"
	}
	switch v := r.(type) {
	case int:
		return "int:" + itoa(v)
	case string:
		return "str:" + quote(v)
	}
	return "other"
}

func fmtMapSI(m map[string]int) string {
	if m == nil {
		return "nil"
	}
	n, sum, x := 0, 0, 0
	for k, v := range m {
		n++
		sum += v + len(k)
		x ^= v
	}
	return "map(" + itoa(n) + " " + itoa(sum) + " " + itoa(x) + ")"
}

func fmtGlobals() string {
	return itoa(gI) + " " + itoa(gJ) + " " + quote(gStr) + " " + fmtSl(gSl) + " " + fmtS(gSt) + " " + fmtPInt(gP) + " " + itoa(gCell) + " " + fmtMapSI(gM) + " fuel=" + itoa(fuel)
}
`
