// Package gogen generates random, type-correct, deterministic, terminating,
// import-free Go programs from a *rapid.T. The programs are meant for
// translation validation: compile-and-run with the Go toolchain versus build
// IR and interpret; both must produce the same strings.
//
// # Randomness
//
// Every choice is a rapid draw (one rapid.Uint64 per choice, see mix in
// env.go), so rapid can replay and shrink whole programs. rapid's own integer
// generators are biased towards small values; the draw is therefore passed
// through a bijective mixer with mix(0) == 0, which gives (nearly) uniform
// choice probabilities while shrinking still moves every choice towards its
// first — simplest — alternative. No math/rand, time or map iteration order is
// used by the generator.
//
// # Program interface (fixed; the consumer relies on it)
//
// The file is `package p` and has no imports. It consists of
//
//   - a fixed prelude (prelude.go): text helpers itoa/utoa/btoa/quote; the trace
//     (`var trace []int`, `var traceN int`, `func tr(k int)`: counts every call in
//     traceN, stores only the first 64 keys); `var fuel int`; the globals gI, gJ
//     (int), gStr (string), gSl ([]int), gSt (S), gP (*int, initially &gCell),
//     gCell (int), gM (map[string]int); `func reset()` which sets all of them to
//     fixed values (fuel = 200); constants (iota groups, typed and untyped); the
//     type universe: Inner, Base, S (embeds Base), I {Get() int; Name() string}
//     implemented by T1 (value receiver), *T2 (pointer receiver) and T3 (named
//     int), MyErr (implements error), Fn (named func type with methods), Seq,
//     Acc, generic Num/SmallInt constraints, gsum/gdouble/gindex/gmap/gfirst/
//     cond, Pair[K,V], Stack[T]; iterator constructors seqN, seqSl, seq2; guarded
//     accessors at/deref/getI/sub/app/vsum; structural formatters;
//   - 1..3 generated pure helpers P0.. (no writes outside own locals, no
//     explicit panic), a pure consumer cN for every target with >= 2 results
//     (used for cN(FN(args)) forwarding);
//   - 3..8 targets F0..Fk, each with its own signature: 1..4 parameters from
//     {int, bool, string, *int, []int, S, *S, I, func(int) int}, 0..3 results
//     (named or not) from {int, bool, string, *int, []int, S, *S, I, error};
//   - argument constructors, one runN per target and the dispatcher
//     `func Run(fn int, a int, b int, s string, c bool) (out string)`.
//
// Run calls reset(), then runN(a, b, s, c), which builds the arguments of FN.
// The j-th parameter (0-based count k among parameters of the same type):
//
//	int            k=0: a   k=1: b   k=2: a + b   k=3: a - b
//	bool           k=0: c   k=1: !c  k=2: a < b   k=3: a == b
//	string         k=0: s   k=1: s + "!"  k=2: s + s  k=3: "k" + s
//	*int           argPInt(x, y): nil when x%3 == 0, else pointer to a fresh copy of y
//	[]int          argSlice(x, y): y%3 == 0: nil; y%3 == 1: []int{}; else []int{x, y, x+y}
//	S              argS(x, y, s) = S{A: x, B: s, In: Inner{X: y, Y: int8(x)}, Base: Base{ID: x ^ y, Tag: s}}
//	*S             argPS(x, y, s): nil when x%4 == 1, else &argS(x, y, s)
//	I              argI(x, y, s): x%4 == 0: nil; 1: T1{V: x}; 2: &T2{W: y, N: s}; else T3(y)
//	func(int) int  argFunc(x, y): y%3 == 0: x'+x; y%3 == 1: x'*2; else |x'-y|  (all pure)
//
// where (x, y) = (a, b) for even k and (b, a) for odd k. (Go's % keeps the
// sign of the dividend, so negative inputs take the "else" branches.)
//
// runN then calls the target under `defer func() { r := recover(); ... }()`.
// The string returned by Run is
//
//	res=<r0>,<r1>,... panic=<p> args=<a_i>,... trace=[k k ...] n=<traceN> g=<globals>
//
// - res= is "res=?" when the target panicked; a target without results prints
// "res=". Values are formatted structurally: ints in
// decimal, bools true/false, strings quoted with \xHH escapes for bytes outside
// printable ASCII and for `"` and `\`, *int as nil or &<n>, []int as nil or
// [1 2 3], S as {A "B" {X Y} {ID "Tag"}}, *S as nil or &{...}, I as nil,
// T1{v}, &T2{w "n"}, (*T2)nil or T3(v), error as nil or MyErr{code}.
// - panic= is none, int:<v>, str:<quoted>, rt (any value implementing error,
// i.e. every run-time panic; messages are never printed) or other.
// - args= lists, after the call, the pointees of the *int, []int, *S and I
// arguments in parameter order.
// - trace= shows the first 64 trace keys, n= the number of tr calls.
// - g= is: gI gJ gStr gSl gSt gP gCell gM fuel=<fuel>, the map as
// map(<len> <sum of values and key lengths> <xor of values>).
//
// MainFor returns a `package main` for module "t" (program in "t/p") printing
// "<fn> <vectorIndex> <Run output>" for every target and vector, in order.
//
// # Determinism rules (by the Go spec, not by gc's behaviour)
//
//   - Expressions are free of side effects. Calls to anything that writes
//     globals, traces, writes through pointers/receivers or may panic explicitly
//     (targets, effectful methods, mutating closures) appear only as expression
//     statements, as the sole right-hand side of an assignment/definition whose
//     left-hand sides are plain variables, as the operand list of return, as a
//     deferred call, or as the sole argument of a pure consumer (c(F(x))).
//     Func values stored in variables of type func(int) int are always pure.
//   - An expression may raise run-time panics (index, slice bounds, division,
//     nil dereference, nil map store, type assertion); the consumer treats all of
//     them as one class ("rt"), so their relative order is irrelevant, and no
//     expression also contains an effect that could be ordered against them.
//   - No constant folding: every operator node has a non-constant operand, so
//     the compiler never rejects constant overflow / division by zero / index
//     out of range, and shifts never have untyped constant left operands. Shift
//     counts are `& 7` or of unsigned type. Constant divisors are non-zero,
//     constant indices are in range, switch/map-literal constants are distinct.
//   - Slices visible to generic code always have a capacity fixed by the spec
//     (literal, make, slicing, app): a direct `append` that may grow is followed
//     by x = x[:len(x):len(x)], so later aliasing and cap() never depend on the
//     implementation's growth policy. []byte(s) values are re-sliced likewise.
//   - Map iteration only accumulates commutatively (+, ^, count) into an int.
//   - No goroutines, channels, select, unsafe, reflect, cgo, imports, print,
//     println, floats, pointer comparisons other than with nil, panic(nil), or
//     panics with error values.
//   - Variables holding pointers/interfaces carry a "known non-nil" flag that
//     assignments keep truthful; loop counters and guard-refined variables are
//     never assigned nor address-taken by generic statements.
//
// # Termination
//
// Loops have a constant bound (at most 5 iterations: literal, `x & 3`, `(x &
// 3) + k`, ranges over short strings/slices/arrays, iterators capped at 6), and
// cond-only / infinite / range-slice / range-string loops additionally start
// with `if fuel <= 0 { break }; fuel--`. Every conditional goto of a goto
// graph and every backward goto is guarded by `fuel > 0` and decrements fuel;
// unconditional gotos only jump forward. Every target starts with `if fuel <=
// 0 { return }; fuel--`, which bounds call chains and direct recursion;
// recursive closures carry an explicit depth (<= 6). Strings are clipped to 12
// bytes on assignment.
//
// # Feature tags
//
// Program.Features lists what a program actually contains. Template tags (may
// be switched off with Config.Disable): range-func, range-func-exit,
// range-func-2, range-func-labeled, range-func-defer, range-func-goto,
// range-func-local, defer-lifo, defer-loop, defer-recover, defer-modify-named,
// recover-nested, defer-method-value, recover-local, closure-mutates-capture,
// closure-returned, closure-loop-var, iife-stmt, named-func-type,
// recursion-depth, method-value, iface-ptr-impl, addr-taken-partial,
// ptr-alias, ptr-to-elem, struct-copy-vs-ptr, anon-struct, append-alias,
// slice-3index, bytes, map-ops, generic-type, typed-wrap, string-runes,
// labeled-loops, rotate-assign, goto-forward, goto-back, goto-graph,
// recursion-fuel; also "shadowing". Detail tags: range-func-break,
// range-func-continue, range-func-return, defer-recover-named, defer-arg-eval,
// repanic, closure-loop-var-modified, closure-capture-read, iife,
// method-value-ptr, method-value-iface, method-value-recv, method-expr,
// method-expr-ptr, method-expr-iface, embedded-promoted,
// embedded-promoted-method, ptr-method-on-addressable, ptr-method-call,
// iface-call, iface-compare, type-assert, type-assert-commaok,
// typeswitch-bind, typeswitch-nobind, typeswitch-nil, typeswitch-multi,
// typeswitch-default, generic-func, generic-explicit, generic-comparable,
// goto-self-loop, goto-irreducible, goto-unconditional,
// goto-unreachable-label, labeled-break, labeled-continue, break, continue,
// break-in-switch, continue-in-switch, break-label-from-switch, fallthrough,
// switch-const, switch-nonconst, switch-tagless, switch-string, switch-init,
// switch-default-middle, if-init, else-if-chain, nil-guard, block, for-3clause,
// for-cond, for-infinite, range-int, range-slice, range-array,
// range-ptr-array, range-string, range-map, swap-assign, rotate-assign,
// tuple-index-assign, blank-assign, compound-assign, incdec, multi-return,
// multi-return-forward, return-call, bare-return, early-return, target-call,
// pure-helper-call, func-value-call, variadic, variadic-spread,
// variadic-empty, panic-explicit, panic-string, div-maybe-zero, divmod, shift,
// shift-unsigned-count, small-int-arith, int-conv, min-max, clear, copy, cap,
// new, addr-of-var, addr-of-elem, addr-of-field, ptr-to-slice-elem, deref,
// deref-maybe-nil, ptr-field, store-through-ptr, field-assign, array-store,
// slice-store, map-store, map-lookup, map-commaok, map-delete, map-lit,
// array-index, array-lit, ptr-array-index, slice-index, slice-lit, make-slice,
// nil-slice, slice-2index, slice-3index, slice-of-array, slice-unguarded,
// index-unguarded, append-copying, append-direct, string-concat,
// string-compare, string-index, string-slice, string-to-bytes,
// bytes-to-string, rune-to-string, struct-lit, struct-nested-lit,
// struct-compare, bool-logic, shortcircuit-guard, const-iota, const-typed,
// var-zero.
//
// The marker comments //gogen:loop and //gogen:recovered in the generated
// source are used by this package's tests to instrument copies of a program.
package gogen
