package gogen

import (
	"fmt"
	"strings"
)

// argPrelude holds the argument constructors used by the dispatcher. They are
// documented in doc.go; the consumer relies on them only through Run.
const argPrelude = `
// ---- dispatcher argument constructors (PURE) ----

func argPInt(a, b int) *int {
	if a%3 == 0 {
		return nil
	}
	x := b
	return &x
}

func argSlice(a, b int) []int {
	switch b % 3 {
	case 0:
		return nil
	case 1:
		return []int{}
	}
	return []int{a, b, a + b}
}

func argS(a, b int, s string) S {
	return S{A: a, B: s, In: Inner{X: b, Y: int8(a)}, Base: Base{ID: a ^ b, Tag: s}}
}

func argPS(a, b int, s string) *S {
	if a%4 == 1 {
		return nil
	}
	v := argS(a, b, s)
	return &v
}

func argI(a, b int, s string) I {
	switch a % 4 {
	case 0:
		return nil
	case 1:
		return T1{V: a}
	case 2:
		return &T2{W: b, N: s}
	}
	return T3(b)
}

func argFunc(a, b int) func(int) int {
	switch b % 3 {
	case 0:
		return func(x int) int { return x + a }
	case 1:
		return func(x int) int { return x * 2 }
	}
	return func(x int) int {
		if x > b {
			return x - b
		}
		return b - x
	}
}
`

// genRun emits run0..runK and the exported dispatcher Run.
func (g *gen) genRun() {
	g.raw(argPrelude)
	for i, t := range g.targets {
		g.line("")
		g.open("func run%d(a, b int, s string, c bool) (out string) {", i)
		count := map[kind]int{}
		var args, post []string
		for j, pt := range t.params {
			k := count[pt.Kind]
			count[pt.Kind]++
			x, y := "a", "b"
			if k%2 == 1 {
				x, y = "b", "a"
			}
			name := fmt.Sprintf("a%d", j)
			var init string
			switch pt.Kind {
			case kInt:
				init = []string{"a", "b", "a + b", "a - b"}[k%4]
			case kBool:
				init = []string{"c", "!c", "a < b", "a == b"}[k%4]
			case kString:
				init = []string{"s", `s + "!"`, "s + s", `"k" + s`}[k%4]
			case kPtrInt:
				init = "argPInt(" + x + ", " + y + ")"
			case kSlice:
				init = "argSlice(" + x + ", " + y + ")"
			case kStruct:
				init = "argS(" + x + ", " + y + ", s)"
			case kPtrS:
				init = "argPS(" + x + ", " + y + ", s)"
			case kIface:
				init = "argI(" + x + ", " + y + ", s)"
			case kFunc:
				init = "argFunc(" + x + ", " + y + ")"
			}
			g.line("%s := %s", name, init)
			args = append(args, name)
			switch pt.Kind {
			case kPtrInt, kSlice, kPtrS, kIface:
				post = append(post, pt.fmtCall(name))
			}
		}
		postExpr := `""`
		if len(post) > 0 {
			postExpr = strings.Join(post, ` + "," + `)
		}
		g.line(`out = "res=?"`)
		g.open("defer func() {")
		g.line("r := recover()")
		g.line(`out += " panic=" + fmtPanic(r) + " args=" + %s`, postExpr)
		g.close_("}()")
		call := t.name + "(" + strings.Join(args, ", ") + ")"
		if len(t.res) == 0 {
			g.line("%s", call)
			g.line(`out = "res="`)
		} else {
			var rs, fs []string
			for j, rt := range t.res {
				r := fmt.Sprintf("r%d", j)
				rs = append(rs, r)
				fs = append(fs, rt.fmtCall(r))
			}
			g.line("%s := %s", strings.Join(rs, ", "), call)
			g.line(`out = "res=" + %s`, strings.Join(fs, ` + "," + `))
		}
		g.line("return")
		g.close_("}")
	}
	g.line("")
	g.line("// Run is the dispatcher: see the gogen package documentation for the format.")
	g.open("func Run(fn int, a int, b int, s string, c bool) (out string) {")
	g.line("reset()")
	g.line("switch fn {")
	for i := range g.targets {
		g.line("case %d:", i)
		g.line("\tout = run%d(a, b, s, c)", i)
	}
	g.line("default:")
	g.line("\tout = \"badfn\"")
	g.line("}")
	g.line(`out += " trace=" + fmtSl(app(trace)) + " n=" + itoa(traceN) + " g=" + fmtGlobals()`)
	g.line("return out")
	g.close_("}")
}
