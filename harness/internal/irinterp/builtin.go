// Copyright 2013 The Go Authors. All rights reserved.
// Use of this source code is governed by a BSD-style
// license that can be found in the LICENSE file.

// Ported from golang.org/x/tools/go/ssa/interp/ops.go (typeAssert,
// callBuiltin, sliceToArrayPointer, min/max) to honnef.co/go/tools/go/ir.

package irinterp

import (
	"fmt"
	"go/ast"
	"go/token"
	"go/types"
	"math"
	"strings"

	"honnef.co/go/tools/go/ir"
)

// rtErrType is the dynamic type of the interface values that carry
// run-time errors (nil dereference, index out of range, ...) in the
// target program.  It stands in for the various unexported types of
// package runtime that implement runtime.Error.  It has the methods
// Error() string and RuntimeError().
var rtErrType = func() *types.Named {
	pkg := types.NewPackage("runtime", "runtime")
	tn := types.NewTypeName(token.NoPos, pkg, "Error", nil)
	named := types.NewNamed(tn, types.Typ[types.String], nil)
	recv := func() *types.Var { return types.NewParam(token.NoPos, pkg, "e", named) }
	str := types.NewTuple(types.NewParam(token.NoPos, pkg, "", types.Typ[types.String]))
	named.AddMethod(types.NewFunc(token.NoPos, pkg, "Error",
		types.NewSignatureType(recv(), nil, nil, nil, str, false)))
	named.AddMethod(types.NewFunc(token.NoPos, pkg, "RuntimeError",
		types.NewSignatureType(recv(), nil, nil, nil, nil, false)))
	return named
}()

// rtPanic returns the panic payload for a run-time error of the given class.
func rtPanic(class, msg string) targetPanic {
	return targetPanic{iface{t: rtErrType, v: rtError{class: class, msg: msg}}}
}

const nilDerefMsg = "runtime error: invalid memory address or nil pointer dereference"

func nilDeref() targetPanic { return rtPanic(ClassNilDeref, nilDerefMsg) }

// mkPanic returns the payload of an explicit panic(v).
func mkPanic(v value) targetPanic {
	itf, ok := v.(iface)
	if !ok {
		panic(fmt.Sprintf("panic operand is %T, not an interface", v))
	}
	if itf.t == nil {
		// Since go1.21, panic(nil) panics with a *runtime.PanicNilError.
		return rtPanic(ClassOtherRuntime, "panic called with nil argument (obsolete and disabled by GODEBUG=panicnil=1)")
	}
	return targetPanic{itf}
}

// typeName formats t the way the gc runtime names types: qualified
// by package name.
func typeName(t types.Type) string {
	if t == nil {
		return "nil"
	}
	s := types.TypeString(t, func(p *types.Package) string { return p.Name() })
	switch s {
	case "any", "interface{}":
		return "interface {}"
	}
	return s
}

// typeAssert checks whether dynamic type of itf is instr.AssertedType.
// It returns the extracted value on success, and panics on failure,
// unless instr.CommaOk, in which case it always returns a "value,ok" tuple.
func (i *Interp) typeAssert(instr *ir.TypeAssert, x value) value {
	itf, ok := x.(iface)
	if !ok {
		panic(fmt.Sprintf("typeassert operand is %T, not an interface", x))
	}
	var v value
	err := ""
	if itf.t == nil {
		if !instr.CommaOk && types.Identical(instr.X.Type(), instr.AssertedType) {
			if _, explicit := instr.Source().(*ast.TypeAssertExpr); !explicit {
				// The builder uses typeassert x.(I), where I is the
				// static type of x, as the nil check of an interface
				// method value i.m:
				//     emitTypeAssert(fn, v, rt, e.Sel)
				// The gc toolchain reports a nil dereference here.
				panic(nilDeref())
			}
		}
		err = fmt.Sprintf("interface conversion: %s is nil, not %s", typeName(instr.X.Type()), typeName(instr.AssertedType))

	} else if idst, ok := instr.AssertedType.Underlying().(*types.Interface); ok {
		v = itf
		if meth, _ := types.MissingMethod(itf.t, idst, true); meth != nil {
			err = fmt.Sprintf("interface conversion: %s is not %s: missing method %s",
				typeName(itf.t), typeName(instr.AssertedType), meth.Name())
		}

	} else if types.Identical(itf.t, instr.AssertedType) {
		v = itf.v // extract value

	} else {
		err = fmt.Sprintf("interface conversion: %s is %s, not %s", typeName(instr.X.Type()), typeName(itf.t), typeName(instr.AssertedType))
	}

	if err != "" {
		if !instr.CommaOk {
			panic(rtPanic(ClassTypeAssert, err))
		}
		return tuple{i.zero(instr.AssertedType), false}
	}
	if instr.CommaOk {
		return tuple{v, true}
	}
	return v
}

// typeSwitch implements the TypeSwitch instruction.
//
// ssa.go does not document it; from builder.typeSwitchStmt:
//
//	tswtch.Conds = append(tswtch.Conds, fn.typeOf(expr))      // one per case type, flattened
//	...
//	if len(cc.List) == 1 { rets = append(rets, fn.typeOf(cc.List[0])) }
//	else { for range cc.List { rets = append(rets, tag.Type()) } }
//	...
//	rets = append(rets, tag.Type())                           // default branch
//	vars = append(vars, varIndex); for _, typ := range rets { vars = append(vars, anonVar(typ)) }
//	tswtch.setType(types.NewTuple(vars...))
//	cswtch.Conds = append(cswtch.Conds, intConst(int64(-1), nil))
//
// the result is the tuple (index, v0, ..., vn-1, vdefault), where index
// is the position in Conds of the first matching type, or -1 if none
// matches; v_index is the tag converted to the slot's type (the case
// type for single-type clauses, the tag's own type for multi-type
// clauses); vdefault is the tag.  A Cond of type "untyped nil"
// matches the nil interface.  All other slots are unspecified (here:
// the untyped Go nil).
func (i *Interp) typeSwitch(instr *ir.TypeSwitch, x value) value {
	itf, ok := x.(iface)
	if !ok {
		panic(fmt.Sprintf("typeswitch operand is %T, not an interface", x))
	}
	res := make(tuple, len(instr.Conds)+2)
	res[0] = -1
	res[len(res)-1] = itf
	tt, _ := instr.Type().(*types.Tuple)
	for j, cond := range instr.Conds {
		match := false
		var v value = itf
		if b, ok := cond.(*types.Basic); ok && b.Kind() == types.UntypedNil {
			match = itf.t == nil
		} else if itf.t == nil {
			// no match
		} else if idst, ok := cond.Underlying().(*types.Interface); ok {
			meth, _ := types.MissingMethod(itf.t, idst, true)
			match = meth == nil
		} else if types.Identical(itf.t, cond) {
			match = true
			// Single-type clause: the slot has the case's type.
			if tt != nil && j+1 < tt.Len() && !types.IsInterface(tt.At(j+1).Type()) {
				v = itf.v
			}
		}
		if match {
			res[0] = j
			res[j+1] = v
			break
		}
	}
	return res
}

// callBuiltin interprets a call to builtin fn with arguments args,
// returning its result.  direct is set when the builtin is itself the
// operand of a defer statement.
func (i *Interp) callBuiltin(caller *frame, fn *ir.Builtin, args []value, direct bool) value {
	switch fn.Name() {
	case "append":
		if len(args) == 1 {
			return args[0]
		}
		dst := args[0].([]value)
		var src []value
		if s, ok := args[1].(string); ok {
			// append([]byte, ...string) []byte
			src = make([]value, len(s))
			for j := 0; j < len(s); j++ {
				src[j] = s[j]
			}
		} else {
			// append([]T, ...[]T) []T
			src = args[1].([]value)
		}
		return i.appendSlice(sliceElem(fn, 0), dst, src)

	case "copy": // copy([]T, []T) int or copy([]byte, string) int
		dst := args[0].([]value)
		var src []value
		if s, ok := args[1].(string); ok {
			src = make([]value, len(s))
			for j := 0; j < len(s); j++ {
				src[j] = s[j]
			}
		} else {
			src = args[1].([]value)
		}
		n := min(len(dst), len(src))
		// memmove semantics: the operands may overlap.
		tmp := make([]value, n)
		for j := 0; j < n; j++ {
			tmp[j] = copyVal(src[j])
		}
		for j := 0; j < n; j++ {
			store(&dst[j], tmp[j])
		}
		return n

	case "delete": // delete(map[K]value, K)
		args[0].(*hashmap).delete(args[1])
		return nil

	case "clear":
		switch x := args[0].(type) {
		case *hashmap:
			x.clear()
		case []value:
			elem := sliceElem(fn, 0)
			for j := range x {
				store(&x[j], i.zero(elem))
			}
		default:
			panic(fmt.Sprintf("clear: illegal operand: %T", x))
		}
		return nil

	case "print", "println": // print(any, ...)
		return nil // output is discarded

	case "len":
		switch x := args[0].(type) {
		case string:
			return len(x)
		case array:
			return len(x)
		case *value:
			if x == nil {
				// len(*array) does not evaluate the pointer.
				return int(fn.Type().(*types.Signature).Params().At(0).Type().Underlying().(*types.Pointer).Elem().Underlying().(*types.Array).Len())
			}
			return len((*x).(array))
		case []value:
			return len(x)
		case *hashmap:
			return x.len()
		default:
			panic(fmt.Sprintf("len: illegal operand: %T", x))
		}

	case "cap":
		switch x := args[0].(type) {
		case array:
			return cap(x)
		case *value:
			if x == nil {
				return int(fn.Type().(*types.Signature).Params().At(0).Type().Underlying().(*types.Pointer).Elem().Underlying().(*types.Array).Len())
			}
			return len((*x).(array))
		case []value:
			return cap(x)
		default:
			panic(fmt.Sprintf("cap: illegal operand: %T", x))
		}

	case "min":
		return foldLeft(i.min, args)
	case "max":
		return foldLeft(i.max, args)

	case "real":
		switch c := args[0].(type) {
		case complex64:
			return real(c)
		case complex128:
			return real(c)
		default:
			panic(fmt.Sprintf("real: illegal operand: %T", c))
		}

	case "imag":
		switch c := args[0].(type) {
		case complex64:
			return imag(c)
		case complex128:
			return imag(c)
		default:
			panic(fmt.Sprintf("imag: illegal operand: %T", c))
		}

	case "complex":
		switch f := args[0].(type) {
		case float32:
			return complex(f, args[1].(float32))
		case float64:
			return complex(f, args[1].(float64))
		default:
			panic(fmt.Sprintf("complex: illegal operand: %T", f))
		}

	case "panic":
		// ir.Panic handles most cases; this is only for "go
		// panic" or "defer panic".
		panic(mkPanic(args[0]))

	case "recover":
		return i.doRecover(caller, direct)

	case "ssa:wrapnilchk":
		recv := args[0]
		if recv.(*value) == nil {
			recvType := args[1].(string)
			methodName := args[2].(string)
			short := recvType
			if k := strings.LastIndex(short, "."); k >= 0 {
				short = short[k+1:]
			}
			// gc: panicwrap, a runtime.Error.
			panic(rtPanic(ClassOtherRuntime, fmt.Sprintf("value method %s.%s called using nil *%s pointer",
				recvType, methodName, short)))
		}
		return recv

	case "ssa:deferstack":
		return &caller.defers
	}

	panic(unsupportedf("built-in function %s", fn.Name()))
}

// sliceElem returns the element type of the slice-typed parameter
// number k of the builtin's effective signature.
func sliceElem(fn *ir.Builtin, k int) types.Type {
	return fn.Type().(*types.Signature).Params().At(k).Type().Underlying().(*types.Slice).Elem()
}

// appendSlice implements append(dst, src...) for element type elem.
func (i *Interp) appendSlice(elem types.Type, dst, src []value) value {
	n := len(dst) + len(src)
	if int64(n) > i.maxAlloc() {
		panic(budgetf("slice of length %d exceeds the allocation limit", n))
	}
	if n <= cap(dst) {
		if len(src) == 0 {
			return dst
		}
		res := dst[:n]
		// memmove semantics: src may alias the spare capacity of dst.
		tmp := make([]value, len(src))
		for j := range src {
			tmp[j] = copyVal(src[j])
		}
		for j := range tmp {
			store(&res[len(dst)+j], tmp[j])
		}
		return res
	}
	newcap := growCap(elem, n, cap(dst))
	i.chargeAlloc(int64(newcap))
	res := make([]value, newcap)
	for j := range dst {
		res[j] = copyVal(dst[j])
	}
	for j := range src {
		res[len(dst)+j] = copyVal(src[j])
	}
	for j := n; j < newcap; j++ {
		res[j] = i.zero(elem)
	}
	return res[:n]
}

// sliceToArrayPointer converts the value x of type slice to type t_dst
// a pointer to array and returns the result.
func (i *Interp) sliceToArrayPointer(t_dst, t_src types.Type, x value) value {
	if _, ok := t_src.Underlying().(*types.Slice); ok {
		if ptr, ok := t_dst.Underlying().(*types.Pointer); ok {
			if arr, ok := ptr.Elem().Underlying().(*types.Array); ok {
				x := x.([]value)
				if arr.Len() > int64(len(x)) {
					panic(rtPanic(ClassOtherRuntime, fmt.Sprintf("runtime error: cannot convert slice with length %d to array or pointer to array with length %d", len(x), arr.Len())))
				}
				if x == nil {
					return i.zero(t_dst)
				}
				n := arr.Len()
				v := value(array(x[:n:n]))
				return &v
			}
		}
	}

	panic(fmt.Sprintf("unsupported conversion: %s  -> %s, dynamic type %T", t_src, t_dst, x))
}

// sliceToArray converts the slice x to the array type t_dst.
func (i *Interp) sliceToArray(t_dst, t_src types.Type, x value) value {
	if arr, ok := t_dst.Underlying().(*types.Array); ok {
		x := x.([]value)
		if arr.Len() > int64(len(x)) {
			panic(rtPanic(ClassOtherRuntime, fmt.Sprintf("runtime error: cannot convert slice with length %d to array or pointer to array with length %d", len(x), arr.Len())))
		}
		return copyVal(array(x[:arr.Len()]))
	}
	panic(fmt.Sprintf("unsupported conversion: %s  -> %s, dynamic type %T", t_src, t_dst, x))
}

func foldLeft(op func(value, value) value, args []value) value {
	x := args[0]
	for _, arg := range args[1:] {
		x = op(x, arg)
	}
	return x
}

func (i *Interp) min(x, y value) value {
	switch x := x.(type) {
	case float32:
		return fmin(x, y.(float32))
	case float64:
		return fmin(x, y.(float64))
	}

	// return (y < x) ? y : x
	if i.binop(token.LSS, nil, y, x).(bool) {
		return y
	}
	return x
}

func (i *Interp) max(x, y value) value {
	switch x := x.(type) {
	case float32:
		return fmax(x, y.(float32))
	case float64:
		return fmax(x, y.(float64))
	}

	// return (y > x) ? y : x
	if i.binop(token.GTR, nil, y, x).(bool) {
		return y
	}
	return x
}

// adapted from $GOROOT/src/runtime/minmax.go

func fmin[F float](x, y F) F {
	if y != y || y < x {
		return y
	}
	if x != x || x < y || x != 0 {
		return x
	}
	// x and y are both ±0
	// if either is -0, return -0; else return +0
	if math.Signbit(float64(x)) {
		return x
	}
	return y
}

func fmax[F float](x, y F) F {
	if y != y || y > x {
		return y
	}
	if x != x || x > y || x != 0 {
		return x
	}
	// x and y are both ±0
	// if both are -0, return -0; else return +0
	if math.Signbit(float64(x)) {
		return y
	}
	return x
}

// ------------------------------------------------------------------------
// Slice growth, after runtime.growslice of go1.26 (heap path).

var gcSizes = types.SizesFor("gc", "amd64")

var sizeClassToSize = [...]uint16{0, 8, 16, 24, 32, 48, 64, 80, 96, 112, 128, 144, 160, 176, 192, 208, 224, 240, 256, 288, 320, 352, 384, 416, 448, 480, 512, 576, 640, 704, 768, 896, 1024, 1152, 1280, 1408, 1536, 1792, 2048, 2304, 2688, 3072, 3200, 3456, 4096, 4864, 5376, 6144, 6528, 6784, 6912, 8192, 9472, 9728, 10240, 10880, 12288, 13568, 14336, 16384, 18432, 19072, 20480, 21760, 24576, 27264, 28672, 32768}

func roundupsize(size uint64, noscan bool) uint64 {
	const (
		maxSmallSize           = 32768
		mallocHeaderSize       = 8
		minSizeForMallocHeader = 512
		pageSize               = 8192
	)
	reqSize := size
	if reqSize <= maxSmallSize-mallocHeaderSize {
		if !noscan && reqSize > minSizeForMallocHeader {
			reqSize += mallocHeaderSize
		}
		for _, c := range sizeClassToSize {
			if uint64(c) >= reqSize {
				return uint64(c) - (reqSize - size)
			}
		}
	}
	reqSize += pageSize - 1
	return reqSize &^ (pageSize - 1)
}

func hasPointers(t types.Type) bool {
	switch t := t.Underlying().(type) {
	case *types.Basic:
		return t.Kind() == types.String || t.Kind() == types.UnsafePointer
	case *types.Array:
		return t.Len() > 0 && hasPointers(t.Elem())
	case *types.Struct:
		for j := 0; j < t.NumFields(); j++ {
			if hasPointers(t.Field(j).Type()) {
				return true
			}
		}
		return false
	}
	return true
}

// growCap returns the capacity chosen by the gc runtime when a slice
// of capacity oldCap and element type elem must grow to newLen.
func growCap(elem types.Type, newLen, oldCap int) int {
	size := uint64(8)
	func() {
		defer func() { recover() }()
		size = uint64(gcSizes.Sizeof(elem))
	}()
	if size == 0 {
		return newLen
	}
	newcap := oldCap
	doublecap := newcap + newcap
	if newLen > doublecap {
		newcap = newLen
	} else {
		const threshold = 256
		if oldCap < threshold {
			newcap = doublecap
		} else {
			for {
				newcap += (newcap + 3*threshold) >> 2
				if uint(newcap) >= uint(newLen) {
					break
				}
			}
			if newcap <= 0 {
				newcap = newLen
			}
		}
	}
	capmem := roundupsize(uint64(newcap)*size, !hasPointers(elem))
	return int(capmem / size)
}
