package irinterp

// Test programs, part 6: capacity growth of append (gc-specific).

var progs6 = []testProgram{
	{"append_growth", `package main

type T3 struct{ a, b, c int }
type TP struct {
	p *int
	s string
}

var sinkI []int
var sinkB []byte
var sinkS []string
var sinkT []T3
var sinkP []TP
var sink32 []int32
var sinkE []struct{}

func Main() string {
	out := ""
	last := -1
	for i := 0; i < 2000; i++ {
		sinkI = append(sinkI, i)
		if cap(sinkI) != last {
			last = cap(sinkI)
			out += itoa(last) + ","
		}
	}
	out += " "
	last = -1
	for i := 0; i < 5000; i++ {
		sinkB = append(sinkB, byte(i))
		if cap(sinkB) != last {
			last = cap(sinkB)
			out += itoa(last) + ","
		}
	}
	out += " "
	last = -1
	for i := 0; i < 600; i++ {
		sinkS = append(sinkS, "x")
		if cap(sinkS) != last {
			last = cap(sinkS)
			out += itoa(last) + ","
		}
	}
	out += " "
	last = -1
	for i := 0; i < 600; i++ {
		sinkT = append(sinkT, T3{})
		if cap(sinkT) != last {
			last = cap(sinkT)
			out += itoa(last) + ","
		}
	}
	out += " "
	last = -1
	for i := 0; i < 600; i++ {
		sinkP = append(sinkP, TP{})
		if cap(sinkP) != last {
			last = cap(sinkP)
			out += itoa(last) + ","
		}
	}
	out += " "
	last = -1
	for i := 0; i < 100; i++ {
		sink32 = append(sink32, 1, 2, 3)
		if cap(sink32) != last {
			last = cap(sink32)
			out += itoa(last) + ","
		}
	}
	out += " "
	sinkE = append(sinkE, struct{}{}, struct{}{})
	out += itoa(cap(sinkE)) + " "
	sinkI = append([]int{1, 2, 3}, 4)
	out += itoa(cap(sinkI)) + " "
	sinkI = append(sinkI[:1:1], make([]int, 10)...)
	out += itoa(cap(sinkI)) + " "
	sinkB = append([]byte("hello"), " world, this is a long string"...)
	out += itoa(cap(sinkB))
	return out
}
`},
	{"loop_locals", `package main

type P struct {
	a   int
	arr [2]int
}

func Main() string {
	out := ""
	for i := 0; i < 3; i++ {
		var x int
		var arr [2]int
		var p P
		var s []int
		var m map[int]int
		x += i + 1
		arr[i%2] += x
		p.arr[1] += x
		p.a++
		s = append(s, x)
		out += itoa(x) + itoa(arr[0]) + itoa(arr[1]) + itoa(p.a) + itoa(p.arr[1]) + itoa(len(s)) + btoa(m == nil) + ","
	}
	out += " "
	n := 0
again:
	var y int
	var q P
	y += 5
	q.arr[0] += y
	n++
	out += itoa(y) + itoa(q.arr[0])
	if n < 3 {
		goto again
	}
	out += " "
	// variables captured per iteration keep their own storage
	var ps []*int
	for i := 0; i < 3; i++ {
		v := i * 10
		ps = append(ps, &v)
	}
	*ps[0] += 1
	out += itoa(*ps[0]) + itoa(*ps[1]) + itoa(*ps[2]) + " "
	var arrs []*[2]int
	for i := range 2 {
		var a [2]int
		a[0] = i + 1
		arrs = append(arrs, &a)
	}
	arrs[0][1] = 9
	out += itoa(arrs[0][0]) + itoa(arrs[0][1]) + itoa(arrs[1][0]) + itoa(arrs[1][1])
	return out
}
`},
}
