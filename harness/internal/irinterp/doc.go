// Copyright 2013 The Go Authors. All rights reserved.
// Use of this source code is governed by a BSD-style
// license that can be found in the LICENSE file.

// Package irinterp is an interpreter for the intermediate
// representation honnef.co/go/tools/go/ir.  It is a port of
// golang.org/x/tools/go/ssa/interp that uses only the exported API of
// go/ir (plus go/types, go/constant and the standard library), so it is
// independent of the internals of the IR builder and of the lifting
// pass.  Its purpose is differential testing: the same program is
// built in several builder configurations (naive or lifted form, with
// or without debug references), executed here, and compared with the
// program compiled by the gc toolchain.
//
// The executable subset is sequential Go without imports: no
// goroutines, channels, select, unsafe, reflect or cgo.
//
// # API
//
//	in := irinterp.New(prog, mainPkg, irinterp.Options{})
//	err := in.RunInit()                       // runs mainPkg's "init"
//	results, panicked, err := in.Call(fn, args)
//	v := in.Global("name"); err = in.SetGlobal("name", v)
//
// The interpreter never panics in the host.  Every problem surfaces as
// an *Error whose Kind (test with errors.Is) is one of
//
//   - ErrUnsupported: the program left the executable subset (channel
//     operation, go statement, call of a function without body,
//     uninstantiated generic code, MultiConvert, unsafe conversion);
//   - ErrSteps: a budget of the Call was exhausted: Options.MaxSteps
//     instructions (default 2e6), Options.MaxDepth nested calls
//     (default 5000), or Options.MaxAlloc elements in one array, slice
//     or string (default 1<<22).  Large allocations and copies are
//     also charged to the step budget (one step per 16 elements);
//   - ErrUndefined: the IR reached a state to which the IR gives no
//     meaning: an Unreachable instruction was executed, or a
//     ConstantSwitch has no default (nil) condition and no condition
//     equals the tag;
//   - ErrInternal: everything else, in particular operands whose
//     dynamic type contradicts the instruction (ill-typed IR or
//     ill-typed arguments to Call) and host panics recovered at the
//     API boundary (Error.Stack holds the host stack).
//
// A panic of the target program that it does not recover is not an
// error: Call returns a *PanicInfo with a Class ("nil-deref", "index",
// "slice-bounds", "divide", "type-assert", "other-runtime" for values
// that implement runtime.Error in a compiled program; "explicit" for
// all other values passed to panic), the panic Value and a message.
// "other-runtime" comprises: negative shift count, makeslice len/cap
// out of range, assignment to entry in nil map, comparing/hashing
// uncomparable dynamic types, slice-to-array conversion of a short
// slice, panic(nil) (a *runtime.PanicNilError since go1.21), and the
// "value method T.M called using nil *T pointer" check of wrappers.
//
// # Value model
//
// Value is an alias of any.  The dynamic types are those of the
// upstream interpreter:
//
//	bool, string, int, int8 ... uintptr, float32, float64,
//	complex64, complex128            basic types (int, uint and uintptr are the host's: 64 bits)
//	structure ([]Value)              structs; fields in declaration order, including blank ones
//	array ([]Value)                  arrays
//	[]Value                          slices; nil slice is []Value(nil); len/cap are the host slice's
//	*Value                           pointers; the address of a variable, a field or an element
//	*hashmap                         maps (nil pointer = nil map), iterated in insertion order
//	iface{t types.Type; v Value}     interfaces; the zero iface is the nil interface
//	*ir.Function, *closure, *ir.Builtin   funcs; the nil func is (*ir.Function)(nil)
//	tuple ([]Value)                  multiple results, "comma ok" pairs, Next and TypeSwitch results
//
// Aggregates in registers are immutable and may share storage;
// variables never share storage with registers: Load deep-copies,
// Store copies element-wise into the existing variable (so pointers to
// its fields and elements stay valid), append and copy copy elements.
// A variable is a Go interface cell: Alloc with Heap allocates a fresh
// cell on each execution; without Heap the first execution in a frame
// allocates the cell and later executions re-zero the same cell
// (Function.Locals is not consulted).
//
// Run-time errors are interface values whose dynamic type is a
// synthetic named type runtime.Error (methods Error() string and
// RuntimeError()), standing in for runtime.boundsError,
// runtime.errorString, *runtime.TypeAssertionError etc.  The messages
// approximate those of the gc runtime (same key phrases, e.g.
// "index out of range [5] with length 3"); only the Class is meant to
// be compared.
//
// FromGo builds values from host Go values guided by a types.Type
// (see its documentation); MakeIface builds interface values; ToGo
// converts to plain Go data for inspection.
//
// # Format
//
// Format(v) renders a value structurally and deterministically:
//
//	bool                 true, false
//	integers             decimal (%d), also for uint8 and rune
//	float32/float64      strconv.FormatFloat(f, 'g', -1, 32 or 64): 0.1, 1e+21, NaN, +Inf, -0
//	complex              "(" re sign im "i)", parts as for floats: (1-2i)
//	string               strconv.Quote
//	nil pointer, slice, map, func, interface     nil
//	pointer              "&" followed by the referent; pointers met while printing a
//	                     referent (i.e. at indirection depth >= 1) print as ptr
//	slice, array         [a b c]   (empty: [])
//	struct               {a b c}   (all fields, including blank ones; no field names)
//	map                  map[k:v k:v], entries sorted by the Format of the key (byte-wise
//	                     string order), then of the value
//	interface            (T)value, where T is types.TypeString of the dynamic type
//	                     with packages qualified by name (main.T, []int,
//	                     struct{a int}, map[string]main.T), and "interface {}" for any
//	func                 func
//	run-time error       (runtime.Error)"message"
//	tuple                (a, b)
//
// A Go-side formatter can reproduce this with reflection or a type
// switch: %d, strconv.FormatFloat, strconv.Quote, %T (beware that %T
// prints "struct { a int }" with spaces where go/types prints
// "struct{a int}"), sorting map entries by their formatted keys.
//
// # Instructions
//
// Handled: Alloc, BinOp, UnOp (NOT SUB XOR), Load, Store, Phi
// (parallel assignment on block entry), Call (static, closure,
// dynamic, builtin, invoke), ChangeInterface, ChangeType, Convert
// (numeric, string<->[]byte/[]rune, integer->string), SliceToArray,
// SliceToArrayPointer, MakeInterface, MakeClosure, MakeMap, MakeSlice,
// Slice, FieldAddr, Field, IndexAddr, Index, StringLookup (never
// emitted by the builder: strings use Index), MapLookup, MapUpdate,
// Range, Next (string and map), TypeAssert, TypeSwitch, Extract,
// CompositeValue, Jump, If, ConstantSwitch, Return, RunDefers, Panic,
// Defer (with DeferStack), DebugRef and BlankStore (no-ops).
// Values: Const (nil Value = zero value of any type), AggregateConst
// (never produced: doSimplifyConstantCompositeValues is false),
// Global, Function, Builtin, Parameter, FreeVar.
//
// Rejected with ErrUnsupported: Go, Send, Recv, Select, MakeChan,
// MultiConvert, conversions involving unsafe.Pointer, builtins close
// and unsafe.*, calls of body-less functions, invoke on a
// non-interface (type parameter) receiver, functions with type
// parameters but no type arguments.  Unreachable yields ErrUndefined.
//
// Builtins: append, copy, delete, clear, len, cap, min, max, real,
// imag, complex, print/println (output discarded), panic, recover,
// ssa:wrapnilchk, ssa:deferstack.
//
// # Semantic decisions where ssa.go is silent
//
// ConstantSwitch (undocumented).  From builder.switchStmt,
//
//	conds = append(conds, nil)            // default branch
//	conds = append(conds, b.expr(fn, cond))
//	for _, head := range heads { addEdge(entry, head) }
//
// successor i is taken for the first i with Conds[i] != nil and
// Tag == Conds[i]; otherwise the first successor whose Conds[i] is nil.
// If the tag is an interface and the condition is not, the condition
// is first converted to an interface of its (default) type.
// buildYieldResume deliberately emits a switch without default
// ("Note that this switch does not have an implicit default case");
// falling through such a switch is ErrUndefined.
//
// TypeSwitch (undocumented).  From builder.typeSwitchStmt, see the
// comment on (*Interp).typeSwitch: the result is the tuple
// (index, v0, ..., vn-1, vdefault) with index = -1 for "no match"
// (the paired ConstantSwitch has the explicit condition -1, not nil).
//
// CompositeValue (undocumented): Values is dense ("Omitted elements
// are filled in with zero values"), so the result is simply the struct
// or array of its operands; Bitmap and NumSet are ignored.
//
// make([]T, n, c) with constant c is lowered by builder.builtin to
//
//	// treat make([]T, n, m) as new([m]T)[:n]
//	X: emitNew(fn, at, source, "makeslice"), High: n
//
// so the IR panics with a slice-bounds error where the compiled
// program panics with "makeslice: len out of range".  The interpreter
// recognises the pattern (Slice of an Alloc whose Comment() is
// "makeslice", with only High) and reports ClassOtherRuntime.
//
// Nil check of interface method values.  builder.expr0 emits, for i.m,
//
//	// non-type param interface
//	// Emit nil check: typeassert v.(I).
//	emitTypeAssert(fn, v, rt, e.Sel)
//
// A failing TypeAssert is a "type-assert" panic, but gc reports a nil
// dereference for i.m with nil i.  A non-CommaOk TypeAssert of a nil
// interface to its own static type whose Source() is not an
// *ast.TypeAssertExpr is therefore reported as ClassNilDeref.
//
// Panic/recover follow the upstream interpreter: a panic unwinds
// frames, running the deferred calls of each; recover() stops the
// panic iff it is called by a function that was invoked directly as a
// deferred call of a panicking frame (synthetic wrappers, thunks and
// bound-method closures in between are transparent, "defer recover()"
// has no effect); the frame then resumes at Function.Recover, or
// returns zero results if it has no Recover block.
//
// Defer pushes onto the list denoted by DeferStack (the value of
// ssa:deferstack() of an enclosing frame) or, if DeferStack is nil or
// evaluates to nil, onto the current frame's list.
//
// append grows slices like runtime.growslice of go1.26 on amd64
// (doubling below 256 elements, then 1.25x+192, rounded up to a malloc
// size class), so cap() after append matches compiled code whenever the
// compiler uses the heap path; go1.26 may instead use a 32-byte stack
// buffer for non-escaping slices, which is not modelled.
//
// # Known divergences of the IR from compiled code
//
// These are properties of the IR, not of the interpreter (see
// divergences in the tests):
//
//   - lift.go removes every RunDefers from a function that contains no
//     Defer instruction itself ("usesDefer"), even when the yield
//     function of a range-over-func loop defers into the function's
//     stack via ssa:deferstack; in lifted form such deferred calls
//     never run.
//   - The range-over-func protocol violations ("yield function called
//     after range loop exit", "iterator call did not preserve panic")
//     are panics with a string operand, whereas gc panics with a
//     runtime.Error.
//   - A value-receiver method called through an interface holding a nil
//     pointer panics via ssa:wrapnilchk ("value method ... called using
//     nil pointer", other-runtime); gc does the same unless it
//     devirtualizes the call, in which case it is a nil dereference.
package irinterp
