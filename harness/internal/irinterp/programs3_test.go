package irinterp

// Test programs, part 3: control flow and range loops.

var progs3 = []testProgram{
	{"if_for", `package main

func sign(n int) string {
	if n < 0 {
		return "neg"
	} else if n == 0 {
		return "zero"
	} else if n < 10 {
		return "small"
	} else {
		return "big"
	}
}

func Main() string {
	out := sign(-1) + sign(0) + sign(5) + sign(50) + " "
	sum := 0
	for i := 0; i < 10; i++ {
		if i%2 == 0 {
			continue
		}
		if i > 7 {
			break
		}
		sum += i
	}
	out += itoa(sum) + " "
	n := 0
outer:
	for i := 0; i < 5; i++ {
		for j := 0; j < 5; j++ {
			if j == 3 {
				continue outer
			}
			if i == 3 {
				break outer
			}
			n += i*10 + j
		}
	}
	out += itoa(n) + " "
	k := 0
	for k < 100 {
		k = k*2 + 1
	}
	out += itoa(k) + " "
	c := 0
	for {
		c++
		if c*c > 200 {
			break
		}
	}
	out += itoa(c) + " "
	if x := c * 2; x > 20 {
		out += "gt" + itoa(x)
	} else {
		out += "le" + itoa(x)
	}
	out += " "
	a, b := 0, 1
	for i := 0; i < 20; i, a, b = i+1, b, a+b {
	}
	out += itoa(a) + " "
	var i int
	for i = 0; i < 3; i++ {
	}
	out += itoa(i) + " "
	cnt := 0
	for i := 0; i < 3; i++ {
		for i := 0; i < 2; i++ {
			cnt++
		}
	}
	out += itoa(cnt)
	return out
}
`},
	{"switch", `package main

func f(n int) string {
	r := ""
	switch n {
	case 1:
		r += "one"
		fallthrough
	case 2:
		r += "two"
	case 3, 4:
		r += "34"
		if n == 4 {
			break
		}
		r += "!"
	default:
		r += "d"
		fallthrough
	case 5:
		r += "five"
	}
	return r
}

func g(s string) int {
	switch s {
	case "a":
		return 1
	case "b", "c":
		return 2
	}
	return 0
}

func dyn(x, y int) string {
	switch x {
	case y:
		return "eq"
	case y + 1, y + 2:
		return "near"
	default:
		return "far"
	}
}

func tagless(n int) string {
	switch {
	case n < 0:
		return "neg"
	case n == 0:
		return "zero"
	default:
		return "pos"
	case n > 100:
		return "huge"
	}
}

func ifaceSw(x any) string {
	switch x {
	case 1:
		return "int1"
	case "s":
		return "strs"
	case nil:
		return "nil"
	case 2.5:
		return "f"
	}
	return "none"
}

type Color uint8

const (
	Red Color = iota
	Green
	Blue
)

func (c Color) String() string {
	switch c {
	case Red:
		return "R"
	case Green:
		return "G"
	}
	return "?"
}

var calls int

func side() int { calls++; return calls }

func Main() string {
	out := ""
	for i := 0; i <= 6; i++ {
		out += f(i) + ","
	}
	out += " " + itoa(g("a")) + itoa(g("c")) + itoa(g("z")) + " "
	out += dyn(3, 3) + dyn(5, 3) + dyn(9, 3) + " "
	out += tagless(-1) + tagless(0) + tagless(5) + tagless(500) + " "
	out += ifaceSw(1) + ifaceSw("s") + ifaceSw(nil) + ifaceSw(2.5) + ifaceSw(int8(1)) + " "
	out += Red.String() + Green.String() + Blue.String() + " "
	switch x := side(); x {
	case side(), side():
		out += "m" + itoa(x)
	default:
		out += "n" + itoa(x)
	}
	out += itoa(calls) + " "
	switch side() {
	}
	out += itoa(calls) + " "
	n := 0
loop:
	for i := 0; i < 10; i++ {
		switch {
		case i == 2:
			continue
		case i == 5:
			break loop
		case i%2 == 1:
			break
		default:
			n += 100
		}
		n += i
	}
	out += itoa(n) + " "
	var b int8 = -3
	switch b {
	case -3:
		out += "m3"
	case 3:
		out += "p3"
	}
	switch true {
	case b < 0 && n > 0:
		out += "T"
	}
	switch r := 'x'; r {
	case 'a', 'x':
		out += "rx"
	}
	return out
}
`},
	{"goto", `package main

// irreducible control flow: two entries into a loop
func irr(n int, early bool) int {
	acc := 0
	if early {
		goto b
	}
a:
	acc += 1
	n--
b:
	acc += 10
	n--
	if n > 0 {
		goto a
	}
	return acc
}

func back(n int) int {
	i, s := 0, 0
top:
	if i < n {
		s += i
		i++
		goto top
	}
	return s
}

func fwd(x int) string {
	r := "s"
	if x > 0 {
		goto done
	}
	r += "n"
done:
	r += "d"
	return r
}

func multi(n int) int {
	c := 0
	i := 0
l1:
	c++
	if i%2 == 0 {
		goto l3
	}
l2:
	c += 10
	i++
	if i < n {
		goto l1
	}
	goto end
l3:
	c += 100
	i++
	if i < n {
		goto l2
	}
end:
	return c
}

func Main() string {
	out := itoa(irr(4, false)) + " " + itoa(irr(4, true)) + " " + itoa(irr(1, true)) + " "
	out += itoa(back(5)) + " " + fwd(1) + fwd(0) + " " + itoa(multi(5)) + itoa(multi(1)) + " "
	// goto out of nested blocks and loops
	n := 0
	for i := 0; i < 3; i++ {
		for j := 0; j < 3; j++ {
			if i*j == 2 {
				goto out
			}
			n++
		}
	}
out:
	return out + itoa(n)
}
`},
	{"range_int", `package main

var evals int

func limit() int { evals++; return 3 }

type Idx uint8

func Main() string {
	out := ""
	s := 0
	for i := range 5 {
		s += i
	}
	out += itoa(s) + " "
	for i := range limit() {
		out += itoa(i)
		i += 10 // does not affect the iteration
		_ = i
	}
	out += itoa(evals) + " "
	c := 0
	for range 4 {
		c++
	}
	out += itoa(c) + " "
	for range 0 {
		out += "!"
	}
	n := -3
	for range n {
		out += "!"
	}
	var k Idx = 3
	for i := range k {
		out += utoa(uint64(i + 254))
	}
	out += " "
	var fs []func() int
	for i := range 3 {
		fs = append(fs, func() int { return i })
	}
	for _, f := range fs {
		out += itoa(f())
	}
	out += " "
	var j int
	for j = range 4 {
	}
	out += itoa(j) + " "
	const big = 3
	for i := range big {
		out += itoa(i)
	}
	var i64 int64 = 2
	for i := range i64 {
		out += itoa(int(i))
	}
	return out
}
`},
	{"range_misc", `package main

type P struct{ x int }

func Main() string {
	out := ""
	sl := []int{1, 2, 3}
	for i, v := range sl {
		if i == 0 {
			sl = append(sl, 4) // the range expression is evaluated once
			sl[2] = 30
		}
		out += itoa(v)
	}
	out += itoa(len(sl)) + " "
	for i := range sl {
		out += itoa(i)
	}
	out += " "
	for _, v := range sl[:2] {
		out += itoa(v)
	}
	out += " "
	ps := []P{{1}, {2}}
	for _, p := range ps {
		p.x *= 10
	}
	for i := range ps {
		ps[i].x++
	}
	out += itoa(ps[0].x) + itoa(ps[1].x) + " "
	var nilsl []int
	for range nilsl {
		out += "!"
	}
	var nilm map[string]int
	for range nilm {
		out += "!"
	}
	m := map[string]int{"a": 1, "bb": 2, "ccc": 3}
	ks, vs := 0, 0
	for k, v := range m {
		ks += len(k)
		vs += v
	}
	for k := range m {
		ks += len(k) * 10
	}
	for _, v := range m {
		vs += v * 10
	}
	out += itoa(ks) + itoa(vs) + " "
	// inserting during iteration: each new key may or may not be seen, the total is checked afterwards
	mm := map[int]bool{0: true}
	for k := range mm {
		if k < 5 {
			mm[k+100] = true
		}
	}
	out += itoa(len(mm)) + " "
	str := "aé"
	for i, r := range str {
		out += itoa(i) + ":" + itoa(int(r)) + ","
	}
	for i := range str {
		out += itoa(i)
	}
	for range str {
		out += "."
	}
	out += " "
	var idx int
	var val string
	for idx, val = range []string{"x", "y"} {
	}
	out += itoa(idx) + val + " "
	arr := [3]int{1, 2, 3}
	for i := range arr {
		arr[2-i] += i
	}
	out += itoa(arr[0]) + itoa(arr[1]) + itoa(arr[2]) + " "
	parr := &arr
	for i, v := range parr {
		parr[2] = 100
		out += itoa(i*v) + ","
	}
	var fs []func() int
	for _, v := range []int{7, 8} {
		fs = append(fs, func() int { return v })
	}
	out += itoa(fs[0]()) + itoa(fs[1]()) + " "
	bs := []byte("hi")
	for i, b := range bs {
		bs[i] = b - 32
	}
	out += string(bs) + " "
	grid := [][]int{{1, 2}, {3, 4}}
	t := 0
	for _, row := range grid {
		for _, c := range row {
			t = t*10 + c
		}
	}
	out += itoa(t)
	return out
}
`},
	{"range_func", `package main

type Seq[V any] func(yield func(V) bool)
type Seq2[K, V any] func(yield func(K, V) bool)

func count(n int) Seq[int] {
	return func(yield func(int) bool) {
		for i := 0; i < n; i++ {
			if !yield(i) {
				return
			}
		}
	}
}

func enum[T any](xs []T) Seq2[int, T] {
	return func(yield func(int, T) bool) {
		for i, x := range xs {
			if !yield(i, x) {
				return
			}
		}
	}
}

var log string

func logged(n int) Seq[int] {
	return func(yield func(int) bool) {
		defer func() { log += "c" }()
		for i := 0; i < n; i++ {
			log += "y"
			if !yield(i) {
				log += "s"
				return
			}
		}
		log += "e"
	}
}

func find(xs []string, want string) (int, bool) {
	for i, x := range enum(xs) {
		if x == want {
			return i, true
		}
	}
	return -1, false
}

func nested(n int) int {
	t := 0
outer:
	for i := range count(n) {
		for j := range count(n) {
			if j > i {
				continue outer
			}
			if i == 4 {
				break outer
			}
			if j == 2 {
				break
			}
			t += i*10 + j
		}
		t += 1000
	}
	return t
}

func named() (r int) {
	defer func() { r *= 2 }()
	for i := range count(10) {
		if i == 3 {
			return i + 1
		}
	}
	return -1
}

func deferInBody() (s string) {
	defer func() { s += "d" }()
	for i := range count(3) {
		defer func() { s += itoa(i) }()
	}
	s += "end"
	return s
}

func gotoOut() int {
	n := 0
	for i := range count(5) {
		n += i
		if i == 2 {
			goto done
		}
	}
	n += 100
done:
	return n
}

func void() func(func() bool) {
	return func(yield func() bool) {
		for yield() {
		}
	}
}

func tree(depth int) Seq[int] {
	return func(yield func(int) bool) {
		if depth == 0 {
			return
		}
		for v := range tree(depth - 1) {
			if !yield(v) {
				return
			}
		}
		if !yield(depth) {
			return
		}
		for v := range tree(depth - 1) {
			if !yield(v + 10) {
				return
			}
		}
	}
}

func Main() string {
	out := ""
	s := 0
	for i := range count(5) {
		if i == 1 {
			continue
		}
		if i == 4 {
			break
		}
		s += i
	}
	out += itoa(s) + " "
	for i, x := range enum([]string{"a", "b"}) {
		out += itoa(i) + x
	}
	out += " "
	i, ok := find([]string{"x", "y", "z"}, "y")
	j, ok2 := find([]string{"x"}, "q")
	out += itoa(i) + btoa(ok) + itoa(j) + btoa(ok2) + " "
	out += itoa(nested(6)) + " " + itoa(named()) + " " + deferInBody() + " " + itoa(gotoOut()) + " "
	for range logged(2) {
	}
	log += "|"
	for range logged(5) {
		break
	}
	log += "|"
	for x := range logged(3) {
		if x == 1 {
			continue
		}
	}
	out += log + " "
	c := 0
	for range void() {
		c++
		if c == 3 {
			break
		}
	}
	out += itoa(c) + " "
	for v := range tree(3) {
		if v > 12 {
			break
		}
		out += itoa(v) + ","
	}
	out += " "
	var fs []func() int
	for i := range count(3) {
		fs = append(fs, func() int { return i })
	}
	out += itoa(fs[0]()) + itoa(fs[2]()) + " "
	var k int
	for k = range count(4) {
	}
	out += itoa(k) + " "
	out += try(func() {
		for i := range count(3) {
			if i == 1 {
				panic("in body")
			}
		}
	})
	out += "."
	return out
}
`},
	{"short_circuit", `package main

var trace string

func t(s string, v bool) bool { trace += s; return v }

func Main() string {
	out := ""
	a := t("a", true) && t("b", false) && t("c", true)
	b := t("d", false) || t("e", true) || t("f", true)
	c := (t("g", false) && t("h", true)) || (t("i", true) && !t("j", false))
	out += btoa(a) + btoa(b) + btoa(c) + trace + " "
	trace = ""
	if t("1", false) || t("2", false) {
		out += "x"
	} else if t("3", true) && t("4", true) {
		out += "y"
	}
	out += trace + " "
	var p *struct{ n int }
	if p != nil && p.n > 0 {
		out += "deref"
	}
	if p == nil || p.n > 0 {
		out += "safe"
	}
	x := 5
	d := x > 3 && x < 10
	e := x < 3 || x > 10
	f := !(x == 5) || d != e
	out += btoa(d) + btoa(e) + btoa(f) + " "
	n := 0
	for i := 0; i < 10 && n < 12; i++ {
		n += i
	}
	out += itoa(n) + " "
	type B bool
	var mb B = true
	mb = mb && B(x > 1)
	out += btoa(bool(mb))
	return out
}
`},
	{"assign_order", `package main

func Main() string {
	out := ""
	a, b := 1, 2
	a, b = b, a
	out += itoa(a) + itoa(b) + " "
	s := []int{0, 0, 0}
	i := 0
	i, s[i] = 1, 5 // index evaluated before assignment
	out += itoa(i) + ints(s) + " "
	s[0], s[1], s[2] = s[2]+1, s[0]+1, s[1]+1
	out += ints(s) + " "
	x := 10
	x, y := x+1, x+2
	out += itoa(x) + itoa(y) + " "
	{
		x := 100
		x++
		_ = x
	}
	out += itoa(x) + " "
	arr := [2]int{1, 2}
	arr[0], arr[1] = arr[1], arr[0]
	out += itoa(arr[0]) + itoa(arr[1]) + " "
	p := &arr[0]
	*p, arr[0] = 7, 8
	out += itoa(arr[0]) + " "
	m := map[string]int{}
	m["a"], m["b"] = 1, 2
	m["a"], m["b"] = m["b"], m["a"]
	out += itoa(m["a"]) + itoa(m["b"]) + " "
	type T struct{ a, b int }
	t := T{1, 2}
	t.a, t.b = t.b, t.a
	out += itoa(t.a) + itoa(t.b) + " "
	n := 3
	n += n
	n *= n - 1
	n -= 5
	n /= 3
	n %= 5
	n <<= 2
	n |= 1
	n &^= 4
	n ^= 0xff
	out += itoa(n) + " "
	var q, r = 17 / 5, 17 % 5
	out += itoa(q) + itoa(r) + " "
	k := 0
	k++
	k++
	k--
	out += itoa(k) + " "
	_, z := 1, 2
	_ = z
	var u, v, w int = 1, 2, 3
	u, v, w = w, u, v
	out += itoa(u) + itoa(v) + itoa(w)
	return out
}
`},
}
