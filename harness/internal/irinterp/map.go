// Copyright 2013 The Go Authors. All rights reserved.
// Use of this source code is governed by a BSD-style
// license that can be found in the LICENSE file.

// Ported from golang.org/x/tools/go/ssa/interp/map.go.

package irinterp

// Custom hashtable atop map, used for all map types.
//
// Unlike the upstream interpreter, which uses the host's map for
// keys whose equivalence relation is consistent with ==, a single
// implementation is used for every key type, and it iterates in
// insertion order so that the interpreter is deterministic.
//
// Iteration semantics follow the Go specification: entries removed
// during iteration that have not yet been reached are not produced;
// entries added during iteration are produced (the spec allows either).

import (
	"go/types"
)

type entry struct {
	key     value
	value   value
	next    *entry // hash chain
	deleted bool
}

// A hashtable atop the built-in map.  Since each bucket contains
// exactly one hash value, there's no need to perform hash-equality
// tests when walking the linked list.  Rehashing is done by the
// underlying map.
type hashmap struct {
	keyType types.Type
	table   map[int]*entry
	order   []*entry // insertion order, including deleted entries
	length  int      // number of live entries in map
}

// makeMap returns an empty initialized map of key type kt.
func makeMap(kt types.Type) *hashmap {
	return &hashmap{keyType: kt, table: make(map[int]*entry)}
}

// delete removes the association for key k, if any.
func (m *hashmap) delete(k value) {
	if m == nil {
		// delete on a nil map is a no-op, but an unhashable key still panics.
		hash(nil, k)
		return
	}
	h := hash(m.keyType, k)
	var prev *entry
	for e := m.table[h]; e != nil; e = e.next {
		if equals(m.keyType, k, e.key) {
			if prev == nil {
				if e.next == nil {
					delete(m.table, h)
				} else {
					m.table[h] = e.next
				}
			} else {
				prev.next = e.next
			}
			e.deleted = true
			e.value = nil
			m.length--
			m.compact()
			return
		}
		prev = e
	}
}

// compact drops the tombstones from the insertion-order list once
// the map becomes empty (the only time at which it is trivially safe
// with respect to live iterators: they will simply terminate).
func (m *hashmap) compact() {
	if m.length == 0 {
		m.order = nil
	}
}

// lookup returns the entry associated with key k, if present, or
// nil otherwise.
func (m *hashmap) lookup(k value) *entry {
	if m == nil {
		hash(nil, k)
		return nil
	}
	h := hash(m.keyType, k)
	for e := m.table[h]; e != nil; e = e.next {
		if equals(m.keyType, k, e.key) {
			return e
		}
	}
	return nil
}

// insert updates the map to associate key k with value v.  If there
// was already an association for an equal (though not necessarily
// identical) k, the previous key remains in the map and its
// associated value is updated.
func (m *hashmap) insert(k value, v value) {
	h := hash(m.keyType, k)
	head := m.table[h]
	for e := head; e != nil; e = e.next {
		if equals(m.keyType, k, e.key) {
			e.value = v
			return
		}
	}
	e := &entry{key: k, value: v, next: head}
	m.table[h] = e
	m.order = append(m.order, e)
	m.length++
}

// clear removes all entries.
func (m *hashmap) clear() {
	if m == nil {
		return
	}
	for _, e := range m.order {
		e.deleted = true
	}
	m.table = make(map[int]*entry)
	m.order = nil
	m.length = 0
}

// len returns the number of key/value associations in the map.
func (m *hashmap) len() int {
	if m != nil {
		return m.length
	}
	return 0
}

// live returns the live entries in insertion order.
func (m *hashmap) live() []*entry {
	if m == nil {
		return nil
	}
	var res []*entry
	for _, e := range m.order {
		if !e.deleted {
			res = append(res, e)
		}
	}
	return res
}
