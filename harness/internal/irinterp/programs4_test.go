package irinterp

// Test programs, part 4: defer, panic, recover, run-time panics.

var progs4 = []testProgram{
	{"defer_order", `package main

var log string

func order() {
	for i := 0; i < 3; i++ {
		defer func(n int) { log += itoa(n) }(i)
	}
	x := 1
	defer func(n int) { log += "a" + itoa(n) }(x) // argument evaluated now
	defer func() { log += "c" + itoa(x) }()       // variable read later
	x = 2
	log += "body"
}

func named() (r int) {
	defer func() { r += 10 }()
	defer func() { r *= 2 }()
	return 5
}

func named2() (a, b int) {
	defer func() { a, b = b, a }()
	a = 1
	return a + 1, 7
}

func unnamed() int {
	r := 5
	defer func() { r += 10 }()
	return r
}

type T struct{ n int }

func (t T) show()   { log += "v" + itoa(t.n) }
func (t *T) pshow() { log += "p" + itoa(t.n) }

type Shower interface{ show() }

func methods() {
	t := T{1}
	defer t.show()  // receiver copied now
	defer t.pshow() // pointer: sees the update
	var s Shower = t
	defer s.show()
	f := t.show
	defer f()
	t.n = 2
}

func conditional(b bool) {
	if b {
		defer func() { log += "D" }()
	}
	log += "x"
}

func loopClosure() {
	for i := range 3 {
		defer func() { log += itoa(i) }()
	}
}

func nestedDefer() {
	defer func() {
		defer func() { log += "inner" }()
		log += "outer"
	}()
}

func builtins() (n int) {
	m := map[int]int{1: 1, 2: 2}
	defer func() { n = len(m) }()
	defer delete(m, 1)
	s := []int{1, 2, 3}
	defer copy(s, []int{9})
	defer println("ignored")
	return 0
}

func Main() string {
	order()
	out := log + " " + itoa(named()) + " "
	a, b := named2()
	out += itoa(a) + itoa(b) + " " + itoa(unnamed()) + " "
	log = ""
	methods()
	out += log + " "
	log = ""
	conditional(true)
	conditional(false)
	loopClosure()
	nestedDefer()
	out += log + " " + itoa(builtins())
	return out
}
`},
	{"recover", `package main

type MyErr struct{ s string }

func (e *MyErr) Error() string { return e.s }

func safe(f func()) (res string) {
	defer func() {
		if r := recover(); r != nil {
			res = "rec:" + class(r)
		}
	}()
	f()
	return "ok"
}

func namedResult() (n int, err error) {
	defer func() {
		if r := recover(); r != nil {
			err = r.(error)
			n *= 2
		}
	}()
	n = 21
	panic(&MyErr{"boom"})
}

func noNamed() int {
	defer func() { recover() }()
	panic("x")
}

func notPanicking() string {
	r := recover()
	var s string
	defer func() { s = class(recover()) }()
	func() {
		defer func() { s += class(recover()) }()
	}()
	return class(r) + s
}

func helperRecover() any { return recover() }

func nestedNoRecover() (res string) {
	defer func() { res += "|outer:" + class(recover()) }()
	defer func() {
		r := helperRecover() // not called directly by the deferred function
		res += "helper:" + class(r)
	}()
	panic("deep")
}

func repanic() (res string) {
	defer func() { res = "final:" + class(recover()) }()
	defer func() {
		r := recover()
		panic("re-" + r.(string))
	}()
	panic("first")
}

func panicInDefer() (res string) {
	defer func() { res = class(recover()) }()
	defer func() { panic("second") }()
	panic("first")
}

func recoverTwice() (res string) {
	defer func() { res += "2:" + class(recover()) }()
	defer func() { res += "1:" + class(recover()) + "," }()
	panic("p")
}

func continueAfter() (res string) {
	func() {
		defer func() { recover() }()
		panic("inner")
	}()
	return "continued"
}

func deferRecoverDirect() (res string) {
	defer func() { res = "outer:" + class(recover()) }()
	func() {
		defer recover() // has no effect
		panic("direct")
	}()
	return "not reached"
}

func runtimeInDefer() (res string) {
	defer func() { res = class(recover()) }()
	defer func() {
		var m map[string]int
		m["x"] = 1
	}()
	return "normal"
}

func deepUnwind() (res string) {
	defer func() { res += class(recover()) }()
	var f func(int)
	f = func(n int) {
		defer func() { res += itoa(n) }()
		if n == 0 {
			var p *int
			*p = 1
		}
		f(n - 1)
	}
	f(3)
	return
}

func methodRecover() (res string) {
	h := &handler{}
	defer func() { res = h.got }()
	defer h.handle()
	panic("via method value")
}

type handler struct{ got string }

func (h *handler) handle() { h.got = class(recover()) }

func valueAfterRecover() (a int, b string) {
	defer func() { recover() }()
	a, b = 1, "set"
	panic("x")
}

func loopRecover() string {
	res := ""
	for i := 0; i < 3; i++ {
		func() {
			defer func() {
				if r := recover(); r != nil {
					res += class(r) + ";"
				}
			}()
			if i != 1 {
				panic(i)
			}
			res += "fine;"
		}()
	}
	return res
}

func Main() string {
	out := safe(func() {}) + " " + safe(func() { panic("s") }) + " " + safe(func() { panic(42) }) + " " + safe(func() { panic(&MyErr{"e"}) }) + " " + safe(func() { panic(struct{}{}) }) + " "
	n, err := namedResult()
	out += itoa(n) + err.Error() + " " + itoa(noNamed()) + " " + notPanicking() + " " + nestedNoRecover() + " "
	out += repanic() + " " + panicInDefer() + " " + recoverTwice() + " " + continueAfter() + " " + deferRecoverDirect() + " "
	out += runtimeInDefer() + " " + deepUnwind() + " " + methodRecover() + " "
	a, b := valueAfterRecover()
	out += itoa(a) + b + " " + loopRecover() + " "
	out += safe(func() { var e error; panic(e) })
	return out
}
`},
	{"runtime_panics", `package main

type T struct {
	a int
	p *T
}

type I interface{ M() int }

func (t T) M() int { return t.a }

func Main() string {
	out := ""
	var np *T
	var ns []int
	var nm map[string]int
	var ni I
	var nf func() int
	var na any
	zero, neg, five := 0, -1, 5
	s := []int{1, 2, 3}
	arr := [3]int{1, 2, 3}
	str := "abc"
	cases := []func(){
		func() { _ = np.a },
		func() { np.a = 1 },
		func() { _ = np.p.p },
		func() { _ = ni.M() },
		func() { _ = nf() },
		func() { _ = *np },
		func() { _ = s[five] },
		func() { s[neg] = 1 },
		func() { _ = ns[zero] },
		func() { _ = arr[five%4] },
		func() { _ = str[five] },
		func() { _ = s[five:] },
		func() { _ = s[2:1+zero] },
		func() { _ = s[:five] },
		func() { _ = s[1:2:five] },
		func() { _ = arr[neg+1 : five] },
		func() { _ = str[five:] },
		func() { _ = five / zero },
		func() { _ = five % zero },
		func() { var i8 int8 = 1; _ = i8 / int8(zero) },
		func() { var u uint = 1; _ = u / uint(zero) },
		func() { _ = na.(int) },
		func() { na = "s"; _ = na.(int) },
		func() { _ = na.(I) },
		func() { nm["a"] = 1 },
		func() { _ = make([]int, neg) },
		func() { _ = make([]int, 1, zero) },
		func() { _ = make([]int, neg, 10) },
		func() { _ = make([]int, five*3, 10) },
		func() { _ = 1 << neg },
		func() { _ = [2]int(s[:1]) },
		func() { _ = (*[4]int)(s) },
		func() { panic(nil) },
		func() { var e error; _ = e.Error() },
	}
	for _, c := range cases {
		out += try(c) + " "
	}
	// non-panicking counterparts
	out += itoa(len(nm)) + itoa(nm["x"]) + itoa(len(ns)) + itoa(len(ns[:0])) + itoa(len(s[3:])) + itoa(len(str[3:])) + itoa(len(make([]int, zero)))
	x := 1.0
	out += btoa(x/float64(zero) > 0)
	return out
}
`},
	{"uncaught_explicit", `package main

func Main() string {
	defer func() {}()
	panic("not recovered")
}
`},
	{"uncaught_error", `package main

type E struct{}

func (E) Error() string { return "custom" }

func f() {
	defer func() {
		// recover and re-panic with a different value
		r := recover()
		panic(E{})
		_ = r
	}()
	var s []int
	_ = s[3]
}

func Main() string {
	f()
	return "unreachable"
}
`},
	{"uncaught_index", `package main

func get(s []int, i int) int { return s[i] }

func Main() string {
	x := 0
	defer func() { x++ }()
	return itoa(get([]int{1}, 5))
}
`},
	{"uncaught_nil", `package main

type T struct{ next *T; v int }

func Main() string {
	t := &T{}
	return itoa(t.next.next.v)
}
`},
	{"uncaught_divide", `package main

var zero int

func Main() string {
	return itoa(10 / zero)
}
`},
	{"uncaught_slice", `package main

func Main() string {
	s := make([]int, 2, 4)
	n := 5
	return ints(s[:n])
}
`},
	{"uncaught_assert", `package main

func Main() string {
	var x any = 1.5
	return x.(string)
}
`},
	{"uncaught_repanic_runtime", `package main

func Main() (res string) {
	defer func() {
		r := recover()
		panic(r) // re-panicking a run-time error keeps it a run-time error
	}()
	var m map[int]int
	m[1] = 1
	return "unreachable"
}
`},
	{"uncaught_in_defer", `package main

func Main() string {
	defer func() {
		var p *int
		*p = 1
	}()
	return "value"
}
`},
	{"init_order", `package main

var a = b + 1
var b = f()
var c, d = g()
var e = [3]int{a, b, c}
var m = map[string]int{"x": d}
var s = "init"

func f() int { s += "F"; return 10 }
func g() (int, int) { return a * 2, b * 3 }

func init() { s += "1" }
func init() { s += "2"; m["y"] = e[0] }

type T struct{ p *int }

var gt = T{&a}
var anon = struct{ x, y int }{1, 2}
var fn = func() int { return anon.x + anon.y }

const (
	K0 = iota * 10
	K1
	K2
	_
	K4
)

const huge = 1 << 100
const small = huge >> 98
const typed uint64 = 1<<64 - 1
const fl = 1.0 / 3

func Main() string {
	*gt.p += 100
	out := itoa(a) + " " + itoa(b) + " " + itoa(c) + " " + itoa(d) + " " + itoa(e[2]) + " " + itoa(m["x"]) + itoa(m["y"]) + " " + s + " " + itoa(fn()) + " "
	out += itoa(K1) + itoa(K2) + itoa(K4) + " " + itoa(small) + " " + utoa(typed) + " " + ftoa(fl*3) + " " + itoa(int(typed%1000))
	return out
}
`},
}
