package irinterp

// This file defines the exported conversions between interpreter
// values and host Go values: Format, FromGo and ToGo.

import (
	"fmt"
	"go/types"
	"reflect"
	"sort"
	"strconv"
	"strings"

	"honnef.co/go/tools/go/ir"
)

// Format returns the canonical, deterministic, structural rendering
// of v.  The format is specified in the package documentation.
func Format(v Value) string {
	var b strings.Builder
	writeValue(&b, v, 0)
	return b.String()
}

func formatFloat(f float64, bits int) string {
	return strconv.FormatFloat(f, 'g', -1, bits)
}

func formatComplex(re, im float64, bits int) string {
	s := formatFloat(im, bits)
	if !strings.HasPrefix(s, "+") && !strings.HasPrefix(s, "-") {
		s = "+" + s
	}
	return "(" + formatFloat(re, bits) + s + "i)"
}

func writeSeq(b *strings.Builder, open, close string, elems []value, depth int) {
	b.WriteString(open)
	for j, e := range elems {
		if j > 0 {
			b.WriteByte(' ')
		}
		writeValue(b, e, depth)
	}
	b.WriteString(close)
}

// depth counts the pointer indirections followed so far.
func writeValue(b *strings.Builder, v value, depth int) {
	switch v := v.(type) {
	case nil:
		b.WriteString("nil")
	case bool:
		b.WriteString(strconv.FormatBool(v))
	case int, int8, int16, int32, int64, uint, uint8, uint16, uint32, uint64, uintptr:
		fmt.Fprintf(b, "%d", v)
	case float32:
		b.WriteString(formatFloat(float64(v), 32))
	case float64:
		b.WriteString(formatFloat(v, 64))
	case complex64:
		b.WriteString(formatComplex(float64(real(v)), float64(imag(v)), 32))
	case complex128:
		b.WriteString(formatComplex(real(v), imag(v), 64))
	case string:
		b.WriteString(strconv.Quote(v))

	case *hashmap:
		if v == nil {
			b.WriteString("nil")
			return
		}
		type kv struct{ k, v string }
		var kvs []kv
		for _, e := range v.live() {
			var kb, vb strings.Builder
			writeValue(&kb, e.key, depth)
			writeValue(&vb, e.value, depth)
			kvs = append(kvs, kv{kb.String(), vb.String()})
		}
		sort.Slice(kvs, func(i, j int) bool {
			if kvs[i].k != kvs[j].k {
				return kvs[i].k < kvs[j].k
			}
			return kvs[i].v < kvs[j].v
		})
		b.WriteString("map[")
		for j, e := range kvs {
			if j > 0 {
				b.WriteByte(' ')
			}
			b.WriteString(e.k)
			b.WriteByte(':')
			b.WriteString(e.v)
		}
		b.WriteString("]")

	case *value:
		if v == nil {
			b.WriteString("nil")
		} else if depth >= 1 {
			b.WriteString("ptr")
		} else {
			b.WriteByte('&')
			writeValue(b, *v, depth+1)
		}

	case iface:
		if v.t == nil {
			b.WriteString("nil")
			return
		}
		fmt.Fprintf(b, "(%s)", typeName(v.t))
		writeValue(b, v.v, depth)

	case rtError:
		b.WriteString(strconv.Quote(v.msg))

	case structure:
		writeSeq(b, "{", "}", v, depth)

	case array:
		writeSeq(b, "[", "]", v, depth)

	case []value:
		if v == nil {
			b.WriteString("nil")
			return
		}
		writeSeq(b, "[", "]", v, depth)

	case *ir.Function:
		if v == nil {
			b.WriteString("nil")
		} else {
			b.WriteString("func")
		}
	case *ir.Builtin, *closure:
		b.WriteString("func")

	case tuple:
		b.WriteString("(")
		for j, e := range v {
			if j > 0 {
				b.WriteString(", ")
			}
			writeValue(b, e, depth)
		}
		b.WriteString(")")

	default:
		fmt.Fprintf(b, "<%T>", v)
	}
}

// FromGo converts the host Go value x to an interpreter value of the
// (target) type t.
//
// Accepted shapes of x, by the underlying type of t:
//
//	bool, string          the same Go type (or a named variant)
//	integers, floats      any Go integer or float; converted with Go conversion semantics
//	complex               any Go complex
//	slice                 nil, or any Go slice/array whose elements are accepted for t's element type
//	array                 any Go slice/array of exactly the right length
//	struct                a Go struct with the same number of fields (matched by position),
//	                      or a []any of that length
//	pointer               nil, or a Go pointer to a value accepted for the element type
//	                      (a fresh variable is allocated)
//	map                   nil, or a Go map (entries are inserted in the order of their Format-ted keys)
//	interface             nil, or a Go bool/int*/uint*/float*/complex*/string, which becomes the dynamic
//	                      value of the corresponding predeclared type
//	func                  nil only
//
// An interpreter value (anything produced by this package) is
// returned unchanged if x already is one of the composite
// representations (structure, array, []Value, map, pointer, iface).
func FromGo(t types.Type, x any) (Value, error) {
	var res value
	err := protect(func() {
		i := &Interp{opts: Options{MaxAlloc: 1 << 24, MaxSteps: 1 << 40}, steps: 1 << 40}
		if x == nil {
			res = i.zero(t)
			return
		}
		res = i.fromGo(t, reflect.ValueOf(x))
	})
	if err != nil {
		return nil, err
	}
	return res, nil
}

// MustFromGo is like FromGo but panics on error.
func MustFromGo(t types.Type, x any) Value {
	v, err := FromGo(t, x)
	if err != nil {
		panic(err)
	}
	return v
}

func (i *Interp) fromGo(t types.Type, x reflect.Value) value {
	// Already an interpreter value?
	if x.IsValid() && x.CanInterface() {
		switch v := x.Interface().(type) {
		case structure, array, *hashmap, *value, iface, *closure, *ir.Function:
			return v
		}
	}
	for x.IsValid() && x.Kind() == reflect.Interface {
		if x.IsNil() {
			return i.zero(t)
		}
		x = x.Elem()
	}
	if !x.IsValid() {
		return i.zero(t)
	}
	bad := func() value {
		panic(unsupportedf("FromGo: cannot convert Go %s to %s", x.Type(), t))
	}
	switch u := t.Underlying().(type) {
	case *types.Basic:
		kind := u.Kind()
		if u.Info()&types.IsUntyped != 0 {
			kind = types.Default(u).(*types.Basic).Kind()
		}
		switch {
		case kind == types.Bool:
			if x.Kind() == reflect.Bool {
				return x.Bool()
			}
		case kind == types.String:
			if x.Kind() == reflect.String {
				return x.String()
			}
		case u.Info()&types.IsComplex != 0:
			if x.CanComplex() {
				if kind == types.Complex64 {
					return complex64(x.Complex())
				}
				return x.Complex()
			}
		case u.Info()&types.IsNumeric != 0:
			switch {
			case x.CanInt():
				if v, ok := narrow(kind, x.Int()); ok {
					return v
				}
			case x.CanUint():
				if v, ok := narrow(kind, x.Uint()); ok {
					return v
				}
			case x.CanFloat():
				if v, ok := narrow(kind, x.Float()); ok {
					return v
				}
			}
		}
		return bad()

	case *types.Slice:
		switch x.Kind() {
		case reflect.Slice:
			if x.IsNil() {
				return []value(nil)
			}
		case reflect.Array:
		default:
			return bad()
		}
		res := make([]value, x.Len())
		for j := range res {
			res[j] = i.fromGo(u.Elem(), x.Index(j))
		}
		return res

	case *types.Array:
		if (x.Kind() != reflect.Slice && x.Kind() != reflect.Array) || int64(x.Len()) != u.Len() {
			return bad()
		}
		res := make(array, x.Len())
		for j := range res {
			res[j] = i.fromGo(u.Elem(), x.Index(j))
		}
		return res

	case *types.Struct:
		switch x.Kind() {
		case reflect.Struct:
			if x.NumField() != u.NumFields() {
				return bad()
			}
			res := make(structure, u.NumFields())
			for j := range res {
				res[j] = i.fromGo(u.Field(j).Type(), x.Field(j))
			}
			return res
		case reflect.Slice, reflect.Array:
			if x.Len() != u.NumFields() {
				return bad()
			}
			res := make(structure, u.NumFields())
			for j := range res {
				res[j] = i.fromGo(u.Field(j).Type(), x.Index(j))
			}
			return res
		}
		return bad()

	case *types.Pointer:
		if x.Kind() != reflect.Pointer {
			return bad()
		}
		if x.IsNil() {
			return (*value)(nil)
		}
		cell := i.fromGo(u.Elem(), x.Elem())
		return &cell

	case *types.Map:
		if x.Kind() != reflect.Map {
			return bad()
		}
		if x.IsNil() {
			return (*hashmap)(nil)
		}
		type kv struct {
			s    string
			k, v value
		}
		var kvs []kv
		for it := x.MapRange(); it.Next(); {
			k := i.fromGo(u.Key(), it.Key())
			kvs = append(kvs, kv{Format(k), k, i.fromGo(u.Elem(), it.Value())})
		}
		sort.Slice(kvs, func(a, b int) bool { return kvs[a].s < kvs[b].s })
		m := makeMap(u.Key())
		for _, e := range kvs {
			m.insert(e.k, e.v)
		}
		return m

	case *types.Interface:
		var dt types.Type
		switch x.Kind() {
		case reflect.Bool:
			dt = types.Typ[types.Bool]
		case reflect.Int:
			dt = types.Typ[types.Int]
		case reflect.Int8:
			dt = types.Typ[types.Int8]
		case reflect.Int16:
			dt = types.Typ[types.Int16]
		case reflect.Int32:
			dt = types.Typ[types.Int32]
		case reflect.Int64:
			dt = types.Typ[types.Int64]
		case reflect.Uint:
			dt = types.Typ[types.Uint]
		case reflect.Uint8:
			dt = types.Typ[types.Uint8]
		case reflect.Uint16:
			dt = types.Typ[types.Uint16]
		case reflect.Uint32:
			dt = types.Typ[types.Uint32]
		case reflect.Uint64:
			dt = types.Typ[types.Uint64]
		case reflect.Uintptr:
			dt = types.Typ[types.Uintptr]
		case reflect.Float32:
			dt = types.Typ[types.Float32]
		case reflect.Float64:
			dt = types.Typ[types.Float64]
		case reflect.Complex64:
			dt = types.Typ[types.Complex64]
		case reflect.Complex128:
			dt = types.Typ[types.Complex128]
		case reflect.String:
			dt = types.Typ[types.String]
		default:
			return bad()
		}
		return iface{t: dt, v: i.fromGo(dt, x)}

	case *types.Signature:
		if (x.Kind() == reflect.Func || x.Kind() == reflect.Pointer) && x.IsNil() {
			return (*ir.Function)(nil)
		}
		return bad()
	}
	return bad()
}

// MakeIface returns the interface value whose dynamic type is t and
// whose dynamic value is v (an interpreter value of type t).
func MakeIface(t types.Type, v Value) Value {
	if t == nil {
		return iface{}
	}
	return iface{t: t, v: v}
}

// An Iface is the result of ToGo for a non-nil interface value.
type Iface struct {
	Type  string // dynamic type, as printed by Format
	Value any    // ToGo of the dynamic value
}

// A Pair is one entry of a map converted by ToGo.
type Pair struct{ Key, Value any }

// ToGo converts an interpreter value to a plain host Go value, for
// inspection in tests:
//
//	basic values       themselves (bool, int8, ..., string)
//	structs, arrays    []any
//	slices             []any (nil for a nil slice)
//	pointers           *any pointing to the converted referent (one level; deeper pointers become "ptr"), or nil
//	maps               []Pair in insertion order, or nil
//	interfaces         Iface, or nil
//	funcs              "func", or nil
//	tuples             []any
func ToGo(v Value) any {
	return toGo(v, 0)
}

func toGo(v value, depth int) any {
	seq := func(elems []value) []any {
		res := make([]any, len(elems))
		for j, e := range elems {
			res[j] = toGo(e, depth)
		}
		return res
	}
	switch v := v.(type) {
	case nil, bool, int, int8, int16, int32, int64, uint, uint8, uint16, uint32, uint64, uintptr,
		float32, float64, complex64, complex128, string:
		return v
	case structure:
		return seq(v)
	case array:
		return seq(v)
	case tuple:
		return seq(v)
	case []value:
		if v == nil {
			return nil
		}
		return seq(v)
	case *value:
		if v == nil {
			return nil
		}
		if depth >= 1 {
			return "ptr"
		}
		x := toGo(*v, depth+1)
		return &x
	case *hashmap:
		if v == nil {
			return nil
		}
		res := []Pair{}
		for _, e := range v.live() {
			res = append(res, Pair{toGo(e.key, depth), toGo(e.value, depth)})
		}
		return res
	case iface:
		if v.t == nil {
			return nil
		}
		return Iface{Type: typeName(v.t), Value: toGo(v.v, depth)}
	case rtError:
		return v.msg
	case *ir.Function:
		if v == nil {
			return nil
		}
		return "func"
	case *ir.Builtin, *closure:
		return "func"
	}
	return fmt.Sprintf("<%T>", v)
}
