package irinterp

import (
	"bytes"
	"errors"
	"fmt"
	"go/ast"
	"go/parser"
	"go/token"
	"go/types"
	"os"
	"os/exec"
	"path/filepath"
	"slices"
	"strconv"
	"strings"
	"testing"

	"honnef.co/go/tools/go/ir"
)

// A testProgram is a Go program, without imports, that declares
// func Main() string.  The prelude (helper functions) is appended.
type testProgram struct {
	name string
	src  string
}

// prelude is appended to every test program.
const prelude = `

func itoa(n int) string {
	if n == 0 {
		return "0"
	}
	neg := n < 0
	u := uint(n)
	if neg {
		u = -u
	}
	var b [24]byte
	i := len(b)
	for u > 0 {
		i--
		b[i] = byte('0' + u%10)
		u /= 10
	}
	if neg {
		i--
		b[i] = '-'
	}
	return string(b[i:])
}

func utoa(u uint64) string {
	if u == 0 {
		return "0"
	}
	var b [24]byte
	i := len(b)
	for u > 0 {
		i--
		b[i] = byte('0' + u%10)
		u /= 10
	}
	return string(b[i:])
}

func btoa(b bool) string {
	if b {
		return "T"
	}
	return "F"
}

// ftoa prints f with three decimals (truncated).
func ftoa(f float64) string {
	if f != f {
		return "NaN"
	}
	s := ""
	if f < 0 {
		s = "-"
		f = -f
	}
	if f > 1e15 {
		return s + "big"
	}
	ip := int(f)
	fp := int((f - float64(ip)) * 1000)
	fs := itoa(fp)
	for len(fs) < 3 {
		fs = "0" + fs
	}
	return s + itoa(ip) + "." + fs
}

func has(s, sub string) bool {
	for i := 0; i+len(sub) <= len(s); i++ {
		if s[i:i+len(sub)] == sub {
			return true
		}
	}
	return false
}

// class classifies a recovered panic value.
func class(r any) string {
	if r == nil {
		return "none"
	}
	if re, ok := r.(interface {
		RuntimeError()
		Error() string
	}); ok {
		m := re.Error()
		switch {
		case has(m, "nil pointer dereference"):
			return "nil-deref"
		case has(m, "index out of range"):
			return "index"
		case has(m, "slice bounds out of range"):
			return "slice-bounds"
		case has(m, "divide by zero"):
			return "divide"
		case has(m, "interface conversion"):
			return "type-assert"
		}
		return "other-runtime"
	}
	if e, ok := r.(error); ok {
		return "error(" + e.Error() + ")"
	}
	switch r := r.(type) {
	case string:
		return "string(" + r + ")"
	case int:
		return "int(" + itoa(r) + ")"
	}
	return "other"
}

// try runs f and returns the class of its panic.
func try(f func()) (res string) {
	defer func() {
		res = class(recover())
	}()
	f()
	return "unreachable"
}

func ints(s []int) string {
	if s == nil {
		return "nil"
	}
	r := "["
	for i, x := range s {
		if i > 0 {
			r += " "
		}
		r += itoa(x)
	}
	return r + "]"
}
`

// driverMain is the main package of the module that is compiled and
// run with the real toolchain.
const driverHead = `package main

import (
	"fmt"
	"runtime"
	"strings"
%s)

func classOf(r any) string {
	re, ok := r.(runtime.Error)
	if !ok {
		return "explicit"
	}
	m := re.Error()
	switch {
	case strings.Contains(m, "nil pointer dereference"):
		return "nil-deref"
	case strings.Contains(m, "index out of range"):
		return "index"
	case strings.Contains(m, "slice bounds out of range"):
		return "slice-bounds"
	case strings.Contains(m, "divide by zero"):
		return "divide"
	case strings.Contains(m, "interface conversion"):
		return "type-assert"
	}
	return "other-runtime"
}

func run(name string, f func() string) {
	defer func() {
		if r := recover(); r != nil {
			fmt.Printf("%%s\t%%q\n", name, "PANIC:"+classOf(r))
		}
	}()
	fmt.Printf("%%s\t%%q\n", name, f())
}

func main() {
%s}
`

// toolchainResults compiles and runs all programs once with the real
// toolchain and returns the output of each.
func toolchainResults(t *testing.T, progs []testProgram) map[string]string {
	dir, err := os.MkdirTemp("", "irinterp")
	if err != nil {
		t.Fatal(err)
	}
	defer os.RemoveAll(dir)

	write := func(name, content string) {
		path := filepath.Join(dir, name)
		if err := os.MkdirAll(filepath.Dir(path), 0o777); err != nil {
			t.Fatal(err)
		}
		if err := os.WriteFile(path, []byte(content), 0o666); err != nil {
			t.Fatal(err)
		}
	}
	write("go.mod", "module t\n\ngo 1.26\n")
	var imports, calls strings.Builder
	for k, p := range progs {
		pkg := fmt.Sprintf("p%03d", k)
		if !strings.HasPrefix(p.src, "package main\n") {
			t.Fatalf("%s: source must start with the clause 'package main'", p.name)
		}
		src := "package " + pkg + "\n" + strings.TrimPrefix(p.src, "package main\n") + prelude
		write(pkg+"/prog.go", src)
		fmt.Fprintf(&imports, "\t%q\n", "t/"+pkg)
		fmt.Fprintf(&calls, "\trun(%q, %s.Main)\n", p.name, pkg)
	}
	write("main.go", fmt.Sprintf(driverHead, imports.String(), calls.String()))

	cmd := exec.Command("go", "run", ".")
	cmd.Dir = dir
	cmd.Env = append(os.Environ(), "GOFLAGS=-mod=mod", "GOPROXY=off", "GOWORK=off")
	var stdout, stderr bytes.Buffer
	cmd.Stdout = &stdout
	cmd.Stderr = &stderr
	if err := cmd.Run(); err != nil {
		t.Fatalf("go run: %v\n%s", err, stderr.String())
	}
	res := make(map[string]string)
	for _, line := range strings.Split(strings.TrimSpace(stdout.String()), "\n") {
		name, q, ok := strings.Cut(line, "\t")
		if !ok {
			t.Fatalf("bad output line %q", line)
		}
		s, err := strconv.Unquote(q)
		if err != nil {
			t.Fatalf("bad output line %q: %v", line, err)
		}
		res[name] = s
	}
	return res
}

type buildConfig struct {
	name string
	mode ir.BuilderMode
}

var buildConfigs = []buildConfig{
	{"lifted", ir.InstantiateGenerics},
	{"lifted+debug", ir.InstantiateGenerics | ir.GlobalDebug},
	{"naive", ir.InstantiateGenerics | ir.NaiveForm},
	{"naive+debug", ir.InstantiateGenerics | ir.NaiveForm | ir.GlobalDebug},
}

// buildIR type-checks src and builds its IR in the given mode.
func buildIR(src string, mode ir.BuilderMode) (pkg *ir.Package, err error) {
	defer func() {
		if p := recover(); p != nil {
			err = fmt.Errorf("IR construction panicked: %v", p)
		}
	}()
	fset := token.NewFileSet()
	f, err := parser.ParseFile(fset, "prog.go", src, parser.SkipObjectResolution)
	if err != nil {
		return nil, err
	}
	files := []*ast.File{f}
	info := &types.Info{
		Types:        make(map[ast.Expr]types.TypeAndValue),
		Defs:         make(map[*ast.Ident]types.Object),
		Uses:         make(map[*ast.Ident]types.Object),
		Implicits:    make(map[ast.Node]types.Object),
		Scopes:       make(map[ast.Node]*types.Scope),
		Selections:   make(map[*ast.SelectorExpr]*types.Selection),
		Instances:    make(map[*ast.Ident]types.Instance),
		FileVersions: make(map[*ast.File]string),
	}
	conf := types.Config{GoVersion: "go1.26"}
	tpkg, err := conf.Check("main", fset, files, info)
	if err != nil {
		return nil, err
	}
	prog := ir.NewProgram(fset, mode)
	pkg = prog.CreatePackage(tpkg, files, info, true)
	pkg.Build()
	return pkg, nil
}

// interpret runs Main of the program in the given configuration and
// returns its result in the format of the toolchain driver.
func interpret(src string, mode ir.BuilderMode) (string, error) {
	pkg, err := buildIR(src, mode)
	if err != nil {
		return "", err
	}
	in := New(pkg.Prog, pkg, Options{})
	if err := in.RunInit(); err != nil {
		return "", err
	}
	main := pkg.Func("Main")
	if main == nil {
		return "", errors.New("no func Main")
	}
	res, p, err := in.Call(main, nil)
	if err != nil {
		return "", err
	}
	if p != nil {
		return "PANIC:" + p.Class, nil
	}
	if len(res) != 1 {
		return "", fmt.Errorf("Main returned %d results", len(res))
	}
	s, ok := res[0].(string)
	if !ok {
		return "", fmt.Errorf("Main returned a %T", res[0])
	}
	return s, nil
}

func TestPrograms(t *testing.T) {
	if len(programs) < 40 {
		t.Fatalf("only %d programs", len(programs))
	}
	seen := make(map[string]bool)
	for _, p := range programs {
		if seen[p.name] {
			t.Fatalf("duplicate program name %s", p.name)
		}
		seen[p.name] = true
	}
	all := slices.Clone(programs)
	for _, d := range divergences {
		all = append(all, d.testProgram)
	}
	want := toolchainResults(t, all)
	for _, d := range divergences {
		t.Run(d.name, func(t *testing.T) {
			w := want[d.name]
			same := 0
			for _, cfg := range buildConfigs {
				got, err := interpret(d.src+prelude, cfg.mode)
				if err != nil {
					t.Errorf("%s: %v", cfg.name, err)
					continue
				}
				if got != d.interp[cfg.name] {
					t.Errorf("%s: got %s, want %s (toolchain: %s)", cfg.name, got, d.interp[cfg.name], w)
				}
				if got == w {
					same++
				}
			}
			if same == len(buildConfigs) {
				t.Errorf("all configurations agree with the toolchain (%s): no longer a divergence", w)
			}
			t.Logf("toolchain: %s", w)
		})
	}
	for _, p := range programs {
		t.Run(p.name, func(t *testing.T) {
			w, ok := want[p.name]
			if !ok {
				t.Fatalf("no toolchain result")
			}
			if w == "" {
				t.Errorf("toolchain result is empty")
			}
			t.Logf("toolchain: %s", w)
			for _, cfg := range buildConfigs {
				got, err := interpret(p.src+prelude, cfg.mode)
				if err != nil {
					var e *Error
					if errors.As(err, &e) && e.Stack != "" {
						t.Errorf("%s: %v\n%s", cfg.name, err, e.Stack)
					} else {
						t.Errorf("%s: %v", cfg.name, err)
					}
					continue
				}
				if got != w {
					t.Errorf("%s: mismatch\n got: %s\nwant: %s", cfg.name, got, w)
				}
			}
		})
	}
}

// mustBuild builds src in the default (lifted) configuration.
func mustBuild(t *testing.T, src string, mode ir.BuilderMode) (*ir.Package, *Interp) {
	t.Helper()
	pkg, err := buildIR(src, mode)
	if err != nil {
		t.Fatal(err)
	}
	in := New(pkg.Prog, pkg, Options{MaxSteps: 200000})
	if err := in.RunInit(); err != nil {
		t.Fatal(err)
	}
	return pkg, in
}

const apiSrc = `package main

type P struct {
	X int
	Y []int8
	N *P
}

var G = 7
var GS = P{X: 1}

var trace []int

func tr(k int) { trace = append(trace, k) }

func Add(a, b int8) int8 { return a + b }

func Div(a, b int) (q, r int) { return a / b, a % b }

func Sum(p P) int {
	s := p.X
	for _, y := range p.Y {
		s += int(y)
	}
	if p.N != nil {
		s += Sum(*p.N)
	}
	return s
}

func Mk(n int) *P {
	tr(n)
	return &P{X: n, Y: []int8{1, 2}, N: &P{X: n + 1}}
}

func Any(x any) any { return x }

func Map() map[string][2]bool { return map[string][2]bool{"b": {true, false}, "a": {false, true}} }

func Loop() { for { } }

func Deep(n int) int { if n == 0 { return 0 }; return 1 + Deep(n-1) }

func Chan() int { c := make(chan int, 1); c <- 1; return <-c }

func Big() int { var a [1 << 30]int; return a[0] }

func Boom() { panic(P{X: 3}) }

func GetG() int { return G }

func F() func() { return func() {} }

func Cplx() (complex128, float32) { return complex(1, -2), 0.1 }

func Use(float64) {}
`

func TestAPI(t *testing.T) {
	var traced []int64
	pkg, err := buildIR(apiSrc, ir.InstantiateGenerics)
	if err != nil {
		t.Fatal(err)
	}
	in := New(pkg.Prog, pkg, Options{MaxSteps: 100000, MaxDepth: 100, Trace: func(k int64) { traced = append(traced, k) }})
	if err := in.RunInit(); err != nil {
		t.Fatal(err)
	}
	tInt8 := types.Typ[types.Int8]

	call := func(name string, args ...Value) ([]Value, *PanicInfo, error) {
		t.Helper()
		fn := pkg.Func(name)
		if fn == nil {
			t.Fatalf("no func %s", name)
		}
		return in.Call(fn, args)
	}

	// Arguments and wraparound.
	res, p, err := call("Add", MustFromGo(tInt8, 100), MustFromGo(tInt8, int64(100)))
	if err != nil || p != nil || len(res) != 1 || res[0] != int8(-56) {
		t.Errorf("Add: %v %v %v", res, p, err)
	}
	// Multiple results.
	res, p, err = call("Div", 17, 5)
	if err != nil || p != nil || len(res) != 2 || res[0] != 3 || res[1] != 2 {
		t.Errorf("Div: %v %v %v", res, p, err)
	}
	// Run-time panic.
	res, p, err = call("Div", 1, 0)
	if err != nil || p == nil || p.Class != ClassDivide || res != nil {
		t.Errorf("Div by zero: %v %v %v", res, p, err)
	}
	// Explicit panic with a struct value.
	_, p, err = call("Boom")
	if err != nil || p == nil || p.Class != ClassExplicit || Format(p.Value) != "(main.P){3 nil nil}" {
		t.Errorf("Boom: %v %v (%s)", p, err, Format(p.Value))
	}

	// FromGo of structs, slices, pointers.
	type goP struct {
		X int
		Y []int8
		N *goP
	}
	tP := pkg.Type("P").Type()
	arg, err := FromGo(tP, goP{X: 1, Y: []int8{2, 3}, N: &goP{X: 10}})
	if err != nil {
		t.Fatal(err)
	}
	if got, want := Format(arg), "{1 [2 3] &{10 nil nil}}"; got != want {
		t.Errorf("Format(arg) = %s, want %s", got, want)
	}
	res, p, err = call("Sum", arg)
	if err != nil || p != nil || res[0] != 16 {
		t.Errorf("Sum: %v %v %v", res, p, err)
	}
	arg, err = FromGo(tP, []any{5, nil, nil})
	if err != nil {
		t.Fatal(err)
	}
	res, p, err = call("Sum", arg)
	if err != nil || p != nil || res[0] != 5 {
		t.Fatalf("Sum([]any): %v %v %v", res, p, err)
	}
	if _, err := FromGo(tP, "x"); !errors.Is(err, ErrUnsupported) {
		t.Errorf("FromGo(bad) = %v", err)
	}

	// Format follows pointers one level; Trace.
	res, p, err = call("Mk", 4)
	if err != nil || p != nil {
		t.Fatal(err, p)
	}
	if got, want := Format(res[0]), "&{4 [1 2] ptr}"; got != want {
		t.Errorf("Format(Mk) = %s, want %s", got, want)
	}
	if fmt.Sprint(traced) != "[4]" {
		t.Errorf("traced = %v", traced)
	}
	if got := Format(in.Global("trace")); got != "[4]" {
		t.Errorf("global trace = %s", got)
	}
	if g, ok := ToGo(res[0]).(*any); !ok || fmt.Sprint((*g).([]any)[0]) != "4" {
		t.Errorf("ToGo(Mk) = %v", ToGo(res[0]))
	}

	// Interfaces.
	x, err := FromGo(types.NewInterfaceType(nil, nil), "hi")
	if err != nil {
		t.Fatal(err)
	}
	res, _, _ = call("Any", x)
	if got := Format(res[0]); got != `(string)"hi"` {
		t.Errorf("Any = %s", got)
	}
	res, _, _ = call("Any", MakeIface(tP, MustFromGo(tP, []any{1, nil, nil})))
	if got := Format(res[0]); got != `(main.P){1 nil nil}` {
		t.Errorf("Any = %s", got)
	}
	res, _, _ = call("Any", MakeIface(nil, nil))
	if got := Format(res[0]); got != `nil` {
		t.Errorf("Any = %s", got)
	}

	// Maps are formatted with sorted keys.
	res, _, _ = call("Map")
	if got := Format(res[0]); got != `map["a":[false true] "b":[true false]]` {
		t.Errorf("Map = %s", got)
	}
	res, _, _ = call("F")
	if got := Format(res[0]); got != `func` {
		t.Errorf("F = %s", got)
	}
	res, _, _ = call("Cplx")
	if got := Format(tuple(res)); got != `((1-2i), 0.1)` {
		t.Errorf("Cplx = %s", got)
	}

	// Globals.
	if got := in.Global("G"); got != 7 {
		t.Errorf("G = %v", got)
	}
	if err := in.SetGlobal("G", 9); err != nil {
		t.Error(err)
	}
	res, _, _ = call("GetG")
	if res[0] != 9 {
		t.Errorf("GetG = %v", res)
	}
	if got := Format(in.Global("GS")); got != "{1 nil nil}" {
		t.Errorf("GS = %s", got)
	}
	if in.Global("nope") != nil {
		t.Errorf("Global(nope) != nil")
	}
	if err := in.SetGlobal("nope", 1); err == nil {
		t.Errorf("SetGlobal(nope) succeeded")
	}

	// Error kinds.
	if _, _, err = call("Loop"); !errors.Is(err, ErrSteps) {
		t.Errorf("Loop: %v", err)
	}
	if _, _, err = call("Deep", 1000); !errors.Is(err, ErrSteps) {
		t.Errorf("Deep: %v", err)
	}
	if res, _, err = call("Deep", 50); err != nil || res[0] != 50 {
		t.Errorf("Deep(50): %v %v", res, err)
	}
	if _, _, err = call("Chan"); !errors.Is(err, ErrUnsupported) {
		t.Errorf("Chan: %v", err)
	}
	if _, _, err = call("Big"); !errors.Is(err, ErrSteps) {
		t.Errorf("Big: %v", err)
	}
	// Ill-typed arguments are an internal error, not a host panic.
	if _, _, err = call("Add", 1, "x"); !errors.Is(err, ErrInternal) {
		t.Errorf("Add(1, x): %v", err)
	}
	if _, _, err = call("Add", int8(1)); !errors.Is(err, ErrInternal) {
		t.Errorf("Add(1): %v", err)
	}
	if _, _, err = in.Call(nil, nil); !errors.Is(err, ErrInternal) {
		t.Errorf("Call(nil): %v", err)
	}
	// The interpreter remains usable.
	res, _, err = call("Div", 9, 2)
	if err != nil || res[0] != 4 {
		t.Errorf("Div: %v %v", res, err)
	}
}

func TestGenericUninstantiated(t *testing.T) {
	src := `package main
func Id[T any](x T) T { return x }
func Main() string { return Id("a") }
`
	pkg, err := buildIR(src, 0) // no InstantiateGenerics
	if err != nil {
		t.Fatal(err)
	}
	in := New(pkg.Prog, pkg, Options{})
	if err := in.RunInit(); err != nil {
		t.Fatal(err)
	}
	_, _, err = in.Call(pkg.Func("Main"), nil)
	if !errors.Is(err, ErrUnsupported) {
		t.Errorf("got %v, want ErrUnsupported", err)
	}
	_, _, err = in.Call(pkg.Func("Id"), []Value{"x"})
	if !errors.Is(err, ErrUnsupported) {
		t.Errorf("got %v, want ErrUnsupported", err)
	}
}
