// Copyright 2013 The Go Authors. All rights reserved.
// Use of this source code is governed by a BSD-style
// license that can be found in the LICENSE file.

// Ported from golang.org/x/tools/go/ssa/interp/ops.go (binop, unop,
// conv) to honnef.co/go/tools/go/ir.  The per-type case explosions of
// the original are expressed with type parameters; target-level
// run-time errors (division by zero, negative shift count) are
// raised explicitly as classified target panics rather than relying
// on the host's run-time errors.

package irinterp

import (
	"fmt"
	"go/token"
	"go/types"
	"unicode/utf8"

	"honnef.co/go/tools/go/ir"
)

func intBinop[T integer](op token.Token, x, y T) value {
	switch op {
	case token.ADD:
		return x + y
	case token.SUB:
		return x - y
	case token.MUL:
		return x * y
	case token.QUO:
		if y == 0 {
			panic(rtPanic(ClassDivide, "runtime error: integer divide by zero"))
		}
		// NB: MinInt / -1 wraps to MinInt in Go, without trapping.
		return x / y
	case token.REM:
		if y == 0 {
			panic(rtPanic(ClassDivide, "runtime error: integer divide by zero"))
		}
		return x % y
	case token.AND:
		return x & y
	case token.OR:
		return x | y
	case token.XOR:
		return x ^ y
	case token.AND_NOT:
		return x &^ y
	case token.LSS:
		return x < y
	case token.LEQ:
		return x <= y
	case token.GTR:
		return x > y
	case token.GEQ:
		return x >= y
	}
	panic(fmt.Sprintf("invalid binary op: %T %s %T", x, op, y))
}

func floatBinop[T float](op token.Token, x, y T) value {
	switch op {
	case token.ADD:
		return x + y
	case token.SUB:
		return x - y
	case token.MUL:
		return x * y
	case token.QUO:
		return x / y
	case token.LSS:
		return x < y
	case token.LEQ:
		return x <= y
	case token.GTR:
		return x > y
	case token.GEQ:
		return x >= y
	}
	panic(fmt.Sprintf("invalid binary op: %T %s %T", x, op, y))
}

func complexBinop[T complexT](op token.Token, x, y T) value {
	switch op {
	case token.ADD:
		return x + y
	case token.SUB:
		return x - y
	case token.MUL:
		return x * y
	case token.QUO:
		return x / y
	}
	panic(fmt.Sprintf("invalid binary op: %T %s %T", x, op, y))
}

func stringBinop(op token.Token, x, y string) value {
	switch op {
	case token.ADD:
		return x + y
	case token.LSS:
		return x < y
	case token.LEQ:
		return x <= y
	case token.GTR:
		return x > y
	case token.GEQ:
		return x >= y
	}
	panic(fmt.Sprintf("invalid binary op: string %s string", op))
}

func shift[T integer](op token.Token, x T, n uint64) value {
	// The host's shift operators have exactly Go's semantics for
	// counts >= the operand width.
	if op == token.SHL {
		return x << n
	}
	return x >> n
}

// binop implements all arithmetic and logical binary operators for
// numeric datatypes and strings.  Both operands must have identical
// dynamic type (except for shifts).
//
// t is the static type of the X operand.
func (i *Interp) binop(op token.Token, t types.Type, x, y value) value {
	switch op {
	case token.EQL:
		return eqnil(t, x, y)
	case token.NEQ:
		return !eqnil(t, x, y)

	case token.SHL, token.SHR:
		n, ok := shiftCount(y)
		if !ok {
			panic(rtPanic(ClassOtherRuntime, "runtime error: negative shift amount"))
		}
		switch x := x.(type) {
		case int:
			return shift(op, x, n)
		case int8:
			return shift(op, x, n)
		case int16:
			return shift(op, x, n)
		case int32:
			return shift(op, x, n)
		case int64:
			return shift(op, x, n)
		case uint:
			return shift(op, x, n)
		case uint8:
			return shift(op, x, n)
		case uint16:
			return shift(op, x, n)
		case uint32:
			return shift(op, x, n)
		case uint64:
			return shift(op, x, n)
		case uintptr:
			return shift(op, x, n)
		}
		panic(fmt.Sprintf("invalid shift: %T %s %T", x, op, y))
	}

	switch x := x.(type) {
	case int:
		return intBinop(op, x, y.(int))
	case int8:
		return intBinop(op, x, y.(int8))
	case int16:
		return intBinop(op, x, y.(int16))
	case int32:
		return intBinop(op, x, y.(int32))
	case int64:
		return intBinop(op, x, y.(int64))
	case uint:
		return intBinop(op, x, y.(uint))
	case uint8:
		return intBinop(op, x, y.(uint8))
	case uint16:
		return intBinop(op, x, y.(uint16))
	case uint32:
		return intBinop(op, x, y.(uint32))
	case uint64:
		return intBinop(op, x, y.(uint64))
	case uintptr:
		return intBinop(op, x, y.(uintptr))
	case float32:
		return floatBinop(op, x, y.(float32))
	case float64:
		return floatBinop(op, x, y.(float64))
	case complex64:
		return complexBinop(op, x, y.(complex64))
	case complex128:
		return complexBinop(op, x, y.(complex128))
	case string:
		r := stringBinop(op, x, y.(string))
		if s, ok := r.(string); ok {
			i.chargeAlloc(int64(len(s)) / 8)
			if int64(len(s)) > i.maxAlloc() {
				panic(budgetf("string of length %d exceeds the allocation limit", len(s)))
			}
		}
		return r
	}
	panic(fmt.Sprintf("invalid binary op: %T %s %T", x, op, y))
}

// eqnil returns the comparison x == y using the equivalence relation
// appropriate for type t.
// If t is a reference type, at most one of x or y may be a nil value
// of that type.
func eqnil(t types.Type, x, y value) bool {
	switch t.Underlying().(type) {
	case *types.Map, *types.Signature, *types.Slice:
		// Since these types don't support comparison,
		// one of the operands must be a literal nil.
		switch x := x.(type) {
		case *hashmap:
			return (x != nil) == (y.(*hashmap) != nil)
		case *ir.Function:
			switch y := y.(type) {
			case *ir.Function:
				return (x != nil) == (y != nil)
			case *closure:
				return x != nil // y is non-nil; equal iff x non-nil too (cannot happen: one side is nil)
			case *ir.Builtin:
				return x != nil
			}
		case *closure:
			if y, ok := y.(*ir.Function); ok {
				return y != nil
			}
			return true
		case *ir.Builtin:
			if y, ok := y.(*ir.Function); ok {
				return y != nil
			}
			return true
		case []value:
			return (x != nil) == (y.([]value) != nil)
		}
		panic(fmt.Sprintf("eqnil(%s): illegal dynamic type: %T", t, x))
	}

	return equals(t, x, y)
}

func intUnop[T integer](op token.Token, x T) value {
	switch op {
	case token.SUB:
		return -x
	case token.XOR:
		return ^x
	}
	panic(fmt.Sprintf("invalid unary op %s %T", op, x))
}

func unop(instr *ir.UnOp, x value) value {
	switch instr.Op {
	case token.NOT:
		return !x.(bool)
	case token.SUB, token.XOR:
		switch x := x.(type) {
		case int:
			return intUnop(instr.Op, x)
		case int8:
			return intUnop(instr.Op, x)
		case int16:
			return intUnop(instr.Op, x)
		case int32:
			return intUnop(instr.Op, x)
		case int64:
			return intUnop(instr.Op, x)
		case uint:
			return intUnop(instr.Op, x)
		case uint8:
			return intUnop(instr.Op, x)
		case uint16:
			return intUnop(instr.Op, x)
		case uint32:
			return intUnop(instr.Op, x)
		case uint64:
			return intUnop(instr.Op, x)
		case uintptr:
			return intUnop(instr.Op, x)
		case float32:
			if instr.Op == token.SUB {
				return -x
			}
		case float64:
			if instr.Op == token.SUB {
				return -x
			}
		case complex64:
			if instr.Op == token.SUB {
				return -x
			}
		case complex128:
			if instr.Op == token.SUB {
				return -x
			}
		}
	}
	panic(fmt.Sprintf("invalid unary op %s %T", instr.Op, x))
}

// widen widens a basic typed value x to the widest type of its
// category, one of:
//
//	bool, int64, uint64, float64, complex128, string.
//
// This is inefficient but reduces the size of the cross-product of
// cases we have to consider.
func widen(x value) value {
	switch y := x.(type) {
	case bool, int64, uint64, float64, complex128, string:
		return x
	case int:
		return int64(y)
	case int8:
		return int64(y)
	case int16:
		return int64(y)
	case int32:
		return int64(y)
	case uint:
		return uint64(y)
	case uint8:
		return uint64(y)
	case uint16:
		return uint64(y)
	case uint32:
		return uint64(y)
	case uintptr:
		return uint64(y)
	case float32:
		return float64(y)
	case complex64:
		return complex128(y)
	}
	panic(fmt.Sprintf("cannot widen %T", x))
}

func narrow[T int64 | uint64 | float64](kind types.BasicKind, x T) (value, bool) {
	switch kind {
	case types.Int:
		return int(x), true
	case types.Int8:
		return int8(x), true
	case types.Int16:
		return int16(x), true
	case types.Int32:
		return int32(x), true
	case types.Int64:
		return int64(x), true
	case types.Uint:
		return uint(x), true
	case types.Uint8:
		return uint8(x), true
	case types.Uint16:
		return uint16(x), true
	case types.Uint32:
		return uint32(x), true
	case types.Uint64:
		return uint64(x), true
	case types.Uintptr:
		return uintptr(x), true
	case types.Float32:
		return float32(x), true
	case types.Float64:
		return float64(x), true
	}
	return nil, false
}

// conv converts the value x of type t_src to type t_dst and returns
// the result.
// Possible cases are described with the ir.Convert operator.
func (i *Interp) conv(t_dst, t_src types.Type, x value) value {
	ut_src := t_src.Underlying()
	ut_dst := t_dst.Underlying()

	// Destination type is not an "untyped" type.
	if b, ok := ut_dst.(*types.Basic); ok && b.Info()&types.IsUntyped != 0 {
		panic("oops: conversion to 'untyped' type: " + b.String())
	}

	// Nor is it an interface type.
	if _, ok := ut_dst.(*types.Interface); ok {
		if _, ok := ut_src.(*types.Interface); ok {
			panic("oops: Convert should be ChangeInterface")
		} else {
			panic("oops: Convert should be MakeInterface")
		}
	}

	// Remaining conversions:
	//    + untyped string/number/bool constant to a specific
	//      representation.
	//    + conversions between non-complex numeric types.
	//    + conversions between complex numeric types.
	//    + integer/[]byte/[]rune -> string.
	//    + string -> []byte/[]rune.
	//
	// All are treated the same: first we extract the value to the
	// widest representation (int64, uint64, float64, complex128,
	// or string), then we convert it to the desired type.

	switch ut_src := ut_src.(type) {
	case *types.Pointer:
		panic(unsupportedf("conversion %s -> %s (unsafe)", t_src, t_dst))

	case *types.Slice:
		// []byte or []rune -> string
		switch ut_src.Elem().Underlying().(*types.Basic).Kind() {
		case types.Byte:
			x := x.([]value)
			b := make([]byte, 0, len(x))
			for j := range x {
				b = append(b, x[j].(byte))
			}
			return string(b)

		case types.Rune:
			x := x.([]value)
			r := make([]rune, 0, len(x))
			for j := range x {
				r = append(r, x[j].(rune))
			}
			return string(r)
		}

	case *types.Basic:
		if ut_src.Kind() == types.UnsafePointer {
			panic(unsupportedf("conversion %s -> %s (unsafe)", t_src, t_dst))
		}
		x = widen(x)

		// integer -> string?
		if ut_src.Info()&types.IsInteger != 0 {
			if ut_dst, ok := ut_dst.(*types.Basic); ok && ut_dst.Kind() == types.String {
				switch x := x.(type) {
				case int64:
					if x < 0 || x > utf8.MaxRune {
						return string(utf8.RuneError)
					}
					return string(rune(x))
				case uint64:
					if x > utf8.MaxRune {
						return string(utf8.RuneError)
					}
					return string(rune(x))
				}
			}
		}

		// string -> []rune, []byte or string?
		if s, ok := x.(string); ok {
			switch ut_dst := ut_dst.(type) {
			case *types.Slice:
				// NB: a conversion of "" yields an empty, non-nil slice.
				switch ut_dst.Elem().Underlying().(*types.Basic).Kind() {
				case types.Rune:
					res := make([]value, 0, utf8.RuneCountInString(s))
					for _, r := range s {
						res = append(res, r)
					}
					return res
				case types.Byte:
					res := make([]value, 0, len(s))
					for j := 0; j < len(s); j++ {
						res = append(res, s[j])
					}
					return res
				}
			case *types.Basic:
				if ut_dst.Kind() == types.String {
					return x.(string)
				}
			}
			break // fail: no other conversions for string
		}

		if b, ok := x.(bool); ok {
			if ut_dst, ok := ut_dst.(*types.Basic); ok && ut_dst.Kind() == types.Bool {
				return b
			}
			break
		}

		bdst, ok := ut_dst.(*types.Basic)
		if !ok {
			break
		}
		if bdst.Kind() == types.UnsafePointer {
			panic(unsupportedf("conversion %s -> %s (unsafe)", t_src, t_dst))
		}

		// Conversions between complex numeric types?
		if ut_src.Info()&types.IsComplex != 0 {
			switch bdst.Kind() {
			case types.Complex64:
				return complex64(x.(complex128))
			case types.Complex128:
				return x.(complex128)
			}
			break // fail: no other conversions for complex
		}

		// Conversions between non-complex numeric types?
		if ut_src.Info()&types.IsNumeric != 0 {
			kind := bdst.Kind()
			switch x := x.(type) {
			case int64: // signed integer -> numeric?
				if v, ok := narrow(kind, x); ok {
					return v
				}
			case uint64: // unsigned integer -> numeric?
				if v, ok := narrow(kind, x); ok {
					return v
				}
			case float64: // floating point -> numeric?
				if v, ok := narrow(kind, x); ok {
					return v
				}
			}
		}
	}

	panic(fmt.Sprintf("unsupported conversion: %s  -> %s, dynamic type %T", t_src, t_dst, x))
}

// convertLike converts the basic value v to the dynamic type of like,
// if they differ; used to make constant operands robust against
// imprecisely typed constants.
func convertLike(v, like value) value {
	if fmt.Sprintf("%T", v) == fmt.Sprintf("%T", like) {
		return v
	}
	var kind types.BasicKind
	switch like.(type) {
	case int:
		kind = types.Int
	case int8:
		kind = types.Int8
	case int16:
		kind = types.Int16
	case int32:
		kind = types.Int32
	case int64:
		kind = types.Int64
	case uint:
		kind = types.Uint
	case uint8:
		kind = types.Uint8
	case uint16:
		kind = types.Uint16
	case uint32:
		kind = types.Uint32
	case uint64:
		kind = types.Uint64
	case uintptr:
		kind = types.Uintptr
	case float32:
		kind = types.Float32
	case float64:
		kind = types.Float64
	default:
		return v
	}
	switch v.(type) {
	case int, int8, int16, int32, int64, uint, uint8, uint16, uint32, uint64, uintptr, float32, float64:
	default:
		return v
	}
	switch x := widen(v).(type) {
	case int64:
		if r, ok := narrow(kind, x); ok {
			return r
		}
	case uint64:
		if r, ok := narrow(kind, x); ok {
			return r
		}
	case float64:
		if r, ok := narrow(kind, x); ok {
			return r
		}
	}
	return v
}
