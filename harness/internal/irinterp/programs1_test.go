package irinterp

// Test programs, part 1: arithmetic, strings, arrays, slices, structs, pointers, maps.

var progs1 = []testProgram{
	{"arith_widths", `package main

func Main() string {
	out := ""
	var a8 int8 = 127
	a8++
	out += itoa(int(a8)) + " "
	var b8 int8 = -128
	b8--
	out += itoa(int(b8)) + " "
	b8 = -128
	out += itoa(int(-b8)) + " " + itoa(int(b8/-1)) + " " + itoa(int(b8%-1)) + " "
	var m8 int8 = 100
	out += itoa(int(m8*3)) + " "
	var a16 int16 = 32767
	out += itoa(int(a16+1)) + " " + itoa(int(a16*a16)) + " "
	var a32 int32 = 2147483647
	out += itoa(int(a32+1)) + " " + itoa(int(a32*2)) + " "
	var a64 int64 = 9223372036854775807
	out += itoa(int(a64+1)) + " "
	a64 = -9223372036854775808
	m1 := int64(-1)
	out += itoa(int(a64/m1)) + " " + itoa(int(a64%m1)) + " " + itoa(int(-a64)) + " "
	var ai int = -9223372036854775808
	out += itoa(ai-1) + " "
	var u8 uint8 = 255
	u8++
	out += utoa(uint64(u8)) + " "
	u8--
	out += utoa(uint64(u8)) + " " + utoa(uint64(u8*u8)) + " " + utoa(uint64(-u8)) + " "
	var u16 uint16 = 65535
	out += utoa(uint64(u16+2)) + " " + utoa(uint64(u16*u16)) + " "
	var u32 uint32 = 4294967295
	out += utoa(uint64(u32+1)) + " " + utoa(uint64(u32*u32)) + " "
	var u64 uint64 = 18446744073709551615
	out += utoa(u64+1) + " " + utoa(u64*u64) + " " + utoa(u64/3) + " " + utoa(u64%10) + " "
	var u uint = 0
	u--
	out += utoa(uint64(u)) + " "
	var up uintptr = 5
	up -= 6
	out += utoa(uint64(up)) + " "
	// signed division and remainder truncate toward zero
	x, y := -7, 2
	out += itoa(x/y) + " " + itoa(x%y) + " " + itoa(x/-y) + " " + itoa(-x%-y) + " "
	// conversions truncate
	big := 0x1234567890
	out += itoa(int(int8(big))) + " " + itoa(int(int16(big))) + " " + itoa(int(int32(big))) + " " + utoa(uint64(uint8(big))) + " "
	neg := -1
	out += utoa(uint64(uint8(neg))) + " " + utoa(uint64(uint32(neg))) + " " + utoa(uint64(neg)) + " "
	var s8 int8 = -1
	out += utoa(uint64(uint16(s8))) + " " + itoa(int(int64(s8))) + " " + utoa(uint64(uint8(s8))>>1)
	return out
}
`},
	{"shifts", `package main

func Main() string {
	out := ""
	var one8 int8 = 1
	var n uint = 7
	out += itoa(int(one8<<n)) + " "
	n = 8
	out += itoa(int(one8<<n)) + " "
	var m8 int8 = -128
	out += itoa(int(m8>>n)) + " " + itoa(int(m8>>3)) + " "
	var u8 uint8 = 0x81
	out += utoa(uint64(u8<<1)) + " " + utoa(uint64(u8>>1)) + " " + utoa(uint64(u8>>n)) + " "
	var x int64 = -1
	var big uint64 = 1 << 40
	out += itoa(int(x>>big)) + " " + itoa(int(x<<big)) + " " + itoa(int(x<<63)) + " " + itoa(int(x<<64>>1)) + " "
	var ux uint64 = 1
	for s := uint8(60); s < 68; s++ {
		out += utoa(ux<<s) + ","
	}
	out += " "
	var sc int = 3
	var i32 int32 = -17
	out += itoa(int(i32<<sc)) + " " + itoa(int(i32>>sc)) + " "
	var sc8 int8 = 2
	out += itoa(int(i32<<sc8)) + " "
	sc = -1
	out += try(func() { _ = i32 << sc }) + " "
	out += try(func() { _ = u8 >> sc }) + " "
	var u16 uint16 = 0xffff
	out += utoa(uint64(u16<<15)) + " " + utoa(uint64(u16<<16)) + " " + utoa(uint64(uint32(u16)<<16))
	return out
}
`},
	{"bitops", `package main

type Flags uint8

const (
	A Flags = 1 << iota
	B
	C
)

func Main() string {
	out := ""
	var f Flags = A | C
	out += utoa(uint64(f)) + " " + utoa(uint64(f&^A)) + " " + utoa(uint64(f^B)) + " " + utoa(uint64(^f)) + " " + btoa(f&B != 0) + " "
	x, y := 0x0ff0, 0x3c3c
	out += itoa(x&y) + " " + itoa(x|y) + " " + itoa(x^y) + " " + itoa(x&^y) + " " + itoa(^x) + " "
	var i8 int8 = 0x55
	out += itoa(int(^i8)) + " " + itoa(int(i8|-128)) + " " + itoa(int(i8&^0x0f)) + " "
	var u32 uint32 = 0xdeadbeef
	out += utoa(uint64(^u32)) + " " + utoa(uint64(u32&0xffff0000|u32>>16)) + " "
	f |= B
	f &= ^A
	f ^= C
	f <<= 2
	f >>= 1
	out += utoa(uint64(f))
	return out
}
`},
	{"floats", `package main

func Main() string {
	out := ""
	a, b := 1.5, 0.25
	out += ftoa(a+b) + " " + ftoa(a-b) + " " + ftoa(a*b) + " " + ftoa(a/b) + " " + ftoa(-a) + " "
	z := 0.0
	inf := 1 / z
	out += btoa(inf > 1e308) + " " + btoa(-inf < -1e308) + " "
	nan := z / z
	out += btoa(nan == nan) + " " + btoa(nan != nan) + " " + btoa(nan < 1) + " "
	var f32 float32 = 16777216
	out += btoa(f32+1 == f32) + " "
	f64 := float64(f32)
	out += btoa(f64+1 == f64) + " "
	i := 7
	out += ftoa(float64(i)/2) + " " + itoa(int(a*2.66)) + " " + itoa(int(-a*2.66)) + " "
	var u8 uint8 = 200
	out += ftoa(float64(u8)*1.5) + " " + itoa(int(int8(float64(u8)*0.5))) + " "
	third := float32(1) / 3
	out += ftoa(float64(third)*3000000) + " "
	const big = 1 << 62
	out += ftoa(float64(big)/float64(1<<60)) + " "
	out += btoa(a < b) + btoa(a <= a) + btoa(a > b) + btoa(a >= b) + btoa(a == 1.5) + btoa(a != 1.5) + " "
	a += 2
	a *= 2
	a -= 0.5
	a /= 4
	out += ftoa(a) + " " + ftoa(min(a, b, 3)) + " " + ftoa(max(a, b, 3))
	return out
}
`},
	{"strings", `package main

func rev(s string) string {
	b := []byte(s)
	for i, j := 0, len(b)-1; i < j; i, j = i+1, j-1 {
		b[i], b[j] = b[j], b[i]
	}
	return string(b)
}

func Main() string {
	out := ""
	s := "hello, 世界!"
	out += itoa(len(s)) + " " + itoa(int(s[1])) + " " + s[7:10] + " " + s[:5] + " " + s[len(s)-1:] + " "
	for i, r := range s {
		if r > 127 {
			out += itoa(i) + ":" + itoa(int(r)) + " "
		}
	}
	bad := "a\xffb\xc0"
	for i, r := range bad {
		out += itoa(i) + "=" + itoa(int(r)) + " "
	}
	rs := []rune(s)
	out += itoa(len(rs)) + " " + string(rs[7:9]) + " " + string(rs[8]) + " "
	bs := []byte("abc")
	bs[0] = 'X'
	out += string(bs) + " " + rev("stressed") + " "
	out += btoa("abc" < "abd") + btoa("abc" < "ab") + btoa("" < "a") + btoa("a" == "a") + btoa("a" != "b") + btoa("b" >= "a") + btoa("Z" <= "a") + btoa("b" > "abc") + " "
	t := ""
	for i := 0; i < 5; i++ {
		t += string(rune('a' + i))
	}
	out += t + " " + string(rune(0x4e16)) + " " + itoa(len(string(rune(-1)))) + " "
	e := ""
	eb := []byte(e)
	out += btoa(eb == nil) + itoa(len(eb)) + " "
	var nb []byte
	out += btoa(string(nb) == "") + " "
	out += try(func() { _ = s[len(s)] }) + " " + try(func() { n := 4; _ = s[n:2] }) + " " + try(func() { n := 40; _ = s[:n] })
	return out
}
`},
	{"arrays", `package main

type P struct{ x, y int }

func mod(a [3]int) [3]int {
	a[0] = 100
	return a
}

func Main() string {
	out := ""
	a := [3]int{1, 2, 3}
	b := a
	b[1] = 20
	out += itoa(a[1]) + itoa(b[1]) + " "
	c := mod(a)
	out += itoa(a[0]) + " " + itoa(c[0]) + " " + btoa(a == [3]int{1, 2, 3}) + btoa(a == b) + btoa(a != c) + " "
	var g [2][2]int
	g[1][0] = 5
	h := g
	h[1][0]++
	row := g[1]
	row[1] = 9
	out += itoa(g[1][0]) + itoa(h[1][0]) + itoa(g[1][1]) + itoa(row[1]) + " "
	ps := [2]P{{1, 2}, {3, 4}}
	q := &ps[1]
	q.x = 30
	cp := ps
	q.y = 40
	out += itoa(ps[1].x) + " " + itoa(ps[1].y) + " " + itoa(cp[1].x) + " " + itoa(cp[1].y) + " "
	// range over an array ranges over a copy
	arr := [3]int{1, 2, 3}
	sum := 0
	for i, v := range arr {
		arr[2] = 10
		sum += v * (i + 1)
	}
	out += itoa(sum) + " "
	// range over a pointer to array does not copy
	arr = [3]int{1, 2, 3}
	sum = 0
	for i, v := range &arr {
		arr[2] = 10
		sum += v * (i + 1)
	}
	out += itoa(sum) + " "
	pa := &arr
	pa[0] = 7
	out += itoa(arr[0]) + itoa(len(pa)) + itoa(cap(pa)) + " "
	sp := [...]string{2: "c", 0: "a"}
	out += itoa(len(sp)) + sp[0] + sp[1] + sp[2] + " "
	var np *[3]int
	n := 0
	for i := range np {
		n += i
	}
	out += itoa(n) + itoa(len(np)) + " "
	idx := 3
	out += try(func() { arr[idx] = 1 }) + " " + try(func() { _ = np[1] }) + " "
	var e [0]int
	out += itoa(len(e)) + btoa(e == [0]int{})
	return out
}
`},
	{"slices_append", `package main

func Main() string {
	out := ""
	a := make([]int, 2, 4)
	b := append(a, 1)
	c := append(a, 2)
	out += itoa(b[2]) + itoa(c[2]) + itoa(len(a)) + itoa(cap(b)) + " "
	d := append(b, 3, 4) // exceeds cap: new array
	d[0] = 9
	out += itoa(a[0]) + itoa(b[0]) + itoa(d[0]) + itoa(len(d)) + " "
	// three-index slices limit capacity
	base := []int{0, 1, 2, 3, 4, 5}
	lim := base[1:3:3]
	ext := append(lim, 99)
	ext[0] = 42
	unl := base[1:3]
	ext2 := append(unl, 77)
	ext2[0] = 43
	out += ints(base) + itoa(len(lim)) + itoa(cap(lim)) + itoa(cap(unl)) + itoa(cap(base[2:4:5])) + " "
	// copy with overlap
	s := []int{1, 2, 3, 4, 5}
	n := copy(s[1:], s)
	out += itoa(n) + ints(s) + " "
	s = []int{1, 2, 3, 4, 5}
	n = copy(s, s[2:])
	out += itoa(n) + ints(s) + " "
	bs := make([]byte, 3)
	n = copy(bs, "hello")
	out += itoa(n) + string(bs) + " "
	// nil vs empty
	var ns []int
	es := []int{}
	out += btoa(ns == nil) + btoa(es == nil) + itoa(len(ns)) + itoa(cap(ns)) + ints(ns[0:0]) + ints(es[:0]) + btoa(ns[:] == nil) + " "
	ns = append(ns, 5)
	out += ints(ns) + ints(append([]int(nil))) + ints(append(es, ns...)) + " "
	// append slice to itself
	w := []int{1, 2}
	w = append(w, w...)
	w = append(w[:1], w[2:]...)
	out += ints(w) + " "
	bb := append([]byte("ab"), "cd"...)
	out += string(bb) + " "
	// slices of slices alias
	m := make([]int, 5)
	x := m[1:4]
	y := x[1:3]
	y[0] = 8
	x[0] = 7
	out += ints(m) + itoa(len(y)) + itoa(cap(y)) + ints(y[:cap(y)]) + " "
	// writes through spare capacity are visible after reslicing
	p := make([]int, 1, 3)
	q := append(p, 5)
	_ = q
	out += ints(p[:3]) + " "
	k := 4
	out += try(func() { _ = m[k:2] }) + " " + try(func() { _ = m[:k+2] }) + " " + try(func() { _ = m[1:2:k+2] }) + " " + try(func() { _ = m[k+1] }) + " " + try(func() { _ = ns[-k+3:] })
	return out
}
`},
	{"slice_of_structs", `package main

type T struct {
	a   int
	arr [2]int
}

func Main() string {
	out := ""
	s := []T{{1, [2]int{1, 1}}}
	t := append(s, T{2, [2]int{2, 2}}) // reallocates: elements are copied
	t[0].a = 10
	t[0].arr[1] = 11
	out += itoa(s[0].a) + itoa(s[0].arr[1]) + itoa(t[0].a) + itoa(t[0].arr[1]) + " "
	u := make([]T, 1, 2)
	v := append(u, T{a: 3})
	v[0].a = 7 // shares the array with u
	out += itoa(u[0].a) + " "
	x := v[1]
	x.a = 100
	p := &v[1]
	p.arr[0] = 5
	out += itoa(v[1].a) + itoa(v[1].arr[0]) + itoa(x.arr[0]) + " "
	w := make([]T, 2)
	copy(w, v)
	w[1].arr[0] = 6
	out += itoa(v[1].arr[0]) + itoa(w[1].arr[0]) + " "
	for _, e := range v {
		e.a = -1
	}
	for i := range v {
		v[i].arr[1] = i + 1
	}
	out += itoa(v[0].a) + itoa(v[0].arr[1]) + itoa(v[1].arr[1]) + " "
	aa := [][2]int{{1, 2}}
	bb := append(aa[:0:0], aa...)
	bb[0][0] = 9
	out += itoa(aa[0][0]) + itoa(bb[0][0])
	return out
}
`},
	{"structs", `package main

type Inner struct {
	a int
	b [2]int
}

type Outer struct {
	Inner
	in  Inner
	p   *Inner
	s   string
	_   int
}

func mut(o Outer) Outer {
	o.a = 100
	o.in.b[0] = 200
	o.p.a = 300
	return o
}

func Main() string {
	out := ""
	o := Outer{Inner: Inner{1, [2]int{2, 3}}, in: Inner{a: 4}, p: &Inner{a: 5}, s: "x"}
	c := o
	c.a = 10
	c.in.b[1] = 11
	c.Inner.b[0] = 12
	c.p.a = 13
	out += itoa(o.a) + itoa(o.in.b[1]) + itoa(o.b[0]) + itoa(o.p.a) + " "
	m := mut(o)
	out += itoa(o.a) + itoa(o.in.b[0]) + itoa(o.p.a) + " " + itoa(m.a) + itoa(m.in.b[0]) + " "
	pf := &o.in.b[1]
	*pf = 77
	pi := &o.Inner
	pi.a = 88
	out += itoa(o.in.b[1]) + itoa(o.a) + " "
	o2 := o
	*pf = 78
	out += itoa(o2.in.b[1]) + itoa(o.in.b[1]) + " "
	// assigning a whole struct keeps field addresses valid
	o = Outer{s: "new"}
	out += itoa(*pf) + itoa(pi.a) + o.s + " "
	*pf = 5
	out += itoa(o.in.b[1]) + " "
	x := Inner{1, [2]int{2, 3}}
	y := Inner{1, [2]int{2, 3}}
	out += btoa(x == y) + " "
	y.b[1] = 4
	out += btoa(x == y) + btoa(x != y) + " "
	anon := struct {
		n int
		f func() int
	}{n: 3}
	anon.f = func() int { return anon.n * 2 }
	out += itoa(anon.f()) + " "
	var zero Outer
	out += btoa(zero.p == nil) + itoa(zero.in.b[1]) + zero.s + " "
	pp := &Outer{}
	pp.in.a = 9
	q := *pp
	pp.in.a = 10
	out += itoa(q.in.a) + itoa((*pp).in.a)
	return out
}
`},
	{"pointers", `package main

type N struct {
	v    int
	next *N
}

func esc() *int {
	x := 5
	return &x
}

func swap(a, b *int) { *a, *b = *b, *a }

func inc(pp **int) { **pp++ }

func Main() string {
	out := ""
	p, q := esc(), esc()
	*p = 6
	out += itoa(*p) + itoa(*q) + btoa(p == q) + btoa(p == p) + " "
	a, b := 1, 2
	swap(&a, &b)
	out += itoa(a) + itoa(b) + " "
	pa := &a
	inc(&pa)
	out += itoa(a) + " "
	n := new(int)
	*n += 3
	out += itoa(*n) + " "
	m := new(7) // go1.26
	*m++
	s := new("str")
	out += itoa(*m) + *s + " "
	arr := [3]int{1, 2, 3}
	pe := &arr[1]
	*pe = 20
	sl := arr[:]
	sl[1]++
	out += itoa(arr[1]) + itoa(*pe) + " "
	var list *N
	for i := 0; i < 4; i++ {
		list = &N{i, list}
	}
	sum := 0
	for c := list; c != nil; c = c.next {
		sum = sum*10 + c.v
	}
	out += itoa(sum) + " "
	st := N{v: 1}
	pv := &st.v
	st2 := st
	*pv = 9
	out += itoa(st.v) + itoa(st2.v) + " "
	var np *N
	out += try(func() { _ = np.v }) + " " + try(func() { np.v = 1 }) + " " + try(func() { _ = *np }) + " " + try(func() { _ = &np.next }) + " "
	var ni *int
	out += try(func() { *ni = 1 }) + " " + btoa(ni == nil) + btoa(np == nil)
	return out
}
`},
	{"maps", `package main

type K struct {
	a int
	s string
}

func Main() string {
	out := ""
	m := map[string]int{"a": 1, "b": 2}
	v, ok := m["a"]
	w, ok2 := m["z"]
	out += itoa(v) + btoa(ok) + itoa(w) + btoa(ok2) + itoa(len(m)) + " "
	m["c"] = 3
	m["a"]++
	m["q"] += 5
	delete(m, "b")
	delete(m, "nope")
	out += itoa(m["a"]) + itoa(m["b"]) + itoa(m["q"]) + itoa(len(m)) + " "
	sum := 0
	for k, v := range m {
		sum += v * len(k)
	}
	cnt := 0
	for range m {
		cnt++
	}
	out += itoa(sum) + itoa(cnt) + " "
	var nm map[int]int
	out += itoa(nm[1]) + itoa(len(nm)) + btoa(nm == nil) + " "
	delete(nm, 1)
	for range nm {
		out += "!"
	}
	out += try(func() { nm[1] = 1 }) + " "
	sk := map[K]string{{1, "x"}: "one"}
	sk[K{2, "y"}] = "two"
	out += sk[K{1, "x"}] + sk[K{2, "y"}] + sk[K{1, "y"}] + "." + " "
	ak := map[[2]int]int{{1, 2}: 3}
	ak[[2]int{1, 2}]++
	out += itoa(ak[[2]int{1, 2}]) + itoa(ak[[2]int{2, 1}]) + " "
	ik := map[any]int{1: 1, "1": 2, int8(1): 3, K{1, "x"}: 4, 1.0: 5, nil: 6}
	out += itoa(ik[1]) + itoa(ik["1"]) + itoa(ik[int8(1)]) + itoa(ik[K{1, "x"}]) + itoa(ik[1.0]) + itoa(ik[nil]) + itoa(ik[int16(1)]) + " "
	out += try(func() { ik[[]int{1}] = 1 }) + " " + try(func() { _ = ik[map[int]int{}] }) + " "
	ms := map[string][]int{}
	ms["a"] = append(ms["a"], 1)
	ms["a"] = append(ms["a"], 2)
	out += ints(ms["a"]) + ints(ms["b"]) + " "
	mp := map[int]*K{}
	mp[1] = &K{a: 1}
	mp[1].a++
	out += itoa(mp[1].a) + " "
	mst := map[int]K{1: {1, "a"}}
	e := mst[1]
	e.a = 50
	out += itoa(mst[1].a) + " "
	// deleting entries during iteration
	big := map[int]int{}
	for i := 0; i < 10; i++ {
		big[i] = i
	}
	seen := 0
	for k := range big {
		seen++
		for j := 0; j < 10; j++ {
			if j != k {
				delete(big, j)
			}
		}
	}
	out += itoa(seen) + itoa(len(big)) + " "
	fm := map[float64]int{}
	z := 0.0
	fm[z] = 1
	fm[-z] = 2
	nan := z / z
	fm[nan] = 3
	fm[nan] = 4
	out += itoa(len(fm)) + itoa(fm[0]) + itoa(fm[nan]) + " "
	clear(m)
	out += itoa(len(m))
	return out
}
`},
}
