package irinterp

import "slices"

// Test programs, part 5: functions, variadics, builtins, conversions, data structures.

var progs5 = []testProgram{
	{"multi_value", `package main

func two() (int, string) { return 1, "a" }
func three() (a, b, c int) {
	a, b, c = 1, 2, 3
	return
}
func take2(n int, s string) string      { return s + itoa(n) }
func take3(a, b, c int) int             { return a*100 + b*10 + c }
func takeV(pre string, xs ...int) string { return pre + ints(xs) }
func takeAny(xs ...any) int             { return len(xs) }
func pass() (int, string)               { return two() }
func swap(a, b int) (int, int)          { return b, a }
func shadow() (n int) {
	{
		n := 5
		_ = n
	}
	n = 1
	if true {
		return n + 1
	}
	return
}

type T struct{}

func (T) pair() (int, int) { return 7, 8 }
func (T) sum(a, b int) int { return a + b }

func Main() string {
	out := take2(two()) + " " + itoa(take3(three())) + " " + takeV("x", 1, 2) + takeV("y") + " " + itoa(takeAny(two())) + itoa(takeAny(three())) + " "
	n, s := pass()
	out += itoa(n) + s + " "
	a, b := swap(swap(1, 2))
	out += itoa(a) + itoa(b) + " "
	var t T
	out += itoa(t.sum(t.pair())) + " " + itoa(shadow()) + " "
	_, y := two()
	x, _ := two()
	out += y + itoa(x) + " "
	var i interface{ sum(int, int) int } = t
	out += itoa(i.sum(swap(3, 4))) + " "
	f := three
	_, m, _ := f()
	out += itoa(m) + " "
	vals := []int{}
	add := func(xs ...int) { vals = append(vals, xs...) }
	add(swap(5, 6))
	add()
	out += ints(vals)
	return out
}
`},
	{"variadic", `package main

func sum(xs ...int) int {
	t := 0
	for _, x := range xs {
		t += x
	}
	return t
}

func mutate(xs ...int) {
	if len(xs) > 0 {
		xs[0] = 99
	}
}

func isNil(xs ...int) bool { return xs == nil }

func join(sep string, parts ...string) string {
	r := ""
	for i, p := range parts {
		if i > 0 {
			r += sep
		}
		r += p
	}
	return r
}

func anys(xs ...any) string {
	r := ""
	for _, x := range xs {
		switch v := x.(type) {
		case int:
			r += "i" + itoa(v)
		case string:
			r += "s" + v
		case nil:
			r += "n"
		case []int:
			r += "l" + itoa(len(v))
		}
	}
	return r
}

type Acc struct{ items []string }

func (a *Acc) Add(xs ...string) *Acc {
	a.items = append(a.items, xs...)
	return a
}

func Main() string {
	out := itoa(sum()) + itoa(sum(1)) + itoa(sum(1, 2, 3)) + " "
	s := []int{1, 2, 3}
	out += itoa(sum(s...)) + itoa(sum(s[1:]...)) + " "
	mutate(s...) // passes the slice itself
	out += itoa(s[0]) + " "
	a, b := 1, 2
	mutate(a, b) // fresh array
	out += itoa(a) + " "
	out += btoa(isNil()) + btoa(isNil(nil...)) + btoa(isNil([]int{}...)) + btoa(isNil(1)) + " "
	out += join(",", "a", "b", "c") + join("-") + join("+", []string{"x", "y"}...) + " "
	out += anys(1, "a", nil, []int{1, 2}) + " " + anys([]any{1, 2}...) + " " + anys(s) + " "
	acc := &Acc{}
	acc.Add("a").Add().Add("b", "c")
	out += join("", acc.items...) + " "
	f := sum
	out += itoa(f(4, 5)) + " "
	g := func(pre int, rest ...int) int { return pre*100 + len(rest) }
	out += itoa(g(1)) + itoa(g(1, 2, 3))
	return out
}
`},
	{"builtins", `package main

type MyS []int

func Main() string {
	out := ""
	a, b, c := 3, 1, 2
	out += itoa(min(a, b, c)) + itoa(max(a, b, c)) + itoa(min(a)) + itoa(max(b, 5)) + " "
	var i8 int8 = -5
	out += itoa(int(min(i8, 3))) + itoa(int(max(i8, -10))) + " "
	var u uint16 = 7
	out += utoa(uint64(min(u, 9))) + " "
	out += min("b", "a", "c") + max("b", "a", "c") + " "
	x, y := 1.5, -0.5
	out += ftoa(min(x, y)) + ftoa(max(x, y, 1.75)) + " "
	z := 0.0
	nan := z / z
	out += btoa(min(x, nan) != min(x, nan)) + btoa(max(nan, x) != max(nan, x)) + " "
	negz := -z
	out += btoa(1/min(z, negz) < 0) + btoa(1/max(z, negz) > 0) + " "
	m := map[int]int{1: 1, 2: 2}
	clear(m)
	m[3] = 3
	out += itoa(len(m)) + " "
	s := []int{1, 2, 3, 4}
	sub := s[1:3]
	clear(sub)
	out += ints(s) + " "
	type P struct {
		a int
		s string
	}
	ps := []P{{1, "a"}, {2, "b"}}
	pp := &ps[1]
	clear(ps)
	out += itoa(pp.a) + pp.s + "." + " "
	var ms MyS = MyS{1, 2}
	ms = append(ms, 3)
	clear(ms[:1])
	out += ints(ms) + itoa(len(ms)) + " "
	var arr [5]int
	pa := &arr
	out += itoa(len(arr)) + itoa(cap(arr)) + itoa(len(pa)) + itoa(len(arr[1:3])) + itoa(cap(arr[1:3])) + itoa(cap(arr[1:3:4])) + " "
	out += itoa(len("héllo")) + itoa(len([]rune("héllo"))) + " "
	mk := make([]int, 2, 10)
	mk2 := make([]string, 3)
	n := 4
	mk3 := make([][]int, n)
	mk4 := make([]int, n, n*2)
	out += itoa(len(mk)) + itoa(cap(mk)) + itoa(len(mk2)) + mk2[2] + btoa(mk3[3] == nil) + itoa(cap(mk4)) + " "
	mm := make(map[string][]int, 10)
	out += itoa(len(mm)) + btoa(mm != nil) + " "
	dst := make([]int, 2)
	out += itoa(copy(dst, s[2:])) + itoa(copy(dst, []int{})) + itoa(copy(dst[:1], []int{7, 8})) + ints(dst) + " "
	c128 := complex(1, 2)
	c128 *= c128
	out += ftoa(real(c128)) + ftoa(imag(c128)) + btoa(c128 == complex(-3, 4)) + " "
	print("to stderr")
	println("to stderr", 1, true)
	return out
}
`},
	{"conversions", `package main

type Celsius float64
type ID int
type Name string
type Bytes []byte
type Op func(int) int
type Pt struct{ X, Y int }
type Vec struct{ X, Y int }
type Tagged struct {
	X int "tag"
	Y int
}

func (c Celsius) F() float64 { return float64(c)*9/5 + 32 }

func double(x int) int { return x * 2 }

func Main() string {
	out := ""
	c := Celsius(100)
	out += ftoa(c.F()) + " " + ftoa(float64(Celsius(37.5))) + " "
	id := ID(7)
	out += itoa(int(id)+1) + itoa(int(ID(3)*id)) + " "
	n := Name("bob")
	out += string(n) + string(n[0:1]) + itoa(len(n)) + " "
	b := Bytes("xyz")
	b[0] = 'a'
	out += string(b) + string([]byte(b)[1:]) + " "
	var op Op = double
	out += itoa(op(4)) + itoa(Op(func(i int) int { return -i })(3)) + " "
	p := Pt{1, 2}
	v := Vec(p)
	v.X = 10
	t := Tagged(v)
	out += itoa(p.X) + itoa(v.X) + itoa(t.Y) + " "
	pv := (*Vec)(&p)
	pv.Y = 20
	out += itoa(p.Y) + " "
	f := 3.99
	out += itoa(int(f)) + itoa(int(-f)) + itoa(int(int8(f*40))) + utoa(uint64(uint8(f*60))) + " "
	i := 1<<53 + 1
	out += itoa(int(float64(i))-i) + itoa(int(float32(16777217))) + " "
	var u64 uint64 = 1 << 63
	out += ftoa(float64(u64)/float64(1<<60)) + " "
	r := 'A' + 2
	out += string(r) + string(rune(0x1F600)) + itoa(len(string(rune(0x1F600)))) + string(rune(65+1)) + " "
	bs := []byte{104, 105}
	rs := []rune{0x4e16, 0x754c}
	out += string(bs) + string(rs) + itoa(len(string(rs))) + " "
	s := []int{1, 2, 3, 4}
	a2 := [2]int(s)
	a2[0] = 9
	pa := (*[3]int)(s)
	pa[1] = 8
	out += ints(s) + itoa(a2[0]) + itoa(len(pa)) + " "
	var ns []int
	p0 := (*[0]int)(ns)
	e0 := (*[0]int)([]int{})
	out += btoa(p0 == nil) + btoa(e0 == nil) + " "
	var x any = id
	_, isInt := x.(int)
	_, isID := x.(ID)
	out += btoa(isInt) + btoa(isID) + " "
	var i16 int16 = -2
	out += utoa(uint64(uint16(i16))) + itoa(int(int8(uint8(200)+uint8(i16)))) + " "
	const k = 300
	var small = uint8(k % 256)
	out += utoa(uint64(small)) + " " + utoa(uint64(uint32(1<<32-1))) + " "
	type E interface{ Error() string }
	var e error
	var e2 E = e
	out += btoa(e2 == nil)
	return out
}
`},
	{"funcs", `package main

type BinOp func(int, int) int

func apply(f BinOp, a, b int) int { return f(a, b) }

func compose(fs ...func(int) int) func(int) int {
	return func(x int) int {
		for _, f := range fs {
			x = f(x)
		}
		return x
	}
}

func fib(n int) int {
	if n < 2 {
		return n
	}
	return fib(n-1) + fib(n-2)
}

func even(n int) bool {
	if n == 0 {
		return true
	}
	return odd(n - 1)
}

func odd(n int) bool {
	if n == 0 {
		return false
	}
	return even(n - 1)
}

func ack(m, n int) int {
	if m == 0 {
		return n + 1
	}
	if n == 0 {
		return ack(m-1, 1)
	}
	return ack(m-1, ack(m, n-1))
}

var table = map[string]BinOp{
	"add": func(a, b int) int { return a + b },
	"mul": func(a, b int) int { return a * b },
}

type S struct{ f func() string }

func Main() string {
	out := itoa(apply(func(a, b int) int { return a - b }, 5, 3)) + itoa(apply(table["mul"], 4, 5)) + itoa(table["add"](1, 2)) + " "
	inc := func(x int) int { return x + 1 }
	dbl := func(x int) int { return x * 2 }
	out += itoa(compose(inc, dbl, inc)(3)) + itoa(compose()(7)) + " "
	out += itoa(fib(20)) + btoa(even(10)) + btoa(odd(7)) + btoa(even(7)) + itoa(ack(2, 3)) + " "
	var nf func()
	out += btoa(nf == nil) + try(nf) + " " + try(func() { table["nope"](1, 2) }) + " "
	s := S{}
	out += try(func() { s.f() }) + " "
	s.f = func() string { return "called" }
	out += s.f() + " "
	fs := []func() int{}
	for i := 0; i < 3; i++ {
		fs = append(fs, func() int { return i * i })
	}
	t := 0
	for _, f := range fs {
		t += f()
	}
	out += itoa(t) + " "
	ret := func() func() int { return func() int { return 42 } }
	out += itoa(ret()()) + " "
	var self func(n int) int
	self = func(n int) int {
		if n == 0 {
			return 0
		}
		return n + self(n-1)
	}
	out += itoa(self(100)) + " "
	func() {
		defer func() { out += "deferred" }()
		out += "immediate,"
	}()
	return out
}
`},
	{"list_tree", `package main

type Tree struct {
	l, r *Tree
	v    int
}

func (t *Tree) insert(v int) *Tree {
	if t == nil {
		return &Tree{v: v}
	}
	if v < t.v {
		t.l = t.l.insert(v)
	} else {
		t.r = t.r.insert(v)
	}
	return t
}

func (t *Tree) walk(f func(int)) {
	if t == nil {
		return
	}
	t.l.walk(f)
	f(t.v)
	t.r.walk(f)
}

func (t *Tree) height() int {
	if t == nil {
		return 0
	}
	return 1 + max(t.l.height(), t.r.height())
}

type Stack struct {
	data []int
}

func (s *Stack) push(v int) { s.data = append(s.data, v) }
func (s *Stack) pop() int {
	v := s.data[len(s.data)-1]
	s.data = s.data[:len(s.data)-1]
	return v
}

type Node struct {
	name  string
	edges []*Node
	seen  bool
}

func dfs(n *Node, visit func(*Node)) {
	if n.seen {
		return
	}
	n.seen = true
	visit(n)
	for _, e := range n.edges {
		dfs(e, visit)
	}
}

func sieve(n int) []int {
	comp := make([]bool, n+1)
	var ps []int
	for i := 2; i <= n; i++ {
		if comp[i] {
			continue
		}
		ps = append(ps, i)
		for j := i * i; j <= n; j += i {
			comp[j] = true
		}
	}
	return ps
}

func sort(a []int) {
	for i := 1; i < len(a); i++ {
		for j := i; j > 0 && a[j-1] > a[j]; j-- {
			a[j-1], a[j] = a[j], a[j-1]
		}
	}
}

func Main() string {
	out := ""
	var root *Tree
	for _, v := range []int{5, 3, 8, 1, 4, 7, 9, 2, 6} {
		root = root.insert(v)
	}
	root.walk(func(v int) { out += itoa(v) })
	out += " " + itoa(root.height()) + " "
	st := &Stack{}
	for i := 0; i < 5; i++ {
		st.push(i * i)
	}
	out += itoa(st.pop()) + itoa(st.pop()) + itoa(len(st.data)) + " "
	a, b, c := &Node{name: "a"}, &Node{name: "b"}, &Node{name: "c"}
	a.edges = []*Node{b, c}
	b.edges = []*Node{c, a}
	c.edges = []*Node{a}
	dfs(a, func(n *Node) { out += n.name })
	out += " " + ints(sieve(30)) + " "
	arr := []int{5, 2, 9, 1, 5, 6, -3}
	sort(arr)
	out += ints(arr) + " "
	byName := map[string]*Node{"a": a, "b": b}
	byName["a"].name = "A"
	out += a.name + itoa(len(byName["b"].edges)) + " "
	memo := map[int]int{}
	var f func(int) int
	f = func(n int) int {
		if n < 2 {
			return n
		}
		if v, ok := memo[n]; ok {
			return v
		}
		v := f(n-1) + f(n-2)
		memo[n] = v
		return v
	}
	out += itoa(f(50)) + " "
	grid := [3][3]int{}
	for i := range grid {
		for j := range grid[i] {
			grid[i][j] = i * j
		}
	}
	tr := 0
	for i := range grid {
		tr += grid[i][i]
	}
	out += itoa(tr)
	return out
}
`},
	{"zero_size", `package main

type Empty struct{}

func (Empty) Hi() string { return "hi" }

type Set map[string]struct{}

func Main() string {
	out := ""
	s := Set{}
	s["a"] = struct{}{}
	s["b"] = Empty{}
	_, ok := s["a"]
	_, ok2 := s["z"]
	out += itoa(len(s)) + btoa(ok) + btoa(ok2) + " "
	var e Empty
	out += e.Hi() + btoa(e == Empty{}) + " "
	var arr [0]int
	out += itoa(len(arr)) + itoa(len(arr[:])) + " "
	es := make([]Empty, 3)
	es = append(es, Empty{})
	out += itoa(len(es)) + " "
	var a any = e
	_, isE := a.(Empty)
	out += btoa(isE) + btoa(a == any(struct{}{})) + btoa(a == any(Empty{})) + " "
	type W struct {
		Empty
		n int
	}
	w := W{n: 1}
	out += w.Hi() + itoa(w.n) + " "
	var blank struct{ _ int }
	out += btoa(blank == struct{ _ int }{}) + " "
	cnt := 0
	for range [3]struct{}{} {
		cnt++
	}
	out += itoa(cnt)
	return out
}
`},
	{"named_results", `package main

func div(a, b int) (q, r int, ok bool) {
	if b == 0 {
		return
	}
	q, r, ok = a/b, a%b, true
	return
}

func override() (x int) {
	x = 1
	return 2
}

func deferred() (x int) {
	defer func() { x++ }()
	x = 1
	return x * 10
}

func shadowed() (err string) {
	if true {
		err := "inner"
		_ = err
	}
	return
}

func alias() (p *int) {
	v := 5
	p = &v
	defer func() { *p = 6 }()
	return p
}

func loopRet() (n int) {
	for i := 0; i < 10; i++ {
		n += i
		if n > 10 {
			return
		}
	}
	return -1
}

func ptrResult() (s struct{ a, b int }) {
	p := &s
	p.a = 1
	s.b = 2
	return
}

func Main() string {
	q, r, ok := div(7, 2)
	out := itoa(q) + itoa(r) + btoa(ok) + " "
	q, r, ok = div(7, 0)
	out += itoa(q) + itoa(r) + btoa(ok) + " "
	out += itoa(override()) + itoa(deferred()) + shadowed() + "." + itoa(*alias()) + itoa(loopRet()) + " "
	s := ptrResult()
	out += itoa(s.a) + itoa(s.b)
	return out
}
`},
	{"string_algos", `package main

func isPal(s string) bool {
	for i, j := 0, len(s)-1; i < j; i, j = i+1, j-1 {
		if s[i] != s[j] {
			return false
		}
	}
	return true
}

func upper(s string) string {
	b := make([]byte, len(s))
	for i := 0; i < len(s); i++ {
		c := s[i]
		if 'a' <= c && c <= 'z' {
			c -= 'a' - 'A'
		}
		b[i] = c
	}
	return string(b)
}

func split(s string, sep byte) []string {
	var parts []string
	start := 0
	for i := 0; i < len(s); i++ {
		if s[i] == sep {
			parts = append(parts, s[start:i])
			start = i + 1
		}
	}
	return append(parts, s[start:])
}

func atoi(s string) (n int, ok bool) {
	if s == "" {
		return 0, false
	}
	neg := false
	if s[0] == '-' {
		neg = true
		s = s[1:]
	}
	for _, c := range s {
		if c < '0' || c > '9' {
			return 0, false
		}
		n = n*10 + int(c-'0')
	}
	if neg {
		n = -n
	}
	return n, true
}

func count(s string) map[rune]int {
	m := map[rune]int{}
	for _, r := range s {
		m[r]++
	}
	return m
}

func hash(s string) uint32 {
	var h uint32 = 2166136261
	for i := 0; i < len(s); i++ {
		h ^= uint32(s[i])
		h *= 16777619
	}
	return h
}

func caesar(s string, k int) string {
	rs := []rune(s)
	for i, r := range rs {
		if r >= 'a' && r <= 'z' {
			rs[i] = 'a' + (r-'a'+rune(k)+26)%26
		}
	}
	return string(rs)
}

func Main() string {
	out := btoa(isPal("racecar")) + btoa(isPal("ab")) + btoa(isPal("")) + " " + upper("Hello, wOrld") + " "
	for _, p := range split("a,bc,,d", ',') {
		out += "[" + p + "]"
	}
	out += " "
	n, ok := atoi("-1234")
	m, ok2 := atoi("12x")
	out += itoa(n) + btoa(ok) + itoa(m) + btoa(ok2) + " "
	c := count("hello wörld")
	out += itoa(c['l']) + itoa(c['ö']) + itoa(c['z']) + itoa(len(c)) + " "
	out += utoa(uint64(hash("hello"))) + " " + caesar("hello, world", 3) + caesar(caesar("abc", 5), -5) + " "
	s := ""
	for i := 0; i < 50; i++ {
		s += string(rune('a' + i%26))
	}
	out += itoa(len(s)) + s[24:28]
	return out
}
`},
}

var programs = slices.Concat(progs1, progs2, progs3, progs4, progs5, progs6)

// A divergence is a program for which the IR (as interpreted here)
// is known to behave differently from the compiled program.  The
// cause is the IR, not the interpreter; see doc.go.
type divergence struct {
	testProgram
	interp map[string]string // expected interpreter result per build configuration
}

var divergences = []divergence{
	{
		// lift.go eliminates all RunDefers of a function that contains
		// no Defer instruction of its own, even if the synthetic yield
		// function of a range-over-func loop defers into its stack.
		testProgram{"div_defer_only_in_rangefunc", `package main

func seq(yield func(int) bool) {
	_ = yield(0) && yield(1)
}

func f() (s string) {
	for i := range seq {
		defer func() { s += itoa(i) }()
	}
	return "end"
}

func Main() string { return f() }
`},
		map[string]string{"lifted": "end", "lifted+debug": "end", "naive": "end10", "naive+debug": "end10"},
	},
	{
		// The builder lowers the checks of the range-over-func protocol to
		// panic("...") with a string operand; the gc runtime panics with a
		// runtime.Error.
		testProgram{"div_late_yield", `package main

func Main() string {
	return try(func() {
		var saved func(int) bool
		bad := func(yield func(int) bool) { saved = yield; yield(1) }
		for range bad {
		}
		saved(2)
	}) + " " + try(func() {
		ignore := func(yield func(int) bool) { yield(1); yield(2) }
		for range ignore {
			break
		}
	})
}
`},
		map[string]string{
			"lifted":       "string(yield function called after range loop exit) string(yield function called after range loop exit)",
			"lifted+debug": "string(yield function called after range loop exit) string(yield function called after range loop exit)",
			"naive":        "string(yield function called after range loop exit) string(yield function called after range loop exit)",
			"naive+debug":  "string(yield function called after range loop exit) string(yield function called after range loop exit)",
		},
	},
}
