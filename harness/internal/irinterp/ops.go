// Copyright 2013 The Go Authors. All rights reserved.
// Use of this source code is governed by a BSD-style
// license that can be found in the LICENSE file.

// Ported from golang.org/x/tools/go/ssa/interp/ops.go to
// honnef.co/go/tools/go/ir.

package irinterp

import (
	"fmt"
	"go/constant"
	"go/types"
	"math"
	"strings"

	"honnef.co/go/tools/go/ir"
)

// Classes of run-time panics, see PanicInfo.Class.
const (
	ClassNilDeref     = "nil-deref"
	ClassIndex        = "index"
	ClassSliceBounds  = "slice-bounds"
	ClassDivide       = "divide"
	ClassTypeAssert   = "type-assert"
	ClassExplicit     = "explicit"
	ClassOtherRuntime = "other-runtime"
)

// If the target program panics, the interpreter panics with this type.
// v is always an iface (the interface{} operand of panic).
type targetPanic struct {
	v iface
}

// constValue returns the value of the constant with the
// dynamic type tag appropriate for c.Type().
func (i *Interp) constValue(c *ir.Const) value {
	if c.Value == nil {
		return i.zero(c.Type()) // typed zero
	}
	// c is not a type parameter so it's underlying type is basic.

	if t, ok := c.Type().Underlying().(*types.Basic); ok {
		switch t.Kind() {
		case types.Bool, types.UntypedBool:
			return constant.BoolVal(c.Value)
		case types.Int, types.UntypedInt:
			// Assume sizeof(int) is same on host and target.
			return int(c.Int64())
		case types.Int8:
			return int8(c.Int64())
		case types.Int16:
			return int16(c.Int64())
		case types.Int32, types.UntypedRune:
			return int32(c.Int64())
		case types.Int64:
			return c.Int64()
		case types.Uint:
			// Assume sizeof(uint) is same on host and target.
			return uint(c.Uint64())
		case types.Uint8:
			return uint8(c.Uint64())
		case types.Uint16:
			return uint16(c.Uint64())
		case types.Uint32:
			return uint32(c.Uint64())
		case types.Uint64:
			return c.Uint64()
		case types.Uintptr:
			// Assume sizeof(uintptr) is same on host and target.
			return uintptr(c.Uint64())
		case types.Float32:
			f, _ := constant.Float32Val(constant.ToFloat(c.Value))
			return f
		case types.Float64, types.UntypedFloat:
			return c.Float64()
		case types.Complex64:
			return complex64(c.Complex128())
		case types.Complex128, types.UntypedComplex:
			return c.Complex128()
		case types.String, types.UntypedString:
			if c.Value.Kind() == constant.String {
				return constant.StringVal(c.Value)
			}
			return string(rune(c.Int64()))
		}
	}

	panic(unsupportedf("constant %s of type %s", c, c.Type()))
}

// asInt64 converts x, which must be an integer, to an int64.
func asInt64(x value) int64 {
	switch x := x.(type) {
	case int:
		return int64(x)
	case int8:
		return int64(x)
	case int16:
		return int64(x)
	case int32:
		return int64(x)
	case int64:
		return x
	case uint:
		return int64(x)
	case uint8:
		return int64(x)
	case uint16:
		return int64(x)
	case uint32:
		return int64(x)
	case uint64:
		return int64(x)
	case uintptr:
		return int64(x)
	}
	panic(fmt.Sprintf("cannot convert %T to int64", x))
}

// asIndex converts the integer x to an int64 suitable for bounds
// checks: unsigned values beyond MaxInt64 saturate to MaxInt64 (which
// is out of range for every collection).
func asIndex(x value) int64 {
	switch x := x.(type) {
	case uint:
		if x > math.MaxInt64 {
			return math.MaxInt64
		}
	case uint64:
		if x > math.MaxInt64 {
			return math.MaxInt64
		}
	case uintptr:
		if x > math.MaxInt64 {
			return math.MaxInt64
		}
	}
	return asInt64(x)
}

// shiftCount returns the shift count y as a uint64, and whether it is
// non-negative.
func shiftCount(y value) (uint64, bool) {
	switch y := y.(type) {
	case int:
		return uint64(y), y >= 0
	case int8:
		return uint64(y), y >= 0
	case int16:
		return uint64(y), y >= 0
	case int32:
		return uint64(y), y >= 0
	case int64:
		return uint64(y), y >= 0
	case uint:
		return uint64(y), true
	case uint8:
		return uint64(y), true
	case uint16:
		return uint64(y), true
	case uint32:
		return uint64(y), true
	case uint64:
		return y, true
	case uintptr:
		return uint64(y), true
	}
	panic(fmt.Sprintf("shift count of type %T", y))
}

// zero returns a new "zero" value of the specified type.
func (i *Interp) zero(t types.Type) value {
	switch t := t.(type) {
	case *types.Basic:
		if t.Kind() == types.UntypedNil {
			panic("untyped nil has no zero value")
		}
		if t.Info()&types.IsUntyped != 0 {
			t = types.Default(t).(*types.Basic)
		}
		switch t.Kind() {
		case types.Bool:
			return false
		case types.Int:
			return int(0)
		case types.Int8:
			return int8(0)
		case types.Int16:
			return int16(0)
		case types.Int32:
			return int32(0)
		case types.Int64:
			return int64(0)
		case types.Uint:
			return uint(0)
		case types.Uint8:
			return uint8(0)
		case types.Uint16:
			return uint16(0)
		case types.Uint32:
			return uint32(0)
		case types.Uint64:
			return uint64(0)
		case types.Uintptr:
			return uintptr(0)
		case types.Float32:
			return float32(0)
		case types.Float64:
			return float64(0)
		case types.Complex64:
			return complex64(0)
		case types.Complex128:
			return complex128(0)
		case types.String:
			return ""
		case types.UnsafePointer:
			panic(unsupportedf("unsafe.Pointer"))
		default:
			panic(fmt.Sprint("zero for unexpected type:", t))
		}
	case *types.Pointer:
		return (*value)(nil)
	case *types.Array:
		i.chargeAlloc(t.Len())
		a := make(array, t.Len())
		for j := range a {
			a[j] = i.zero(t.Elem())
		}
		return a
	case *types.Named:
		return i.zero(t.Underlying())
	case *types.Alias:
		return i.zero(types.Unalias(t))
	case *types.Interface:
		return iface{} // nil type, methodset and value
	case *types.Slice:
		return []value(nil)
	case *types.Struct:
		s := make(structure, t.NumFields())
		for j := range s {
			s[j] = i.zero(t.Field(j).Type())
		}
		return s
	case *types.Tuple:
		if t.Len() == 1 {
			return i.zero(t.At(0).Type())
		}
		s := make(tuple, t.Len())
		for j := range s {
			s[j] = i.zero(t.At(j).Type())
		}
		return s
	case *types.Chan:
		panic(unsupportedf("channel type %s", t))
	case *types.Map:
		return (*hashmap)(nil)
	case *types.Signature:
		return (*ir.Function)(nil)
	case *types.TypeParam:
		panic(unsupportedf("zero value of type parameter %s (uninstantiated generic code)", t))
	}
	// typeutil.DeferStack, typeutil.Iterator and other exotica.
	if t != nil && strings.Contains(fmt.Sprintf("%T", t), "DeferStack") {
		return (**deferred)(nil)
	}
	panic(fmt.Sprint("zero: unexpected ", t))
}

// sliceOp returns x[lo:hi:max].  Any of lo, hi and max may be nil.
func (i *Interp) sliceOp(instr *ir.Slice, x, lo, hi, max value) value {
	var Len, Cap int
	isString := false
	switch x := x.(type) {
	case string:
		Len = len(x)
		Cap = Len
		isString = true
	case []value:
		Len = len(x)
		Cap = cap(x)
	case *value: // *array
		if x == nil {
			panic(rtPanic(ClassNilDeref, "invalid memory address or nil pointer dereference"))
		}
		a := (*x).(array)
		Len = len(a)
		Cap = cap(a)
	default:
		panic(fmt.Sprintf("slice: unexpected X type: %T", x))
	}

	// make([]T, n, constcap) is lowered by the builder to
	// new([constcap]T)[:n]; report its failure like makeslice does.
	if alloc, ok := instr.X.(*ir.Alloc); ok && alloc.Comment() == "makeslice" && lo == nil && max == nil && hi != nil {
		if h := asIndex(hi); h < 0 || h > int64(Cap) {
			// gc reports "len out of range" both for negative lengths
			// and for len > cap.
			panic(rtPanic(ClassOtherRuntime, "makeslice: len out of range"))
		}
	}

	l := int64(0)
	if lo != nil {
		l = asIndex(lo)
	}

	h := int64(Len)
	if hi != nil {
		h = asIndex(hi)
	}

	m := int64(Cap)
	if max != nil {
		m = asIndex(max)
	}

	// Bounds checks, in the order (and with the messages) of the gc runtime.
	if isString {
		if h < 0 || h > int64(Len) {
			panic(rtPanic(ClassSliceBounds, fmt.Sprintf("slice bounds out of range [:%d] with length %d", h, Len)))
		}
		if l < 0 || l > h {
			panic(rtPanic(ClassSliceBounds, fmt.Sprintf("slice bounds out of range [%d:%d]", l, h)))
		}
	} else if max != nil {
		if m < 0 || m > int64(Cap) {
			panic(rtPanic(ClassSliceBounds, fmt.Sprintf("slice bounds out of range [::%d] with capacity %d", m, Cap)))
		}
		if h < 0 || h > m {
			panic(rtPanic(ClassSliceBounds, fmt.Sprintf("slice bounds out of range [:%d:%d]", h, m)))
		}
		if l < 0 || l > h {
			panic(rtPanic(ClassSliceBounds, fmt.Sprintf("slice bounds out of range [%d:%d:]", l, h)))
		}
	} else {
		if h < 0 || h > int64(Cap) {
			panic(rtPanic(ClassSliceBounds, fmt.Sprintf("slice bounds out of range [:%d] with capacity %d", h, Cap)))
		}
		if l < 0 || l > h {
			panic(rtPanic(ClassSliceBounds, fmt.Sprintf("slice bounds out of range [%d:%d]", l, h)))
		}
	}

	switch x := x.(type) {
	case string:
		return x[l:h]
	case []value:
		if x == nil {
			return x // nil[0:0] is nil
		}
		return x[l:h:m]
	case *value: // *array
		a := (*x).(array)
		return []value(a)[l:h:m]
	}
	panic("unreachable")
}

// lookup returns x[idx] where x is a map.
func (i *Interp) lookup(instr *ir.MapLookup, x, idx value) value {
	m, ok := x.(*hashmap)
	if !ok {
		panic(fmt.Sprintf("unexpected x type in MapLookup: %T", x))
	}
	var v value
	e := m.lookup(idx)
	if e != nil {
		v = e.value
	} else {
		v = i.zero(coreMap(instr.X.Type()).Elem())
	}
	if instr.CommaOk {
		v = tuple{v, e != nil}
	}
	return v
}

func coreMap(t types.Type) *types.Map {
	return t.Underlying().(*types.Map)
}

type integer interface {
	~int | ~int8 | ~int16 | ~int32 | ~int64 | ~uint | ~uint8 | ~uint16 | ~uint32 | ~uint64 | ~uintptr
}

type float interface{ ~float32 | ~float64 }

type complexT interface{ ~complex64 | ~complex128 }
