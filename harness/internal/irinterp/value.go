// Copyright 2013 The Go Authors. All rights reserved.
// Use of this source code is governed by a BSD-style
// license that can be found in the LICENSE file.

// Ported from golang.org/x/tools/go/ssa/interp/value.go to
// honnef.co/go/tools/go/ir.

package irinterp

// Values
//
// All interpreter values are "boxed" in the empty interface, value.
// The range of possible dynamic types within value are:
//
// - bool
// - numbers (all built-in int/float/complex types are distinguished)
// - string
// - *hashmap        --- maps (all key types); a nil *hashmap is a nil map
// - []value --- slices
// - iface --- interfaces.
// - structure --- structs.  Fields are ordered and accessed by numeric indices.
// - array --- arrays.
// - *value --- pointers.  Careful: *value is a distinct type from *array etc.
// - *ir.Function \
//   *ir.Builtin   } --- functions.  A nil 'func' is always of type *ir.Function.
//   *closure      /
// - tuple --- as returned by Return, Next, "value,ok" modes, etc.
// - iter --- iterators from 'range' over map or string.
// - rtError --- the payload of a run-time error value (dynamic type of
//   an iface whose t is the interpreter's runtime.Error type).
// - **deferred -- the address of a frame's defer stack for a Defer.DeferStack.
//
// Note that nil is not on this list (it is only used for the unused
// components of tuples, e.g. the unmatched slots of a TypeSwitch).
//
// Pay close attention to whether or not the dynamic type is a pointer.
// The compiler cannot help you since value is an empty interface.
//
// Aggregates (structure, array) held in an SSA register are
// immutable and may share storage with one another.  Aggregates held
// in a memory cell (*value) never share storage with a register:
// Load returns a deep copy, Store copies element-wise *into* the
// existing cell (so that pointers to fields and elements, which are
// simply the addresses of the Go slice elements, remain valid), and
// append/copy copy the elements.

import (
	"go/types"
	"math"
	"unicode/utf8"
	"unsafe"

	"honnef.co/go/tools/go/ir"
)

// Value is the exported name of the interpreter's boxed value type.
// See the package documentation for the range of dynamic types.
type Value = any

type value = any

type tuple []value

type array []value

type iface struct {
	t types.Type // never an "untyped" type
	v value
}

type structure []value

// For map or string.
type iter interface {
	// next returns a Tuple (ok, key, value).
	// key and value are unaliased, e.g. copies of the sequence element.
	next() tuple
}

type closure struct {
	Fn  *ir.Function
	Env []value
}

// rtError is the dynamic value of a run-time error (the analogue of
// runtime.errorString, runtime.boundsError, *runtime.TypeAssertionError, ...).
type rtError struct {
	class string
	msg   string
}

// Hash functions and equivalence relation:

// hashString computes the FNV hash of s.
func hashString(s string) int {
	var h uint32
	for i := 0; i < len(s); i++ {
		h ^= uint32(s[i])
		h *= 16777619
	}
	return int(h)
}

// nil-tolerant variant of types.Identical.
func sameType(x, y types.Type) bool {
	if x == nil {
		return y == nil
	}
	return y != nil && types.Identical(x, y)
}

// uncomparable is the host panic payload used by equals and hash when
// they meet a value for which == is not defined; the interpreter
// turns it into a target run-time panic.
type uncomparable struct {
	hashing bool
	t       types.Type // may be nil
	v       value
}

// equals returns true iff x and y are equal according to Go's
// linguistic equivalence relation.
// In a well-typed program, the dynamic types of x and y are
// guaranteed equal.
//
// t is the static type of the operands, or nil if not known; it is
// used to skip blank fields of structs and for diagnostics.
func equals(t types.Type, x, y value) bool {
	switch x := x.(type) {
	case bool:
		return x == y.(bool)
	case int:
		return x == y.(int)
	case int8:
		return x == y.(int8)
	case int16:
		return x == y.(int16)
	case int32:
		return x == y.(int32)
	case int64:
		return x == y.(int64)
	case uint:
		return x == y.(uint)
	case uint8:
		return x == y.(uint8)
	case uint16:
		return x == y.(uint16)
	case uint32:
		return x == y.(uint32)
	case uint64:
		return x == y.(uint64)
	case uintptr:
		return x == y.(uintptr)
	case float32:
		return x == y.(float32)
	case float64:
		return x == y.(float64)
	case complex64:
		return x == y.(complex64)
	case complex128:
		return x == y.(complex128)
	case string:
		return x == y.(string)
	case *value:
		return x == y.(*value)
	case rtError:
		return x == y.(rtError)
	case structure:
		y := y.(structure)
		var st *types.Struct
		if t != nil {
			st, _ = t.Underlying().(*types.Struct)
		}
		// Go compares all non-blank fields; a comparison of an
		// uncomparable (interface) field panics only if reached.
		for i := range x {
			var ft types.Type
			if st != nil && i < st.NumFields() {
				f := st.Field(i)
				if f.Name() == "_" {
					continue
				}
				ft = f.Type()
			}
			if !equals(ft, x[i], y[i]) {
				return false
			}
		}
		return true
	case array:
		y := y.(array)
		var et types.Type
		if t != nil {
			if at, ok := t.Underlying().(*types.Array); ok {
				et = at.Elem()
			}
		}
		for i := range x {
			if !equals(et, x[i], y[i]) {
				return false
			}
		}
		return true
	case iface:
		y := y.(iface)
		if !sameType(x.t, y.t) {
			return false
		}
		if x.t == nil {
			return true
		}
		if !types.Comparable(x.t) {
			panic(uncomparable{t: x.t, v: x.v})
		}
		return equals(x.t, x.v, y.v)
	}

	// Since map, func and slice don't support comparison, this
	// case is only reachable if one of x or y is literally nil
	// (handled in eqnil) or via interface{} values.
	panic(uncomparable{t: t, v: x})
}

// hash returns an integer hash of x such that equals(x, y) => hash(x) == hash(y).
func hash(t types.Type, x value) int {
	switch x := x.(type) {
	case bool:
		if x {
			return 1
		}
		return 0
	case int:
		return x
	case int8:
		return int(x)
	case int16:
		return int(x)
	case int32:
		return int(x)
	case int64:
		return int(x)
	case uint:
		return int(x)
	case uint8:
		return int(x)
	case uint16:
		return int(x)
	case uint32:
		return int(x)
	case uint64:
		return int(x)
	case uintptr:
		return int(x)
	case float32:
		return hashFloat(float64(x))
	case float64:
		return hashFloat(x)
	case complex64:
		return hashFloat(float64(real(x))) + 31*hashFloat(float64(imag(x)))
	case complex128:
		return hashFloat(real(x)) + 31*hashFloat(imag(x))
	case string:
		return hashString(x)
	case *value:
		return int(uintptr(unsafe.Pointer(x)))
	case rtError:
		return hashString(x.msg)
	case structure:
		var st *types.Struct
		if t != nil {
			st, _ = t.Underlying().(*types.Struct)
		}
		h := 0
		for i := range x {
			var ft types.Type
			if st != nil && i < st.NumFields() {
				f := st.Field(i)
				if f.Name() == "_" {
					continue
				}
				ft = f.Type()
			}
			h = h*16777619 + hash(ft, x[i])
		}
		return h
	case array:
		var et types.Type
		if t != nil {
			if at, ok := t.Underlying().(*types.Array); ok {
				et = at.Elem()
			}
		}
		h := 0
		for _, xi := range x {
			h = h*16777619 + hash(et, xi)
		}
		return h
	case iface:
		if x.t == nil {
			return 0
		}
		if !types.Comparable(x.t) {
			panic(uncomparable{hashing: true, t: x.t, v: x.v})
		}
		return hashString(x.t.String())*8581 + hash(x.t, x.v)
	}
	panic(uncomparable{hashing: true, t: t, v: x})
}

func hashFloat(f float64) int {
	if f == 0 {
		return 0 // +0 == -0
	}
	return int(math.Float64bits(f))
}

// copyVal returns a deep copy of the aggregate parts of v.
func copyVal(v value) value {
	switch v := v.(type) {
	case structure:
		a := make(structure, len(v))
		for i := range v {
			a[i] = copyVal(v[i])
		}
		return a
	case array:
		a := make(array, len(v))
		for i := range v {
			a[i] = copyVal(v[i])
		}
		return a
	}
	return v
}

// load returns (a copy of) the value in *addr.
func load(addr *value) value {
	return copyVal(*addr)
}

// store stores value v into *addr.  Aggregates are copied
// element-wise into the existing variable so that the addresses of
// its components are preserved.
func store(addr *value, v value) {
	switch rhs := v.(type) {
	case structure:
		if lhs, ok := (*addr).(structure); ok && len(lhs) == len(rhs) {
			if len(lhs) > 0 && &lhs[0] == &rhs[0] {
				return // self-assignment
			}
			for i := range lhs {
				store(&lhs[i], rhs[i])
			}
			return
		}
	case array:
		if lhs, ok := (*addr).(array); ok && len(lhs) == len(rhs) {
			if len(lhs) > 0 && &lhs[0] == &rhs[0] {
				return
			}
			for i := range lhs {
				store(&lhs[i], rhs[i])
			}
			return
		}
	}
	*addr = copyVal(v)
}

// ------------------------------------------------------------------------
// Iterators

type stringIter struct {
	s string
	i int
}

func (it *stringIter) next() tuple {
	if it.i >= len(it.s) {
		return tuple{false, 0, rune(0)}
	}
	r, n := utf8.DecodeRuneInString(it.s[it.i:])
	okv := tuple{true, it.i, r}
	it.i += n
	return okv
}

type mapIter struct {
	m   *hashmap
	pos int
}

func (it *mapIter) next() tuple {
	if it.m != nil {
		for it.pos < len(it.m.order) {
			e := it.m.order[it.pos]
			it.pos++
			if !e.deleted {
				return tuple{true, e.key, e.value}
			}
		}
	}
	return tuple{false, nil, nil}
}

func (it *mapIter) String() string    { return "<map iterator>" }
func (it *stringIter) String() string { return "<string iterator>" }
