package irinterp

// Test programs, part 2: closures, methods, interfaces, type switches, generics.

var progs2 = []testProgram{
	{"closures", `package main

func counter() (func() int, func()) {
	c := 0
	return func() int { c++; return c }, func() { c = 100 }
}

func adder(n int) func(int) int { return func(x int) int { return x + n } }

func Main() string {
	out := ""
	next, reset := counter()
	next()
	next()
	out += itoa(next()) + " "
	reset()
	out += itoa(next()) + " "
	n2, _ := counter()
	out += itoa(n2()) + " "
	// go1.22: a fresh variable per iteration
	var fs []func() int
	for i := 0; i < 3; i++ {
		fs = append(fs, func() int { i += 10; return i })
	}
	for _, f := range fs {
		out += itoa(f()) + ","
	}
	out += itoa(fs[0]()) + " "
	var gs []func() int
	for i, v := range []int{5, 6, 7} {
		gs = append(gs, func() int { return i*100 + v })
	}
	for _, g := range gs {
		out += itoa(g()) + ","
	}
	out += " "
	// the loop variable is copied back at the end of each iteration
	var hs []func() int
	for i := 0; i < 6; i++ {
		hs = append(hs, func() int { return i })
		i++
	}
	for _, h := range hs {
		out += itoa(h()) + ","
	}
	out += " "
	add5 := adder(5)
	out += itoa(add5(1)) + itoa(adder(1)(1)) + " "
	x := 1
	f := func() { x *= 2 }
	f()
	f()
	out += itoa(x) + " "
	var fib func(int) int
	fib = func(n int) int {
		if n < 2 {
			return n
		}
		return fib(n-1) + fib(n-2)
	}
	out += itoa(fib(15)) + " "
	out += itoa(func(a, b int) int { return a * b }(6, 7)) + " "
	nested := func() func() func() int {
		a := 1
		return func() func() int {
			b := 2
			return func() int { a++; b++; return a*10 + b }
		}
	}
	in := nested()
	out += itoa(in()()) + itoa(in()())
	return out
}
`},
	{"methods", `package main

type V struct{ n int }

func (v V) Get() int      { return v.n }
func (v V) Set(n int)     { v.n = n }
func (v *V) PSet(n int)   { v.n = n }
func (v *V) PGet() int    { return v.n }
func (v V) Add(a, b int) int { return v.n + a + b }

type E struct {
	V
	name string
}

type EP struct {
	*V
}

type I int

func (i I) Double() I { return i * 2 }
func (i *I) Inc()     { *i++ }

type F func(int) int

func (f F) Twice(x int) int { return f(f(x)) }

func Main() string {
	out := ""
	v := V{1}
	v.Set(5)
	out += itoa(v.Get()) + " "
	v.PSet(6) // &v implicitly
	out += itoa(v.Get()) + " "
	p := &v
	p.Set(7)
	out += itoa(p.Get()) + itoa(p.PGet()) + " "
	// method values bind the receiver at evaluation time
	g := v.Get
	pg := v.PGet
	v.n = 9
	out += itoa(g()) + itoa(pg()) + " "
	ps := p.PSet
	ps(11)
	out += itoa(v.n) + " "
	// method expressions
	out += itoa(V.Get(v)) + itoa((*V).PGet(&v)) + itoa((*V).Get(&v)) + itoa(V.Add(v, 1, 2)) + " "
	fset := (*V).PSet
	fset(&v, 3)
	out += itoa(v.n) + " "
	// promotion through embedding
	e := E{V{4}, "e"}
	e.PSet(5)
	out += itoa(e.Get()) + itoa(e.V.n) + " "
	eg := e.Get
	e.n = 6
	out += itoa(eg()) + itoa(E.Get(e)) + itoa((*E).PGet(&e)) + " "
	ep := EP{&V{7}}
	ep.PSet(8)
	out += itoa(ep.Get()) + itoa(EP.PGet(ep)) + " "
	var i I = 3
	i.Inc()
	out += itoa(int(i.Double().Double())) + " "
	f := F(func(x int) int { return x * 3 })
	out += itoa(f.Twice(2)) + " "
	var nep EP
	out += try(func() { nep.Get() }) + " " + try(func() { nep.PSet(1) }) + " "
	var np *V
	out += try(func() { np.Get() }) + " " + try(func() { _ = np.Get }) + " "
	h := np.PGet // fine: pointer receiver
	out += try(func() { h() })
	return out
}
`},
	{"interfaces", `package main

type Shape interface {
	Area() int
	Name() string
}

type Namer interface{ Name() string }

type Sq struct{ s int }

func (q Sq) Area() int    { return q.s * q.s }
func (q Sq) Name() string { return "sq" }

type Rect struct{ w, h int }

func (r *Rect) Area() int    { return r.w * r.h }
func (r *Rect) Name() string { return "rect" }

type MyErr struct{ code int }

func (e MyErr) Error() string { return "myerr" + itoa(e.code) }

func mayFail(n int) error {
	if n > 0 {
		return MyErr{n}
	}
	return nil
}

func nilPtrErr() error {
	var p *PE
	return p
}

type PE struct{}

func (p *PE) Error() string { return "pe" }

func Main() string {
	out := ""
	shapes := []Shape{Sq{3}, &Rect{2, 5}, &Sq{4}}
	for _, s := range shapes {
		out += s.Name() + itoa(s.Area()) + ","
	}
	out += " "
	r := &Rect{1, 1}
	var s Shape = r
	r.w = 10
	out += itoa(s.Area()) + " "
	q := Sq{2}
	s = q
	q.s = 9
	out += itoa(s.Area()) + " "
	var a any = s
	sq, ok := a.(Sq)
	_, ok2 := a.(*Sq)
	_, ok3 := a.(Shape)
	nm, ok4 := a.(Namer)
	_, ok5 := a.(error)
	_, ok6 := a.(interface{ Missing() })
	out += itoa(sq.s) + btoa(ok) + btoa(ok2) + btoa(ok3) + btoa(ok4) + btoa(ok5) + btoa(ok6) + nm.Name() + " "
	i, oki := a.(int)
	out += itoa(i) + btoa(oki) + " "
	out += try(func() { _ = a.(int) }) + " " + try(func() { _ = a.(error) }) + " "
	var na any
	_, okn := na.(int)
	_, okn2 := na.(any)
	out += btoa(okn) + btoa(okn2) + try(func() { _ = na.(int) }) + " " + try(func() { _ = na.(any) }) + " "
	var ns Shape
	out += try(func() { ns.Area() }) + " " + try(func() { _ = ns.Area }) + " " + try(func() { _ = ns.(Shape) }) + " "
	out += btoa(mayFail(0) == nil) + btoa(mayFail(1) == nil) + mayFail(2).Error() + " "
	pe := nilPtrErr()
	out += btoa(pe == nil) + pe.Error() + " "
	m := s.Area
	s = &Rect{3, 3}
	out += itoa(m()) + " "
	var n Namer = s
	out += n.Name() + n.(Shape).Name() + " "
	var e error = MyErr{7}
	me := e.(MyErr)
	out += itoa(me.code) + e.Error() + " "
	f := Shape.Area
	out += itoa(f(Sq{5})) + itoa(int(Namer.Name(s)[0:1][0]-'r'))
	return out
}
`},
	{"typeswitch", `package main

type T struct{ n int }

func (t T) String() string { return "T" + itoa(t.n) }

type Stringer interface{ String() string }

type MyInt int

func kind(x any) string {
	switch v := x.(type) {
	case nil:
		return "nil"
	case int:
		return "int" + itoa(v+1)
	case int8, int16:
		_, is8 := v.(int8)
		return "small" + btoa(is8)
	case string:
		return "string" + v
	case *T:
		if v == nil {
			return "nil*T"
		}
		return "*T" + itoa(v.n)
	case Stringer:
		return "stringer" + v.String()
	case []int:
		return "slice" + itoa(len(v))
	case func() int:
		return "func" + itoa(v())
	case error:
		return "error" + v.Error()
	case MyInt:
		return "myint" + itoa(int(v))
	default:
		_ = v
		return "default"
	}
}

type E struct{}

func (E) Error() string { return "E" }

func noDefault(x any) int {
	r := 0
	switch x.(type) {
	case int:
		r = 1
	case string, bool:
		r = 2
	}
	return r
}

func Main() string {
	out := ""
	var np *T
	var ns Stringer
	vals := []any{nil, 1, int8(2), int16(3), "s", &T{4}, np, T{5}, []int{1, 2}, func() int { return 6 }, E{}, MyInt(7), 2.5, ns, uint(1)}
	for _, v := range vals {
		out += kind(v) + ","
	}
	out += " " + itoa(noDefault(1)) + itoa(noDefault(true)) + itoa(noDefault(1.5)) + itoa(noDefault(nil)) + " "
	var s Stringer = T{8}
	switch v := s.(type) {
	case T:
		out += "T" + itoa(v.n)
	case nil:
		out += "nil"
	}
	switch s.(type) {
	}
	switch x := any(3); y := x.(type) {
	case int, string:
		out += btoa(y == x)
	}
loop:
	for i := 0; i < 3; i++ {
		switch any(i).(type) {
		case int:
			if i == 1 {
				break loop
			}
			out += "i" + itoa(i)
			break
		}
		out += "."
	}
	return out
}
`},
	{"generics", `package main

type Number interface {
	~int | ~int8 | ~float64
}

func Sum[T Number](xs ...T) T {
	var s T
	for _, x := range xs {
		s += x
	}
	return s
}

func Map[T, U any](xs []T, f func(T) U) []U {
	var r []U
	for _, x := range xs {
		r = append(r, f(x))
	}
	return r
}

type Stack[T any] struct {
	items []T
}

func (s *Stack[T]) Push(x T) { s.items = append(s.items, x) }
func (s *Stack[T]) Pop() (T, bool) {
	var zero T
	if len(s.items) == 0 {
		return zero, false
	}
	x := s.items[len(s.items)-1]
	s.items = s.items[:len(s.items)-1]
	return x, true
}
func (s Stack[T]) Len() int { return len(s.items) }

type Pair[K, V comparable] struct {
	k K
	v V
}

func (p Pair[K, V]) Swap() Pair[V, K] { return Pair[V, K]{p.v, p.k} }

func Find[K, V comparable](ps []Pair[K, V], k K) (V, bool) {
	for _, p := range ps {
		if p.k == k {
			return p.v, true
		}
	}
	var z V
	return z, false
}

type MyInt int

type Str interface{ String() string }

type Lab struct{ s string }

func (l Lab) String() string { return "<" + l.s + ">" }

func Join[T Str](xs []T) string {
	r := ""
	for _, x := range xs {
		r += x.String()
	}
	return r
}

func Max[T ~int | ~string](a, b T) T {
	if a > b {
		return a
	}
	return b
}

func Ptr[T any](x T) *T { return &x }

func Apply[T any](x T, fs ...func(T) T) T {
	for _, f := range fs {
		x = f(x)
	}
	return x
}

type Lener interface{ Len() int }

func Zero[T any]() T {
	var z T
	return z
}

func Keys[M ~map[K]V, K comparable, V any](m M) int {
	n := 0
	for range m {
		n++
	}
	return n
}

type List[T any] struct {
	head *node[T]
}

type node[T any] struct {
	v    T
	next *node[T]
}

func (l *List[T]) Add(v T) { l.head = &node[T]{v, l.head} }
func (l *List[T]) Each(f func(T)) {
	for n := l.head; n != nil; n = n.next {
		f(n.v)
	}
}

func Main() string {
	out := ""
	out += itoa(Sum(1, 2, 3)) + " " + itoa(int(Sum[int8](100, 100))) + " " + ftoa(Sum(1.5, 2.25)) + " " + itoa(int(Sum(MyInt(4), 5))) + itoa(Sum[int]()) + " "
	strs := Map([]int{1, 2, 3}, func(i int) string { return itoa(i * i) })
	for _, s := range strs {
		out += s + ","
	}
	out += " "
	var st Stack[string]
	st.Push("a")
	st.Push("b")
	x, ok := st.Pop()
	out += x + btoa(ok) + itoa(st.Len()) + " "
	var si Stack[int]
	y, ok := si.Pop()
	out += itoa(y) + btoa(ok) + " "
	var l Lener = st
	out += itoa(l.Len()) + " "
	p := Pair[string, int]{"k", 1}
	q := p.Swap()
	out += itoa(q.k) + q.v + " "
	ps := []Pair[string, int]{{"a", 1}, {"b", 2}}
	v, ok := Find(ps, "b")
	w, ok2 := Find(ps, "c")
	out += itoa(v) + btoa(ok) + itoa(w) + btoa(ok2) + " "
	out += Join([]Lab{{"x"}, {"y"}}) + " " + itoa(Max(3, 7)) + Max("a", "b") + itoa(int(Max(MyInt(9), 2))) + " "
	pi := Ptr(5)
	*pi++
	out += itoa(*pi) + *Ptr("s") + " "
	out += itoa(Apply(1, func(i int) int { return i + 1 }, func(i int) int { return i * 10 })) + " "
	out += itoa(Zero[int]()) + Zero[string]() + btoa(Zero[*int]() == nil) + btoa(Zero[any]() == nil) + itoa(len(Zero[[2]int]())) + " "
	out += itoa(Keys(map[string]bool{"a": true, "b": false})) + " "
	var li List[int]
	li.Add(1)
	li.Add(2)
	li.Add(3)
	tot := 0
	li.Each(func(i int) { tot = tot*10 + i })
	out += itoa(tot) + " "
	f := Sum[float64]
	out += ftoa(f(0.5, 0.5)) + " "
	var a any = Stack[int]{}
	_, isI := a.(Stack[int])
	_, isS := a.(Stack[string])
	out += btoa(isI) + btoa(isS)
	return out
}
`},
	{"embedded_iface", `package main

type Animal interface{ Sound() string }

type Dog struct{}

func (Dog) Sound() string { return "woof" }

type Loud struct {
	Animal
	n int
}

func (l Loud) Sound() string {
	s := ""
	for i := 0; i < l.n; i++ {
		s += l.Animal.Sound()
	}
	return s
}

type Quiet struct{ Animal }

type Base struct{ id int }

func (b *Base) ID() int   { return b.id }
func (b Base) Twice() int { return b.id * 2 }

type Mid struct{ *Base }
type Top struct {
	Mid
	name string
}

type IDer interface {
	ID() int
	Twice() int
}

func Main() string {
	out := ""
	var a Animal = Loud{Dog{}, 2}
	out += a.Sound() + " "
	a = Quiet{Dog{}}
	out += a.Sound() + " "
	a = &Quiet{Loud{Dog{}, 3}}
	out += a.Sound() + " "
	var q Quiet
	out += try(func() { q.Sound() }) + " "
	t := Top{Mid{&Base{21}}, "t"}
	var i IDer = t
	out += itoa(i.ID()) + itoa(i.Twice()) + " "
	i = &t
	t.Base.id = 5
	out += itoa(i.ID()) + itoa(i.Twice()) + " "
	f := t.Twice
	g := t.ID
	t.Base.id = 6
	out += itoa(f()) + itoa(g()) + " "
	var zt Top
	out += try(func() { zt.ID() }) + " " + try(func() { zt.Twice() }) + " "
	i = zt
	out += try(func() { i.Twice() }) + " "
	var pb *Base
	for _, tw := range []interface{ Twice() int }{pb, Base{2}} {
		out += try(func() { out += itoa(tw.Twice()) }) + ","
	}
	return out
}
`},
	{"comparisons", `package main

type S struct {
	a int
	b string
	c [2]bool
}

type WithIface struct {
	x any
	n int
}

type Blank struct {
	a int
	_ int
}

func Main() string {
	out := ""
	s1 := S{1, "x", [2]bool{true, false}}
	s2 := s1
	out += btoa(s1 == s2) + " "
	s2.c[1] = true
	out += btoa(s1 == s2) + btoa(s1 != s2) + " "
	var a, b any = 1, 1
	out += btoa(a == b) + " "
	b = int64(1)
	out += btoa(a == b) + " "
	b = "1"
	out += btoa(a == b) + btoa(a != b) + " "
	a, b = s1, S{1, "x", [2]bool{true, false}}
	out += btoa(a == b) + " "
	a, b = nil, nil
	out += btoa(a == b) + btoa(a == nil) + " "
	a = []int{1}
	out += btoa(a == nil) + btoa(a != nil) + " "
	b = []int{1}
	out += try(func() { _ = a == b }) + " "
	b = 1
	out += try(func() { _ = a == b }) + btoa(a == b) + " "
	a = map[int]int{}
	b = a
	out += try(func() { _ = a == b }) + " "
	a = func() {}
	out += try(func() { _ = a == a }) + " "
	w1, w2 := WithIface{[]int{1}, 1}, WithIface{[]int{1}, 1}
	out += try(func() { _ = w1 == w2 }) + " "
	w1.x, w2.x = 1, 2
	out += btoa(w1 == w2) + " "
	a, b = w1, w1
	out += btoa(a == b) + " "
	a, b = [1]any{[]int{}}, [1]any{[]int{}}
	out += try(func() { _ = a == b }) + " "
	x, y := 1, 1
	p, q, r := &x, &y, &x
	out += btoa(p == q) + btoa(p == r) + btoa(p != nil) + " "
	a, b = p, r
	out += btoa(a == b) + " "
	b = q
	out += btoa(a == b) + " "
	var e1, e2 error
	out += btoa(e1 == e2) + " "
	out += btoa(a == any(p)) + btoa(any(3) == any(3.0)) + btoa(any(uint8(3)) == any(byte(3))) + " "
	var i interface{ M() }
	out += btoa(i == nil) + btoa(any(i) == nil) + " "
	b1, b2 := Blank{a: 1}, Blank{a: 1}
	out += btoa(b1 == b2) + " "
	arr1, arr2 := [2]S{s1, s1}, [2]S{s1, s2}
	out += btoa(arr1 == arr2) + btoa(arr1 == [2]S{s1, s1}) + " "
	var f func()
	var m map[int]int
	var sl []int
	out += btoa(f == nil) + btoa(m == nil) + btoa(sl == nil) + btoa(nil == sl)
	return out
}
`},
}
