package irinterp

import (
	"os"
	"testing"

	"honnef.co/go/tools/go/ir"
)

// TestDump prints the IR of the functions of the file named by
// $IRDUMP_SRC (debugging aid).
func TestDump(t *testing.T) {
	path := os.Getenv("IRDUMP_SRC")
	if path == "" {
		t.Skip("IRDUMP_SRC not set")
	}
	src, err := os.ReadFile(path)
	if err != nil {
		t.Fatal(err)
	}
	mode := ir.InstantiateGenerics
	if os.Getenv("IRDUMP_NAIVE") != "" {
		mode |= ir.NaiveForm
	}
	pkg, err := buildIR(string(src), mode)
	if err != nil {
		t.Fatal(err)
	}
	var dump func(fn *ir.Function)
	dump = func(fn *ir.Function) {
		fn.WriteTo(os.Stdout)
		for _, a := range fn.AnonFuncs {
			dump(a)
		}
	}
	for _, fn := range pkg.Functions {
		if want := os.Getenv("IRDUMP_FUNC"); want == "" || fn.Name() == want {
			dump(fn)
		}
	}
}
