// Copyright 2013 The Go Authors. All rights reserved.
// Use of this source code is governed by a BSD-style
// license that can be found in the LICENSE file.

// Ported from golang.org/x/tools/go/ssa/interp/interp.go to
// honnef.co/go/tools/go/ir.

package irinterp

import (
	"errors"
	"fmt"
	"go/types"
	"runtime/debug"
	"slices"
	"strings"

	"honnef.co/go/tools/go/ir"
)

type continuation int

const (
	kNext continuation = iota
	kReturn
	kJump
)

// Kinds of interpreter-level errors; test with errors.Is.
var (
	// ErrUnsupported: the program uses a feature outside the
	// executable subset (channels, goroutines, select, unsafe,
	// external functions, uninstantiated generic code, ...).
	ErrUnsupported = errors.New("irinterp: unsupported")
	// ErrSteps: a resource budget of the Call (steps, call depth,
	// allocation size) was exhausted.
	ErrSteps = errors.New("irinterp: budget exhausted")
	// ErrUndefined: execution reached a state for which the IR has
	// no defined meaning: an Unreachable instruction, or a
	// ConstantSwitch without default branch none of whose
	// conditions matches.
	ErrUndefined = errors.New("irinterp: undefined behaviour of the IR")
	// ErrInternal: anything unexpected, including ill-typed IR
	// (e.g. an operand whose dynamic type contradicts the
	// instruction), misuse of the API, and host panics recovered
	// at the API boundary.
	ErrInternal = errors.New("irinterp: internal error")
)

// An Error is the concrete type of all errors returned by the interpreter.
type Error struct {
	Kind  error  // one of ErrUnsupported, ErrSteps, ErrUndefined, ErrInternal
	Msg   string // details
	Where string // the function and instruction being interpreted, if known
	Stack string // host stack (ErrInternal only)
}

func (e *Error) Error() string {
	s := e.Kind.Error() + ": " + e.Msg
	if e.Where != "" {
		s += " (at " + e.Where + ")"
	}
	return s
}

func (e *Error) Unwrap() error { return e.Kind }

// abort is the host panic payload for interpreter-level errors.  It
// unwinds all frames without running target defers and cannot be
// recovered by the target program.
type abort struct{ err *Error }

func unsupportedf(format string, args ...any) abort {
	return abort{&Error{Kind: ErrUnsupported, Msg: fmt.Sprintf(format, args...)}}
}

func budgetf(format string, args ...any) abort {
	return abort{&Error{Kind: ErrSteps, Msg: fmt.Sprintf(format, args...)}}
}

func undefinedf(format string, args ...any) abort {
	return abort{&Error{Kind: ErrUndefined, Msg: fmt.Sprintf(format, args...)}}
}

// toAbort converts an arbitrary recovered host panic value, which is
// not a target panic, to an abort.
func toAbort(p any) abort {
	if a, ok := p.(abort); ok {
		return a
	}
	return abort{&Error{Kind: ErrInternal, Msg: fmt.Sprint(p), Stack: string(debug.Stack())}}
}

// asTargetPanic reports whether the recovered host panic value p
// denotes a panic of the target program.
func asTargetPanic(p any) (targetPanic, bool) {
	switch p := p.(type) {
	case targetPanic:
		return p, true
	case uncomparable:
		what := "comparing uncomparable"
		if p.hashing {
			what = "hash of unhashable"
		}
		tn := "value"
		if p.t != nil {
			tn = typeName(p.t)
		} else {
			switch p.v.(type) {
			case []value:
				tn = "slice"
			case *hashmap:
				tn = "map"
			case *ir.Function, *closure, *ir.Builtin:
				tn = "func"
			}
		}
		return rtPanic(ClassOtherRuntime, fmt.Sprintf("runtime error: %s type %s", what, tn)), true
	}
	return targetPanic{}, false
}

// protect calls f and converts host panics to errors.
func protect(f func()) (err error) {
	defer func() {
		if p := recover(); p != nil {
			if tp, ok := asTargetPanic(p); ok {
				err = &Error{Kind: ErrInternal, Msg: "unexpected target panic: " + Format(tp.v)}
				return
			}
			err = toAbort(p).err
		}
	}()
	f()
	return nil
}

// Options configures an interpreter.
type Options struct {
	// MaxSteps is the number of instructions that a single Call
	// (or RunInit) may execute; 0 means 2e6.
	MaxSteps int64
	// MaxDepth is the maximum depth of the interpreted call stack;
	// 0 means 5000.  Exceeding it yields ErrSteps.
	MaxDepth int
	// MaxAlloc is the maximum number of elements of a single
	// array, slice, or string allocation; 0 means 1<<22.
	// Exceeding it yields ErrSteps.
	MaxAlloc int64
	// Trace, if non-nil, is called with the first argument of each
	// call to the function named TraceFuncName in the main
	// package, whose first parameter must be of integer type.
	// The function's body, if any, is executed as usual.
	Trace func(k int64)
}

// TraceFuncName is the name of the traced function; see Options.Trace.
const TraceFuncName = "tr"

// Interp is an interpreter for one ir.Program.  It is not safe for
// concurrent use.
type Interp struct {
	prog    *ir.Program
	mainPkg *ir.Package
	opts    Options
	globals map[*ir.Global]*value // addresses of global variables
	traceFn *ir.Function

	steps int64 // remaining budget of the current Call
	depth int
	cur   ir.Instruction // instruction being executed (for diagnostics)
}

// New creates an interpreter for prog. mainPkg is the package whose
// globals are initialised by running its init function once (call
// RunInit).
func New(prog *ir.Program, mainPkg *ir.Package, opts Options) *Interp {
	i := &Interp{
		prog:    prog,
		mainPkg: mainPkg,
		opts:    opts,
		globals: make(map[*ir.Global]*value),
	}
	if opts.Trace != nil && mainPkg != nil {
		i.traceFn = mainPkg.Func(TraceFuncName)
	}
	return i
}

func (i *Interp) maxAlloc() int64 {
	if i.opts.MaxAlloc > 0 {
		return i.opts.MaxAlloc
	}
	return 1 << 22
}

// chargeAlloc accounts for the allocation or copying of n elements.
func (i *Interp) chargeAlloc(n int64) {
	if n > i.maxAlloc() {
		panic(budgetf("allocation of %d elements exceeds the limit of %d", n, i.maxAlloc()))
	}
	if n >= 16 {
		i.steps -= n / 16
		if i.steps < 0 {
			panic(budgetf("step budget exhausted"))
		}
	}
}

func aggLen(v value) int64 {
	switch v := v.(type) {
	case structure:
		return int64(len(v))
	case array:
		return int64(len(v))
	}
	return 0
}

// RunInit runs the package initializer of the main package, which
// initializes its package-level variables and calls its init functions.
func (i *Interp) RunInit() error {
	if i.mainPkg == nil {
		return &Error{Kind: ErrInternal, Msg: "no main package"}
	}
	init := i.mainPkg.Func("init")
	if init == nil {
		return &Error{Kind: ErrInternal, Msg: "main package has no init function"}
	}
	_, p, err := i.Call(init, nil)
	if err != nil {
		return err
	}
	if p != nil {
		return &Error{Kind: ErrInternal, Msg: "package initialization panicked: " + p.String()}
	}
	return nil
}

// PanicInfo describes a panic of the target program that was not
// recovered by it.
type PanicInfo struct {
	// Class is one of "nil-deref", "index", "slice-bounds",
	// "divide", "type-assert", "other-runtime" (for run-time
	// errors, i.e. values that in a compiled program implement
	// runtime.Error), or "explicit" (any other value passed to
	// panic).  A recovered run-time error that is re-panicked
	// retains its class.
	Class string
	// Value is the panic value, an interface value (see Format).
	Value Value
	// Msg is the message of a run-time error (approximating the
	// text of the gc runtime, including the "runtime error: "
	// prefix where gc has one), or Format(Value) for explicit panics.
	Msg string
}

func (p *PanicInfo) String() string { return p.Class + ": " + p.Msg }

func panicInfo(tp targetPanic) *PanicInfo {
	if tp.v.t == rtErrType {
		e := tp.v.v.(rtError)
		return &PanicInfo{Class: e.class, Value: tp.v, Msg: e.msg}
	}
	return &PanicInfo{Class: ClassExplicit, Value: tp.v, Msg: Format(tp.v)}
}

// Call calls fn with the given arguments (for methods, the receiver
// comes first) and returns its results.
//
// If the target program panics and does not recover, panicked is
// non-nil (and results is nil).
//
// err != nil only for interpreter-level problems: it is an *Error
// whose Kind is ErrUnsupported, ErrSteps, ErrUndefined or ErrInternal.
func (i *Interp) Call(fn *ir.Function, args []Value) (results []Value, panicked *PanicInfo, err error) {
	defer func() {
		if p := recover(); p != nil {
			results = nil
			if tp, ok := asTargetPanic(p); ok {
				panicked = panicInfo(tp)
				return
			}
			e := toAbort(p).err
			if e.Where == "" && i.cur != nil {
				e.Where = i.where()
			}
			err = e
		}
	}()
	i.steps = i.opts.MaxSteps
	if i.steps <= 0 {
		i.steps = 2e6
	}
	i.depth = 0
	i.cur = nil
	if fn == nil {
		panic("Call of nil *ir.Function")
	}
	res := i.callSSA(nil, fn, slices.Clone(args), nil)
	switch n := fn.Signature.Results().Len(); n {
	case 0:
	case 1:
		results = []Value{res}
	default:
		results = []Value(res.(tuple))
	}
	return results, nil, nil
}

func (i *Interp) where() (s string) {
	defer func() {
		if recover() != nil {
			s = "?"
		}
	}()
	instr := i.cur
	if instr == nil {
		return ""
	}
	name := "?"
	if fn := instr.Parent(); fn != nil {
		name = fn.String()
	}
	text := instr.String()
	if v, ok := instr.(ir.Value); ok {
		text = v.Name() + " = " + text
	}
	return fmt.Sprintf("%s: %s", name, text)
}

func (i *Interp) global(g *ir.Global) *value {
	if r, ok := i.globals[g]; ok {
		return r
	}
	cell := i.zero(deref(g.Type()))
	i.globals[g] = &cell
	return &cell
}

// Global returns (a copy of) the current value of the package-level
// variable of the main package with the given name, or nil if there
// is no such variable.
func (i *Interp) Global(name string) Value {
	var res Value
	protect(func() {
		if g := i.mainPkg.Var(name); g != nil {
			res = load(i.global(g))
		}
	})
	return res
}

// SetGlobal sets the package-level variable of the main package
// with the given name to (a copy of) v.
func (i *Interp) SetGlobal(name string, v Value) error {
	g := i.mainPkg.Var(name)
	if g == nil {
		return &Error{Kind: ErrInternal, Msg: "no package-level variable " + name}
	}
	return protect(func() { store(i.global(g), v) })
}

func deref(t types.Type) types.Type {
	if p, ok := t.Underlying().(*types.Pointer); ok {
		return p.Elem()
	}
	panic(fmt.Sprintf("deref: %s is not a pointer type", t))
}

type deferred struct {
	fn     value
	args   []value
	instr  *ir.Defer
	direct bool // the deferred function is a builtin
	tail   *deferred
}

type frame struct {
	i                *Interp
	caller           *frame
	fn               *ir.Function
	block, prevBlock *ir.BasicBlock
	env              map[ir.Value]value // dynamic values of IR variables
	defers           *deferred
	result           value
	panicking        bool
	panic            targetPanic
	phitemps         []value // temporaries for parallel phi assignment
}

func (fr *frame) get(key ir.Value) value {
	switch key := key.(type) {
	case nil:
		// Hack; simplifies handling of optional attributes
		// such as ir.Slice.{Low,High}.
		return nil
	case *ir.Function:
		return key
	case *ir.Builtin:
		return key
	case *ir.Const:
		return fr.i.constValue(key)
	case *ir.AggregateConst:
		vals := make([]value, len(key.Values))
		for j, v := range key.Values {
			vals[j] = fr.get(v)
		}
		return aggregate(key.Type(), vals)
	case *ir.Global:
		return fr.i.global(key)
	}
	if r, ok := fr.env[key]; ok {
		return r
	}
	panic(fmt.Sprintf("get: no value for %T: %v", key, key.Name()))
}

// aggregate returns the struct or array value of type t with the given components.
func aggregate(t types.Type, vals []value) value {
	switch t.Underlying().(type) {
	case *types.Struct:
		return structure(vals)
	case *types.Array:
		return array(vals)
	}
	panic(fmt.Sprintf("composite value of type %s", t))
}

// runDefer runs a deferred call d.
// It always returns normally, but may set or clear fr.panic.
func (fr *frame) runDefer(d *deferred) {
	var ok bool
	defer func() {
		if !ok {
			// Deferred call created a new state of panic.
			p := recover()
			tp, is := asTargetPanic(p)
			if !is {
				panic(toAbort(p))
			}
			fr.panicking = true
			fr.panic = tp
		}
	}()
	fr.i.call(fr, d.fn, d.args, d.direct)
	ok = true
}

// runDefers executes fr's deferred function calls in LIFO order.
//
// On entry, fr.panicking indicates a state of panic; if
// true, fr.panic contains the panic value.
//
// On completion, if a deferred call started a panic, or if no
// deferred call recovered from a previous state of panic, then
// runDefers itself panics after the last deferred call has run.
//
// If there was no initial state of panic, or it was recovered from,
// runDefers returns normally.
func (fr *frame) runDefers() {
	for fr.defers != nil {
		d := fr.defers
		fr.defers = d.tail
		fr.runDefer(d)
	}
	if fr.panicking {
		panic(fr.panic) // new panic, or still panicking
	}
}

// rtErrMethod is the function value of a method of the run-time error type.
type rtErrMethod struct{ name string }

// lookupMethod returns the implementation of method meth for the
// dynamic type typ.
func (i *Interp) lookupMethod(typ types.Type, meth *types.Func) value {
	if typ == rtErrType {
		return rtErrMethod{meth.Name()}
	}
	f := i.prog.LookupMethod(typ, meth.Pkg(), meth.Name())
	if f == nil {
		// Unreachable in well-typed programs.
		panic(fmt.Sprintf("method set for dynamic type %v does not contain %s", typ, meth))
	}
	return f
}

// visitInstr interprets a single ir.Instruction within the activation
// record frame.  It returns a continuation value indicating where to
// read the next instruction from.
func (i *Interp) visitInstr(fr *frame, instr ir.Instruction) continuation {
	switch instr := instr.(type) {
	case *ir.DebugRef, *ir.BlankStore:
		// no-op

	case *ir.UnOp:
		fr.env[instr] = unop(instr, fr.get(instr.X))

	case *ir.BinOp:
		fr.env[instr] = i.binop(instr.Op, instr.X.Type(), fr.get(instr.X), fr.get(instr.Y))

	case *ir.Load:
		addr := fr.get(instr.X).(*value)
		if addr == nil {
			panic(nilDeref())
		}
		if n := aggLen(*addr); n >= 16 {
			i.chargeAlloc(n)
		}
		fr.env[instr] = load(addr)

	case *ir.Store:
		addr := fr.get(instr.Addr).(*value)
		val := fr.get(instr.Val)
		if addr == nil {
			panic(nilDeref())
		}
		if n := aggLen(val); n >= 16 {
			i.chargeAlloc(n)
		}
		store(addr, val)

	case *ir.Call:
		fn, args := i.prepareCall(fr, &instr.Call)
		res := i.call(fr, fn, args, false)
		i.cur = instr
		fr.env[instr] = res

	case *ir.ChangeInterface:
		fr.env[instr] = fr.get(instr.X)

	case *ir.ChangeType:
		fr.env[instr] = fr.get(instr.X) // (can't fail)

	case *ir.Convert:
		fr.env[instr] = i.conv(instr.Type(), instr.X.Type(), fr.get(instr.X))

	case *ir.MultiConvert:
		panic(unsupportedf("MultiConvert (uninstantiated generic code)"))

	case *ir.SliceToArrayPointer:
		fr.env[instr] = i.sliceToArrayPointer(instr.Type(), instr.X.Type(), fr.get(instr.X))

	case *ir.SliceToArray:
		fr.env[instr] = i.sliceToArray(instr.Type(), instr.X.Type(), fr.get(instr.X))

	case *ir.MakeInterface:
		t := instr.X.Type()
		if b, ok := t.(*types.Basic); ok && b.Info()&types.IsUntyped != 0 {
			t = types.Default(t)
		}
		if _, ok := t.Underlying().(*types.TypeParam); ok {
			panic(unsupportedf("MakeInterface of type parameter %s (uninstantiated generic code)", t))
		}
		fr.env[instr] = iface{t: t, v: fr.get(instr.X)}

	case *ir.Extract:
		fr.env[instr] = fr.get(instr.Tuple).(tuple)[instr.Index]

	case *ir.Slice:
		fr.env[instr] = i.sliceOp(instr, fr.get(instr.X), fr.get(instr.Low), fr.get(instr.High), fr.get(instr.Max))

	case *ir.Return:
		switch len(instr.Results) {
		case 0:
		case 1:
			fr.result = fr.get(instr.Results[0])
		default:
			var res []value
			for _, r := range instr.Results {
				res = append(res, fr.get(r))
			}
			fr.result = tuple(res)
		}
		fr.block = nil
		return kReturn

	case *ir.RunDefers:
		fr.runDefers()

	case *ir.Panic:
		panic(mkPanic(fr.get(instr.X)))

	case *ir.Unreachable:
		panic(undefinedf("reached an Unreachable instruction"))

	case *ir.Send, *ir.Recv, *ir.Select, *ir.MakeChan:
		panic(unsupportedf("channel operation %T", instr))

	case *ir.Go:
		panic(unsupportedf("go statement"))

	case *ir.If:
		succ := 1
		if fr.get(instr.Cond).(bool) {
			succ = 0
		}
		fr.prevBlock, fr.block = fr.block, fr.block.Succs[succ]
		return kJump

	case *ir.Jump:
		fr.prevBlock, fr.block = fr.block, fr.block.Succs[0]
		return kJump

	case *ir.ConstantSwitch:
		tag := fr.get(instr.Tag)
		succ, dflt := -1, -1
		for j, c := range instr.Conds {
			if c == nil {
				if dflt < 0 {
					dflt = j
				}
				continue
			}
			cv := fr.get(c)
			if _, ok := tag.(iface); ok {
				if _, ok := cv.(iface); !ok {
					cv = iface{t: types.Default(c.Type()), v: cv}
				}
			} else {
				cv = convertLike(cv, tag)
			}
			if equals(instr.Tag.Type(), tag, cv) {
				succ = j
				break
			}
		}
		if succ < 0 {
			succ = dflt
		}
		if succ < 0 {
			panic(undefinedf("ConstantSwitch: tag %s matches no condition and there is no default branch", Format(tag)))
		}
		if succ >= len(fr.block.Succs) {
			panic(fmt.Sprintf("ConstantSwitch: branch %d of %d successors", succ, len(fr.block.Succs)))
		}
		fr.prevBlock, fr.block = fr.block, fr.block.Succs[succ]
		return kJump

	case *ir.Defer:
		fn, args := i.prepareCall(fr, &instr.Call)
		defers := &fr.defers
		if instr.DeferStack != nil {
			switch into := fr.get(instr.DeferStack).(type) {
			case **deferred:
				if into != nil {
					defers = into
				}
			case *value:
				if into != nil {
					panic(fmt.Sprintf("Defer.DeferStack is a %T", into))
				}
			default:
				panic(fmt.Sprintf("Defer.DeferStack is a %T", into))
			}
		}
		_, direct := fn.(*ir.Builtin)
		*defers = &deferred{
			fn:     fn,
			args:   args,
			instr:  instr,
			direct: direct,
			tail:   *defers,
		}

	case *ir.Alloc:
		var addr *value
		if instr.Heap {
			// new
			addr = new(value)
			fr.env[instr] = addr
		} else if a, ok := fr.env[instr].(*value); ok {
			// local (re-executed)
			addr = a
		} else {
			// local
			addr = new(value)
			fr.env[instr] = addr
		}
		*addr = i.zero(deref(instr.Type()))

	case *ir.MakeSlice:
		n, c := asIndex(fr.get(instr.Len)), asIndex(fr.get(instr.Cap))
		if n < 0 {
			panic(rtPanic(ClassOtherRuntime, "runtime error: makeslice: len out of range"))
		}
		if c < n {
			panic(rtPanic(ClassOtherRuntime, "runtime error: makeslice: cap out of range"))
		}
		i.chargeAlloc(c)
		slice := make([]value, c)
		tElt := instr.Type().Underlying().(*types.Slice).Elem()
		for j := range slice {
			slice[j] = i.zero(tElt)
		}
		fr.env[instr] = slice[:n]

	case *ir.MakeMap:
		if instr.Reserve != nil {
			fr.get(instr.Reserve) // a negative hint is not an error
		}
		fr.env[instr] = makeMap(instr.Type().Underlying().(*types.Map).Key())

	case *ir.Range:
		switch x := fr.get(instr.X).(type) {
		case *hashmap:
			fr.env[instr] = &mapIter{m: x}
		case string:
			fr.env[instr] = &stringIter{s: x}
		default:
			panic(fmt.Sprintf("cannot range over %T", x))
		}

	case *ir.Next:
		fr.env[instr] = fr.get(instr.Iter).(iter).next()

	case *ir.FieldAddr:
		x := fr.get(instr.X).(*value)
		if x == nil {
			panic(nilDeref())
		}
		fr.env[instr] = &(*x).(structure)[instr.Field]

	case *ir.Field:
		fr.env[instr] = fr.get(instr.X).(structure)[instr.Field]

	case *ir.IndexAddr:
		x := fr.get(instr.X)
		idx := asIndex(fr.get(instr.Index))
		switch x := x.(type) {
		case []value:
			checkIndex(idx, len(x))
			fr.env[instr] = &x[idx]
		case *value: // *array
			if x == nil {
				if at, ok := deref(instr.X.Type()).Underlying().(*types.Array); ok {
					checkIndex(idx, int(at.Len()))
				}
				panic(nilDeref())
			}
			a := (*x).(array)
			checkIndex(idx, len(a))
			fr.env[instr] = &a[idx]
		default:
			panic(fmt.Sprintf("unexpected x type in IndexAddr: %T", x))
		}

	case *ir.Index:
		x := fr.get(instr.X)
		idx := asIndex(fr.get(instr.Index))
		switch x := x.(type) {
		case array:
			checkIndex(idx, len(x))
			fr.env[instr] = x[idx]
		case string:
			checkIndex(idx, len(x))
			fr.env[instr] = x[idx]
		default:
			panic(fmt.Sprintf("unexpected x type in Index: %T", x))
		}

	case *ir.StringLookup:
		x := fr.get(instr.X).(string)
		idx := asIndex(fr.get(instr.Index))
		checkIndex(idx, len(x))
		fr.env[instr] = x[idx]

	case *ir.MapLookup:
		fr.env[instr] = i.lookup(instr, fr.get(instr.X), fr.get(instr.Index))

	case *ir.MapUpdate:
		m := fr.get(instr.Map).(*hashmap)
		key := fr.get(instr.Key)
		v := fr.get(instr.Value)
		if m == nil {
			panic(rtPanic(ClassOtherRuntime, "assignment to entry in nil map"))
		}
		m.insert(key, v)

	case *ir.TypeAssert:
		fr.env[instr] = i.typeAssert(instr, fr.get(instr.X))

	case *ir.TypeSwitch:
		fr.env[instr] = i.typeSwitch(instr, fr.get(instr.Tag))

	case *ir.MakeClosure:
		var bindings []value
		for _, binding := range instr.Bindings {
			bindings = append(bindings, fr.get(binding))
		}
		fr.env[instr] = &closure{instr.Fn.(*ir.Function), bindings}

	case *ir.CompositeValue:
		vals := make([]value, len(instr.Values))
		for j, v := range instr.Values {
			vals[j] = fr.get(v)
		}
		fr.env[instr] = aggregate(instr.Type(), vals)

	case *ir.Phi:
		panic("phi not at block entry") // phis are processed at block entry

	default:
		panic(unsupportedf("unexpected instruction: %T", instr))
	}

	return kNext
}

func checkIndex(idx int64, length int) {
	if idx < 0 {
		panic(rtPanic(ClassIndex, fmt.Sprintf("runtime error: index out of range [%d]", idx)))
	}
	if idx >= int64(length) {
		panic(rtPanic(ClassIndex, fmt.Sprintf("runtime error: index out of range [%d] with length %d", idx, length)))
	}
}

// prepareCall determines the function value and argument values for a
// function call in a Call, Go or Defer instruction, performing
// interface method lookup if needed.
func (i *Interp) prepareCall(fr *frame, call *ir.CallCommon) (fn value, args []value) {
	v := fr.get(call.Value)
	if call.Method == nil {
		// Function call.
		fn = v
	} else {
		// Interface method invocation.
		recv, ok := v.(iface)
		if !ok {
			panic(unsupportedf("method invocation on a non-interface %T (type parameter?)", v))
		}
		if recv.t == nil {
			panic(nilDeref()) // method invoked on nil interface
		}
		fn = i.lookupMethod(recv.t, call.Method)
		args = append(args, recv.v)
	}
	for _, arg := range call.Args {
		args = append(args, fr.get(arg))
	}
	return
}

// call interprets a call to a function (function, builtin or closure)
// fn with arguments args, returning its result.
func (i *Interp) call(caller *frame, fn value, args []value, direct bool) value {
	switch fn := fn.(type) {
	case *ir.Function:
		if fn == nil {
			panic(nilDeref()) // call of nil func value
		}
		return i.callSSA(caller, fn, args, nil)
	case *closure:
		return i.callSSA(caller, fn.Fn, args, fn.Env)
	case *ir.Builtin:
		return i.callBuiltin(caller, fn, args, direct)
	case rtErrMethod:
		e := args[0].(rtError)
		switch fn.name {
		case "Error":
			return e.msg
		case "RuntimeError":
			return nil
		}
	}
	panic(fmt.Sprintf("cannot call %T", fn))
}

func isWrapper(fn *ir.Function) bool {
	s := fn.Synthetic
	return strings.HasPrefix(s, "wrapper for ") ||
		strings.HasPrefix(s, "thunk for ") ||
		strings.HasPrefix(s, "bound method wrapper for ")
}

// callSSA interprets a call to function fn with arguments args,
// and lexical environment env, returning its result.
func (i *Interp) callSSA(caller *frame, fn *ir.Function, args []value, env []value) value {
	if i.traceFn != nil && fn == i.traceFn && len(args) > 0 {
		i.opts.Trace(asInt64(args[0]))
	}
	if fn.Blocks == nil {
		panic(unsupportedf("call of external function %s (no body)", fn))
	}

	// generic function body?
	if fn.TypeParams().Len() > 0 && len(fn.TypeArgs()) == 0 {
		panic(unsupportedf("call of uninstantiated generic function %s (build with ir.InstantiateGenerics)", fn))
	}
	for _, targ := range fn.TypeArgs() {
		if _, ok := types.Unalias(targ).(*types.TypeParam); ok {
			panic(unsupportedf("call of partially instantiated generic function %s", fn))
		}
	}
	if len(args) != len(fn.Params) {
		panic(fmt.Sprintf("call of %s with %d arguments, want %d", fn, len(args), len(fn.Params)))
	}
	if len(env) != len(fn.FreeVars) {
		panic(fmt.Sprintf("call of %s with %d bindings, want %d", fn, len(env), len(fn.FreeVars)))
	}

	maxDepth := i.opts.MaxDepth
	if maxDepth <= 0 {
		maxDepth = 5000
	}
	if i.depth >= maxDepth {
		panic(budgetf("call depth exceeds %d", maxDepth))
	}
	i.depth++
	defer func() { i.depth-- }()

	fr := &frame{
		i:      i,
		caller: caller, // for panic/recover
		fn:     fn,
	}
	fr.env = make(map[ir.Value]value)
	fr.block = fn.Blocks[0]
	for j, p := range fn.Params {
		fr.env[p] = args[j]
	}
	for j, fv := range fn.FreeVars {
		fr.env[fv] = env[j]
	}
	for fr.block != nil {
		i.runFrame(fr)
	}
	return fr.result
}

// runFrame executes IR instructions starting at fr.block and
// continuing until a return, a panic, or a recovered panic.
//
// After a panic, runFrame panics.
//
// After a normal return, fr.result contains the result of the call
// and fr.block is nil.
//
// A recovered panic in a function without a Recover block becomes a
// normal return of the zero value of the function's result type.
//
// After a recovered panic in a function with a Recover block,
// fr.result is undefined and fr.block contains the block at which to
// resume control.
func (i *Interp) runFrame(fr *frame) {
	defer func() {
		if fr.block == nil {
			return // normal return
		}
		p := recover()
		tp, ok := asTargetPanic(p)
		if !ok {
			// Interpreter-level error: unwind everything.
			a := toAbort(p)
			if a.err.Where == "" {
				a.err.Where = i.where()
			}
			panic(a)
		}
		fr.panicking = true
		fr.panic = tp
		fr.runDefers()
		// Recovered.
		fr.block = fr.fn.Recover
		if fr.block == nil {
			fr.result = i.zero(fr.fn.Signature.Results())
		}
	}()

	for {
		nonPhis := i.executePhis(fr)
		for _, instr := range nonPhis {
			i.steps--
			if i.steps < 0 {
				panic(budgetf("step budget exhausted"))
			}
			i.cur = instr
			if i.visitInstr(fr, instr) == kReturn {
				return
			}
			// Inv: kNext (continue) or kJump (last instr)
		}
	}
}

// executePhis executes the phi-nodes at the start of the current
// block and returns the non-phi instructions.
func (i *Interp) executePhis(fr *frame) []ir.Instruction {
	firstNonPhi := -1
	for j, instr := range fr.block.Instrs {
		if _, ok := instr.(*ir.Phi); !ok {
			firstNonPhi = j
			break
		}
	}
	if firstNonPhi < 0 {
		panic(fmt.Sprintf("block %s of %s has no non-phi instruction", fr.block, fr.fn))
	}

	nonPhis := fr.block.Instrs[firstNonPhi:]
	if firstNonPhi > 0 {
		phis := fr.block.Instrs[:firstNonPhi]
		// Execute parallel assignment of phis.
		//
		// See "the swap problem" in Briggs et al's "Practical Improvements
		// to the Construction and Destruction of SSA Form" for discussion.
		predIndex := slices.Index(fr.block.Preds, fr.prevBlock)
		if predIndex < 0 {
			panic(fmt.Sprintf("block %s of %s entered from %v, which is not a predecessor", fr.block, fr.fn, fr.prevBlock))
		}
		fr.phitemps = fr.phitemps[:0]
		for _, phi := range phis {
			phi := phi.(*ir.Phi)
			i.cur = phi
			i.steps--
			fr.phitemps = append(fr.phitemps, fr.get(phi.Edges[predIndex]))
		}
		for j, phi := range phis {
			fr.env[phi.(*ir.Phi)] = fr.phitemps[j]
		}
	}
	return nonPhis
}

// doRecover implements the recover() built-in.
func (i *Interp) doRecover(caller *frame, direct bool) value {
	// recover() must be exactly one level beneath the deferred
	// function (two levels beneath the panicking function) to
	// have any effect.  Thus we ignore both "defer recover()" and
	// "defer f() -> g() -> recover()".
	//
	// Synthetic wrappers (bound method closures, thunks, promotion
	// and indirection wrappers) between the panicking function and
	// the function that calls recover are transparent, as they are
	// in compiled code.
	if direct || caller == nil || caller.panicking {
		return iface{}
	}
	p := caller.caller
	for p != nil && isWrapper(p.fn) && !p.panicking {
		p = p.caller
	}
	if p != nil && p.panicking {
		p.panicking = false
		v := p.panic.v
		p.panic = targetPanic{}
		return v
	}
	return iface{}
}
