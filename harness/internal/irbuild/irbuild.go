// Package irbuild type-checks generated source in-process and builds go/ir
// for it, without go/packages or subprocesses.
package irbuild

import (
	"fmt"
	"go/ast"
	"go/parser"
	"go/token"
	"go/types"
	"sort"

	"honnef.co/go/tools/go/ir"
)

// Pkg is one source package: import path and files (name -> source).
type Pkg struct {
	Path  string
	Files map[string]string
}

type Built struct {
	Fset  *token.FileSet
	Prog  *ir.Program
	Pkgs  map[string]*ir.Package
	Types map[string]*types.Package
	Infos map[string]*types.Info
	Files map[string][]*ast.File
}

type mapImporter map[string]*types.Package

func (m mapImporter) Import(path string) (*types.Package, error) {
	if p, ok := m[path]; ok {
		return p, nil
	}
	return nil, fmt.Errorf("package %q not found", path)
}

func NewInfo() *types.Info {
	return &types.Info{
		Types:        map[ast.Expr]types.TypeAndValue{},
		Defs:         map[*ast.Ident]types.Object{},
		Uses:         map[*ast.Ident]types.Object{},
		Implicits:    map[ast.Node]types.Object{},
		Scopes:       map[ast.Node]*types.Scope{},
		Selections:   map[*ast.SelectorExpr]*types.Selection{},
		Instances:    map[*ast.Ident]types.Instance{},
		FileVersions: map[*ast.File]string{},
	}
}

// Check parses and type-checks pkgs (given in dependency order) without building IR.
func Check(pkgs []Pkg, goVersion string) (*Built, error) {
	b := &Built{Fset: token.NewFileSet(), Pkgs: map[string]*ir.Package{}, Types: map[string]*types.Package{}, Infos: map[string]*types.Info{}, Files: map[string][]*ast.File{}}
	imp := mapImporter{}
	for _, p := range pkgs {
		names := make([]string, 0, len(p.Files))
		for n := range p.Files {
			names = append(names, n)
		}
		sort.Strings(names)
		var files []*ast.File
		for _, n := range names {
			f, err := parser.ParseFile(b.Fset, n, p.Files[n], parser.ParseComments|parser.SkipObjectResolution)
			if err != nil {
				return nil, fmt.Errorf("parse %s: %w", n, err)
			}
			files = append(files, f)
		}
		info := NewInfo()
		conf := types.Config{Importer: imp, GoVersion: goVersion}
		tp, err := conf.Check(p.Path, b.Fset, files, info)
		if err != nil {
			return nil, fmt.Errorf("typecheck %s: %w", p.Path, err)
		}
		imp[p.Path] = tp
		b.Types[p.Path], b.Infos[p.Path], b.Files[p.Path] = tp, info, files
	}
	return b, nil
}

// Build type-checks pkgs (dependency order) and builds IR for all of them.
func Build(pkgs []Pkg, goVersion string, mode ir.BuilderMode) (*Built, error) {
	b, err := Check(pkgs, goVersion)
	if err != nil {
		return nil, err
	}
	b.Prog = ir.NewProgram(b.Fset, mode)
	for _, p := range pkgs {
		b.Pkgs[p.Path] = b.Prog.CreatePackage(b.Types[p.Path], b.Files[p.Path], b.Infos[p.Path], true)
	}
	b.Prog.Build()
	return b, nil
}

// BuildOne is Build for a single import-free package "p" with one file.
func BuildOne(src, goVersion string, mode ir.BuilderMode) (*Built, *ir.Package, error) {
	b, err := Build([]Pkg{{Path: "p", Files: map[string]string{"p.go": src}}}, goVersion, mode)
	if err != nil {
		return nil, nil, err
	}
	return b, b.Pkgs["p"], nil
}

// Functions returns all functions of pkg that have bodies: package-level
// functions, methods of package-level types, and anonymous functions, in a
// deterministic order.
func Functions(pkg *ir.Package) []*ir.Function {
	var out []*ir.Function
	seen := map[*ir.Function]bool{}
	var add func(fn *ir.Function)
	add = func(fn *ir.Function) {
		if fn == nil || seen[fn] {
			return
		}
		seen[fn] = true
		if len(fn.Blocks) > 0 {
			out = append(out, fn)
		}
		for _, a := range fn.AnonFuncs {
			add(a)
		}
	}
	names := make([]string, 0, len(pkg.Members))
	for n := range pkg.Members {
		names = append(names, n)
	}
	sort.Strings(names)
	for _, n := range names {
		switch m := pkg.Members[n].(type) {
		case *ir.Function:
			add(m)
		case *ir.Type:
			for _, T := range []types.Type{m.Type(), types.NewPointer(m.Type())} {
				if _, ok := m.Type().(*types.Named); !ok {
					continue
				}
				if nt, ok := T.(*types.Named); ok && nt.TypeParams().Len() > 0 {
					continue
				}
				ms := pkg.Prog.MethodSets.MethodSet(T)
				for i := 0; i < ms.Len(); i++ {
					add(pkg.Prog.MethodValue(ms.At(i)))
				}
			}
		}
	}
	return out
}
