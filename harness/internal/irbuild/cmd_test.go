package irbuild

import (
	"os"
	"testing"

	"honnef.co/go/tools/go/ir"
)

// TestDump builds IRBUILD_FILE with sanity checking and prints the functions (debug aid).
func TestDump(t *testing.T) {
	f := os.Getenv("IRBUILD_FILE")
	if f == "" {
		t.Skip()
	}
	src, _ := os.ReadFile(f)
	mode := ir.BuildSerially
	if os.Getenv("IRBUILD_SANITY") != "" {
		mode |= ir.SanityCheckFunctions
	}
	if os.Getenv("IRBUILD_NAIVE") != "" {
		mode |= ir.NaiveForm
	}
	_, pkg, err := BuildOne(string(src), "go1.26", mode)
	if err != nil {
		t.Fatal(err)
	}
	for _, fn := range Functions(pkg) {
		fn.WriteTo(os.Stdout)
	}
}
