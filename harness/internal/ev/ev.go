// Package ev is the shared bookkeeping of every check: it counts generated
// cases, classifies them, keeps samples, turns failures into replay files and
// writes one shard file per test process that the ./check driver merges into
// /verif/evidence/<id>.json.
//
// Environment (set by ./check):
//
//	VERIF_PROP     property id (C01 ...)
//	VERIF_TIER     quick | thorough
//	VERIF_SEED     integer; the only source of randomness (rapid seed is derived from it)
//	VERIF_SHARD    shard index, VERIF_NSHARDS number of shards
//	VERIF_OUT      directory for shard files and replay files
//	VERIF_BIN      directory with freshly built binaries (staticcheck, ...)
//	VERIF_REPLAY   file to replay (TestReplay only)
//	VERIF_DEADLINE unix seconds after which properties return early (soft budget)
package ev

import (
	"encoding/json"
	"flag"
	"fmt"
	"hash/fnv"
	"os"
	"path/filepath"
	"sort"
	"strconv"
	"strings"
	"sync"
	"testing"
	"time"

	"pgregory.net/rapid"
)

type Violation struct {
	Msg    string `json:"msg"`
	Replay string `json:"replay"`
	Test   string `json:"test"`
}

type Known struct {
	Sig   string `json:"sig"`
	What  string `json:"what"`
	Count int    `json:"count"`
}

type shard struct {
	Property    string           `json:"property"`
	Tier        string           `json:"tier"`
	Seed        int64            `json:"seed"`
	Shard       int              `json:"shard"`
	Evaluations int              `json:"evaluations"`
	Hashes      []string         `json:"hashes"`
	Classes     map[string]int   `json:"classes"`
	Samples     []any            `json:"samples"`
	Violations  []Violation      `json:"violations"`
	Known       map[string]Known `json:"known"`
	Assumptions []string         `json:"assumptions"`
	Rule        string           `json:"rule"`
	Extra       map[string]any   `json:"extra"`
	Infra       []string         `json:"infra"`
	WallS       float64          `json:"wall_s"`
	Exhaustive  bool             `json:"exhaustive"`
	AfterDeadln int              `json:"after_deadline"`
}

var (
	mu       sync.Mutex
	st       shard
	hashes   = map[string]struct{}{}
	start    = time.Now()
	deadline time.Time
	maxSamp  = 6
)

func env(k, def string) string {
	if v := os.Getenv(k); v != "" {
		return v
	}
	return def
}

func Prop() string { return env("VERIF_PROP", "C00") }
func Tier() string { return env("VERIF_TIER", "quick") }
func Thorough() bool { return Tier() == "thorough" }
func OutDir() string { return env("VERIF_OUT", os.TempDir()) }
func BinDir() string { return env("VERIF_BIN", "/verif/.build") }
func Shard() int     { n, _ := strconv.Atoi(env("VERIF_SHARD", "0")); return n }
func NShards() int {
	n, _ := strconv.Atoi(env("VERIF_NSHARDS", "1"))
	if n < 1 {
		n = 1
	}
	return n
}
func Seed() int64 {
	n, _ := strconv.ParseInt(env("VERIF_SEED", "1"), 10, 64)
	if n == 0 {
		n = 1
	}
	return n
}
func ReplayFile() string { return os.Getenv("VERIF_REPLAY") }

// EnvInt reads an integer knob with a per-tier default.
func EnvInt(name string, quick, thorough int) int {
	if v := os.Getenv(name); v != "" {
		if n, err := strconv.Atoi(v); err == nil {
			return n
		}
	}
	if Thorough() {
		return thorough
	}
	return quick
}

// Main is called from TestMain.
func Main(m *testing.M) {
	flag.Parse()
	st.Property, st.Tier, st.Seed, st.Shard = Prop(), Tier(), Seed(), Shard()
	st.Classes = map[string]int{}
	st.Known = map[string]Known{}
	st.Extra = map[string]any{}
	if d := os.Getenv("VERIF_DEADLINE"); d != "" {
		if n, err := strconv.ParseInt(d, 10, 64); err == nil {
			deadline = time.Unix(n, 0)
		}
	}
	code := m.Run()
	Flush()
	mu.Lock()
	nv, ninfra := len(st.Violations), len(st.Infra)
	mu.Unlock()
	switch {
	case nv > 0:
		os.Exit(1)
	case ninfra > 0 || code != 0:
		// a failing test without a recorded violation is an infrastructure problem
		os.Exit(2)
	}
	os.Exit(0)
}

// PastDeadline reports whether the soft time budget is exhausted; properties
// return early (counted) when it is.
func PastDeadline() bool {
	if deadline.IsZero() {
		return false
	}
	if time.Now().After(deadline) {
		mu.Lock()
		st.AfterDeadln++
		mu.Unlock()
		return true
	}
	return false
}

func Hash(parts ...string) string {
	h := fnv.New64a()
	for _, p := range parts {
		h.Write([]byte(p))
		h.Write([]byte{0})
	}
	return strconv.FormatUint(h.Sum64(), 16)
}

// Case records one evaluated case. hash identifies the case canonically.
func Case(hash string, nontrivial bool, classes ...string) {
	mu.Lock()
	defer mu.Unlock()
	st.Evaluations++
	if nontrivial {
		hashes[hash] = struct{}{}
		st.Classes["nontrivial"]++
	}
	for _, c := range classes {
		st.Classes[c]++
	}
}

func Count(class string, n int) {
	mu.Lock()
	st.Classes[class] += n
	mu.Unlock()
}

func Class(class string) int {
	mu.Lock()
	defer mu.Unlock()
	return st.Classes[class]
}

// Sample keeps the first few samples (callers pass non-trivial cases).
func Sample(v any) {
	mu.Lock()
	if len(st.Samples) < maxSamp {
		st.Samples = append(st.Samples, v)
	}
	mu.Unlock()
}

func WantSample() bool {
	mu.Lock()
	defer mu.Unlock()
	return len(st.Samples) < maxSamp
}

func Rule(s string) { mu.Lock(); st.Rule = s; mu.Unlock() }
func Assume(s string) {
	mu.Lock()
	for _, a := range st.Assumptions {
		if a == s {
			mu.Unlock()
			return
		}
	}
	st.Assumptions = append(st.Assumptions, s)
	mu.Unlock()
}
func Extra(k string, v any) { mu.Lock(); st.Extra[k] = v; mu.Unlock() }
func Exhaustive(b bool)     { mu.Lock(); st.Exhaustive = b; mu.Unlock() }
func Infra(format string, a ...any) {
	mu.Lock()
	st.Infra = append(st.Infra, fmt.Sprintf(format, a...))
	mu.Unlock()
}

var (
	knownOnce sync.Once
	knownSigs map[string]bool
)

// IsKnown reports whether sig is listed with kind "known" for this property in
// known_findings.json (VERIF_KNOWN). The file is read-only for the checks.
func IsKnown(sig string) bool {
	knownOnce.Do(func() {
		knownSigs = map[string]bool{}
		b, err := os.ReadFile(env("VERIF_KNOWN", "/verif/known_findings.json"))
		if err != nil {
			return
		}
		var f struct {
			Findings []struct {
				Property string `json:"property"`
				Kind     string `json:"kind"`
				Sig      string `json:"sig"`
			} `json:"findings"`
		}
		if json.Unmarshal(b, &f) != nil {
			return
		}
		for _, k := range f.Findings {
			if k.Property == Prop() && k.Kind == "known" {
				knownSigs[k.Sig] = true
			}
		}
	})
	return knownSigs[sig]
}

// KnownFinding counts an occurrence of a finding listed in known_findings.json.
func KnownFinding(sig, what string) {
	mu.Lock()
	k := st.Known[sig]
	k.Sig, k.What = sig, what
	k.Count++
	st.Known[sig] = k
	mu.Unlock()
}

var replaySeq int

// WriteReplay stores content under VERIF_OUT and returns its path.
func WriteReplay(test, ext string, content []byte) string {
	mu.Lock()
	replaySeq++
	n := replaySeq
	mu.Unlock()
	dir := filepath.Join(OutDir(), "replays")
	os.MkdirAll(dir, 0o755)
	name := fmt.Sprintf("%s-%s-s%d-%d-%s.%s", Prop(), sanitize(test), Shard(), n, Hash(string(content))[:8], ext)
	p := filepath.Join(dir, name)
	os.WriteFile(p, content, 0o644)
	return p
}

func sanitize(s string) string {
	return strings.Map(func(r rune) rune {
		if r >= 'a' && r <= 'z' || r >= 'A' && r <= 'Z' || r >= '0' && r <= '9' {
			return r
		}
		return '_'
	}, s)
}

// Violate records a violation directly (for checks that do not go through rapid).
func Violate(test, msg, ext string, replay []byte) {
	p := WriteReplay(test, ext, replay)
	mu.Lock()
	st.Violations = append(st.Violations, Violation{Msg: trunc(msg, 4000), Replay: p, Test: test})
	mu.Unlock()
	fmt.Printf("VERIF-VIOLATION test=%s replay=%s\n%s\n", test, p, trunc(msg, 4000))
}

func trunc(s string, n int) string {
	if len(s) > n {
		return s[:n] + "…"
	}
	return s
}

// pending is the last case a rapid property declared before running the code
// under test. rapid re-runs the minimal failing case last, so when
// rapid.Check has failed, pending is the shrunk case.
type pendingCase struct {
	ext     string
	content []byte
	msg     string
	failed  bool
}

var pend = map[string]*pendingCase{}

// Begin declares the replay content of the case about to be evaluated.
func Begin(test, ext string, content []byte) {
	mu.Lock()
	pend[test] = &pendingCase{ext: ext, content: content}
	mu.Unlock()
	if os.Getenv("VERIF_RACE") != "" {
		// under the race detector the process is halted at the first report:
		// leave the case on disk so that the driver can attach it
		dir := filepath.Join(OutDir(), "current")
		os.MkdirAll(dir, 0o755)
		os.WriteFile(filepath.Join(dir, fmt.Sprintf("%s.%d.%s", Prop(), Shard(), ext)), content, 0o644)
	}
}

// Failf marks the current case as failing and aborts the rapid case.
func Failf(rt *rapid.T, test, format string, a ...any) {
	msg := fmt.Sprintf(format, a...)
	mu.Lock()
	if p := pend[test]; p != nil {
		p.failed = true
		p.msg = msg
	}
	mu.Unlock()
	rt.Fatalf("%s", trunc(msg, 4000))
}

// Check runs a rapid property under the harness conventions. A failure
// (Failf, or a panic escaping the code under test) becomes a recorded
// violation with the shrunk case as replay file.
func Check(t *testing.T, test string, prop func(rt *rapid.T)) {
	t.Helper()
	os.RemoveAll("testdata/rapid")
	defer func() {
		if t.Failed() {
			mu.Lock()
			p := pend[test]
			mu.Unlock()
			if p == nil {
				Infra("test %s failed before any case was declared", test)
				return
			}
			msg := p.msg
			if !p.failed {
				msg = "property aborted without Failf (panic or error in code under test); see log"
			}
			Violate(test, msg, p.ext, p.content)
		}
	}()
	rapid.Check(t, func(rt *rapid.T) {
		if PastDeadline() {
			return
		}
		prop(rt)
	})
}

func Flush() {
	mu.Lock()
	defer mu.Unlock()
	st.Hashes = st.Hashes[:0]
	for h := range hashes {
		st.Hashes = append(st.Hashes, h)
	}
	sort.Strings(st.Hashes)
	st.WallS = time.Since(start).Seconds()
	dir := filepath.Join(OutDir(), "shards")
	os.MkdirAll(dir, 0o755)
	b, err := json.Marshal(&st)
	if err != nil {
		// samples must be JSON-encodable; degrade rather than lose the shard
		st.Samples = []any{fmt.Sprintf("unencodable samples: %v", err)}
		b, _ = json.Marshal(&st)
	}
	os.WriteFile(filepath.Join(dir, fmt.Sprintf("%s.%d.json", Prop(), Shard())), b, 0o644)
}
