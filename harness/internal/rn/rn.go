// Package rn runs the real lintcmd/runner in-process (the same code path
// cmd/staticcheck uses) with arbitrary analyzers, including probe analyzers
// defined by the harness.
package rn

import (
	"fmt"
	"os"
	"sort"
	"sync"

	"golang.org/x/tools/go/analysis"
	"golang.org/x/tools/go/packages"
	"honnef.co/go/tools/analysis/lint"
	"honnef.co/go/tools/config"
	"honnef.co/go/tools/lintcmd/cache"
	"honnef.co/go/tools/lintcmd/runner"
	"honnef.co/go/tools/quickfix"
	"honnef.co/go/tools/simple"
	"honnef.co/go/tools/staticcheck"
	"honnef.co/go/tools/stylecheck"
	"honnef.co/go/tools/unused"
)

// Lint returns the analyzers cmd/staticcheck registers.
func Lint(withQuickfix bool) []*lint.Analyzer {
	var out []*lint.Analyzer
	out = append(out, simple.Analyzers...)
	out = append(out, staticcheck.Analyzers...)
	out = append(out, stylecheck.Analyzers...)
	out = append(out, unused.Analyzer)
	if withQuickfix {
		out = append(out, quickfix.Analyzers...)
	}
	return out
}

func Analyzers(withQuickfix bool) []*analysis.Analyzer {
	var out []*analysis.Analyzer
	for _, a := range Lint(withQuickfix) {
		out = append(out, a.Analyzer)
	}
	return out
}

var (
	findOnce sync.Once
	byName   map[string]*analysis.Analyzer
)

// Find returns the analyzer with the given name from the transitive Requires
// graph of the registered checks. It gives probe analyzers access to helper
// analyzers that live in internal packages (tokenfile, generated, ...).
func Find(name string) *analysis.Analyzer {
	findOnce.Do(func() {
		byName = map[string]*analysis.Analyzer{}
		var visit func(a *analysis.Analyzer)
		visit = func(a *analysis.Analyzer) {
			if _, ok := byName[a.Name]; ok {
				return
			}
			byName[a.Name] = a
			for _, r := range a.Requires {
				visit(r)
			}
		}
		for _, a := range Analyzers(true) {
			visit(a)
		}
	})
	a := byName[name]
	if a == nil {
		var names []string
		for n := range byName {
			names = append(names, n)
		}
		sort.Strings(names)
		panic(fmt.Sprintf("analyzer %q not found; known: %v", name, names))
	}
	return a
}

type Options struct {
	Dir       string   // module directory
	GoVersion string   // "module" (default) or "go1.N"
	Env       []string // extra environment (GOOS=..., GOFLAGS=...)
	Flags     []string // build flags (-tags=...)
	Tests     bool
	Config    *config.Config // command-line config; nil = config.DefaultConfig
	CacheDir  string         // cache directory; "" = one directory per test process (see FreshCache)
	// FreshCache uses an empty cache that is removed afterwards. The default is a
	// per-process cache, as a user's repeated staticcheck runs would have: results
	// of dependencies (std) are computed once per process instead of once per case.
	// Cache transparency itself is the subject of C04/C05.
	FreshCache bool
}

var (
	procCacheOnce sync.Once
	procCacheDir  string
)

func processCache() string {
	procCacheOnce.Do(func() {
		d, err := os.MkdirTemp("", "rn-proc-cache-")
		if err != nil {
			panic(err)
		}
		procCacheDir = d
	})
	return procCacheDir
}

var saltOnce sync.Once

// Run executes the runner. Results reference files in the cache directory, so
// the callback receives them before a temporary cache is removed.
func Run(opts Options, analyzers []*analysis.Analyzer, patterns []string, fn func([]runner.Result) error) error {
	saltOnce.Do(func() { cache.SetSalt([]byte("verif-harness")) })
	dir := opts.CacheDir
	if opts.FreshCache {
		d, err := os.MkdirTemp("", "rncache-")
		if err != nil {
			return err
		}
		defer os.RemoveAll(d)
		dir = d
	} else if dir == "" {
		dir = processCache()
	}
	c, err := cache.Open(dir)
	if err != nil {
		return err
	}
	cfg := config.DefaultConfig
	if opts.Config != nil {
		cfg = *opts.Config
	}
	r, err := runner.New(cfg, c)
	if err != nil {
		return err
	}
	r.GoVersion = opts.GoVersion
	if r.GoVersion == "" {
		r.GoVersion = "module"
	}
	pcfg := &packages.Config{Dir: opts.Dir, Tests: opts.Tests, BuildFlags: opts.Flags}
	pcfg.Env = append(os.Environ(), opts.Env...)
	res, err := r.Run(pcfg, analyzers, patterns)
	if err != nil {
		return err
	}
	sort.Slice(res, func(i, j int) bool { return res[i].Package.ID < res[j].Package.ID })
	return fn(res)
}
